/-
  One complete well-formed value delivered in a generic position (`interface{}`): mutual
  structural induction over the value tree, its element list, its member list.
-/
import SF.Proofs.UnfGenMap
namespace SF.Unf
open SF

/-! ### facts about base type codes -/

theorem btKind_valid : ∀ bt : Fin 17, btKind bt.val = some (kindOf bt.val) := by decide

theorem btKind_of_le (bt : Nat) (h : bt ≤ 16) : btKind bt = some (kindOf bt) :=
  btKind_valid ⟨bt, by omega⟩

theorem kindOf_any : ∀ bt : Fin 17, (kindOf bt.val = .ifc) = (isAnyBT bt.val = true) := by decide

theorem kindOf_ifc_of_any (bt : Nat) (h : bt ≤ 16) (ha : isAnyBT bt = true) : kindOf bt = .ifc := by
  have := kindOf_any ⟨bt, by omega⟩
  simp only at this
  rw [this]; exact ha

theorem kindOf_ne_ifc (bt : Nat) (h : bt ≤ 16) (ha : isAnyBT bt = false) : kindOf bt ≠ .ifc := by
  have := kindOf_any ⟨bt, by omega⟩
  simp only at this
  intro hk
  rw [this, ha] at hk
  simp at hk

theorem mod256 (bt : Nat) (h : bt ≤ 16) : bt % 256 = bt := by omega

/-! ### scalars -/

theorem scalar_deliver (f : Nat) (s : Sc) (c : Ctx) (k : PK) (v : GoVal)
    (hu : c.unfolder.current = .prim k ∨ c.unfolder.current = .arr k ∨ c.unfolder.current = .mapVal k)
    (hc : k.conv s = some v) :
    onScalar (f + 1) s c = pukDeliver c.unfolder.current v c := by
  rcases hu with h | h | h <;> simp [onScalar, bind_def, currentU_eq, h, hc]

theorem wrapTo_inRange (k : NumKind) (v : Int) (h : k.inRange v = true) : wrapTo k v = v := by
  unfold wrapTo
  simp only [NumKind.inRange, Bool.and_eq_true] at h
  obtain ⟨h1, h2⟩ := h
  have h1 := of_decide_eq_true h1
  have h2 := of_decide_eq_true h2
  cases k <;> simp only [NumKind.lo, NumKind.hi] at h1 h2 <;>
    simp only [kindBits, NumKind.signed, Bool.true_and, Bool.false_and, Bool.false_eq_true, if_false,
      Int.reducePow, Int.reduceDiv] <;>
    first
    | omega
    | (split
       · rename_i hc; have := of_decide_eq_true hc; omega
       · rename_i hc; have := of_decide_eq_false (Bool.eq_false_iff.mpr hc); omega)

theorem inRange_normKind (k : NumKind) (v : Int) : (normKind k).inRange v = k.inRange v := by
  cases k <;> rfl

theorem kindOf_baseType (k : NumKind) : kindOf k.baseType = .num (normKind k) := by
  cases k <;> decide

theorem conv_typed (bt : Nat) (s : Sc) (h : s.fits bt = true) :
    (kindOf bt).conv s = some (Spec.scVal s) := by
  cases s with
  | nil => simp [Sc.fits] at h
  | bool b => simp only [Sc.fits, beq_iff_eq] at h; subst h; rfl
  | str x => simp only [Sc.fits, beq_iff_eq] at h; subst h; rfl
  | f32 b => simp only [Sc.fits, beq_iff_eq] at h; subst h; rfl
  | f64 b => simp only [Sc.fits, beq_iff_eq] at h; subst h; rfl
  | num k v =>
    simp only [Sc.fits, Bool.and_eq_true, Bool.or_eq_true, beq_iff_eq] at h
    obtain ⟨hr, hb⟩ := h
    have hk : kindOf bt = .num (normKind k) := by
      rcases hb with hb | ⟨hb | hb, hk | hk⟩
      · rw [hb]; exact kindOf_baseType k
      all_goals (subst hb; subst hk; decide)
    rw [hk]
    simp only [PK.conv, Spec.scVal, wrapTo_inRange k v hr,
      wrapTo_inRange (normKind k) v (by rw [inRange_normKind]; exact hr)]

theorem conv_ifc (s : Sc) (h : s.inRange = true) : PK.ifc.conv s = some (scGen s) := by
  cases s with
  | num k v => simp only [PK.conv, scGen, wrapTo_inRange k v h]
  | _ => rfl

theorem genList_length (k : PK) (xs : List UTree) : (genList k xs).length = xs.length := by
  induction xs with
  | nil => rfl
  | cons x r ih => simp [genList, ih]

/-! ### the key cache along the way -/

/-- the key cache after some by-reference keys: still well-formed, same configuration -/
def KCOk (kc kc' : Symbols.Cache) : Prop :=
  Symbols.Inv kc' ∧ kc'.enabled = kc.enabled ∧ kc'.max = kc.max

theorem KCOk.refl {kc : Symbols.Cache} (h : Symbols.Inv kc) : KCOk kc kc := ⟨h, rfl, rfl⟩

theorem KCOk.trans {a b d : Symbols.Cache} (h1 : KCOk a b) (h2 : KCOk b d) : KCOk a d :=
  ⟨h2.1, h2.2.1.trans h1.2.1, h2.2.2.trans h1.2.2⟩

/-- one `symbolCache.get` under the representation invariant (C20): no panic, the key itself -/
theorem kc_get (kc : Symbols.Cache) (k : Bytes) (hi : Symbols.Inv kc) :
    ∃ kc', Symbols.get kc k = .ok (kc', k) ∧ KCOk kc kc' := by
  unfold Symbols.get
  by_cases he : kc.enabled = true
  · simp only [he, Bool.not_true, Bool.false_eq_true, if_false]
    by_cases hk : k ∈ kc.m
    · obtain ⟨h1, h2⟩ := Symbols.lookup_hit hi hk
      exact ⟨_, by rw [h1], h2, rfl, rfl⟩
    · rw [Symbols.lookup_miss hk]
      obtain ⟨c', h1, h2, h3, h4, _⟩ := Symbols.add_ok hi he hk
      exact ⟨c', by simp [h1], h2, by simp [h3, he], h4⟩
  · have he' : kc.enabled = false := by simpa using he
    exact ⟨kc, by simp [he'], hi, rfl, rfl⟩

@[simp] theorem setKC_self (c : Ctx) : setKC c c.keyCache = c := by cases c; rfl
@[simp] theorem setKC_setKC (c : Ctx) (a b : Symbols.Cache) : setKC (setKC c a) b = setKC c b := rfl

/-! ### after the delivery -/

/-- what `unfoldCtx.OnArrayFinished` / `OnObjectFinished` still do after the finished
container was delivered to its parent: `reportChildDone` keeps notifying while the unfolder
stack keeps shrinking (it does after `unfolderIfc.assign`, which pops itself) -/
def after (t : UTree) (S : Nat) : M Unit :=
  match t with
  | .arr _ _ _ => reportChildDone onChildArrayDone (S + 2) (S + 1)
  | .obj _ _ _ => reportChildDone onChildObjectDone (S + 2) (S + 1)
  | _ => pure ()

theorem after_noshrink (t : UTree) (c : Ctx) : after t c.unfolder.stack.length c = .ok () c := by
  cases t with
  | arr l bt xs => exact report_same _ _ c
  | obj l bt ms => exact report_same _ _ c
  | _ => rfl

theorem bind_pure_unit (m : M Unit) (c : Ctx) : (m >>= fun _ => (pure () : M Unit)) c = m c := by
  rw [bind_def]
  cases m c <;> rfl

/-! ### the induction -/

theorem wfList_cons (bt : Nat) (x : UTree) (r : List UTree) (h : wfList bt (x :: r) = true) :
    (if isAnyBT bt then x.wf else x.fits bt) = true ∧ wfList bt r = true := by
  rw [wfList, Bool.and_eq_true] at h; exact h

theorem wfMems_cons (bt : Nat) (b : Bool) (k : Bytes) (x : UTree) (r : List (Bool × Bytes × UTree))
    (h : wfMems bt ((b, k, x) :: r) = true) :
    (if isAnyBT bt then x.wf else x.fits bt) = true ∧ wfMems bt r = true := by
  rw [wfMems, Bool.and_eq_true] at h; exact h

/-- a typed element is one scalar event that the element kind converts -/
theorem typed_elem (f : Nat) (bt : Nat) (x : UTree) (c : Ctx) (hf : x.fits bt = true)
    (hu : c.unfolder.current = .arr (kindOf bt) ∨ c.unfolder.current = .mapVal (kindOf bt)) :
    run (f + 1) x.events c = pukDeliver c.unfolder.current (x.typed (kindOf bt)) c := by
  have hu' : c.unfolder.current = .prim (kindOf bt) ∨ c.unfolder.current = .arr (kindOf bt) ∨
      c.unfolder.current = .mapVal (kindOf bt) := Or.inr hu
  cases x with
  | scalar s =>
    have hc := conv_typed bt s hf
    rw [UTree.events, run_single]
    simp only [stepEv, UTree.typed, hc, Option.getD_some]
    exact scalar_deliver f s c _ _ hu' hc
  | strRef s =>
    have hc := conv_typed bt (.str s) (by simpa [UTree.fits, Sc.fits] using hf)
    rw [UTree.events, run_single]
    simp only [stepEv, onStringRef, UTree.typed, hc, Option.getD_some]
    exact scalar_deliver f (.str s) c _ _ hu' hc
  | arr l b xs => simp [UTree.fits] at hf
  | obj l b ms => simp [UTree.fits] at hf

mutual
/-- one complete well-formed value in a generic position: its events deliver `t.gen` exactly as
`pukDeliver` would, in a context that differs from the initial one in the key cache only -/
theorem tree_generic (f : Nat) (t : UTree) (c : Ctx) (hwf : t.wf = true)
    (hu : isSink c.unfolder.current) (hS : c.unfolder.stack ≠ []) (hkc : Symbols.Inv c.keyCache) :
    ∃ kc', KCOk c.keyCache kc' ∧
      run (f + 1) t.events c =
        (pukDeliver c.unfolder.current t.gen >>= fun _ => after t c.unfolder.stack.length) (setKC c kc') := by
  have hu3 : c.unfolder.current = .prim .ifc ∨ c.unfolder.current = .arr .ifc ∨ c.unfolder.current = .mapVal .ifc := hu
  match t with
  | .scalar s =>
    refine ⟨c.keyCache, KCOk.refl hkc, ?_⟩
    rw [UTree.events, run_single, setKC_self]
    simp only [stepEv, after, UTree.gen]
    rw [bind_pure_unit]
    exact scalar_deliver f s c .ifc _ hu3 (conv_ifc s (by simpa [UTree.wf] using hwf))
  | .strRef s =>
    refine ⟨c.keyCache, KCOk.refl hkc, ?_⟩
    rw [UTree.events, run_single, setKC_self]
    simp only [stepEv, onStringRef, after, UTree.gen]
    rw [bind_pure_unit]
    exact scalar_deliver f (.str s) c .ifc _ hu3 rfl
  | .arr l bt xs =>
    simp only [UTree.wf, Bool.and_eq_true, decide_eq_true_eq] at hwf
    obtain ⟨⟨hl, hbt⟩, hxs⟩ := hwf
    have hk := btKind_of_le bt hbt
    have h1 : stepEv (f + 1) (.arrStart l bt) c = .ok () (arrCtx c (kindOf bt) bt l []) := by
      simp only [stepEv, mod256 bt hbt]
      exact arrStart_sink f l bt _ c hu hk
    obtain ⟨kc', hok, hrun⟩ := list_generic f xs c bt l [] hbt hxs hkc
    refine ⟨kc', hok, ?_⟩
    rw [UTree.events, List.cons_append, run_cons_ok _ _ _ _ _ h1, run_ok_then _ _ _ _ _ hrun, run_single,
      arrEnd_arrCtx f (setKC c kc') _ _ bt l _ hu hk hS, List.nil_append,
      sliceSt_final _ _ _ _ (by rw [genList_length]; exact hl)]
    rfl
  | .obj l bt ms =>
    simp only [UTree.wf, Bool.and_eq_true, decide_eq_true_eq] at hwf
    obtain ⟨hbt, hms⟩ := hwf
    have hk := btKind_of_le bt hbt
    have h1 : stepEv (f + 1) (.objStart l bt) c = .ok () (mapCtx c (kindOf bt) bt []) := by
      simp only [stepEv, mod256 bt hbt]
      exact objStart_sink f l bt _ c hu hk
    obtain ⟨kc', hok, hrun⟩ := mems_generic f ms c bt [] hbt hms hkc
    refine ⟨kc', hok, ?_⟩
    rw [UTree.events, List.cons_append, run_cons_ok _ _ _ _ _ h1, run_ok_then _ _ _ _ _ hrun, run_single,
      objEnd_mapCtx f (setKC c kc') _ bt _ hu hk hS]
    rfl
/-- the elements of a sub-array, generic or typed -/
theorem list_generic (f : Nat) (xs : List UTree) (c : Ctx) (bt : Nat) (l : Int) (vs : List GoVal)
    (hbt : bt ≤ 16) (hwf : wfList bt xs = true) (hkc : Symbols.Inv c.keyCache) :
    ∃ kc', KCOk c.keyCache kc' ∧
      run (f + 1) (eventsList xs) (arrCtx c (kindOf bt) bt l vs) =
        .ok () (arrCtx (setKC c kc') (kindOf bt) bt l (vs ++ genList (kindOf bt) xs)) := by
  match xs with
  | [] =>
    refine ⟨c.keyCache, KCOk.refl hkc, ?_⟩
    simp [eventsList, run, genList]
  | x :: r =>
    obtain ⟨hx, hr⟩ := wfList_cons bt x r hwf
    by_cases ha : isAnyBT bt = true
    · have hki := kindOf_ifc_of_any bt hbt ha
      rw [if_pos ha] at hx
      obtain ⟨kc1, hok1, hrun1⟩ := tree_generic f x (arrCtx c (kindOf bt) bt l vs) hx
        (Or.inr (Or.inl (by rw [hki]; rfl))) (by simp [arrCtx]) hkc
      have hstep : run (f + 1) x.events (arrCtx c (kindOf bt) bt l vs) =
          .ok () (arrCtx (setKC c kc1) (kindOf bt) bt l (vs ++ [x.gen])) := by
        rw [hrun1, bind_def]
        have : pukDeliver (arrCtx c (kindOf bt) bt l vs).unfolder.current x.gen
            (setKC (arrCtx c (kindOf bt) bt l vs) kc1) =
            .ok () (arrCtx (setKC c kc1) (kindOf bt) bt l (vs ++ [x.gen])) :=
          arrAppend_arrCtx x.gen (setKC c kc1) (kindOf bt) bt l vs
        rw [this]
        exact after_noshrink x (arrCtx (setKC c kc1) (kindOf bt) bt l (vs ++ [x.gen]))
      obtain ⟨kc2, hok2, hrun2⟩ := list_generic f r (setKC c kc1) bt l (vs ++ [x.gen]) hbt hr hok1.1
      refine ⟨kc2, hok1.trans hok2, ?_⟩
      rw [eventsList, run_ok_then _ _ _ _ _ hstep, hrun2, genList, if_pos hki, setKC_setKC, List.append_assoc]
      rfl
    · have ha' : isAnyBT bt = false := by simpa using ha
      have hki := kindOf_ne_ifc bt hbt ha'
      rw [if_neg ha] at hx
      have hstep : run (f + 1) x.events (arrCtx c (kindOf bt) bt l vs) =
          .ok () (arrCtx c (kindOf bt) bt l (vs ++ [x.typed (kindOf bt)])) := by
        rw [typed_elem f bt x _ hx (Or.inl rfl)]
        exact arrAppend_arrCtx _ c (kindOf bt) bt l vs
      obtain ⟨kc2, hok2, hrun2⟩ := list_generic f r c bt l (vs ++ [x.typed (kindOf bt)]) hbt hr hkc
      refine ⟨kc2, hok2, ?_⟩
      rw [eventsList, run_ok_then _ _ _ _ _ hstep, hrun2, genList, if_neg hki, List.append_assoc]
      rfl
/-- the members of a sub-object, generic or typed, keys by value or by reference -/
theorem mems_generic (f : Nat) (ms : List (Bool × Bytes × UTree)) (c : Ctx) (bt : Nat)
    (acc : List (Bytes × GoVal))
    (hbt : bt ≤ 16) (hwf : wfMems bt ms = true) (hkc : Symbols.Inv c.keyCache) :
    ∃ kc', KCOk c.keyCache kc' ∧
      run (f + 1) (eventsMems ms) (mapCtx c (kindOf bt) bt acc) =
        .ok () (mapCtx (setKC c kc') (kindOf bt) bt (genMems (kindOf bt) ms acc)) := by
  match ms with
  | [] =>
    refine ⟨c.keyCache, KCOk.refl hkc, ?_⟩
    simp [eventsMems, run, genMems]
  | (byRef, key, x) :: r =>
    obtain ⟨hx, hr⟩ := wfMems_cons bt byRef key x r hwf
    -- the key
    obtain ⟨kc0, hok0, hkey⟩ : ∃ kc0, KCOk c.keyCache kc0 ∧
        stepEv (f + 1) (if byRef then UEv.keyRef key else UEv.key key) (mapCtx c (kindOf bt) bt acc) =
          .ok () (mapValCtx (setKC c kc0) (kindOf bt) bt acc key) := by
      cases byRef with
      | false =>
        refine ⟨c.keyCache, KCOk.refl hkc, ?_⟩
        simp only [Bool.false_eq_true, if_false, stepEv, setKC_self]
        exact onKey_mapCtx c _ bt acc key
      | true =>
        obtain ⟨kc0, hg, hok0⟩ := kc_get c.keyCache key hkc
        refine ⟨kc0, hok0, ?_⟩
        simp only [if_true, stepEv]
        exact onKeyRef_mapCtx c _ bt acc key kc0 hg
    by_cases ha : isAnyBT bt = true
    · have hki := kindOf_ifc_of_any bt hbt ha
      rw [if_pos ha] at hx
      obtain ⟨kc1, hok1, hrun1⟩ := tree_generic f x (mapValCtx (setKC c kc0) (kindOf bt) bt acc key) hx
        (Or.inr (Or.inr (by rw [hki]; rfl))) (by simp [mapValCtx]) hok0.1
      have hstep : run (f + 1) x.events (mapValCtx (setKC c kc0) (kindOf bt) bt acc key) =
          .ok () (mapCtx (setKC c kc1) (kindOf bt) bt (mapSet acc key x.gen)) := by
        rw [hrun1, bind_def]
        have : pukDeliver (mapValCtx (setKC c kc0) (kindOf bt) bt acc key).unfolder.current x.gen
            (setKC (mapValCtx (setKC c kc0) (kindOf bt) bt acc key) kc1) =
            .ok () (mapCtx (setKC c kc1) (kindOf bt) bt (mapSet acc key x.gen)) :=
          mapPut_mapValCtx (setKC c kc1) (kindOf bt) bt acc key x.gen
        rw [this]
        exact after_noshrink x (mapCtx (setKC c kc1) (kindOf bt) bt (mapSet acc key x.gen))
      obtain ⟨kc2, hok2, hrun2⟩ := mems_generic f r (setKC c kc1) bt (mapSet acc key x.gen) hbt hr hok1.1
      refine ⟨kc2, (hok0.trans hok1).trans hok2, ?_⟩
      rw [eventsMems, List.cons_append, run_cons_ok _ _ _ _ _ hkey, run_ok_then _ _ _ _ _ hstep, hrun2, genMems,
        if_pos hki, setKC_setKC]
    · have ha' : isAnyBT bt = false := by simpa using ha
      have hki := kindOf_ne_ifc bt hbt ha'
      rw [if_neg ha] at hx
      have hstep : run (f + 1) x.events (mapValCtx (setKC c kc0) (kindOf bt) bt acc key) =
          .ok () (mapCtx (setKC c kc0) (kindOf bt) bt (mapSet acc key (x.typed (kindOf bt)))) := by
        rw [typed_elem f bt x _ hx (Or.inr rfl)]
        exact mapPut_mapValCtx (setKC c kc0) (kindOf bt) bt acc key _
      obtain ⟨kc2, hok2, hrun2⟩ := mems_generic f r (setKC c kc0) bt (mapSet acc key (x.typed (kindOf bt))) hbt hr hok0.1
      refine ⟨kc2, hok0.trans hok2, ?_⟩
      rw [eventsMems, List.cons_append, run_cons_ok _ _ _ _ _ hkey, run_ok_then _ _ _ _ _ hstep, hrun2, genMems,
        if_neg hki, setKC_setKC]
end

end SF.Unf
