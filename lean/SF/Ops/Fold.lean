/-
  SF.Ops.Fold — handlers of the gotype fold ops (harness/sfh/ops_fold.go):

    fold <type> <value> <failAt|-1> [nf] -> <xevents>|<ok|err|err:injected|panic|fatal>
    fold-seq <type> <value> <type> <value> …
                                        -> <ev|verdict>;;…||<ev|verdict>;;…        or  fatal
    typeinfo <type>                     -> canonical view of the type descriptor
    goval <type> <value>                -> canonical print of the parsed value

  Model = `Fold.impl` (mirror), guided by the observed events for Go's map iteration order.
  Oracles (specification only, evaluated on the implementation's observation):
    C12  build (expandAll events) = Rules.fold T v   (map members as multisets)
    C09  WF1 (expandAll events) for every fold that returned nil
    C16  visitor failing at event k: the injected error is returned, no event after it
    C17  (fold-seq) one iterator for several values = a fresh iterator per value
-/
import SF.Ops.Common
import SF.Gotype.Fold
import SF.Gotype.Rules
namespace SF.Ops
open SF SF.Gotype

def slashed (xs : List String) : String := "/".intercalate xs
def tf (b : Bool) : String := if b then "T" else "F"

/-- token of an extended event, as printed by the harness XRecorder -/
def XEv.toTok : XEv → String
  | .ev e => e.toTok
  | .strRef s => "R:" ++ toHex s
  | .keyRef s => "Q:" ++ toHex s
  | .boolArr xs => s!"Abool:{xs.length}:{slashed (xs.map tf)}"
  | .strArr xs => s!"Astr:{xs.length}:{slashed (xs.map toHex)}"
  | .numArr k xs => s!"A{k.name}:{xs.length}:{slashed (xs.map intToDec)}"
  | .f32Arr xs => s!"Af32:{xs.length}:{slashed (xs.map fun b => hexN 8 b.toNat)}"
  | .f64Arr xs => s!"Af64:{xs.length}:{slashed (xs.map fun b => hexN 16 b.toNat)}"
  | .boolObj ms => s!"Obool:{ms.length}:{slashed (ms.map fun m => toHex m.1 ++ "=" ++ tf m.2)}"
  | .strObj ms => s!"Ostr:{ms.length}:{slashed (ms.map fun m => toHex m.1 ++ "=" ++ toHex m.2)}"
  | .numObj k ms => s!"O{k.name}:{ms.length}:{slashed (ms.map fun m => toHex m.1 ++ "=" ++ intToDec m.2)}"
  | .f32Obj ms => s!"Of32:{ms.length}:{slashed (ms.map fun m => toHex m.1 ++ "=" ++ hexN 8 m.2.toNat)}"
  | .f64Obj ms => s!"Of64:{ms.length}:{slashed (ms.map fun m => toHex m.1 ++ "=" ++ hexN 16 m.2.toNat)}"

def xevsToString (xs : List XEv) : String :=
  if xs.isEmpty then "-" else ",".intercalate (xs.map XEv.toTok)

def resToString : Fold.Res → String
  | .ok => "ok"
  | .err .injected => "err:injected"
  | .err _ => "err"
  | .panic => "panic"
  | .fatal => "fatal"

/-- observed `<events>|<verdict>`: the events (the order oracle) and the verdict -/
def splitObs (obs : String) : List XEv × String :=
  match obs.splitOn "|" with
  | [e, v] => ((parseXEvs e).getD [], v)
  | _ => ([], obs)

def foldModel (failAt : Option Nat) (t : GoType) (v : GoVal) (obs : String) (reg : Bool := true) : Fold.Outcome :=
  Fold.impl { failAt := failAt, order := (splitObs obs).1, folders := reg } t v

def outcomeToString (o : Fold.Outcome) : String := xevsToString o.evs ++ "|" ++ resToString o.res

/-! ## oracles -/

/-- compact one-line print of a value (JSON-like; strings and keys in hex) -/
def showValF : Nat → Val → String
  | 0, _ => "…"
  | fuel + 1, v =>
    match v with
    | .null => "null"
    | .bool b => if b then "true" else "false"
    | .int i => intToDec i
    | .f32 b => "f32:" ++ hexN 8 b.toNat
    | .f64 b => "f64:" ++ hexN 16 b.toNat
    | .str s => "s:" ++ toHex s
    | .arr xs => "[" ++ ",".intercalate (xs.map (showValF fuel)) ++ "]"
    | .obj ms => "{" ++ ",".intercalate (ms.map fun (k, x) => toHex k ++ ":" ++ showValF fuel x) ++ "}"
def showVal (v : Val) : String := showValF 1000 v

def showRuleErr : Rules.RuleErr → String
  | .unsupported => "unsupported-type" | .nonStringKey => "non-string-map-key"
  | .inlineAndOmitEmpty => "inline-and-omitempty" | .inlineNeedsObject => "inline-needs-object"
  | .userCode => "user-code" | .fuel => "spec-fuel"

def sigOfType (t : GoType) : String := t.print

/-- the value reaches a custom folder of the menagerie through a pointer, or is of a
pointer-shaped type with a registered fold function (`UFM`, `UFP`): the library has to compute
the address the folder is called with -/
def reachesFolderByAddress (t : GoType) (v : GoVal) : Bool :=
  let s := t.print ++ " " ++ v.print
  (s.splitOn "*@").length > 1 || (s.splitOn "@UFM").length > 1 || (s.splitOn "@UFP").length > 1

/-- C12 + C09 on one un-faulted fold observation -/
def foldOracle (t : GoType) (v : GoVal) (obs : String) (reg : Bool := true) : List String :=
  let (xevs, verdict) := splitObs obs
  let ctx := s!"type={t.print} value={v.print}" ++ (if reg then "" else " no-folders")
  match Rules.foldR t v reg with
  | .error .userCode => []                      -- a custom folder that emits no single value: no demand
  | .error e =>
    if verdict == "err" then []
    else if verdict == "ok" then [s!"C12 fold-accepts-what-the-rules-refuse rule={showRuleErr e} {ctx}"]
    else [s!"C12 fold-{verdict}-instead-of-error rule={showRuleErr e} {ctx}"]
  | .ok want =>
    if verdict == "panic" || verdict == "fatal" || verdict == "hang" then
      [s!"C12 fold-{verdict} {ctx}"] ++
        (if verdict != "hang" && reachesFolderByAddress t v then
           [s!"C15 custom-folder-read-other-memory fold-{verdict} {ctx}"] else [])
    else if verdict != "ok" then [s!"C12 fold-error-on-supported-value {ctx}"]
    else
      let evs := expandAll xevs
      (if WF1 evs then [] else [s!"C09 fold-ill-formed-stream firstBad={(wfFirstBad evs).getD 0} {ctx}"]) ++
      (match build evs with
       | none => [s!"C12 fold-events-describe-no-value {ctx}"]
       | some got =>
         if Rules.agrees want got then []
         -- reading (Rules.lean header): a nil `*T` whose folder belongs to the pointer type, reached
         -- by dereferencing ANOTHER pointer (`**T` holding `&nil`) — "nil at any level ⇒ null" and
         -- "the folder decides" both apply; the code reports null, the documentation is silent: no
         -- demand (only `FPN` of the menagerie gives nil a meaning other than null)
         else if ((t.print ++ " " ++ v.print).splitOn "**@FPN").length > 1 then []
         else [s!"C12 fold-wrong-value want={showVal want.toVal} got={showVal got} {ctx}"] ++
           -- the folders of the menagerie are fixed harness code: a wrong value for a type that
           -- reaches one of them through a pointer means the folder was handed the address of
           -- something else (C15: an invalid pointer conversion on the way to user code)
           (if reachesFolderByAddress t v then
              [s!"C15 custom-folder-read-other-memory got={showVal got} {ctx}"] else []))

/-- C16 on a faulted fold observation -/
def foldFaultOracle (k : Nat) (t : GoType) (v : GoVal) (obs : String) : List String :=
  let (xevs, verdict) := splitObs obs
  let ctx := s!"k={k} type={t.print} value={v.print}"
  if xevs.length > k + 1 then [s!"C16 fold-delivers-events-after-visitor-error delivered={xevs.length} {ctx}"]
  else if xevs.length == k + 1 && verdict != "err:injected" then
    [s!"C16 fold-loses-visitor-error verdict={verdict} {ctx}"]
  else []

/-! ## ops -/

/-- fold <type> <value> <failAt> [nf]      (nf: iterator without the user fold functions) -/
def opFold (args : List String) (impl : String) : Result :=
  let reg := args.length != 4
  match args.take 3 with
  | [ts, vs, ks] =>
    if args.length == 4 && args[3]? != some "nf" then noModel else
    match GoType.parse? ts, decToInt? ks with
    | some t, some k =>
      match GoVal.parse? t vs with
      | some v =>
        let failAt := if k < 0 then none else some k.toNat
        let o := foldModel failAt t v impl reg
        let model := outcomeToString o
        let fails := match failAt with
          | none => foldOracle t v impl reg
          | some k => foldFaultOracle k t v impl
        { model := some model, fails := fails }
      | none => noModel
    | _, _ => noModel
  | _ => noModel

def pairs : List String → Option (List (String × String))
  | [] => some []
  | a :: b :: rest => (pairs rest).map ((a, b) :: ·)
  | [_] => none

/-- fold-seq <type> <value> … -/
def opFoldSeq (args : List String) (impl : String) : Result :=
  match pairs args with
  | none => noModel
  | some ps =>
    match allSome (ps.map fun (ts, vs) => (GoType.parse? ts).bind fun t => (GoVal.parse? t vs).map fun v => (t, v)) with
    | none => noModel
    | some tvs =>
      let halves := impl.splitOn "||"
      let obsOf (h : Nat) : List String := ((halves[h]?).getD "").splitOn ";;"
      let half (h : Nat) : List Fold.Outcome :=
        (tvs.zip ((obsOf h) ++ List.replicate tvs.length "")).map fun ((t, v), obs) => foldModel none t v obs
      let os := half 0 ++ half 1
      let model :=
        if os.any (·.res == .fatal) then "fatal"
        else ";;".intercalate ((half 0).map outcomeToString) ++ "||" ++ ";;".intercalate ((half 1).map outcomeToString)
      -- oracles: each fold by itself (C12/C09), and reused = fresh (C17)
      let fails :=
        if halves.length != 2 then (if impl == "fatal" || impl == "panic" || impl == "hang" then [s!"C12 fold-seq-{impl} {" ".intercalate args}"] else []) else
        let a := obsOf 0
        let b := obsOf 1
        ((tvs.zip a).flatMap fun ((t, v), obs) => foldOracle t v obs) ++
        ((tvs.zip (a.zip b)).flatMap fun ((t, v), (x, y)) =>
          let (ex, vx) := splitObs x
          let (ey, vy) := splitObs y
          -- a fold that fails stops wherever Go's map order had taken it: only the verdicts
          -- of failing folds are compared, the values of succeeding ones
          let same := vx == vy &&
            (vx != "ok" ||
             (match build (expandAll ex), build (expandAll ey) with
              | some p, some q => Rules.sameUpToMapOrder p q
              | none, none => ex.length == ey.length
              | _, _ => false))
          if same then [] else [s!"C17 fold-reused-iterator-differs-from-fresh type={t.print} value={v.print}"]) ++
        -- C11: "a type that cannot be handled is refused with an error when folding … not by a
        -- crash" — also on a reused iterator, whatever it has seen before
        ((tvs.zip a).flatMap fun ((t, v), obs) =>
          let verdict := (splitObs obs).2
          if verdict == "panic" || verdict == "fatal" then
            [s!"C11 fold-crashes-instead-of-refusing type={t.print} value={v.print} verdict={verdict}"] else [])
      { model := some model, fails := fails }

/-- typeinfo <type> -/
def opTypeInfo (args : List String) (_impl : String) : Result :=
  match args with
  | [ts] =>
    match GoType.parse? ts with
    | some t => { model := some t.info }
    | none => noModel
  | _ => noModel

/-- goval <type> <value> -/
def opGoVal (args : List String) (_impl : String) : Result :=
  match args with
  | [ts, vs] =>
    match GoType.parse? ts with
    | some t =>
      match GoVal.parse? t vs with
      | some v => { model := some (t.print ++ " " ++ v.print) }
      | none => noModel
    | none => noModel
  | _ => noModel

end SF.Ops
