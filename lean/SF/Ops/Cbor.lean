/-
  SF.Ops.Cbor — op handlers for the CBOR codec: executable mirror (correspondence) and
  specification oracles.
-/
import SF.Ops.Common
import SF.Cbor.Enc
import SF.Cbor.Parse
import SF.Cbor.Dec
namespace SF.Ops.Cbor
open SF SF.Ops SF.Cbor

def errClass : Option Parse.Err → String
  | none => "ok"
  | some .visitor => "err:injected"
  | some .panic => "panic"
  | some .outOfFuel => "hang"
  | some _ => "err"

/-- enc cbor <opts> <failFrom> <xevents> -/
def encModel (failFrom : Int) (xs : List XEv) : String :=
  let w : Enc.Writer := { failFrom := if failFrom < 0 then none else some failFrom.toNat }
  let (s, res) := Enc.run { w := w } xs
  let r := match res with | none => "ok" | some i => s!"err@{i}"
  let wf := match s.w.failFrom with | some k => if s.w.calls > k then "1" else "0" | none => "0"
  s!"{hexOrDash s.w.out}|{r}|d={s.length.stack.length}|wf={wf}"

def depthsP (p : Parse.P) : String :=
  s!"{p.state.stack.length}.{p.length.stack.length}.{p.buffer.length}"

/-- parse cbor <entry> <failAt> <chunks> -/
def parseModel (entry : String) (failAt : Int) (chunks : List Bytes) : String :=
  let p0 : Parse.P := { failAt := if failAt < 0 then none else some failAt.toNat }
  if entry == "P" || entry == "S" then
    let (p, e) := Parse.parse p0 chunks.flatten
    s!"{evsToString (Parse.events p)}|{errClass e}|-"
  else if entry == "R" then
    let (p, e) := Parse.writeChunks p0 chunks
    s!"{evsToString (Parse.events p)}|{errClass e}|-"
  else
    let rec go (p : Parse.P) (cs : List Bytes) (ds : List String) : Parse.P × Option Parse.Err × List String :=
      match cs with
      | [] => (p, Parse.finalize p, ds.reverse)
      | c :: rest =>
        match Parse.write p c with
        | (p, some e) => (p, some e, ds.reverse)
        | (p, none) => go p rest (depthsP p :: ds)
    let (p, e, ds) := go p0 chunks []
    let d := if ds.isEmpty then "-" else "/".intercalate ds
    s!"{evsToString (Parse.events p)}|{errClass e}|{d}"

/-- dec cbor <bufsize> <lastEOF> <maxNext> <chunks> -/
def decModel (bufsize : Nat) (maxNext : Nat) (chunks : List Bytes) : String :=
  let d0 : Dec.Dec :=
    if bufsize == 0 then { hasReader := false, buffer := chunks.flatten } else { reads := chunks }
  let rec go (d : Dec.Dec) (n : Nat) (acc : List String) : List String :=
    match n with
    | 0 => acc.reverse
    | n + 1 =>
      let d := { d with p := { d.p with evs := [] } }
      let (d', r) := Dec.next (Dec.nextFuel d) d
      let rs := match r with
        | .ok => "ok" | .eof => "eof" | .unexpectedEOF => "err"
        | .err .panic => "panic" | .err .outOfFuel => "hang" | .err _ => "err"
      let acc := s!"{evsToString (Parse.events d'.p)}={rs}" :: acc
      if r == .ok then go d' n acc else acc.reverse
  ";".intercalate (go d0 maxNext [])

/-- decf: the same with a visitor failing from its `failAt`-th event on (counted over the whole stream) -/
def decFaultModel (failAt : Nat) (bufsize : Nat) (maxNext : Nat) (chunks : List Bytes) : String :=
  let d0 : Dec.Dec :=
    if bufsize == 0 then { hasReader := false, buffer := chunks.flatten, p := { failAt := some failAt } } else { reads := chunks, p := { failAt := some failAt } }
  let rec go (d : Dec.Dec) (n : Nat) (acc : List String) : List String :=
    match n with
    | 0 => acc.reverse
    | n + 1 =>
      let before := (Parse.events d.p).length
      let (d', r) := Dec.next (Dec.nextFuel d) d
      let rs := match r with
        | .ok => "ok" | .eof => "eof" | .unexpectedEOF => "err"
        | .err .panic => "panic" | .err .outOfFuel => "hang" | .err _ => "err"
      let acc := s!"{evsToString ((Parse.events d'.p).drop before)}={rs}" :: acc
      if r == .ok then go d' n acc else acc.reverse
  ";".intercalate (go d0 maxNext [])

end SF.Ops.Cbor

namespace SF.Ops.Cbor
open SF SF.Ops SF.Cbor

def encDocs (_opts : String) (docs : List (List XEv)) : Option (List (Bytes × String)) :=
  let rec go (s : Enc.Enc) (ds : List (List XEv)) (acc : List (Bytes × String)) : Option (List (Bytes × String)) :=
    match ds with
    | [] => some acc.reverse
    | d :: rest =>
      match Enc.run { s with w := {} } d with
      | (s', none) => go s' rest ((s'.w.out, toString s'.length.stack.length) :: acc)
      | (_, some _) => none
  go {} docs []

def parseDocs (mode : String) (docs : List Bytes) : Option (List (List Ev × String)) :=
  let rec go (p : Parse.P) (ds : List Bytes) (acc : List (List Ev × String)) : Option (List (List Ev × String)) :=
    match ds with
    | [] => some acc.reverse
    | d :: rest =>
      if mode == "P" then
        match Parse.parse { p with evs := [] } d with
        | (p', none) => go p' rest ((Parse.events p', depthsP p') :: acc)
        | (_, some _) => none
      else
      match Parse.write { p with evs := [] } d with
      | (p', none) =>
        match Parse.finalize p' with
        | none => go p' rest ((Parse.events p', depthsP p') :: acc)
        | some _ => none
      | (_, some _) => none
  go {} docs []

def parseEvents (chunks : List Bytes) : List Ev × String :=
  let (p, e) := Parse.writeChunks {} chunks
  (Parse.events p, errClass e)

def encEvents (_opts : String) (evs : List Ev) : Bytes × Option Nat :=
  let (s, r) := Enc.run {} (evs.map XEv.ev)
  (s.w.out, r)

end SF.Ops.Cbor
