/-
  SF.Ops.Unfold — op handlers `unf`, `unf-reuse`, `unf-type` (correspondence with
  harness/sfh/ops_unfold.go) and the oracles of C13, C14, C17, C20 for the Unfolder.

  The oracles evaluate the specification (`SF.Unf.Spec`, `WF`) on what the IMPLEMENTATION
  printed; they never look at the mirror's output.
-/
import SF.Ops.Common
import SF.Gotype.Unfold
import SF.Gotype.UnfoldSpec
import SF.Gotype.Menagerie
namespace SF.Ops
open SF SF.Unf

namespace Unf

def evToUEv : Ev → UEv
  | .null => .scalar .nil
  | .bool b => .scalar (.bool b)
  | .str s => .scalar (.str s)
  | .key k => .key k
  | .num k v => .scalar (.num k v)
  | .f32 b => .scalar (.f32 b)
  | .f64 b => .scalar (.f64 b)
  | .arrStart l bt => .arrStart l bt
  | .arrEnd => .arrEnd
  | .objStart l bt => .objStart l bt
  | .objEnd => .objEnd

/-- what EnsureExtVisitor(unfolder) turns one extended event into: the Unfolder implements
Visitor and StringRefVisitor; typed arrays / maps go through array.go / map.go -/
def xevToUEvs : XEv → List UEv
  | .ev e => [evToUEv e]
  | .strRef s => [.strRef s]
  | .keyRef k => [.keyRef k]
  | x => x.expand.map evToUEv

def showDepths (c : Ctx) : String := ".".intercalate (c.depths.map toString)

inductive Cls
  | ok | err | panic | gap (msg : String)

/-- deliver the basic events of one token; stop at the first failure -/
def runToken (c : Ctx) : List UEv → Cls × Ctx
  | [] => (.ok, c)
  | e :: es =>
    match stepEv typeFuel e c with
    | .ok _ c' => runToken c' es
    | .err _ c' => (.err, c')
    | .panic c' => (.panic, c')
    | .outOfFuel => (.gap "out-of-fuel", c)
    | .gap m => (.gap m, c)

/-- the `unf` observation of the model -/
def runUnf (t : Option GoType) (init : GoVal) (cache : Option Int) (xs : List XEv) (whatIf : Bool := true) : Option (String × String) :=
  let fresh : Ctx := { newUnfolder with whatIfFixed := whatIf }
  -- `none`: NewUnfolder(nil), no SetTarget
  match (match t with | some t => setTarget structTable t init fresh | none => .ok fresh) with
  | .error _ => none
  | .ok c0 =>
    let c0 := match cache with
      | some n => enableKeyCache c0 n
      | none => c0
    let rec go (c : Ctx) (acc : String) : List XEv → String × Ctx
      | [] => (acc, c)
      | x :: r =>
        match runToken c (xevToUEvs x) with
        | (.ok, c') => go c' (acc ++ "/ok:" ++ showDepths c') r
        | (.err, c') => (acc ++ "/err:" ++ showDepths c', c')
        | (.panic, c') => (acc ++ "/panic", c')
        | (.gap m, c') => (acc ++ "/GAP(" ++ m ++ ")", c')
    let (steps, c) := go c0 (showDepths c0) xs
    some (steps, if t.isSome then c.target.print else "-")

/-- split "a<k>:doc" -/
def splitAbandon (doc : String) : Option (Option Nat × String) :=
  if doc.startsWith "a" then
    let (k, rest) := splitOnce (doc.drop 1).toString ':'
    (decToNat? k).map fun n => (some n, rest)
  else some (none, doc)

/-- harness `unfBalanced`: at least one token, every started container finished -/
def balanced (xs : List XEv) : Bool :=
  let d : Int := xs.foldl (fun d x => match x with
    | .ev (.arrStart _ _) => d + 1
    | .ev (.objStart _ _) => d + 1
    | .ev .arrEnd => d - 1
    | .ev .objEnd => d - 1
    | _ => d) 0
  !xs.isEmpty && d == 0

/-- one document of `unf-reuse` -/
def runDoc (c : Ctx) (t : GoType) (abandon : Option Nat) (xs : List XEv) : Option (String × Ctx) :=
  match setTarget structTable t (zero structTable t) c with
  | .error _ => none
  | .ok c1 =>
    let dSet := showDepths c1
    let rec go (c : Ctx) (i : Nat) : List XEv → String × Ctx
      | [] => ("ok", c)
      | x :: r =>
        if (match abandon with | some k => decide (i ≥ k) | none => false) then ("ok", c) else
        match runToken c (xevToUEvs x) with
        | (.ok, c') => go c' (i + 1) r
        | (.err, c') => (s!"err@{i}", c')
        | (.panic, c') => (s!"panic@{i}", c')
        | (.gap m, c') => (s!"GAP({m})@{i}", c')
    let (status, c2) := go c1 0 xs
    let status := if abandon.isSome && status == "ok" then "abandoned" else status
    let status := if status == "ok" && !balanced xs then "incomplete" else status
    let c3 := if status != "ok" then reset c2 else c2
    some (s!"{dSet},{status},{showDepths c3},{c3.target.print}", c3)

def isBadObs (s : String) : Bool := s == "panic" || s == "hang" || s == "crash"

def allZeroDepths (d : String) : Bool := d.toList.all fun ch => ch == '0' || ch == '.'

def btsValid (evs : List Ev) : Bool :=
  evs.all fun e => match e with
    | .arrStart _ bt => bt ≤ 16
    | .objStart _ bt => bt ≤ 16
    | _ => true

/-- numbers inside their kind's range (the harness would wrap others before the call) -/
def numsValid (evs : List Ev) : Bool :=
  evs.all fun e => match e with
    | .num k v => k.inRange v
    | _ => true

end Unf

open Unf

/-- unf <type> <init|-> <cache n|-> <xevents> -/
def opUnf (args : List String) (impl : String) : Result :=
  match args with
  | ["none", _, _, xsS] =>
    -- NewUnfolder(nil) without SetTarget: unfolderNoTarget answers every event
    match parseXEvs xsS with
    | some xs =>
      match runUnf none .invalid none xs with
      | some (steps, final) =>
        { model := some s!"{steps}|{final}|alloc=small",
          fails := if impl.splitOn "/" |>.any (·.startsWith "panic") then ["C14 unfold-panic target=none"] else [] }
      | none => noModel
    | none => noModel
  | [tS, initS, cacheS, xsS] =>
    match parseTypeStr structTable tS, parseXEvs xsS with
    | some t, some xs =>
      match parseValStr structTable t initS with
      | none => noModel
      | some init =>
        let cache := if cacheS == "-" then none else decToInt? cacheS
        let model :=
          match runUnf (some t) init cache xs with
          | none => "seterr"
          | some (steps, final) =>
            let base := s!"{steps}|{final}|alloc=small"
            if cache.isSome then
              match runUnf (some t) init none xs with
              | some (_, f2) => base ++ "|" ++ f2
              | none => base ++ "|?"
            else base
        -- oracles, on the implementation's observation
        let evs := expandAll xs
        let wf := WF1 evs && btsValid evs && numsValid evs
        let parts := impl.splitOn "|"
        let steps := (nth parts 0).splitOn "/"
        let results := (steps.drop 1).map fun s => (splitOnce s ':').1
        let lastDepths := (splitOnce steps.getLast! ':').2
        let final := nth parts 1
        let sig := s!"target={tS}"
        let fails : List String :=
          if impl == "seterr" || impl == "bad-type" then [] else
          if isBadObs impl then (if wf then [s!"C14 unfold-{impl} {sig}"] else []) else
          -- C14: no panic on any well-formed stream; bounded allocation whatever was announced
          (if wf && results.contains "panic" then [s!"C14 unfold-panic {sig}"] else []) ++
          (if nth parts 2 == "alloc=BIG" then [s!"C14 unfold-allocation-unbounded {sig}"] else []) ++
          -- C14/C17: a completely accepted document leaves all six stacks idle
          (if wf && results.all (· == "ok") && !allZeroDepths lastDepths then
            [s!"C14 unfold-stacks-not-idle-after-document {sig} depths={lastDepths}"] else []) ++
          -- C13: the value the specification demands
          (if !wf then [] else
            match Spec.sbuild evs with
            | none => []
            | some tree =>
              match Spec.expected structTable t init tree with
              | none => []
              | some want =>
                if !results.all (· == "ok") then
                  [s!"C13 unfold-error-on-compatible-document {sig}"]
                else
                  match parseValStr structTable t final with
                  | none => [s!"C13 unfold-unreadable-value {sig}"]
                  | some got =>
                    if Spec.sameVal got want then []
                    else [s!"C13 unfold-wrong-value {sig} want={(Spec.norm want).print}"]) ++
          -- C20: the key cache does not change the result
          (if cacheS != "-" && parts.length == 4 && nth parts 3 != final then
            [s!"C20 key-cache-changes-unfolded-value cap={cacheS} {sig}"] else [])
        -- C10: the Unfolder as consumer of extended events (delivered through EnsureExtVisitor's
        -- adapters): whatever the value oracle finds on a stream that contains one is also a
        -- failure of "an extended event means its expansion"
        let hasExt := xs.any fun x => match x with | .ev _ => false | _ => true
        let fails := fails ++ (if hasExt then fails.filterMap fun f =>
            if f.startsWith "C13 " then some ("C10 unfolder-extended-event-differs-from-expansion " ++ (f.drop 4).toString) else none
          else [])
        { model := some model, fails := fails }
    | _, _ => noModel
  | _ => noModel

/-- unfx (development aid, not a harness op; feed it an `unf` line renamed to `unfx`): does the
mirror WITH the two repairs of findings U1/U2 produce the value the C13 specification demands?
`ok` = the specification's claim is met once (only) U1/U2 are repaired. -/
def opUnfWhatIf (args : List String) (impl : String) : Result :=
  match args with
  | [tS, initS, _, xsS] =>
    match parseTypeStr structTable tS, parseXEvs xsS with
    | some t, some xs =>
      match parseValStr structTable t initS, Spec.sbuild (expandAll xs) with
      | some init, some tree =>
        match Spec.expected structTable t init tree, runUnf (some t) init none xs true with
        | some want, some (_, final) =>
          match parseValStr structTable t final with
          | some got => { model := some (if Spec.sameVal got want then impl else s!"repaired-mirror={final} want={(Spec.norm want).print}") }
          | none => noModel
        | none, _ => { model := some impl }
        | _, _ => noModel
      | _, _ => noModel
    | _, _ => noModel
  | _ => noModel

/-- unfc (development aid): is the C13 oracle making a claim on this `unf` line?  Reported
through the DIFF column as `claim` / `noclaim` / `notwf` — measures that the oracle is not vacuous. -/
def opUnfClaim (args : List String) (_impl : String) : Result :=
  match args with
  | [tS, initS, _, xsS] =>
    match parseTypeStr structTable tS, parseXEvs xsS with
    | some t, some xs =>
      let evs := expandAll xs
      if !(WF1 evs && btsValid evs && numsValid evs) then { model := some "notwf" } else
      match parseValStr structTable t initS, Spec.sbuild evs with
      | some init, some tree =>
        { model := some (if (Spec.expected structTable t init tree).isSome then "claim" else "noclaim") }
      | _, _ => noModel
    | _, _ => noModel
  | _ => noModel

/-- unf-reuse <type> <cache n|-> <doc;doc;…;probe> -/
def opUnfReuse (args : List String) (impl : String) : Result :=
  match args with
  | [tS, cacheS, docsS] =>
    let docs := allSome ((docsS.splitOn ";").map fun d =>
      match splitAbandon d with
      | some (a, body) => (parseXEvs body).map fun xs => (a, xs)
      | none => none)
    match parseTypeStr structTable tS, docs with
    | some t, some docs =>
      let mk : Ctx := match (if cacheS == "-" then none else decToInt? cacheS) with
        | some n => enableKeyCache newUnfolder n
        | none => newUnfolder
      let rec go (c : Ctx) (acc : List String) : List (Option Nat × List XEv) → Option (List String)
        | [] => some acc.reverse
        | (a, xs) :: r =>
          match runDoc c t a xs, runDoc mk t a xs with
          | some (o, c'), some (f, _) => go c' ((o ++ (if f == o then ",same" else ",differs")) :: acc) r
          | _, _ => none
      let model :=
        match go mk [] docs, docs.getLast? with
        | some outs, some (a, xs) =>
          match runDoc mk t a xs with
          | some (fresh, _) =>
            let hist := outs.dropLast
            s!"{if hist.isEmpty then "-" else ";".intercalate hist}|{outs.getLast!}|{fresh},same"
          | none => "seterr"
        | _, _ => "seterr"
      -- oracles
      let sig := s!"target={tS}"
      let fails : List String :=
        if impl == "seterr" || impl == "bad-type" then [] else
        if isBadObs impl then [s!"C17 unfold-reuse-{impl} {sig}"] else
        match impl.splitOn "|" with
        | [hist, probe, fresh] =>
          let docOuts := (if hist == "-" then [] else hist.splitOn ";") ++ [probe]
          let judged := (docOuts.zip docs).map fun (o, (_, xs)) =>
            let f := o.splitOn ","
            (nth f 1, nth f 2, WF1 (expandAll xs) && btsValid (expandAll xs) && numsValid (expandAll xs))
          -- the stacks are idle after every well-formed document the unfolder accepted, and
          -- after every Reset (abandoned / incomplete / refused documents)
          let notIdle := judged.filter fun (status, d, wf) => (wf || status != "ok") && !allZeroDepths d
          -- a document delivered to an idle unfolder is never answered with a panic
          let clean := judged.dropLast.all fun (status, _, wf) => wf || status != "ok"
          let panics := judged.filter fun (status, _, wf) => status.startsWith "panic" && wf
          (if !notIdle.isEmpty then [s!"C14 unfold-stacks-not-idle-between-documents {sig}"] else []) ++
          (if clean && !panics.isEmpty then [s!"C14 unfold-panic {sig}"] else []) ++
          -- C17: every document on the reused unfolder = the document on a fresh unfolder
          let differing := ((judged.zip docOuts).zipIdx.filter fun (((_, _, _), o), i) =>
            (judged.take i).all (fun (status, _, wf) => wf || status != "ok") && o.endsWith ",differs").map (·.2)
          (if clean && probe != fresh then [s!"C17 reused-unfolder-differs-from-fresh {sig}"] else []) ++
          (if !differing.isEmpty then [s!"C17 reused-unfolder-differs-from-fresh-at-document {sig} docs={differing}"] else [])
        | _ => []
      { model := some model, fails := fails }
    | _, _ => noModel
  | _ => noModel

/-- unf-seq <type>,<type>,…: SetTarget of each type in turn on ONE unfolder (its type registry
survives); a refused type must leave nothing half-built behind (C14) -/
def opUnfSeq (args : List String) (impl : String) : Result :=
  match args with
  | [tsS] =>
    match allSome ((tsS.splitOn ",").map (parseTypeStr structTable)) with
    | some ts =>
      let rec go (c : Ctx) (acc : List String) : List GoType → List String
        | [] => acc.reverse
        | t :: r =>
          match setTarget structTable t (zero structTable t) c with
          | .ok c' => go (reset c') ("ok" :: acc) r
          | .error _ => go (reset c) ("err" :: acc) r
      let model := ",".intercalate (go newUnfolder [] ts)
      -- oracle: whether a type is accepted does not depend on what the unfolder has seen before
      let alone := ts.map fun t =>
        match setTarget structTable t (zero structTable t) newUnfolder with | .ok _ => "ok" | .error _ => "err"
      let fails :=
        if isBadObs impl then [s!"C14 unfold-settarget-{impl} types={tsS}"]
        else if impl.splitOn "," != alone && impl != "bad-type" then
          [s!"C17 settarget-depends-on-earlier-targets types={tsS} got={impl}"]
        else []
      { model := some model, fails := fails }
    | none => noModel
  | _ => noModel

/-- unf-type <type>: the Lean descriptor of a menagerie type = what reflect reports -/
def opUnfType (args : List String) (_impl : String) : Result :=
  match args with
  | [tS] =>
    match parseTypeStr structTable tS with
    | some (.ref n) => { model := (structTable n).map GoType.describe }
    | some t => { model := some t.describe }
    | none => noModel
  | _ => noModel

end SF.Ops
