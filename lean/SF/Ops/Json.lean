/-
  SF.Ops.Json — op handlers for the JSON codec: the executable mirror's observation strings,
  byte for byte those of the Go harness ops `enc`, `parse`, `dec` for format "json".
-/
import SF.Ops.Common
import SF.Json.Enc
import SF.Json.Parse
import SF.Json.Dec
namespace SF.Ops.Json
open SF SF.Ops SF.Json

def unmodelled : String := "UNMODELLED"

def errClass : Option Parse.Err → String
  | none => "ok"
  | some .visitor => "err:injected"
  | some .panic => "panic"
  | some .outOfFuel => "hang"
  | some .unmodelled => unmodelled
  | some _ => "err"

/-- a panic / hang / unmodelled input replaces the whole observation (harness `Guard`) -/
def whole? (c : String) : Bool := c == "panic" || c == "hang" || c == unmodelled

/-- enc json <opts> <failFrom> <xevents>; opts over {h,r,i}, "-" = none -/
def encModel (opts : String) (failFrom : Int) (xs : List XEv) : String :=
  let has (c : Char) : Bool := opts.toList.contains c
  let w : Enc.Writer := { failFrom := if failFrom < 0 then none else some failFrom.toNat }
  let v := Enc.newVisitor w
  let v := Enc.setEscapeHTML v (has 'h')
  let v := Enc.setExplicitRadixPoint v (has 'r')
  let v := Enc.setIgnoreInvalidFloat v (has 'i')
  let (s, res, how) := Enc.run v xs
  if how == .panic then "panic" else if how == .hang then "hang" else
  let r := match res with | none => "ok" | some i => s!"err@{i}"
  let wf := match s.w.failFrom with | some k => if s.w.calls > k then "1" else "0" | none => "0"
  s!"{hexOrDash s.w.out}|{r}|d={s.first.stack.length}.{s.inArray.stack.length}|wf={wf}"

def depthsP (p : Parse.P) : String :=
  s!"{p.states.length}.{p.literalBuffer.length}"

/-- parse json <entry> <failAt> <chunks> -/
def parseModel (entry : String) (failAt : Int) (chunks : List Bytes) : String :=
  let p0 : Parse.P := Parse.init (if failAt < 0 then none else some failAt.toNat)
  let fin (p : Parse.P) (e : Option Parse.Err) (d : String) : String :=
    let c := errClass e
    if whole? c then c else s!"{evsToString (Parse.events p)}|{c}|{d}"
  if entry == "P" || entry == "S" then
    let (p, e) := Parse.parse p0 chunks.flatten
    fin p e "-"
  else if entry == "R" then
    let (p, e) := Parse.writeChunks p0 chunks
    fin p e "-"
  else
    let rec go (p : Parse.P) (cs : List Bytes) (ds : List String) : Parse.P × Option Parse.Err × List String :=
      match cs with
      | [] => let (p, e) := Parse.finalize p; (p, e, ds.reverse)
      | c :: rest =>
        match Parse.write p c with
        | (p, some e) => (p, some e, ds.reverse)
        | (p, none) => go p rest (depthsP p :: ds)
    let (p, e, ds) := go p0 chunks []
    fin p e (if ds.isEmpty then "-" else "/".intercalate ds)

/-- dec json <bufsize> <lastEOF> <maxNext> <chunks> -/
def decModel (bufsize : Nat) (lastEOF : Bool) (maxNext : Nat) (chunks : List Bytes) : String :=
  let d0 : Dec.Dec :=
    if bufsize == 0 then Dec.newBytesDecoder chunks.flatten
    else Dec.newDecoder { chunks := chunks, lastEOF := lastEOF } bufsize
  let rec go (d : Dec.Dec) (n : Nat) (acc : List String) : Except String (List String) :=
    match n with
    | 0 => .ok acc.reverse
    | n + 1 =>
      let d := { d with p := { d.p with evs := [] } }
      let (d', r) := Dec.next (Dec.nextFuel d) d
      let rs := match r with
        | .ok => "ok" | .eof => "eof"
        | .err .panic => "panic" | .err .outOfFuel => "hang" | .err .unmodelled => unmodelled
        | .err _ => "err"
      if whole? rs then .error rs else
      let acc := s!"{evsToString (Parse.events d'.p)}={rs}" :: acc
      if r == .ok then go d' n acc else .ok acc.reverse
  match go d0 maxNext [] with
  | .ok outs => ";".intercalate outs
  | .error w => w

/-- decf: the same with a visitor failing from its `failAt`-th event on (counted over the whole stream) -/
def decFaultModel (failAt : Nat) (bufsize : Nat) (lastEOF : Bool) (maxNext : Nat) (chunks : List Bytes) : String :=
  let d0 : Dec.Dec :=
    if bufsize == 0 then Dec.newBytesDecoder chunks.flatten
    else Dec.newDecoder { chunks := chunks, lastEOF := lastEOF } bufsize
  let d0 := { d0 with p := Parse.init (some failAt) }
  let rec go (d : Dec.Dec) (n : Nat) (acc : List String) : Except String (List String) :=
    match n with
    | 0 => .ok acc.reverse
    | n + 1 =>
      let before := (Parse.events d.p).length
      let (d', r) := Dec.next (Dec.nextFuel d) d
      let rs := match r with
        | .ok => "ok" | .eof => "eof"
        | .err .panic => "panic" | .err .outOfFuel => "hang" | .err .unmodelled => unmodelled
        | .err _ => "err"
      if whole? rs then .error rs else
      let acc := s!"{evsToString ((Parse.events d'.p).drop before)}={rs}" :: acc
      if r == .ok then go d' n acc else .ok acc.reverse
  match go d0 maxNext [] with
  | .ok outs => ";".intercalate outs
  | .error w => w

end SF.Ops.Json

namespace SF.Ops.Json
open SF SF.Ops SF.Json

def visitorOf (opts : String) : Enc.Enc :=
  let has (c : Char) : Bool := opts.toList.contains c
  let v := Enc.newVisitor {}
  let v := Enc.setEscapeHTML v (has 'h')
  let v := Enc.setExplicitRadixPoint v (has 'r')
  Enc.setIgnoreInvalidFloat v (has 'i')

def encDocs (opts : String) (docs : List (List XEv)) : Option (List (Bytes × String)) :=
  let rec go (s : Enc.Enc) (ds : List (List XEv)) (acc : List (Bytes × String)) : Option (List (Bytes × String)) :=
    match ds with
    | [] => some acc.reverse
    | d :: rest =>
      match Enc.run { s with w := {} } d with
      | (s', none, _) =>
        go s' rest ((s'.w.out, s!"{s'.first.stack.length}.{s'.inArray.stack.length}") :: acc)
      | (_, some _, _) => none
  go (visitorOf opts) docs []

def parseDocs (mode : String) (docs : List Bytes) : Option (List (List Ev × String)) :=
  let rec go (p : Parse.P) (ds : List Bytes) (acc : List (List Ev × String)) : Option (List (List Ev × String)) :=
    match ds with
    | [] => some acc.reverse
    | d :: rest =>
      if mode == "P" then
        match Parse.parse { p with evs := [] } d with
        | (p', none) => go p' rest ((Parse.events p', depthsP p') :: acc)
        | (_, some _) => none
      else
      match Parse.write { p with evs := [] } d with
      | (p', none) =>
        match Parse.finalize p' with
        | (p'', none) => go p'' rest ((Parse.events p'', depthsP p'') :: acc)
        | (_, some _) => none
      | (_, some _) => none
  go (Parse.init none) docs []

/-- one parser, `Parse` per document, refused documents included (the call after a refusal starts
from the idle state like every call): `verdict:events` per document -/
def parseDocsF (docs : List Bytes) : List String :=
  let rec go (p : Parse.P) (ds : List Bytes) (acc : List String) : List String :=
    match ds with
    | [] => acc.reverse
    | d :: rest =>
      let (p', e) := Parse.parse { p with evs := [] } d
      go p' rest (s!"{errClass e}:{evsToString (Parse.events p')}" :: acc)
  go (Parse.init none) docs []

def parseEvents (chunks : List Bytes) : List Ev × String :=
  let (p, e) := Parse.writeChunks (Parse.init none) chunks
  (Parse.events p, errClass e)

def encEvents (opts : String) (evs : List Ev) : Bytes × Option Nat :=
  let (s, r, _) := Enc.run (visitorOf opts) (evs.map XEv.ev)
  (s.w.out, r)

end SF.Ops.Json
