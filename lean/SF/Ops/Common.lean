/-
  SF.Ops.Common — result type and small helpers shared by the op handlers.
-/
import SF.Proto
namespace SF.Ops
open SF

structure Result where
  model : Option String        -- the model's observation, same canonical form as the harness
  fails : List String := []    -- oracle failures: "<property> <signature> <detail>"

def hxe (b : Bytes) : String := if b.isEmpty then "_" else toHex b
def hexOrDash (b : Bytes) : String := if b.isEmpty then "-" else toHex b
def noModel : Result := { model := none }

def fieldsOf (s : String) (sep : String) : List String := s.splitOn sep

def nth (l : List String) (i : Nat) : String := l.getD i ""

end SF.Ops
