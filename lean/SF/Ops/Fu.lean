/-
  SF.Ops.Fu — op `fu <type> <value> <path>` (harness/sfh/ops_fu.go), property C11: Fold then
  Unfold reproduces the value, directly or via a codec.

  MODEL (correspondence) = composition of the mirrors:
      SF.Gotype.Fold.impl  →  [codec path: encoder mirror → bytes → parser mirror]  →
      SF.Unf (Unfold mirror) on a fresh zero target of the translated type.
  ORACLE (C11) = specification only, evaluated on what the implementation printed:
      `Rules.typeOk` / `Rules.fold` (the documented fold rules), the documented limits of the
      unfold side (`unfOk`), and the representation relations of the formats (`approxJson`,
      `approxUbj`).  It never looks at a mirror.

  C11 as evaluated here.  For a type that both sides document as supported and a value whose
  dynamic types are supported, the run must end `ok` and the new value must equal the old one
  up to:  nil ≙ empty slices / maps;  a pointer (chain) to nil ≙ nil;  fields that are
  unexported, `-` or `omit` stay zero;  `omitempty` fields that were empty (rule 6e) stay zero;
  any NaN ≙ any NaN of the same width;  inside `interface{}` slots the VALUE is compared
  (Rules.fold of the dynamic value against the generic value received), through the format's
  relation.  Format excuses, each narrow:  JSON: a non-finite float anywhere lets the run fail;
  -0 ≙ +0; invalid UTF-8 in strings / keys ↦ U+FFFD (a struct member name that is no valid
  UTF-8, or map keys that collide after it, carry no claim).  UBJSON: an integer above MaxInt64
  that makes the run fail is the known finding F24 (`C11 ubjson-uint64-above-maxint64`).
  Types with a custom folder in a static position (Folder / registered fold function) fold to
  whatever that code emits: no equality claim.  Everything else must be refused with an error:
  never `ok`, and NOTHING may end in panic / fatal.
-/
import SF.Ops.Common
import SF.Ops.Oracle
import SF.Ops.Cbor
import SF.Ops.Ubjson
import SF.Ops.Json
import SF.Gotype.Fold
import SF.Gotype.Rules
import SF.Gotype.Unfold
import SF.Gotype.Translate
import SF.Ops.Unfold
namespace SF.Ops
open SF

namespace Fu

/-! ## model -/

def encOf (path : String) (xs : List XEv) : String :=
  if path == "json" then Json.encModel "" (-1) xs
  else if path == "ubjson" then Ubjson.encModel (-1) xs
  else Cbor.encModel (-1) xs

def parseOf (path : String) (chunks : List Bytes) : List Ev × String :=
  if path == "json" then Json.parseEvents chunks
  else if path == "ubjson" then Ubjson.parseEvents chunks
  else Cbor.parseEvents chunks

def foldResClass : Gotype.Fold.Res → String
  | .ok => "ok" | .err _ => "err:fold" | .panic => "panic:fold" | .fatal => "fatal"

/-- feed tokens to the unfold mirror; `none` = all accepted -/
def feed (c : Unf.Ctx) : List (List Unf.UEv) → Unf.Ctx × Option Unf.Cls
  | [] => (c, none)
  | t :: r =>
    match Unf.runToken c t with
    | (.ok, c') => feed c' r
    | (cls, c') => (c', some cls)

def clsVerdict (stage : String) : Unf.Cls → String
  | .ok => "ok" | .err => "err:" ++ stage | .panic => "panic:" ++ stage | .gap m => s!"GAP({m})"

def model (t : Gotype.GoType) (v : Gotype.GoVal) (path : String) : String :=
  match Unf.Tr.trType t with
  | none => "UNMODELLED"
  | some ut =>
    let tbl := Unf.Tr.fuTable
    match Unf.setTarget tbl ut (Unf.zero tbl ut) Unf.newUnfolder with
    | .error _ => "-|err:target"
    | .ok c0 =>
      let o := Gotype.Fold.impl { folders := true } t v
      let done (c : Unf.Ctx) : String := Unf.Tr.printFu c.target ++ "|ok"
      if path == "direct" then
        match feed c0 (o.evs.map Unf.xevToUEvs) with
        | (_, some cls) => "-|" ++ clsVerdict "fold" cls
        | (c, none) => if o.res == .ok then done c else "-|" ++ foldResClass o.res
      else
        match (encOf path o.evs).splitOn "|" with
        | [h, r, _, _] =>
          if r != "ok" then "-|err:fold"                     -- the encoder refused an event
          else if o.res != .ok then "-|" ++ foldResClass o.res
          else
            let bytes := if h == "-" then [] else (ofHex h).getD []
            let (evs, pv) := parseOf path (if bytes.isEmpty then [] else [bytes])
            match feed c0 (evs.map fun e => [Unf.evToUEv e]) with
            | (_, some cls) => "-|" ++ clsVerdict "parse" cls
            | (c, none) => if pv == "ok" then done c else "-|err:parse"
        | [x] => "-|" ++ x ++ ":fold"                        -- panic / hang of the encoder mirror
        | _ => "-|?"

/-! ## oracle -/

open Gotype in
/-- does the type term mention itself (a cyclic type term)? -/
def cyclicF : Nat → GoType → Bool
  | 0, _ => false
  | fuel + 1, t =>
    match t with
    | .ref _ => true
    | .slice e | .array _ e | .ptr e | .chan e => cyclicF fuel e
    | .map k e => cyclicF fuel k || cyclicF fuel e
    | .struct fs => fs.any fun f => cyclicF fuel f.typ
    | .named _ _ u => cyclicF fuel u
    | _ => false

open Gotype in
/-- a value holding, in some interface, a dynamic type whose type term is cyclic -/
def valCyclicF : Nat → GoVal → Bool
  | 0, _ => false
  | fuel + 1, v =>
    match v with
    | .iface t x => cyclicF 200 t || valCyclicF fuel x
    | .ptr x => valCyclicF fuel x
    | .slice xs | .array xs | .struct xs => xs.any (valCyclicF fuel)
    | .map ms => ms.any fun (_, x) => valCyclicF fuel x
    | _ => false

open Gotype in
/-- a type with a custom folder in a static position that Fold reaches -/
def staticCustomF : Nat → GoType → Bool
  | 0, _ => false
  | fuel + 1, t =>
    if (Rules.customOf true t).isSome then true else
    match t with
    | .slice e | .array _ e | .ptr e => staticCustomF fuel e
    | .map _ e => staticCustomF fuel e
    | .struct fs => fs.any fun f =>
        let tag := Rules.parseTag f.tag
        f.exported && !tag.dash && !tag.omit' && staticCustomF fuel f.typ
    | .named _ _ u => staticCustomF fuel u
    | _ => false

open Gotype in
mutual
/-- the documented limits of an unfold TARGET type: scalars, interface{}, slices, pointers,
string-keyed maps, structs; no arrays, channels, functions, complex numbers, uintptr; `inline` /
`squash` only on a field of struct kind; member names unique -/
def unfOkF : Nat → GoType → Bool
  | 0, _ => true
  | fuel + 1, t =>
    match t with
    | .bool | .string | .int _ | .float32 | .float64 | .iface => true
    | .slice e | .ptr e => unfOkF fuel e
    | .array _ _ | .chan _ | .other _ => false
    | .map k e => Unf.Tr.isStringKind k && unfOkF fuel e
    | .struct fs =>
      match membersF fuel fs with
      | none => false
      | some names => names.eraseDups.length == names.length
    | .named _ _ u => unfOkF fuel u
    | .ref _ => true
/-- member names of a struct, `none` if a field cannot be a target -/
def membersF : Nat → List Field → Option (List String)
  | 0, _ => some []
  | _ + 1, [] => some []
  | fuel + 1, f :: rest =>
    let tag := Rules.parseTag f.tag
    if !f.exported || tag.dash || tag.omit' then membersF fuel rest else
    if tag.inline then
      match f.typ.under with
      | .struct sfs =>
        match membersF fuel sfs, membersF fuel rest with
        | some a, some b => some (a ++ b)
        | _, _ => none
      | _ => none
    else
      if !unfOkF fuel f.typ then none else
      (membersF fuel rest).map fun r => (if tag.name != "" then tag.name else toLower f.name) :: r
end

def isNaN32 (b : UInt32) : Bool := (b.toNat / 2 ^ 23) % 256 == 255 && b.toNat % 2 ^ 23 != 0
def isNaN64 (b : UInt64) : Bool := (b.toNat / 2 ^ 52) % 2048 == 2047 && b.toNat % 2 ^ 52 != 0

/-- deep zero, nil ≙ empty -/
def isZeroF : Nat → Gotype.GoVal → Bool
  | 0, _ => false
  | fuel + 1, v =>
    match v with
    | .bool b => !b
    | .int i => i == 0
    | .f32 b => b == 0
    | .f64 b => b == 0
    | .str s => s.isEmpty
    | .cplx b => b.all (· == 0)
    | .nilSlice | .nilMap | .nilPtr | .nilIface | .nilOther => true
    | .slice xs => xs.isEmpty
    | .map ms => ms.isEmpty
    | .array xs => xs.all (isZeroF fuel)
    | .struct fs => fs.all (isZeroF fuel)
    | _ => false

/-- generic values (what an interface{} target receives) as a `Val` -/
def gvToValF : Nat → Gotype.GoVal → Val
  | 0, _ => .null
  | fuel + 1, v =>
    match v with
    | .bool b => .bool b
    | .int i => .int i
    | .f32 b => .f32 b
    | .f64 b => .f64 b
    | .str s => .str s
    | .nilSlice => .arr []
    | .nilMap => .obj []
    | .slice xs | .array xs => .arr (xs.map (gvToValF fuel))
    | .map ms => .obj (ms.map fun (k, x) => ((match k with | .str s => s | _ => []), gvToValF fuel x))
    | .ptr x => gvToValF fuel x
    | .iface _ x => gvToValF fuel x
    | _ => .null

def fixU (s : Bytes) : Bytes := fixUtf8 (s.length + 1) s

def insertMem (json : Bool) (kv : Bytes × Val) : List (Bytes × Val) → List (Bytes × Val)
  | [] => [kv]
  | x :: r =>
    let key (k : Bytes) : String := toHex (if json then fixU k else k)
    if key kv.1 < key x.1 then kv :: x :: r else x :: insertMem json kv r

/-- objects sorted by key (maps have no order); `none` if an object has two members of one
name (after U+FFFD replacement on the JSON path): no claim -/
def sortValF (json : Bool) : Nat → Val → Option Val
  | 0, _ => none
  | fuel + 1, v =>
    match v with
    | .arr xs => (xs.mapM (sortValF json fuel)).map .arr
    | .obj ms =>
      match ms.mapM fun (k, x) => (sortValF json fuel x).map fun x' => (k, x') with
      | none => none
      | some ms' =>
        let keys := ms'.map fun (k, _) => if json then fixU k else k
        if keys.eraseDups.length != keys.length then none
        else some (.obj (ms'.foldl (fun acc kv => insertMem json kv acc) []))
    | .f32 b => some (.f32 (if isNaN32 b then 0x7fc00000 else b))      -- any NaN ≙ any NaN
    | .f64 b => some (.f64 (if isNaN64 b then 0x7ff8000000000000 else b))
    | v => some v

/-- NaN ≙ NaN -/
def eqValF : Nat → Val → Val → Bool
  | 0, _, _ => false
  | fuel + 1, a, b =>
    match a, b with
    | .f32 x, .f32 y => x == y || (isNaN32 x && isNaN32 y)
    | .f64 x, .f64 y => x == y || (isNaN64 x && isNaN64 y)
    | .arr xs, .arr ys => xs.length == ys.length && (xs.zip ys).all fun (x, y) => eqValF fuel x y
    | .obj xs, .obj ys => xs.length == ys.length && (xs.zip ys).all fun ((k, x), (l, y)) => k == l && eqValF fuel x y
    | a, b => a == b

/-- `want ⊑ got` through the path -/
def approxPath (path : String) (want got : Val) : Bool :=
  match sortValF (path == "json") 1000 want, sortValF (path == "json") 1000 got with
  | some w, some g =>
    if path == "json" then approxJson "" w g
    else if path == "ubjson" then approxUbj w g
    else eqValF 1000 w g
  | _, _ => true

open Gotype in
/-- a value that folds to `null` -/
def nullishF : Nat → GoVal → Bool
  | 0, _ => false
  | fuel + 1, v =>
    match v with
    | .nilPtr | .nilIface => true
    | .ptr x => nullishF fuel x
    | .iface _ x => nullishF fuel x
    | _ => false

open Gotype in
/-- the comparison of the original with the round-tripped value, at static type `t` -/
def agreeF (path : String) : Nat → GoType → GoVal → GoVal → Bool
  | 0, _, _, _ => false
  | fuel + 1, t, o, g =>
    let json := path == "json"
    match t.under, o, g with
    | .bool, .bool a, .bool b => a == b
    | .int _, .int a, .int b => a == b
    | .float32, .f32 a, .f32 b =>
      a == b || (isNaN32 a && isNaN32 b) || (json && a.toNat % 2 ^ 31 == 0 && b.toNat % 2 ^ 31 == 0)
    | .float64, .f64 a, .f64 b =>
      a == b || (isNaN64 a && isNaN64 b) || (json && a.toNat % 2 ^ 63 == 0 && b.toNat % 2 ^ 63 == 0)
    | .string, .str a, .str b => (if json then fixU a else a) == b
    | .ptr e, o, g =>
      if nullishF fuel o then g matches .nilPtr else
      match o, g with
      | .ptr x, .ptr y => agreeF path fuel e x y
      | _, _ => false
    | .slice e, o, g =>
      let elems (v : GoVal) : Option (List GoVal) :=
        match v with | .nilSlice => some [] | .slice xs => some xs | _ => none
      match elems o, elems g with
      | some xs, some ys => xs.length == ys.length && (xs.zip ys).all fun (x, y) => agreeF path fuel e x y
      | _, _ => false
    | .map _ e, o, g =>
      let ents (v : GoVal) : Option (List (Bytes × GoVal)) :=
        match v with
        | .nilMap => some []
        | .map ms => ms.mapM fun (k, x) => match k with | .str s => some (s, x) | _ => none
        | _ => none
      match ents o, ents g with
      | some xs, some ys =>
        let xs' := xs.map fun (k, x) => ((if json then fixU k else k), x)
        if (xs'.map (·.1)).eraseDups.length != xs'.length then true else       -- keys collide after U+FFFD
        xs'.length == ys.length && xs'.all fun (k, x) =>
          match ys.find? (·.1 == k) with
          | some (_, y) => agreeF path fuel e x y
          | none => false
      | _, _ => false
    | .struct fs, .struct os, .struct gs =>
      os.length == fs.length && gs.length == fs.length &&
      ((fs.zip (os.zip gs)).all fun (f, (x, y)) =>
        let tag := Rules.parseTag f.tag
        if !f.exported || tag.dash || tag.omit' then isZeroF 1000 y
        else if tag.inline then agreeF path fuel f.typ x y
        -- (a field the documentation calls empty may also simply come back: the round trip holds)
        else if tag.omitEmpty && Rules.isEmptyF 100000 f.typ x then isZeroF 1000 y || agreeF path fuel f.typ x y
        else
          let name := strBytes (if tag.name != "" then tag.name else toLower f.name)
          if json && fixU name != name then true                              -- member name is no valid UTF-8
          else agreeF path fuel f.typ x y)
    | .iface, o, g =>
      if nullishF fuel o then g matches .nilIface else
      match o with
      | .iface dt dv =>
        if staticCustomF 200 dt then true else                    -- custom folders: no claim
        match Rules.fold dt dv with
        | .ok want => approxPath path want (gvToValF 1000 g)
        | .error _ => true
      | _ => false
    | _, _, _ => false

def valHasF (p : Val → Bool) : Nat → Val → Bool
  | 0, _ => false
  | fuel + 1, v =>
    p v || (match v with
      | .arr xs => xs.any (valHasF p fuel)
      | .obj ms => ms.any fun (_, x) => valHasF p fuel x
      | _ => false)

def nonFinite : Val → Bool
  | .f64 b => (f64Rat b).isNone
  | .f32 b => !f32Finite b
  | _ => false

def aboveMaxInt64 : Val → Bool
  | .int n => n > 9223372036854775807
  | _ => false

def oracle (t : Gotype.GoType) (v : Gotype.GoVal) (path : String) (impl : String) : List String :=
  let (final, verdict) := match impl.splitOn "|" with
    | [f, vd] => (f, vd)
    | _ => ("-", impl)
  let ctx := s!"path={path} type={t.print} value={v.print}"
  if verdict.startsWith "panic" || verdict == "fatal" || verdict == "hang" then
    if (cyclicF 200 t || valCyclicF 1000 v) && verdict == "fatal" then
      -- known: F23 on the fold side (getReflectFold recurses on a cyclic type term)
      [s!"C11 recursive-type-fold-overflows-stack type={t.print}"]
    else if verdict == "panic:fold" && path != "direct" then
      -- the visitor was an encoder: the fold side alone
      [s!"C11 fold-panic {ctx}"]
    else [s!"C11 fold-unfold-{verdict} {ctx}"]
  else
  let supported := (Gotype.Rules.typeOk true t matches .ok _) && unfOkF 200 t
  if !supported then
    if verdict.startsWith "err" then [] else [s!"C11 unsupported-type-not-refused verdict={verdict} {ctx}"]
  else
  match Gotype.Rules.fold t v with
  | .error .userCode => []
  | .error _ =>
    -- an unsupported dynamic type inside an interface value
    if verdict.startsWith "err" then [] else [s!"C11 unsupported-value-not-refused verdict={verdict} {ctx}"]
  | .ok want =>
    if staticCustomF 200 t then [] else
    if verdict != "ok" then
      if path == "json" && valHasF nonFinite 1000 want then []
      else if path == "ubjson" && valHasF aboveMaxInt64 1000 want then
        [s!"C11 ubjson-uint64-above-maxint64 type={t.print}"]
      else [s!"C11 round-trip-fails-on-supported-value verdict={verdict} {ctx}"]
    else
      match Gotype.GoVal.parse? t final with
      | none => [s!"C11 round-trip-unreadable-value {ctx} got={final}"]
      | some got =>
        if agreeF path 1000 t v got then [] else [s!"C11 round-trip-changes-value {ctx} got={final}"]

end Fu

/-- fu <type> <value> <path> -/
def opFu (args : List String) (impl : String) : Result :=
  match args with
  | [ts, vs, path] =>
    if !["direct", "json", "ubjson", "cborl"].contains path then noModel else
    match Gotype.GoType.parse? ts with
    | some t =>
      match Gotype.GoVal.parse? t vs with
      | some v => { model := some (Fu.model t v path), fails := Fu.oracle t v path impl }
      | none => noModel
    | none => noModel
  | _ => noModel

end SF.Ops
