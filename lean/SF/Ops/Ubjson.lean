/-
  SF.Ops.Ubjson — op handlers for the UBJSON codec: the executable mirror's observations,
  in exactly the canonical form the Go harness prints for format "ubj" (ops_codec.go).
-/
import SF.Ops.Common
import SF.Ubjson.Enc
import SF.Ubjson.Parse
import SF.Ubjson.Dec
namespace SF.Ops.Ubjson
open SF SF.Ops SF.Ubjson

def errClass : Option Parse.Err → String
  | none => "ok"
  | some .visitor => "err:injected"
  | some .panic => "panic"
  | some .outOfFuel => "hang"
  | some _ => "err"

/-- enc ubj <opts> <failFrom> <xevents> -/
def encModel (failFrom : Int) (xs : List XEv) : String :=
  let (s, res) := Enc.run (Enc.newVisitor (if failFrom < 0 then none else some failFrom.toNat)) xs
  let r := match res with | none => "ok" | some i => s!"err@{i}"
  let wf := match s.w.failFrom with | some k => if s.w.calls > k then "1" else "0" | none => "0"
  s!"{hexOrDash s.w.out}|{r}|d={s.length.stack.length}|wf={wf}"

/-- VerifDepths: state stack, value-state stack, length stack, buffer -/
def depthsP (p : Parse.P) : String :=
  s!"{p.state.stack.length}.{p.valueState.stack.length}.{p.length.stack.length}.{p.buffer.length}"

/-- a panic or hang anywhere is the whole op's observation (the harness' Guard) -/
def guarded (e : Option Parse.Err) (s : String) : String :=
  match e with
  | some .panic => "panic"
  | some .outOfFuel => "hang"
  | _ => s

/-- parse ubj <entry> <failAt> <chunks> -/
def parseModel (entry : String) (failAt : Int) (chunks : List Bytes) : String :=
  let p0 : Parse.P := Parse.init (if failAt < 0 then none else some failAt.toNat)
  if entry == "P" || entry == "S" then
    let (p, e) := Parse.parse p0 chunks.flatten
    guarded e s!"{evsToString (Parse.events p)}|{errClass e}|-"
  else if entry == "R" then
    let (p, e) := Parse.parseReader p0 chunks
    guarded e s!"{evsToString (Parse.events p)}|{errClass e}|-"
  else
    let rec go (p : Parse.P) (cs : List Bytes) (ds : List String) : Parse.P × Option Parse.Err × List String :=
      match cs with
      | [] => let (p, e) := Parse.finalize p; (p, e, ds.reverse)
      | c :: rest =>
        match Parse.write p c with
        | (p, some e) => (p, some e, ds.reverse)
        | (p, none) => go p rest (depthsP p :: ds)
    let (p, e, ds) := go p0 chunks []
    let d := if ds.isEmpty then "-" else "/".intercalate ds
    guarded e s!"{evsToString (Parse.events p)}|{errClass e}|{d}"

/-- dec ubj <bufsize> <lastEOF> <maxNext> <chunks> -/
def decModel (bufsize : Nat) (lastEOF : Bool) (maxNext : Nat) (chunks : List Bytes) : String :=
  let d0 : Dec.Dec :=
    if bufsize == 0 then Dec.newBytesDecoder chunks.flatten else Dec.newDecoder chunks lastEOF bufsize
  -- `.error` = the whole op panicked / hung (the harness' Guard)
  let rec go (d : Dec.Dec) (n : Nat) (acc : List String) : Except String (List String) :=
    match n with
    | 0 => .ok acc.reverse
    | n + 1 =>
      let d := { d with p := { d.p with evs := [] } }
      let (d', r) := Dec.next (Dec.nextFuel d) d
      match r with
      | .err .panic => .error "panic"
      | .err .outOfFuel => .error "hang"
      | _ =>
        let rs := match r with | .ok => "ok" | .eof => "eof" | .err _ => "err"
        let acc := s!"{evsToString (Parse.events d'.p)}={rs}" :: acc
        if r == .ok then go d' n acc else .ok acc.reverse
  match go d0 maxNext [] with
  | .ok outs => ";".intercalate outs
  | .error cls => cls

/-- decf: the same with a visitor failing from its `failAt`-th event on (counted over the whole stream) -/
def decFaultModel (failAt : Nat) (bufsize : Nat) (lastEOF : Bool) (maxNext : Nat) (chunks : List Bytes) : String :=
  let d0 : Dec.Dec :=
    if bufsize == 0 then Dec.newBytesDecoder chunks.flatten else Dec.newDecoder chunks lastEOF bufsize
  -- `.error` = the whole op panicked / hung (the harness' Guard)
  let d0 := { d0 with p := Parse.init (some failAt) }
  let rec go (d : Dec.Dec) (n : Nat) (acc : List String) : Except String (List String) :=
    match n with
    | 0 => .ok acc.reverse
    | n + 1 =>
      let before := (Parse.events d.p).length
      let (d', r) := Dec.next (Dec.nextFuel d) d
      match r with
      | .err .panic => .error "panic"
      | .err .outOfFuel => .error "hang"
      | _ =>
        let rs := match r with | .ok => "ok" | .eof => "eof" | .err _ => "err"
        let acc := s!"{evsToString ((Parse.events d'.p).drop before)}={rs}" :: acc
        if r == .ok then go d' n acc else .ok acc.reverse
  match go d0 maxNext [] with
  | .ok outs => ";".intercalate outs
  | .error cls => cls

end SF.Ops.Ubjson

namespace SF.Ops.Ubjson
open SF SF.Ops SF.Ubjson

def encDocs (_opts : String) (docs : List (List XEv)) : Option (List (Bytes × String)) :=
  let rec go (s : Enc.Enc) (ds : List (List XEv)) (acc : List (Bytes × String)) : Option (List (Bytes × String)) :=
    match ds with
    | [] => some acc.reverse
    | d :: rest =>
      match Enc.run { s with w := {} } d with
      | (s', none) => go s' rest ((s'.w.out, toString s'.length.stack.length) :: acc)
      | (_, some _) => none
  go {} docs []

def parseDocs (mode : String) (docs : List Bytes) : Option (List (List Ev × String)) :=
  let rec go (p : Parse.P) (ds : List Bytes) (acc : List (List Ev × String)) : Option (List (List Ev × String)) :=
    match ds with
    | [] => some acc.reverse
    | d :: rest =>
      if mode == "P" then
        match Parse.parse { p with evs := [] } d with
        | (p', none) => go p' rest ((Parse.events p', depthsP p') :: acc)
        | (_, some _) => none
      else
      match Parse.write { p with evs := [] } d with
      | (p', none) =>
        match Parse.finalize p' with
        | (p'', none) => go p'' rest ((Parse.events p'', depthsP p'') :: acc)
        | (_, some _) => none
      | (_, some _) => none
  go (Parse.init none) docs []

def parseEvents (chunks : List Bytes) : List Ev × String :=
  let (p, e) := Parse.parseReader (Parse.init none) chunks
  (Parse.events p, errClass e)

def encEvents (_opts : String) (evs : List Ev) : Bytes × Option Nat :=
  let (s, r) := Enc.run {} (evs.map XEv.ev)
  (s.w.out, r)

end SF.Ops.Ubjson
