/-
  SF.Ops.Oracle — the properties evaluated on the implementation's observation
  (specification layer only; never compares with the mirror model).
  Failure strings: "<property> <signature> <detail>".
-/
import SF.Ops.Common
import SF.Cbor.Cst
import SF.Ubjson.Cst
import SF.Json.Cst
namespace SF.Ops
open SF

/-- verdict of the reference decoder of a format on a byte stream -/
inductive Ref
  | ok (vs : List Val) (mayReject : Bool := false)
                           -- a sequence of complete, supported values; `mayReject`: the
                           -- property lets a parser refuse it (numbers beyond 64 bits / binary64)
  | truncated              -- ends inside a value
  | rejected               -- malformed or outside the supported subset
  | undetermined           -- the property (as read in DESIGN §7) makes no demand
  deriving Inhabited

/-- a codec as seen by the generic op handlers -/
structure Codec where
  name : String
  encModel : String → Int → List XEv → String            -- opts, failFrom, events
  parseModel : String → Int → List Bytes → String        -- entry, failAt, chunks
  decModel : Nat → Bool → Nat → List Bytes → String      -- bufsize, lastEOF, maxNext, chunks
  ref : Bytes → Ref                                      -- reference decoder (specification)
  /-- documented representation changes of the format: `orig ⊑ got` -/
  approx : String → Val → Val → Bool                     -- opts, original, obtained
  /-- may the encoder legitimately refuse this stream (JSON: non-finite floats)? -/
  mayRefuse : String → List Ev → Bool := fun _ _ => false
  /-- documents one after the other on ONE encoder: per document (bytes, depths); none = an event failed -/
  encDocs : String → List (List XEv) → Option (List (Bytes × String))
  /-- documents one after the other on ONE parser (mode W: Write + end-of-input check each;
  mode P: the Parse method): per document (events, depths); none = an error -/
  parseDocs : String → List Bytes → Option (List (List Ev × String))
  /-- ParseReader over chunks: events delivered and the parser's own error class -/
  parseEvents : List Bytes → List Ev × String
  /-- a never-failing encoder fed with basic events: bytes written, index of the first failing event -/
  encEvents : String → List Ev → Bytes × Option Nat

def cborRef (b : Bytes) : Ref :=
  match Cbor.Cst.decodeStream b with
  | .ok items => .ok (items.map (·.value))
  | .error .truncated => .truncated
  | .error _ => .rejected

def ubjRef (b : Bytes) : Ref :=
  match Ubjson.Cst.decodeStream b with
  | .ok vs => .ok vs
  | .error .truncated => .truncated
  | .error .rejected => .rejected
  | .error .undetermined => .undetermined

def jsonRef (b : Bytes) : Ref :=
  match Json.Cst.decode b with
  | .ok vs mr => .ok vs mr
  | .truncated => .truncated
  | .badStructure => .rejected
  | .undetermined => .undetermined

/-! ## representation relations `orig ⊑ got` (DESIGN appendix A.3) -/

def decimalBytes (n : Nat) : Bytes := (toString n).toList.map fun c => UInt8.ofNat c.toNat

mutual
/-- UBJSON: integers above MaxInt64 travel as their decimal string; an extended unsigned
array / map one of whose elements exceeds MaxInt64 is typed `H` as a whole -/
def approxUbj : Val → Val → Bool
  | .int n, .int m => n == m
  | .int n, .str s => n > 9223372036854775807 && s == decimalBytes n.toNat
  | .null, .null => true
  | .bool a, .bool b => a == b
  | .f32 a, .f32 b => a == b
  | .f64 a, .f64 b => a == b
  | .str a, .str b => a == b
  | .arr xs, .arr ys =>
    approxUbjList xs ys ||
      (xs.any (fun v => match v with | .int n => n > 9223372036854775807 | _ => false) && allDecimal xs ys)
  | .obj xs, .obj ys =>
    approxUbjMems xs ys ||
      (xs.any (fun m => match m.2 with | .int n => n > 9223372036854775807 | _ => false) &&
        allDecimalMems xs ys)
  | _, _ => false
def approxUbjList : List Val → List Val → Bool
  | [], [] => true
  | a :: as, b :: bs => approxUbj a b && approxUbjList as bs
  | _, _ => false
def approxUbjMems : List (Bytes × Val) → List (Bytes × Val) → Bool
  | [], [] => true
  | (k, a) :: as, (l, b) :: bs => k == l && approxUbj a b && approxUbjMems as bs
  | _, _ => false
def allDecimal : List Val → List Val → Bool
  | [], [] => true
  | .int n :: as, .str s :: bs => n ≥ 0 && s == decimalBytes n.toNat && allDecimal as bs
  | _, _ => false
def allDecimalMems : List (Bytes × Val) → List (Bytes × Val) → Bool
  | [], [] => true
  | (k, .int n) :: as, (l, .str s) :: bs => k == l && n ≥ 0 && s == decimalBytes n.toNat && allDecimalMems as bs
  | _, _ => false
end

/-- Go's string → valid UTF-8: every byte DecodeRune reports as (RuneError, 1) becomes U+FFFD -/
def fixUtf8 : Nat → Bytes → Bytes
  | 0, _ => []
  | _ + 1, [] => []
  | fuel + 1, b =>
    let (_, sz) := Json.Utf8.decodeRune b
    if sz ≤ 1 then
      (if (b.headD 0) < 0x80 then [b.headD 0] else [0xef, 0xbf, 0xbd]) ++ fixUtf8 fuel (b.drop 1)
    else b.take sz ++ fixUtf8 fuel (b.drop sz)

/-- a finite binary64 as (negative, numerator, denominator); none for NaN / Inf -/
def f64Rat (bits : UInt64) : Option (Bool × Nat × Nat) :=
  let n := bits.toNat
  let neg := n ≥ 2 ^ 63
  let e := (n / 2 ^ 52) % 2048
  let m := n % 2 ^ 52
  if e == 2047 then none
  else if e == 0 then some (neg, m, 2 ^ 1074)
  else
    let mant := m + 2 ^ 52
    -- value = mant * 2^(e - 1075)
    if e ≥ 1075 then some (neg, mant * 2 ^ (e - 1075), 1) else some (neg, mant, 2 ^ (1075 - e))

def f32Finite (bits : UInt32) : Bool := (bits.toNat / 2 ^ 23) % 256 != 255

/-- a number value as (negative, numerator, denominator) -/
def numRat : Val → Option (Bool × Nat × Nat)
  | .int n => some (n < 0, n.natAbs, 1)
  | .f64 b => f64Rat b
  | _ => none

def ratEq (a b : Bool × Nat × Nat) : Bool :=
  let (na, pa, qa) := a
  let (nb, pb, qb) := b
  pa * qb == pb * qa && (pa == 0 || na == nb)

mutual
/-- JSON: numbers compared numerically (a float may come back as an integer literal),
float32 through any decimal that rounds back to it, invalid UTF-8 ↦ U+FFFD, non-finite
floats ↦ null (option i), integer literals beyond 64 bits may be widened to the nearest
float -/
def approxJson (opts : String) : Val → Val → Bool
  | .null, .null => true
  | .bool a, .bool b => a == b
  | .str a, .str b => fixUtf8 (a.length + 1) a == b
  | .int n, .int m => n == m
  | .int n, .f64 y =>
    -- only literals outside [-2^63, 2^64) may be widened
    (n < -9223372036854775808 || n > 18446744073709551615) &&
      (match Json.Float.roundRat Json.Float.float64info n.natAbs 1 with
       | (bits, _) => UInt64.ofNat bits ||| (if n < 0 then 0x8000000000000000 else 0) == y)
  | .f64 x, got =>
    match f64Rat x with
    | none => opts.toList.contains 'i' && (match got with | .null => true | _ => false)
    | some rx => (match numRat got with | some ry => ratEq rx ry | none => false)
  | .f32 x, got =>
    if !f32Finite x then opts.toList.contains 'i' && (match got with | .null => true | _ => false)
    else
      match numRat got with
      | none => false
      | some (neg, p, q) =>
        let xn := x.toNat % 2 ^ 31
        let xneg := x.toNat ≥ 2 ^ 31
        let (bits, ovf) := Json.Float.roundRat Json.Float.float32info p q
        !ovf && bits == xn && (p == 0 || neg == xneg)
  | .arr xs, .arr ys => approxJsonList opts xs ys
  | .obj xs, .obj ys => approxJsonMems opts xs ys
  | _, _ => false
def approxJsonList (opts : String) : List Val → List Val → Bool
  | [], [] => true
  | a :: as, b :: bs => approxJson opts a b && approxJsonList opts as bs
  | _, _ => false
def approxJsonMems (opts : String) : List (Bytes × Val) → List (Bytes × Val) → Bool
  | [], [] => true
  | (k, a) :: as, (l, b) :: bs => fixUtf8 (k.length + 1) k == l && approxJson opts a b && approxJsonMems opts as bs
  | _, _ => false
end

def hasNonFinite (evs : List Ev) : Bool :=
  evs.any fun e => match e with
    | .f64 b => (f64Rat b).isNone
    | .f32 b => !f32Finite b
    | _ => false

def allApprox (c : Codec) (opts : String) : List Val → List Val → Bool
  | [], [] => true
  | a :: as, b :: bs => c.approx opts a b && allApprox c opts as bs
  | _, _ => false

/-- streams the encoder oracles judge: any well-formed stream for the binary formats; for
JSON one value, or several top-level containers (top-level scalars written back to back have
no separator in JSON: `1` `2` is the text `12`) -/
def judgedStream (c : Codec) (evs : List Ev) : Bool :=
  if c.name != "json" then WF evs
  else WF1 evs || (WF evs && (
    let rec tops (depth : Nat) (es : List Ev) (ok : Bool) : Bool :=
      match es with
      | [] => ok
      | e :: rest =>
        match e with
        | .arrStart _ _ | .objStart _ _ => tops (depth + 1) rest ok
        | .arrEnd | .objEnd => tops (depth - 1) rest ok
        | _ => tops depth rest (ok && depth > 0)
    tops 0 evs true))

def isBad (verdict : String) : Bool := verdict == "panic" || verdict == "hang" || verdict == "crash"

def showVals (vs : Option (List Val)) : String :=
  match vs with
  | none => "none"
  | some vs => toString vs.length ++ " value(s)"

/-- oracles on `parse` observations `events|verdict|depths` (no injected fault) -/
def parseOracle (c : Codec) (entry : String) (bytes : Bytes) (impl : String) : List String :=
  match impl.splitOn "|" with
  | [evS, verdict, _] =>
    if isBad verdict then [s!"C03 {c.name}-parse-{verdict} entry={entry}"] else
    match parseEvs evS with
    | none => [s!"C03 {c.name}-unreadable-observation"]
    | some evs =>
      let wf := if verdict == "ok" && !WF evs then
          [s!"C09 {c.name}-parser-ill-formed-events at={(wfFirstBad evs).getD 0}"] else []
      -- work proportional to the input: a parser may not deliver events out of all proportion
      -- to the bytes it received
      let work := if evs.length > 64 * bytes.length + 64 then
          [s!"C03 {c.name}-work-disproportionate-to-input events={evs.length} bytes={bytes.length}"] else []
      wf ++ work ++ match c.ref bytes with
      | .ok vs mr =>
        if verdict != "ok" then
          (if mr then [] else [s!"{c.name}-refused-valid-document entry={entry}"].map (specProp c ++ " " ++ ·))
        else if !(match buildAll evs with | some got => allApprox c "" vs got | none => false) then
          [s!"{specProp c} {c.name}-wrong-value entry={entry} want={showVals (some vs)} got={showVals (buildAll evs)}"]
        else []
      | .truncated =>
        if verdict == "ok" then [s!"C03 {c.name}-truncated-input-accepted entry={entry}",
                                 s!"{specProp c} {c.name}-text-that-ends-inside-a-value-accepted entry={entry}"] else []
      | .rejected =>
        if verdict == "ok" then [s!"{specProp c} {c.name}-invalid-or-unsupported-accepted entry={entry}"] else []
      | .undetermined => []
  | _ => if isBad impl then [s!"C03 {c.name}-parse-{impl} entry={entry}"] else [s!"C03 {c.name}-unreadable-observation"]
where
  specProp (c : Codec) : String :=
    if c.name == "cbor" then "C05" else if c.name == "ubj" then "C06" else "C04"

/-- C16 on `parse` with the visitor failing from event `k` on -/
def parseFaultOracle (c : Codec) (k : Nat) (impl : String) : List String :=
  match impl.splitOn "|" with
  | [evS, verdict, _] =>
    if isBad verdict then [s!"C16 {c.name}-parse-{verdict}-under-visitor-fault"] else
    match parseEvs evS with
    | none => []
    | some evs =>
      if evs.length > k + 1 then [s!"C16 {c.name}-parser-delivers-events-after-visitor-error k={k} delivered={evs.length}"]
      else if evs.length == k + 1 && verdict != "err:injected" then
        [s!"C16 {c.name}-parser-loses-visitor-error k={k} verdict={verdict}"]
      else []
  | _ => []

/-- oracles on `enc` observations `hex|res|d=…|wf=…` -/
def encOracle (c : Codec) (opts : String) (failFrom : Int) (xs : List XEv) (impl : String) : List String :=
  match impl.splitOn "|" with
  | [hexS, res, _, wf] =>
    if isBad res then [s!"C07 {c.name}-encoder-{res}"] else
    if failFrom ≥ 0 then
      if wf == "wf=1" && res == "ok" then [s!"C16 {c.name}-encoder-loses-write-error failFrom={failFrom}"] else []
    else
      let evs := expandAll xs
      if !judgedStream c evs then [] else
      if res != "ok" then
        if c.mayRefuse opts evs then [] else [s!"C07 {c.name}-encoder-error-on-well-formed-stream {res}"]
      else
      match (if hexS == "-" then some [] else ofHex hexS), buildAll evs with
      | some bytes, some want =>
        match c.ref bytes with
        | .ok got _ =>
          if allApprox c opts want got then [] else [s!"C07 {c.name}-encoder-output-decodes-to-other-value"]
        | .truncated => [s!"C07 {c.name}-encoder-output-truncated-document"]
        | .rejected => [s!"C07 {c.name}-encoder-output-invalid-document"]
        | .undetermined => [s!"C07 {c.name}-encoder-output-not-a-document-of-the-format"]
      | _, _ => []
  | _ => if isBad impl then [s!"C07 {c.name}-encoder-{impl}"] else []

/-- C01 on `rt` observations `hex|encres|events|verdict` -/
def rtOracle (c : Codec) (opts : String) (xs : List XEv) (impl : String) : List String :=
  -- the harness appends `|CHUNKED:<verdict>` only when byte-wise delivery of the encoder's
  -- output gave other events / another verdict than the whole buffer
  if (impl.splitOn "|CHUNKED:").length > 1 then
    [s!"C01 {c.name}-roundtrip-depends-on-how-the-bytes-arrive chunked={((impl.splitOn "|CHUNKED:").getD 1 "")}"] else
  match impl.splitOn "|" with
  | [_, res, evS, verdict] =>
    let evs := expandAll xs
    if !judgedStream c evs then [] else
    if res != "ok" then
      if c.mayRefuse opts evs then [] else [s!"C01 {c.name}-encoder-error-on-well-formed-stream {res}"]
    else if isBad verdict then [s!"C01 {c.name}-parse-{verdict}-on-own-output"]
    else if verdict != "ok" then [s!"C01 {c.name}-parser-rejects-own-encoder-output"]
    else match parseEvs evS, buildAll evs with
      | some got, some want =>
        match buildAll got with
        | some gotv => if allApprox c opts want gotv then [] else [s!"C01 {c.name}-roundtrip-changes-value"]
        | none => [s!"C01 {c.name}-roundtrip-ill-formed-events"]
      | _, _ => []
  | _ => if isBad impl then [s!"C01 {c.name}-{impl}"] else []

/-- C02 on `chunk` observations `evsWhole|verdictWhole|evsChunked|verdictChunked|depths` -/
def chunkOracle (c : Codec) (entry : String) (impl : String) : List String :=
  match impl.splitOn "|" with
  | [ew, vw, ec, vc, _] =>
    if isBad vw || isBad vc then [s!"C03 {c.name}-parse-{if isBad vw then vw else vc} entry={entry}"] else
    let cls (v : String) := if v == "ok" then "ok" else "err"
    if cls vw != cls vc then [s!"C02 {c.name}-verdict-depends-on-chunking entry={entry} whole={vw} chunked={vc}"]
    else if ew != ec then [s!"C02 {c.name}-events-depend-on-chunking entry={entry}"]
    else []
  | _ => if isBad impl then [s!"C03 {c.name}-parse-{impl}"] else []

/-- C18 on `dec` observations `<events>=<res>;…` -/
def decOracle (c : Codec) (bytes : Bytes) (impl : String) : List String :=
  if isBad impl then [s!"C18 {c.name}-decoder-{impl}", s!"C03 {c.name}-decoder-{impl}"] else
  let steps := (impl.splitOn ";").map fun s =>
    match s.splitOn "=" with
    | [e, r] => (parseEvs e, r)
    | _ => (none, "?")
  if steps.any (fun s => isBad s.2) then [s!"C18 {c.name}-decoder-panic-or-hang", s!"C03 {c.name}-decoder-panic-or-hang"] else
  let oks := steps.takeWhile (·.2 == "ok")
  let last := (steps.drop oks.length).head?.map (·.2)
  let vals := oks.map fun s => s.1.bind build
  let check (want : List Val) (lastWant : String) : List String :=
    if oks.length != want.length then
      [s!"C18 {c.name}-decoder-wrong-number-of-values want={want.length} got={oks.length} last={last.getD "none"}"] ++
        -- the first document was delivered, a later one not: the decoder that has processed
        -- documents does not do what a new decoder does on the rest of the stream (C17)
        (if 0 < oks.length && oks.length < want.length then
           [s!"C17 {c.name}-decoder-stops-after-{oks.length}-of-{want.length}-documents last={last.getD "none"}"] else [])
    else if !(List.zip want vals).all (fun (w, g) => match g with | some g => c.approx "" w g | none => false) then
      [s!"C18 {c.name}-decoder-value-not-one-per-Next"] ++
        (if (match want.head?, vals.head? with | some w, some (some g) => c.approx "" w g | _, _ => false) then
           [s!"C17 {c.name}-decoder-reports-a-later-document-differently-from-the-first"] else [])
    else if last != some lastWant then
      [s!"C18 {c.name}-decoder-end-of-stream-reported-as-{last.getD "none"}-instead-of-{lastWant}"]
    else []
  match c.ref bytes with
  | .ok vs mr => if mr then [] else check vs "eof"
  | .undetermined => []
  | .truncated =>
    -- complete leading values are delivered, then an error distinct from a clean end; a
    -- successful Next has delivered the complete events of ONE value
    if !(vals.all fun v => v.isSome) then
      [s!"C18 {c.name}-decoder-Next-succeeds-without-a-complete-value", s!"C03 {c.name}-decoder-truncated-value-reported-as-success"]
    else if last == some "eof" then [s!"C18 {c.name}-decoder-truncated-stream-reported-as-clean-end"]
    else if last != some "err" then [s!"C18 {c.name}-decoder-truncated-stream-no-error last={last.getD "none"}"]
    else []
  | .rejected => if last == some "err" then [] else [s!"C18 {c.name}-decoder-accepts-invalid-stream last={last.getD "none"}"]

/-- C10 on `ext` observations `hex1|res1|d1|hex2|res2|d2`; `whole` = the complete stream
(prefix, the extended event, suffix) -/
def extOracle (c : Codec) (opts : String) (whole : List XEv) (impl : String) : List String :=
  match impl.splitOn "|" with
  | [h1, r1, d1, h2, r2, d2] =>
    if isBad r1 || isBad r2 then [s!"C10 {c.name}-encoder-panic-or-hang"] else
    let cls (r : String) := if r == "ok" then "ok" else "err"
    if cls r1 != cls r2 then
      [s!"C10 {c.name}-extended-event-result-differs-from-expansion ext={r1} expanded={r2}"]
    else if r1 != "ok" then []
    else if d1 != d2 then
      [s!"C10 {c.name}-extended-event-leaves-different-state ext={d1} expanded={d2}"]
    else
      let evs := expandAll whole
      if !WF evs then [] else
      match buildAll evs with
      | none => []
      | some want =>
        let dec (h : String) := (if h == "-" then some [] else ofHex h).map c.ref
        let good (r : Option Ref) : Option Bool :=
          match r with
          | some (.ok v _) => some (allApprox c opts want v)
          | _ => none
        match good (dec h1), good (dec h2) with
        | some true, some true => []
        | some false, _ => [s!"C10 {c.name}-extended-event-decodes-to-other-value"]
        | none, _ => [s!"C10 {c.name}-extended-event-output-invalid"]
        | _, some false => [s!"C10 {c.name}-expansion-decodes-to-other-value"]
        | _, none => [s!"C10 {c.name}-expansion-output-invalid"]
  | _ => if isBad impl then [s!"C10 {c.name}-{impl}"] else []

end SF.Ops
