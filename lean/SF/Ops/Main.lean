/-
  SF.Ops — dispatch of operation lines to the executable models and oracles.
  `model = none` means the driver has no model for the op (never silently `ok`).
-/
import SF.Ops.Common
import SF.Ops.Cbor
import SF.Gotype.Symbols
namespace SF.Ops
open SF

/-- lru <cap> <keys> -/
def opLRU (args : List String) (impl : String) : Result :=
  match args with
  | [capS, keysS] =>
    match decToInt? capS, parseChunks keysS with
    | some cap, some keys =>
      let showSt (c : Symbols.Cache) : String :=
        if !c.enabled then "off" else
          (if c.lst.isEmpty then "-" else ".".intercalate (c.lst.map hxe)) ++ "/" ++ toString c.m.length
      let rec go (c : Symbols.Cache) (ks : List Bytes) (acc : List String) (seen : List Bytes) :
          Option (List String × List Bytes) :=
        match ks with
        | [] => some (acc.reverse, seen)
        | k :: rest =>
          match Symbols.get c k with
          | .panic => none
          | .ok (c', v) => go c' rest (showSt c' :: acc) (if seen.contains v then seen else v :: seen)
      let model :=
        match go (Symbols.init cap) keys [] [] with
        | none => "panic"
        | some (steps, seen) =>
          let ks := (seen.map hxe).toArray.qsort (· < ·) |>.toList
          ";".intercalate steps ++ "|" ++ ".".intercalate ks
      -- oracle (C20): the unfolded map's key set is exactly the set of keys delivered,
      -- whatever the capacity; never a panic
      let want :=
        let ks := (keys.eraseDups.map hxe).toArray.qsort (· < ·) |>.toList
        ".".intercalate ks
      let got := (impl.splitOn "|").getLast!
      let fails :=
        if impl == "panic" || impl == "hang" then [s!"C20 cache-{impl} cap={capS}"]
        else if impl == "err" then [s!"C20 cache-err cap={capS}"]
        else if got != want then [s!"C20 cache-changes-result cap={capS} got={got} want={want}"]
        else []
      { model := some model, fails := fails }
    | _, _ => { model := none }
  | _ => { model := none }

def opEnc (args : List String) (impl : String) : Result :=
  match args with
  | [fmt, _opts, ff, xs] =>
    match decToInt? ff, parseXEvs xs with
    | some failFrom, some xevs =>
      if fmt == "cbor" then { model := some (Cbor.encModel failFrom xevs) } else noModel
    | _, _ => noModel
  | _ => noModel

def opParse (args : List String) (impl : String) : Result :=
  match args with
  | [fmt, entry, fa, cs] =>
    match decToInt? fa, parseChunks cs with
    | some failAt, some chunks =>
      if fmt == "cbor" then { model := some (Cbor.parseModel entry failAt chunks) } else noModel
    | _, _ => noModel
  | _ => noModel

def opDec (args : List String) (impl : String) : Result :=
  match args with
  | [fmt, bs, _le, mn, cs] =>
    match decToNat? bs, decToNat? mn, parseChunks cs with
    | some bufsize, some maxNext, some chunks =>
      if fmt == "cbor" then { model := some (Cbor.decModel bufsize maxNext chunks) } else noModel
    | _, _, _ => noModel
  | _ => noModel

def runLine (op : String) (impl : String) : Result :=
  match op.splitOn " " with
  | "lru" :: args => opLRU args impl
  | "enc" :: args => opEnc args impl
  | "parse" :: args => opParse args impl
  | "dec" :: args => opDec args impl
  | _ => { model := none }

end SF.Ops
