/-
  SF.Ops.Main — dispatch of operation lines to the executable models (correspondence) and
  the specification oracles.  `model = none` means the driver has no model for the op
  (reported as SKIP, never silently `ok`).
-/
import SF.Ops.Common
import SF.Ops.Oracle
import SF.Ops.Cbor
import SF.Ops.Ubjson
import SF.Ops.Json
import SF.Ops.Unfold
import SF.Ops.Fu
import SF.Ops.Fold
import SF.Gotype.Symbols
namespace SF.Ops
open SF

def cborCodec : Codec where
  name := "cbor"
  encModel := fun _ ff xs => Cbor.encModel ff xs
  parseModel := Cbor.parseModel
  decModel := fun bs _ mn cs => Cbor.decModel bs mn cs
  ref := cborRef
  approx := fun _ a b => a == b
  encDocs := Cbor.encDocs
  parseDocs := Cbor.parseDocs
  parseEvents := Cbor.parseEvents
  encEvents := Cbor.encEvents

def ubjCodec : Codec where
  name := "ubj"
  encModel := fun _ ff xs => Ubjson.encModel ff xs
  parseModel := Ubjson.parseModel
  decModel := Ubjson.decModel
  ref := ubjRef
  approx := fun _ a b => approxUbj a b
  encDocs := Ubjson.encDocs
  parseDocs := Ubjson.parseDocs
  parseEvents := Ubjson.parseEvents
  encEvents := Ubjson.encEvents

def jsonCodec : Codec where
  name := "json"
  encModel := Json.encModel
  parseModel := Json.parseModel
  decModel := Json.decModel
  ref := jsonRef
  approx := approxJson
  mayRefuse := fun opts evs => !opts.toList.contains 'i' && hasNonFinite evs
  encDocs := Json.encDocs
  parseDocs := Json.parseDocs
  parseEvents := Json.parseEvents
  encEvents := Json.encEvents

def codecOf (fmt : String) : Option Codec :=
  if fmt == "cbor" then some cborCodec
  else if fmt == "ubj" then some ubjCodec
  else if fmt == "json" then some jsonCodec
  else none

/-- transcoding: the source parser delivers its own representation of the value (what the
source format's rules make of it), the target encoder then applies its rules: the value of
the target document is related to the source value through the target's relation, where
the source side is first normalised by what the source PARSER reports (e.g. UBJSON `H` is a
string; JSON floats that are integers are integers) — both documents are decoded by the
specifications, so the relation is `target.approx` on the decoded source values. -/
def xApprox (_s d : Codec) (opts : String) (src got : List Val) : Bool := allApprox d opts src got

/-- "pos:cap,pos:cap": EnableKeyCache(cap) again before key number pos -/
def parseReenable (s : String) : Option (List (Nat × Int)) :=
  if s == "-" then some [] else
  allSome ((s.splitOn ",").map fun pc =>
    match pc.splitOn ":" with
    | [p, c] => (decToNat? p).bind fun p' => (decToInt? c).map fun c' => (p', c')
    | _ => none)

/-- lru <cap> <keys> [<pos:cap,…>] -/
def opLRU (args : List String) (impl : String) : Result :=
  let (args, reS) := match args with
    | [a, b, c] => ([a, b], c)
    | _ => (args, "-")
  match args with
  | [capS, keysS] =>
    match decToInt? capS, parseChunks keysS, parseReenable reS with
    | some cap, some keys, some re =>
      let showSt (c : Symbols.Cache) : String :=
        if !c.enabled then "off" else
          (if c.lst.isEmpty then "-" else ".".intercalate (c.lst.map hxe)) ++ "/" ++ toString c.m.length
      let rec go (c : Symbols.Cache) (i : Nat) (ks : List Bytes) (acc : List String) (seen : List Bytes) :
          Option (List String × List Bytes) :=
        match ks with
        | [] => some (acc.reverse, seen)
        | k :: rest =>
          -- EnableKeyCache(c) = keyCache.init(c): a fresh cache of the new capacity
          let c := (re.filter (·.1 == i)).foldl (fun _ pc => Symbols.init pc.2) c
          match Symbols.get c k with
          | .panic => none
          | .ok (c', v) => go c' (i + 1) rest (showSt c' :: acc) (if seen.contains v then seen else v :: seen)
      let model :=
        match go (Symbols.init cap) 0 keys [] [] with
        | none => "panic"
        | some (steps, seen) =>
          let ks := (seen.map hxe).toArray.qsort (· < ·) |>.toList
          ";".intercalate steps ++ "|" ++ ".".intercalate ks
      -- oracle (C20): the unfolded map's key set is exactly the set of keys delivered,
      -- whatever the capacity; never a panic
      let want :=
        let ks := (keys.eraseDups.map hxe).toArray.qsort (· < ·) |>.toList
        ".".intercalate ks
      let got := (impl.splitOn "|").getLast!
      let fails :=
        if impl == "panic" || impl == "hang" then [s!"C20 cache-{impl} cap={capS}"]
        else if impl == "err" then [s!"C20 cache-err cap={capS}"]
        else if got != want then [s!"C20 cache-changes-result cap={capS} got={got} want={want}"]
        else []
      { model := some model, fails := fails }
    | _, _, _ => { model := none }
  | _ => { model := none }

def optsOf (s : String) : String := if s == "-" then "" else s

def opEnc (args : List String) (impl : String) : Result :=
  match args with
  | [fmt, opts, ff, xs] =>
    match codecOf fmt, decToInt? ff, parseXEvs xs with
    | some c, some failFrom, some xevs =>
      { model := some (c.encModel (optsOf opts) failFrom xevs),
        fails := encOracle c (optsOf opts) failFrom xevs impl }
    | _, _, _ => noModel
  | _ => noModel

def opParse (args : List String) (impl : String) : Result :=
  match args with
  | [fmt, entry, fa, cs] =>
    match codecOf fmt, decToInt? fa, parseChunks cs with
    | some c, some failAt, some chunks =>
      { model := some (c.parseModel entry failAt chunks),
        fails := if failAt < 0 then parseOracle c entry chunks.flatten impl
                 else parseFaultOracle c failAt.toNat impl }
    | _, _, _ => noModel
  | _ => noModel

def opDec (args : List String) (impl : String) : Result :=
  match args with
  | [fmt, bs, le, mn, cs] =>
    match codecOf fmt, decToNat? bs, decToNat? mn, parseChunks cs with
    | some c, some bufsize, some maxNext, some chunks =>
      { model := some (c.decModel bufsize (le == "1") maxNext chunks),
        fails := decOracle c chunks.flatten impl }
    | _, _, _, _ => noModel
  | _ => noModel

/-- decf <fmt> <bufsize> <lastEOF> <maxNext> <failAt> <chunks>: pull decoder with a visitor that
fails from its k-th event on.  Oracle (C16): the call during which the visitor failed returns an
error (not ok, not eof) and no event is delivered after the failing one. -/
def opDecF (args : List String) (impl : String) : Result :=
  match args with
  | [fmt, bs, le, mn, fa, cs] =>
    match decToNat? bs, decToNat? mn, decToNat? fa, parseChunks cs with
    | some bufsize, some maxNext, some failAt, some chunks =>
      let model := match fmt with
        | "cbor" => some (Cbor.decFaultModel failAt bufsize maxNext chunks)
        | "ubj" => some (Ubjson.decFaultModel failAt bufsize (le == "1") maxNext chunks)
        | "json" => some (Json.decFaultModel failAt bufsize (le == "1") maxNext chunks)
        | _ => none
      -- count the events delivered per call; the call that reaches event index failAt must fail
      let calls := impl.splitOn ";"
      let counts := calls.map fun c =>
        let (e, r) := splitOnce c '='
        ((if e == "-" || e == "" then 0 else (e.splitOn ",").length), r)
      let rec scan (cs : List (Nat × String)) (sofar : Nat) : List String :=
        match cs with
        | [] => []
        | (n, r) :: rest =>
          let total := sofar + n
          if total > failAt + 1 then [s!"C16 {fmt}-decoder-delivers-events-after-visitor-error k={failAt} delivered={total}"]
          else if total == failAt + 1 then
            (if r == "err" then [] else [s!"C16 {fmt}-decoder-loses-visitor-error k={failAt} result={r}"]) ++
            (if rest.any (fun x => x.1 > 0) then [s!"C16 {fmt}-decoder-delivers-events-after-visitor-error k={failAt}"] else [])
          else scan rest total
      let fails := if isBad impl then [s!"C16 {fmt}-decoder-{impl}"] else scan counts 0
      { model := model, fails := fails }
    | _, _, _, _ => noModel
  | _ => noModel

/-- rt <fmt> <opts> <xevents> -/
def opRT (args : List String) (impl : String) : Result :=
  match args with
  | [fmt, opts, xs] =>
    match codecOf fmt, parseXEvs xs with
    | some c, some xevs =>
      let enc := c.encModel (optsOf opts) (-1) xevs        -- hex|res|d|wf
      let model := match enc.splitOn "|" with
        | [h, r, _, _] =>
          let bytes := if h == "-" then [] else (ofHex h).getD []
          match (c.parseModel "P" (-1) [bytes]).splitOn "|" with
          | [e, v, _] => s!"{h}|{r}|{e}|{v}"
          | _ => "?"
        | _ => "?"
      { model := some model, fails := rtOracle c (optsOf opts) xevs impl }
    | _, _ => noModel
  | _ => noModel

/-- chunk <fmt> <entry> <chunks> -/
def opChunk (args : List String) (impl : String) : Result :=
  match args with
  | [fmt, entry, cs] =>
    match codecOf fmt, parseChunks cs with
    | some c, some chunks =>
      let whole := match (c.parseModel "P" (-1) [chunks.flatten]).splitOn "|" with
        | [e, v, _] => s!"{e}|{v}"
        | _ => "?"
      { model := some (whole ++ "|" ++ c.parseModel entry (-1) chunks),
        fails := chunkOracle c entry impl }
    | _, _ => noModel
  | _ => noModel

/-- ext <fmt> <opts> <prefix> <x> <suffix> -/
def opExt (args : List String) (impl : String) : Result :=
  match args with
  | [fmt, opts, pre, x, suf] =>
    match codecOf fmt, parseXEvs pre, XEv.ofTok? x, parseXEvs suf with
    | some c, some pre, some x, some suf =>
      let run (mid : List XEv) : String :=
        -- result and bytes of the whole stream; depth right after `mid`
        let all := c.encModel (optsOf opts) (-1) (pre ++ mid ++ suf)
        let upto := c.encModel (optsOf opts) (-1) (pre ++ mid)
        match all.splitOn "|", upto.splitOn "|" with
        | [h, r, _, _], [_, r2, d2, _] => s!"{h}|{r}|{if r2 == "ok" then d2 else ""}"
        | _, _ => "?"
      { model := some (run [x] ++ "|" ++ run (x.expand.map XEv.ev)),
        fails := extOracle c (optsOf opts) (pre ++ [x] ++ suf) impl }
    | _, _, _, _ => noModel
  | _ => noModel

/-- xcode <src> <dst> <opts> <chunks> -/
def opXcode (args : List String) (impl : String) : Result :=
  match args with
  | [src, dst, opts, cs] =>
    match codecOf src, codecOf dst, parseChunks cs with
    | some s, some d, some chunks =>
      let (evs, pv) := s.parseEvents chunks
      let (out, er) := d.encEvents (optsOf opts) evs
      let verdict := match er with | some _ => "err" | none => (if pv == "ok" then "ok" else "err")
      let model := s!"{hexOrDash out}|{verdict}"
      -- oracle (C08): value of the target document = value of the source document
      let fails :=
        match impl.splitOn "|" with
        | [h, v] =>
          if isBad v then [s!"C08 {src}-to-{dst}-{v}"] else
          match s.ref chunks.flatten with
          | .ok vs mr =>
            -- scope of C08: a single document, or a concatenated stream of CONTAINER documents
            -- (no format's encoder separates top-level scalars: `Z T` ↦ `nulltrue`)
            let inScope := vs.length ≤ 1 || vs.all (fun x => match x with | .arr _ => true | .obj _ => true | _ => false)
            if !inScope then [] else
            if v != "ok" then
              (if mr || d.mayRefuse (optsOf opts) evs then [] else [s!"C08 {src}-to-{dst}-fails-on-valid-document"])
            else
              match (if h == "-" then some [] else ofHex h).map d.ref with
              | some (.ok got _) =>
                if xApprox s d (optsOf opts) vs got then [] else [s!"C08 {src}-to-{dst}-changes-value"]
              | _ => [s!"C08 {src}-to-{dst}-target-invalid"]
          | .undetermined => []
          | _ => if v == "ok" then [s!"C08 {src}-to-{dst}-accepts-invalid-source"] else []
        | _ => if isBad impl then [s!"C08 {src}-to-{dst}-{impl}"] else []
      { model := some model, fails := fails }
    | _, _, _ => noModel
  | _ => noModel

/-- reuse-enc <fmt> <opts> <doc;doc;…;probe> -/
def opReuseEnc (args : List String) (impl : String) : Result :=
  match args with
  | [fmt, opts, docsS] =>
    match codecOf fmt, allSome ((docsS.splitOn ";").map parseXEvs) with
    | some c, some docs =>
      let model :=
        match c.encDocs (optsOf opts) docs, c.encDocs (optsOf opts) [docs.getLast!] with
        | some rs, some [fresh] =>
          s!"{toHex rs.getLast!.1}|{toHex fresh.1}|{"/".intercalate (rs.map (·.2))}"
        | _, _ => "err"
      let fails :=
        if isBad impl then [s!"C17 {fmt}-encoder-{impl}"] else
        match impl.splitOn "|" with
        | [a, b, ds] =>
          (if a != b then [s!"C17 {fmt}-reused-encoder-writes-different-bytes"] else []) ++
          (if (ds.splitOn "/").any (fun d => d.toList.any (fun ch => ch != '0' && ch != '.')) &&
              docs.all (fun d => WF (expandAll d))
           then [s!"C17 {fmt}-encoder-stack-not-idle-between-documents depths={ds}"] else [])
        | _ => []
      { model := some model, fails := fails }
    | _, _ => noModel
  | _ => noModel

/-- reuse-parse <fmt> <doc;doc;…;probe> -/
def opReuseParse (args : List String) (impl : String) : Result :=
  match args with
  | [fmt, mode, docsS] =>
    match codecOf fmt, allSome ((docsS.splitOn ";").map ofHex) with
    | some c, some docs =>
      let model :=
        match c.parseDocs mode docs, c.parseDocs mode [docs.getLast!] with
        | some rs, some [fresh] =>
          s!"{evsToString rs.getLast!.1}|{evsToString fresh.1}|{"/".intercalate (rs.map (·.2))}"
        | _, _ =>
          -- the first document the REUSED parser refuses: does a new parser take it?
          match (List.range docs.length).find? (fun i => (c.parseDocs mode (docs.take (i + 1))).isNone) with
          | some i =>
            if (c.parseDocs mode ((docs.drop i).take 1)).isSome then s!"refused@{i}:a-new-parser-accepts-it" else "err"
          | none => "err"
      -- mode W = Write(doc) + the end-of-input hook: a history the public API offers only when no
      -- document ends in a pending top-level number (JSON: `Parser.finalize` is not exported; the
      -- exported entry points either reset the parser (`Parse`) or create a new one (`ParseReader`))
      let publicHistory := !(fmt == "json" && mode == "W" &&
        docs.dropLast.any (fun d => match d.getLast? with
          | some b => (0x30 ≤ b.toNat && b.toNat ≤ 0x39) || b == 0x2e || b == 0x65 || b == 0x45 || b == 0x2b || b == 0x2d
          | none => false))
      let fails :=
        if isBad impl then [s!"C17 {fmt}-parser-{impl}"] else
        if impl.startsWith "refused@" then
          (if publicHistory then [s!"C17 {fmt}-reused-parser-refuses-a-document-a-new-parser-accepts {impl}"] else []) else
        match impl.splitOn "|" with
        | [a, b, ds] =>
          (if a != b then [s!"C17 {fmt}-reused-parser-reports-different-events"] ++
             -- same text, same parser type, different events: for JSON the difference is in how a
             -- literal was read (C04: no number / string is ever reported as a different one)
             (if fmt == "json" then [s!"C04 json-same-text-read-differently-by-a-parser-that-read-other-documents-before"] else [])
           else []) ++
          -- nesting stacks only: the JSON parser's second figure is the length of its literal
          -- buffer, which `finalize` leaves filled after a trailing number (no nesting stack)
          (if (ds.splitOn "/").any (fun d =>
                let d := if fmt == "json" then (d.splitOn ".").headD "0" else d
                d.toList.any (fun ch => ch != '0' && ch != '.'))
           then [s!"C17 {fmt}-parser-stack-not-idle-between-documents depths={ds}"] else [])
        | _ => []
      { model := some model, fails := fails }
    | _, _ => noModel
  | _ => noModel

/-- reuse-parse-f json <doc;doc;…>: one parser, refused documents included -/
def opReuseParseF (args : List String) (impl : String) : Result :=
  match args with
  | ["json", docsS] =>
    match allSome ((docsS.splitOn ";").map (fun d => if d == "-" then some [] else ofHex d)) with
    | some docs =>
      let reused := Json.parseDocsF docs
      let fresh := docs.map (fun d => (Json.parseDocsF [d]).headD "")
      let model := "/".intercalate reused ++ "|" ++ "/".intercalate fresh
      let fails :=
        if isBad impl then [s!"C03 json-parser-{impl} after-a-refused-document"] else
        match impl.splitOn "|" with
        | [a, b] =>
          let as := a.splitOn "/"
          let bs := b.splitOn "/"
          let verdictOf (s : String) : String := (s.splitOn ":").headD ""
          let evsOf (s : String) : String := ":".intercalate ((s.splitOn ":").drop 1)
          let rec go (i : Nat) (xs ys : List String) (allOk : Bool) : List String :=
            match xs, ys with
            | x :: xs', y :: ys' =>
              let here :=
                if x == y then [] else
                  (if verdictOf x == "ok" && verdictOf y != "ok" then
                     [s!"C04 json-text-a-new-parser-refuses-accepted-after-a-refused-document doc={i}"] else []) ++
                  (if verdictOf x == "ok" && !(match parseEvs (evsOf x) with | some evs => WF evs | none => false) then
                     [s!"C09 json-parser-ill-formed-events-on-accepted-input-after-a-refused-document doc={i}"] else []) ++
                  (if allOk then [s!"C17 json-reused-parser-reports-different-events"] else []) ++
                  [s!"C04 json-same-text-read-differently-by-a-parser-that-read-other-documents-before"]
              here ++ go (i + 1) xs' ys' (allOk && verdictOf x == "ok")
            | _, _ => []
          go 0 as bs true
        | _ => []
      { model := some model, fails := fails }
    | none => noModel
  | _ => noModel

/-- escsets: the JSON encoder's escape tables (filled by `init()` in Go) -/
def opEscSets (impl : String) : Result :=
  let row (f : Nat → Bool) : String := String.ofList ((List.range 128).map fun i => if f i then '1' else '0')
  let model := row Json.Enc.jsonEscapeSet ++ "|" ++ row Json.Enc.htmlEscapeSet
  -- oracle (C07): every control character, quote and backslash is escaped; with HTML escaping < > & too
  let bad := (impl.splitOn "|").any (fun t => (t.toList.take 32).any (· != '1')) ||
    (match impl.splitOn "|" with
     | [j, h] => j.toList.getD 0x22 '0' != '1' || j.toList.getD 0x5c '0' != '1' ||
                 h.toList.getD 0x3c '0' != '1' || h.toList.getD 0x3e '0' != '1' || h.toList.getD 0x26 '0' != '1'
     | _ => true)
  { model := some model, fails := if bad then ["C07 json-escape-table-misses-a-mandatory-escape"] else [] }

/-- alias <fmt> <target> <cache> <gc> <mode> <chunks doc1> <chunks doc2>   (C15)
The model's observation: a document the parser mirror accepts is stored and STAYS stored
(`same`); the ownership discipline that makes this true for every history is
`SF.Props.C15.owned_store_stable`.  Oracle: the implementation never reports `changed`. -/
def opAlias (args : List String) (impl : String) : Result :=
  match args with
  | [fmt, _target, _cache, _gc, _mode, cs1, _cs2] =>
    match codecOf fmt, parseChunks cs1 with
    | some c, some chunks =>
      let pv := (c.parseEvents [chunks.flatten]).2
      let model := if pv == "ok" then "same" else "err"
      let fails :=
        if impl.startsWith "changed" then
          [s!"C15 {fmt}-stored-value-changed-by-buffer-reuse {(impl.splitOn ":").getD 1 ""}",
           -- the same observation in the terms of C13 (the target holds the document's value) and
           -- C10 (a by-reference string / key is the consumer's to copy: the value it stands for
           -- is the bytes at the time of the call)
           s!"C13 {fmt}-stored-value-is-not-the-documents-value-once-the-input-buffer-is-reused {(impl.splitOn ":").getD 1 ""}",
           s!"C10 {fmt}-by-reference-string-kept-without-copy {(impl.splitOn ":").getD 1 ""}"]
        else if isBad impl then [s!"C15 {fmt}-unfold-{impl}"] else []
      { model := some model, fails := fails }
    | _, _ => noModel
  | _ => noModel

/-- aliasrec <fmt> <mode> <chunks>: a Visitor that keeps every by-value string it is given -/
def opAliasRec (args : List String) (impl : String) : Result :=
  match args with
  | [fmt, _mode, _cs] =>
    { model := some "same",
      fails := if impl.startsWith "changed" then [s!"C15 {fmt}-by-value-string-aliases-a-transient-buffer {impl}"]
               else if isBad impl then [s!"C15 {fmt}-parser-{impl}"] else [] }
  | _ => noModel

/-- unf-user <docs>: an Unfolder configured with user unfolders (outside the mirror's universe),
reused over a history of documents vs a new one per document.  The model's observation is the
specification itself: reused = fresh. -/
def opUnfUser (impl : String) : Result :=
  { model := some "same",
    fails :=
      if impl.startsWith "differ" then
        [s!"C14 reused-unfolder-with-user-unfolders-differs-from-new {impl.take 200}",
         s!"C17 reused-unfolder-with-user-unfolders-differs-from-new {impl.take 200}"]
      else if impl.startsWith "panic" then [s!"C14 unfold-panic-with-user-unfolders {impl}"]
      else [] }

def runLine (op : String) (impl : String) : Result :=
  match op.splitOn " " with
  | "escsets" :: _ => opEscSets impl
  | "conc" :: _ =>
    { model := some "equal",
      fails := if impl == "equal" then [] else [s!"C19 concurrent-instances-interfere {impl}"] }
  | "lru" :: args => opLRU args impl
  | "enc" :: args => opEnc args impl
  | "parse" :: args => opParse args impl
  | "dec" :: args => opDec args impl
  | "decf" :: args => opDecF args impl
  | "rt" :: args => opRT args impl
  | "chunk" :: args => opChunk args impl
  | "ext" :: args => opExt args impl
  | "xcode" :: args => opXcode args impl
  | "reuse-enc" :: args => opReuseEnc args impl
  | "reuse-parse" :: args => opReuseParse args impl
  | "reuse-parse-f" :: args => opReuseParseF args impl
  | "fold" :: args => opFold args impl
  | "fold-seq" :: args => opFoldSeq args impl
  | "typeinfo" :: args => opTypeInfo args impl
  | "goval" :: args => opGoVal args impl
  | "unf" :: args => opUnf args impl
  | "unf-reuse" :: args => opUnfReuse args impl
  | "unf-type" :: args => opUnfType args impl
  | "unf-seq" :: args => opUnfSeq args impl
  | "fu" :: args => opFu args impl
  | "foldpos" :: _ =>
    -- Folders on the value / pointer receiver of types of every kind (outside the menagerie and the
    -- mirror), folded in every position: the folder's marker and nothing of the value itself
    { model := some "marker",
      fails :=
        if impl.startsWith "plain" then [s!"C12 custom-folder-ignored-in-this-position {impl.take 200}"]
        else if impl.startsWith "err" then [s!"C12 fold-error-on-a-value-with-a-custom-folder {impl.take 200}"]
        else if impl == "panic" then ["C12 fold-panic-on-a-value-with-a-custom-folder", "C15 fold-panic-on-a-value-with-a-custom-folder"]
        else [] }
  | "unf-names" :: args =>
    -- struct targets whose exported field names start with non-ASCII upper-case letters (outside
    -- the menagerie): every member named in the document is assigned; Fold then Unfold = value
    { model := some "same",
      fails :=
        if impl == "same" then [] else
        (if args.getD 1 "" == "fold" then [s!"C11 round-trip-changes-value non-ascii-field-names {impl.take 200}"] else []) ++
        [s!"C13 unfold-misses-member-of-an-exported-field non-ascii-field-names {impl.take 200}"] }
  | "unf-user" :: _ => opUnfUser impl
  | "unf-userval" :: _ =>
    -- a record written by the harness' own writer, unfolded by an Unfolder configured with user
    -- unfolders of every kind (outside the mirror's universe): the result is the record
    { model := some "same",
      fails :=
        if impl.startsWith "differ" then
          [s!"C13 unfold-with-user-unfolders-builds-another-value {impl.take 300}",
           s!"C14 unfold-with-user-unfolders-builds-another-value {impl.take 200}"]
        else if impl.startsWith "err" then
          [s!"C13 unfold-with-user-unfolders-refuses-a-matching-document {impl.take 300}",
           s!"C14 unfold-with-user-unfolders-refuses-a-matching-document {impl.take 200}"]
        else if impl.startsWith "panic" then
          [s!"C14 unfold-panic-with-user-unfolders {impl}", s!"C13 unfold-panic-with-user-unfolders {impl}"]
        else [] }
  | "foldopts" :: _ =>
    -- option values shared between successive iterators / unfolders vs option values created
    -- for each use: an option value must not be changed by being used
    { model := some "same",
      fails := if impl.startsWith "differ" then
                 [s!"C12 fold-depends-on-what-shared-option-values-were-used-for-before {impl.take 200}",
                  s!"C17 instance-built-from-used-option-values-differs-from-fresh {impl.take 120}",
                  s!"C19 instances-interfere-through-shared-option-values {impl.take 120}"]
               else [] }
  | "foldifc" :: _ =>
    -- static types that are non-empty interfaces (outside the mirror's universe): the fold must
    -- equal the fold of the same data held in interface{} containers; a dead child = an
    -- invalid pointer conversion
    { model := some "same",
      fails := if impl == "fatal" then ["C15 fold-of-non-empty-interface-type-kills-the-process (invalid pointer conversion)",
                                        "C12 fold-of-non-empty-interface-type-kills-the-process"]
               else if impl == "panic" then ["C12 fold-of-non-empty-interface-type-panics", "C15 fold-of-non-empty-interface-type-panics"]
               else if impl.startsWith "differ" then [s!"C12 fold-of-non-empty-interface-type-differs {impl.take 160}"]
               else [] }
  | "alias" :: args => opAlias args impl
  | "aliasrec" :: args => opAliasRec args impl
  | "unfx" :: args => opUnfWhatIf args impl
  | "unfc" :: args => opUnfClaim args impl
  | _ => { model := none }

end SF.Ops
