/-
  SF.GenCheck — the model's constants and tables agree with the facts re-extracted from
  /repo's current source by `sffacts` (SF/Gen/*.lean, regenerated on every run).  If a
  constant, an adapter's announced element type, a discarded error result or a write to a
  package-level variable changes in the Go source, this file no longer builds and every
  check reports a broken proof obligation (then searches for a failing input).
-/
import SF.Gen.Consts
import SF.Gen.Adapters
import SF.Gen.ErrFlow
import SF.Gen.Globals
import SF.Gen.Alloc
import SF.Gen.Singletons
import SF.Gen.UnsafeSites
import SF.Gen.RefMethods
import SF.Event
import SF.Cbor.Defs
import SF.Ubjson.Defs
namespace SF.GenCheck
open SF SF.Gen.Consts

/-- visitor.go BaseType values -/
theorem baseTypes :
    [structform_AnyType, structform_ByteType, structform_StringType, structform_BoolType, structform_ZeroType,
     structform_IntType, structform_Int8Type, structform_Int16Type, structform_Int32Type, structform_Int64Type,
     structform_UintType, structform_Uint8Type, structform_Uint16Type, structform_Uint32Type, structform_Uint64Type,
     structform_Float32Type, structform_Float64Type] =
    [BT.any, BT.byte, BT.string, BT.bool, BT.zero, BT.int, BT.int8, BT.int16, BT.int32, BT.int64,
     BT.uint, BT.uint8, BT.uint16, BT.uint32, BT.uint64, BT.float32, BT.float64] := by decide

/-- cborl/defs.go and the state constants of cborl/parse.go -/
theorem cborlConsts :
    [cborl_majorUint, cborl_majorNeg, cborl_majorBytes, cborl_majorText, cborl_majorArr, cborl_majorMap,
     cborl_majorTag, cborl_majorOther, cborl_majorMask, cborl_minorMask, cborl_len8b, cborl_len16b, cborl_len32b,
     cborl_len64b, cborl_lenIndef, cborl_codeFalse, cborl_codeTrue, cborl_codeNull, cborl_codeUndef,
     cborl_codeHalfFloat, cborl_codeSingleFloat, cborl_codeDoubleFloat, cborl_codeBreak,
     cborl_stFail, cborl_stValue, cborl_stLen, cborl_stStartX, cborl_stIndef, cborl_stStartArr, cborl_stStartMap,
     cborl_stStartIndefArr, cborl_stStartIndefMap, cborl_stKey, cborl_stElem, cborl_stStart, cborl_stCont] =
    ([Cbor.majorUint, Cbor.majorNeg, Cbor.majorBytes, Cbor.majorText, Cbor.majorArr, Cbor.majorMap,
      Cbor.majorTag, Cbor.majorOther, Cbor.majorMask, Cbor.minorMask, Cbor.len8b, Cbor.len16b, Cbor.len32b,
      Cbor.len64b, Cbor.lenIndef, Cbor.codeFalse, Cbor.codeTrue, Cbor.codeNull, Cbor.codeUndef,
      Cbor.codeHalfFloat, Cbor.codeSingleFloat, Cbor.codeDoubleFloat, Cbor.codeBreak,
      Cbor.stFail, Cbor.stValue, Cbor.stLen, Cbor.stStartX, Cbor.stIndef, Cbor.stStartArr, Cbor.stStartMap,
      Cbor.stStartIndefArr, Cbor.stStartIndefMap, Cbor.stKey, Cbor.stElem, Cbor.stStart, Cbor.stCont].map
        UInt8.toNat) := by decide

/-- ubjson/defs.go markers -/
theorem ubjsonMarkers :
    [ubjson_noMarker, ubjson_nullMarker, ubjson_noopMarker, ubjson_trueMarker, ubjson_falseMarker,
     ubjson_int8Marker, ubjson_uint8Marker, ubjson_int16Marker, ubjson_int32Marker, ubjson_int64Marker,
     ubjson_float32Marker, ubjson_float64Marker, ubjson_highPrecMarker, ubjson_charMarker, ubjson_stringMarker,
     ubjson_objStartMarker, ubjson_objEndMarker, ubjson_arrStartMarker, ubjson_arrEndMarker,
     ubjson_countMarker, ubjson_typeMarker] =
    ([Ubjson.noMarker, Ubjson.nullMarker, Ubjson.noopMarker, Ubjson.trueMarker, Ubjson.falseMarker,
      Ubjson.int8Marker, Ubjson.uint8Marker, Ubjson.int16Marker, Ubjson.int32Marker, Ubjson.int64Marker,
      Ubjson.float32Marker, Ubjson.float64Marker, Ubjson.highPrecMarker, Ubjson.charMarker, Ubjson.stringMarker,
      Ubjson.objStartMarker, Ubjson.objEndMarker, Ubjson.arrStartMarker, Ubjson.arrEndMarker,
      Ubjson.countMarker, Ubjson.typeMarker].map UInt8.toNat) := by decide

/-- array.go / map.go: every adapter `OnXxxArray` / `OnXxxObject` announces `XxxType` and
delivers its elements through `OnXxx`; `OnBytes` announces `ByteType` and delivers `OnByte`
(the table `XEv.expand` is written from, C09 / C10): 15 array and 14 map adapters -/
def expectedAdapters : List (String × String × String × Bool) := [
  ("OnBoolArray", "BoolType", "OnBool", false),
  ("OnBoolObject", "BoolType", "OnBool", true),
  ("OnBytes", "ByteType", "OnByte", false),
  ("OnFloat32Array", "Float32Type", "OnFloat32", false),
  ("OnFloat32Object", "Float32Type", "OnFloat32", true),
  ("OnFloat64Array", "Float64Type", "OnFloat64", false),
  ("OnFloat64Object", "Float64Type", "OnFloat64", true),
  ("OnInt16Array", "Int16Type", "OnInt16", false),
  ("OnInt16Object", "Int16Type", "OnInt16", true),
  ("OnInt32Array", "Int32Type", "OnInt32", false),
  ("OnInt32Object", "Int32Type", "OnInt32", true),
  ("OnInt64Array", "Int64Type", "OnInt64", false),
  ("OnInt64Object", "Int64Type", "OnInt64", true),
  ("OnInt8Array", "Int8Type", "OnInt8", false),
  ("OnInt8Object", "Int8Type", "OnInt8", true),
  ("OnIntArray", "IntType", "OnInt", false),
  ("OnIntObject", "IntType", "OnInt", true),
  ("OnStringArray", "StringType", "OnString", false),
  ("OnStringObject", "StringType", "OnString", true),
  ("OnUint16Array", "Uint16Type", "OnUint16", false),
  ("OnUint16Object", "Uint16Type", "OnUint16", true),
  ("OnUint32Array", "Uint32Type", "OnUint32", false),
  ("OnUint32Object", "Uint32Type", "OnUint32", true),
  ("OnUint64Array", "Uint64Type", "OnUint64", false),
  ("OnUint64Object", "Uint64Type", "OnUint64", true),
  ("OnUint8Array", "Uint8Type", "OnUint8", false),
  ("OnUint8Object", "Uint8Type", "OnUint8", true),
  ("OnUintArray", "UintType", "OnUint", false),
  ("OnUintObject", "UintType", "OnUint", true)]

theorem adaptersOk : Gen.Adapters.table = expectedAdapters := by decide

/-- C16 tie: the only calls in the library whose error result is discarded are these two
(`Reset` ignores `SetTarget(nil)`, which cannot fail; the container-closing loop of
ubjson `finalize` re-tests at its head) -/
theorem errFlow : Gen.ErrFlow.facts = ["gotype/unfold.go:Reset:SetTarget", "ubjson/parse.go:finalize:popLenState"] := by
  decide

/-- C19 tie: no function outside `init` stores to a package-level variable -/
theorem globals : Gen.Globals.facts = [] := by decide

/-- C14 (allocation clause): in the unfolder (gotype/unfold*.go) no slice or map is ever
allocated with a size taken from the event stream: every `make` / `reflect.MakeSlice` /
`reflect.MakeMapWithSize` there has a constant size or one that went through
`arrPreallocLen` (which `SF.Props.C14.prealloc_bounded` bounds by 1024).  SSA facts. -/
theorem unfoldAllocSites :
    SF.Gen.Alloc.unfoldFacts.all
      (fun f => (f.2.2.1 == "const" || f.2.2.1 == "arrPreallocLen") &&
                (f.2.2.2 == "const" || f.2.2.2 == "arrPreallocLen" || f.2.2.2 == "none")) = true := by
  decide

/-- C15 (consumer side): every `OnStringRef` / `OnKeyRef` method of package gotype does one of
five things with the transient bytes it is handed: ignores them (error and ignore states),
forwards them to another by-reference method, COPIES them (`string(v)`), interns them through
the key cache (`symbolCache.get`, which copies on a miss — C20), or (the struct unfolder only)
takes a zero-copy view that `unfold_struct.go:OnKeyRef` passes to its own `OnKey`, i.e. a map
lookup.  No other use (store, return, append, …) exists.  SSA facts, regenerated. -/
theorem refConsumersCopy :
    SF.Gen.RefMethods.facts.all (fun f =>
      f.2 == "-" || f.2 == "copy-to-string" || f.2 == "call:get" ||
      f.2 == "call:OnKeyRef" || f.2 == "call:OnStringRef" ||
      (f.1 == "unfolderStruct.OnKeyRef" && f.2 == "call:bytes2Str")) = true := by
  decide

/-- C15 (zero-copy conversions): outside internal/unsafe a `string → []byte` view is only ever
passed to a function that reads it (`Parse`, the encoders' `string` / `write`), and a
`[]byte → string` view is only used for a lookup / number parse, or handed over BY VALUE at
exactly four sites: the struct unfolder's field lookup, the JSON encoder's `OnStringRef`
(consumed inside the call), and the JSON parser's `stepString` / `stepDictKey`, where it is
guarded by the `allocated` flag (fresh memory from `unquote`; ops `alias`, `aliasrec` test the
guard).  A new site, or a new use of an existing one, breaks this obligation. -/
theorem unsafeSitesKnown :
    SF.Gen.UnsafeSites.facts.all (fun f =>
      (f.2.1 == "str2Bytes" && (f.2.2 == "call:Parse" || f.2.2 == "call:string" || f.2.2 == "call:write")) ||
      (f.2.1 == "bytes2Str" && (f.2.2 == "call:lookup" || f.2.2 == "call:ParseFloat")) ||
      (f.2.1 == "bytes2Str" && f.2.2 == "call:OnKey" &&
        (f.1 == "gotype/unfold_struct.go:OnKeyRef" || f.1 == "json/parse.go:stepDictKey")) ||
      (f.2.1 == "bytes2Str" && f.2.2 == "call:OnString" &&
        (f.1 == "json/parse.go:stepString" || f.1 == "json/visitor.go:OnStringRef"))) = true := by
  decide

/-- C19 (singletons): the only writes to fields of struct types that have a package-level
instance are constructor-style initialisations of fresh values (`makeFieldUnfolder`,
`fieldUnfolders`, `liftGoUnfolder`, `parseTags`, `newTypeFoldRegistry`) and the methods of
`typeFoldRegistry`, whose package-level instance `_foldRegistry` is never handed to an iterator
(each iterator owns its registry).  In particular none of the stateless singleton unfolder
states (`unfolderIgnoreArr`, `unfolderReflMapStart`, …) has a field that is written.  SSA
facts, regenerated. -/
theorem singletonWritesKnown :
    SF.Gen.Singletons.facts = [
      "gotype.fieldUnfolder.initState:store-in:makeFieldUnfolder",
      "gotype.fieldUnfolder.offset:store-in:fieldUnfolders",
      "gotype.fieldUnfolder.offset:store-in:makeFieldUnfolder",
      "gotype.liftedReflUnfolder.unfolder:store-in:liftGoUnfolder",
      "gotype.tagOptions.omit:store-in:parseTags",
      "gotype.tagOptions.omitEmpty:store-in:parseTags",
      "gotype.tagOptions.squash:store-in:parseTags",
      "gotype.typeFoldRegistry.depth:store-in:begin",
      "gotype.typeFoldRegistry.depth:store-in:end",
      "gotype.typeFoldRegistry.m:mapupdate-in:put",
      "gotype.typeFoldRegistry.m:store-in:newTypeFoldRegistry",
      "gotype.typeFoldRegistry.pending:store-in:end",
      "gotype.typeFoldRegistry.pending:store-in:put"] := by decide

end SF.GenCheck
