/-
  SF.Json.Utf8 — the pieces of Go's unicode/utf8, unicode/utf16 and unicode packages that
  package json uses, as total functions on bytes / code points (runes are `Nat`).

    utf8.DecodeRune / DecodeRuneInString   ↦ decodeRune
    utf8.EncodeRune                        ↦ encodeRune
    utf16.IsSurrogate / utf16.DecodeRune   ↦ isSurrogate / decodeSurrogates
    unicode.IsSpace(rune(b)) for a byte b  ↦ isSpaceByte

  Tied to the standard library by correspondence (the JSON sweep runs every invalid-UTF-8
  shape and every escape spelling through the real code).
-/
import SF.Basic
namespace SF.Json.Utf8
open SF

def runeError : Nat := 0xFFFD          -- utf8.RuneError = unicode.ReplacementChar
def runeSelf : UInt8 := 0x80           -- utf8.RuneSelf
def maxRune : Nat := 0x10FFFF          -- utf8.MaxRune
def utfMax : Nat := 4                  -- utf8.UTFMax

def surr1 : Nat := 0xd800
def surr2 : Nat := 0xdc00
def surr3 : Nat := 0xe000
def surrSelf : Nat := 0x10000

/-- continuation byte range `locb..hicb` -/
def locb : UInt8 := 0x80
def hicb : UInt8 := 0xBF

/-- `l.length < n`, looking at no more than `n` elements -/
def lenLt {α : Type} : List α → Nat → Bool
  | _, 0 => false
  | [], _ + 1 => true
  | _ :: l, n + 1 => lenLt l n

/-- utf8.first[p0] together with utf8.acceptRanges: for a leading byte the sequence length
and the admissible range of the second byte; `none` = `xx` (invalid leading byte).
ASCII (`as`) is handled by the caller. -/
def first (p0 : UInt8) : Option (Nat × UInt8 × UInt8) :=
  if p0 < 0xC2 then none                                  -- 0x80-0xC1: xx
  else if p0 < 0xE0 then some (2, locb, hicb)             -- s1
  else if p0 == 0xE0 then some (3, 0xA0, hicb)            -- s2
  else if p0 < 0xED then some (3, locb, hicb)             -- s3
  else if p0 == 0xED then some (3, locb, 0x9F)            -- s4
  else if p0 < 0xF0 then some (3, locb, hicb)             -- s3
  else if p0 == 0xF0 then some (4, 0x90, hicb)            -- s5
  else if p0 < 0xF4 then some (4, locb, hicb)             -- s6
  else if p0 == 0xF4 then some (4, locb, 0x8F)            -- s7
  else none                                               -- 0xF5-0xFF: xx

/-- utf8.DecodeRune (= DecodeRuneInString): `(rune, size)`; `(RuneError, 0)` on empty
input, `(RuneError, 1)` on any invalid or truncated sequence. -/
def decodeRune (p : Bytes) : Nat × Nat :=
  match p with
  | [] => (runeError, 0)
  | p0 :: rest =>
    if p0 < runeSelf then (p0.toNat, 1) else
    match first p0 with
    | none => (runeError, 1)
    | some (sz, lo, hi) =>
      if lenLt p sz then (runeError, 1) else                  -- n < sz
      match rest with
      | [] => (runeError, 1)
      | b1 :: rest =>
        if b1 < lo || hi < b1 then (runeError, 1)
        else if sz ≤ 2 then (((p0.toNat &&& 0x1F) <<< 6) ||| (b1.toNat &&& 0x3F), 2)
        else
          match rest with
          | [] => (runeError, 1)
          | b2 :: rest =>
            if b2 < locb || hicb < b2 then (runeError, 1)
            else if sz ≤ 3 then
              (((p0.toNat &&& 0x0F) <<< 12) ||| ((b1.toNat &&& 0x3F) <<< 6) ||| (b2.toNat &&& 0x3F), 3)
            else
              match rest with
              | [] => (runeError, 1)
              | b3 :: _ =>
                if b3 < locb || hicb < b3 then (runeError, 1)
                else
                  (((p0.toNat &&& 0x07) <<< 18) ||| ((b1.toNat &&& 0x3F) <<< 12) |||
                    ((b2.toNat &&& 0x3F) <<< 6) ||| (b3.toNat &&& 0x3F), 4)

/-- the 3-byte encoding (also used for RuneError) -/
def encode3 (r : Nat) : Bytes :=
  [UInt8.ofNat (0xE0 ||| (r >>> 12)), UInt8.ofNat (0x80 ||| ((r >>> 6) &&& 0x3F)),
   UInt8.ofNat (0x80 ||| (r &&& 0x3F))]

/-- utf8.EncodeRune: surrogates and values above MaxRune are written as RuneError -/
def encodeRune (r : Nat) : Bytes :=
  if r ≤ 0x7F then [UInt8.ofNat r]
  else if r ≤ 0x7FF then [UInt8.ofNat (0xC0 ||| (r >>> 6)), UInt8.ofNat (0x80 ||| (r &&& 0x3F))]
  else if r > maxRune || (surr1 ≤ r && r < surr3) then encode3 runeError
  else if r ≤ 0xFFFF then encode3 r
  else
    [UInt8.ofNat (0xF0 ||| (r >>> 18)), UInt8.ofNat (0x80 ||| ((r >>> 12) &&& 0x3F)),
     UInt8.ofNat (0x80 ||| ((r >>> 6) &&& 0x3F)), UInt8.ofNat (0x80 ||| (r &&& 0x3F))]

/-- utf16.IsSurrogate -/
def isSurrogate (r : Nat) : Bool := surr1 ≤ r && r < surr3

/-- utf16.DecodeRune(r1, r2): the code point of a surrogate pair, else U+FFFD -/
def decodeSurrogates (r1 r2 : Nat) : Nat :=
  if surr1 ≤ r1 && r1 < surr2 && surr2 ≤ r2 && r2 < surr3 then
    (((r1 - surr1) <<< 10) ||| (r2 - surr2)) + surrSelf
  else runeError

/-- unicode.IsSpace(rune(c)) for a single byte c (Latin-1 range):
'\t' '\n' '\v' '\f' '\r' ' ' U+0085 (NEL) U+00A0 (NBSP) -/
def isSpaceByte (c : UInt8) : Bool :=
  c == 0x09 || c == 0x0A || c == 0x0B || c == 0x0C || c == 0x0D || c == 0x20 || c == 0x85 || c == 0xA0

end SF.Json.Utf8
