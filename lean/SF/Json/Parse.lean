/-
  SF.Json.Parse — mirror of json/parse.go (push parser), the code as it is now (after the
  fixes of integer wrapping, unquote bounds / multi-byte runes, sign without digits).

  One Lean function per Go function, same case structure and order of effects.
  * `P` = the behaviour-relevant fields of `json.Parser`; the visitor is the event log `evs`
    (newest first) plus an optional fault index (`failAt`: the visitor returns an error from
    its k-th event on — C16).  `OnStringRef/OnKeyRef` vs `OnString/OnKey` (the `allocated`
    result of `unquote`, which depends on slice capacities only) deliver the same event and
    are not distinguished.
  * Go `(b []byte, reported bool, err error)` results are `R`; a `nil` rest is `[]`.
  * Slices are values.  `unquote` may write its output into `literalBuffer`, i.e. into the
    memory its input lives in; the write position never overtakes the read position
    (every escape shrinks), and the "out of room" branch is unreachable
    (`written ≤ i < len(in) = len(out) - 2*UTFMax`), so neither changes observable bytes.
  * Every slice index that could go out of range is guarded and yields `Err.panic`; the
    loops of `feed`/`feedUntil` take fuel and yield `Err.outOfFuel` (= hang) when it runs
    out — C03 proves neither happens.
-/
import SF.Event
import SF.Json.Utf8
import SF.Json.Float
namespace SF.Json.Parse
open SF SF.Json SF.Json.Float

inductive Err
  | failing | incomplete | unknownChar | quoteMissing | expectColon | unexpectedDictClose
  | unexpectedArrClose | expectedDigit | expectedObject | expectedArray | expectedFieldName
  | expectedInteger | expectedNull | expectedFalse | expectedTrue | expectedArrayField
  | unquoteInEscape | unquoteInvalidChar | unquoteInvalidUnicode | unquoteUnknownEscape
  | invalidNumber        -- fmt.Errorf("'%s' is no valid number")
  | numberOverflow       -- fmt.Errorf("number overflow parsing …")
  | parseFloat           -- the *strconv.NumError of strconv.ParseFloat
  | invalidState         -- errors.New("invalid parser state")
  | visitor              -- the error returned by the visitor
  | panic | outOfFuel
  | unmodelled           -- the input left the modelled domain
  deriving Repr, DecidableEq, Inhabited

/-- parse.go `state` -/
inductive St
  | failedState | startState
  | arrState | arrStateValue | arrStateNext
  | dictState | dictFieldState | dictNextFieldState | dictFieldValue | dictFieldValueSep
  | dictFieldStateEnd
  | nullState | trueState | falseState | stringState | numberState
  deriving Repr, DecidableEq, Inhabited

structure P where
  states : List St := []          -- state stack for nested arrays/objects, head = top
  currentState : St := .startState
  literalBuffer : Bytes := []
  inEscape : Bool := false
  isDouble : Bool := false
  required : Nat := 0
  err : Option Err := none        -- p.err, the last fail state
  evs : List Ev := []             -- events delivered so far, newest first
  nevs : Nat := 0                 -- number of visitor calls so far (= the recorder's counter)
  failAt : Option Nat := none     -- visitor fails from this event index on
  deriving Repr, DecidableEq, Inhabited

structure R where
  p : P
  rest : Bytes
  reported : Bool := false
  err : Option Err := none
  deriving Repr, Inhabited

/-- call a visitor method: log the event, fail if the fault index is reached -/
def visit (p : P) (e : Ev) : P × Option Err :=
  let n := p.nevs
  let p' := { p with evs := e :: p.evs, nevs := n + 1 }
  match p.failAt with
  | some k => if n ≥ k then (p', some .visitor) else (p', none)
  | none => (p', none)

/-- Parser.init (NewParser): everything zero, `currentState = startState` -/
def init (failAt : Option Nat) : P := { failAt := failAt }

/-- Parser.pushState -/
def pushState (p : P) (next : St) : P :=
  if p.currentState != .failedState then
    { p with states := p.currentState :: p.states, currentState := next }
  else { p with currentState := next }

/-- Parser.popState -/
def popState (p : P) : P :=
  match p.states with
  | [] => { p with currentState := .failedState }
  | last :: rest => { p with currentState := last, states := rest }

/-- trimLeft: `unicode.IsSpace(rune(c))` on each byte (so 0x85 and 0xA0 count as space);
`nil` if only space is left -/
def trimLeft : Bytes → Bytes
  | [] => []
  | c :: rest => if Utf8.isSpaceByte c then trimLeft rest else c :: rest

def isDigit (c : UInt8) : Bool := ch '0' ≤ c && c ≤ ch '9'

/-! ## literals -/

/-- bytes.HasPrefix -/
def hasPrefix : Bytes → Bytes → Bool
  | _, [] => true
  | [], _ :: _ => false
  | b :: bs, s :: ss => b == s && hasPrefix bs ss

/-- Parser.stepKind: `(p, rest, done, err)` -/
def stepKind (p : P) (b : Bytes) (kind : Bytes) (err : Err) : P × Bytes × Bool × Option Err :=
  let n := p.required
  if n > kind.length then (p, b, false, some .panic) else    -- kind[len(kind)-n:]
  let s := kind.drop (kind.length - n)
  let L := (b.take n).length          -- = len(b) whenever len(b) < n
  let (p, n, s, done) :=
    if L < n then ({ p with required := n - L }, L, s.take L, false) else (p, n, s, true)
  if !hasPrefix b s then (p, b, false, some err) else
  let p := if done then popState p else p
  (p, b.drop n, done, none)

/-- stepNULL / stepTRUE / stepFALSE: stepKind, then the visitor call once done -/
def stepLit (p : P) (b : Bytes) (kind : String) (err : Err) (ev : Ev) : R :=
  let (p, b, done, err) := stepKind p b (strBytes kind) err
  if done then
    let (p, err) := visit p ev
    { p := p, rest := b, reported := done, err := err }
  else { p := p, rest := b, reported := done, err := err }

/-- Parser.stepNULL -/
def stepNULL (p : P) (b : Bytes) : R := stepLit p b "null" .expectedNull .null
/-- Parser.stepTRUE -/
def stepTRUE (p : P) (b : Bytes) : R := stepLit p b "true" .expectedTrue (.bool true)
/-- Parser.stepFALSE -/
def stepFALSE (p : P) (b : Bytes) : R := stepLit p b "false" .expectedFalse (.bool false)

/-! ## numbers -/

def maxUint64 : Nat := 18446744073709551615
def maxInt64 : Nat := 9223372036854775807

/-- parseUint: decimal digits only, value ≤ MaxUint64 -/
def parseUint (b : Bytes) : Except Err Nat :=
  let cutoff : Nat := maxUint64 / 10 + 1
  if b.isEmpty then .error .expectedDigit else
  let rec go (n : Nat) : Bytes → Except Err Nat
    | [] => .ok n
    | c :: rest =>
      if !isDigit c then .error .invalidNumber
      else if n ≥ cutoff then .error .numberOverflow
      else
        let n1 := n * 10 + (c - ch '0').toNat
        -- `n1 < n` (uint64 wrap) ⇔ the exact sum exceeds MaxUint64
        if n1 > maxUint64 then .error .numberOverflow else go n1 rest
  go 0 b

/-- parseInt: sign and magnitude; `b[0]` panics on an empty slice -/
def parseInt (b : Bytes) : Except Err (Bool × Nat) :=
  match b with
  | [] => .error .panic
  | c :: rest =>
    let (neg, b) := if c == ch '+' then (false, rest) else if c == ch '-' then (true, rest) else (false, b)
    match parseUint b with
    | .error e => .error e
    | .ok u => if neg && u > maxInt64 + 1 then .error .numberOverflow else .ok (neg, u)

/-- Parser.reportNumber -/
def reportNumber (p : P) (b : Bytes) (isDouble : Bool) : P × Option Err :=
  if isDouble then
    match parseFloat b with
    | .ok bits => visit p (.f64 bits)
    | .syntaxErr => (p, some .parseFloat)
    | .rangeErr _ => (p, some .parseFloat)
    | .unmodelled => (p, some .unmodelled)
  else
    match parseInt b with
    | .error e => (p, some e)
    | .ok (neg, u) =>
      if neg then visit p (.num .i64 (-(u : Int)))            -- int64(-u)
      else if u > maxInt64 then visit p (.num .u64 u)
      else visit p (.num .i64 u)

def isStopChar (c : UInt8) : Bool :=
  c == ch ' ' || c == 0x09 || c == 0x0C || c == 0x0A || c == 0x0D ||
  c == ch ',' || c == ch ']' || c == ch '}'

/-- the scan of stepNumber: `(token part, rest from the stop char on, done, isDouble)` -/
def scanNumber : Bytes → Bool → Bytes × Bytes × Bool × Bool
  | [], dbl => ([], [], false, dbl)
  | c :: rest, dbl =>
    if isStopChar c then ([], c :: rest, true, dbl)
    else
      let dbl := dbl || c == ch '.' || c == ch 'e' || c == ch 'E'
      let (tok, rest', done, dbl) := scanNumber rest dbl
      (c :: tok, rest', done, dbl)

/-- Parser.stepNumber -/
def stepNumber (p : P) (b : Bytes) : R :=
  -- search for char in stop-set
  let (tok, rest, done, dbl) := scanNumber b p.isDouble
  let p := { p with isDouble := dbl }
  if !done then
    { p := { p with literalBuffer := p.literalBuffer ++ b }, rest := [] }
  else
    let (p, b) :=
      if !p.literalBuffer.isEmpty then ({ p with literalBuffer := [] }, p.literalBuffer ++ tok)
      else (p, tok)
    let (p, err) := reportNumber p b p.isDouble
    { p := popState p, rest := rest, reported := true, err := err }

/-! ## strings -/

/-- the scan of doString over `buf`: index of the closing quote (if any), final `inEscape` -/
def scanString : Bytes → Bool → Nat → Option Nat × Bool
  | [], inEscape, _ => (none, inEscape)
  | c :: rest, inEscape, i =>
    if inEscape then scanString rest false (i + 1)
    else if c == ch '"' then (some i, inEscape)
    else if c == ch '\\' then scanString rest true (i + 1)
    else scanString rest inEscape (i + 1)

/-- unquote, first loop: number of leading bytes without escape, quote, control character
or invalid UTF-8 ("return slice as is" if that is all of `in`); `none` = out of fuel -/
def scanPlain : Nat → Bytes → Nat → Option Nat
  | 0, _, _ => none
  | _ + 1, [], i => some i
  | fuel + 1, c :: rest, i =>
    if c == ch '\\' || c == ch '"' || c < ch ' ' then some i
    else if c < Utf8.runeSelf then scanPlain fuel rest (i + 1)
    else
      let (r, sz) := Utf8.decodeRune (c :: rest)
      if r == Utf8.runeError && sz == 1 then some i
      else scanPlain fuel ((c :: rest).drop sz) (i + sz)

/-- `strconv.ParseUint(string(in[i:i+4]), 16, 64)` on exactly four bytes -/
def parseHex4 (b : Bytes) : Option Nat :=
  match b with
  | [a, b, c, d] =>
    match hexVal (Char.ofNat a.toNat), hexVal (Char.ofNat b.toNat), hexVal (Char.ofNat c.toNat),
      hexVal (Char.ofNat d.toNat) with
    | some w, some x, some y, some z => some (((w * 16 + x) * 16 + y) * 16 + z)
    | _, _, _, _ => none
  | _ => none

/-- unquote, rewrite loop: `rest` = in[i:], `out` = out[:written] reversed -/
def unquoteLoop : Nat → Bytes → Bytes → Except Err Bytes
  | 0, _, _ => .error .outOfFuel
  | fuel + 1, rest, out =>
    match rest with
    | [] => .ok out.reverse
    | c :: tl =>
      if c == ch '\\' then
        match tl with
        | [] => .error .unquoteInEscape
        | e :: tl2 =>
          if e == ch '"' || e == ch '\\' || e == ch '/' || e == ch '\'' then unquoteLoop fuel tl2 (e :: out)
          else if e == ch 'b' then unquoteLoop fuel tl2 (0x08 :: out)
          else if e == ch 'f' then unquoteLoop fuel tl2 (0x0C :: out)
          else if e == ch 'n' then unquoteLoop fuel tl2 (0x0A :: out)
          else if e == ch 'r' then unquoteLoop fuel tl2 (0x0D :: out)
          else if e == ch 't' then unquoteLoop fuel tl2 (0x09 :: out)
          else if e == ch 'u' then
            if Utf8.lenLt tl2 4 then .error .unquoteInvalidUnicode else      -- len(in)-i < 4
            match parseHex4 (tl2.take 4) with
            | none => .error .unquoteInvalidUnicode
            | some code =>
              let tl3 := tl2.drop 4
              if Utf8.isSurrogate code then
                -- a low surrogate must follow as a second \uXXXX escape
                let valid := !Utf8.lenLt tl3 6 && tl3.head? == some (ch '\\') && (tl3.drop 1).head? == some (ch 'u')
                let (dec, tl4) :=
                  if valid then
                    match parseHex4 ((tl3.drop 2).take 4) with
                    | some code2 =>
                      let dec := Utf8.decodeSurrogates code code2
                      if dec != Utf8.runeError then (dec, tl3.drop 6) else (dec, tl3)
                    | none => (Utf8.runeError, tl3)
                  else (Utf8.runeError, tl3)
                unquoteLoop fuel tl4 ((Utf8.encodeRune dec).reverse ++ out)
              else unquoteLoop fuel tl3 ((Utf8.encodeRune code).reverse ++ out)
          else .error .unquoteUnknownEscape
      else if c == ch '"' || c < ch ' ' then .error .unquoteInvalidChar
      else if c < Utf8.runeSelf then unquoteLoop fuel tl (c :: out)
      else
        let (_, sz) := Utf8.decodeRune rest
        unquoteLoop fuel (rest.drop sz) ((rest.take sz).reverse ++ out)

/-- Parser.unquote (the `allocated` result is not modelled, see the header) -/
def unquote (inp : Bytes) : Except Err Bytes :=
  if inp.length == 0 then .ok inp else
  -- Check for unusual characters and escape sequence. If none is found, return slice as is
  match scanPlain (inp.length + 1) inp 0 with
  | none => .error .outOfFuel
  | some i =>
    -- no special character found -> return as is
    if i == inp.length then .ok inp
    else unquoteLoop (inp.length + 1) (inp.drop i) (inp.take i).reverse

/-- Parser.doString: `(p, ref, done, rest, err)` -/
def doString (p : P) (b : Bytes) : P × Bytes × Bool × Bytes × Option Err :=
  let atStart := p.literalBuffer.isEmpty
  -- atStart: the opening quote is b[0], `buf = b[1:]`
  if atStart && b.isEmpty then (p, [], false, [], some .panic) else
  let (delta, buf) := if atStart then (2, b.drop 1) else (1, b)
  let (stop, inEscape) := scanString buf p.inEscape 0
  let p := { p with inEscape := inEscape }
  match stop with
  | none =>
    ({ p with literalBuffer := p.literalBuffer ++ b }, [], false, [], none)
  | some i =>
    let stop := i + delta
    let rest := b.drop stop
    let b := b.take stop
    let (p, b) :=
      if !p.literalBuffer.isEmpty then ({ p with literalBuffer := [] }, p.literalBuffer ++ b)   -- reset buffer
      else (p, b)
    if b.length < 2 then (p, [], false, [], some .panic) else     -- b[1 : len(b)-1]
    let b := (b.drop 1).take (b.length - 2)
    match unquote b with
    | .error e => (p, [], false, [], some e)
    | .ok s => (p, s, true, rest, none)

/-- Parser.stepString -/
def stepString (p : P) (b : Bytes) : R :=
  let (p, ref, done, b, err) := doString p b
  if done && err.isNone then
    let p := popState p
    let (p, err) := visit p (.str ref)
    { p := p, rest := b, reported := done, err := err }
  else { p := p, rest := b, reported := done, err := err }

/-- Parser.stepDictKey -/
def stepDictKey (p : P) (b : Bytes) : R :=
  let (p, ref, done, b, err) := doString p b
  if done && err.isNone then
    let p := { p with currentState := .dictFieldValueSep }
    let (p, err) := visit p (.key ref)
    { p := p, rest := b, err := err }
  else { p := p, rest := b, err := err }

/-! ## values and containers -/

/-- Parser.stepValue -/
def stepValue (p : P) (b : Bytes) (retState : St) : R :=
  match trimLeft b with
  | [] => { p := p, rest := [] }
  | c :: tl =>
    let b := c :: tl
    let p := { p with currentState := retState }
    if c == ch '{' then           -- start dictionary
      let p := pushState p .dictState
      let (p, err) := visit p (.objStart (-1) BT.any)
      { p := p, rest := tl, err := err }
    else if c == ch '[' then      -- start array
      let p := pushState p .arrState
      let (p, err) := visit p (.arrStart (-1) BT.any)
      { p := p, rest := tl, err := err }
    else if c == ch 'n' then      -- parse "null"
      stepNULL { pushState p .nullState with required := 3 } tl
    else if c == ch 'f' then      -- parse "false"
      stepFALSE { pushState p .falseState with required := 4 } tl
    else if c == ch 't' then      -- parse "true"
      stepTRUE { pushState p .trueState with required := 3 } tl
    else if c == ch '"' then      -- parse string
      let p := { p with literalBuffer := [] }
      let p := pushState p .stringState
      stepString { p with inEscape := false } b
    else
      -- parse number?
      let p := { p with isDouble := false }
      let isNumber := c == ch '-' || c == ch '+' || c == ch '.' || isDigit c
      if !isNumber then { p := p, rest := b, err := some .unknownChar }
      else
        let p := { p with literalBuffer := [] }
        let p := pushState p .numberState
        stepNumber { p with isDouble := false } b

/-- Parser.stepStart -/
def stepStart (p : P) (b : Bytes) : R := stepValue p b p.currentState

/-- Parser.endDict -/
def endDict (p : P) (b : Bytes) : R :=
  let p := popState p
  let (p, err) := visit p .objEnd
  { p := p, rest := b.drop 1, reported := true, err := err }

/-- Parser.endArray -/
def endArray (p : P) (b : Bytes) : R :=
  let p := popState p
  let (p, err) := visit p .arrEnd
  { p := p, rest := b.drop 1, reported := true, err := err }

/-- Parser.stepDict -/
def stepDict (p : P) (b : Bytes) (allowEnd : Bool) : R :=
  match trimLeft b with
  | [] => { p := p, rest := [] }
  | c :: tl =>
    let b := c :: tl
    if c == ch '}' then
      if !allowEnd then { p := p, rest := [], err := some .unexpectedDictClose }
      else endDict p b
    else if c == ch '"' then { p := { p with currentState := .dictFieldState }, rest := b }
    else { p := p, rest := [], err := some .expectedFieldName }

/-- Parser.stepDictValueEnd -/
def stepDictValueEnd (p : P) (b : Bytes) : R :=
  match trimLeft b with
  | [] => { p := p, rest := [] }
  | c :: tl =>
    if c == ch '}' then endDict p (c :: tl)
    else if c == ch ',' then { p := { p with currentState := .dictNextFieldState }, rest := tl }
    else { p := p, rest := [], err := some .unknownChar }

/-- Parser.stepArray -/
def stepArray (p : P) (b : Bytes) (allowEnd : Bool) : R :=
  match trimLeft b with
  | [] => { p := p, rest := [] }
  | c :: tl =>
    let b := c :: tl
    if c == ch ']' then
      if !allowEnd then { p := p, rest := [], err := some .unexpectedArrClose }
      else endArray p b
    else { p := { p with currentState := .arrStateValue }, rest := b }

/-- Parser.stepArrValueEnd -/
def stepArrValueEnd (p : P) (b : Bytes) : R :=
  match trimLeft b with
  | [] => { p := p, rest := [] }
  | c :: tl =>
    if c == ch ']' then endArray p (c :: tl)
    else if c == ch ',' then { p := { p with currentState := .arrStateValue }, rest := tl }
    else { p := p, rest := [], err := some .unknownChar }

/-- one round of the `switch p.currentState` in feedUntil (`b` is not empty).
`stop = true`: the Go code returns from inside the switch (failedState). -/
def execStep (p : P) (b : Bytes) : R × Bool :=
  match p.currentState with
  | .failedState =>
    let p := if p.err.isNone then { p with err := some .invalidState } else p
    ({ p := p, rest := b, err := p.err }, true)
  | .startState => (stepStart p b, false)
  | .dictState => (stepDict p b true, false)
  | .dictNextFieldState => (stepDict p b false, false)
  | .dictFieldState => (stepDictKey p b, false)
  | .dictFieldValueSep =>
    match trimLeft b with
    | [] => ({ p := p, rest := [] }, false)
    | c :: tl =>
      let err := if c != ch ':' then some Err.expectColon else none
      ({ p := { p with currentState := .dictFieldValue }, rest := tl, err := err }, false)
  | .dictFieldValue => (stepValue p b .dictFieldStateEnd, false)
  | .dictFieldStateEnd => (stepDictValueEnd p b, false)
  | .arrState => (stepArray p b true, false)
  | .arrStateValue => ({ stepValue p b .arrStateNext with reported := false }, false)  -- `b, _, err =`
  | .arrStateNext => (stepArrValueEnd p b, false)
  | .nullState => (stepNULL p b, false)
  | .trueState => (stepTRUE p b, false)
  | .falseState => (stepFALSE p b, false)
  | .stringState => (stepString p b, false)
  | .numberState => (stepNumber p b, false)

/-- Parser.feedUntil: `for !reported && len(b) > 0 { switch … }`.  Result: parser,
unconsumed input (Go returns the consumed count), reported, err. -/
def feedUntil : Nat → P → Bytes → R
  | 0, p, b => { p := p, rest := b, err := some .outOfFuel }
  | fuel + 1, p, b =>
    if b.isEmpty then { p := p, rest := b } else
    let (r, stop) := execStep p b
    if stop then r
    else if r.err.isSome then r
    else
      let reported := r.reported && r.p.states.isEmpty
      if reported then { r with reported := true }
      else feedUntil fuel r.p r.rest

/-- fuel sufficient for any input of this length (C03 proves the bound): every round
consumes input or moves dictState→dictFieldState / arrState→arrStateValue, which the next
round leaves by consuming -/
def fuelFor (b : Bytes) : Nat := 3 * b.length + 8

/-- Parser.feed: `for len(b) > 0 { n, _, err := p.feedUntil(b); …; b = b[n:] }` -/
def feed : Nat → P → Bytes → P × Option Err
  | 0, p, _ => (p, some .outOfFuel)
  | fuel + 1, p, b =>
    if b.isEmpty then (p, none) else
    let r := feedUntil (fuelFor b) p b
    match r.err with
    | some e => (r.p, some e)
    | none => feed fuel r.p r.rest

def feedAll (p : P) (b : Bytes) : P × Option Err := feed (2 * b.length + 4) p b

/-- Parser.finalize: a number at the very end of the input is reported now -/
def finalize (p : P) : P × Option Err :=
  let go (p : P) : P × Option Err :=
    if !p.states.isEmpty && p.currentState != .startState then (p, some .incomplete) else (p, none)
  if p.currentState == .numberState then
    match reportNumber p p.literalBuffer p.isDouble with
    | (p, some e) => (p, some e)
    | (p, none) => go (popState p)
  else go p

/-- Parser.Write -/
def write (p : P) (b : Bytes) : P × Option Err :=
  let (p, e) := feedAll p b
  ({ p with err := e }, e)

/-- Parser.Parse / ParseString: reset, feed, then finalize -/
def parse (p : P) (b : Bytes) : P × Option Err :=
  let p := { p with states := [], literalBuffer := [], currentState := .startState }
  match feedAll p b with
  | (p, some e) => ({ p with err := some e }, some e)
  | (p, none) =>
    let (p, e) := finalize p
    ({ p with err := e }, e)

/-- NewParser + Write per chunk (io.Copy stops at the first error) + finalize
(= ParseReader; also the `Write*` + end-of-input entry point) -/
def writeChunks (p : P) : List Bytes → P × Option Err
  | [] => finalize p
  | c :: cs =>
    match write p c with
    | (p, some e) => (p, some e)
    | (p, none) => writeChunks p cs

def events (p : P) : List Ev := p.evs.reverse

end SF.Json.Parse
