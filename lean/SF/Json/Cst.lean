/-
  SF.Json.Cst — SPECIFICATION side for JSON: an executable reference decoder for RFC 8259
  texts (and streams of texts as the README documents them), independent of the library's
  parser.  Part of the trusted base (DESIGN appendix A.6).

  Verdicts:
    ok vs mayReject   every token is a valid RFC 8259 token and the structure is that of
                      a stream `ws (value ws)*`; `mayReject` if some number lies outside the
                      range the property lets a parser refuse (integer literal outside
                      [-2^63, 2^64), float literal beyond binary64)
    truncated         a proper prefix of such a stream that ends inside a value
    badStructure      all tokens are valid, but brackets / commas / colons are misplaced
    undetermined      some token is not an RFC 8259 token (lenient spellings such as `+1`
                      `01` `1.`, bad escapes, raw control characters, invalid UTF-8, scalars
                      glued together): the property makes no demand
-/
import SF.Event
import SF.Json.Float
import SF.Json.Utf8
namespace SF.Json.Cst
open SF SF.Json

inductive Verdict
  | ok (vs : List Val) (mayReject : Bool)
  | truncated
  | badStructure
  | undetermined
  deriving Inhabited

/-! ## tokens -/

inductive Tok
  | lbrace | rbrace | lbrack | rbrack | comma | colon
  | str (s : Bytes)
  | num (v : Val) (mayReject : Bool)
  | lit (v : Val)
  deriving Inhabited

inductive LexErr | truncated | invalid
  deriving DecidableEq

def isWs (c : UInt8) : Bool := c == 0x20 || c == 0x09 || c == 0x0a || c == 0x0d
def isDigit (c : UInt8) : Bool := 0x30 ≤ c && c ≤ 0x39
def isStructural (c : UInt8) : Bool :=
  c == 0x7b || c == 0x7d || c == 0x5b || c == 0x5d || c == 0x2c || c == 0x3a

/-- what may directly follow a number or literal: whitespace or a closing / separating
structural character.  A scalar glued to an OPENING bracket (`0{}`, `true[`) is no RFC text
and no documented stream form: undetermined. -/
def endsScalar (c : UInt8) : Bool := isWs c || c == 0x7d || c == 0x5d || c == 0x2c || c == 0x3a

def hexVal (c : UInt8) : Option Nat :=
  if 0x30 ≤ c && c ≤ 0x39 then some (c.toNat - 0x30)
  else if 0x61 ≤ c && c ≤ 0x66 then some (c.toNat - 0x61 + 10)
  else if 0x41 ≤ c && c ≤ 0x46 then some (c.toNat - 0x41 + 10)
  else none

def hex4 : Bytes → Except LexErr (Nat × Bytes)
  | a :: b :: c :: d :: rest =>
    match hexVal a, hexVal b, hexVal c, hexVal d with
    | some a, some b, some c, some d => .ok (((a * 16 + b) * 16 + c) * 16 + d, rest)
    | _, _, _, _ => .error .invalid
  | bs => if bs.all (fun c => (hexVal c).isSome) then .error .truncated else .error .invalid

/-- the characters of a string after the opening quote; result: decoded bytes, rest after
the closing quote.  Escapes resolved, surrogate pairs combined, lone surrogates ↦ U+FFFD,
other bytes must be valid UTF-8 ≥ U+0020 and are kept as they are. -/
def lexString : Nat → Bytes → Bytes → Except LexErr (Bytes × Bytes)
  | 0, _, _ => .error .truncated
  | _ + 1, [], _ => .error .truncated
  | fuel + 1, c :: rest, acc =>
    if c == 0x22 then .ok (acc.reverse, rest)
    else if c == 0x5c then
      match rest with
      | [] => .error .truncated
      | e :: rest' =>
        let simple (b : UInt8) := lexString fuel rest' (b :: acc)
        if e == 0x22 then simple 0x22 else if e == 0x5c then simple 0x5c else if e == 0x2f then simple 0x2f
        else if e == 0x62 then simple 0x08 else if e == 0x66 then simple 0x0c else if e == 0x6e then simple 0x0a
        else if e == 0x72 then simple 0x0d else if e == 0x74 then simple 0x09
        else if e == 0x75 then
          match hex4 rest' with
          | .error er => .error er
          | .ok (r1, rest2) =>
            if Utf8.surr1 ≤ r1 && r1 < Utf8.surr2 then
              -- high surrogate: a following \uXXXX low surrogate completes the pair
              match rest2 with
              | 0x5c :: 0x75 :: rest3 =>
                match hex4 rest3 with
                | .ok (r2, rest4) =>
                  if Utf8.surr2 ≤ r2 && r2 < Utf8.surr3 then
                    lexString fuel rest4 ((Utf8.encodeRune (Utf8.decodeSurrogates r1 r2)).reverse ++ acc)
                  else lexString fuel rest2 ((Utf8.encodeRune Utf8.runeError).reverse ++ acc)
                | .error .truncated => .error .truncated
                | .error .invalid => .error .invalid
              | _ => lexString fuel rest2 ((Utf8.encodeRune Utf8.runeError).reverse ++ acc)
            else if Utf8.surr2 ≤ r1 && r1 < Utf8.surr3 then
              lexString fuel rest2 ((Utf8.encodeRune Utf8.runeError).reverse ++ acc)
            else lexString fuel rest2 ((Utf8.encodeRune r1).reverse ++ acc)
        else .error .invalid
    else if c < 0x20 then .error .invalid
    else if c < 0x80 then lexString fuel rest (c :: acc)
    else
      -- multi-byte UTF-8
      let (r, sz) := Utf8.decodeRune (c :: rest)
      if sz ≤ 1 then
        -- invalid, or cut off by the end of input
        if (c :: rest).length < 4 && r == Utf8.runeError then
          (if rest.all (fun b => 0x80 ≤ b && b ≤ 0xbf) then .error .truncated else .error .invalid)
        else .error .invalid
      else lexString fuel ((c :: rest).drop sz) (((c :: rest).take sz).reverse ++ acc)

def digitsOf : Bytes → Bytes × Bytes
  | [] => ([], [])
  | c :: rest => if isDigit c then let (d, r) := digitsOf rest; (c :: d, r) else ([], c :: rest)

def natOfDigits (ds : Bytes) : Nat := ds.foldl (fun acc c => acc * 10 + (c.toNat - 0x30)) 0

/-- RFC 8259 number: `-? (0 | [1-9][0-9]*) (. [0-9]+)? ([eE] [+-]? [0-9]+)?`, followed by
whitespace, a structural character or the end of input -/
def lexNumber (b : Bytes) : Except LexErr (Val × Bool × Bytes) :=
  let (neg, b1) := match b with | 0x2d :: r => (true, r) | _ => (false, b)
  let (ip, b2) := digitsOf b1
  if ip.isEmpty then (if b1.isEmpty then .error .truncated else .error .invalid) else
  if ip.length > 1 && ip.head? == some 0x30 then .error .invalid else
  -- fraction
  let fracR : Except LexErr (Bytes × Bytes × Bool) :=
    match b2 with
    | 0x2e :: r =>
      let (fp, r') := digitsOf r
      -- `1.` is no RFC number; the library's documented-lenient grammar (strconv) reads it as a
      -- complete number, so even at the end of input it is "not an RFC token", not a truncation
      if fp.isEmpty then .error .invalid else .ok (fp, r', true)
    | _ => .ok ([], b2, false)
  match fracR with
  | .error e => .error e
  | .ok (fp, b3, hasFrac) =>
  let expR : Except LexErr (Int × Bytes × Bool) :=
    match b3 with
    | c :: r =>
      if c == 0x65 || c == 0x45 then
        let (esign, r1) : Int × Bytes := match r with
          | 0x2b :: r' => (1, r') | 0x2d :: r' => (-1, r') | _ => (1, r)
        let (ep, r2) := digitsOf r1
        if ep.isEmpty then (if r1.isEmpty then .error .truncated else .error .invalid)
        else .ok (esign * (natOfDigits ep : Int), r2, true)
      else .ok (0, b3, false)
    | [] => .ok (0, b3, false)
  match expR with
  | .error e => .error e
  | .ok (ex, rest, hasExp) =>
    -- what follows must end the token
    match rest with
    | c :: _ => if !endsScalar c then .error .invalid else fin neg ip fp ex hasFrac hasExp rest
    | [] => fin neg ip fp ex hasFrac hasExp rest
where
  fin (neg : Bool) (ip fp : Bytes) (ex : Int) (hasFrac hasExp : Bool) (rest : Bytes) :
      Except LexErr (Val × Bool × Bytes) :=
    if !hasFrac && !hasExp then
      let n := natOfDigits ip
      let v : Int := if neg then -(n : Int) else n
      let inRange := if neg then n ≤ 9223372036854775808 else n ≤ 18446744073709551615
      .ok (.int v, !inRange, rest)
    else
      -- correctly rounded binary64 of  ip.fp × 10^ex
      let mant := natOfDigits (ip ++ fp)
      let sign : UInt64 := if neg then 0x8000000000000000 else 0
      if mant == 0 then .ok (.f64 sign, false, rest) else
      let x : Int := ex - fp.length
      -- obvious overflow / underflow without building huge powers
      if x > 400 then .ok (.f64 (0x7ff0000000000000 ||| sign), true, rest)
      else if x + (ip.length + fp.length : Nat) < -400 then .ok (.f64 sign, false, rest)
      else
        let (n, d) := if x ≥ 0 then (mant * 10 ^ x.toNat, 1) else (mant, 10 ^ (-x).toNat)
        let (bits, ovf) := Float.roundRat Float.float64info n d
        .ok (.f64 (UInt64.ofNat bits ||| sign), ovf, rest)

def strBytes (s : String) : Bytes := s.toList.map fun c => UInt8.ofNat c.toNat

/-- literal `null` / `true` / `false` -/
def lexLit (b : Bytes) (word : Bytes) (v : Val) : Except LexErr (Val × Bytes) :=
  if word.isPrefixOf b then
    let rest := b.drop word.length
    match rest with
    | c :: _ => if endsScalar c then .ok (v, rest) else .error .invalid
    | [] => .ok (v, rest)
  else if b.isPrefixOf word then .error .truncated
  else .error .invalid

def skipWs : Bytes → Bytes
  | [] => []
  | c :: rest => if isWs c then skipWs rest else c :: rest

def lex : Nat → Bytes → List Tok → Except LexErr (List Tok)
  | 0, _, _ => .error .truncated
  | fuel + 1, b, acc =>
    match skipWs b with
    | [] => .ok acc.reverse
    | c :: rest =>
      if c == 0x7b then lex fuel rest (.lbrace :: acc)
      else if c == 0x7d then lex fuel rest (.rbrace :: acc)
      else if c == 0x5b then lex fuel rest (.lbrack :: acc)
      else if c == 0x5d then lex fuel rest (.rbrack :: acc)
      else if c == 0x2c then lex fuel rest (.comma :: acc)
      else if c == 0x3a then lex fuel rest (.colon :: acc)
      else if c == 0x22 then
        match lexString (rest.length + 1) rest [] with
        | .error e => .error e
        | .ok (s, rest') => lex fuel rest' (.str s :: acc)
      else if c == 0x2d || isDigit c then
        match lexNumber (c :: rest) with
        | .error e => .error e
        | .ok (v, mr, rest') => lex fuel rest' (.num v mr :: acc)
      else if c == 0x6e then
        match lexLit (c :: rest) (strBytes "null") .null with
        | .error e => .error e
        | .ok (v, rest') => lex fuel rest' (.lit v :: acc)
      else if c == 0x74 then
        match lexLit (c :: rest) (strBytes "true") (.bool true) with
        | .error e => .error e
        | .ok (v, rest') => lex fuel rest' (.lit v :: acc)
      else if c == 0x66 then
        match lexLit (c :: rest) (strBytes "false") (.bool false) with
        | .error e => .error e
        | .ok (v, rest') => lex fuel rest' (.lit v :: acc)
      else .error .invalid

/-! ## structure -/

inductive PErr | truncated | bad
  deriving DecidableEq

mutual
def pValue : Nat → List Tok → Except PErr (Val × Bool × List Tok)
  | 0, _ => .error .truncated
  | _ + 1, [] => .error .truncated
  | fuel + 1, t :: rest =>
    match t with
    | .str s => .ok (.str s, false, rest)
    | .num v mr => .ok (v, mr, rest)
    | .lit v => .ok (v, false, rest)
    | .lbrack =>
      match rest with
      | .rbrack :: rest' => .ok (.arr [], false, rest')
      | _ =>
        match pElems fuel rest with
        | .error e => .error e
        | .ok (xs, mr, rest') => .ok (.arr xs, mr, rest')
    | .lbrace =>
      match rest with
      | .rbrace :: rest' => .ok (.obj [], false, rest')
      | _ =>
        match pMems fuel rest with
        | .error e => .error e
        | .ok (ms, mr, rest') => .ok (.obj ms, mr, rest')
    | _ => .error .bad
/-- elements after `[` (at least one), through the closing `]` -/
def pElems : Nat → List Tok → Except PErr (List Val × Bool × List Tok)
  | 0, _ => .error .truncated
  | fuel + 1, ts =>
    match pValue fuel ts with
    | .error e => .error e
    | .ok (v, mr, rest) =>
      match rest with
      | [] => .error .truncated
      | .rbrack :: rest' => .ok ([v], mr, rest')
      | .comma :: rest' =>
        match pElems fuel rest' with
        | .error e => .error e
        | .ok (vs, mr', rest'') => .ok (v :: vs, mr || mr', rest'')
      | _ => .error .bad
def pMems : Nat → List Tok → Except PErr (List (Bytes × Val) × Bool × List Tok)
  | 0, _ => .error .truncated
  | _ + 1, [] => .error .truncated
  | fuel + 1, t :: rest =>
    match t with
    | .str k =>
      match rest with
      | [] => .error .truncated
      | .colon :: rest1 =>
        match pValue fuel rest1 with
        | .error e => .error e
        | .ok (v, mr, rest2) =>
          match rest2 with
          | [] => .error .truncated
          | .rbrace :: rest3 => .ok ([(k, v)], mr, rest3)
          | .comma :: rest3 =>
            match pMems fuel rest3 with
            | .error e => .error e
            | .ok (ms, mr', rest4) => .ok ((k, v) :: ms, mr || mr', rest4)
          | _ => .error .bad
      | _ => .error .bad
    | _ => .error .bad
end

def pStream : Nat → List Tok → List Val → Bool → Except PErr (List Val × Bool)
  | 0, _, _, _ => .error .truncated
  | _ + 1, [], acc, mr => .ok (acc.reverse, mr)
  | fuel + 1, ts, acc, mr =>
    match pValue (2 * ts.length + 2) ts with
    | .error e => .error e
    | .ok (v, mr', rest) => pStream fuel rest (v :: acc) (mr || mr')

/-- two scalars glued together without whitespace (`nulltrue`, `"a""b"`, `1"x"`) are no
RFC stream; the lexer already rejects scalar-followed-by-letter; strings directly followed
by a value token are detected here -/
def gluedStrings : List Tok → Bool
  | .str _ :: .str _ :: _ => true   -- cannot tell from whitespace-separated here: conservative, see `decode`
  | _ :: rest => gluedStrings rest
  | [] => false

def decode (b : Bytes) : Verdict :=
  match lex (b.length + 1) b [] with
  | .error .truncated => .truncated
  | .error .invalid => .undetermined
  | .ok toks =>
    match pStream (toks.length + 1) toks [] false with
    | .ok (vs, mr) => .ok vs mr
    | .error .truncated => .truncated
    | .error .bad => .badStructure

/-! tests of the specification, evaluated by the kernel (float rounding is exercised by the
correspondence sweeps instead: `Nat.log2` does not reduce well in the kernel) -/
example : (match decode (strBytes "[1 2]") with | .badStructure => true | _ => false) = true := by decide +kernel
example : (match decode (strBytes "{\"a\":") with | .truncated => true | _ => false) = true := by decide +kernel
example : (match decode (strBytes "+1") with | .undetermined => true | _ => false) = true := by decide +kernel
example : (match decode (strBytes "{\"a\":[1,\"x\"]} [] 18446744073709551615") with
           | .ok [.obj [(_, .arr [.int 1, .str _])], .arr [], .int 18446744073709551615] false => true
           | _ => false) = true := by decide +kernel

end SF.Json.Cst
