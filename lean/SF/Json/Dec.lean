/-
  SF.Json.Dec — mirror of json/decode.go (pull decoder) as it is now (after the fixes of
  "Next on an io.Reader never returned" and "Next mishandled the end of input").

  The reader is the harness's `ChunkReader`: the scripted chunks, one per `Read` (cut to
  the size of the decoder's buffer; an empty chunk is a `(0, nil)` read), then
  `(0, io.EOF)` forever; `lastEOF` makes the last piece of data arrive together with
  `io.EOF` — the decoder parks that error in `dec.err` until the data is consumed.
  A byte-slice decoder (`NewBytesDecoder`) has `hasReader = false` (`dec.in == nil`) and
  starts with the whole input in `buffer`.
-/
import SF.Json.Parse
namespace SF.Json.Dec
open SF SF.Json SF.Json.Parse

/-- harness ChunkReader (ops_codec.go) -/
structure ChunkReader where
  chunks : List Bytes := []
  lastEOF : Bool := false
  pending : Bytes := []
  deriving Repr, Inhabited

/-- ChunkReader.Read(p) with len(p) = n: `(reader, data, err == io.EOF)` -/
def ChunkReader.read (r : ChunkReader) (n : Nat) : ChunkReader × Bytes × Bool :=
  let copyOut (r : ChunkReader) : ChunkReader × Bytes × Bool :=
    let data := r.pending.take n
    let r := { r with pending := r.pending.drop n }
    if r.pending.isEmpty && r.chunks.isEmpty && r.lastEOF then (r, data, true)
    else (r, data, false)
  if r.pending.isEmpty then
    match r.chunks with
    | [] => (r, [], true)                          -- (0, io.EOF)
    | c :: rest =>
      let r := { r with pending := c, chunks := rest }
      if c.isEmpty then (r, [], false)         -- (0, nil)
      else copyOut r
  else copyOut r

/-- json.Decoder -/
structure Dec where
  p : P := {}
  buffer : Bytes := []
  bufSize : Nat := 0              -- len(dec.buffer0)
  hasReader : Bool := true        -- dec.in != nil
  errEOF : Bool := false          -- dec.err (the scripted reader's only error is io.EOF)
  rd : ChunkReader := {}
  deriving Repr, Inhabited

/-- NewDecoder: `if buffer <= 0 { buffer = 4096 }` -/
def newDecoder (rd : ChunkReader) (buffer : Int) : Dec :=
  let buffer := if buffer ≤ 0 then 4096 else buffer.toNat
  { bufSize := buffer, hasReader := true, rd := rd, p := Parse.init none }

/-- NewBytesDecoder -/
def newBytesDecoder (b : Bytes) : Dec :=
  { buffer := b, hasReader := false, p := Parse.init none }

inductive NextRes
  | ok | eof | err (e : Err)
  deriving Repr, DecidableEq, Inhabited

/-- Decoder.finalize: a number at the very end of the input is only reported now -/
def finalize (d : Dec) : Dec × NextRes :=
  let pending := d.p.currentState == .numberState
  match Parse.finalize d.p with
  | (p, some e) => ({ d with p := p }, .err e)
  | (p, none) => ({ d with p := p }, if pending then .ok else .eof)

/-- Decoder.Next; fuel bounds the number of loop iterations -/
def next : Nat → Dec → Dec × NextRes
  | 0, d => (d, .err .outOfFuel)
  | fuel + 1, d =>
    let feedIt (d : Dec) : Dec × NextRes :=
      let r := feedUntil (fuelFor d.buffer) d.p d.buffer
      match r.err with
      | some e => ({ d with p := r.p }, .err e)
      | none =>
        let d := { d with p := r.p, buffer := r.rest }
        if r.reported then (d, .ok) else next fuel d
    if d.buffer.isEmpty then
      -- err := dec.err; dec.err = nil
      let err := d.errEOF
      let d := { d with errEOF := false }
      if !d.hasReader then finalize d                        -- err = io.EOF
      else if !err then
        let (rd, data, eof) := d.rd.read d.bufSize
        let d := { d with rd := rd, buffer := data }
        if !data.isEmpty then feedIt { d with errEOF := eof }   -- dec.err, err = err, nil
        else if eof then finalize d
        else feedIt d
      else finalize d                                        -- the parked io.EOF
    else feedIt d

def nextFuel (d : Dec) : Nat :=
  2 * (d.buffer.length + d.rd.pending.length + d.rd.chunks.length + (d.rd.chunks.map List.length).sum) + 8

end SF.Json.Dec
