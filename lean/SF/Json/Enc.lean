/-
  SF.Json.Enc — mirror of json/visitor.go (the JSON encoder).

  Every visitor method is rendered as the list of actions it performs, in order (`write` =
  one call of the underlying io.Writer, stack and flag updates, `tryElemNext`/`onFieldNext`
  which read and update the flags at the moment they run).  `exec` runs them against a
  writer that may start failing at its k-th call (C16) and stops at the first failed write,
  exactly as every Go helper returns the writer's error at once.  The number and the
  boundaries of the Write calls are those of the Go code (the fault index counts calls).

  json.Visitor implements structform.Visitor plus OnStringRef/OnKeyRef; the typed
  array/map events reach it through structform.EnsureExtVisitor (array.go / map.go), i.e.
  as their expansion into basic events, each checked for an error in turn.
-/
import SF.Event
import SF.Json.Utf8
import SF.Json.Float
namespace SF.Json.Enc
open SF SF.Json SF.Json.Float

/-- the io.Writer under the visitor: fails from its `failFrom`-th call on (none: never).
Same behaviour as `SF.Cbor.Enc.Writer`; the successful writes are kept one by one, newest
first (the boundaries of the Write calls are part of what is mirrored, and appending at the
end of one long list would make long documents quadratic). -/
structure Writer where
  writes : List Bytes := []
  calls : Nat := 0
  failFrom : Option Nat := none
  deriving Repr, DecidableEq, Inhabited

/-- everything written so far -/
def Writer.out (w : Writer) : Bytes := w.writes.reverse.flatten

def Writer.write (w : Writer) (b : Bytes) : Writer × Bool :=
  match w.failFrom with
  | some k => if w.calls ≥ k then ({ w with calls := w.calls + 1 }, false)
              else ({ w with writes := b :: w.writes, calls := w.calls + 1 }, true)
  | none => ({ w with writes := b :: w.writes, calls := w.calls + 1 }, true)

/-- visitor.go `boolStack`; `stack` head = top -/
structure BoolStack where
  stack : List Bool := []
  current : Bool := false
  deriving Repr, DecidableEq, Inhabited

/-- boolStack.push -/
def BoolStack.push (s : BoolStack) (b : Bool) : BoolStack :=
  { stack := s.current :: s.stack, current := b }

/-- boolStack.pop: `panic("pop from empty stack")` on an empty stack (= `none`) -/
def BoolStack.pop (s : BoolStack) : Option BoolStack :=
  match s.stack with
  | [] => none
  | last :: rest => some { stack := rest, current := last }

/-- json.Visitor (behaviour-relevant fields) -/
structure Enc where
  w : Writer := {}
  escapeHTML : Bool := true            -- escapeSet == htmlEscapeSet (NewVisitor's default)
  first : BoolStack := {}
  inArray : BoolStack := {}
  ignoreInvalidFloat : Bool := false
  explicitRadixPoint : Bool := false
  deriving Repr, DecidableEq, Inhabited

/-- NewVisitor -/
def newVisitor (w : Writer) : Enc := { w := w }
/-- SetEscapeHTML -/
def setEscapeHTML (v : Enc) (b : Bool) : Enc := { v with escapeHTML := b }
/-- SetIgnoreInvalidFloat -/
def setIgnoreInvalidFloat (v : Enc) (b : Bool) : Enc := { v with ignoreInvalidFloat := b }
/-- SetExplicitRadixPoint -/
def setExplicitRadixPoint (v : Enc) (b : Bool) : Enc := { v with explicitRadixPoint := b }

/-! ## escape tables, as `init()` fills them -/

/-- jsonEscapeSet[b]: control characters, '"' and '\\' -/
def jsonEscapeSet (b : Nat) : Bool := b < 32 || b == 0x22 || b == 0x5C
/-- htmlEscapeSet[b]: jsonEscapeSet plus '&' '<' '>' -/
def htmlEscapeSet (b : Nat) : Bool := b < 32 || b == 0x22 || b == 0x5C || b == 0x26 || b == 0x3C || b == 0x3E

/-- the two 128-entry tables (compared with the regenerated facts / `VerifEscapeSets`) -/
def jsonEscapeTable : List Bool := (List.range 128).map jsonEscapeSet
def htmlEscapeTable : List Bool := (List.range 128).map htmlEscapeSet

def escapeSet (html : Bool) (b : UInt8) : Bool :=
  if html then htmlEscapeSet b.toNat else jsonEscapeSet b.toNat

/-- `var hex = "0123456789abcdef"` -/
def hex (n : Nat) : UInt8 := UInt8.ofNat (if n < 10 then 48 + n else 87 + n)

/-! ## actions -/

inductive Act
  | write (b : Bytes)          -- vs.w.write(b): one Write call
  | tryElemNext                -- vs.tryElemNext()
  | onFieldNext                -- vs.onFieldNext()
  | push (inArray : Bool)      -- vs.first.push(true); vs.inArray.push(inArray)
  | pop                        -- vs.first.pop(); vs.inArray.pop()
  | fail                       -- return fmt.Errorf("unsupported float value")
  | hang                       -- a loop of the model ran out of fuel (never happens, C03)
  deriving Repr, DecidableEq

inductive Res
  | ok
  | err          -- an error was returned (failed write or unsupported float)
  | panic
  | hang
  deriving Repr, DecidableEq, Inhabited

/-- the escape sequence OnString writes for an ASCII byte in the escape set (one write) -/
def escapeSeq (b : UInt8) : Bytes :=
  if b == ch '\\' || b == ch '"' then [ch '\\', b]
  else if b == 0x0A then [ch '\\', ch 'n']
  else if b == 0x0D then [ch '\\', ch 'r']
  else if b == 0x09 then [ch '\\', ch 't']
  else [ch '\\', ch 'u', ch '0', ch '0', hex (b.toNat >>> 4), hex (b.toNat &&& 0xF)]

/-- `invalidCharSym` -/
def invalidCharSym : Bytes := strBytes "\\ufffd"

/-- `if start < i { writeString(s[start:i]) }` — `pending` is s[start:i] reversed -/
def flush (pending : Bytes) : List Act :=
  if pending.isEmpty then [] else [.write pending.reverse]

/-- the `for i := 0; i < len(s);` loop of OnString and the tail after it.
`rest` = s[i:], `pending` = s[start:i] reversed.  Fuel: every round consumes ≥ 1 byte. -/
def stringLoop (html : Bool) : Nat → Bytes → Bytes → List Act
  | 0, _, _ => [.hang]
  | fuel + 1, rest, pending =>
    match rest with
    | [] => flush pending ++ [.write [ch '"']]
    | b :: tl =>
      if b < Utf8.runeSelf then
        if !escapeSet html b then stringLoop html fuel tl (b :: pending)
        else flush pending ++ .write (escapeSeq b) :: stringLoop html fuel tl []
      else
        let (c, size) := Utf8.decodeRune rest
        if c == Utf8.runeError && size == 1 then
          flush pending ++ .write invalidCharSym :: stringLoop html fuel (rest.drop size) []
        else if c == 0x2028 || c == 0x2029 then
          flush pending ++ .write (strBytes "\\u202") :: .write [hex (c &&& 0xF)] ::
            stringLoop html fuel (rest.drop size) []
        else stringLoop html fuel (rest.drop size) ((rest.take size).reverse ++ pending)

/-- OnString (= OnStringRef) -/
def onString (html : Bool) (s : Bytes) : List Act :=
  .tryElemNext :: .write [ch '"'] :: stringLoop html (s.length + 1) s []

/-- OnKey (= OnKeyRef): onFieldNext, OnString, then ':' -/
def onKey (html : Bool) (s : Bytes) : List Act :=
  .onFieldNext :: onString html s ++ [.write [ch ':']]

/-- the digit loop of onNumber: `for us >= 10 { … }` then the last digit (`none` = out of fuel) -/
def itoaLoop : Nat → Nat → Bytes → Option Bytes
  | 0, _, _ => none
  | fuel + 1, us, acc =>
    if us ≥ 10 then itoaLoop fuel (us / 10) (UInt8.ofNat (us - (us / 10) * 10 + 48) :: acc)
    else some (UInt8.ofNat (us + 48) :: acc)

/-- onNumber(neg, u): manual itoa into the scratch buffer, one write.  `u` is the uint64
image of the value; `-u` wraps.  (64-bit platform: the 1e9-splitting loop is dead code.) -/
def onNumber (neg : Bool) (u : Nat) : List Act :=
  let u := if neg then (18446744073709551616 - u) % 18446744073709551616 else u
  match itoaLoop 21 u [] with
  | none => [.hang]
  | some ds => [.write (if neg then ch '-' :: ds else ds)]

/-- onInt(v int64) -/
def onInt (v : Int) : List Act :=
  .tryElemNext :: onNumber (v < 0) (v % 18446744073709551616).toNat

/-- onUint(u uint64) -/
def onUint (u : Nat) : List Act :=
  .tryElemNext :: onNumber false u

/-- the tail of onFloat once `b := strconv.AppendFloat(…)` is known -/
def floatTail (explicitRadixPoint : Bool) (b : Bytes) : List Act :=
  if explicitRadixPoint then
    -- scan for the first 'e' or '.', whichever comes first
    let rec scan (i : Nat) : Bytes → Bool × Nat
      | [] => (true, b.length)
      | c :: rest =>
        if c == ch 'e' then (true, i)              -- exponent separator
        else if c == ch '.' then (false, b.length) -- decimal point
        else scan (i + 1) rest
    let (needDp, expIdx) := scan 0 b
    [.write (b.take expIdx)] ++ (if needDp then [.write (strBytes ".0")] else []) ++
      [.write (b.drop expIdx)]
  else [.write b]

/-- onFloat(f, bits) -/
def onFloat (v : Enc) (invalid : Bool) (b : Option Bytes) : List Act :=
  .tryElemNext ::
    (if invalid then
      (if !v.ignoreInvalidFloat then [.fail] else [.write (strBytes "null")])
    else match b with
      | some b => floatTail v.explicitRadixPoint b
      | none => [.hang])

/-- the actions of one basic visitor method -/
def acts (v : Enc) : Ev → List Act
  | .objStart _ _ => [.tryElemNext, .push false, .write [ch '{']]      -- OnObjectStart
  | .objEnd => [.pop, .write [ch '}']]                                 -- OnObjectFinished
  | .arrStart _ _ => [.tryElemNext, .push true, .write [ch '[']]       -- OnArrayStart
  | .arrEnd => [.pop, .write [ch ']']]                                 -- OnArrayFinished
  | .key s => onKey v.escapeHTML s                                     -- OnKey
  | .str s => onString v.escapeHTML s                                  -- OnString
  | .bool b => [.tryElemNext, .write (strBytes (if b then "true" else "false"))]   -- OnBool
  | .null => [.tryElemNext, .write (strBytes "null")]                  -- OnNil
  | .num k x => if k.signed then onInt x else onUint x.toNat           -- OnInt8… / OnUint8…
  | .f32 bits => onFloat v (isNaNInf32 bits) (appendFloat32 bits)      -- OnFloat32
  | .f64 bits => onFloat v (isNaNInf64 bits) (appendFloat64 bits)      -- OnFloat64

/-- run actions; stop at the first failed write / returned error / panic -/
def exec (s : Enc) : List Act → Enc × Res
  | [] => (s, .ok)
  | .write b :: rest =>
    match s.w.write b with
    | (w', true) => exec { s with w := w' } rest
    | (w', false) => ({ s with w := w' }, .err)
  | .tryElemNext :: rest =>
    if !s.inArray.current then exec s rest
    else if s.first.current then exec { s with first := { s.first with current := false } } rest
    else
      match s.w.write [ch ','] with                       -- vs.w.write(commaSymbol)
      | (w', true) => exec { s with w := w' } rest
      | (w', false) => ({ s with w := w' }, .err)
  | .onFieldNext :: rest =>
    if s.first.current then exec { s with first := { s.first with current := false } } rest
    else
      match s.w.write [ch ','] with                       -- vs.writeByte(',')
      | (w', true) => exec { s with w := w' } rest
      | (w', false) => ({ s with w := w' }, .err)
  | .push a :: rest => exec { s with first := s.first.push true, inArray := s.inArray.push a } rest
  | .pop :: rest =>
    match s.first.pop with
    | none => (s, .panic)
    | some f =>
      match s.inArray.pop with
      | none => ({ s with first := f }, .panic)
      | some a => exec { s with first := f, inArray := a } rest
  | .fail :: _ => (s, .err)
  | .hang :: _ => (s, .hang)

/-- a sequence of basic events, each checked for an error in turn (array.go / map.go) -/
def execEvs (s : Enc) : List Ev → Enc × Res
  | [] => (s, .ok)
  | e :: es =>
    match exec s (acts s e) with
    | (s', .ok) => execEvs s' es
    | r => r

/-- one extended event: OnStringRef/OnKeyRef are native (same as OnString/OnKey), typed
arrays and maps go through EnsureExtVisitor's expansion into basic events -/
def step (s : Enc) (x : XEv) : Enc × Res :=
  match x with
  | .ev e => exec s (acts s e)
  | .strRef b => exec s (onString s.escapeHTML b)
  | .keyRef b => exec s (onKey s.escapeHTML b)
  | _ => execEvs s x.expand

/-- a whole stream; stops at the first event that returns an error or panics.  Result:
final state, index of the first failing event (none = all succeeded), and how it failed. -/
def run (s : Enc) (xs : List XEv) : Enc × Option Nat × Res :=
  let rec go (s : Enc) (i : Nat) : List XEv → Enc × Option Nat × Res
    | [] => (s, none, .ok)
    | x :: rest =>
      match step s x with
      | (s', .ok) => go s' (i + 1) rest
      | (s', r) => (s', some i, r)
  go s 0 xs

/-- bytes written by a never-failing encoder `v` (options set), from its current state -/
def encAll (v : Enc) (xs : List XEv) : Bytes := (run v xs).1.w.out

end SF.Json.Enc
