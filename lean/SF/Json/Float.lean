/-
  SF.Json.Float — what package json uses from strconv, with exact integer arithmetic
  (no `Float` anywhere): floats are IEEE bit patterns.

    strconv.ParseFloat(s, 64)                  ↦ parseFloat   (readFloat, special, underscoreOK,
                                                               atofHex / decimal.floatBits as one
                                                               exact rounding `roundRat`)
    strconv.AppendFloat(b, f, 'g', -1, 32|64)  ↦ appendFloat32 / appendFloat64
                                                  (genericFtoa, ryuFtoaShortest, formatDigits,
                                                   fmtE, fmtF)

  strconv reaches its results through fast paths (exact float arithmetic, Eisel-Lemire,
  Ryu with 128-bit approximations of powers of ten).  All of them are specified to give the
  correctly rounded / shortest-closest result; the model computes that result directly on
  `Nat` and is tied to strconv by correspondence (boundary, halfway, subnormal, overflow and
  long-digit-string cases in the JSON sweep).  The syntax functions (`readFloat`, `special`,
  `underscoreOK`, exponent clamping at 10000) are mirrored line by line.
-/
import SF.Basic
namespace SF.Json.Float
open SF

/-- strconv.floatInfo -/
structure FloatInfo where
  mantbits : Nat
  expbits : Nat
  bias : Int
  deriving Repr

def float32info : FloatInfo := ⟨23, 8, -127⟩
def float64info : FloatInfo := ⟨52, 11, -1023⟩

/-- binary exponent of the unit in the last place of the smallest normal number (and of all
denormals): `bias + 1 - mantbits` -/
def FloatInfo.eMin (f : FloatInfo) : Int := f.bias + 1 - f.mantbits
/-- binary exponent of the unit in the last place of the largest finite numbers -/
def FloatInfo.eMax (f : FloatInfo) : Int := ((2 ^ f.expbits - 2 : Nat) : Int) + f.bias - f.mantbits

def ch (c : Char) : UInt8 := UInt8.ofNat c.toNat
def strBytes (s : String) : Bytes := s.toList.map ch

/-! ## exact rounding of a positive rational to the nearest float, ties to even -/

/-- `n/d * 2^(-e)` as a fraction -/
def scaled (n d : Nat) (e : Int) : Nat × Nat :=
  if e ≥ 0 then (n, d <<< e.toNat) else (n <<< (-e).toNat, d)

/-- the float nearest to `n/d` (ties to even): `(bits without sign, overflow)`.
This is the common specification of `decimal.floatBits`, `atofHex`, `atof64exact` and
`eiselLemire64`. -/
def roundRat (flt : FloatInfo) (n d : Nat) : Nat × Bool :=
  if n == 0 || d == 0 then (0, false) else
  let mb := flt.mantbits
  -- n/d * 2^-e0 lies in (2^(mb-1), 2^(mb+1))
  let e0 : Int := (n.log2 : Int) - (d.log2 : Int) - mb
  let (n0, d0) := scaled n d e0
  let e1 := if n0 / d0 < 2 ^ mb then e0 - 1 else e0
  -- denormals: the exponent does not go below eMin
  let e := if e1 < flt.eMin then flt.eMin else e1
  let (n1, d1) := scaled n d e
  let q := n1 / d1
  let r := n1 % d1
  let q := if 2 * r > d1 || (2 * r == d1 && q % 2 == 1) then q + 1 else q
  -- rounding might have added a bit
  let (q, e) := if q == 2 ^ (mb + 1) then (2 ^ mb, e + 1) else (q, e)
  if e > flt.eMax then (((2 ^ flt.expbits - 1) <<< mb), true)        -- ±Inf, ErrRange
  else if q < 2 ^ mb then (q, false)                                  -- denormal or zero
  else ((((e - flt.eMin + 1).toNat) <<< mb) ||| (q - 2 ^ mb), false)

/-! ## strconv.ParseFloat -/

inductive PF
  | ok (bits : UInt64)
  | syntaxErr                 -- ErrSyntax
  | rangeErr (bits : UInt64)  -- ErrRange (result ±Inf)
  | unmodelled                -- accepted by Go but outside the model: more than 800 digits in front
                              -- of the decimal point, where strconv's own paths disagree
                              -- (hex floats and underscores are modelled)
  deriving Repr, DecidableEq, Inhabited

/-- strconv.lower -/
def lower (c : UInt8) : UInt8 := c ||| 0x20

def isDigit (c : UInt8) : Bool := ch '0' ≤ c && c ≤ ch '9'
def isHexLetter (c : UInt8) : Bool := ch 'a' ≤ lower c && lower c ≤ ch 'f'

/-- strconv.commonPrefixLenIgnoreCase (prefix all lower-case) -/
def commonPrefixLenIgnoreCase : Bytes → Bytes → Nat
  | c :: s, p :: prefix_ =>
    let c := if ch 'A' ≤ c && c ≤ ch 'Z' then c + (ch 'a' - ch 'A') else c
    if c != p then 0 else 1 + commonPrefixLenIgnoreCase s prefix_
  | _, _ => 0

def uvnan : UInt64 := 0x7FF8000000000001
def uvinf : UInt64 := 0x7FF0000000000000
def uvneginf : UInt64 := 0xFFF0000000000000

/-- strconv.special: `(bits, n)` if a prefix of s is a (signed) inf / infinity / nan -/
def special (s : Bytes) : Option (UInt64 × Nat) :=
  let inf (neg : Bool) (nsign : Nat) (s : Bytes) : Option (UInt64 × Nat) :=
    let n := commonPrefixLenIgnoreCase s (strBytes "infinity")
    let n := if 3 < n && n < 8 then 3 else n
    if n == 3 || n == 8 then some (if neg then uvneginf else uvinf, nsign + n) else none
  match s with
  | [] => none
  | c :: rest =>
    if c == ch '+' then inf false 1 rest
    else if c == ch '-' then inf true 1 rest
    else if c == ch 'i' || c == ch 'I' then inf false 0 s
    else if c == ch 'n' || c == ch 'N' then
      if commonPrefixLenIgnoreCase s (strBytes "nan") == 3 then some (uvnan, 3) else none
    else none

/-- strconv.underscoreOK: underscores only between digits or between base prefix and digit.
`saw`: 0 = '^', 1 = '0', 2 = '_', 3 = '!' -/
def underscoreOK (s : Bytes) : Bool :=
  let s := match s with
    | c :: rest => if c == ch '-' || c == ch '+' then rest else s
    | [] => s
  let (saw0, hex, s) := match s with
    | c0 :: c1 :: rest =>
      if c0 == ch '0' && (lower c1 == ch 'b' || lower c1 == ch 'o' || lower c1 == ch 'x') then
        (1, lower c1 == ch 'x', rest)
      else (0, false, s)
    | _ => (0, false, s)
  let rec go (saw : Nat) : Bytes → Bool
    | [] => saw != 2
    | c :: rest =>
      if isDigit c || (hex && isHexLetter c) then go 1 rest
      else if c == ch '_' then (if saw != 1 then false else go 2 rest)
      else if saw == 2 then false
      else go 3 rest
  go saw0 s

/-- the local variables of readFloat's mantissa loop; `mant` keeps *all* digits (Go keeps 19
resp. 16 and a `trunc` flag and re-reads the string on its slow path) -/
structure Mant where
  mant : Nat := 0
  nd : Nat := 0
  dp : Int := 0
  sawdot : Bool := false
  sawdigits : Bool := false
  underscores : Bool := false
  deriving Repr

/-- readFloat, `loop:` — returns the state and the unconsumed rest -/
def readMant (hex : Bool) : Bytes → Mant → Mant × Bytes
  | [], m => (m, [])
  | c :: rest, m =>
    if c == ch '_' then readMant hex rest { m with underscores := true }
    else if c == ch '.' then
      if m.sawdot then (m, c :: rest)
      else readMant hex rest { m with sawdot := true, dp := m.nd }
    else if isDigit c then
      if c == ch '0' && m.nd == 0 then         -- ignore leading zeros
        readMant hex rest { m with sawdigits := true, dp := m.dp - 1 }
      else
        readMant hex rest { m with sawdigits := true, nd := m.nd + 1,
                                    mant := m.mant * (if hex then 16 else 10) + (c - ch '0').toNat }
    else if hex && isHexLetter c then
      readMant hex rest { m with sawdigits := true, nd := m.nd + 1,
                                  mant := m.mant * 16 + ((lower c - ch 'a').toNat + 10) }
    else (m, c :: rest)

/-- readFloat, exponent digits: `if e < 10000 { e = e*10 + digit }`, underscores skipped -/
def readExpDigits : Bytes → Nat → Bool → Nat × Bool × Bytes
  | [], e, us => (e, us, [])
  | c :: rest, e, us =>
    if c == ch '_' then readExpDigits rest e true
    else if isDigit c then readExpDigits rest (if e < 10000 then e * 10 + (c - ch '0').toNat else e) us
    else (e, us, c :: rest)

/-- readFloat, the part after the exponent character: `(e*esign, underscores, rest)`;
`none` = not ok -/
def readExp (s : Bytes) : Option (Int × Bool × Bytes) :=
  match s with
  | [] => none
  | c :: rest =>
    let (esign, s) : Int × Bytes :=
      if c == ch '+' then (1, rest) else if c == ch '-' then (-1, rest) else (1, s)
    match s with
    | [] => none
    | d :: _ =>
      if !isDigit d then none else
      let (e, us, rest) := readExpDigits s 0 false
      some (esign * (e : Int), us, rest)

def signBit (neg : Bool) : UInt64 := if neg then 0x8000000000000000 else 0

/-- the float64 nearest to 0.d1d2…dnd * 10^dp10 (`mant` = d1…dnd ≠ 0), with the shortcuts
of decimal.floatBits for obvious overflow / underflow -/
def decimalToBits (neg : Bool) (mant nd : Nat) (dp10 : Int) : PF :=
  if dp10 > 310 then .rangeErr (if neg then uvneginf else uvinf)       -- overflow
  else if dp10 < -330 then .ok (signBit neg)                           -- zero
  else
    let x : Int := dp10 - nd
    let (n, d) := if x ≥ 0 then (mant * 10 ^ x.toNat, 1) else (mant, 10 ^ (-x).toNat)
    let (bits, ovf) := roundRat float64info n d
    let bits := UInt64.ofNat bits ||| signBit neg
    if ovf then .rangeErr bits else .ok bits

/-- strconv.ParseFloat(s, 64) -/
def parseFloat (s : Bytes) : PF :=
  -- atof64: special values first
  match special s with
  | some (bits, n) => if n == s.length then .ok bits else .syntaxErr
  | none =>
  -- readFloat: optional sign
  match s with
  | [] => .syntaxErr
  | c0 :: rest0 =>
    let (neg, body) : Bool × Bytes :=
      if c0 == ch '+' then (false, rest0) else if c0 == ch '-' then (true, rest0) else (false, s)
    -- base prefix: `i+2 < len(s) && s[i] == '0' && lower(s[i+1]) == 'x'`
    let (hex, body) : Bool × Bytes :=
      match body with
      | z :: x :: r => if z == ch '0' && lower x == ch 'x' && !r.isEmpty then (true, r) else (false, body)
      | _ => (false, body)
    let (m, rest) := readMant hex body {}
    if !m.sawdigits then .syntaxErr else
    let dp : Int := if !m.sawdot then m.nd else m.dp
    -- optional exponent (mandatory for hex)
    let expChar := if hex then ch 'p' else ch 'e'
    let ex : Option (Int × Bool × Bytes × Bool) :=
      match rest with
      | c :: r =>
        if lower c == expChar then (readExp r).map fun (e, us, r') => (e, us, r', true)
        else some (0, false, rest, false)
      | [] => some (0, false, rest, false)
    match ex with
    | none => .syntaxErr
    | some (e, us, rest, sawExp) =>
      if hex && !sawExp then .syntaxErr                    -- "Must have exponent."
      else if (m.underscores || us) && !underscoreOK (s.take (s.length - rest.length)) then .syntaxErr
      else if !rest.isEmpty then .syntaxErr                -- ParseFloat: n != len(s)
      else if m.mant == 0 then .ok (signBit neg)
      else if hex then
        -- value = mant * 16^(dp-nd) * 2^e
        let x : Int := 4 * (dp - m.nd) + e
        let (n, d) := if x ≥ 0 then (m.mant <<< x.toNat, 1) else (m.mant, 1 <<< (-x).toNat)
        let (bits, ovf) := roundRat float64info n d
        let bits := UInt64.ofNat bits ||| signBit neg
        if ovf then .rangeErr bits else .ok bits
      else
        let dp10 : Int := dp + e
        let exact := decimalToBits neg m.mant m.nd dp10
        -- digits in front of the decimal point (leading zeros not counted)
        let intDigits : Int := if !m.sawdot then m.nd else max m.dp 0
        if intDigits > 800 then
          -- strconv defect: its slow path (decimal.set) stores at most 800 digits and takes the
          -- position of the decimal point from the *stored* count, so a number with more than
          -- 800 digits in front of the point comes out too small by 10^(intDigits-800) whenever
          -- the fast paths (Eisel-Lemire) give up.  When both readings agree (e.g. both overflow)
          -- that is the result, otherwise the input is outside the model.
          let slow := decimalToBits neg m.mant m.nd (dp10 - (intDigits - 800))
          if slow == exact then exact else .unmodelled
        else exact

/-! ## strconv.AppendFloat(dst, f, 'g', -1, bitSize) -/

/-- decimal digits of a natural number, most significant first (`[]` for 0) -/
def natDigits (n : Nat) : List Nat :=
  if n == 0 then [] else (Nat.toDigits 10 n).map fun c => c.toNat - 48

/-- the trimming loop of ryuDigits/ryuDigits32 on exact integers: divide the admissible
interval `[l, u]` by ten as long as it still contains an integer.  Returns `(l, u, k)`;
`none` = out of fuel (one round per decimal digit of `u`). -/
def trimLoop : Nat → Nat → Nat → Nat → Option (Nat × Nat × Nat)
  | 0, _, _, _ => none
  | fuel + 1, l, u, k =>
    let l' := (l + 9) / 10
    let u' := u / 10
    if l' > u' then some (l, u, k) else trimLoop fuel l' u' (k + 1)

/-- dropWhile from the right -/
def trimTrailingZeros (ds : List Nat) : List Nat :=
  (ds.reverse.dropWhile (· == 0)).reverse

/-- strconv.ryuFtoaShortest (value = mant * 2^exp): the shortest decimal that rounds back to
the float — among all multiples of the largest power of ten that has a multiple inside the
rounding interval (closed iff `mant` is even), the one closest to the exact value, ties to
even, clamped to the interval.  Returns the digits and `dp` (value = 0.d1d2… * 10^dp). -/
def ryuFtoaShortest (flt : FloatInfo) (mant : Nat) (exp : Int) : Option (List Nat × Int) :=
  if mant == 0 then some ([], 0) else
  -- computeBounds, in quarter units: value = 4·mant · 2^(exp-2)
  let regular := mant != 2 ^ flt.mantbits || exp == flt.eMin
  let lower4 := if regular then 4 * mant - 2 else 4 * mant - 1
  let central4 := 4 * mant
  let upper4 := 4 * mant + 2
  let e2 : Int := exp - 2
  -- as integers in units of 10^-s
  let s : Nat := if e2 ≥ 0 then 0 else (-e2).toNat
  let f : Nat := if e2 ≥ 0 then 2 ^ e2.toNat else 5 ^ s
  let L := lower4 * f
  let C := central4 * f
  let U := upper4 * f
  -- the bounds are admissible only if the mantissa is even
  let inclusive := mant % 2 == 0
  let l0 := if inclusive then L else L + 1
  let u0 := if inclusive then U else U - 1
  match trimLoop (U.log2 / 3 + 2) l0 u0 0 with
  | none => none
  | some (l, u, k) =>
  let p := 10 ^ k
  let c := C / p
  let r := C % p
  let cup := 2 * r > p || (2 * r == p && c % 2 == 1)
  let j := if c < l then l else if cup && c < u then c + 1 else c
  let ds := natDigits j
  let ds' := trimTrailingZeros ds
  some (ds', (ds.length : Int) + k - s)

def digitByte (d : Nat) : UInt8 := UInt8.ofNat (48 + d)

/-- strconv.fmtE (%e: d.ddddde±dd) -/
def fmtE (neg : Bool) (d : List Nat) (dp : Int) (prec : Int) : Bytes :=
  let nd := d.length
  let sign := if neg then [ch '-'] else []
  let first := match d with | [] => ch '0' | x :: _ => digitByte x
  let more : Bytes :=
    if prec > 0 then
      let m := min nd (prec.toNat + 1)
      ch '.' :: ((d.take m).drop 1).map digitByte ++ List.replicate (prec.toNat + 1 - max m 1) (ch '0')
    else []
  let exp : Int := if nd == 0 then 0 else dp - 1
  let (esign, exp) := if exp < 0 then (ch '-', (-exp).toNat) else (ch '+', exp.toNat)
  let eds : Bytes :=
    if exp < 10 then [ch '0', digitByte exp]
    else if exp < 100 then [digitByte (exp / 10), digitByte (exp % 10)]
    else [digitByte (exp / 100), digitByte (exp / 10 % 10), digitByte (exp % 10)]
  sign ++ [first] ++ more ++ [ch 'e', esign] ++ eds

/-- strconv.fmtF (%f: ddddddd.ddddd) -/
def fmtF (neg : Bool) (d : List Nat) (dp : Int) (prec : Int) : Bytes :=
  let nd := d.length
  let sign := if neg then [ch '-'] else []
  let intPart : Bytes :=
    if dp > 0 then
      let m := min nd dp.toNat
      (d.take m).map digitByte ++ List.replicate (dp.toNat - m) (ch '0')
    else [ch '0']
  let frac : Bytes :=
    if prec > 0 then
      ch '.' :: (List.range prec.toNat).map fun (i : Nat) =>
        let j : Int := dp + (i : Int)
        if 0 ≤ j && j < nd then (match d[j.toNat]? with | some x => digitByte x | none => ch '0') else ch '0'
    else []
  sign ++ intPart ++ frac

/-- strconv.formatDigits for fmt = 'g' -/
def formatDigitsG (shortest : Bool) (neg : Bool) (d : List Nat) (dp : Int) (prec : Int) : Bytes :=
  let nd : Int := d.length
  let eprec := prec
  let eprec := if eprec > nd && nd ≥ dp then nd else eprec
  -- if precision was the shortest possible, use precision 6 for this decision
  let eprec := if shortest then 6 else eprec
  let exp := dp - 1
  if exp < -4 || exp ≥ eprec then
    let prec := if prec > nd then nd else prec
    fmtE neg d dp (prec - 1)
  else
    let prec := if prec > dp then nd else prec
    fmtF neg d dp (max (prec - dp) 0)

/-- strconv.genericFtoa(dst, val, 'g', -1, bitSize) on the bit pattern (`none` = out of fuel) -/
def genericFtoa (flt : FloatInfo) (bits : Nat) : Option Bytes :=
  let neg := bits >>> (flt.expbits + flt.mantbits) != 0
  let exp := (bits >>> flt.mantbits) % 2 ^ flt.expbits
  let mant := bits % 2 ^ flt.mantbits
  if exp == 2 ^ flt.expbits - 1 then
    -- Inf, NaN
    some (strBytes (if mant != 0 then "NaN" else if neg then "-Inf" else "+Inf"))
  else
    -- denormalized: exp++ ; else add the implicit top bit
    let (exp, mant) := if exp == 0 then (1, mant) else (exp, mant ||| 2 ^ flt.mantbits)
    let exp : Int := (exp : Int) + flt.bias
    match ryuFtoaShortest flt mant (exp - flt.mantbits) with
    | none => none
    | some (ds, dp) => some (formatDigitsG true neg ds dp ds.length)    -- shortest, 'g': prec = digs.nd

/-- strconv.AppendFloat(nil, f, 'g', -1, 64) -/
def appendFloat64 (bits : UInt64) : Option Bytes := genericFtoa float64info bits.toNat
/-- strconv.AppendFloat(nil, float64(f), 'g', -1, 32) for a float32 f -/
def appendFloat32 (bits : UInt32) : Option Bytes := genericFtoa float32info bits.toNat

def isNaNInf64 (bits : UInt64) : Bool := (bits.toNat >>> 52) % 2048 == 2047
def isNaNInf32 (bits : UInt32) : Bool := (bits.toNat >>> 23) % 256 == 255

end SF.Json.Float
