/-
  SF.Ubjson.Cst — SPECIFICATION side for UBJSON draft 12: an executable reference decoder,
  independent of the library's parser (DESIGN appendix A.5).  Part of the trusted base.

    Value  ::= Z | T | F | i b | U b | I b² | l b⁴ | L b⁸ | d b⁴ | D b⁸ | C b
             | H Len digits | S Len bytes | Array | Object
    Len    ::= (i|U|I|l|L) int ≥ 0
    Array  ::= '[' (N* Value)* N* ']' | '[' '#' Len (N* Value)ⁿ | '[' '$' Type '#' Len Payloadⁿ
    Object ::= '{' (Len bytes Value)* '}' | '{' '#' Len (Len bytes Value)ⁿ
             | '{' '$' Type '#' Len (Len bytes Payload)ⁿ
    Type   ::= any value marker; payload of '[' / '{' = the container without its opening
               marker; Z T F have an empty payload
    Stream ::= (N* Value)* N*

  Verdicts: `ok values`, `truncated` (ends inside a value), `rejected` (unknown marker,
  negative length, …), `undetermined` (constructs the reading makes no claim about: no-ops
  inside objects, `N` as element type, counts of payload-free elements too large to expand).
-/
import SF.Event
namespace SF.Ubjson.Cst
open SF

inductive DErr | truncated | rejected | undetermined
  deriving DecidableEq, Repr, Inhabited

def takeN (b : Bytes) (n : Nat) : Except DErr (Bytes × Bytes) :=
  if b.length < n then .error .truncated else .ok (b.take n, b.drop n)

def toSigned (w : Nat) (n : Nat) : Int :=
  if n < 2 ^ (8 * w - 1) then n else (n : Int) - (2 : Int) ^ (8 * w)

/-- width in bytes of a fixed-size integer marker -/
def intWidth (m : UInt8) : Option Nat :=
  if m == 0x69 then some 1        -- i
  else if m == 0x55 then some 1   -- U (unsigned)
  else if m == 0x49 then some 2   -- I
  else if m == 0x6c then some 4   -- l
  else if m == 0x4c then some 8   -- L
  else none

def readInt (m : UInt8) (b : Bytes) : Except DErr (Int × Bytes) :=
  match intWidth m with
  | none => .error .rejected
  | some w =>
    match takeN b w with
    | .error e => .error e
    | .ok (a, rest) => .ok (if m == 0x55 then (beNat a : Int) else toSigned w (beNat a), rest)

/-- Len: an integer marker and a non-negative value -/
def readLen (b : Bytes) : Except DErr (Nat × Bytes) :=
  match b with
  | [] => .error .truncated
  | m :: rest =>
    match readInt m rest with
    | .error e => .error e
    | .ok (v, rest') => if v < 0 then .error .rejected else .ok (v.toNat, rest')

def skipNoops : Bytes → Bytes
  | 0x4e :: rest => skipNoops rest
  | b => b

def maxFree : Nat := 200000

/-- the markers that may name an element type: every value marker (not N, not a closing or
header character) -/
def isTypeMarker (t : UInt8) : Bool :=
  t == 0x5a || t == 0x54 || t == 0x46 || t == 0x69 || t == 0x55 || t == 0x49 || t == 0x6c || t == 0x4c ||
  t == 0x64 || t == 0x44 || t == 0x43 || t == 0x48 || t == 0x53 || t == 0x5b || t == 0x7b

mutual
/-- the payload of a value whose marker `m` is already known -/
def payload : Nat → UInt8 → Bytes → Except DErr (Val × Bytes)
  | 0, _, _ => .error .truncated
  | fuel + 1, m, b =>
    if m == 0x5a then .ok (.null, b)                      -- Z
    else if m == 0x54 then .ok (.bool true, b)            -- T
    else if m == 0x46 then .ok (.bool false, b)           -- F
    else if (intWidth m).isSome then
      match readInt m b with
      | .error e => .error e
      | .ok (v, rest) => .ok (.int v, rest)
    else if m == 0x43 then                                -- C
      match b with
      | [] => .error .truncated
      | c :: rest => .ok (.int c.toNat, rest)
    else if m == 0x64 then                                -- d
      match takeN b 4 with
      | .error e => .error e
      | .ok (a, rest) => .ok (.f32 (UInt32.ofNat (beNat a)), rest)
    else if m == 0x44 then                                -- D
      match takeN b 8 with
      | .error e => .error e
      | .ok (a, rest) => .ok (.f64 (UInt64.ofNat (beNat a)), rest)
    else if m == 0x53 || m == 0x48 then                   -- S, H
      match readLen b with
      | .error e => .error e
      | .ok (n, rest) =>
        match takeN rest n with
        | .error e => .error e
        | .ok (s, rest') => .ok (.str s, rest')
    else if m == 0x5b then array fuel b
    else if m == 0x7b then object fuel b
    else if m == 0x4e then .error .undetermined           -- N where a value is required
    else .error .rejected

def value : Nat → Bytes → Except DErr (Val × Bytes)
  | 0, _ => .error .truncated
  | _ + 1, [] => .error .truncated
  | fuel + 1, m :: rest => payload fuel m rest

/-- after '[' -/
def array : Nat → Bytes → Except DErr (Val × Bytes)
  | 0, _ => .error .truncated
  | _ + 1, [] => .error .truncated
  | fuel + 1, c :: rest =>
    if c == 0x24 then                                     -- '$' type '#' len
      match rest with
      | [] => .error .truncated
      | t :: rest1 =>
        if t == 0x4e then .error .undetermined else
        if !isTypeMarker t then .error .rejected else
        match rest1 with
        | [] => .error .truncated
        | h :: rest2 =>
          if h != 0x23 then .error .rejected else
          match readLen rest2 with
          | .error e => .error e
          | .ok (n, rest3) =>
            match typedElems fuel t n rest3 with
            | .error e => .error e
            | .ok (xs, rest4) => .ok (.arr xs, rest4)
    else if c == 0x23 then                                -- '#' len
      match readLen rest with
      | .error e => .error e
      | .ok (n, rest1) =>
        if n > rest1.length then .error .truncated else
        match countedElems fuel n rest1 with
        | .error e => .error e
        | .ok (xs, rest2) => .ok (.arr xs, rest2)
    else
      match plainElems fuel (c :: rest) with
      | .error e => .error e
      | .ok (xs, rest1) => .ok (.arr xs, rest1)

def plainElems : Nat → Bytes → Except DErr (List Val × Bytes)
  | 0, _ => .error .truncated
  | fuel + 1, b =>
    match skipNoops b with
    | [] => .error .truncated
    | c :: rest =>
      if c == 0x5d then .ok ([], rest) else
      match value fuel (c :: rest) with
      | .error e => .error e
      | .ok (v, rest1) =>
        match plainElems fuel rest1 with
        | .error e => .error e
        | .ok (vs, rest2) => .ok (v :: vs, rest2)

def countedElems : Nat → Nat → Bytes → Except DErr (List Val × Bytes)
  | _, 0, b => .ok ([], b)
  | 0, _, _ => .error .truncated
  | fuel + 1, n + 1, b =>
    match value fuel (skipNoops b) with
    | .error e => .error e
    | .ok (v, rest1) =>
      match countedElems fuel n rest1 with
      | .error e => .error e
      | .ok (vs, rest2) => .ok (v :: vs, rest2)

def typedElems : Nat → UInt8 → Nat → Bytes → Except DErr (List Val × Bytes)
  | 0, _, _, _ => .error .truncated
  | fuel + 1, t, n, b =>
    if t == 0x5a || t == 0x54 || t == 0x46 then
      -- payload-free: n copies, no input
      if n > maxFree then .error .undetermined
      else .ok (List.replicate n (if t == 0x5a then Val.null else .bool (t == 0x54)), b)
    else if n > b.length then .error .truncated
    else typedLoop fuel t n b

def typedLoop : Nat → UInt8 → Nat → Bytes → Except DErr (List Val × Bytes)
  | _, _, 0, b => .ok ([], b)
  | 0, _, _, _ => .error .truncated
  | fuel + 1, t, n + 1, b =>
    match payload fuel t b with
    | .error e => .error e
    | .ok (v, rest1) =>
      match typedLoop fuel t n rest1 with
      | .error e => .error e
      | .ok (vs, rest2) => .ok (v :: vs, rest2)

/-- after '{' -/
def object : Nat → Bytes → Except DErr (Val × Bytes)
  | 0, _ => .error .truncated
  | _ + 1, [] => .error .truncated
  | fuel + 1, c :: rest =>
    if c == 0x24 then
      match rest with
      | [] => .error .truncated
      | t :: rest1 =>
        if t == 0x4e then .error .undetermined else
        if !isTypeMarker t then .error .rejected else
        match rest1 with
        | [] => .error .truncated
        | h :: rest2 =>
          if h != 0x23 then .error .rejected else
          match readLen rest2 with
          | .error e => .error e
          | .ok (n, rest3) =>
            if n > rest3.length then .error .truncated else
            match typedMems fuel t n rest3 with
            | .error e => .error e
            | .ok (ms, rest4) => .ok (.obj ms, rest4)
    else if c == 0x23 then
      match readLen rest with
      | .error e => .error e
      | .ok (n, rest1) =>
        if n > rest1.length then .error .truncated else
        match countedMems fuel n rest1 with
        | .error e => .error e
        | .ok (ms, rest2) => .ok (.obj ms, rest2)
    else
      match plainMems fuel (c :: rest) with
      | .error e => .error e
      | .ok (ms, rest1) => .ok (.obj ms, rest1)

def key (b : Bytes) : Except DErr (Bytes × Bytes) :=
  match b with
  | 0x4e :: _ => .error .undetermined          -- no-op in key position: no claim
  | _ =>
    match readLen b with
    | .error e => .error e
    | .ok (n, rest) => takeN rest n

def plainMems : Nat → Bytes → Except DErr (List (Bytes × Val) × Bytes)
  | 0, _ => .error .truncated
  | _ + 1, [] => .error .truncated
  | fuel + 1, c :: rest =>
    if c == 0x7d then .ok ([], rest) else
    match key (c :: rest) with
    | .error e => .error e
    | .ok (k, rest1) =>
      match rest1 with
      | 0x4e :: _ => .error .undetermined      -- no-op between key and value: no claim
      | _ =>
      match value fuel rest1 with
      | .error e => .error e
      | .ok (v, rest2) =>
        match plainMems fuel rest2 with
        | .error e => .error e
        | .ok (ms, rest3) => .ok ((k, v) :: ms, rest3)

def countedMems : Nat → Nat → Bytes → Except DErr (List (Bytes × Val) × Bytes)
  | _, 0, b => .ok ([], b)
  | 0, _, _ => .error .truncated
  | fuel + 1, n + 1, b =>
    match key b with
    | .error e => .error e
    | .ok (k, rest1) =>
      match rest1 with
      | 0x4e :: _ => .error .undetermined
      | _ =>
      match value fuel rest1 with
      | .error e => .error e
      | .ok (v, rest2) =>
        match countedMems fuel n rest2 with
        | .error e => .error e
        | .ok (ms, rest3) => .ok ((k, v) :: ms, rest3)

def typedMems : Nat → UInt8 → Nat → Bytes → Except DErr (List (Bytes × Val) × Bytes)
  | _, _, 0, b => .ok ([], b)
  | 0, _, _, _ => .error .truncated
  | fuel + 1, t, n + 1, b =>
    match key b with
    | .error e => .error e
    | .ok (k, rest1) =>
      match payload fuel t rest1 with
      | .error e => .error e
      | .ok (v, rest2) =>
        match typedMems fuel t n rest2 with
        | .error e => .error e
        | .ok (ms, rest3) => .ok ((k, v) :: ms, rest3)
end

def decodeAll : Nat → Bytes → Except DErr (List Val)
  | 0, _ => .error .truncated
  | fuel + 1, b =>
    match skipNoops b with
    | [] => .ok []
    | b' =>
      match value (2 * b'.length + 4) b' with
      | .error e => .error e
      | .ok (v, rest) =>
        match decodeAll fuel rest with
        | .error e => .error e
        | .ok vs => .ok (v :: vs)

def decodeStream (b : Bytes) : Except DErr (List Val) := decodeAll (b.length + 2) b

/-! tests of the specification (draft-12 examples and hand-made vectors), kernel-evaluated -/
example : (decodeStream [0x5b, 0x69, 0x01, 0x4e, 0x55, 0xff, 0x5d]).toOption.map (fun vs => vs == [.arr [.int 1, .int 255]]) = some true := by decide +kernel
example : (decodeStream [0x5b, 0x24, 0x69, 0x23, 0x69, 0x02, 0xff, 0x05]).toOption.map (fun vs => vs == [.arr [.int (-1), .int 5]]) = some true := by decide +kernel
example : (decodeStream [0x5b, 0x24, 0x5b, 0x23, 0x69, 0x02, 0x24, 0x69, 0x23, 0x69, 0x01, 0x05, 0x24, 0x69, 0x23, 0x69, 0x01, 0x06]).toOption.map
    (fun vs => vs == [.arr [.arr [.int 5], .arr [.int 6]]]) = some true := by decide +kernel
example : (decodeStream [0x7b, 0x69, 0x01, 0x61, 0x5a, 0x7d, 0x4e, 0x54]).toOption.map
    (fun vs => vs == [.obj [([0x61], .null)], .bool true]) = some true := by decide +kernel
example : (match decodeStream [0x49, 0x01] with | .error .truncated => true | _ => false) = true := by decide +kernel
example : (decodeStream [0x5b, 0x24, 0x5a, 0x23, 0x69, 0x03]).toOption.map (fun vs => vs == [.arr [.null, .null, .null]]) = some true := by decide +kernel

end SF.Ubjson.Cst
