/-
  SF.Ubjson.Parse — mirror of ubjson/parse.go (push parser), as it is in /repo now (with
  `pending()`, the `default` arm of `finalize`, no-op handling, `errUnknownMarker` in
  `stepLen`, …).

  One Lean function per Go function, same case structure and order of effects.
  * `P` = the behaviour-relevant fields of `ubjson.Parser`; the visitor is the event log `evs`
    (newest first) plus an optional fault index (`failAt`: the visitor returns an error from
    its k-th event on — C16).  `strVisitor` is `MakeStringRefVisitor(visitor)`: by-reference
    delivery is the same event.
  * Go `(b []byte, done bool, err error)` results are `R`; a `nil` rest is `[]` (a `nil` rest
    is only ever returned together with "token incomplete" or an error, and then nothing
    inspects it but `len`).
  * Every slice index that could go out of range (`b[0]`, `b[1:]` on an empty slice, a
    negative count) is guarded and yields `Err.panic`; the loops of `feedUntil` and `feed`
    take fuel and yield `Err.outOfFuel` (= hang) when it runs out.
-/
import SF.Ubjson.Defs
namespace SF.Ubjson.Parse
open SF SF.Ubjson
open StateType StateStep

inductive Err
  | unknownMarker | incomplete | negativeLen | invalidState
  | missingArrEnd | missingObjEnd | missingCount
  | visitor            -- the error returned by the visitor
  | panic | outOfFuel
  deriving Repr, DecidableEq, Inhabited

structure P where
  state : StateStack := { current := ⟨stNext, stStart⟩ }
  valueState : StateStack := {}
  length : LenStack := {}
  buffer : Bytes := []
  marker : UInt8 := noMarker
  valueType : Nat := BT.any
  err : Option Err := none        -- p.err
  evs : List Ev := []             -- events delivered so far, newest first
  failAt : Option Nat := none     -- visitor fails from this event index on
  deriving Repr, DecidableEq, Inhabited

structure R where
  p : P
  rest : Bytes
  done : Bool := false
  err : Option Err := none
  deriving Repr, Inhabited

/-- Parser.init (NewParser) -/
def init (failAt : Option Nat) : P := { failAt := failAt }

/-- call a visitor method: log the event, fail if the fault index is reached -/
def visit (p : P) (e : Ev) : P × Option Err :=
  let p' := { p with evs := e :: p.evs }
  match p.failAt with
  | some k => if p.evs.length ≥ k then (p', some .visitor) else (p', none)
  | none => (p', none)

def setCurrent (p : P) (s : St) : P := { p with state := { p.state with current := s } }
def setType (p : P) (t : StateType) : P := setCurrent p { p.state.current with type := t }
def setStep (p : P) (s : StateStep) : P := setCurrent p { p.state.current with step := s }
/-- Parser.pushLen -/
def pushLen (p : P) (l : Int) : P := { p with length := p.length.push l }
/-- Parser.popLen -/
def popLen (p : P) : P := { p with length := (p.length.pop).1 }
/-- `p.length.current--` -/
def decLen (p : P) : P := { p with length := { p.length with current := p.length.current - 1 } }
/-- Parser.pushState -/
def pushState (p : P) (s : St) : P := { p with state := p.state.push s }
/-- `p.valueState.pop()` -/
def popValueState (p : P) : P := { p with valueState := p.valueState.pop }

/-- Parser.popState: `p.state.pop(); return len(p.state.stack) == 0, nil` -/
def popState (p : P) : P × Bool :=
  let p := { p with state := p.state.pop }
  (p, p.state.stack.isEmpty)

/-- Parser.popLenState -/
def popLenState (p : P) : P × Bool := popState (popLen p)

def panicR (p : P) (b : Bytes) : R := { p := p, rest := b, err := some .panic }

/-- Parser.collect: gather `count` bytes of a token that may be split across writes.
Result: new buffer, remaining input, the token if complete.  (Same code as cborl's.) -/
def collect (buffer : Bytes) (b : Bytes) (count : Nat) : Bytes × Bytes × Option Bytes :=
  if buffer.length > 0 then
    let delta : Int := (count : Int) - buffer.length
    let cont (buffer b : Bytes) : Bytes × Bytes × Option Bytes :=
      if buffer.length ≥ count then
        let tmp := buffer.take count
        if buffer.length == count then ([], b, some tmp) else (buffer.drop count, b, some tmp)
      else if b.length ≥ count then (buffer, b.drop count, some (b.take count))
      else (buffer ++ b, [], none)
    if delta > 0 then
      let N := delta.toNat
      if N > b.length then (buffer ++ b, [], none)
      else cont (buffer ++ b.take N) (b.drop N)
    else cont buffer b
  else if b.length ≥ count then (buffer, b.drop count, some (b.take count))
  else (buffer ++ b, [], none)

def collectP (p : P) (b : Bytes) (count : Nat) : P × Bytes × Option Bytes :=
  let (buf, rest, tmp) := collect p.buffer b count
  ({ p with buffer := buf }, rest, tmp)

/-! ### readIntN / readFloatN -/

/-- `intN(uintN)` -/
def toSigned (w : Nat) (n : Nat) : Int :=
  if n ≥ 2 ^ (8 * w - 1) then (n : Int) - (2 : Int) ^ (8 * w) else n

def readInt8 (b : UInt8) : Int := toSigned 1 b.toNat
/-- readInt16 -/
def readInt16 (b : Bytes) : Int := toSigned 2 (beNat b)
/-- readInt32 -/
def readInt32 (b : Bytes) : Int := toSigned 4 (beNat b)
/-- readInt64 -/
def readInt64 (b : Bytes) : Int := toSigned 8 (beNat b)
/-- readFloat32 -/
def readFloat32 (b : Bytes) : UInt32 := UInt32.ofNat (beNat b)
/-- readFloat64 -/
def readFloat64 (b : Bytes) : UInt64 := UInt64.ofNat (beNat b)

/-- Parser.advanceMarker -/
def advanceMarker (p : P) (s : St) (bs : Bytes) : R := { p := pushState p s, rest := bs }

/-- Parser.stepValue -/
def stepValue (p : P) (b : Bytes) : R :=
  match b with
  | [] => panicR p b
  | b0 :: bs =>
    match markerToStartState b0 with
    | none => { p := p, rest := [], err := some .unknownMarker }
    | some state =>
      match state.step with
      | .stNil => let (p, e) := visit p .null; { p := p, rest := bs, done := true, err := e }
      | .stNoop => { p := p, rest := bs }
      | .stTrue => let (p, e) := visit p (.bool true); { p := p, rest := bs, done := true, err := e }
      | .stFalse => let (p, e) := visit p (.bool false); { p := p, rest := bs, done := true, err := e }
      | _ => advanceMarker p state bs

/-- Parser.stepLen(b, cont): the length marker (kept in `p.marker` across calls), then the
integer; on completion `marker := noMarker; state.current := cont; pushLen(L)` -/
def stepLen (p : P) (b : Bytes) (cont : St) : R :=
  let fin (p : P) (b : Bytes) (L : Int) : R :=
    if L < 0 then { p := p, rest := [], err := some .negativeLen }
    else { p := pushLen (setCurrent { p with marker := noMarker } cont) L, rest := b }
  let value (p : P) (b : Bytes) : R :=
    let m := p.marker
    if m == int8Marker then
      match b with
      | [] => panicR p b
      | b0 :: bs => fin p bs (readInt8 b0)
    else if m == uint8Marker then
      match b with
      | [] => panicR p b
      | b0 :: bs => fin p bs b0.toNat
    else if m == int16Marker then
      match collectP p b 2 with
      | (p, rest, none) => { p := p, rest := rest }
      | (p, rest, some tmp) => fin p rest (readInt16 tmp)
    else if m == int32Marker then
      match collectP p b 4 with
      | (p, rest, none) => { p := p, rest := rest }
      | (p, rest, some tmp) => fin p rest (readInt32 tmp)
    else if m == int64Marker then
      match collectP p b 8 with
      | (p, rest, none) => { p := p, rest := rest }
      | (p, rest, some tmp) => fin p rest (readInt64 tmp)
    else { p := p, rest := b }                       -- `!complete`
  if p.marker == noMarker then
    match b with
    | [] => panicR p b
    | b0 :: bs =>
      if b0 == int8Marker || b0 == uint8Marker || b0 == int16Marker || b0 == int32Marker
          || b0 == int64Marker then
        let p := { p with marker := b0 }
        if bs.isEmpty then { p := p, rest := [] } else value p bs
      else { p := p, rest := [], err := some .unknownMarker }
  else value p b

/-- Parser.stepFixedValue -/
def stepFixedValue (p : P) (b : Bytes) : R :=
  -- `if done && err == nil { done, err = p.popState() }`
  let fin (p : P) (b : Bytes) (done : Bool) (err : Option Err) : R :=
    if done && err.isNone then
      let (p, d) := popState p
      { p := p, rest := b, done := d }
    else { p := p, rest := b, done := done, err := err }
  let now (e : Ev) : R := let (p, err) := visit p e; fin p b true err
  let coll (n : Nat) (mk : Bytes → Ev) : R :=
    match collectP p b n with
    | (p, rest, none) => fin p rest false none
    | (p, rest, some tmp) => let (p, err) := visit p (mk tmp); fin p rest true err
  match p.state.current.step with
  | .stNil => now .null
  | .stNoop => fin p b false none
  | .stTrue => now (.bool true)
  | .stFalse => now (.bool false)
  | .stInt8 =>
    match b with
    | [] => panicR p b
    | b0 :: bs => let (p, err) := visit p (.num .i8 (readInt8 b0)); fin p bs true err
  | .stUInt8 =>
    match b with
    | [] => panicR p b
    | b0 :: bs => let (p, err) := visit p (.num .u8 b0.toNat); fin p bs true err
  | .stChar => coll 1 fun t => .num .byte (beNat t)
  | .stInt16 => coll 2 fun t => .num .i16 (readInt16 t)
  | .stInt32 => coll 4 fun t => .num .i32 (readInt32 t)
  | .stInt64 => coll 8 fun t => .num .i64 (readInt64 t)
  | .stFloat32 => coll 4 fun t => .f32 (readFloat32 t)
  | .stFloat64 => coll 8 fun t => .f64 (readFloat64 t)
  | _ => { p := p, rest := b }

/-- Parser.stepString ('S' and 'H') -/
def stepString (p : P) (b : Bytes) : R :=
  -- `if done && err == nil { done, err = p.popLenState() }`
  let fin (p : P) (b : Bytes) (done : Bool) (err : Option Err) : R :=
    if done && err.isNone then
      let (p, d) := popLenState p
      { p := p, rest := b, done := d }
    else { p := p, rest := b, done := done, err := err }
  let withLen (p : P) (b : Bytes) : R :=
    let L := p.length.current
    if L == 0 then
      let (p, err) := visit p (.str [])
      fin p b true err
    else if L < 0 then panicR p b
    else
      match collectP p b L.toNat with
      | (p, rest, none) => fin p rest false none
      | (p, rest, some tmp) => let (p, err) := visit p (.str tmp); fin p rest true err
  match p.state.current.step with
  | .stStart =>
    let r := stepLen p b (p.state.current.withStep stWithLen)
    if !(r.err.isNone && r.p.state.current.step == stWithLen) then fin r.p r.rest false r.err
    else withLen r.p r.rest
  | .stWithLen => withLen p b
  | _ => fin p b false none

/-- Parser.stepArrayInit -/
def stepArrayInit (p : P) (b : Bytes) : R :=
  match b with
  | [] => panicR p b
  | b0 :: bs =>
    if b0 == countMarker then { p := setType p stArrayCount, rest := bs }
    else if b0 == typeMarker then { p := setType p stArrayTyped, rest := bs }
    else
      let (p, err) := visit (setType p stArrayDyn) (.arrStart (-1) BT.any)
      { p := p, rest := b, err := err }

/-- Parser.stepArrayDyn -/
def stepArrayDyn (p : P) (b : Bytes) : R :=
  match b with
  | [] => panicR p b
  | b0 :: bs =>
    if b0 == arrEndMarker then
      match visit p .arrEnd with
      | (p, some e) => { p := p, rest := bs, done := true, err := some e }
      | (p, none) => let (p, d) := popState p; { p := p, rest := bs, done := d }
    else
      -- ensure continuation state is pushed to stack
      let p := if p.state.current.step == stStart then setStep p stCont else p
      { stepValue p b with done := false }

/-- Parser.stepArrayCount -/
def stepArrayCount (p : P) (b : Bytes) : R :=
  let step := p.state.current.step
  if step == stStart then
    { stepLen p b (p.state.current.withStep stWithLen) with done := false }
  else
    let l := p.length.current
    let content (p : P) : R :=
      if l == 0 then
        match visit p .arrEnd with
        | (p, some e) => { p := p, rest := b, done := true, err := some e }
        | (p, none) => let (p, d) := popLenState p; { p := p, rest := b, done := d }
      else
        match b with
        | [] => panicR p b
        | b0 :: bs =>
          if b0 == noopMarker then { p := p, rest := bs }      -- no-op is no array element
          else { stepValue (decLen p) b with done := false }
    if step == stWithLen then
      let (p, err) := visit (setStep p stCont) (.arrStart l BT.any)
      if err.isSome || (l > 0 && b.isEmpty) then { p := p, rest := b, err := err }
      else content p
    else content p

/-- Parser.stepType -/
def stepType (p : P) (b : Bytes) (cont : St) : R :=
  match b with
  | [] => panicR p b
  | marker :: bs =>
    let p := setCurrent p cont
    match markerToStartState marker with
    | none => { p := p, rest := [], err := some .unknownMarker }
    | some state =>
      if marker == noopMarker then { p := p, rest := [], err := some .unknownMarker }
      else
        { p := { p with valueState := p.valueState.push state, valueType := markerToBaseType marker },
          rest := bs }

/-- Parser.stepTypeLenHeader -/
def stepTypeLenHeader (p : P) (b : Bytes) (cont : StateStep) : R :=
  let st := p.state.current
  match st.step with
  | .stStart => stepType p b (st.withStep stWithType0)
  | .stWithType0 =>
    match b with
    | [] => panicR p b
    | b0 :: bs =>
      if b0 != countMarker then { p := p, rest := b, err := some .missingCount }
      else { p := setCurrent p (st.withStep stWithType1), rest := bs }
  | .stWithType1 => stepLen p b (st.withStep cont)
  | _ => { p := p, rest := b }

/-- Parser.stepArrayTyped -/
def stepArrayTyped (p : P) (b : Bytes) : R :=
  let step := p.state.current.step
  if step == stStart || step == stWithType0 || step == stWithType1 then
    { stepTypeLenHeader p b stWithLen with done := false }
  else
    let l := p.length.current
    let content (p : P) : R :=
      if l == 0 then
        match visit p .arrEnd with
        | (p, some e) => { p := p, rest := b, done := true, err := some e }
        | (p, none) =>
          let (p, d) := popLenState (popValueState p)
          { p := p, rest := b, done := d }
      else
        -- the element state is executed by the main loop (it might require input)
        let p := decLen p
        { p := pushState p p.valueState.current, rest := b }
    if step == stWithLen then
      let p := setStep p stCont
      match visit p (.arrStart l p.valueType) with
      | (p, some e) => { p := p, rest := b, err := some e }
      | (p, none) => content p
    else content p

/-- Parser.stepObjectInit -/
def stepObjectInit (p : P) (b : Bytes) : R :=
  match b with
  | [] => panicR p b
  | b0 :: bs =>
    if b0 == countMarker then { p := setType p stObjectCount, rest := bs }
    else if b0 == typeMarker then { p := setType p stObjectTyped, rest := bs }
    else
      let (p, err) := visit (setType p stObjectDyn) (.objStart (-1) BT.any)
      { p := p, rest := b, err := err }

/-- the `stFieldNameLen` arm shared by stepObjectDyn and stepObjectCountedContent: collect
the key, `popLen`, `OnKeyRef`, `stateStep = stCont` (the latter two only once complete) -/
def fieldName (p : P) (b : Bytes) : R :=
  let L := p.length.current
  if L < 0 then panicR p b else
  match collectP p b L.toNat with
  | (p, rest, none) => { p := p, rest := rest }
  | (p, rest, some tmp) =>
    let (p, err) := visit (popLen p) (.key tmp)
    { p := setStep p stCont, rest := rest, err := err }

/-- Parser.stepObjectDyn -/
def stepObjectDyn (p : P) (b : Bytes) : R :=
  let step := p.state.current.step
  let body (p : P) : R :=
    match step with
    | .stStart => { stepLen p b (p.state.current.withStep stFieldNameLen) with done := false }
    | .stFieldNameLen => fieldName p b
    | .stCont =>
      match b with
      | [] => panicR p b
      | b0 :: bs =>
        if b0 == noopMarker then { p := p, rest := bs }        -- no-op is no field value
        else { stepValue (setStep p stStart) b with done := false }
    | _ => { p := p, rest := b }
  if step == stStart && p.marker == noMarker then
    match b with
    | [] => panicR p b
    | b0 :: bs =>
      if b0 == objEndMarker then
        match visit p .objEnd with
        | (p, some e) => { p := p, rest := bs, done := true, err := some e }
        | (p, none) => let (p, d) := popState p; { p := p, rest := bs, done := d }
      else body p
  else body p

/-- Parser.stepObjectCountedContent(b, typed): result `(end, b, err)` in `R.done/rest/err` -/
def stepObjectCountedContent (p : P) (b : Bytes) (typed : Bool) : R :=
  -- `if end { err = p.visitor.OnObjectFinished() }; return end, b, err`
  let fin (p : P) (end_ : Bool) (b : Bytes) (err : Option Err) : R :=
    if end_ then
      let (p, e) := visit p .objEnd
      { p := p, rest := b, done := true, err := e }
    else { p := p, rest := b, done := false, err := err }
  -- `case stFieldName:`
  let atFieldName (p : P) (b : Bytes) : R :=
    if p.length.current == 0 then fin p true b none
    else
      let r := stepLen p b (p.state.current.withStep stFieldNameLen)
      fin r.p false r.rest r.err
  match p.state.current.step with
  | .stWithLen =>
    let L := p.length.current
    match visit p (.objStart L BT.any) with
    | (p, some e) => { p := p, rest := b, done := false, err := some e }
    | (p, none) =>
      if L == 0 then fin p (p.length.current == 0) b none
      else
        let p := setStep p stFieldName
        if b.isEmpty then fin p false b none
        else atFieldName p b                                   -- fallthrough
  | .stFieldName => atFieldName p b
  | .stFieldNameLen =>
    let r := fieldName p b
    fin r.p false r.rest r.err
  | .stCont =>
    let value (p : P) : R :=
      let p := setStep (decLen p) stFieldName
      -- handle object field value
      if typed then fin (pushState p p.valueState.current) false b none
      else
        let r := stepValue p b
        fin r.p false r.rest r.err
    if !typed then
      match b with
      | [] => panicR p b
      | b0 :: bs =>
        if b0 == noopMarker then { p := p, rest := bs }        -- no-op is no field value
        else value p
    else value p
  | _ => fin p false b none

/-- Parser.stepObjectCount -/
def stepObjectCount (p : P) (b : Bytes) : R :=
  if p.state.current.step == stStart then
    { stepLen p b (p.state.current.withStep stWithLen) with done := false }
  else
    let r := stepObjectCountedContent p b false
    if r.done && r.err.isNone then
      let (p, d) := popLenState r.p
      { p := p, rest := r.rest, done := d }
    else r

/-- Parser.stepObjectTyped -/
def stepObjectTyped (p : P) (b : Bytes) : R :=
  let step := p.state.current.step
  if step == stStart || step == stWithType0 || step == stWithType1 then
    { stepTypeLenHeader p b stWithLen with done := false }
  else
    let r := stepObjectCountedContent p b true
    if r.done && r.err.isNone then
      let (p, d) := popLenState (popValueState r.p)
      { p := p, rest := r.rest, done := d }
    else r

/-- Parser.execStep -/
def execStep (p : P) (b : Bytes) : R :=
  let r : R :=
    match p.state.current.type with
    | .stFail => { p := p, rest := b, err := p.err }
    | .stNext => stepValue p b
    | .stFixed => stepFixedValue p b
    | .stHighPrec => stepString p b
    | .stString => stepString p b
    | .stArray => stepArrayInit p b
    | .stArrayDyn => stepArrayDyn p b
    | .stArrayCount => stepArrayCount p b
    | .stArrayTyped => stepArrayTyped p b
    | .stObject => stepObjectInit p b
    | .stObjectDyn => stepObjectDyn p b
    | .stObjectCount => stepObjectCount p b
    | .stObjectTyped => stepObjectTyped p b
  match r.err with
  | some e => { r with p := { r.p with err := some e } }
  | none => r

/-- Parser.pending: can the current state be advanced without consuming input? -/
def pending (p : P) : Bool :=
  let st := p.state.current
  let l := p.length.current
  match st.type with
  | .stFixed => st.step == stNil || st.step == stTrue || st.step == stFalse
  | .stArrayCount => st.step == stWithLen || (st.step == stCont && l == 0)
  | .stArrayTyped => st.step == stWithLen || st.step == stCont
  | .stObjectCount | .stObjectTyped =>
    match st.step with
    | .stWithLen => true
    | .stFieldName | .stFieldNameLen => l == 0        -- no more fields, or empty field name
    | .stCont => st.type == stObjectTyped
    | _ => false
  | _ => false

/-- Parser.feedUntil: `for len(b) > 0 || p.pending() { b, done, err = p.execStep(b); … }`.
Result: parser, unconsumed input (`n = len(orig) - len(rest)`), done, err. -/
def feedUntil : Nat → P → Bytes → R
  | 0, p, b => { p := p, rest := b, err := some .outOfFuel }
  | fuel + 1, p, b =>
    if !b.isEmpty || pending p then
      let r := execStep p b
      if r.done || r.err.isSome then r else feedUntil fuel r.p r.rest
    else { p := p, rest := b }

/-- fuel for one `feedUntil`: every step consumes input or moves along a bounded chain of
zero-input steps — except for the elements of typed containers whose element type has no
payload (`[$Z#…`), which cost two steps each whatever the input length; hence the constant. -/
def fuelFor (b : Bytes) : Nat := 8 * b.length + 2000000

/-- Parser.feed: `for len(b) > 0 { n, _, err := p.feedUntil(b); …; b = b[n:] }` -/
def feed : Nat → P → Bytes → P × Option Err
  | 0, p, _ => (p, some .outOfFuel)
  | fuel + 1, p, b =>
    if b.isEmpty then (p, none) else
    let r := feedUntil (fuelFor b) p b
    match r.err with
    | some e => (r.p, some e)
    | none => feed fuel r.p r.rest

def feedAll (p : P) (b : Bytes) : P × Option Err := feed (2 * b.length + 2) p b

/-- the `for len(p.state.stack) > 0 { … }` loop of Parser.finalize; every round pops one
state, `n` = depth of the state stack -/
def finalizeLoop : Nat → P → P × Option Err
  | 0, p => if p.state.stack.isEmpty then (p, none) else (p, some .outOfFuel)
  | n + 1, p =>
    if p.state.stack.isEmpty then (p, none) else
    let st := p.state.current
    let close (p : P) (e : Ev) : P × Option Err :=
      match visit p e with
      | (p, some err) => (p, some err)
      | (p, none) =>
        let p := if st.type == stArrayTyped || st.type == stObjectTyped then popValueState p else p
        finalizeLoop n (popLenState p).1
    match st.type with
    | .stArrayCount | .stArrayTyped =>
      if p.length.current != 0 || st.step != stCont then (p, some .missingArrEnd)
      else close p .arrEnd
    | .stObjectCount | .stObjectTyped =>
      if p.length.current != 0 || st.step != stFieldName then (p, some .missingObjEnd)
      else close p .objEnd
    | _ => (p, some .incomplete)

/-- Parser.finalize -/
def finalize (p : P) : P × Option Err :=
  match finalizeLoop p.state.stack.length p with
  | (p, some e) => (p, some e)
  | (p, none) =>
    let st := p.state.current
    let incomplete := !p.state.stack.isEmpty || st.step != stStart || st.type != stNext
    if incomplete then (p, some .incomplete) else (p, none)

/-- Parser.Write: a failed write leaves the parser in `{stFail, stStart}` -/
def write (p : P) (b : Bytes) : P × Option Err :=
  match feedAll p b with
  | (p, some e) => (setCurrent { p with err := some e } ⟨stFail, stStart⟩, some e)
  | (p, none) => ({ p with err := none }, none)

/-- Parser.Parse / ParseString: feed, then finalize -/
def parse (p : P) (b : Bytes) : P × Option Err :=
  match feedAll p b with
  | (p, some e) => ({ p with err := some e }, some e)
  | (p, none) =>
    let (p, e) := finalize p
    ({ p with err := e }, e)

/-- Write per chunk, stop at the first error, then finalize (`Write*` + end of input) -/
def writeChunks (p : P) : List Bytes → P × Option Err
  | [] => finalize p
  | c :: cs =>
    match write p c with
    | (p, some e) => (p, some e)
    | (p, none) => writeChunks p cs

/-- the Write calls `io.Copy` issues for one Read result: its buffer holds 32 KiB -/
def copyPieces : Nat → Bytes → List Bytes
  | 0, _ => []
  | fuel + 1, c => if c.length ≤ 32768 then [c] else c.take 32768 :: copyPieces fuel (c.drop 32768)

/-- Parser.ParseReader = io.Copy(p, in) + finalize; `reads` = what successive Read calls
return (an empty one is a `(0, nil)` read: no Write) -/
def parseReader (p : P) (reads : List Bytes) : P × Option Err :=
  writeChunks p ((reads.flatMap fun c => copyPieces (c.length / 32768 + 1) c).filter (!·.isEmpty))

def events (p : P) : List Ev := p.evs.reverse

end SF.Ubjson.Parse
