/-
  SF.Ubjson.Defs — markers of ubjson/defs.go, the state constants of ubjson/parse.go
  (`stateType`, `stateStep`), `markerToStartState`, `markerToBaseType` and the stacks of
  ubjson/stack.go.

  The two `iota` enumerations are Lean inductives (so that the Go `switch` statements become
  `match`es); `StateType.toNat` / `StateStep.toNat` give the numeric values the Go compiler
  assigns, for the regenerated-facts check.
-/
import SF.Event
import SF.Cbor.Defs
namespace SF.Ubjson

/-! ## defs.go -/

def noMarker : UInt8 := 0

def nullMarker : UInt8 := 0x5a      -- 'Z'
def noopMarker : UInt8 := 0x4e      -- 'N'
def trueMarker : UInt8 := 0x54      -- 'T'
def falseMarker : UInt8 := 0x46     -- 'F'
def int8Marker : UInt8 := 0x69      -- 'i'
def uint8Marker : UInt8 := 0x55     -- 'U'
def int16Marker : UInt8 := 0x49     -- 'I'
def int32Marker : UInt8 := 0x6c     -- 'l'
def int64Marker : UInt8 := 0x4c     -- 'L'
def float32Marker : UInt8 := 0x64   -- 'd'
def float64Marker : UInt8 := 0x44   -- 'D'
def highPrecMarker : UInt8 := 0x48  -- 'H'
def charMarker : UInt8 := 0x43      -- 'C'
def stringMarker : UInt8 := 0x53    -- 'S'

def objStartMarker : UInt8 := 0x7b  -- '{'
def objEndMarker : UInt8 := 0x7d    -- '}'
def arrStartMarker : UInt8 := 0x5b  -- '['
def arrEndMarker : UInt8 := 0x5d    -- ']'

def countMarker : UInt8 := 0x23     -- '#'
def typeMarker : UInt8 := 0x24      -- '$'

/-! ## parse.go: stateType / stateStep -/

inductive StateType
  | stFail | stNext | stFixed | stHighPrec | stString
  | stArray | stArrayDyn | stArrayCount | stArrayTyped
  | stObject | stObjectDyn | stObjectCount | stObjectTyped
  deriving DecidableEq, Repr, Inhabited

inductive StateStep
  | stStart
  | stNil | stNoop | stTrue | stFalse | stInt8 | stUInt8 | stInt16 | stInt32 | stInt64
  | stFloat32 | stFloat64 | stChar
  | stWithLen
  | stWithType0 | stWithType1 | stCont | stFieldName | stFieldNameLen
  deriving DecidableEq, Repr, Inhabited

/-- the `iota` value of a stateType constant -/
def StateType.toNat : StateType → Nat
  | .stFail => 0 | .stNext => 1 | .stFixed => 2 | .stHighPrec => 3 | .stString => 4
  | .stArray => 5 | .stArrayDyn => 6 | .stArrayCount => 7 | .stArrayTyped => 8
  | .stObject => 9 | .stObjectDyn => 10 | .stObjectCount => 11 | .stObjectTyped => 12

/-- the `iota` value of a stateStep constant -/
def StateStep.toNat : StateStep → Nat
  | .stStart => 0
  | .stNil => 1 | .stNoop => 2 | .stTrue => 3 | .stFalse => 4 | .stInt8 => 5 | .stUInt8 => 6
  | .stInt16 => 7 | .stInt32 => 8 | .stInt64 => 9 | .stFloat32 => 10 | .stFloat64 => 11
  | .stChar => 12
  | .stWithLen => 13
  | .stWithType0 => 14 | .stWithType1 => 15 | .stCont => 16 | .stFieldName => 17
  | .stFieldNameLen => 18

/-- parse.go `state` -/
structure St where
  type : StateType
  step : StateStep
  deriving DecidableEq, Repr, Inhabited

/-- state.withStep -/
def St.withStep (st : St) (s : StateStep) : St := { st with step := s }

open StateType StateStep in
/-- markerToStartState; `none` = `errUnknownMarker` -/
def markerToStartState (marker : UInt8) : Option St :=
  if marker == nullMarker then some ⟨stFixed, stNil⟩
  else if marker == noopMarker then some ⟨stFixed, stNoop⟩
  else if marker == trueMarker then some ⟨stFixed, stTrue⟩
  else if marker == falseMarker then some ⟨stFixed, stFalse⟩
  else if marker == int8Marker then some ⟨stFixed, stInt8⟩
  else if marker == uint8Marker then some ⟨stFixed, stUInt8⟩
  else if marker == int16Marker then some ⟨stFixed, stInt16⟩
  else if marker == int32Marker then some ⟨stFixed, stInt32⟩
  else if marker == int64Marker then some ⟨stFixed, stInt64⟩
  else if marker == float32Marker then some ⟨stFixed, stFloat32⟩
  else if marker == float64Marker then some ⟨stFixed, stFloat64⟩
  else if marker == highPrecMarker then some ⟨stHighPrec, stStart⟩
  else if marker == charMarker then some ⟨stFixed, stChar⟩
  else if marker == stringMarker then some ⟨stString, stStart⟩
  else if marker == objStartMarker then some ⟨stObject, stStart⟩
  else if marker == arrStartMarker then some ⟨stArray, stStart⟩
  else none

/-- markerToBaseType -/
def markerToBaseType (marker : UInt8) : Nat :=
  if marker == falseMarker || marker == trueMarker then BT.bool
  else if marker == charMarker then BT.byte
  else if marker == int8Marker then BT.int8
  else if marker == uint8Marker then BT.uint8
  else if marker == int16Marker then BT.int16
  else if marker == int32Marker then BT.int32
  else if marker == int64Marker then BT.int64
  else if marker == float32Marker then BT.float32
  else if marker == float64Marker then BT.float64
  else if marker == highPrecMarker || marker == stringMarker then BT.string
  else BT.any

/-! ## stack.go -/

/-- stateStack; `stack` head = top.  The zero value (`current = {stFail, stStart}`) is what
`Parser.init` leaves in `valueState`; `state.current` is set to `{stNext, stStart}`. -/
structure StateStack where
  stack : List St := []
  current : St := ⟨.stFail, .stStart⟩
  deriving DecidableEq, Repr, Inhabited

/-- stateStack.push: a failed current state is overwritten, not saved -/
def StateStack.push (s : StateStack) (next : St) : StateStack :=
  if s.current.type != .stFail then { stack := s.current :: s.stack, current := next }
  else { s with current := next }

/-- stateStack.pop: on an empty stack the current state becomes `{stFail, stStart}` -/
def StateStack.pop (s : StateStack) : StateStack :=
  match s.stack with
  | [] => { s with current := ⟨.stFail, .stStart⟩ }
  | top :: rest => { stack := rest, current := top }

/-- lengthStack: push saves `current`, pop on an empty stack sets `current := -1` and returns
-1 — the same code as cborl/stack.go, hence the same model. -/
abbrev LenStack := SF.Cbor.LenStack

end SF.Ubjson
