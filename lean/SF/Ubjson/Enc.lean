/-
  SF.Ubjson.Enc — mirror of ubjson/visitor.go (the UBJSON encoder).

  As in SF.Cbor.Enc every visitor method is rendered as the list of actions it performs, in
  order (`write` = one call of `io.Writer.Write`, `push`/`pop` on the length stack); `exec`
  runs them against a writer that may start failing at its k-th call (C16) and stops at the
  first failed write, exactly as every Go helper returns the writer's error at once.  The
  number and the boundaries of the `write` actions are those of the Go code (`writeByte` is
  one 1-byte Write; `uint8(u, true)`, `OnByte`, `onEmptyArray/Object` are one 2-byte Write;
  `onTypedStruct` one 4-byte Write followed by `writeLen`).

  The scratch buffer `vs.scratch` is not part of the state: every Write copies out of it at
  once, and the one place where two live values share it (`uint64HighPrec`: digits from
  `scratch[1:]`, length marker and length through `scratch[0]`) keeps them disjoint because
  a digit count (≤ 20) is always written by `int8(len, true)` = two `writeByte` calls.
-/
import SF.Ubjson.Defs
namespace SF.Ubjson.Enc
open SF SF.Ubjson

/-- the harness' FailWriter: fails from its `failFrom`-th call on (none: never).  Same
behaviour as SF.Cbor.Enc.Writer, but the successful Write calls are kept one by one (newest
first) — appending to one growing list would make long documents quadratic. -/
structure Writer where
  chunks : List Bytes := []
  calls : Nat := 0
  failFrom : Option Nat := none
  deriving Repr, DecidableEq, Inhabited

/-- everything written so far -/
def Writer.out (w : Writer) : Bytes := w.chunks.reverse.flatten

def Writer.write (w : Writer) (b : Bytes) : Writer × Bool :=
  match w.failFrom with
  | some k => if w.calls ≥ k then ({ w with calls := w.calls + 1 }, false)
              else ({ w with chunks := b :: w.chunks, calls := w.calls + 1 }, true)
  | none => ({ w with chunks := b :: w.chunks, calls := w.calls + 1 }, true)

inductive Act
  | write (b : Bytes)
  | push (n : Int)
  | pop
  deriving Repr, DecidableEq

/-- two's complement image of `v` in `w` bytes, big-endian (Go: `uintN(i)` + `PutUintN`) -/
def twos (w : Nat) (v : Int) : Bytes := beBytes w (v % ((256 : Int) ^ w)).toNat

/-- vs.writeByte -/
def writeByte (b : UInt8) : List Act := [.write [b]]

/-- the optional marker write in front of a payload -/
def markerAct (marker : Bool) (m : UInt8) : List Act := if marker then writeByte m else []

/-- vs.int8(i, marker): marker byte and value byte are two Write calls -/
def int8 (i : Int) (marker : Bool) : List Act :=
  markerAct marker int8Marker ++ writeByte (UInt8.ofNat (i % 256).toNat)

/-- vs.uint8(u, marker): with marker ONE 2-byte Write, without `writeByte` -/
def uint8 (u : Int) (marker : Bool) : List Act :=
  let b := UInt8.ofNat (u % 256).toNat
  if marker then [.write [uint8Marker, b]] else writeByte b

/-- vs.int16(i, marker) -/
def int16 (i : Int) (marker : Bool) : List Act :=
  markerAct marker int16Marker ++ [.write (twos 2 i)]

/-- vs.int32(i, marker) -/
def int32 (i : Int) (marker : Bool) : List Act :=
  markerAct marker int32Marker ++ [.write (twos 4 i)]

/-- vs.int64(i, marker) -/
def int64 (i : Int) (marker : Bool) : List Act :=
  markerAct marker int64Marker ++ [.write (twos 8 i)]

/-- Visitor.OnInt16 -/
def onInt16 (i : Int) : List Act :=
  if -128 ≤ i ∧ i ≤ 127 then int8 i true else int16 i true

/-- Visitor.OnInt32 -/
def onInt32 (i : Int) : List Act :=
  if -32768 ≤ i ∧ i ≤ 32767 then onInt16 i else int32 i true

/-- Visitor.OnInt64 -/
def onInt64 (i : Int) : List Act :=
  if -2147483648 ≤ i ∧ i ≤ 2147483647 then onInt32 i else int64 i true

/-- vs.onInt(i, marker): int8, then uint8 (0..255), int16, int32, int64 -/
def onInt (i : Int) (marker : Bool) : List Act :=
  if -128 ≤ i ∧ i ≤ 127 then int8 i marker
  else if 0 ≤ i ∧ i ≤ 255 then uint8 i marker
  else if -32768 ≤ i ∧ i ≤ 32767 then int16 i marker
  else if -2147483648 ≤ i ∧ i ≤ 2147483647 then int32 i marker
  else int64 i marker

/-- vs.writeLen -/
def writeLen (l : Int) : List Act := onInt l true

/-- vs.string(s, marker) -/
def string (s : Bytes) (marker : Bool) : List Act :=
  markerAct marker stringMarker ++ writeLen s.length ++ (if s.length == 0 then [] else [.write s])

/-- uintType -/
def uintType (u : Nat) : UInt8 :=
  if u ≤ 127 then int8Marker
  else if u ≤ 255 then uint8Marker
  else if u ≤ 32767 then int16Marker
  else if u ≤ 2147483647 then int32Marker
  else if u ≤ 9223372036854775807 then int64Marker
  else highPrecMarker

/-- maxNumType -/
def maxNumType (a b : UInt8) : UInt8 :=
  if a == highPrecMarker || b == highPrecMarker then highPrecMarker
  else if a == int64Marker || b == int64Marker then int64Marker
  else if a == int32Marker || b == int32Marker then int32Marker
  else if a == int16Marker || b == int16Marker then int16Marker
  else if a == uint8Marker || b == uint8Marker then uint8Marker
  else int8Marker

/-- strconv.AppendUint(…, u, 10) -/
def decimal (u : Nat) : Bytes := (toString u).toList.map fun c => UInt8.ofNat c.toNat

/-- vs.uint64HighPrec(u, marker): [marker], digit count via writeLen, digits -/
def uint64HighPrec (u : Nat) (marker : Bool) : List Act :=
  let b := decimal u
  markerAct marker highPrecMarker ++ writeLen b.length ++ [.write b]

/-- vs.uint64(u, t, marker) -/
def uint64 (u : Nat) (t : UInt8) (marker : Bool) : List Act :=
  if t == int8Marker then int8 u marker
  else if t == uint8Marker then uint8 u marker
  else if t == int16Marker then int16 u marker
  else if t == int32Marker then int32 u marker
  else if t == int64Marker then int64 u marker
  else uint64HighPrec u marker

/-- Visitor.OnUint64 (OnUint16, OnUint32, OnUint forward to it) -/
def onUint64 (u : Nat) : List Act := uint64 u (uintType u) true

/-- vs.float32(f, marker) -/
def float32 (bits : UInt32) (marker : Bool) : List Act :=
  markerAct marker float32Marker ++ [.write (beBytes 4 bits.toNat)]

/-- vs.float64(f, marker) -/
def float64 (bits : UInt64) (marker : Bool) : List Act :=
  markerAct marker float64Marker ++ [.write (beBytes 8 bits.toNat)]

/-- Visitor.OnBool -/
def onBool (b : Bool) : List Act := writeByte (if b then trueMarker else falseMarker)

/-- vs.optionalCount: push first; the count is written only for l > 0 -/
def optionalCount (l : Int) : List Act :=
  .push l :: (if l ≤ 0 then [] else writeByte countMarker ++ writeLen l)

/-- Visitor.OnArrayStart -/
def onArrayStart (l : Int) : List Act := writeByte arrStartMarker ++ optionalCount l

/-- Visitor.OnObjectStart -/
def onObjectStart (l : Int) : List Act := writeByte objStartMarker ++ optionalCount l

/-- Visitor.OnArrayFinished / OnObjectFinished, given the value `length.pop()` returns -/
def onFinished (popped : Int) (endMarker : UInt8) : List Act :=
  .pop :: (if popped ≤ 0 then writeByte endMarker else [])

/-- vs.onTypedStruct(s, t, count): one 4-byte Write, then the count -/
def onTypedStruct (s t : UInt8) (count : Nat) : List Act :=
  .write [s, typeMarker, t, countMarker] :: writeLen count

/-- vs.onArray -/
def onArray (t : UInt8) (count : Nat) : List Act := onTypedStruct arrStartMarker t count

/-- vs.onObject -/
def onObject (t : UInt8) (count : Nat) : List Act := onTypedStruct objStartMarker t count

/-- vs.onEmptyArray (the `done` case) -/
def onEmptyArray : List Act := [.write [arrStartMarker, arrEndMarker]]

/-- vs.onEmptyObject (the `done` case) -/
def onEmptyObject : List Act := [.write [objStartMarker, objEndMarker]]

/-- the common shape of the typed array methods: empty ⇒ `[]`, else header + elements -/
def typedArray {α : Type} (t : UInt8) (xs : List α) (elem : α → List Act) : List Act :=
  if xs.length == 0 then onEmptyArray else onArray t xs.length ++ xs.flatMap elem

/-- the common shape of the typed map methods (entries in the order of iteration) -/
def typedObject {α : Type} (t : UInt8) (ms : List (Bytes × α)) (elem : α → List Act) : List Act :=
  if ms.length == 0 then onEmptyObject
  else onObject t ms.length ++ ms.flatMap fun m => string m.1 false ++ elem m.2

/-- "find type": `minT = maxNumType(minT, uintType(v))` over all elements, from int8Marker -/
def minType (xs : List Int) : UInt8 :=
  xs.foldl (fun t v => maxNumType t (uintType v.toNat)) int8Marker

/-- the "find type" + "serialize" shape of OnUint16Array, OnUint32Array, OnUint64Array,
OnUintArray -/
def uintArray (xs : List Int) : List Act :=
  let minT := minType xs
  typedArray minT xs (fun v => uint64 v.toNat minT false)

/-- the same shape for OnUint16Object, OnUint32Object, OnUint64Object, OnUintObject -/
def uintObject (ms : List (Bytes × Int)) : List Act :=
  let minT := minType (ms.map (·.2))
  typedObject minT ms (fun v => uint64 v.toNat minT false)

/-! ### the typed array methods (ArrayValueVisitor) -/

/-- Visitor.OnStringArray -/
def onStringArray (xs : List Bytes) : List Act := typedArray stringMarker xs (string · false)
/-- Visitor.OnBoolArray: OnArrayStart, OnBool per element, OnArrayFinished (which pops the
length it pushed itself) -/
def onBoolArray (xs : List Bool) : List Act :=
  onArrayStart xs.length ++ xs.flatMap onBool ++ onFinished xs.length arrEndMarker
/-- Visitor.OnInt8Array -/
def onInt8Array (xs : List Int) : List Act := typedArray int8Marker xs (int8 · false)
/-- Visitor.OnInt16Array -/
def onInt16Array (xs : List Int) : List Act := typedArray int16Marker xs (int16 · false)
/-- Visitor.OnInt32Array -/
def onInt32Array (xs : List Int) : List Act := typedArray int32Marker xs (int32 · false)
/-- Visitor.OnInt64Array -/
def onInt64Array (xs : List Int) : List Act := typedArray int64Marker xs (int64 · false)
/-- Visitor.OnIntArray (`isInt64`: marker 'L', 8 bytes per element) -/
def onIntArray (xs : List Int) : List Act := typedArray int64Marker xs (int64 · false)
/-- Visitor.OnBytes -/
def onBytes (xs : List Int) : List Act := typedArray uint8Marker xs (uint8 · false)
/-- Visitor.OnUint8Array -/
def onUint8Array (xs : List Int) : List Act := typedArray uint8Marker xs (uint8 · false)
/-- Visitor.OnUint16Array -/
def onUint16Array (xs : List Int) : List Act := uintArray xs
/-- Visitor.OnUint32Array -/
def onUint32Array (xs : List Int) : List Act := uintArray xs
/-- Visitor.OnUint64Array -/
def onUint64Array (xs : List Int) : List Act := uintArray xs
/-- Visitor.OnUintArray -/
def onUintArray (xs : List Int) : List Act := uintArray xs
/-- Visitor.OnFloat32Array -/
def onFloat32Array (xs : List UInt32) : List Act := typedArray float32Marker xs (float32 · false)
/-- Visitor.OnFloat64Array -/
def onFloat64Array (xs : List UInt64) : List Act := typedArray float64Marker xs (float64 · false)

/-! ### the typed map methods (ObjectValueVisitor); entries in the order of iteration -/

/-- Visitor.OnStringObject -/
def onStringObject (ms : List (Bytes × Bytes)) : List Act := typedObject stringMarker ms (string · false)
/-- Visitor.OnBoolObject: onEmptyObject, else OnObjectStart, key + OnBool per entry,
OnObjectFinished -/
def onBoolObject (ms : List (Bytes × Bool)) : List Act :=
  if ms.length == 0 then onEmptyObject
  else onObjectStart ms.length ++ ms.flatMap (fun m => string m.1 false ++ onBool m.2)
    ++ onFinished ms.length objEndMarker
/-- Visitor.OnInt8Object -/
def onInt8Object (ms : List (Bytes × Int)) : List Act := typedObject int8Marker ms (int8 · false)
/-- Visitor.OnInt16Object -/
def onInt16Object (ms : List (Bytes × Int)) : List Act := typedObject int16Marker ms (int16 · false)
/-- Visitor.OnInt32Object -/
def onInt32Object (ms : List (Bytes × Int)) : List Act := typedObject int32Marker ms (int32 · false)
/-- Visitor.OnInt64Object -/
def onInt64Object (ms : List (Bytes × Int)) : List Act := typedObject int64Marker ms (int64 · false)
/-- Visitor.OnIntObject (`isInt64`) -/
def onIntObject (ms : List (Bytes × Int)) : List Act := typedObject int64Marker ms (int64 · false)
/-- Visitor.OnUint8Object -/
def onUint8Object (ms : List (Bytes × Int)) : List Act := typedObject uint8Marker ms (uint8 · false)
/-- Visitor.OnUint16Object -/
def onUint16Object (ms : List (Bytes × Int)) : List Act := uintObject ms
/-- Visitor.OnUint32Object -/
def onUint32Object (ms : List (Bytes × Int)) : List Act := uintObject ms
/-- Visitor.OnUint64Object -/
def onUint64Object (ms : List (Bytes × Int)) : List Act := uintObject ms
/-- Visitor.OnUintObject -/
def onUintObject (ms : List (Bytes × Int)) : List Act := uintObject ms
/-- Visitor.OnFloat32Object -/
def onFloat32Object (ms : List (Bytes × UInt32)) : List Act := typedObject float32Marker ms (float32 · false)
/-- Visitor.OnFloat64Object -/
def onFloat64Object (ms : List (Bytes × UInt64)) : List Act := typedObject float64Marker ms (float64 · false)

/-- dispatch of `XEv.numArr` on the element kind -/
def numArray : NumKind → List Int → List Act
  | .i8 => onInt8Array | .i16 => onInt16Array | .i32 => onInt32Array | .i64 => onInt64Array
  | .int => onIntArray | .byte => onBytes | .u8 => onUint8Array | .u16 => onUint16Array
  | .u32 => onUint32Array | .u64 => onUint64Array | .uint => onUintArray

/-- dispatch of `XEv.numObj` on the element kind (there is no byte map event; the harness
never sends one — treated as uint8) -/
def numObject : NumKind → List (Bytes × Int) → List Act
  | .i8 => onInt8Object | .i16 => onInt16Object | .i32 => onInt32Object | .i64 => onInt64Object
  | .int => onIntObject | .byte => onUint8Object | .u8 => onUint8Object | .u16 => onUint16Object
  | .u32 => onUint32Object | .u64 => onUint64Object | .uint => onUintObject

/-- Visitor.OnInt8 -/
def onInt8 (i : Int) : List Act := int8 i true
/-- Visitor.OnUint8 -/
def onUint8 (u : Int) : List Act := uint8 u true
/-- Visitor.OnByte: marker and value in ONE 2-byte Write -/
def onByte (b : Int) : List Act := [.write [charMarker, UInt8.ofNat (b % 256).toNat]]
/-- Visitor.OnNil -/
def onNil : List Act := writeByte nullMarker
/-- Visitor.OnString / OnStringRef (the empty string goes through `string(nil, true)`: same
writes) -/
def onString (s : Bytes) : List Act := string s true
/-- Visitor.OnKey / OnKeyRef -/
def onKey (s : Bytes) : List Act := string s false

/-- the basic scalar events -/
def scalarActs : Ev → List Act
  | .null => onNil
  | .bool b => onBool b
  | .str s => onString s
  | .key s => onKey s
  | .num .i8 v => onInt8 v
  | .num .i16 v => onInt16 v
  | .num .i32 v => onInt32 v
  | .num .i64 v => onInt64 v
  | .num .int v => onInt v true                                  -- OnInt
  | .num .u8 v => onUint8 v
  | .num .byte v => onByte v
  | .num _ v => onUint64 v.toNat                                 -- OnUint16/32/64, OnUint
  | .f32 b => float32 b true                                     -- OnFloat32
  | .f64 b => float64 b true                                     -- OnFloat64
  | _ => []

/-- actions of one (extended) event, given the current length stack (only
`OnArrayFinished/OnObjectFinished` look at it) -/
def acts (ls : LenStack) : XEv → List Act
  | .ev (.arrStart len _) => onArrayStart len
  | .ev (.objStart len _) => onObjectStart len
  | .ev .arrEnd => onFinished (ls.pop).2 arrEndMarker            -- OnArrayFinished
  | .ev .objEnd => onFinished (ls.pop).2 objEndMarker            -- OnObjectFinished
  | .ev e => scalarActs e
  | .strRef s => onString s
  | .keyRef s => onKey s
  | .boolArr xs => onBoolArray xs
  | .strArr xs => onStringArray xs
  | .numArr k xs => numArray k xs
  | .f32Arr xs => onFloat32Array xs
  | .f64Arr xs => onFloat64Array xs
  | .boolObj ms => onBoolObject ms
  | .strObj ms => onStringObject ms
  | .numObj k ms => numObject k ms
  | .f32Obj ms => onFloat32Object ms
  | .f64Obj ms => onFloat64Object ms

/-- ubjson.Visitor: the writer and the length stack (NewVisitor: both empty) -/
structure Enc where
  w : Writer := {}
  length : LenStack := {}
  deriving Repr, DecidableEq, Inhabited

/-- NewVisitor -/
def newVisitor (failFrom : Option Nat) : Enc := { w := { failFrom := failFrom } }

/-- run actions; stop at the first failed write -/
def exec (s : Enc) : List Act → Enc × Bool
  | [] => (s, true)
  | .write b :: rest =>
    match s.w.write b with
    | (w', true) => exec { s with w := w' } rest
    | (w', false) => ({ s with w := w' }, false)
  | .push n :: rest => exec { s with length := s.length.push n } rest
  | .pop :: rest => exec { s with length := (s.length.pop).1 } rest

/-- one extended event (ubjson.Visitor implements all of ExtVisitor natively) -/
def step (s : Enc) (x : XEv) : Enc × Bool := exec s (acts s.length x)

/-- a whole stream; stops at the first event that returns an error.  Result: final state,
index of the first failing event (none = all succeeded). -/
def run (s : Enc) (xs : List XEv) : Enc × Option Nat :=
  let rec go (s : Enc) (i : Nat) : List XEv → Enc × Option Nat
    | [] => (s, none)
    | x :: rest =>
      match step s x with
      | (s', true) => go s' (i + 1) rest
      | (s', false) => (s', some i)
  go s 0 xs

/-- bytes written by a never-failing encoder, from its initial state -/
def encAll (xs : List XEv) : Bytes := (run {} xs).1.w.out

end SF.Ubjson.Enc
