/-
  SF.Ubjson.Dec — mirror of ubjson/decode.go (pull decoder).

  The reader is the harness' `ChunkReader`: a script of chunks, each handed out in pieces of
  at most `len(buffer0)` bytes per `Read`; an empty chunk is a `(0, nil)` read; after the
  script `(0, io.EOF)` forever; `lastEOF` makes the last piece of the last chunk arrive
  together with `io.EOF` (which `Next` ignores because `n > 0`).  A byte-slice decoder
  (`NewBytesDecoder`) has `hasReader = false` and starts with the whole input in `buffer`.
-/
import SF.Ubjson.Parse
namespace SF.Ubjson.Dec
open SF SF.Ubjson SF.Ubjson.Parse

/-- harness ChunkReader -/
structure Reader where
  chunks : List Bytes := []
  lastEOF : Bool := false
  pending : Bytes := []
  deriving Repr, Inhabited

/-- ChunkReader.Read(p) with `len(p) = n`: new reader, bytes read, `err == io.EOF` -/
def Reader.read (r : Reader) (n : Nat) : Reader × Bytes × Bool :=
  let deliver (r : Reader) : Reader × Bytes × Bool :=
    let got := r.pending.take n
    let r := { r with pending := r.pending.drop n }
    (r, got, r.pending.isEmpty && r.chunks.isEmpty && r.lastEOF)
  if r.pending.isEmpty then
    match r.chunks with
    | [] => (r, [], true)
    | c :: rest =>
      let r := { r with pending := c, chunks := rest }
      if c.isEmpty then (r, [], false) else deliver r
  else deliver r

structure Dec where
  p : P := {}
  buffer : Bytes := []
  bufsize : Nat := 0              -- len(buffer0)
  hasReader : Bool := true        -- dec.in != nil
  reader : Reader := {}
  deriving Repr, Inhabited

/-- NewDecoder -/
def newDecoder (chunks : List Bytes) (lastEOF : Bool) (bufsize : Nat) : Dec :=
  { bufsize := bufsize, reader := { chunks := chunks, lastEOF := lastEOF } }

/-- NewBytesDecoder -/
def newBytesDecoder (b : Bytes) : Dec := { buffer := b, hasReader := false }

inductive NextRes
  | ok | eof | err (e : Err)
  deriving Repr, DecidableEq, Inhabited

/-- `if err := dec.p.finalize(); err != nil { return err }; return io.EOF` -/
def atEOF (d : Dec) : Dec × NextRes :=
  match finalize d.p with
  | (p, some e) => ({ d with p := p }, .err e)
  | (p, none) => ({ d with p := p }, .eof)

/-- Decoder.Next; fuel bounds the number of loop iterations -/
def next : Nat → Dec → Dec × NextRes
  | 0, d => (d, .err .outOfFuel)
  | fuel + 1, d =>
    let feedIt (d : Dec) : Dec × NextRes :=
      let r := feedUntil (fuelFor d.buffer) d.p d.buffer
      match r.err with
      | some e => ({ d with p := r.p }, .err e)
      | none =>
        let d := { d with p := r.p, buffer := r.rest }
        if r.done then (d, .ok) else next fuel d
    if d.buffer.isEmpty then
      if !d.hasReader then atEOF d
      else
        let (rd, got, eof) := d.reader.read d.bufsize
        let d := { d with reader := rd, buffer := got }
        -- `if n == 0 && err != nil`: the only error of the scripted reader is io.EOF
        if got.isEmpty && eof then atEOF d
        else feedIt d
    else feedIt d

/-- enough for every Read of the script plus the feed rounds in between -/
def nextFuel (d : Dec) : Nat :=
  2 * (d.buffer.length + d.reader.pending.length + d.reader.chunks.length
        + (d.reader.chunks.map List.length).sum) + 4

end SF.Ubjson.Dec
