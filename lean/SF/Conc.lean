/-
  SF.Conc — instances that own their state: any interleaving of their operations yields, per
  instance, what running alone yields.  `G` is the immutable global environment (package-level
  tables filled in `init`, read by everyone, written by no one).
-/
namespace SF.Conc

structure Machine (G : Type) where
  S : Type
  Op : Type
  Out : Type
  step : G → S → Op → S × Out

variable {G : Type} (M : Machine G)

/-- one instance running alone -/
def runAlone (g : G) (s : M.S) : List M.Op → List M.Out
  | [] => []
  | op :: ops => let (s', o) := M.step g s op; o :: runAlone g s' ops

/-- `n` instances, a schedule = the global order in which their operations happen -/
def runSched {n : Nat} (g : G) (st : Fin n → M.S) : List (Fin n × M.Op) → List (Fin n × M.Out)
  | [] => []
  | (i, op) :: rest =>
    let (s', o) := M.step g (st i) op
    (i, o) :: runSched g (fun j => if j = i then s' else st j) rest

def proj {n : Nat} {α : Type} (i : Fin n) (l : List (Fin n × α)) : List α :=
  l.filterMap fun p => if p.1 = i then some p.2 else none

end SF.Conc
