/-
  C08 — streaming transcoding between any two formats preserves the value.

  Proved here: CBOR → CBOR (the parser of SF/Cbor/Parse wired to the encoder of SF/Cbor/Enc),
  for every stream of supported items in ANY spelling (non-minimal widths, indefinite
  containers, byte strings, undefined): the target document is a valid CBOR document whose
  value is the source's value.  It is a corollary of the parser refinement (C05), the
  contract theorem (C09: the events are a well-formed tree with exact announcements — the
  precondition of the encoder theorem) and the encoder refinement (C07).  By the same
  composition with the UBJSON and JSON encoder theorems: CBOR → UBJSON (`cbor_to_ubjson`:
  valid UBJSON, same value up to the documented representation change, exactly the same when
  no number exceeds MaxInt64) and CBOR → JSON for float-free sources with UTF-8 strings
  (`cbor_to_json`).  UBJSON as SOURCE, from the UBJSON parser refinement (C06) and the bridge
  between the two UBJSON grammars (SF/Proofs/UbjBridge*.lean): `ubjson_to_ubjson` (exactly the
  source's value), `ubjson_to_cbor`, `ubjson_to_json` (float-free sources with UTF-8 strings).
  JSON as SOURCE (namespace `SF.PropsJsonSrc.C08`), from the JSON parser refinement (C04) and the
  facts that the parser delivers in-range int64 / uint64 / float64 events and well-formed UTF-8:
  `json_to_cbor`, `json_to_ubjson`, `json_to_json` (float-free texts).  All nine pairs are
  additionally decided by the executable mirrors composed exactly as in the README +
  correspondence + oracle (both documents decoded by the specifications), which also covers
  float-carrying sources into JSON.
-/
import SF.Props.C07
import SF.Props.C05
import SF.Proofs.CborTree
import SF.Proofs.UbjEncTop
import SF.Proofs.JsonEncTop
import SF.Proofs.UbjBridgeTop
import SF.Proofs.JsonSrcTop
namespace SF.Props.C08
open SF SF.Cbor SF.Cbor.Cst SF.Props.C01

theorem uintKind_range (w : W) (n : Nat) (h : w.fits n = true) : (uintKind w).inRange n = true := by
  cases w <;> simp_all [uintKind, NumKind.inRange, NumKind.lo, NumKind.hi, W.fits] <;>
    (apply decide_eq_true; omega)

theorem nintKind_range (w : W) (n : Nat) (h : w.fits n = true) (hn : n < 9223372036854775808) :
    (nintKind w n).inRange (-1 - (n : Int)) = true := by
  cases w <;> simp only [nintKind] <;> (try split) <;>
    simp_all [NumKind.inRange, NumKind.lo, NumKind.hi, W.fits] <;>
    (try constructor) <;> (try apply decide_eq_true) <;> omega

theorem bytes_small (bs : Bytes) : Enc.smallList (bs.map fun b => ETree.num .byte b.toNat) = true := by
  induction bs with
  | nil => rfl
  | cons b bs ih =>
    have := b.toNat_lt
    simp only [List.map_cons, Enc.smallList, Enc.small, ih, Bool.and_true]
    simp [NumKind.inRange, NumKind.lo, NumKind.hi]; (apply decide_eq_true; omega)

mutual
theorem tree_small (t : Item) (h : t.ok = true) : Enc.small t.tree = true := by
  match t with
  | .uint w n => simp only [Item.ok] at h; simp [Item.tree, Enc.small, uintKind_range w n h]
  | .nint w n =>
    simp only [Item.ok, Bool.and_eq_true, decide_eq_true_eq] at h
    simp [Item.tree, Enc.small, nintKind_range w n h.1 h.2]
  | .bytes w bs =>
    simp only [Item.ok, Bool.and_eq_true, decide_eq_true_eq] at h
    simp [Item.tree, Enc.small, bytes_small, h.2]
  | .text w bs =>
    simp only [Item.ok, Bool.and_eq_true, decide_eq_true_eq] at h
    simp [Item.tree, Enc.small, h.2]
  | .arr w xs =>
    simp only [Item.ok, Bool.and_eq_true, decide_eq_true_eq] at h
    simp [Item.tree, Enc.small, treeList_length, h.1.2, treeList_small xs h.2]
  | .arrIndef xs =>
    simp only [Item.ok, Bool.and_eq_true, decide_eq_true_eq] at h
    simp [Item.tree, Enc.small, treeList_length, h.1, treeList_small xs h.2]
  | .map w ms =>
    simp only [Item.ok, Bool.and_eq_true, decide_eq_true_eq] at h
    simp [Item.tree, Enc.small, treeMems_length, h.1.2, treeMems_small ms h.2]
  | .mapIndef ms =>
    simp only [Item.ok, Bool.and_eq_true, decide_eq_true_eq] at h
    simp [Item.tree, Enc.small, treeMems_length, h.1, treeMems_small ms h.2]
  | .fals | .tru | .null | .undef | .f32 _ | .f64 _ => simp [Item.tree, Enc.small]
theorem treeList_small (xs : List Item) (h : okList xs = true) : Enc.smallList (treeList xs) = true := by
  match xs with
  | [] => rfl
  | x :: xs' =>
    simp only [okList, Bool.and_eq_true] at h
    simp [treeList, Enc.smallList, tree_small x h.1, treeList_small xs' h.2]
theorem treeMems_small (ms : List (W × Bytes × Item)) (h : okMems ms = true) : Enc.smallMems (treeMems ms) = true := by
  match ms with
  | [] => rfl
  | (kw, k, v) :: ms' =>
    simp only [okMems, Bool.and_eq_true, decide_eq_true_eq] at h
    simp [treeMems, Enc.smallMems, tree_small v h.1.2, treeMems_small ms' h.2, h.1.1.2]
end

/-- C08, CBOR → CBOR: for every stream element `i` of the supported subset, in any
spelling, feeding the parser's events for `i.wire` to the CBOR encoder yields a valid CBOR
document that the reference decoder reads back completely and whose value is `i.value`. -/
theorem cbor_to_cbor (i : Item) (h : i.ok = true) :
    let evs := Parse.events (Parse.parse {} i.wire).1
    ∃ j : Item, j.ok = true ∧ (Enc.run {} (evs.map XEv.ev)).1.w.out = j.wire ∧
      decode j.wire = .ok (j, []) ∧ j.value = i.value := by
  have hp := C05.parse_supported [i] (by simp [okList, h])
  simp only [wireList, List.append_nil, eventsList] at hp
  simp only [hp, Parse.events, Parse.idle, List.reverse_reverse]
  rw [← tree_events]
  obtain ⟨j, hj1, hj2, hj3, hj4⟩ := C07.cbor_output_valid i.tree (tree_wf i) (tree_small i h)
  refine ⟨j, hj1, ?_, ?_, ?_⟩
  · simpa [cborBytes] using hj2
  · rw [← hj2]; exact hj3
  · rw [hj4, tree_value]

/-- non-vacuity: a foreign spelling (non-minimal widths, indefinite map, byte string) is
re-encoded with minimal widths and the same value; evaluated by the kernel -/
def exI : Item := .mapIndef [(.w1, [0x61], .arr .w2 [.uint .w8 5, .bytes .imm [1, 2]])]

example :
    exI.ok = true ∧
    (Enc.run {} ((Parse.events (Parse.parse {} exI.wire).1).map XEv.ev)).1.w.out =
      [0xbf, 0x61, 0x61, 0x82, 0x05, 0x82, 0x01, 0x02, 0xff] := by decide +kernel

end SF.Props.C08

/-! ## CBOR → UBJSON, CBOR → JSON -/

namespace SF.PropsX.C08
open SF SF.Cbor SF.Cbor.Cst SF.Props.C01

/-- C08, CBOR → UBJSON: for every supported CBOR item in any spelling, feeding the CBOR parser's
events to the UBJSON encoder yields the wire form of a well-formed UBJSON item that the UBJSON
reference decoder reads back completely as ONE value: the source's value up to the documented
representation change (an unsigned number above MaxInt64 becomes a high-precision string),
and EXACTLY the source's value when no number exceeds MaxInt64 -/
theorem cbor_to_ubjson (i : Item) (h : i.ok = true) :
    let evs := Parse.events (Parse.parse {} i.wire).1
    ∃ u : SF.Ubjson.Wire.UItem, u.ok = true ∧ SF.Ubjson.Enc.encAll (evs.map XEv.ev) = u.wire ∧
      SF.Ubjson.Cst.decodeStream (SF.Ubjson.Enc.encAll (evs.map XEv.ev)) = .ok [u.value] ∧
      SF.Ubjson.Enc.approx i.value u.value = true ∧
      (SF.Ubjson.Enc.noBig i.tree = true → u.value = i.value) := by
  have hp := SF.Props.C05.parse_supported [i] (by simp [okList, h])
  simp only [wireList, List.append_nil, eventsList] at hp
  simp only [hp, Parse.events, Parse.idle, List.reverse_reverse]
  rw [← tree_events]
  obtain ⟨u, h1, h2, h3, h4, h5⟩ := SF.Props.UbjEnc.ubj_output_valid i.tree (tree_wf i) (SF.Props.C08.tree_small i h)
  refine ⟨u, h1, h2, h3, ?_, ?_⟩
  · rw [← tree_value]; exact h4
  · intro hb; rw [h5 hb, tree_value]

/-- C08, CBOR → JSON: for every supported CBOR item without floats whose strings and keys are
valid UTF-8, feeding the CBOR parser's events to the JSON encoder succeeds and yields a JSON
text that the RFC 8259 reference decoder accepts as exactly one value: the source's value -/
theorem cbor_to_json (o : SF.Json.Enc.Enc) (i : Item) (h : i.ok = true)
    (hp : SF.Json.Enc.plain i.tree = true) (hu : SF.Json.Enc.utf8Tree i.tree = true)
    (hw : o.w = {}) (ha : o.inArray.current = false) :
    let evs := Parse.events (Parse.parse {} i.wire).1
    (SF.Json.Enc.run o (evs.map XEv.ev)).2 = (none, .ok) ∧
    ∃ v, SF.Json.Cst.decode (SF.Json.Enc.encAll o (evs.map XEv.ev)) = .ok [v] false ∧ v = i.value := by
  have hq := SF.Props.C05.parse_supported [i] (by simp [okList, h])
  simp only [wireList, List.append_nil, eventsList] at hq
  simp only [hq, Parse.events, Parse.idle, List.reverse_reverse]
  rw [← tree_events]
  obtain ⟨h1, v, h2, h3⟩ := SF.Props.JsonEnc.json_output_decodes o i.tree hp hu hw ha
  exact ⟨h1, v, h2, by rw [h3, tree_value]⟩

end SF.PropsX.C08


/-! ## UBJSON → UBJSON, UBJSON → CBOR, UBJSON → JSON -/

namespace SF.PropsUbjSrc.C08
open SF SF.Ubjson
open SF.Ubjson.Parse (P parse events free)
open SF.Ubjson.Wire (UItem)
open SF.Ubjson.Syn (Item sized noFloat utf8)

/-- C08, UBJSON → UBJSON: for EVERY grammatical UBJSON item `it` in any spelling (non-minimal
integer and length widths, no-ops, counted and typed containers incl. nested ones, plain
containers of any size; `free ≤ 1000000`: payload-free typed elements within the model's fuel
— the only side condition), feeding the parser's events to the UBJSON encoder yields the wire
form of a well-formed item that the reference decoder AND the parser read back as ONE value:
EXACTLY the source's value. -/
theorem ubjson_to_ubjson (it : Item) (h : it.ok = true) (hfree : free it ≤ 1000000) :
    let evs := events (parse {} it.wire).1
    ∃ u : UItem, u.ok = true ∧ Enc.encAll (evs.map XEv.ev) = u.wire ∧
      Cst.decodeStream (Enc.encAll (evs.map XEv.ev)) = .ok [u.value] ∧ u.value = it.value ∧
      (parse {} u.wire).2 = none ∧ build (events (parse {} u.wire).1) = some it.value :=
  SF.Props.UbjBridge.ubjson_to_ubjson it h hfree

/-- C08, UBJSON → CBOR (`sized`: no PLAIN container with 2^63 elements — the CBOR encoder
theorem's size condition; implied by `it.wire.length < 2^63`, `sized_of_short`): the CBOR
encoder's output for the parser's events is a well-formed RFC 7049 item that the CBOR reference
decoder reads back completely and whose value is the source's value. -/
theorem ubjson_to_cbor (it : Item) (h : it.ok = true) (hfree : free it ≤ 1000000) (hz : sized it = true) :
    let evs := events (parse {} it.wire).1
    ∃ j : SF.Cbor.Cst.Item, j.ok = true ∧ (SF.Cbor.Enc.run {} (evs.map XEv.ev)).1.w.out = j.wire ∧
      SF.Cbor.Cst.decode j.wire = .ok (j, []) ∧ j.value = it.value :=
  SF.Props.UbjBridge.ubjson_to_cbor it h hfree hz

theorem sized_of_short (it : Item) (h : it.wire.length < 9223372036854775808) : sized it = true :=
  SF.Props.UbjBridge.sized_of_short it h

/-- C08, UBJSON → JSON: for every grammatical UBJSON item without `d` / `D` values whose strings,
high-precision numbers and keys are well-formed UTF-8, feeding the parser's events to the JSON
encoder (any options, fresh writer) succeeds and yields a JSON text that the RFC 8259 reference
decoder accepts as exactly one value: the source's value. -/
theorem ubjson_to_json (o : SF.Json.Enc.Enc) (it : Item) (h : it.ok = true) (hfree : free it ≤ 1000000)
    (hf : noFloat it = true) (hu : utf8 it = true) (hw : o.w = {}) (ha : o.inArray.current = false) :
    let evs := events (parse {} it.wire).1
    (SF.Json.Enc.run o (evs.map XEv.ev)).2 = (none, .ok) ∧
    ∃ v, SF.Json.Cst.decode (SF.Json.Enc.encAll o (evs.map XEv.ev)) = .ok [v] false ∧ v = it.value :=
  SF.Props.UbjBridge.ubjson_to_json o it h hfree hf hu hw ha

/-- non-vacuity: a typed array inside a counted object, a high-precision number, a non-minimal
length; hypotheses of all three theorems hold -/
example :
    let it : Item := .objN .i [(.i, [0x6b], .arrT 0x69 .i [.int .i8 1, .int .i8 (-2)]), (.L, [], .str .l [0x68, 0x69])]
    it.ok = true ∧ free it ≤ 1000000 ∧ sized it = true ∧ noFloat it = true ∧ utf8 it = true := by
  decide +kernel

end SF.PropsUbjSrc.C08


/-! ## JSON → CBOR, JSON → UBJSON, JSON → JSON -/

namespace SF.PropsJsonSrc.C08
open SF SF.Json SF.Json.Parse SF.Json.ParseP SF.Json.Grammar
open SF.Ubjson.Enc (approx noBig)
open SF.Ubjson.Wire (UItem)

/-- C08, JSON → CBOR: for EVERY grammatical JSON text `t` (any nesting, any white space, every
escape spelling, integers in [-2^63, 2^64), floats; `J.sized`: every string value, key and
element count below 2^63 — implied by `t.bytes.length < 2^63`, `sized_of_short`), feeding the
parser's events to the CBOR encoder yields a well-formed RFC 7049 item that the CBOR reference
decoder reads back completely and whose value is the text's value.  No range condition on the
numbers is needed: the parser delivers int64 / uint64 / float64 events in range. -/
theorem json_to_cbor (t : Text) (h : t.good) (hz : t.v.sized = true) :
    let evs := events (parse {} t.bytes).1
    ∃ j : SF.Cbor.Cst.Item, j.ok = true ∧ (SF.Cbor.Enc.run {} (evs.map XEv.ev)).1.w.out = j.wire ∧
      SF.Cbor.Cst.decode j.wire = .ok (j, []) ∧ j.value = t.v.value :=
  SF.Props.JsonSrc.json_to_cbor t h hz

theorem sized_of_short (t : Text) (h : t.bytes.length < 9223372036854775808) :
    t.v.sized = true ∧ t.v.sizedS = true :=
  SF.Props.JsonSrc.sized_of_short t h

/-- C08, JSON → UBJSON: the UBJSON encoder's output for the parser's events is the wire form of a
well-formed UBJSON item that the UBJSON reference decoder AND the UBJSON parser read back as ONE
value: the text's value up to the documented representation change (an integer above MaxInt64
becomes a high-precision string), EXACTLY the text's value when no number exceeds MaxInt64. -/
theorem json_to_ubjson (t : Text) (h : t.good) (hz : t.v.sizedS = true) :
    let evs := events (parse {} t.bytes).1
    ∃ u : UItem, u.ok = true ∧ SF.Ubjson.Enc.encAll (evs.map XEv.ev) = u.wire ∧
      SF.Ubjson.Cst.decodeStream (SF.Ubjson.Enc.encAll (evs.map XEv.ev)) = .ok [u.value] ∧
      approx t.v.value u.value = true ∧ (noBig t.v.tree = true → u.value = t.v.value) ∧
      (SF.Ubjson.Parse.parse {} u.wire).2 = none ∧
      build (SF.Ubjson.Parse.events (SF.Ubjson.Parse.parse {} u.wire).1) = some u.value :=
  SF.Props.JsonSrc.json_to_ubjson t h hz

/-- C08, JSON → JSON: for EVERY grammatical JSON text without float tokens, feeding the parser's
events to the JSON encoder (any options, fresh writer) succeeds and yields a text that the RFC
8259 reference decoder accepts as exactly the source's value and that the JSON PARSER accepts
again with the same value.  No UTF-8 condition: the parser delivers well-formed UTF-8 only. -/
theorem json_to_json (o : SF.Json.Enc.Enc) (t : Text) (h : t.good) (hf : t.v.noFloat = true)
    (hw : o.w = {}) (ha : o.inArray.current = false) :
    let evs := events (parse {} t.bytes).1
    (SF.Json.Enc.run o (evs.map XEv.ev)).2 = (none, .ok) ∧
    (∃ v, SF.Json.Cst.decode (SF.Json.Enc.encAll o (evs.map XEv.ev)) = .ok [v] false ∧ v = t.v.value) ∧
    (parse {} (SF.Json.Enc.encAll o (evs.map XEv.ev))).2 = none ∧
    build (events (parse {} (SF.Json.Enc.encAll o (evs.map XEv.ev))).1) = some t.v.value :=
  SF.Props.JsonSrc.json_to_json o t h hf hw ha

/-- the source may arrive in ANY chunking: same events -/
theorem json_source_any_chunking (t : Text) (h : t.good) (cs : List Bytes) (hcs : cs.flatten = t.bytes) :
    (writeChunks {} cs).2 = none ∧ events (writeChunks {} cs).1 = events (parse {} t.bytes).1 :=
  SF.Props.JsonSrc.json_source_any_chunking t h cs hcs

/-- non-vacuity: the text of SF/Proofs/JsonSrcTop.lean (`exT`: MaxUint64, a lone surrogate, white
space) meets every hypothesis of the three theorems except `noBig` -/
example : SF.Props.JsonSrc.exT.good ∧ SF.Props.JsonSrc.exT.v.sized = true ∧
    SF.Props.JsonSrc.exT.v.sizedS = true ∧ SF.Props.JsonSrc.exT.v.noFloat = true :=
  ⟨SF.Props.JsonSrc.exT_good, by decide +kernel, by decide +kernel, by decide +kernel⟩

end SF.PropsJsonSrc.C08
