/-
  C03 — parsers survive arbitrary bytes: no panic, no hang, bounded memory; truncation is an
  error.

  Proved here for the CBOR parser mirror, over ALL byte strings, ALL chunkings and ALL parser
  states (reachable or not): no step ever indexes an empty slice (the only panics the Go
  code can raise), hence `Write`/`Parse`/`Decoder.Next` never panic; the partial-token
  buffer only ever grows by bytes actually received (no allocation on the strength of a
  length field); NO HANG: the loops of `Parse` / `Write` finish within a number of steps
  LINEAR in the input length, for every byte string and chunking (`parse_terminates`,
  `writeChunks_terminates`, `feedUntil_linear`: the mirror's fuel — the stand-in for "the Go
  loop is still running" — never runs out; each step consumes a byte or leaves a pending
  zero-length start); TRUNCATION IS AN ERROR: every proper non-empty prefix of every
  grammatical item is refused, through `Parse` and through every chunking
  (`truncated_is_error`, `truncated_is_error_chunks`), and more strongly the parser accepts
  EXACTLY the concatenations of complete items (`parse_accepts_iff`).  Proofs:
  SF/Proofs/CborCtx … CborTermTop.lean (a simulation between parser states and ghost
  contexts of open containers).  Wall-clock time and real heap are runtime facts (partial by
  nature, DESIGN §10); UBJSON / JSON: mirror (fuel-instrumented) + correspondence + oracle.

  JSON PARSER (namespace `SF.PropsJson.C03`): no panic (`Parse` from ANY state; `Write` from every
  state satisfying the invariant `Inv`, which holds for a new parser and is preserved by every
  `Write`, also after errors), no hang (2·len+2 loop iterations; `unquote` terminates),
  truncation (every proper non-empty prefix of every grammatical JSON text other than a bare
  number is an error, whole or chunked; a `finalize` that accepts means the parser is idle or
  holds a complete top-level number).

  UBJSON PARSER (namespace `SF.PropsUbjP.C03`): no panic (every entry point, every byte string and
  chunking, from every state satisfying the invariant `Inv` — true of a new parser, preserved
  by every step; kernel-checked counter-states show it is needed) and NO SPINNING: every loop
  iteration consumes input or delivers an event (`execStep_advances`), so the model's fuel can
  only be exhausted by an event flood — the recorded finding `[$Z#l…` — never by a loop that
  makes no progress (`feedUntil_no_spin`, `parse_no_hang`).  An a-priori bound on the number of
  events in terms of the input alone is NOT proved (and false as a linear bound: known finding).
-/
import SF.Proofs.CborNoPanic
import SF.Proofs.CborTermTop
import SF.Proofs.JsonParseTop
import SF.Proofs.UbjParseTop
namespace SF.Props.C03
open SF SF.Cbor SF.Cbor.Parse

/-- feedUntil (the loop of `Write` / `Parse` / `Decoder.Next`) NEVER PANICS: for every parser
state with a non-panic stored error, every input for which the loop is entered, and every
amount of fuel -/
theorem feedUntil_no_panic (f : Nat) (p : P) (b : Bytes) (h : b ≠ [] ∨ startPending p = true)
    (herr : p.err ≠ some .panic) :
    (feedUntil f p b).err ≠ some .panic ∧ (feedUntil f p b).p.err = p.err := by
  induction f generalizing p b with
  | zero => simp [feedUntil]
  | succ f ih =>
    simp only [feedUntil]
    have h1 := execStep_no_panic p b h herr
    have h2 := execStep_errf p b
    split
    · exact ⟨h1, h2⟩
    · split
      · exact ⟨h1, h2⟩
      · rename_i hc
        have hcont : (execStep p b).rest ≠ [] ∨ startPending (execStep p b).p = true := by
          simp only [Bool.not_eq_true, Bool.not_eq_false', Bool.or_eq_true, bne_iff_ne, ne_eq,
            List.length_eq_zero_iff, beq_iff_eq] at hc
          simp only [startPending, beq_iff_eq]
          exact hc
        have := ih (execStep p b).p (execStep p b).rest hcont (by rw [h2]; exact herr)
        exact ⟨this.1, by rw [this.2, h2]⟩

/-- `Parser.feed` never panics, on ANY byte string, from ANY such state -/
theorem feed_no_panic (fuel : Nat) (p : P) (b : Bytes) (herr : p.err ≠ some .panic) :
    (feed fuel p b).2 ≠ some .panic ∧ (feed fuel p b).1.err = p.err := by
  induction fuel generalizing p b with
  | zero => simp [feed]
  | succ fuel ih =>
    simp only [feed]
    split
    · exact ⟨by simp, rfl⟩
    · rename_i hne
      have hb : b ≠ [] := by intro hc; simp [hc] at hne
      have h := feedUntil_no_panic (fuelFor b) p b (Or.inl hb) herr
      cases he : (feedUntil (fuelFor b) p b).err with
      | some e =>
        simp only
        exact ⟨by rw [he] at h; exact h.1, h.2⟩
      | none =>
        simp only
        have := ih (feedUntil (fuelFor b) p b).p (feedUntil (fuelFor b) p b).rest (by rw [h.2]; exact herr)
        exact ⟨this.1, by rw [this.2, h.2]⟩

/-- C03 (no-panic clause) for the CBOR parser: `cborl.Parse` / `ParseString` on ANY byte
string never panics -/
theorem parse_no_panic (b : Bytes) : (Parse.parse {} b).2 ≠ some .panic := by
  unfold Parse.parse feedAll
  have h := feed_no_panic (2 * b.length + 2) {} b (by simp)
  cases he : (feed (2 * b.length + 2) {} b) with
  | mk q e =>
    rw [he] at h
    cases e with
    | some e => simpa using h.1
    | none => simp only [finalize]; split <;> simp

/-- … and so does any sequence of `Write` calls with ANY chunking followed by the end-of-input
check (the `Write*`/`ParseReader` entry points) -/
theorem writeChunks_no_panic (cs : List Bytes) (p : P) (herr : p.err ≠ some .panic) :
    (writeChunks p cs).2 ≠ some .panic := by
  induction cs generalizing p with
  | nil => simp only [writeChunks, finalize]; split <;> simp
  | cons c cs ih =>
    simp only [writeChunks, write, feedAll]
    have h := feed_no_panic (2 * c.length + 2) p c herr
    cases he : (feed (2 * c.length + 2) p c) with
    | mk q e =>
      rw [he] at h
      cases e with
      | some e => simpa using h.1
      | none => simp only; exact ih _ (by simp)

/-- bounded memory in the model: the only buffer the parser owns grows by at most the bytes
it was given (`collect` appends received bytes; nothing is allocated from a length field) -/
theorem collect_buffer_le (buffer b : Bytes) (n : Nat) :
    (collect buffer b n).1.length ≤ buffer.length + b.length := by
  unfold collect
  simp only []
  repeat' split
  all_goals simp_all [List.length_append, List.length_take, List.length_drop] <;> omega

/-! ### no hang, truncation -/

/-- C03 (no-hang clause) for cborl: `Parse` of ANY byte string terminates — the fuel that
stands for the Go `for` loops never runs out -/
theorem parse_terminates (b : Bytes) : (Parse.parse {} b).2 ≠ some .outOfFuel :=
  SF.Cbor.Term.parse_terminates b

/-- … and so does any sequence of `Write` calls, for ANY chunking -/
theorem writeChunks_terminates (cs : List Bytes) : (writeChunks {} cs).2 ≠ some .outOfFuel :=
  SF.Cbor.Term.writeChunks_terminates cs

/-- the explicit linear bound: from any state between two writes, `2·|b| + 2` iterations of
the inner loop always suffice for input `b` -/
theorem feedUntil_linear (p : P) (h : SF.Cbor.Term.Inv p) (herr : p.err = none) (b : Bytes) (hb : b ≠ [])
    (f : Nat) (hf : 2 * b.length + 2 ≤ f) : (feedUntil f p b).err ≠ some .outOfFuel :=
  SF.Cbor.Term.feedUntil_linear p h herr b hb f hf

/-- C03 (truncation clause) for cborl: EVERY proper non-empty prefix of EVERY grammatical
item is reported as an error by `Parse` … -/
theorem truncated_is_error (it : Cst.Item) (h : it.ok = true) (k : Nat) (hk0 : 0 < k) (hk : k < it.wire.length) :
    (Parse.parse {} (it.wire.take k)).2 ≠ none :=
  SF.Cbor.Term.truncated_is_error it h k hk0 hk

/-- … and by `Write*` + end of input / `ParseReader`, however the prefix is chunked -/
theorem truncated_is_error_chunks (it : Cst.Item) (h : it.ok = true) (k : Nat) (hk0 : 0 < k)
    (hk : k < it.wire.length) (cs : List Bytes) (hcs : cs.flatten = it.wire.take k) :
    (writeChunks {} cs).2 ≠ none :=
  SF.Cbor.Term.truncated_is_error_chunks it h k hk0 hk cs hcs

/-- the parser accepts EXACTLY the concatenations of complete grammatical items (`okw` =
`Item.ok` without the 2^63 bound on the element count of indefinite containers, which the
parser does not count) — nothing that ends in the middle of a value is ever accepted -/
theorem parse_accepts_iff (b : Bytes) :
    (Parse.parse {} b).2 = none ↔ ∃ its, SF.Cbor.Sim.okwList its = true ∧ b = Cst.wireList its :=
  SF.Cbor.Term.parse_accepts_iff b

/-- non-vacuity: inputs that used to panic or hang (tag, half float, reserved code, length
2^64-1) now yield plain errors; evaluated by the kernel -/
example : (Parse.parse {} [0xc0]).2 = some .tagUnsupported ∧ (Parse.parse {} [0xf9, 0, 0]).2 = some .halfFloatUnsupported ∧
    (Parse.parse {} [0x1c, 0]).2 = some .invalidCode ∧
    (Parse.parse {} [0x5b, 0xff, 0xff, 0xff, 0xff, 0xff, 0xff, 0xff, 0xff]).2 = some .lenRange ∧
    (Parse.parse {} [0x82, 0x01]).2 = some .incomplete := by
  decide +kernel

end SF.Props.C03

/-! ## JSON parser (SF/Json/Parse.lean; proofs SF/Proofs/Json{Basic,Step,Loop,Shape,Run,Eqv,Peel*,Chunk,Grammar,Trunc,ParseTop}.lean) -/

namespace SF.PropsJson.C03
open SF SF.Json SF.Json.Parse SF.Json.Float SF.Json.ParseP SF.Json.Grammar

/-- C03 (no panic) for JSON: `Parse` on ANY bytes from ANY parser state never panics … -/
theorem parse_no_panic (p : P) (b : Bytes) : (parse p b).2 ≠ some .panic :=
  SF.Json.ParseTop.parse_no_panic p b

/-- … the invariant of reachable states holds for a new parser and survives every `Write`
(also a failing one) … -/
theorem inv_init (failAt : Option Nat) : Inv (init failAt) := SF.Json.ParseTop.inv_init failAt
theorem inv_write (p : P) (b : Bytes) (h : Inv p) : Inv (write p b).1 := SF.Json.ParseTop.inv_write p b h

/-- … and under it no sequence of `Write` calls (any chunking, continuing after errors) and no
end-of-input check ever panics -/
theorem writes_no_panic (cs : List Bytes) (p : P) (h : Inv p) (herr : p.err ≠ some .panic) :
    Inv (cs.foldl (fun q c => (write q c).1) p) ∧
    (cs.foldl (fun q c => (write q c).1) p).err ≠ some .panic ∧
    ∀ c, (write (cs.foldl (fun q c => (write q c).1) p) c).2 ≠ some .panic :=
  SF.Json.ParseTop.writes_no_panic cs p h herr

theorem writeChunks_no_panic (cs : List Bytes) (p : P) (h : Inv p) (herr : p.err ≠ some .panic) :
    (writeChunks p cs).2 ≠ some .panic :=
  SF.Json.ParseTop.writeChunks_no_panic cs p h herr

/-- C03 (no hang) for JSON: the loops finish within 2·|b|+2 iterations; `Parse` from ANY state
and `Write` sequences from a new parser never run out of fuel; string unquoting terminates -/
theorem feedUntil_linear (p : P) (h : Inv p) (herr : p.err ≠ some .outOfFuel) (b : Bytes) (f : Nat)
    (hf : 2 * b.length + 2 ≤ f) : (feedUntil f p b).err ≠ some .outOfFuel :=
  SF.Json.ParseTop.feedUntil_linear p h herr b f hf

theorem parse_terminates (p : P) (b : Bytes) : (parse p b).2 ≠ some .outOfFuel :=
  SF.Json.ParseTop.parse_terminates p b

theorem writeChunks_terminates (cs : List Bytes) : (writeChunks {} cs).2 ≠ some .outOfFuel :=
  SF.Json.ParseTop.writeChunks_terminates cs

theorem unquote_terminates (inp : Bytes) : unquote inp ≠ .error .outOfFuel ∧ unquote inp ≠ .error .panic :=
  SF.Json.ParseTop.unquote_terminates inp

/-- C03 (truncation) for JSON: EVERY proper non-empty prefix of EVERY grammatical JSON text that
is not a bare number (recorded reading: a number at the very end of the input is complete for
this parser), optionally after white space, is an error for `Parse` … -/
theorem json_truncated_is_error (v : J) (hok : v.ok = true) (hnn : v.isNum = false) (ws z : Bytes)
    (hws : allWs ws = true) (hz : z <+: v.wire) (hne : z ≠ []) (hne2 : z ≠ v.wire) :
    (parse {} (ws ++ z)).2 ≠ none :=
  SF.Json.ParseTop.json_truncated_is_error v hok hnn ws z hws hz hne hne2

/-- … and for `Write*` + end of input, however the prefix is chunked -/
theorem json_truncated_is_error_chunks (v : J) (hok : v.ok = true) (hnn : v.isNum = false) (ws z : Bytes)
    (hws : allWs ws = true) (hz : z <+: v.wire) (hne : z ≠ []) (hne2 : z ≠ v.wire)
    (cs : List Bytes) (hcs : cs.flatten = ws ++ z) : (writeChunks {} cs).2 ≠ none :=
  SF.Json.ParseTop.json_truncated_is_error_chunks v hok hnn ws z hws hz hne hne2 cs hcs

/-- in state form: every reachable state is well-formed, and an accepting end-of-input check
means the parser is idle or holds a complete top-level number -/
theorem reachable_wf (failAt : Option Nat) (cs : List Bytes) :
    ParseP.WF (cs.foldl (fun q c => (write q c).1) (init failAt)) :=
  SF.Json.ParseTop.reachable_wf failAt cs

theorem truncated_is_incomplete (p : P) (h : ParseP.WF p) (hcs : p.currentState ≠ .startState)
    (hn : p.currentState ≠ .numberState) : (finalize p).2 = some .incomplete :=
  SF.Json.ParseTop.truncated_is_incomplete p h hcs hn

end SF.PropsJson.C03

/-! ## UBJSON parser (SF/Ubjson/Parse.lean; proofs SF/Proofs/Ubj{Item,Tree,NoPanic*,Num,Ref*,Prog*,ParseTop}.lean) -/

namespace SF.PropsUbjP.C03
open SF SF.Ubjson SF.Ubjson.Parse SF.Ubjson.Syn
open StateType StateStep

/-- C03 (no panic) for UBJSON: `Parse` on ANY bytes never panics … -/
theorem parse_no_panic (b : Bytes) : (parse {} b).2 ≠ some .panic := SF.Props.UbjParse.parse_no_panic b

theorem inv_init (failAt : Option Nat) : Inv (init failAt) := SF.Props.UbjParse.inv_init failAt

/-- … nor does any sequence of `Write` calls with ANY chunking followed by the end-of-input
check, from any state satisfying the invariant -/
theorem writeChunks_no_panic (cs : List Bytes) (p : P) (h : Inv p) (herr : p.err ≠ some .panic) :
    (writeChunks p cs).2 ≠ some .panic := SF.Props.UbjParse.writeChunks_no_panic cs p h herr

/-- … nor `ParseReader` with ANY read sizes -/
theorem parseReader_no_panic (reads : List Bytes) (p : P) (h : Inv p) (herr : p.err ≠ some .panic) :
    (parseReader p reads).2 ≠ some .panic := SF.Props.UbjParse.parseReader_no_panic reads p h herr

/-- one step: no panic, invariant preserved -/
theorem execStep_no_panic (p : P) (b : Bytes) (h : Inv p) (herr : p.err ≠ some .panic)
    (hg : b ≠ [] ∨ pending p = true) :
    (execStep p b).err ≠ some .panic ∧ Inv (execStep p b).p ∧ (execStep p b).p.err ≠ some .panic :=
  SF.Props.UbjParse.execStep_no_panic p b h herr hg

/-- C03 (no spinning) for UBJSON: if the inner loop ever exhausts `f` iterations from a new
parser, then `f ≤ 4·|b| + 2·(events delivered)`: every iteration consumed input or delivered an
event — the loop cannot spin without progress -/
theorem feedUntil_no_spin_fresh (f : Nat) (b : Bytes) (h : (feedUntil f {} b).err = some .outOfFuel) :
    f ≤ 4 * b.length + 2 * (feedUntil f {} b).p.evs.length :=
  SF.Props.UbjParse.feedUntil_no_spin_fresh f b h

/-- … so `Parse` can only run out of the model's fuel by delivering a million events (the
recorded finding: a typed container of payload-free elements with a huge count) -/
theorem parse_no_hang (b : Bytes) (h : (parse {} b).2 = some .outOfFuel) :
    1000000 ≤ (parse {} b).1.evs.length + b.length :=
  SF.Props.UbjParse.parse_no_hang b h

end SF.PropsUbjP.C03
