/-
  C10 — extended events mean exactly their expansion into basic events.

  CBOR encoder (native typed-array methods; typed maps and by-reference strings) proved in
  full: same state afterwards, and either identical bytes or (byte slices) a different
  spelling of the same value.  The wrapped-plain-visitor case is the definition of the
  adapters (`XEv.expand` mirrors array.go / map.go / string.go).  UBJSON / JSON / unfolder:
  mirror + correspondence + oracle.

  UBJSON ENCODER (namespace `SF.PropsUbj.C10`): every extended value event and its expansion
  into basic events are both accepted by the reference decoder with the SAME value (exactly the
  value of the expansion when no number exceeds MaxInt64); by-reference strings / keys issue
  the very same writes as their by-value events.
-/
import SF.Proofs.CborEnc
import SF.Proofs.CborDecode
import SF.Proofs.UbjEncTop
import SF.Json.Enc
import SF.Proofs.UnfConsTop
namespace SF.Props.C10
open SF SF.Cbor SF.Cbor.Cst SF.Cbor.Enc

/-- elements written one after the other by a never-failing writer -/
theorem exec_flatMap_writes {α : Type} {s : Enc} (hf : s.w.failFrom = none) (xs : List α) (f : α → List Bytes) :
    exec s (xs.flatMap fun a => (f a).map Act.write) = (s.emit (xs.flatMap f).flatten, true) := by
  have : (xs.flatMap fun a => (f a).map Act.write) = (xs.flatMap f).map Act.write := by
    induction xs with
    | nil => rfl
    | cons a xs ih => simp [List.flatMap_cons, ih]
  rw [this, exec_writes hf]

theorem execEvs_scalars {α : Type} {s : Enc} (hf : s.w.failFrom = none) (xs : List α) (g : α → Ev)
    (f : α → List Bytes) (hg : ∀ a ls, acts ls (.ev (g a)) = (f a).map Act.write) (more : List Ev) :
    execEvs s (xs.map g ++ more) = execEvs (s.emit (xs.flatMap f).flatten) more := by
  induction xs generalizing s with
  | nil => simp
  | cons a xs ih =>
    simp only [List.map_cons, List.cons_append]
    rw [execEvs_scalar hf (g a) (f a) (hg a), ih (by simpa using hf), emit_emit]
    simp [List.flatMap_cons]

/-- a typed array whose native method writes a definite array header and the elements
(every kind except byte / uint8): the SAME bytes and the SAME state as the expansion
`OnArrayStart(len, T), elements…, OnArrayFinished` -/
theorem typed_array_same {α : Type} (s : Enc) (hf : s.w.failFrom = none) (xs : List α) (g : α → Ev)
    (f : α → List Bytes) (bt : Nat)
    (hg : ∀ a ls, acts ls (.ev (g a)) = (f a).map Act.write) :
    exec s (.write (head majorArr xs.length) :: xs.flatMap (fun a => (f a).map Act.write)) =
      execEvs s (.arrStart xs.length bt :: xs.map g ++ [.arrEnd]) := by
  have hne : ¬ ((xs.length : Int) < 0) := by omega
  simp only [exec, write_ok hf]
  have e1 : ({ s with w := (s.emit (head majorArr xs.length)).w } : Enc) = s.emit (head majorArr xs.length) := rfl
  rw [e1, exec_flatMap_writes (by simpa using hf)]
  simp only [List.cons_append]
  rw [execEvs_cons]
  have hstart : exec s (acts s.length (.ev (.arrStart xs.length bt))) =
      ({ (s.emit (head majorArr xs.length)) with length := s.length.push xs.length }, true) := by
    simp only [acts, exec, write_ok hf, optLen, hne, if_false, Int.toNat_natCast]
  simp only [hstart]
  rw [execEvs_scalars (by simpa using hf) xs g f hg]
  rw [execEvs_cons]
  have hend : ∀ (s' : Enc), s'.length = s.length.push xs.length →
      exec s' (acts s'.length (.ev .arrEnd)) = ({ s' with length := s.length }, true) := by
    intro s' hl'; simp only [acts, hl', push_pop, hne, if_false, exec]
  rw [hend _ rfl]
  simp [execEvs, Enc.emit, List.append_assoc]

/-- C10 for the CBOR encoder, all typed arrays except byte slices and all typed maps and
by-reference strings: `step s x = execEvs s x.expand` — identical bytes, identical
result, identical state, at any position in any enclosing stream -/
theorem cbor_ext_same (s : Enc) (hf : s.w.failFrom = none) (x : XEv)
    (hx : ∀ xs, x ≠ .numArr .byte xs ∧ x ≠ .numArr .u8 xs) (hev : ∀ e, x ≠ .ev e) :
    step s x = execEvs s x.expand := by
  cases x with
  | ev e => exact absurd rfl (hev e)
  | strRef b =>
    simp only [step, acts, XEv.expand, execEvs, scalarActs]
    cases exec s (bytesActs majorText b) with
    | mk s' ok => cases ok <;> rfl
  | keyRef b =>
    simp only [step, acts, XEv.expand, execEvs, scalarActs]
    cases exec s (bytesActs majorText b) with
    | mk s' ok => cases ok <;> rfl
  | boolArr xs =>
    simp only [step, acts, XEv.expand]
    exact typed_array_same s hf xs Ev.bool (fun b => if b then [[codeTrue]] else [[codeFalse]]) BT.bool
      (by intro a ls; cases a <;> rfl) |> fun h => by
        have e : (xs.flatMap fun b => scalarActs (Ev.bool b)) =
            xs.flatMap (fun a => (if a then [[codeTrue]] else [[codeFalse]] : List Bytes).map Act.write) := by
          congr 1; funext b; cases b <;> rfl
        rw [e]; exact h
  | strArr xs =>
    simp only [step, acts, XEv.expand]
    have h := typed_array_same s hf xs Ev.str (fun b => [head majorText b.length, b]) BT.string
      (by intro a ls; rfl)
    exact h
  | numArr k xs =>
    have hk : (k == .byte || k == .u8) = false := by
      cases k <;> simp_all
    simp only [step, acts, XEv.expand, hk, Bool.false_eq_true, if_false]
    have h := typed_array_same s hf xs (Ev.num k)
      (fun v => if k.signed then [intHead v] else [head majorUint v.toNat]) k.baseType
      (by intro a ls; simp only [acts, scalarActs]; split <;> rfl)
    have e : (xs.flatMap fun v => scalarActs (Ev.num k v)) =
        xs.flatMap (fun v => (if k.signed then [intHead v] else [head majorUint v.toNat] : List Bytes).map Act.write) := by
      congr 1; funext v; simp only [scalarActs]; split <;> rfl
    rw [e]; exact h
  | f32Arr xs =>
    simp only [step, acts, XEv.expand]
    exact typed_array_same s hf xs Ev.f32 (fun b => [f32Bytes b]) BT.float32 (by intro a ls; rfl)
  | f64Arr xs =>
    simp only [step, acts, XEv.expand]
    exact typed_array_same s hf xs Ev.f64 (fun b => [f64Bytes b]) BT.float64 (by intro a ls; rfl)
  | boolObj ms => rfl
  | strObj ms => rfl
  | numObj k ms => rfl
  | f32Obj ms => rfl
  | f64Obj ms => rfl

/-- byte slices (`OnBytes`, `OnUint8Array`): written as a CBOR byte string; same state, and
the byte string and the expansion's array are two spellings of ONE value -/
theorem cbor_bytes_same_value (s : Enc) (hf : s.w.failFrom = none) (bs : Bytes)
    (hl : bs.length < 9223372036854775808) :
    let x : XEv := .numArr .byte (bs.map fun b => (b.toNat : Int))
    (step s x).1.length = s.length ∧ (step s x).2 = true ∧
    (step s x).1.w.out = s.w.out ++ (Item.bytes (minW bs.length) bs).wire ∧
    (Item.bytes (minW bs.length) bs).value = .arr (bs.map fun b => Val.int b.toNat) := by
  have hm : majorBytes = UInt8.ofNat (2 * 32) := by decide
  have hbs : (bs.map fun b => (b.toNat : Int)).map (fun v => UInt8.ofNat v.toNat) = bs := by
    induction bs with
    | nil => rfl
    | cons b bs ih =>
      simp only [List.map_cons, Int.toNat_natCast, UInt8.ofNat_toNat]
      rw [ih (by simp at hl; omega)]
  simp only [step, acts, beq_self_eq_true, Bool.true_or, if_true, bytesActs, hbs]
  have := exec_writes hf [head majorBytes bs.length, bs]
  simp only [List.map_cons, List.map_nil] at this
  rw [this]
  have hh : head majorBytes bs.length = Cst.head 2 (minW bs.length) bs.length := by
    rw [hm]; exact head_eq_cst 2 (by omega) _
  simp only [Enc.emit, Item.wire, Item.value, hh, List.flatten_cons, List.flatten_nil, List.append_nil]
  simp

/-- non-vacuity -/
example : step {} (.numArr .i16 [-200, 5]) = execEvs {} (XEv.expand (.numArr .i16 [-200, 5])) := by decide +kernel

end SF.Props.C10

/-! ## UBJSON encoder (SF/Ubjson/Enc.lean; proofs SF/Proofs/Ubj*.lean) -/

namespace SF.PropsUbj.C10
open SF SF.Ubjson SF.Ubjson.Enc SF.Ubjson.Wire
open SF.Cbor.Enc (small)
open SF.Props.UbjEnc

/-- C10 for UBJSON: an extended value event (typed array / typed map / bytes / by-reference
string) and its expansion into basic events are written as DIFFERENT bytes (optimized container
vs plain) that the reference decoder reads as the SAME value -/
theorem ubj_ext_same_value (x : XEv) (hx : isExtValue x = true) (hs : small (xTree x) = true) :
    ∃ v1 v2 : Val, Cst.decodeStream (encAll [x]) = .ok [v1] ∧
      Cst.decodeStream (encAll (x.expand.map XEv.ev)) = .ok [v2] ∧
      build x.expand = some (xTree x).value ∧
      approx (xTree x).value v1 = true ∧ approx (xTree x).value v2 = true ∧
      (noBig (xTree x) = true → v1 = (xTree x).value ∧ v2 = (xTree x).value) :=
  SF.Props.UbjEnc.ubj_ext_same_value x hx hs

theorem ubj_keyRef_same (s : Enc) (k : Bytes) : step s (.keyRef k) = step s (.ev (.key k)) := rfl
theorem ubj_strRef_same (s : Enc) (b : Bytes) : step s (.strRef b) = step s (.ev (.str b)) := rfl

end SF.PropsUbj.C10

/-! ## JSON encoder -/

namespace SF.PropsJson.C10
open SF SF.Json SF.Json.Enc

theorem execEvs_single (s : Enc) (e : Ev) : execEvs s [e] = exec s (acts s e) := by
  simp only [execEvs]
  rcases h : exec s (acts s e) with ⟨s', r⟩
  cases r <;> rfl

/-- C10 for the JSON encoder: EVERY extended event — typed arrays, typed maps, byte slices,
by-reference strings and keys — at any position (any encoder state `s`) has exactly the effect
of its expansion into basic events: the same bytes, the same result, the same final state, so
whatever is written next is unaffected -/
theorem json_ext_same (s : Enc) (x : XEv) : step s x = execEvs s x.expand := by
  cases x <;> first
    | rfl
    | (simp only [step, XEv.expand]; rw [execEvs_single]; rfl)
    | (simp only [step, XEv.expand]; rw [execEvs_single])

end SF.PropsJson.C10


/-! ## the Unfolder as CONSUMER (mirror SF/Gotype/Unfold.lean; proofs SF/Proofs/UnfCons{KC,KC2,Parse,Top}.lean) -/

namespace SF.PropsUnf.C10
open SF SF.Unf SF.Ops.Unf
open SF.UnfProofs.Cons (deliver deliverExpanded)

/-- C10 for the Unfolder — for EVERY extended event stream `xs` (well-formed or not), EVERY context
`c` of the Unfolder (ANY target type — primitives, slices, maps, pointers, structs, `interface{}` —,
any state of the six stacks, in the middle of a document or idle) whose key cache has its
representation invariant (C20), and every fuel: delivering `xs` has EXACTLY the outcome of
delivering its expansion — the same result (ok / the same error / panic), and the same final
context: the stored value, all six stacks, scratch buffers, cells, registry — except for the
CONTENTS of the key cache, which has seen the by-reference keys (`KCOk`: invariant and
configuration kept) -/
theorem ext_events_mean_expansion (fuel : Nat) (xs : List XEv) (c : Ctx) (hkc : Symbols.Inv c.keyCache) :
    ∃ kc', KCOk c.keyCache kc' ∧
      run fuel (deliver xs) c = (run fuel (deliverExpanded xs) c).setKC kc' :=
  SF.UnfProofs.Cons.ext_events_mean_expansion fuel xs c hkc

/-- … spelled out: accepted iff accepted (same stored value, same stack depths), refused iff
refused (same error), panics iff panics -/
theorem ext_events_same_outcome (fuel : Nat) (xs : List XEv) (c : Ctx) (hkc : Symbols.Inv c.keyCache) :
    (∀ c₁, run fuel (deliverExpanded xs) c = .ok () c₁ →
      ∃ c₂, run fuel (deliver xs) c = .ok () c₂ ∧ c₂.target = c₁.target ∧ c₂.depths = c₁.depths ∧
        c₂ = setKC c₁ c₂.keyCache ∧ KCOk c.keyCache c₂.keyCache) ∧
    (∀ e c₁, run fuel (deliverExpanded xs) c = .err e c₁ →
      ∃ c₂, run fuel (deliver xs) c = .err e c₂ ∧ c₂.target = c₁.target ∧ c₂ = setKC c₁ c₂.keyCache) ∧
    (∀ c₁, run fuel (deliverExpanded xs) c = .panic c₁ → ∃ c₂, run fuel (deliver xs) c = .panic c₂) ∧
    ((∃ c₂, run fuel (deliver xs) c = .ok () c₂) → ∃ c₁, run fuel (deliverExpanded xs) c = .ok () c₁) ∧
    ((∃ e c₂, run fuel (deliver xs) c = .err e c₂) → ∃ e c₁, run fuel (deliverExpanded xs) c = .err e c₁) ∧
    ((∃ c₂, run fuel (deliver xs) c = .panic c₂) → ∃ c₁, run fuel (deliverExpanded xs) c = .panic c₁) :=
  SF.UnfProofs.Cons.ext_events_same_outcome fuel xs c hkc

/-- C10 + C13 (generic clause) in the form of the `unf` oracle: for EVERY extended event stream
whose expansion is one well-formed document, after `SetTarget(&v)`, `var v interface{}`, BOTH the
stream and its expansion are accepted, store the SAME value — the specification's generic value
up to nil ≙ empty — and leave the Unfolder exactly as it was, up to the contents of the key cache -/
theorem ext_unfold_into_interface (f : Nat) (tbl : TypeTable) (v0 : GoVal) (xs : List XEv) (c : Ctx)
    (hwf : WF1 (expandAll xs) = true) (hb : btsValid (expandAll xs) = true) (hn : numsValid (expandAll xs) = true)
    (hidle : c.unfolder.stack = []) (hkc : Symbols.Inv c.keyCache) :
    ∃ tree c₀ c₁ c₂,
      Spec.sbuild (expandAll xs) = some tree ∧ Spec.expected tbl .ifc v0 tree = some (Spec.generic tree) ∧
      setTarget tbl .ifc v0 c = .ok c₀ ∧
      run (f + 1) (deliver xs) c₀ = .ok () c₁ ∧ run (f + 1) (deliverExpanded xs) c₀ = .ok () c₂ ∧
      c₁.target = c₂.target ∧
      Spec.norm c₁.target = Spec.norm (Spec.generic tree) ∧ Spec.sameVal c₁.target (Spec.generic tree) = true ∧
      c₁ = { c with target := c₁.target, env := tbl, keyCache := c₁.keyCache } ∧ KCOk c.keyCache c₁.keyCache :=
  SF.UnfProofs.Cons.ext_unfold_into_interface f tbl v0 xs c hwf hb hn hidle hkc

/-- the invariant of the key cache cannot be dropped: a cache `{enabled, max := 0}` (which no API
call produces: F28 repaired `EnableKeyCache(0)`) panics on a by-reference key while the expansion
is accepted; non-vacuity: the demo stream meets the hypotheses -/
example : WF1 (expandAll SF.UnfProofs.Cons.demoXs) = true ∧ btsValid (expandAll SF.UnfProofs.Cons.demoXs) = true ∧
    numsValid (expandAll SF.UnfProofs.Cons.demoXs) = true ∧
    (deliver SF.UnfProofs.Cons.demoXs).length = 14 := by decide +kernel

end SF.PropsUnf.C10
