/-
  C12 — folding a Go value emits exactly the value defined by the documented tag rules.

  Two independent executable definitions exist: the MIRROR of the code (SF/Gotype/Fold.lean:
  compile a type into a folder term as `getReflectFold`/`buildFieldFold`/… do, then interpret
  it) and the SPECIFICATION written from the documentation only (SF/Gotype/Rules.lean: the
  value a Go value folds to, or the refusal).  The mirror is tied to gotype/*.go by the
  differential correspondence (ops `fold`, `fold-seq`, `typeinfo`, `goval`, `foldifc`,
  `foldopts`); the specification is also evaluated as an oracle on what the implementation
  emitted.

  Proved here (proofs in SF/Proofs/Fold*.lean, SF/Proofs/Rec*.lean — 33 files):
    * `tag_rules_agree`, for EVERY tag string: the code's tag parser and the documented tag
      grammar decide the same four things — member name, dropped (`-` / `omit`), inlined
      (`inline` / `squash`), `omitempty` — whatever the order, repetition, spacing and
      spelling of the options;
    * `announced_length_rule`: a struct announces its field count only when no kept field is
      `omitempty` or inlined, else -1 (the repair of F18; C09 needs it);
    * `fold_agrees` / `fold_agrees_inputs`: for EVERY type of the universe `goodT` and every
      value of that type, when the rules give `r` the mirror returns ok and the events it
      delivered build a value `Rules.agrees` accepts for `r`;
    * `fold_refuses`: when the rules refuse, the mirror returns a Go error (never ok, never a
      panic, never fuel exhaustion);
    * `fold_total`: both at once;
    * `fold_agrees_rec`: the agreement for self-recursive named types.
  The universe (`goodT`, SF/Proofs/FoldUniv.lean): every scalar kind, interface{}, slices,
  arrays (incl. the typed-array fast paths), pointers, maps with string-kind keys under ANY map
  iteration order, structs with ARBITRARY tag strings (unexported, `-`, omit, names, omitempty
  incl. interface-typed fields, inline / squash, the inline+omitempty declaration error), named
  types without methods, chan / func / complex / uintptr (refused).  NOT in the universe —
  decided by oracle + correspondence only: `inline` fields of interface kind, named types with
  Fold / IsZero methods or a registered fold function (rule 2), mutually recursive members, the
  error direction for recursive types.  The numeric side conditions (`dynBound` = 499,
  `specDynBound` = 332, `runFuel` = 100000, `vcost ≤ 100000`) are the fixed fuels of the two
  executable definitions, proved sufficient — the Go code has no such bounds.
-/
import SF.Proofs.FoldTagRules
import SF.Proofs.FoldRulesTop
import SF.Proofs.FoldCustomTop
namespace SF.Props.C12
open SF SF.Gotype SF.Gotype.Fold SF.Gotype.Rules SF.FoldProofs

/-- C12 (tag rules): for EVERY tag string the code's tag parser and the documented tag grammar
agree on all four decisions: dropped (`-` or `omit`), and — unless the tag is `-` — the member
name, inlined (`inline`/`squash`), `omitempty`; independent of order, repetition, spacing and
unknown options -/
theorem tag_rules_agree (raw : String) :
    (Fold.parseTags raw).2.omitF = ((Rules.parseTag raw).dash || (Rules.parseTag raw).omit') ∧
    ((Rules.parseTag raw).dash = false →
      (Fold.parseTags raw).1 = (Rules.parseTag raw).name ∧
      (Fold.parseTags raw).2.squash = (Rules.parseTag raw).inline ∧
      (Fold.parseTags raw).2.omitEmpty = (Rules.parseTag raw).omitEmpty) :=
  SF.FoldTagRules.tag_rules_agree raw

/-- a struct folder announces a definite member count ONLY IF no kept field is `omitempty` or
inlined (their contribution is known only at fold time); otherwise it announces -1 -/
theorem announced_length_rule (fs : List Field) (n : Nat) :
    (Fold.structFoldLen fs n = -1 ∧
      ∃ f ∈ fs, (Fold.parseTags f.tag).2.omitF = false ∧
        ((Fold.parseTags f.tag).2.squash = true ∨ (Fold.parseTags f.tag).2.omitEmpty = true)) ∨
    (Fold.structFoldLen fs n = n ∧
      ∀ f ∈ fs, (Fold.parseTags f.tag).2.omitF = false →
        (Fold.parseTags f.tag).2.squash = false ∧ (Fold.parseTags f.tag).2.omitEmpty = false) :=
  SF.FoldTagRules.announced_length_rule fs n

/-- C12, agreement: for every good type `T` of depth ≤ 499, every value `v` of type `T` (`wt`:
shapes fit, one value per struct field, map keys distinct, dynamic types good) of depth ≤ 33331,
every map-order oracle that mentions no key twice inside one typed map (`hintOK`), registered
user folders or not, and a visitor that never fails: if the rules give `r`, the mirror returns
`ok` and the events it delivered build a value that `Rules.agrees` accepts for `r` (provided
`Rules.agrees` has the fuel to compare: `rcost r ≤ 100000`). -/
theorem fold_agrees (o : FoldOpts) (reg : Bool) (T : GoType) (v : GoVal) (r : RVal)
    (hp : goodT [] T = true) (hdt : tdepth T ≤ dynBound) (hw : wt T v = true)
    (hdv : 3 * vdepth v + 6 ≤ runFuel)
    (hfail : o.failAt = none) (hord : hintOK o.order)
    (hspec : Rules.foldR T v reg = .ok r) (hcost : rcost r ≤ 100000) :
    (impl o T v).res = .ok ∧ ∃ g, build (expandAll (impl o T v).evs) = some g ∧ Rules.agrees r g = true :=
  SF.FoldProofs.fold_agrees o reg T v r hp hdt hw hdv hfail hord hspec hcost

/-- the same with every side condition on the INPUTS (`vcost v`: a structural measure of the
value bounding the comparison fuel of whatever the rules give) -/
theorem fold_agrees_inputs (o : FoldOpts) (reg : Bool) (T : GoType) (v : GoVal) (r : RVal)
    (hp : goodT [] T = true) (hdt : tdepth T ≤ dynBound) (hw : wt T v = true)
    (hdv : 3 * vdepth v + 6 ≤ runFuel) (hcost : vcost v ≤ 100000)
    (hfail : o.failAt = none) (hord : hintOK o.order)
    (hspec : Rules.foldR T v reg = .ok r) :
    (impl o T v).res = .ok ∧ ∃ g, build (expandAll (impl o T v).evs) = some g ∧ Rules.agrees r g = true :=
  SF.FoldProofs.fold_agrees' o reg T v r hp hdt hw hdv hcost hfail hord hspec

/-- C12, refusal: if the rules REFUSE the value (an unsupported kind anywhere in the static type
or in a dynamic type that is reached, a map key type that is no string kind, `inline` together
with `omitempty`, `inline` on something that is no object) — and not merely because the
specification ran out of its own fuel — the mirror returns a Go error: never ok, never a panic,
never fuel exhaustion. -/
theorem fold_refuses (o : FoldOpts) (reg : Bool) (T : GoType) (v : GoVal) (e : RuleErr)
    (hp : goodT [] T = true) (hdt : tdepth T ≤ specDynBound) (hw : wt T v = true)
    (hsm : dynSmall v = true) (hdv : 3 * vdepth v + 6 ≤ runFuel)
    (hfail : o.failAt = none) (hord : hintOK o.order)
    (hspec : Rules.foldR T v reg = .error e) (hne : e ≠ .fuel) :
    ∃ e', (impl o T v).res = .err e' :=
  SF.FoldProofs.fold_refuses o reg T v e hp hdt hw hsm hdv hfail hord hspec hne

/-- both directions at once: on the universe the mirror's verdict is the rules' verdict -/
theorem fold_total (o : FoldOpts) (reg : Bool) (T : GoType) (v : GoVal)
    (hp : goodT [] T = true) (hdt : tdepth T ≤ specDynBound) (hw : wt T v = true)
    (hsm : dynSmall v = true) (hdv : 3 * vdepth v + 6 ≤ runFuel) (hcost : vcost v ≤ 100000)
    (hfail : o.failAt = none) (hord : hintOK o.order) :
    match Rules.foldR T v reg with
    | .ok r => (impl o T v).res = .ok ∧ ∃ g, build (expandAll (impl o T v).evs) = some g ∧ Rules.agrees r g = true
    | .error e => e = .fuel ∨ ∃ e', (impl o T v).res = .err e' := by
  have h := SF.FoldProofs.fold_total o reg T v hp hdt hw hsm hdv hcost hfail hord
  cases hs : Rules.foldR T v reg with
  | ok r => rw [hs] at h; exact h
  | error e => rw [hs] at h; exact h

/-- C12 for self-recursive named types (`ns`: menagerie members declared as good named types
the rules accept locally, `MenOK`; `FuelOK`: the mirror's compile fuel covers them): the
agreement for every type good over `ns` and every value of it of depth ≤ 24998 -/
theorem fold_agrees_rec {ns : List String} {D : Nat} (hM : FoldRec.MenOK ns D) (hD : D ≤ 1000)
    (hfuel : FoldRec.FuelOK ns D)
    (o : FoldOpts) (reg : Bool) (T : GoType) (v : GoVal) (r : RVal)
    (hp : FoldRec.goodR ns T = true) (hdt : tdepth T ≤ D) (hw : FoldRec.wtR ns D T v = true)
    (hdv : 4 * vdepth v + 8 ≤ runFuel) (hfail : o.failAt = none) (hord : hintOK o.order)
    (hspec : Rules.foldR T v reg = .ok r) (hcost : rcost r ≤ 100000) :
    (impl o T v).res = .ok ∧ ∃ g, build (expandAll (impl o T v).evs) = some g ∧ Rules.agrees r g = true :=
  SF.FoldProofs.fold_agrees_rec hM hD hfuel o reg T v r hp hdt hw hdv ⟨hfail, hord⟩ hspec hcost

/- non-vacuity, agreement:
`struct{A int; b string; C []string "n,omitempty"; D *struct{X bool} ",inline"}{5, "x", nil, &{true}}`
↦ `{"a": 5, "x": true}` (renamed / unexported / omitempty on an empty field / inlined pointer to
struct); the hypotheses hold and the conclusion is the theorem's -/
example : goodT [] Examples.T5 = true ∧ wt Examples.T5 Examples.v5 = true ∧
    Rules.foldR Examples.T5 Examples.v5 = .ok Examples.r5 ∧
    (impl {} Examples.T5 Examples.v5).res = .ok ∧
    ∃ g, build (expandAll (impl {} Examples.T5 Examples.v5).evs) = some g ∧ Rules.agrees Examples.r5 g = true :=
  ⟨stage_good 5 _ _ Examples.stage5, Examples.wt5, Examples.spec5,
   fold_agrees {} true _ _ _ (stage_good 5 _ _ Examples.stage5) (by decide +kernel) Examples.wt5
     (by decide +kernel) rfl hintOK_nil Examples.spec5 (by decide +kernel)⟩

/- non-vacuity, refusal: a channel inside a dynamic type (`[]interface{}{1, (chan int)(nil)}`) -/
example :
    let T : GoType := .slice .iface
    let v : GoVal := .slice [.iface (.int .int) (.int 1), .iface (.chan (.int .int)) .nilOther]
    goodT [] T = true ∧ wt T v = true ∧ dynSmall v = true ∧
      Rules.foldR T v = .error .unsupported ∧ ∃ e', (impl {} T v).res = .err e' := by
  intro T v
  have h1 : goodT [] T = true := by decide +kernel
  have h2 : wt T v = true := by decide +kernel
  have h3 : dynSmall v = true := by decide +kernel
  have h4 : Rules.foldR T v = .error .unsupported := rfl
  exact ⟨h1, h2, h3, h4, fold_refuses {} true T v _ h1 (by decide +kernel) h2 h3 (by decide +kernel) rfl
    hintOK_nil h4 (by decide)⟩

end SF.Props.C12


/-! ## rule 2 and rule 6e: custom folders and IsZeroers (proofs SF/Proofs/Cus*.lean, FoldCustomTop.lean) -/

namespace SF.PropsCustom.C12
open SF SF.Gotype SF.Gotype.Fold SF.Gotype.Rules SF.FoldProofs SF.FoldProofs.Custom

/-- C12 on the extended universe, agreement: for every type of `goodC reg` (everything in `goodT`
+ named types with `Fold` / `IsZero` methods on either receiver + registered fold functions when
`reg`), every value of it (`wtC reg`: as `wt`, and the custom code is defined on the value and
emits ONE value), user folders registered in the mirror iff the rules count them, a healthy
visitor: if the rules give `r` — a custom folder's value exactly as the folder emits it, an
omitempty field dropped iff `IsZero()`, the object of a custom folder inlined — the mirror returns
ok and its events build a value `Rules.agrees` accepts for `r` -/
theorem fold_agrees_custom (o : FoldOpts) (reg : Bool) (hreg : o.folders = reg) (T : GoType) (v : GoVal) (r : RVal)
    (hp : goodC reg [] T = true) (hdt : tdepth T ≤ dynBound) (hw : wtC reg T v = true)
    (hdv : 3 * vdepth v + 6 ≤ runFuel)
    (hfail : o.failAt = none) (hord : hintOK o.order)
    (hspec : Rules.foldR T v reg = .ok r) (hcost : rcost r ≤ 100000) :
    (impl o T v).res = .ok ∧ ∃ g, build (expandAll (impl o T v).evs) = some g ∧ Rules.agrees r g = true :=
  SF.FoldProofs.Custom.fold_agrees o reg hreg T v r hp hdt hw hdv hfail hord hspec hcost

/-- … refusal: if the rules refuse (also: `inline` on a custom folder whose value is no object),
the mirror returns a Go error — never ok, never a panic, never fuel exhaustion -/
theorem fold_refuses_custom (o : FoldOpts) (reg : Bool) (hreg : o.folders = reg) (T : GoType) (v : GoVal) (e : RuleErr)
    (hp : goodC reg [] T = true) (hdt : tdepth T ≤ specDynBound) (hw : wtC reg T v = true)
    (hsm : dynSmall v = true) (hdv : 3 * vdepth v + 6 ≤ runFuel)
    (hfail : o.failAt = none) (hord : hintOK o.order)
    (hspec : Rules.foldR T v reg = .error e) (hne : e ≠ .fuel) :
    ∃ e', (impl o T v).res = .err e' :=
  SF.FoldProofs.Custom.fold_refuses o reg hreg T v e hp hdt hw hsm hdv hfail hord hspec hne

/-- the universe of the first block is a sub-universe -/
theorem universe_extends (reg : Bool) (T : GoType) (v : GoVal) (hp : goodT [] T = true) (hw : wt T v = true) :
    goodC reg [] T = true ∧ wtC reg T v = true :=
  SF.FoldProofs.Custom.universe_extends reg T v hp hw

/-- non-vacuity: `struct{V FV; P *FP; Z ZV "n,omitempty"; I FV ",inline"}` with `Z = ZV{0}` — a
folder on the value receiver as a field, one on the pointer receiver behind a pointer, an omitempty
field dropped through `IsZero()`, the object of a custom folder inlined: in the universe, the rules
give a value -/
example : goodC true [] Examples.TC = true ∧ wtC true Examples.TC Examples.vC = true ∧
    Rules.foldR Examples.TC Examples.vC = .ok Examples.rC :=
  ⟨Examples.goodTC, Examples.wtTC 0, Examples.specC⟩

end SF.PropsCustom.C12
