/-
  C20 — the unfolder's key cache never changes results, for any capacity.

  Property theorems only (helper lemmas: SF/Proofs/Symbols.lean).  The model is the mirror
  of gotype/symbols.go in SF/Gotype/Symbols.lean; `get c k` is what the map unfolders pass
  to `OnKey` for a by-reference key (`u.OnKey(ctx, ctx.keyCache.get(key))`), and without a
  cache they pass `string(key)`, i.e. `k` itself.
-/
import SF.Proofs.Symbols
import SF.Proofs.UnfGenericTop
namespace SF.Props.C20
open SF SF.Symbols

/-- One `get` on any cache satisfying the representation invariant: no panic, the returned
string is the key itself, the invariant is preserved. -/
theorem get_returns_key (c : Cache) (k : Bytes) (hi : Inv c) :
    ∃ c', Symbols.get c k = .ok (c', k) ∧ Inv c' ∧ c'.enabled = c.enabled ∧ c'.max = c.max := by
  unfold Symbols.get
  by_cases he : c.enabled = true
  · simp only [he, Bool.not_true, Bool.false_eq_true, if_false]
    by_cases hk : k ∈ c.m
    · obtain ⟨h1, h2⟩ := lookup_hit hi hk
      exact ⟨_, by rw [h1], h2, by simp [he], rfl⟩
    · rw [lookup_miss hk]
      obtain ⟨c', h1, h2, h3, h4, _⟩ := add_ok hi he hk
      exact ⟨c', by simp [h1], h2, by simp [h3, he], h4⟩
  · have he' : c.enabled = false := by simpa using he
    exact ⟨c, by simp [he'], hi, rfl, rfl⟩

/-- C20, main statement: for EVERY capacity (negative, zero, smaller than the number of
distinct keys, …) and EVERY history of by-reference keys, the cache never panics and hands
`OnKey` exactly the keys it was given — i.e. unfolding with the cache enabled is
unfolding without it. -/
theorem cache_transparent (cap : Int) (ks : List Bytes) :
    ∃ c', run (init cap) ks = .ok (c', ks) ∧ Inv c' := by
  suffices h : ∀ (c : Cache), Inv c → ∃ c', run c ks = .ok (c', ks) ∧ Inv c' from
    h _ (inv_init cap)
  induction ks with
  | nil => intro c hi; exact ⟨c, rfl, hi⟩
  | cons k ks ih =>
    intro c hi
    obtain ⟨c1, h1, hi1, _, _⟩ := get_returns_key c k hi
    obtain ⟨c2, h2, hi2⟩ := ih c1 hi1
    exact ⟨c2, by simp [run, h1, h2], hi2⟩

/-- bounded size: an enabled cache never holds more than `max` keys, and never a key twice -/
theorem cache_bounded (cap : Int) (ks : List Bytes) (c' : Cache) (vs : List Bytes)
    (h : run (init cap) ks = .ok (c', vs)) :
    c'.lst.Nodup ∧ (c'.enabled = true → (c'.lst.length : Int) ≤ c'.max) ∧
    (c'.enabled = false → c'.lst = []) := by
  obtain ⟨c'', h1, hi⟩ := cache_transparent cap ks
  rw [h1] at h
  injection h with h
  injection h with h2 _
  subst h2
  exact ⟨hi.ndl, hi.bound, fun he => (hi.dis he).2⟩

/-- refinement of one step to the textbook LRU (hit: move to back; miss below capacity:
append; miss at capacity: evict the oldest) -/
theorem get_refines_lru (c : Cache) (k : Bytes) (hi : Inv c) (he : c.enabled = true)
    (c' : Cache) (v : Bytes) (h : Symbols.get c k = .ok (c', v)) :
    c'.lst = specGet c.max.toNat c.lst k := by
  have hpos := hi.pos he
  have hcap : c.max.toNat ≠ 0 := by omega
  unfold Symbols.get at h
  simp only [he, Bool.not_true, Bool.false_eq_true, if_false] at h
  unfold specGet
  simp only [hcap, if_false]
  by_cases hk : k ∈ c.m
  · obtain ⟨h1, _⟩ := lookup_hit hi hk
    rw [h1] at h
    injection h with h; injection h with h _
    have : k ∈ c.lst := (hi.same k).mp hk
    simp [this, ← h]
  · rw [lookup_miss hk] at h
    obtain ⟨c1, h1, _, _, _, h5⟩ := add_ok hi he hk
    simp only [h1] at h
    injection h with h; injection h with h _
    subst h
    have hnc : c.lst.contains k = false := by
      cases hc : c.lst.contains k
      · rfl
      · exact absurd ((hi.same k).mpr (List.contains_iff_mem.mp hc)) hk
    have hb := hi.bound he
    rw [h5]
    simp only [hnc, Bool.false_eq_true, if_false]
    by_cases hfull : (c.lst.length : Int) = c.max
    · have : ¬ c.lst.length < c.max.toNat := by omega
      simp [hfull, this]
    · have : c.lst.length < c.max.toNat := by omega
      have hfl : ((c.lst.length : Int) == c.max) = false := by simpa using hfull
      simp [hfl, this]

/-- non-vacuity: a history with hits, misses, an eviction and a re-insertion after
eviction on a capacity-2 cache, evaluated by the kernel; and capacity 0. -/
example :
    run (init 2) [[1], [2], [1], [3], [2]] =
      .ok ({ enabled := true, m := [[3], [2]], lst := [[3], [2]], max := 2 },
           [[1], [2], [1], [3], [2]]) := by
  decide

example : run (init 0) [[7], [7], [8]] = .ok ({}, [[7], [7], [8]]) := by decide

end SF.Props.C20

/-! ## the cache inside the Unfolder (mirror SF/Gotype/Unfold.lean; proofs SF/Proofs/UnfGen*.lean) -/

namespace SF.PropsUnf.C20
open SF SF.Unf

/-- C20 at the level of the Unfolder: unfolding ANY well-formed object into a
`map[string]interface{}` target (nil or already holding members) yields the SAME map whatever
key cache the Unfolder carries — disabled, or enabled with ANY capacity and ANY contents left
by earlier documents (hits, misses, evictions) — with keys delivered by value or by reference:
two idle Unfolders that differ ONLY in their key cache end with equal targets -/
theorem cache_does_not_change_unfolded_map (f : Nat) (tbl : TypeTable) (v0 : GoVal) (et : GoType)
    (olds : List (Bytes × GoVal)) (l : Int) (bt : Nat) (ms : List (Bool × Bytes × UTree)) (c : Ctx)
    (kc₁ kc₂ : Symbols.Cache)
    (hv0 : v0 = .mapNil et ∧ olds = [] ∨ v0 = .map et olds)
    (hwf : (UTree.obj l bt ms).wf = true) (hidle : c.unfolder.stack = [])
    (h1 : Symbols.Inv kc₁) (h2 : Symbols.Inv kc₂) :
    ∃ a₀ a₁ b₀ b₁,
      setTarget tbl (.map .ifc) v0 { c with keyCache := kc₁ } = .ok a₀ ∧
      run (f + 1) (UTree.obj l bt ms).events a₀ = .ok () a₁ ∧
      setTarget tbl (.map .ifc) v0 { c with keyCache := kc₂ } = .ok b₀ ∧
      run (f + 1) (UTree.obj l bt ms).events b₀ = .ok () b₁ ∧
      a₁.target = b₁.target := by
  obtain ⟨a0, ka, ha0, _, hra, _⟩ :=
    unfold_into_map f tbl v0 et olds l bt ms { c with keyCache := kc₁ } hv0 hwf hidle h1
  obtain ⟨b0, kb, hb0, _, hrb, _⟩ :=
    unfold_into_map f tbl v0 et olds l bt ms { c with keyCache := kc₂ } hv0 hwf hidle h2
  exact ⟨a0, _, b0, _, ha0, hra, hb0, hrb, rfl⟩

/-- … and likewise for an `interface{}` target (nested generic maps at any depth) -/
theorem cache_does_not_change_unfolded_value (f : Nat) (tbl : TypeTable) (v0 : GoVal) (t : UTree) (c : Ctx)
    (kc₁ kc₂ : Symbols.Cache) (hwf : t.wf = true) (hidle : c.unfolder.stack = [])
    (h1 : Symbols.Inv kc₁) (h2 : Symbols.Inv kc₂) :
    ∃ a₀ a₁ b₀ b₁,
      setTarget tbl .ifc v0 { c with keyCache := kc₁ } = .ok a₀ ∧ run (f + 1) t.events a₀ = .ok () a₁ ∧
      setTarget tbl .ifc v0 { c with keyCache := kc₂ } = .ok b₀ ∧ run (f + 1) t.events b₀ = .ok () b₁ ∧
      a₁.target = b₁.target := by
  obtain ⟨a0, ka, ha0, _, hra⟩ := unfold_into_interface f tbl v0 t { c with keyCache := kc₁ } hwf hidle h1
  obtain ⟨b0, kb, hb0, _, hrb⟩ := unfold_into_interface f tbl v0 t { c with keyCache := kc₂ } hwf hidle h2
  exact ⟨a0, _, b0, _, ha0, hra, hb0, hrb, rfl⟩

/-- the hypothesis is met by every cache `EnableKeyCache(n)` builds, for every n (also n ≤ 0) -/
theorem enabled_cache_inv (n : Int) : Symbols.Inv (Symbols.init n) := Symbols.inv_init n

end SF.PropsUnf.C20
