/-
  C01 — encode-then-decode preserves every value.

  Property theorems: the CBOR and the UBJSON instance are proved in full (encoder mirror →
  bytes → parser mirror → events → value); the JSON instance is proved in two halves that meet
  at the RFC 8259 reference decoder (C07 `json_output_decodes`: the encoder's text decodes to
  the value; C04 `json_reads_value`: the parser reads every grammatical text as the value the
  reference gives) and is additionally decided by correspondence + oracle (op `rt`).
  A "well-formed event stream describing one value" is the event sequence of a
  contract-conforming tree (`ETree`, SF/Tree.lean): announced lengths are -1 or exact, every
  number lies in the range of its Go kind (`small`).
-/
import SF.Proofs.CborEnc
import SF.Proofs.CborTop
import SF.Proofs.UbjBridgeTop
import SF.Proofs.JsonSrcTop
namespace SF.Props.C01
open SF SF.Cbor SF.Cbor.Cst

/-- what the CBOR encoder writes for a tree, from its initial state -/
def cborBytes (t : ETree) : Bytes := (Enc.run {} (t.events.map XEv.ev)).1.w.out

theorem cbor_encode (t : ETree) (hw : t.wf = true) (hs : Enc.small t = true) :
    Enc.run {} (t.events.map XEv.ev) = (Enc.Enc.emit {} (Enc.toItem t).wire, none) := by
  have h := Enc.enc_tree t hw hs {} rfl []
  simp only [List.append_nil, Enc.execEvs] at h
  exact Enc.run_evs _ _ _ h

/-- C01 for CBOR: for EVERY well-formed event stream describing one value (any nesting and
shape, every scalar kind with any in-range value incl. all width boundaries, all float bit
patterns, arbitrary byte strings, empty / duplicate / arbitrary keys, announced and unknown
lengths), the bytes written by the CBOR encoder are accepted by the CBOR parser, which
delivers events describing the SAME value (`build`): identical nesting, key order, strings
byte for byte, integers exactly, floats bit-exactly. -/
theorem cbor_roundtrip (t : ETree) (hw : t.wf = true) (hs : Enc.small t = true) :
    ∃ p, Parse.parse {} (cborBytes t) = (p, none) ∧ build (Parse.events p) = some t.value := by
  have henc : cborBytes t = (Enc.toItem t).wire := by
    simp [cborBytes, cbor_encode t hw hs, Enc.Enc.emit]
  have hok := Enc.toItem_ok t hs
  have hp := C05_parse (Enc.toItem t) hok
  refine ⟨_, by rw [henc]; exact hp, ?_⟩
  simp only [Parse.events, Parse.idle, List.reverse_reverse]
  rw [← tree_events, build_events, tree_value, Enc.toItem_value t hs]
where
  C05_parse (i : Item) (h : i.ok = true) :
      Parse.parse {} i.wire = (Parse.idle i.events.reverse, none) := by
    have hf := Parse.feed_items [i] (by simp [okList, h]) [] (2 * i.wire.length + 2) (by simp)
    simp only [wireList, List.append_nil, eventsList] at hf
    have hidle : (({} : Parse.P)) = Parse.idle [] := rfl
    simp only [Parse.parse, Parse.feedAll, hidle, hf]
    simp +decide [Parse.finalize, Parse.idle]

/-- non-vacuity: a tree with width-boundary integers, an empty key, unknown and announced
lengths, a NaN payload; the round trip evaluated by the kernel -/
def exT : ETree :=
  .obj (-1) 0 [([], .arr 3 0 [.num .i16 (-200), .num .u64 18446744073709551615, .f64 0x7ff8000000000123]),
               ([0xff], .str [0, 0x80])]

example :
    exT.wf = true ∧ Enc.small exT = true ∧
      (Parse.parse {} (cborBytes exT)).2 = none ∧
      (match build (Parse.events (Parse.parse {} (cborBytes exT)).1) with
       | some v => v == exT.value
       | none => false) = true := by
  decide +kernel

end SF.Props.C01


/-! ## UBJSON -/
namespace SF.PropsUbj.C01
open SF SF.Ubjson
open SF.Ubjson.Parse (P parse events)
open SF.Ubjson.Enc (approx noBig XTree)
open SF.Cbor.Enc (small)
open SF.Props.UbjEnc (ubjBytes)

/-- C01 for UBJSON: for EVERY contract-conforming event tree `t` (`ETree.wf`; numbers in the range
of their Go kind and announced lengths below 2^63: `small`, the side condition shared with the
CBOR instance) — any nesting and shape, every scalar kind, all float bit patterns, arbitrary
byte strings and keys, announced and unknown lengths, NO bound on the size of the document —
the bytes the UBJSON encoder writes are accepted by the UBJSON parser, which ends in its idle
state having delivered ONE contract-conforming document (`WF1`) whose value `v` is the value of
`t` up to the format's documented representation change (`approx`: an unsigned number above
MaxInt64 arrives as its decimal string — recorded under C11 as a known finding), and EXACTLY the
value of `t` when no number exceeds MaxInt64.  The reference decoder reads the same `v`. -/
theorem ubj_roundtrip (t : ETree) (hw : t.wf = true) (hs : small t = true) :
    ∃ (p : P) (v : Val), parse {} (ubjBytes t) = (p, none) ∧
      build (events p) = some v ∧ WF1 (events p) = true ∧
      approx t.value v = true ∧ (noBig t = true → v = t.value) ∧
      Cst.decodeStream (ubjBytes t) = .ok [v] ∧
      (∃ vt, p = { evs := p.evs, valueType := vt }) :=
  SF.Props.UbjBridge.ubj_roundtrip t hw hs

/-- … the same for the EXTENDED events (typed arrays / maps of every element kind, by-reference
strings and keys): the encoder's bytes for `T.events` round-trip to the value of the expansion -/
theorem ubj_roundtrip_ext (T : XTree) (hl : T.leavesOk = true) (hw : T.expand.wf = true)
    (hs : small T.expand = true) :
    build (expandAll T.events) = some T.expand.value ∧
    ∃ (p : P) (v : Val), parse {} (Enc.encAll T.events) = (p, none) ∧
      build (events p) = some v ∧ WF1 (events p) = true ∧
      approx T.expand.value v = true ∧ (noBig T.expand = true → v = T.expand.value) ∧
      Cst.decodeStream (Enc.encAll T.events) = .ok [v] ∧
      (∃ vt, p = { evs := p.evs, valueType := vt }) :=
  SF.Props.UbjBridge.ubj_roundtrip_ext T hl hw hs

/-- `small` cannot be dropped: `OnInt8(300)` is contract-conforming as an event but outside the
range of its kind; the encoder writes one byte and the document reads back as 44 -/
example : (ETree.num .i8 300).wf = true ∧ small (.num .i8 300) = false ∧
    (match build (events (parse {} (ubjBytes (.num .i8 300))).1) with
     | some v => v == .int 44
     | none => false) = true := by
  decide +kernel

/-- non-vacuity: width-boundary integers, an empty key, unknown and announced lengths, a NaN
payload; the round trip evaluated by the kernel -/
example :
    let t : ETree := .obj (-1) 0 [([], .arr 3 0 [.num .i16 (-200), .num .u8 255, .f64 0x7ff8000000000123]),
                                   ([0xff], .str [0, 0x80])]
    t.wf = true ∧ small t = true ∧ noBig t = true ∧
      (match build (events (parse {} (ubjBytes t)).1) with
       | some v => v == t.value
       | none => false) = true := by
  decide +kernel

end SF.PropsUbj.C01


/-! ## JSON -/
namespace SF.PropsJson.C01
open SF SF.Json SF.Json.Parse SF.Json.ParseP SF.Json.Grammar
open SF.Json.Enc (plain utf8Tree jvalue toJ)

/-- THE JSON ENCODER WRITES GRAMMATICAL JSON: for every tree without floats whose numbers are in
the range of their kind (`plain`) and all options (HTML escaping …), started on a fresh writer at
top level, the run succeeds and the bytes written are the wire form of a grammatical text
`toJ o t` (SF/Proofs/JsonGrammar.lean) all of whose tokens denote, and whose value is the value
of the tree with every string and key sanitized (= the tree's value when they are UTF-8) -/
theorem json_encoder_writes_grammar (o : SF.Json.Enc.Enc) (t : ETree) (hp : plain t = true)
    (hw : o.w = {}) (ha : o.inArray.current = false) :
    (SF.Json.Enc.run o (t.events.map .ev)).2 = (none, .ok) ∧
    SF.Json.Enc.encAll o (t.events.map .ev) = (toJ o t).wire ∧
    (toJ o t).ok = true ∧ (toJ o t).sem = true ∧ (toJ o t).value = jvalue t ∧
    (utf8Tree t = true → jvalue t = t.value) :=
  SF.Props.JsonSrc.json_encoder_writes_grammar o t hp hw ha

/-- C01 for JSON: for EVERY event tree `t` without floats whose numbers are in range and whose
strings and keys are well-formed UTF-8 (any nesting, announced and unknown lengths) and all
encoder options, the encoder's output is accepted by the JSON PARSER, which delivers one
contract-conforming document that builds EXACTLY the value of `t`; the RFC 8259 reference
decoder reads the same value. -/
theorem json_roundtrip (o : SF.Json.Enc.Enc) (t : ETree) (hp : plain t = true) (hu : utf8Tree t = true)
    (hw : o.w = {}) (ha : o.inArray.current = false) :
    (SF.Json.Enc.run o (t.events.map .ev)).2 = (none, .ok) ∧
    (parse {} (SF.Json.Enc.encAll o (t.events.map .ev))).2 = none ∧
    build (events (parse {} (SF.Json.Enc.encAll o (t.events.map .ev))).1) = some t.value ∧
    WF1 (events (parse {} (SF.Json.Enc.encAll o (t.events.map .ev))).1) = true ∧
    SF.Json.Cst.decode (SF.Json.Enc.encAll o (t.events.map .ev)) = .ok [t.value] false :=
  SF.Props.JsonSrc.json_roundtrip o t hp hu hw ha

/-- … without the UTF-8 hypothesis: the value read back is the tree's value with every string and
key sanitized (invalid bytes → U+FFFD: the documented representation change of the format) -/
theorem json_roundtrip_sanitized (o : SF.Json.Enc.Enc) (t : ETree) (hp : plain t = true)
    (hw : o.w = {}) (ha : o.inArray.current = false) :
    (SF.Json.Enc.run o (t.events.map .ev)).2 = (none, .ok) ∧
    (parse {} (SF.Json.Enc.encAll o (t.events.map .ev))).2 = none ∧
    events (parse {} (SF.Json.Enc.encAll o (t.events.map .ev))).1 = (toJ o t).events ∧
    build (events (parse {} (SF.Json.Enc.encAll o (t.events.map .ev))).1) = some (jvalue t) ∧
    WF1 (events (parse {} (SF.Json.Enc.encAll o (t.events.map .ev))).1) = true ∧
    SF.Json.Cst.decode (SF.Json.Enc.encAll o (t.events.map .ev)) = .ok [jvalue t] false :=
  SF.Props.JsonSrc.json_roundtrip_sanitized o t hp hw ha

/-- … and however the encoder's output reaches the parser: `Write` per chunk, EVERY chunking -/
theorem json_roundtrip_chunks (o : SF.Json.Enc.Enc) (t : ETree) (hp : plain t = true)
    (hw : o.w = {}) (ha : o.inArray.current = false) (cs : List Bytes)
    (hcs : cs.flatten = SF.Json.Enc.encAll o (t.events.map .ev)) :
    (writeChunks {} cs).2 = none ∧ build (events (writeChunks {} cs).1) = some (jvalue t) ∧
    WF1 (events (writeChunks {} cs).1) = true ∧ (utf8Tree t = true → jvalue t = t.value) :=
  SF.Props.JsonSrc.json_roundtrip_chunks o t hp hw ha cs hcs

/-- non-vacuity: `{"a":[-5,"\"é<",18446744073709551615],"b":{},"":[[],{}]}` with HTML escaping;
the kernel runs encoder and parser -/
example : plain SF.Props.JsonSrc.exE = true ∧ utf8Tree SF.Props.JsonSrc.exE = true ∧
    (parse {} (SF.Json.Enc.encAll { escapeHTML := true } (SF.Props.JsonSrc.exE.events.map .ev))).2 = none ∧
    (match build (events (parse {} (SF.Json.Enc.encAll { escapeHTML := true } (SF.Props.JsonSrc.exE.events.map .ev))).1) with
     | some v => v == SF.Props.JsonSrc.exE.value
     | none => false) = true := by
  decide +kernel

end SF.PropsJson.C01
