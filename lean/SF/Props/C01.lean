/-
  C01 — encode-then-decode preserves every value.

  Property theorems (CBOR instance proved in full; UBJSON and JSON are covered by the
  executable mirror + correspondence + oracle, see DESIGN.md §7 and the evidence file).
  A "well-formed event stream describing one value" is the event sequence of a
  contract-conforming tree (`ETree`, SF/Tree.lean): announced lengths are -1 or exact, every
  number lies in the range of its Go kind (`small`).
-/
import SF.Proofs.CborEnc
import SF.Proofs.CborTop
namespace SF.Props.C01
open SF SF.Cbor SF.Cbor.Cst

/-- what the CBOR encoder writes for a tree, from its initial state -/
def cborBytes (t : ETree) : Bytes := (Enc.run {} (t.events.map XEv.ev)).1.w.out

theorem cbor_encode (t : ETree) (hw : t.wf = true) (hs : Enc.small t = true) :
    Enc.run {} (t.events.map XEv.ev) = (Enc.Enc.emit {} (Enc.toItem t).wire, none) := by
  have h := Enc.enc_tree t hw hs {} rfl []
  simp only [List.append_nil, Enc.execEvs] at h
  exact Enc.run_evs _ _ _ h

/-- C01 for CBOR: for EVERY well-formed event stream describing one value (any nesting and
shape, every scalar kind with any in-range value incl. all width boundaries, all float bit
patterns, arbitrary byte strings, empty / duplicate / arbitrary keys, announced and unknown
lengths), the bytes written by the CBOR encoder are accepted by the CBOR parser, which
delivers events describing the SAME value (`build`): identical nesting, key order, strings
byte for byte, integers exactly, floats bit-exactly. -/
theorem cbor_roundtrip (t : ETree) (hw : t.wf = true) (hs : Enc.small t = true) :
    ∃ p, Parse.parse {} (cborBytes t) = (p, none) ∧ build (Parse.events p) = some t.value := by
  have henc : cborBytes t = (Enc.toItem t).wire := by
    simp [cborBytes, cbor_encode t hw hs, Enc.Enc.emit]
  have hok := Enc.toItem_ok t hs
  have hp := C05_parse (Enc.toItem t) hok
  refine ⟨_, by rw [henc]; exact hp, ?_⟩
  simp only [Parse.events, Parse.idle, List.reverse_reverse]
  rw [← tree_events, build_events, tree_value, Enc.toItem_value t hs]
where
  C05_parse (i : Item) (h : i.ok = true) :
      Parse.parse {} i.wire = (Parse.idle i.events.reverse, none) := by
    have hf := Parse.feed_items [i] (by simp [okList, h]) [] (2 * i.wire.length + 2) (by simp)
    simp only [wireList, List.append_nil, eventsList] at hf
    have hidle : (({} : Parse.P)) = Parse.idle [] := rfl
    simp only [Parse.parse, Parse.feedAll, hidle, hf]
    simp +decide [Parse.finalize, Parse.idle]

/-- non-vacuity: a tree with width-boundary integers, an empty key, unknown and announced
lengths, a NaN payload; the round trip evaluated by the kernel -/
def exT : ETree :=
  .obj (-1) 0 [([], .arr 3 0 [.num .i16 (-200), .num .u64 18446744073709551615, .f64 0x7ff8000000000123]),
               ([0xff], .str [0, 0x80])]

example :
    exT.wf = true ∧ Enc.small exT = true ∧
      (Parse.parse {} (cborBytes exT)).2 = none ∧
      (match build (Parse.events (Parse.parse {} (cborBytes exT)).1) with
       | some v => v == exT.value
       | none => false) = true := by
  decide +kernel

end SF.Props.C01
