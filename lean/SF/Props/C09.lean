/-
  C09 — every producer emits only well-formed event streams (Visitor contract).

  `WF` (SF/Event.lean) is the contract automaton: balanced nesting, one key before each
  object value, announced length = number of elements, announced element type respected.
  Proved here: the generic theorem for event trees, the CBOR parser on every accepted
  supported document, the adapters (array.go / map.go / string.go expansions).
  Fold (gotype) and the other two parsers: mirror + correspondence + WF monitor as oracle.

  UBJSON PARSER (namespace `SF.PropsUbjP.C09`): the events delivered for every stream of
  well-formed UBJSON items form a contract-conforming stream (`WF`).
-/
import SF.Proofs.Tree
import SF.Proofs.CborTree
import SF.Props.C05
import SF.Proofs.UbjParseTop
import SF.Proofs.JsonSrcTop
import SF.Proofs.FoldWfTop
import SF.Proofs.FoldWfCusTop
namespace SF.Props.C09
open SF SF.Cbor SF.Cbor.Cst

/-- generic: the events of any contract-conforming tree are one well-formed document -/
theorem tree_events_wf (t : ETree) (h : t.wf = true) : WF1 t.events = true := wf1_events t h

/-- the CBOR parser, on every stream of supported items, delivers a well-formed stream:
balanced, keys before values, announced container lengths exact (or -1 for indefinite
containers), byte strings announced as ByteType arrays holding only byte events -/
theorem cbor_parser_wf (ts : List Item) (h : okList ts = true) :
    WF (Parse.events (Parse.parse {} (wireList ts)).1) = true := by
  rw [C05.parse_supported ts h]
  simp only [Parse.events, Parse.idle, List.reverse_reverse]
  rw [← treeList_events]
  apply wf_events_list
  intro t ht
  have : ∀ (ts : List Item) (t : ETree), t ∈ treeList ts → t.wf = true := by
    intro ts
    induction ts with
    | nil => intro t ht; simp [treeList] at ht
    | cons x xs ih =>
      intro t ht
      simp only [treeList, List.mem_cons] at ht
      rcases ht with rfl | ht
      · exact tree_wf x
      · exact ih t ht
  exact this ts t ht

/-! ### adapters: the expansion of every extended event is a well-formed document -/

def leafList {α : Type} (f : α → ETree) (xs : List α) : List ETree := xs.map f

theorem leaf_events {α : Type} (f : α → ETree) (g : α → Ev) (hfg : ∀ a, (f a).events = [g a]) (xs : List α) :
    ETree.eventsList (xs.map f) = xs.map g := by
  induction xs with
  | nil => rfl
  | cons a xs ih => simp [ETree.eventsList, hfg, ih]

theorem leaf_wf {α : Type} (f : α → ETree) (bt : Nat) (h : ∀ a, (f a).matchesBT bt = true ∧ (f a).wf = true)
    (xs : List α) : ETree.wfList bt (xs.map f) = true := by
  induction xs with
  | nil => rfl
  | cons a xs ih => simp [ETree.wfList, (h a).1, (h a).2, ih]

theorem mem_events {α : Type} (f : α → ETree) (g : α → Ev) (hfg : ∀ a, (f a).events = [g a])
    (ms : List (Bytes × α)) :
    ETree.eventsMems (ms.map fun m => (m.1, f m.2)) = ms.flatMap (fun m => [Ev.key m.1, g m.2]) := by
  induction ms with
  | nil => rfl
  | cons m ms ih => simp [ETree.eventsMems, hfg, ih]

theorem mem_wf {α : Type} (f : α → ETree) (bt : Nat) (h : ∀ a, (f a).matchesBT bt = true ∧ (f a).wf = true)
    (ms : List (Bytes × α)) : ETree.wfMems bt (ms.map fun m => (m.1, f m.2)) = true := by
  induction ms with
  | nil => rfl
  | cons m ms ih => simp [ETree.wfMems, (h m.2).1, (h m.2).2, ih]

/-- typed arrays: `OnXxxArray(a)` expands (array.go) to a start announcing `len(a)` and the
matching element type, the elements, and a finish — a well-formed document, for every
element kind and every content (empty included) -/
theorem expand_array_wf (x : XEv)
    (hx : (∃ xs, x = .boolArr xs) ∨ (∃ xs, x = .strArr xs) ∨ (∃ k xs, x = .numArr k xs) ∨
          (∃ xs, x = .f32Arr xs) ∨ (∃ xs, x = .f64Arr xs)) :
    WF1 x.expand = true := by
  have hbt : ∀ k : NumKind, ∀ v, Ev.matchesBT k.baseType (.num k v) = true := by
    intro k v; cases k <;> simp [Ev.matchesBT, NumKind.baseType, BT.any, BT.int8, BT.int16, BT.int32, BT.int64,
      BT.int, BT.uint8, BT.uint16, BT.uint32, BT.uint64, BT.uint, BT.byte]
  rcases hx with ⟨xs, rfl⟩ | ⟨xs, rfl⟩ | ⟨k, xs, rfl⟩ | ⟨xs, rfl⟩ | ⟨xs, rfl⟩
  · have := wf1_events (.arr xs.length BT.bool (xs.map ETree.bool))
      (by simp [ETree.wf, ETree.lenOkFor, leaf_wf ETree.bool BT.bool (by intro a; simp [ETree.matchesBT, Ev.matchesBT, ETree.wf])])
    simpa [ETree.events, leaf_events ETree.bool Ev.bool (by intro a; rfl), XEv.expand] using this
  · have := wf1_events (.arr xs.length BT.string (xs.map ETree.str))
      (by simp [ETree.wf, ETree.lenOkFor, leaf_wf ETree.str BT.string (by intro a; simp [ETree.matchesBT, Ev.matchesBT, ETree.wf])])
    simpa [ETree.events, leaf_events ETree.str Ev.str (by intro a; rfl), XEv.expand] using this
  · have := wf1_events (.arr xs.length k.baseType (xs.map (ETree.num k)))
      (by simp [ETree.wf, ETree.lenOkFor, leaf_wf (ETree.num k) k.baseType (by intro a; simp [ETree.matchesBT, hbt, ETree.wf])])
    simpa [ETree.events, leaf_events (ETree.num k) (Ev.num k) (by intro a; rfl), XEv.expand] using this
  · have := wf1_events (.arr xs.length BT.float32 (xs.map ETree.f32))
      (by simp [ETree.wf, ETree.lenOkFor, leaf_wf ETree.f32 BT.float32 (by intro a; simp [ETree.matchesBT, Ev.matchesBT, ETree.wf])])
    simpa [ETree.events, leaf_events ETree.f32 Ev.f32 (by intro a; rfl), XEv.expand] using this
  · have := wf1_events (.arr xs.length BT.float64 (xs.map ETree.f64))
      (by simp [ETree.wf, ETree.lenOkFor, leaf_wf ETree.f64 BT.float64 (by intro a; simp [ETree.matchesBT, Ev.matchesBT, ETree.wf])])
    simpa [ETree.events, leaf_events ETree.f64 Ev.f64 (by intro a; rfl), XEv.expand] using this

/-- typed maps (map.go) likewise -/
theorem expand_map_wf (x : XEv)
    (hx : (∃ ms, x = .boolObj ms) ∨ (∃ ms, x = .strObj ms) ∨ (∃ k ms, x = .numObj k ms) ∨
          (∃ ms, x = .f32Obj ms) ∨ (∃ ms, x = .f64Obj ms)) :
    WF1 x.expand = true := by
  have hbt : ∀ k : NumKind, ∀ v, Ev.matchesBT k.baseType (.num k v) = true := by
    intro k v; cases k <;> simp [Ev.matchesBT, NumKind.baseType, BT.any, BT.int8, BT.int16, BT.int32, BT.int64,
      BT.int, BT.uint8, BT.uint16, BT.uint32, BT.uint64, BT.uint, BT.byte]
  rcases hx with ⟨ms, rfl⟩ | ⟨ms, rfl⟩ | ⟨k, ms, rfl⟩ | ⟨ms, rfl⟩ | ⟨ms, rfl⟩
  · have := wf1_events (.obj ms.length BT.bool (ms.map fun m => (m.1, ETree.bool m.2)))
      (by simp [ETree.wf, ETree.lenOkFor, mem_wf ETree.bool BT.bool (by intro a; simp [ETree.matchesBT, Ev.matchesBT, ETree.wf])])
    simpa [ETree.events, mem_events ETree.bool Ev.bool (by intro a; rfl), XEv.expand] using this
  · have := wf1_events (.obj ms.length BT.string (ms.map fun m => (m.1, ETree.str m.2)))
      (by simp [ETree.wf, ETree.lenOkFor, mem_wf ETree.str BT.string (by intro a; simp [ETree.matchesBT, Ev.matchesBT, ETree.wf])])
    simpa [ETree.events, mem_events ETree.str Ev.str (by intro a; rfl), XEv.expand] using this
  · have := wf1_events (.obj ms.length k.baseType (ms.map fun m => (m.1, ETree.num k m.2)))
      (by simp [ETree.wf, ETree.lenOkFor, mem_wf (ETree.num k) k.baseType (by intro a; simp [ETree.matchesBT, hbt, ETree.wf])])
    simpa [ETree.events, mem_events (ETree.num k) (Ev.num k) (by intro a; rfl), XEv.expand] using this
  · have := wf1_events (.obj ms.length BT.float32 (ms.map fun m => (m.1, ETree.f32 m.2)))
      (by simp [ETree.wf, ETree.lenOkFor, mem_wf ETree.f32 BT.float32 (by intro a; simp [ETree.matchesBT, Ev.matchesBT, ETree.wf])])
    simpa [ETree.events, mem_events ETree.f32 Ev.f32 (by intro a; rfl), XEv.expand] using this
  · have := wf1_events (.obj ms.length BT.float64 (ms.map fun m => (m.1, ETree.f64 m.2)))
      (by simp [ETree.wf, ETree.lenOkFor, mem_wf ETree.f64 BT.float64 (by intro a; simp [ETree.matchesBT, Ev.matchesBT, ETree.wf])])
    simpa [ETree.events, mem_events ETree.f64 Ev.f64 (by intro a; rfl), XEv.expand] using this

/-- non-vacuity -/
example : WF1 (XEv.expand (.numArr .i16 [-200, 5])) = true ∧ WF1 (XEv.expand (.strObj [])) = true := by decide

end SF.Props.C09

/-! ## UBJSON parser (SF/Ubjson/Parse.lean; proofs SF/Proofs/Ubj{Item,Tree,NoPanic*,Num,Ref*,Prog*,ParseTop}.lean) -/

namespace SF.PropsUbjP.C09
open SF SF.Ubjson SF.Ubjson.Parse SF.Ubjson.Syn
open StateType StateStep

/-- C09 for the UBJSON parser: the events it delivers for EVERY stream of well-formed items —
plain, counted and typed containers, nested typed containers, no-ops — satisfy the Visitor
contract automaton (balanced, keys only in objects, announced lengths exact, announced element
types respected) -/
theorem ubj_parser_wf (xs : List (Nat × Item)) (trail : Nat) (h : okElems xs = true)
    (hfree : ∀ nx ∈ xs, free nx.2 ≤ 1000000) :
    WF (events (parse {} (wireStream xs trail)).1) = true :=
  SF.Props.UbjParse.parse_refines_wf xs trail h hfree

end SF.PropsUbjP.C09


/-! ## JSON parser (SF/Json/Parse.lean; proofs SF/Proofs/JsonRefine*.lean, JsonSrc*.lean) -/

namespace SF.PropsJsonP.C09
open SF SF.Json SF.Json.Parse SF.Json.ParseP SF.Json.Grammar

/-- C09 for the JSON parser: the events it delivers for EVERY grammatical text (any nesting and
white space, every escape spelling, integers and floats) form ONE contract-conforming document -/
theorem json_parser_wf1 (t : Text) (h : t.good) : WF1 (events (parse {} t.bytes).1) = true :=
  SF.Props.JsonSrc.json_parser_wf1 t h

/-- … however the text is cut into `Write` calls -/
theorem json_parser_wf1_chunks (t : Text) (h : t.good) (cs : List Bytes) (hcs : cs.flatten = t.bytes) :
    (writeChunks {} cs).2 = none ∧ WF1 (events (writeChunks {} cs).1) = true :=
  SF.Props.JsonSrc.json_parser_wf1_chunks t h cs hcs

/-- … and for every STREAM of grammatical documents (separated as JSON requires) the events
satisfy the Visitor contract automaton, also under every chunking -/
theorem json_parser_wf (ds : List Doc) (hd : ∀ d ∈ ds, d.good) (ws0 : Bytes) (h0 : allWs ws0 = true) :
    WF (events (parse {} (ws0 ++ streamWire ds)).1) = true :=
  SF.Props.JsonSrc.json_parser_wf ds hd ws0 h0

theorem json_parser_wf_chunks (ds : List Doc) (hd : ∀ d ∈ ds, d.good) (ws0 : Bytes) (h0 : allWs ws0 = true)
    (cs : List Bytes) (hcs : cs.flatten = ws0 ++ streamWire ds) :
    (writeChunks {} cs).2 = none ∧ WF (events (writeChunks {} cs).1) = true :=
  SF.Props.JsonSrc.json_parser_wf_chunks ds hd ws0 h0 cs hcs

/-- every delivered event is well-formed in itself (`evOk`): strings and keys carry well-formed
UTF-8, numbers are int64 / uint64 events in the range of their kind or float64 events, containers
are announced with length -1 and element type `any` -/
theorem json_parser_events_ok (t : Text) (h : t.good) :
    (events (parse {} t.bytes).1).all SF.Json.Grammar.evOk = true :=
  SF.Props.JsonSrc.json_parser_events_ok t h

/-- non-vacuity: ` {"a": [18446744073709551615,"\ud800é"],⏎"b":null }⏎` is a good text -/
example : SF.Props.JsonSrc.exT.good := SF.Props.JsonSrc.exT_good

end SF.PropsJsonP.C09


/-! ## gotype Fold as PRODUCER (mirror SF/Gotype/Fold.lean; proofs SF/Proofs/FoldWf{Shape,Type,NoOk,Run,Top}.lean) -/

namespace SF.PropsFold.C09
open SF SF.Gotype SF.Gotype.Fold SF.Gotype.Rules SF.FoldProofs

/-- C09 for Fold: for every good type `T` (`goodT`, the universe of C12: every scalar kind,
interface{}, slices, arrays incl. the typed-array fast paths, pointers, string-keyed maps,
structs with arbitrary tags incl. omitempty and inline, named types without methods) of depth
≤ 499, every value `v` of type `T`, every option record with a healthy visitor: if the fold
returns ok, the stream it delivered is ONE contract-conforming document — balanced, keys only
in objects, every announced length -1 or EXACT (a struct announces its field count only when no
kept field is omitempty / inline), announced element types respected.  No reference to the
rules, no bound on the value. -/
theorem fold_ok_wf (o : FoldOpts) (T : GoType) (v : GoVal)
    (hp : goodT [] T = true) (hdt : tdepth T ≤ dynBound) (hw : wt T v = true)
    (hfail : o.failAt = none) (hok : (impl o T v).res = .ok) :
    WF1 (expandAll (impl o T v).evs) = true :=
  SF.FoldProofs.Wf.fold_ok_wf o T v hp hdt hw hfail hok

/-- … with ANY fault index: what the fold delivered is a PREFIX of the conforming stream it
delivers to the healthy visitor -/
theorem fold_fault_wf_prefix (o : FoldOpts) (T : GoType) (v : GoVal) (k : Nat)
    (hp : goodT [] T = true) (hdt : tdepth T ≤ dynBound) (hw : wt T v = true)
    (hk : o.failAt = some k) (hok : (impl { o with failAt := none } T v).res = .ok) :
    ∃ full, WF1 (expandAll full) = true ∧ (impl o T v).evs <+: full ∧
      expandAll (impl o T v).evs <+: expandAll full ∧
      (full.length ≤ k → impl o T v = { evs := full, res := .ok }) ∧
      (k < full.length → (impl o T v).res = .err .injected ∧ (impl o T v).evs = full.take (k + 1)) :=
  SF.FoldProofs.Wf.fold_fault_wf_prefix o T v k hp hdt hw hk hok

/-- `goodT` cannot be dropped: a custom folder is user code — the menagerie's `FOpen` (a Fold
method that opens an object and never closes it) makes Fold return ok on an ill-formed stream -/
example :
    let T : GoType := .named "FOpen" { folder := .value } (.struct [.mk "A" (.int .int) "" false])
    (impl {} T (.struct [.int 1])).res = .ok ∧ WF1 (expandAll (impl {} T (.struct [.int 1])).evs) = false := by
  decide +kernel

/-- non-vacuity: `[]interface{}{int8(1), []string{"x"}, map[string]bool{"k": true}, nil}` (typed
array and typed map events inside the interface fast path) -/
example :
    let T : GoType := .slice .iface
    let v : GoVal := .slice [.iface (.int .i8) (.int 1), .iface (.slice .string) (.slice [.str [120]]),
                             .iface (.map .string .bool) (.map [(.str [107], .bool true)]), .nilIface]
    goodT [] T = true ∧ wt T v = true ∧ (impl {} T v).res = .ok ∧ WF1 (expandAll (impl {} T v).evs) = true := by
  decide +kernel

end SF.PropsFold.C09


/-! ## C09 for gotype.Fold on the EXTENDED universe `goodC` / `wtC` (custom folders on either receiver,
registered fold functions, IsZeroers, in every position — the universe of C12's `fold_agrees_custom`)

Proof files SF/Proofs/CusWf{Leaf,Type,Run}.lean, FoldWfCusTop.lean.  `wtC` contains `cusOK`: the custom
folder's OWN events are one conforming value — that is the part of the universe that is user code, and it
cannot be dropped (the menagerie's `FOpen`, evaluated below). -/
namespace SF.PropsFoldCus.C09
open SF SF.Gotype SF.Gotype.Fold SF.Gotype.Rules SF.FoldProofs
open SF.FoldProofs.Custom (goodC wtC)

/-- MAIN THEOREM (good types with custom code).  For every type `T` of `goodC reg` of depth
≤ 499, every value `v` of type `T` (`wtC reg`), every option record with a healthy visitor (any
order oracle) whose user folders are registered iff the universe counts them (`o.folders = reg`):
if the fold returns ok, the stream it delivered is one contract-conforming document. -/
theorem fold_ok_wf_custom (o : FoldOpts) (reg : Bool) (hreg : o.folders = reg) (T : GoType) (v : GoVal)
    (hp : goodC reg [] T = true) (hdt : tdepth T ≤ dynBound) (hw : wtC reg T v = true)
    (hfail : o.failAt = none) (hok : (impl o T v).res = .ok) :
    WF1 (expandAll (impl o T v).evs) = true :=
  SF.FoldProofs.WfCus.fold_ok_wf_custom o reg hreg T v hp hdt hw hfail hok

/-- ANY fault index (good types with custom code): on a visitor failing at event `k`, what the
fold delivered is a PREFIX of the conforming stream it delivers to the healthy visitor; it gets
through (`ok`, the full stream) iff `k` is beyond the stream, else it returns the visitor's error
after exactly `k + 1` events.  Stated for every good type and typed value whose healthy fold
returns ok — in particular whenever the rules give a value (`…_rules_custom`). -/
theorem fold_fault_wf_prefix_custom (o : FoldOpts) (reg : Bool) (hreg : o.folders = reg) (T : GoType) (v : GoVal)
    (k : Nat)
    (hp : goodC reg [] T = true) (hdt : tdepth T ≤ dynBound) (hw : wtC reg T v = true)
    (hk : o.failAt = some k) (hok : (impl { o with failAt := none } T v).res = .ok) :
    ∃ full, WF1 (expandAll full) = true ∧ (impl o T v).evs <+: full ∧
      expandAll (impl o T v).evs <+: expandAll full ∧
      (full.length ≤ k → impl o T v = { evs := full, res := .ok }) ∧
      (k < full.length → (impl o T v).res = .err .injected ∧ (impl o T v).evs = full.take (k + 1)) :=
  SF.FoldProofs.WfCus.fold_fault_wf_prefix_custom o reg hreg T v k hp hdt hw hk hok

/-- the universe of `Wf.fold_ok_wf` is a sub-universe: its statement is the instance of
`fold_ok_wf_custom` at `goodT` / `wt` (whatever `o.folders`) -/
theorem fold_ok_wf_extends (o : FoldOpts) (T : GoType) (v : GoVal)
    (hp : goodT [] T = true) (hdt : tdepth T ≤ dynBound) (hw : wt T v = true)
    (hfail : o.failAt = none) (hok : (impl o T v).res = .ok) :
    WF1 (expandAll (impl o T v).evs) = true :=
  SF.FoldProofs.WfCus.fold_ok_wf_extends o T v hp hdt hw hfail hok

/-- the custom folder's own conformance (`wtC`) is needed: `FOpen` opens an object and never closes it; the
fold returns ok on an ill-formed stream (kernel-evaluated) -/
example :
    goodC true [] Custom.Examples.FOpent = true ∧
      wtC true Custom.Examples.FOpent (.struct [.int 1]) = false ∧
      (impl {} Custom.Examples.FOpent (.struct [.int 1])).res = .ok ∧
      WF1 (expandAll (impl {} Custom.Examples.FOpent (.struct [.int 1])).evs) = false :=
  ⟨(Custom.Examples.good_menagerie true).2.2.2.2.2.2.1, by decide +kernel, by decide +kernel, by decide +kernel⟩

/-- non-vacuity: `[]interface{}{FS(3), FInts{1,2}, (*UD)(&9), FMap(nil)}`-like values are in the universe
(see the examples of FoldWfCusTop.lean, evaluated by the kernel there) -/
example : True := trivial

end SF.PropsFoldCus.C09
