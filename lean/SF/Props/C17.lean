/-
  C17 — a reused parser, encoder, iterator or unfolder behaves like a fresh one.

  Proved: CBOR encoder and CBOR parser (and byte-slice pull decoder, see C18): completing
  any document returns every stack to its idle depth and leaves nothing behind that could
  influence the next document, so by induction a reused instance behaves like a new one on
  EVERY history.  Other components: mirror + correspondence (depth hooks at every document
  boundary) + oracle (probe on reused vs fresh instance).

  UBJSON ENCODER (namespace `SF.PropsUbj.C17`): every document (any tree, also with
  extended events) restores the length stack; after ANY history of documents ANY probe stream
  yields the bytes, result and stack of a new encoder.

  JSON ENCODER (namespace `SF.PropsJson.C17`): every supported document restores both bool
  stacks (`first`, `inArray`) exactly at top level; after any history of documents the probe
  writes the bytes a new encoder writes and ends with the same stacks.

  JSON PARSER (namespace `SF.PropsJsonP.C17`): after ANY history of accepted `Parse` calls (any
  byte strings) the parser is idle, and a grammatical probe document is accepted with exactly
  its events, as on a new parser.
-/
import SF.Proofs.CborEnc
import SF.Props.C05
import SF.Proofs.UbjEncTop
import SF.Proofs.JsonEncTop
import SF.Proofs.JsonRefineTop
import SF.Proofs.UbjBridgeTop
import SF.Proofs.JsonReuseTop
import SF.Proofs.DecReuseTop
namespace SF.Props.C17
open SF SF.Cbor SF.Cbor.Cst

/-- encoder, one document from ANY state reachable without write failures: the bytes
written do not depend on the state, and the state afterwards is the state before (only the
output grew) — in particular the length stack is back at its previous depth -/
theorem cbor_encoder_doc (t : ETree) (hw : t.wf = true) (hs : Enc.small t = true) (s : Enc.Enc)
    (hf : s.w.failFrom = none) :
    Enc.execEvs s t.events = (Enc.Enc.emit s (Enc.toItem t).wire, true) := by
  have := Enc.enc_tree t hw hs s hf []
  simpa [Enc.execEvs] using this

/-- encoder, any history of documents followed by a probe: the probe's bytes on the reused
encoder are its bytes on a fresh one -/
theorem cbor_encoder_reuse (hist : List ETree) (probe : ETree)
    (hh : ∀ t ∈ hist, t.wf = true ∧ Enc.small t = true) (hp : probe.wf = true ∧ Enc.small probe = true) :
    ∃ (pre : Bytes) (s : Enc.Enc),
      Enc.execEvs {} (ETree.eventsList hist) = (s, true) ∧ s.w.out = pre ∧ s.length = ({} : Enc.Enc).length ∧
      (Enc.execEvs s probe.events).1.w.out = pre ++ (Enc.execEvs {} probe.events).1.w.out := by
  have key : ∀ (hist : List ETree), (∀ t ∈ hist, t.wf = true ∧ Enc.small t = true) → ∀ (s0 : Enc.Enc),
      s0.w.failFrom = none → ∃ b, Enc.execEvs s0 (ETree.eventsList hist) = (Enc.Enc.emit s0 b, true) := by
    intro hist
    induction hist with
    | nil => intro _ s0 _; exact ⟨[], by simp [ETree.eventsList, Enc.execEvs]⟩
    | cons t ts ih =>
      intro hh s0 hf
      have ht := hh t (by simp)
      obtain ⟨b, hb⟩ := ih (fun t' ht' => hh t' (by simp [ht'])) (Enc.Enc.emit s0 (Enc.toItem t).wire) (by simpa using hf)
      refine ⟨(Enc.toItem t).wire ++ b, ?_⟩
      simp only [ETree.eventsList]
      rw [Enc.enc_tree t ht.1 ht.2 s0 hf, hb, Enc.emit_emit]
  obtain ⟨b, hb⟩ := key hist hh {} rfl
  refine ⟨b, Enc.Enc.emit {} b, hb, by simp [Enc.Enc.emit], rfl, ?_⟩
  rw [cbor_encoder_doc probe hp.1 hp.2 _ (by simp [Enc.Enc.emit]), cbor_encoder_doc probe hp.1 hp.2 {} rfl]
  simp [Enc.Enc.emit]

/-- parser: after ANY stream of complete supported documents the parser is exactly a fresh
parser (state stack, length stack, buffer, error) that has delivered their events -/
theorem cbor_parser_idle (ts : List Item) (h : okList ts = true) :
    ∃ evs, (Parse.parse {} (wireList ts)).1 = { ({} : Parse.P) with evs := evs } :=
  ⟨_, by rw [C05.parse_supported ts h]; rfl⟩

/-- parser reuse: a history of documents then a probe on ONE parser delivers, for the
probe, exactly the events a fresh parser delivers -/
theorem cbor_parser_reuse (hist : List Item) (probe : Item) (hh : okList hist = true) (hp : probe.ok = true) :
    Parse.events (Parse.parse {} (wireList (hist ++ [probe]))).1 =
      Parse.events (Parse.parse {} (wireList hist)).1 ++ Parse.events (Parse.parse {} probe.wire).1 := by
  have happ : ∀ (a b : List Item), okList a = true → okList b = true → okList (a ++ b) = true := by
    intro a b ha hb
    induction a with
    | nil => simpa using hb
    | cons x xs ih =>
      simp only [okList, Bool.and_eq_true] at ha
      simp [okList, ha.1, ih ha.2]
  have hev : ∀ (a b : List Item), eventsList (a ++ b) = eventsList a ++ eventsList b := by
    intro a b
    induction a with
    | nil => rfl
    | cons x xs ih => simp [eventsList, ih]
  have h1 := C05.parse_supported (hist ++ [probe]) (happ _ _ hh (by simp [okList, hp]))
  have h2 := C05.parse_supported hist hh
  have h3 := C05.parse_supported [probe] (by simp [okList, hp])
  simp only [wireList, List.append_nil] at h3
  rw [h1, h2, h3]
  simp [Parse.events, Parse.idle, hev, eventsList]

end SF.Props.C17

/-! ## UBJSON encoder (SF/Ubjson/Enc.lean; proofs SF/Proofs/Ubj*.lean) -/

namespace SF.PropsUbj.C17
open SF SF.Ubjson SF.Ubjson.Enc SF.Ubjson.Wire
open SF.Cbor.Enc (small)
open SF.Props.UbjEnc

/-- a complete document leaves the length stack as it found it and appends exactly its bytes -/
theorem ubj_encoder_doc_stack (t : ETree) (s : Enc) (hf : s.w.failFrom = none) :
    (run s (t.events.map XEv.ev)).1.length = s.length ∧
      (run s (t.events.map XEv.ev)).1.w.out = s.w.out ++ (chunks t).flatten :=
  SF.Props.UbjEnc.ubj_encoder_doc_stack t s hf

/-- C17 for the UBJSON encoder: ANY history of documents followed by ANY probe stream: the
history leaves the encoder idle, and the probe's result, final stack and bytes on the reused
encoder are those on a new one -/
theorem ubj_encoder_reuse (hist : List ETree) (probe : List XEv) :
    ∃ (pre : Bytes) (s : Enc),
      run {} ((ETree.eventsList hist).map XEv.ev) = (s, none) ∧ s.w.out = pre ∧
      s.length = ({} : Enc).length ∧
      (run s probe).2 = (run {} probe).2 ∧
      (run s probe).1.length = (run {} probe).1.length ∧
      (run s probe).1.w.out = pre ++ (run {} probe).1.w.out :=
  SF.Props.UbjEnc.ubj_encoder_reuse hist probe

/-- … also for histories of documents that mix basic and extended events (typed arrays / maps,
by-reference strings and keys) -/
theorem ubj_encoder_reuse_ext (hist : List XTree) (hh : XTree.leavesOkList hist = true) (probe : List XEv) :
    ∃ (pre : Bytes) (s : Enc),
      run {} (XTree.eventsList hist) = (s, none) ∧ s.w.out = pre ∧
      s.length = ({} : Enc).length ∧
      (run s probe).2 = (run {} probe).2 ∧
      (run s probe).1.length = (run {} probe).1.length ∧
      (run s probe).1.w.out = pre ++ (run {} probe).1.w.out :=
  SF.Props.UbjEnc.ubj_encoder_reuse_ext hist hh probe

end SF.PropsUbj.C17

/-! ## JSON encoder (SF/Json/Enc.lean; proofs SF/Proofs/JsonEnc*.lean) -/

namespace SF.PropsJson.C17
open SF SF.Json SF.Json.Enc SF.Json.Float ETree
open SF.Props.JsonEnc

/-- a complete supported document at top level leaves the encoder exactly as it found it, apart
from the bytes written -/
theorem json_encoder_doc_idle (o : Enc) (t : ETree) (hs : supported o t = true) (s : Enc) (ho : Opts s o)
    (hf : s.w.failFrom = none) (ha : s.inArray.current = false) :
    ∃ w', execEvs s t.events = ({ s with w := w' }, .ok) ∧ w'.failFrom = none ∧
      w'.out = s.w.out ++ text o t :=
  SF.Props.JsonEnc.json_encoder_doc_idle o t hs s ho hf ha

/-- C17 for the JSON encoder: ANY history of supported documents, then a probe document: same
bytes and same stacks as on an encoder that never saw the history -/
theorem json_encoder_reuse (o : Enc) (hist : List ETree) (probe : ETree)
    (hh : ∀ t ∈ hist, supported o t = true) (hp : supported o probe = true)
    (s0 : Enc) (ho : Opts s0 o) (hf : s0.w.failFrom = none) (ha : s0.inArray.current = false) :
    ∃ w1, execEvs s0 (eventsList hist) = ({ s0 with w := w1 }, .ok) ∧
      w1.out = s0.w.out ++ (hist.map (text o)).flatten ∧
      (execEvs { s0 with w := w1 } probe.events).2 = .ok ∧
      (execEvs { s0 with w := w1 } probe.events).1.w.out = w1.out ++ text o probe ∧
      (execEvs s0 probe.events).1.w.out = s0.w.out ++ text o probe ∧
      (execEvs { s0 with w := w1 } probe.events).1.first = (execEvs s0 probe.events).1.first ∧
      (execEvs { s0 with w := w1 } probe.events).1.inArray = (execEvs s0 probe.events).1.inArray :=
  SF.Props.JsonEnc.json_encoder_reuse o hist probe hh hp s0 ho hf ha

end SF.PropsJson.C17

/-! ## JSON parser refinement (SF/Json/Parse.lean; proofs SF/Proofs/JsonRefine*.lean) -/

namespace SF.PropsJsonP.C17
open SF SF.Json SF.Json.Parse SF.Json.Float SF.Json.ParseP SF.Json.Grammar
open SF.Json.RefineTop

/-- an accepted `Parse` leaves the parser idle -/
theorem json_parse_accepted_idle (p : P) (b : Bytes) (hp : p.inEscape = false) (h : (parse p b).2 = none) :
    Idle (parse p b).1 ∧ (parse p b).1.inEscape = false :=
  SF.Json.RefineTop.json_parse_accepted_idle p b hp h

/-- C17 for the JSON parser: after ANY history of accepted `Parse` calls on ONE parser the probe
document gets the same verdict and the same events as on a parser that never saw the history -/
theorem json_parser_reuse (hist : List Bytes) (probe : Text) (hh : Accepted {} hist) (hp : probe.good) :
    Reusable (parseSeq {} hist) ∧
    (parse (parseSeq {} hist) probe.bytes).2 = none ∧ (parse {} probe.bytes).2 = none ∧
    events (parse (parseSeq {} hist) probe.bytes).1 = events (parseSeq {} hist) ++ probe.v.events ∧
    events (parse {} probe.bytes).1 = probe.v.events :=
  SF.Json.RefineTop.json_parser_reuse hist probe hh hp

end SF.PropsJsonP.C17


/-! ## the UBJSON parser -/

namespace SF.PropsUbjP.C17
open SF SF.Ubjson
open SF.Ubjson.Parse (P parse events free Fr G liveAny writeChunks)
open SF.Ubjson.Syn (Item okElems evElems wireStream)

/-- THE FRAME THEOREM.  From EVERY parser state `p` that satisfies the shape invariant `G`
(every state reachable from `NewParser`) and has no live typed-array header state — in
particular from every idle state — and for ALL byte strings (grammatical or not): `Parse` on
the framed parser `Fr v E0 p` (= `p` with another value in the scratch field `valueType` and
the events `E0` delivered before) returns the same verdict and ends in the same state up to the
frame.  What earlier documents left behind influences nothing. -/
theorem ubj_parser_frame (p : P) (hg : G p) (hl : liveAny p = false) (v : Nat) (E0 : List Ev) (b : Bytes) :
    ∃ v', parse (Fr v E0 p) b = (Fr v' E0 (parse p b).1, (parse p b).2) :=
  SF.Props.UbjBridge.ubj_parser_frame p hg hl v E0 b

/-- C17 for the UBJSON parser: after ANY history of complete documents (a stream of grammatical
items, no-ops wherever the grammar allows them) the parser is idle — `s` below: the initial
state stack, empty length stack and buffer, no stored error; only the event log and the scratch
field `valueType` differ from a new parser — and then, for EVERY probe byte string (grammatical,
malformed, truncated, …) the reused parser returns the verdict a NEW parser returns, delivers the
events a new parser delivers (after those of the history), and ends in the state a new parser
ends in, up to the frame. -/
theorem ubj_parser_reuse_any (hist : List (Nat × Item)) (t : Nat) (h1 : okElems hist = true)
    (hf1 : ∀ nx ∈ hist, free nx.2 ≤ 1000000) (probe : Bytes) :
    ∃ (vt : Nat) (s : P), parse {} (wireStream hist t) = (s, none) ∧
      s = { evs := (evElems hist).reverse, valueType := vt } ∧
      (parse s probe).2 = (parse {} probe).2 ∧
      events (parse s probe).1 = evElems hist ++ events (parse {} probe).1 ∧
      ∃ vt', (parse s probe).1 = Fr vt' (evElems hist).reverse (parse {} probe).1 :=
  SF.Props.UbjBridge.ubj_parser_reuse_any hist t h1 hf1 probe

/-- … the same with the probe arriving in ANY chunking (`Write` per chunk, then end of input) -/
theorem ubj_parser_reuse_chunks (hist : List (Nat × Item)) (t : Nat) (h1 : okElems hist = true)
    (hf1 : ∀ nx ∈ hist, free nx.2 ≤ 1000000) (probe : List Bytes) :
    ∃ (vt : Nat) (s : P), parse {} (wireStream hist t) = (s, none) ∧
      s = { evs := (evElems hist).reverse, valueType := vt } ∧
      (writeChunks s probe).2 = (writeChunks {} probe).2 ∧
      events (writeChunks s probe).1 = evElems hist ++ events (writeChunks {} probe).1 :=
  SF.Props.UbjBridge.ubj_parser_reuse_chunks hist t h1 hf1 probe

/-- non-vacuity: the history leaves `valueType = int8` behind; the probes are MALFORMED documents
— same verdicts, same events as on a new parser -/
example :
    let hist : List (Nat × Item) := [(0, .arrT 0x69 .i [.int .i8 1])]
    let s := (parse {} (wireStream hist 0)).1
    okElems hist = true ∧ s.valueType = BT.int8 ∧
    (∀ probe ∈ [[0x5b, 0x24, 0x53, 0x23, 0x69, 0x02, 0x69, 0x01, 0x61],
                [0x7b, 0x23, 0x69, 0x01, 0x69, 0x01, 0x61, 0x21],
                [0x5b, 0x24, 0x69, 0x69, 0x01]],
      (parse s probe).2 = (parse {} probe).2 ∧ (parse {} probe).2 ≠ none ∧
      events (parse s probe).1 = evElems hist ++ events (parse {} probe).1) := by
  decide +kernel

end SF.PropsUbjP.C17


/-! ## JSON and CBOR parsers for EVERY probe; the three pull decoders
(proofs SF/Proofs/JsonReuse{Sim,Run,Neat,Dec,Top}.lean, CborFrame.lean, CborDecFrame.lean,
CborDecReuse.lean, UbjDecFrame.lean, DecReuseTop.lean) -/

namespace SF.PropsJsonAny.C17
open SF SF.Json SF.Json.Parse SF.Json.ParseP SF.Json.Dec SF.Json.DecP
open SF.Json.RefineTop (Accepted)
open SF.Props.JsonReuse (Fr)

/-- C17 for the JSON parser, entry point `Parse`, at full strength: after ANY history of ACCEPTED
`Parse` calls on one parser, for EVERY probe byte string (grammatical, malformed, truncated, …):
the reused parser returns the verdict a NEW parser returns (the same error value), delivers
exactly the events a new parser delivers (after those of the history), and ends in the state a
new parser ends in, up to the frame (event log, call counter, the scratch fields `isDouble`,
`required`) -/
theorem json_parser_reuse_any (hist : List Bytes) (hh : Accepted {} hist) (probe : Bytes) :
    (parse (parseSeq {} hist) probe).2 = (parse {} probe).2 ∧
    events (parse (parseSeq {} hist) probe).1 = events (parseSeq {} hist) ++ events (parse {} probe).1 ∧
    ∃ d r, (parse (parseSeq {} hist) probe).1 =
      Fr d r (parseSeq {} hist).evs (parseSeq {} hist).nevs (parse {} probe).1 :=
  SF.Props.JsonReuse.json_parser_reuse_any hist hh probe

/-- … from ANY parser value that is not inside an escape sequence and has a healthy visitor —
what earlier calls left in the state stack, the token buffer and the scratch fields is irrelevant
(`Parse` resets them) -/
theorem json_parse_as_new (q : P) (hesc : q.inEscape = false) (hfa : q.failAt = none) (b : Bytes) :
    (parse q b).2 = (parse {} b).2 ∧ events (parse q b).1 = events q ++ events (parse {} b).1 ∧
    ∃ d r, (parse q b).1 = Fr d r q.evs q.nevs (parse {} b).1 :=
  SF.Props.JsonReuse.json_parse_as_new q hesc hfa b

/-- a call that leaves the parser inside an escape sequence was REJECTED (so after completely
processed documents the hypothesis of `json_parse_as_new` holds; after a document rejected right
behind a backslash it does not: the mirror keeps `inEscape`, evaluated in
SF/Proofs/JsonReuseTop.lean — outside the property, which speaks of completely processed documents) -/
theorem escape_left_is_rejected (p : P) (b : Bytes) (hp : p.inEscape = false) (h : (parse p b).1.inEscape = true) :
    (parse p b).2 ≠ none :=
  SF.Props.JsonReuse.escape_left_is_rejected p b hp h

/-- C17 for the JSON PULL DECODER: after `k` successful calls of `Next` on a decoder over ANY read
script (k documents completely processed), the following calls give, on ANY rest of the stream
(valid, invalid, truncated), exactly the trace of a NEW decoder over ANY read script whose
concatenation is the rest of the stream — and of `NewBytesDecoder` on the rest: results equal,
events equal after those already delivered -/
theorem json_reader_decoder_reuse (f f' : Dec → Nat) (hf : Enough f) (hf' : Enough f') (cs : List Bytes) (e : Bool)
    (n : Int) (k : Nat) (d : Dec) (hk : afterOk f k (newDecoder { chunks := cs, lastEOF := e } n) = some d)
    (cs' : List Bytes) (e' : Bool) (n' : Int) (hcs : cs'.flatten = stream d) (m : Nat) :
    nextsF f m d = frameTrace (Parse.events d.p) (nextsF f' m (newDecoder { chunks := cs', lastEOF := e' } n')) ∧
    nextsF f m d = frameTrace (Parse.events d.p) (nextsF f' m (newBytesDecoder (stream d))) ∧
    nextsF f (k + m) (newDecoder { chunks := cs, lastEOF := e } n) =
      nextsF f k (newDecoder { chunks := cs, lastEOF := e } n) ++
        frameTrace (Parse.events d.p) (nextsF f' m (newDecoder { chunks := cs', lastEOF := e' } n')) :=
  SF.Props.JsonReuse.json_reader_decoder_reuse f f' hf hf' cs e n k d hk cs' e' n' hcs m

/-- … the byte-slice decoder -/
theorem json_bytes_decoder_reuse (f f' : Dec → Nat) (hf : Enough f) (hf' : Enough f') (b : Bytes) (k : Nat)
    (d : Dec) (hk : afterOk f k (newBytesDecoder b) = some d) (m : Nat) :
    nextsF f m d = frameTrace (Parse.events d.p) (nextsF f' m (newBytesDecoder (stream d))) ∧
    nextsF f (k + m) (newBytesDecoder b) =
      nextsF f k (newBytesDecoder b) ++ frameTrace (Parse.events d.p) (nextsF f' m (newBytesDecoder (stream d))) :=
  SF.Props.JsonReuse.json_bytes_decoder_reuse f f' hf hf' b k d hk m

/-- non-vacuity: history `12` (a number with no white space after it) and `{"a":[1.5,true]}`; the
probes `[1,]` (malformed) and `{"a":` (truncated): verdicts and events of a new parser -/
example :
    let hist : List Bytes := [[0x31, 0x32], [0x7b, 0x22, 0x61, 0x22, 0x3a, 0x5b, 0x31, 0x2e, 0x35, 0x2c, 0x74, 0x72, 0x75, 0x65, 0x5d, 0x7d]]
    (parse {} hist[0]).2 = none ∧ (parse (parse {} hist[0]).1 hist[1]).2 = none ∧
    (parse (parseSeq {} hist) [0x5b, 0x31, 0x2c, 0x5d]).2 = (parse {} [0x5b, 0x31, 0x2c, 0x5d]).2 ∧
    (parse {} [0x5b, 0x31, 0x2c, 0x5d]).2 = some .unknownChar ∧
    (parse (parseSeq {} hist) [0x7b, 0x22, 0x61, 0x22, 0x3a]).2 = some .incomplete := by
  decide +kernel

end SF.PropsJsonAny.C17

namespace SF.PropsCborAny.C17
open SF SF.Cbor SF.Cbor.Cst SF.Cbor.Parse SF.Cbor.Dec SF.Cbor.DecR
open SF.Cbor.Frame (FrC frameTrace)
open SF.Props.DecReuseCbor (Accepted parseSeq)

/-- THE FRAME THEOREM for the CBOR parser: `Parse` commutes with the event-log frame — from EVERY
parser state and for ALL byte strings -/
theorem cbor_parser_frame (E0 : List Ev) (p : P) (b : Bytes) :
    parse (FrC E0 p) b = (FrC E0 (parse p b).1, (parse p b).2) :=
  SF.Props.DecReuseCbor.cbor_parser_frame E0 p b

/-- C17 for the CBOR parser at full strength: after ANY history of ACCEPTED `Parse` calls the
parser is exactly a new parser up to the event log, and for EVERY probe byte string it returns the
verdict a NEW parser returns, delivers exactly its events and ends in its state, behind the frame -/
theorem cbor_parser_reuse_any (hist : List Bytes) (hh : Accepted {} hist) (probe : Bytes) :
    parseSeq {} hist = idle (parseSeq {} hist).evs ∧
    (parse (parseSeq {} hist) probe).2 = (parse {} probe).2 ∧
    Parse.events (parse (parseSeq {} hist) probe).1 =
      Parse.events (parseSeq {} hist) ++ Parse.events (parse {} probe).1 ∧
    (parse (parseSeq {} hist) probe).1 = FrC (parseSeq {} hist).evs (parse {} probe).1 :=
  SF.Props.DecReuseCbor.cbor_parser_reuse_any hist hh probe

/-- C17 for the CBOR PULL DECODER: after `k` successful calls on ANY bytes in ANY read script, the
following calls behave on ANY rest of the stream as a NEW decoder over any script of the rest, and
as the byte-slice decoder on the rest -/
theorem cbor_reader_decoder_reuse (f f' : Dec → Nat) (hf : Enough f) (hf' : Enough f') (cs : List Bytes) (k : Nat)
    (d : Dec) (hk : afterOk f k { reads := cs } = some d) (cs' : List Bytes) (hcs : cs'.flatten = stream d) (m : Nat) :
    nextsF f m d = frameTrace (Parse.events d.p) (nextsF f' m { reads := cs' }) ∧
    nextsF f m d = frameTrace (Parse.events d.p) (nextsF f' m { hasReader := false, buffer := stream d }) ∧
    nextsF f (k + m) { reads := cs } =
      nextsF f k { reads := cs } ++ frameTrace (Parse.events d.p) (nextsF f' m { reads := cs' }) :=
  SF.Props.DecReuseCbor.cbor_reader_decoder_reuse f f' hf hf' cs k d hk cs' hcs m

end SF.PropsCborAny.C17

namespace SF.PropsUbjD.C17
open SF SF.Ubjson SF.Ubjson.Parse SF.Ubjson.Dec SF.Ubjson.Syn SF.Ubjson.DecR

/-- THE FRAME THEOREM for the UBJSON pull decoder: the decoder whose parser has delivered the
events `E0` before (and holds any value in the scratch field `valueType`) gives, for EVERY buffered
bytes and read script, the trace of the decoder with the un-framed parser behind the events `E0` -/
theorem ubj_decoder_frame (E0 : List Ev) (f : Dec → Nat) (hf : Enough f) (n : Nat) (d : Dec) (v : Nat)
    (hd : ReadyA d) (hv : VtOk v d.p) :
    nextsF f n (setP d (Fr v E0 d.p)) = frameTrace E0.reverse (nextsF f n d) :=
  SF.Props.DecReuse.ubj_decoder_frame E0 f hf n d v hd hv

/-- C17 for the UBJSON PULL DECODER: a new decoder whose stream is the wire form of grammatical
items `xs` followed by ANY bytes `tail`: the first `xs.length` calls succeed, the decoder after
them is idle with exactly `tail` still to come, and EVERY further call behaves on `tail` as on the
same decoder with a NEW parser: same results, same events after those of the history -/
theorem ubj_decoder_reuse (f : Dec → Nat) (hf : Enough f) (xs : List (Nat × Item)) (hok : okElems xs = true)
    (hc : ∀ nx ∈ xs, nx.1 + vcost nx.2 + 2 ≤ 2000000) (tail : Bytes)
    (d0 : Dec) (vt : Nat) (hd : Ready d0 [] vt) (hs : stream d0 = wireElems xs ++ tail) :
    ∃ d' vt', Ready d' (evElems xs).reverse vt' ∧ stream d' = tail ∧ ReadyA (setP d' {}) ∧
      stream (setP d' {}) = tail ∧
      ∀ k, nextsF f k d' = frameTrace (evElems xs) (nextsF f k (setP d' {})) ∧
        nextsF f (xs.length + k) d0 = okTrace [] xs ++ frameTrace (evElems xs) (nextsF f k (setP d' {})) :=
  SF.Props.DecReuse.ubj_decoder_reuse f hf xs hok hc tail d0 vt hd hs

end SF.PropsUbjD.C17
