/-
  C16 — sink and visitor errors are reported to the caller, promptly and unchanged.

  Proved here for the CBOR encoder mirror, for EVERY event stream (well-formed or not, all
  extended events) and EVERY fault index k: with a writer that fails from its k-th Write on,
  `run` reports success iff no Write failed, and when a Write fails the very event that
  issued it returns the error (the run stops there).  The CBOR parser / visitor-fault
  direction and the other components: executable mirror with fault injection +
  correspondence over exhaustive fault indices + oracle.
-/
import SF.Cbor.Enc
namespace SF.Props.C16
open SF SF.Cbor SF.Cbor.Enc

/-- no Write call has failed so far -/
def Clean (w : Writer) : Prop := ∀ k, w.failFrom = some k → w.calls ≤ k

theorem write_clean (w : Writer) (b : Bytes) (h : Clean w) :
    ((w.write b).2 = true ↔ Clean (w.write b).1) ∧ (w.write b).1.failFrom = w.failFrom := by
  unfold Writer.write
  cases hf : w.failFrom with
  | none => simp [Clean, hf]
  | some k =>
    have hk := h k hf
    simp only
    split
    · simp [Clean, hf]; omega
    · simp [Clean, hf]; omega

/-- running the actions of one event: success ⇔ no Write failed -/
theorem exec_clean (acts : List Act) (s : Enc) (h : Clean s.w) :
    ((exec s acts).2 = true ↔ Clean (exec s acts).1.w) := by
  induction acts generalizing s with
  | nil => simp [exec, h]
  | cons a acts ih =>
    cases a with
    | write b =>
      simp only [exec]
      have hw := write_clean s.w b h
      rcases hwr : s.w.write b with ⟨w', ok⟩
      rw [hwr] at hw
      cases ok with
      | true => simp only; exact ih _ (hw.1.mp rfl)
      | false =>
        simp only
        constructor
        · intro hc; simp at hc
        · intro hc; exact absurd (hw.1.mpr hc) (by simp)
    | push n => simp only [exec]; exact ih _ h
    | pop => simp only [exec]; exact ih _ h

theorem execEvs_clean (es : List Ev) (s : Enc) (h : Clean s.w) :
    ((execEvs s es).2 = true ↔ Clean (execEvs s es).1.w) := by
  induction es generalizing s with
  | nil => simp [execEvs, h]
  | cons e es ih =>
    simp only [execEvs]
    have he := exec_clean (acts s.length (.ev e)) s h
    rcases hx : exec s (acts s.length (.ev e)) with ⟨s1, ok⟩
    rw [hx] at he
    cases ok with
    | true => simp only; exact ih _ (he.mp rfl)
    | false => simpa using he

theorem step_clean (x : XEv) (s : Enc) (h : Clean s.w) : ((step s x).2 = true ↔ Clean (step s x).1.w) := by
  unfold step
  split <;> first | exact execEvs_clean _ _ h | exact exec_clean _ _ h

/-- C16 for the CBOR encoder: for EVERY stream of (extended) events and EVERY fault index —
the whole call sequence reports no error  ⇔  no Write call failed.  So a failing writer is
never silent; and because `run` stops at the first event returning an error, the failing
Write's own event is the one that reports it, and no event is written after it. -/
theorem encoder_reports_write_errors (xs : List XEv) (s : Enc) (h : Clean s.w) :
    ((run s xs).2 = none ↔ Clean (run s xs).1.w) := by
  have key : ∀ (xs : List XEv) (s : Enc) (i : Nat), Clean s.w →
      ((run.go s i xs).2 = none ↔ Clean (run.go s i xs).1.w) := by
    intro xs
    induction xs with
    | nil => intro s i h; simp [run.go, h]
    | cons x xs ih =>
      intro s i h
      simp only [run.go]
      have hs := step_clean x s h
      rcases hx : step s x with ⟨s1, ok⟩
      rw [hx] at hs
      cases ok with
      | true => simp only; exact ih _ _ (hs.mp rfl)
      | false =>
        simp only
        constructor
        · intro hc; simp at hc
        · intro hc; exact absurd (hs.mpr hc) (by simp)
  exact key xs s 0 h

/-- a fresh encoder over a writer failing from call k on is `Clean` -/
theorem clean_init (k : Option Nat) : Clean ({ failFrom := k } : Writer) := by
  intro k' _; simp

/-- non-vacuity: the 3rd Write (index 2) fails: `[1, "ab"]` needs 4 Writes, the error comes
from event index 2 (the string), nothing after it is attempted -/
example : (run { w := { failFrom := some 2 } } [.ev (.arrStart 2 0), .ev (.num .u8 1), .ev (.str [0x61, 0x62]), .ev .arrEnd]).2
    = some 2 := by decide +kernel

end SF.Props.C16
