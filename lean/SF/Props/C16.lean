/-
  C16 — sink and visitor errors are reported to the caller, promptly and unchanged.

  Proved here for the CBOR encoder mirror, for EVERY event stream (well-formed or not, all
  extended events) and EVERY fault index k: with a writer that fails from its k-th Write on,
  `run` reports success iff no Write failed, and when a Write fails the very event that
  issued it returns the error (the run stops there); and for the CBOR parser mirror, for EVERY
  byte string, chunking and fault index: if the visitor returns an error from its k-th event,
  the parser returns THAT error and the failing event is the last one delivered.  The other
  components: executable mirror with fault injection + correspondence over exhaustive fault
  indices + oracle.

  UBJSON ENCODER (namespace `SF.PropsUbj.C16`): the same theorem for every stream of basic
  AND extended events, every start state and every fault index: success ⇔ no Write failed, at
  most one Write ever fails, and the failing event is the one that returns the error.

  JSON ENCODER (namespace `SF.PropsJson.C16`): the JSON visitor has errors of its own (an
  unsupported float, a misplaced end event), so the statement has four parts; the plain
  "success ⇔ no Write failed" holds for every stream the same visitor accepts over a healthy
  writer, in particular for every supported document from any state.

  JSON PARSER (namespace `SF.PropsJsonP.C16`): with a visitor failing from its k-th event, for
  every byte string and chunking: at most k events and no visitor error, or the visitor's error
  with event k the last one delivered.
-/
import SF.Cbor.Enc
import SF.Proofs.CborFault
import SF.Proofs.CborNoPanic
import SF.Proofs.CborFailAt
import SF.Proofs.UbjEncTop
import SF.Proofs.JsonEncTop
import SF.Proofs.JsonRefineTop
import SF.Proofs.UbjChunkTop
import SF.Proofs.FoldFaultTop
import SF.Proofs.DecFaultTop
namespace SF.Props.C16
open SF SF.Cbor SF.Cbor.Enc

/-- no Write call has failed so far -/
def Clean (w : Writer) : Prop := ∀ k, w.failFrom = some k → w.calls ≤ k

theorem write_clean (w : Writer) (b : Bytes) (h : Clean w) :
    ((w.write b).2 = true ↔ Clean (w.write b).1) ∧ (w.write b).1.failFrom = w.failFrom := by
  unfold Writer.write
  cases hf : w.failFrom with
  | none => simp [Clean, hf]
  | some k =>
    have hk := h k hf
    simp only
    split
    · simp [Clean, hf]; omega
    · simp [Clean, hf]; omega

/-- running the actions of one event: success ⇔ no Write failed -/
theorem exec_clean (acts : List Act) (s : Enc) (h : Clean s.w) :
    ((exec s acts).2 = true ↔ Clean (exec s acts).1.w) := by
  induction acts generalizing s with
  | nil => simp [exec, h]
  | cons a acts ih =>
    cases a with
    | write b =>
      simp only [exec]
      have hw := write_clean s.w b h
      rcases hwr : s.w.write b with ⟨w', ok⟩
      rw [hwr] at hw
      cases ok with
      | true => simp only; exact ih _ (hw.1.mp rfl)
      | false =>
        simp only
        constructor
        · intro hc; simp at hc
        · intro hc; exact absurd (hw.1.mpr hc) (by simp)
    | push n => simp only [exec]; exact ih _ h
    | pop => simp only [exec]; exact ih _ h

theorem execEvs_clean (es : List Ev) (s : Enc) (h : Clean s.w) :
    ((execEvs s es).2 = true ↔ Clean (execEvs s es).1.w) := by
  induction es generalizing s with
  | nil => simp [execEvs, h]
  | cons e es ih =>
    simp only [execEvs]
    have he := exec_clean (acts s.length (.ev e)) s h
    rcases hx : exec s (acts s.length (.ev e)) with ⟨s1, ok⟩
    rw [hx] at he
    cases ok with
    | true => simp only; exact ih _ (he.mp rfl)
    | false => simpa using he

theorem step_clean (x : XEv) (s : Enc) (h : Clean s.w) : ((step s x).2 = true ↔ Clean (step s x).1.w) := by
  unfold step
  split <;> first | exact execEvs_clean _ _ h | exact exec_clean _ _ h

/-- C16 for the CBOR encoder: for EVERY stream of (extended) events and EVERY fault index —
the whole call sequence reports no error  ⇔  no Write call failed.  So a failing writer is
never silent; and because `run` stops at the first event returning an error, the failing
Write's own event is the one that reports it, and no event is written after it. -/
theorem encoder_reports_write_errors (xs : List XEv) (s : Enc) (h : Clean s.w) :
    ((run s xs).2 = none ↔ Clean (run s xs).1.w) := by
  have key : ∀ (xs : List XEv) (s : Enc) (i : Nat), Clean s.w →
      ((run.go s i xs).2 = none ↔ Clean (run.go s i xs).1.w) := by
    intro xs
    induction xs with
    | nil => intro s i h; simp [run.go, h]
    | cons x xs ih =>
      intro s i h
      simp only [run.go]
      have hs := step_clean x s h
      rcases hx : step s x with ⟨s1, ok⟩
      rw [hx] at hs
      cases ok with
      | true => simp only; exact ih _ _ (hs.mp rfl)
      | false =>
        simp only
        constructor
        · intro hc; simp at hc
        · intro hc; exact absurd (hs.mpr hc) (by simp)
  exact key xs s 0 h

/-- a fresh encoder over a writer failing from call k on is `Clean` -/
theorem clean_init (k : Option Nat) : Clean ({ failFrom := k } : Writer) := by
  intro k' _; simp

/-- non-vacuity: the 3rd Write (index 2) fails: `[1, "ab"]` needs 4 Writes, the error comes
from event index 2 (the string), nothing after it is attempted -/
example : (run { w := { failFrom := some 2 } } [.ev (.arrStart 2 0), .ev (.num .u8 1), .ev (.str [0x61, 0x62]), .ev .arrEnd]).2
    = some 2 := by decide +kernel

/-! ### the parser side: visitor errors -/

open SF.Cbor.Parse in
/-- feedUntil under a possibly failing visitor -/
theorem feedUntil_fault (f : Nat) (p : Parse.P) (b : Bytes) (h : Parse.NoFault p)
    (herr : p.err ≠ some .visitor) :
    Parse.GoodOut (Parse.feedUntil f p b).p (Parse.feedUntil f p b).err := by
  induction f generalizing p b with
  | zero => exact Parse.good_of_noFault h (by simp [Parse.feedUntil])
  | succ f ih =>
    simp only [Parse.feedUntil]
    have h1 := Parse.execStep_good p b h herr
    have h2 := SF.Props.C03.execStep_errf p b
    split
    · exact h1
    · split
      · exact h1
      · rename_i hne _
        have hnone : (Parse.execStep p b).err = none := by
          cases he : (Parse.execStep p b).err with
          | none => rfl
          | some e => simp [he] at hne
        rcases h1 with ⟨_, hq⟩ | ⟨he, _⟩
        · exact ih _ _ hq (by rw [h2]; exact herr)
        · rw [hnone] at he; simp at he

open SF.Cbor.Parse in
theorem feed_fault (fuel : Nat) (p : Parse.P) (b : Bytes) (h : Parse.NoFault p) (herr : p.err ≠ some .visitor) :
    Parse.GoodOut (Parse.feed fuel p b).1 (Parse.feed fuel p b).2 := by
  induction fuel generalizing p b with
  | zero => exact Parse.good_of_noFault h (by simp [Parse.feed])
  | succ fuel ih =>
    simp only [Parse.feed]
    split
    · exact Parse.good_of_noFault h (by simp)
    · have h1 := feedUntil_fault (Parse.fuelFor b) p b h herr
      cases he : (Parse.feedUntil (Parse.fuelFor b) p b).err with
      | some e => simp only; rw [he] at h1; exact h1
      | none =>
        simp only
        rw [he] at h1
        rcases h1 with ⟨_, hq⟩ | ⟨hv, _⟩
        · have herr' : (Parse.feedUntil (Parse.fuelFor b) p b).p.err ≠ some .visitor := by
            have := (SF.Props.C03.feedUntil_no_panic_errf (Parse.fuelFor b) p b)
            rw [this]; exact herr
          exact ih _ _ hq herr'
        · simp at hv

/-- C16 for the CBOR parser: for EVERY byte string (valid or not) and EVERY fault index k —
with a visitor that returns an error from its k-th event on, `cborl.Parse` either never
reached event k (at most k events delivered, and any error is the parser's own), or it
returns THE VISITOR'S error and event k is the last event delivered: nothing of the document
reaches the visitor after its error -/
theorem parser_returns_visitor_error (k : Nat) (b : Bytes) :
    let r := Parse.parse { failAt := some k } b
    (r.2 ≠ some .visitor ∧ r.1.evs.length ≤ k) ∨ (r.2 = some .visitor ∧ r.1.evs.length = k + 1) := by
  have hp0 : Parse.NoFault ({ failAt := some k } : Parse.P) := by
    intro k' _; simp
  have h := feed_fault (2 * b.length + 2) { failAt := some k } b hp0 (by simp)
  simp only [Parse.parse, Parse.feedAll]
  cases hf : Parse.feed (2 * b.length + 2) { failAt := some k } b with
  | mk q e =>
    rw [hf] at h
    have hfa : q.failAt = some k := by
      have := SF.Props.C16F.feed_fAt (2 * b.length + 2) { failAt := some k } b
      rw [hf] at this; simpa using this
    cases e with
    | some e =>
      simp only
      rcases h with ⟨hne, hq⟩ | ⟨he, k', hk', hl⟩
      · exact Or.inl ⟨hne, hq k hfa⟩
      · rw [hfa] at hk'; cases hk'; exact Or.inr ⟨he, hl⟩
    | none =>
      simp only
      rcases h with ⟨_, hq⟩ | ⟨he, _⟩
      · left
        refine ⟨?_, hq k hfa⟩
        simp only [Parse.finalize]; split <;> simp
      · simp at he

/-- … and the same for ANY chunking through `Write` (each `Write` either returns the visitor's
error with delivery stopped at event k, or no visitor error and at most k events so far) -/
theorem writeChunks_returns_visitor_error (cs : List Bytes) (p : Parse.P) (h : Parse.NoFault p)
    (herr : p.err = none) :
    Parse.GoodOut (Parse.writeChunks p cs).1 (Parse.writeChunks p cs).2 := by
  induction cs generalizing p with
  | nil =>
    simp only [Parse.writeChunks]
    exact Parse.good_of_noFault h (by simp only [Parse.finalize]; split <;> simp)
  | cons c cs ih =>
    simp only [Parse.writeChunks, Parse.write, Parse.feedAll]
    have h1 := feed_fault (2 * c.length + 2) p c h (by rw [herr]; simp)
    cases hf : Parse.feed (2 * c.length + 2) p c with
    | mk q e =>
      rw [hf] at h1
      cases e with
      | some e =>
        simp only
        exact Parse.goodOut_congr (p := q) rfl rfl h1
      | none =>
        simp only
        rcases h1 with ⟨_, hq⟩ | ⟨he, _⟩
        · exact ih _ (Parse.noFault_congr (p := q) rfl rfl hq) rfl
        · simp at he

/-- non-vacuity: the visitor fails at its 3rd event (index 2) of `[1, [2, 3]]` -/
example : (Parse.parse { failAt := some 2 } [0x82, 0x01, 0x82, 0x02, 0x03]).2 = some .visitor ∧
    (Parse.parse { failAt := some 2 } [0x82, 0x01, 0x82, 0x02, 0x03]).1.evs.length = 3 := by decide +kernel

end SF.Props.C16

/-! ## UBJSON encoder (SF/Ubjson/Enc.lean; proofs SF/Proofs/Ubj*.lean) -/

namespace SF.PropsUbj.C16
open SF SF.Ubjson SF.Ubjson.Enc SF.Ubjson.Wire
open SF.Cbor.Enc (small)
open SF.Props.UbjEnc

/-- C16 for the UBJSON encoder: for EVERY stream of (basic and extended) events, EVERY state whose
writer has not failed yet and EVERY fault index: the call sequence reports no error ⇔ no Write
failed; at most ONE Write ever fails (nothing is attempted after it) -/
theorem ubj_encoder_reports_write_errors (xs : List XEv) (s : Enc) (h : Clean s.w) :
    ((run s xs).2 = none ↔ Clean (run s xs).1.w) ∧ Stopped (run s xs).1.w ∧
      (run s xs).1.w.failFrom = s.w.failFrom :=
  SF.Props.UbjEnc.ubj_encoder_reports_write_errors xs s h

/-- anatomy of a failing run: the events before index `i` succeeded, event `i` is the one whose
own Write failed and THE ONE THAT RETURNED the error; no later event ran -/
theorem ubj_encoder_failing_event (xs : List XEv) (s s' : Enc) (i : Nat) (h : Clean s.w)
    (hr : run s xs = (s', some i)) :
    ∃ (pre post : List XEv) (x : XEv) (s1 : Enc),
      xs = pre ++ x :: post ∧ i = pre.length ∧
      run s pre = (s1, none) ∧ Clean s1.w ∧
      step s1 x = (s', false) ∧ ¬ Clean s'.w :=
  SF.Props.UbjEnc.ubj_encoder_failing_event xs s s' i h hr

/-- a new encoder over a writer failing from call k on has not failed yet (hypothesis met) -/
theorem ubj_clean_init (k : Option Nat) : Clean (newVisitor k).w := SF.Props.UbjEnc.ubj_clean_init k

example : (run (newVisitor (some 4)) [.ev .null, .numArr .i16 [-200, 5]]).2 = some 1 := by decide +kernel

end SF.PropsUbj.C16

/-! ## JSON encoder (SF/Json/Enc.lean; proofs SF/Proofs/JsonEnc*.lean) -/

namespace SF.PropsJson.C16
open SF SF.Json SF.Json.Enc SF.Json.Float ETree
open SF.Props.JsonEnc

/-- C16 for the JSON encoder, every stream × every state × every fault index: success implies
no Write failed; a failed Write implies an error is reported; an error index is reported iff the
result is not ok; and when no event has an error of its own (unsupported float), an error is
reported IFF a Write failed -/
theorem json_encoder_reports_write_errors (xs : List XEv) (s : Enc) (h : Clean s.w) :
    ((run s xs).2.2 = .ok → Clean (run s xs).1.w) ∧
    (¬ Clean (run s xs).1.w → (run s xs).2.2 = .err) ∧
    ((run s xs).2.1 = none ↔ (run s xs).2.2 = .ok) ∧
    ((∀ e ∈ expandAll xs, ownError s.ignoreInvalidFloat e = false) →
      ((run s xs).2.2 = .err ↔ ¬ Clean (run s xs).1.w)) :=
  SF.Props.JsonEnc.json_encoder_reports_write_errors xs s h

/-- … and for every stream the same visitor accepts over a healthy writer: success ⇔ no Write
failed, whatever the fault index -/
theorem json_encoder_success_iff_no_write_failed (xs : List XEv) (s : Enc) (h : Clean s.w)
    (w' : Writer) (hw : w'.failFrom = none) (hok : (run { s with w := w' } xs).2.2 = .ok) :
    ((run s xs).2.2 = .ok ↔ Clean (run s xs).1.w) :=
  SF.Props.JsonEnc.json_encoder_success_iff_no_write_failed xs s h w' hw hok

end SF.PropsJson.C16

/-! ## JSON parser refinement (SF/Json/Parse.lean; proofs SF/Proofs/JsonRefine*.lean) -/

namespace SF.PropsJsonP.C16
open SF SF.Json SF.Json.Parse SF.Json.Float SF.Json.ParseP SF.Json.Grammar
open SF.Json.RefineTop

/-- C16 for the JSON parser, `Parse`, EVERY byte string and fault index -/
theorem json_parser_returns_visitor_error (k : Nat) (b : Bytes) :
    ((parse (init (some k)) b).2 ≠ some .visitor ∧ (parse (init (some k)) b).1.evs.length ≤ k) ∨
    ((parse (init (some k)) b).2 = some .visitor ∧ (parse (init (some k)) b).1.evs.length = k + 1) :=
  SF.Json.RefineTop.json_parser_returns_visitor_error k b

/-- … and `Write*` + end of input (`ParseReader`), EVERY chunking -/
theorem json_writeChunks_returns_visitor_error (k : Nat) (cs : List Bytes) :
    ((writeChunks (init (some k)) cs).2 ≠ some .visitor ∧ (writeChunks (init (some k)) cs).1.evs.length ≤ k) ∨
    ((writeChunks (init (some k)) cs).2 = some .visitor ∧ (writeChunks (init (some k)) cs).1.evs.length = k + 1) :=
  SF.Json.RefineTop.json_writeChunks_returns_visitor_error k cs

end SF.PropsJsonP.C16


/-! ## UBJSON parser (proofs SF/Proofs/UbjChunkFault.lean, UbjChunkTop.lean) — unconditional -/

namespace SF.PropsUbjP.C16
open SF SF.Ubjson SF.Ubjson.Parse

/-- C16 for the UBJSON parser, `Parse`: for EVERY byte string (valid or not) and EVERY fault
index k — with a visitor that returns an error from its k-th event on, `ubjson.Parse` either
never reached event k (at most k events delivered, and any error is the parser's own), or it
returns THE VISITOR'S error and event k is the last event delivered: nothing of the document
reaches the visitor after its error -/
theorem ubj_parser_returns_visitor_error (k : Nat) (b : Bytes) :
    ((parse (init (some k)) b).2 ≠ some .visitor ∧ (parse (init (some k)) b).1.evs.length ≤ k) ∨
    ((parse (init (some k)) b).2 = some .visitor ∧ (parse (init (some k)) b).1.evs.length = k + 1) :=
  SF.Props.UbjChunk.ubj_parser_returns_visitor_error k b

/-- … and `Write*` + end of input (`ParseReader`), EVERY chunking -/
theorem ubj_writeChunks_returns_visitor_error (k : Nat) (cs : List Bytes) :
    ((writeChunks (init (some k)) cs).2 ≠ some .visitor ∧ (writeChunks (init (some k)) cs).1.evs.length ≤ k) ∨
    ((writeChunks (init (some k)) cs).2 = some .visitor ∧ (writeChunks (init (some k)) cs).1.evs.length = k + 1) :=
  SF.Props.UbjChunk.ubj_writeChunks_returns_visitor_error k cs

/-- with no fault index the visitor never fails: no visitor error is ever reported -/
theorem ubj_no_visitor_error (cs : List Bytes) : (writeChunks (init none) cs).2 ≠ some .visitor :=
  SF.Props.UbjChunk.ubj_no_visitor_error cs

/-- non-vacuity: the visitor fails at its 4th event (the first element of the typed array inside
the counted object): the error is the visitor's, 4 events were delivered — whole and byte by byte -/
example : (parse (init (some 3)) SF.Props.UbjChunk.doc).2 = some .visitor ∧
    (parse (init (some 3)) SF.Props.UbjChunk.doc).1.evs.length = 4 ∧
    (writeChunks (init (some 3)) (SF.Props.UbjChunk.doc.map fun x => [x])).2 = some .visitor ∧
    (writeChunks (init (some 3)) (SF.Props.UbjChunk.doc.map fun x => [x])).1.evs.length = 4 := by
  decide +kernel

end SF.PropsUbjP.C16


/-! ## gotype Fold (mirror SF/Gotype/Fold.lean; proofs SF/Proofs/FoldFault{Core,Opts,Run,Top}.lean)

Unconditional: EVERY type (supported or not), EVERY value, every option record, every fault index.
Only `deliver` reads the fault index and every control structure of the folders hands the first
non-ok result to its caller unchanged. -/

namespace SF.PropsFold.C16
open SF SF.Gotype SF.Gotype.Fold
open SF.FoldProofs.Fault (truncate)

/-- C16 for Fold, the whole statement in one equation: the fold on a visitor failing at its k-th
event IS the fold on the healthy visitor truncated at the fault — the first k+1 events and the
visitor's error when the healthy fold delivers more than k events, unchanged otherwise -/
theorem fold_fault_truncates (o : FoldOpts) (T : GoType) (v : GoVal) (k : Nat)
    (hk : o.failAt = some k) :
    impl o T v = truncate k (impl { o with failAt := none } T v) :=
  SF.FoldProofs.Fault.fold_fault_truncates o T v k hk

/-- … spelled out: either the fault was never reached (at most k events, result as without the
fault), or Fold returns THE VISITOR'S error and the failing event is the last one delivered;
what was delivered is a prefix of the healthy stream: nothing after the error, the error never
swallowed and never replaced -/
theorem fold_propagates_visitor_error (o : FoldOpts) (T : GoType) (v : GoVal) (k : Nat)
    (hk : o.failAt = some k) :
    ((impl o T v).evs.length ≤ k ∧ impl o T v = impl { o with failAt := none } T v ∨
     (impl o T v).res = .err .injected ∧ (impl o T v).evs.length = k + 1 ∧
       k < (impl { o with failAt := none } T v).evs.length) ∧
    (impl o T v).evs <+: (impl { o with failAt := none } T v).evs :=
  SF.FoldProofs.Fault.fold_propagates_visitor_error o T v k hk

/-- a fold that does NOT return the visitor's error did not reach the fault -/
theorem fold_ok_means_fault_not_reached (o : FoldOpts) (T : GoType) (v : GoVal) (k : Nat)
    (hk : o.failAt = some k) (hok : (impl o T v).res ≠ .err .injected) :
    (impl o T v).evs.length ≤ k ∧ impl o T v = impl { o with failAt := none } T v :=
  SF.FoldProofs.Fault.fold_ok_means_fault_not_reached o T v k hk hok

/-- non-vacuity: `map[string][]*int32{"a": {nil, &5}, "b": nil}` — 10 events on a healthy visitor;
with a fault at event 3 the visitor's error comes back after exactly 4 events; a fault index
beyond the stream is never reached -/
example :
    let T : GoType := .map .string (.slice (.ptr (.int .i32)))
    let v : GoVal := .map [(.str [97], .slice [.nilPtr, .ptr (.int 5)]), (.str [98], .nilSlice)]
    (impl {} T v).res = .ok ∧ (impl {} T v).evs.length = 10 ∧
    (impl { failAt := some 3 } T v).res = .err .injected ∧
    (impl { failAt := some 3 } T v).evs = (impl {} T v).evs.take 4 ∧
    (impl { failAt := some 10 } T v).res = .ok ∧
    (impl { failAt := some 10 } T v).evs = (impl {} T v).evs := by decide +kernel

end SF.PropsFold.C16


/-! ## the pull decoders (proofs SF/Proofs/{Cbor,Json,Ubj}DecFault.lean, DecFaultTop.lean) — unconditional

The decoder is created over a visitor that fails at its k-th event, counted over the WHOLE stream
(across `Next` calls) — the configuration of the op `decf`.  A trace entry is (result of the call,
events delivered in total so far); the trace ends with the first call that does not return `.ok`. -/

namespace SF.PropsDec.C16

/-- C16 for the CBOR reader-driven decoder: EVERY read script (empty reads anywhere), EVERY byte
content, EVERY fault index k, every number of calls, every fuel: either the fault was never
reached (no call returns the visitor's error, at most k events in total), or EXACTLY the last
call of the trace returns THE VISITOR'S error and the failing event is the last one delivered -/
theorem cbor_reader_decoder_returns_visitor_error (f : SF.Cbor.Dec.Dec → Nat) (k : Nat) (cs : List Bytes) (n : Nat) :
    (∀ x ∈ SF.Cbor.DecR.nextsF f n { reads := cs, p := { failAt := some k } }, x.1 ≠ .err .visitor ∧ x.2.length ≤ k) ∨
    (∃ pre evs, SF.Cbor.DecR.nextsF f n { reads := cs, p := { failAt := some k } } =
        pre ++ [(SF.Cbor.Dec.NextRes.err .visitor, evs)] ∧
      evs.length = k + 1 ∧ ∀ x ∈ pre, x.1 = .ok ∧ x.2.length ≤ k) :=
  SF.Props.DecFault.Cbor.reader_decoder_returns_visitor_error f k cs n

/-- … entry by entry: a call returns the visitor's error IFF k+1 events have been delivered in
total, and never more than k+1 are: not swallowed, not replaced, nothing after it -/
theorem cbor_reader_decoder_visitor_error_iff (f : SF.Cbor.Dec.Dec → Nat) (k : Nat) (cs : List Bytes) (n : Nat) :
    ∀ x ∈ SF.Cbor.DecR.nextsF f n { reads := cs, p := { failAt := some k } },
      (x.1 = .err .visitor ↔ x.2.length = k + 1) ∧ x.2.length ≤ k + 1 :=
  SF.Props.DecFault.Cbor.reader_decoder_visitor_error_iff f k cs n

/-- … the CBOR byte-slice decoder -/
theorem cbor_bytes_decoder_visitor_error_iff (f : SF.Cbor.Dec.Dec → Nat) (k : Nat) (b : Bytes) (n : Nat) :
    ∀ x ∈ SF.Cbor.DecR.nextsF f n { hasReader := false, buffer := b, p := { failAt := some k } },
      (x.1 = .err .visitor ↔ x.2.length = k + 1) ∧ x.2.length ≤ k + 1 :=
  SF.Props.DecFault.Cbor.bytes_decoder_visitor_error_iff f k b n

/-- C16 for the JSON reader-driven decoder: EVERY read script, BOTH ways the end is signalled,
EVERY buffer size, EVERY byte content, EVERY fault index -/
theorem json_reader_decoder_returns_visitor_error (f : SF.Json.Dec.Dec → Nat) (k : Nat) (cs : List Bytes) (e : Bool)
    (bs : Int) (n : Nat) :
    (∀ x ∈ SF.Json.DecP.nextsF f n { SF.Json.Dec.newDecoder { chunks := cs, lastEOF := e } bs with p := SF.Json.Parse.init (some k) },
      x.1 ≠ .err .visitor ∧ x.2.length ≤ k) ∨
    (∃ pre evs, SF.Json.DecP.nextsF f n { SF.Json.Dec.newDecoder { chunks := cs, lastEOF := e } bs with p := SF.Json.Parse.init (some k) } =
        pre ++ [(SF.Json.Dec.NextRes.err .visitor, evs)] ∧
      evs.length = k + 1 ∧ ∀ x ∈ pre, x.1 = .ok ∧ x.2.length ≤ k) :=
  SF.Props.DecFault.Json.reader_decoder_returns_visitor_error f k cs e bs n

theorem json_reader_decoder_visitor_error_iff (f : SF.Json.Dec.Dec → Nat) (k : Nat) (cs : List Bytes) (e : Bool)
    (bs : Int) (n : Nat) :
    ∀ x ∈ SF.Json.DecP.nextsF f n { SF.Json.Dec.newDecoder { chunks := cs, lastEOF := e } bs with p := SF.Json.Parse.init (some k) },
      (x.1 = .err .visitor ↔ x.2.length = k + 1) ∧ x.2.length ≤ k + 1 :=
  SF.Props.DecFault.Json.reader_decoder_visitor_error_iff f k cs e bs n

theorem json_bytes_decoder_visitor_error_iff (f : SF.Json.Dec.Dec → Nat) (k : Nat) (b : Bytes) (n : Nat) :
    ∀ x ∈ SF.Json.DecP.nextsF f n { SF.Json.Dec.newBytesDecoder b with p := SF.Json.Parse.init (some k) },
      (x.1 = .err .visitor ↔ x.2.length = k + 1) ∧ x.2.length ≤ k + 1 :=
  SF.Props.DecFault.Json.bytes_decoder_visitor_error_iff f k b n

/-- C16 for the UBJSON reader-driven decoder (no fuel proviso: a call that runs out of the mirror's
fuel has delivered at most k events or returns the visitor's error) -/
theorem ubj_reader_decoder_returns_visitor_error (f : SF.Ubjson.Dec.Dec → Nat) (k : Nat) (cs : List Bytes)
    (lastEOF : Bool) (bufsize : Nat) (n : Nat) :
    (∀ x ∈ SF.Ubjson.DecR.nextsF f n { SF.Ubjson.Dec.newDecoder cs lastEOF bufsize with p := SF.Ubjson.Parse.init (some k) },
      x.1 ≠ .err .visitor ∧ x.2.length ≤ k) ∨
    (∃ pre evs, SF.Ubjson.DecR.nextsF f n { SF.Ubjson.Dec.newDecoder cs lastEOF bufsize with p := SF.Ubjson.Parse.init (some k) } =
        pre ++ [(SF.Ubjson.Dec.NextRes.err .visitor, evs)] ∧
      evs.length = k + 1 ∧ ∀ x ∈ pre, x.1 = .ok ∧ x.2.length ≤ k) :=
  SF.Props.DecFault.Ubj.reader_decoder_returns_visitor_error f k cs lastEOF bufsize n

theorem ubj_reader_decoder_visitor_error_iff (f : SF.Ubjson.Dec.Dec → Nat) (k : Nat) (cs : List Bytes)
    (lastEOF : Bool) (bufsize : Nat) (n : Nat) :
    ∀ x ∈ SF.Ubjson.DecR.nextsF f n { SF.Ubjson.Dec.newDecoder cs lastEOF bufsize with p := SF.Ubjson.Parse.init (some k) },
      (x.1 = .err .visitor ↔ x.2.length = k + 1) ∧ x.2.length ≤ k + 1 :=
  SF.Props.DecFault.Ubj.reader_decoder_visitor_error_iff f k cs lastEOF bufsize n

theorem ubj_bytes_decoder_visitor_error_iff (f : SF.Ubjson.Dec.Dec → Nat) (k : Nat) (b : Bytes) (n : Nat) :
    ∀ x ∈ SF.Ubjson.DecR.nextsF f n { SF.Ubjson.Dec.newBytesDecoder b with p := SF.Ubjson.Parse.init (some k) },
      (x.1 = .err .visitor ↔ x.2.length = k + 1) ∧ x.2.length ≤ k + 1 :=
  SF.Props.DecFault.Ubj.bytes_decoder_visitor_error_iff f k b n

/-- non-vacuity (CBOR): `[1, 2]` `[3, 4]` in four small reads (one empty), the visitor failing at
its 6th event: one successful call, then the visitor's error after exactly 6 events; a fault index
beyond the stream is never reached -/
example :
    SF.Cbor.DecR.nexts 3 { reads := [[0x82, 0x01], [0x02, 0x82], [], [0x03, 0x04]], p := { failAt := some 5 } } =
      [(.ok, [.arrStart 2 BT.any, .num .u8 1, .num .u8 2, .arrEnd]),
       (.err .visitor, [.arrStart 2 BT.any, .num .u8 1, .num .u8 2, .arrEnd, .arrStart 2 BT.any, .num .u8 3])] ∧
    (SF.Cbor.DecR.nexts 3 { reads := [[0x82, 0x01], [0x02, 0x82], [], [0x03, 0x04]], p := { failAt := some 8 } }).map (·.1) =
      [.ok, .ok, .eof] := by
  decide +kernel

end SF.PropsDec.C16
