/-
  C07 — each encoder emits only valid documents that an independent decoder reads back.

  CBOR instance proved in full against the specification SF/Cbor/Cst.lean (grammar `Item`,
  `wire`, executable reference decoder `decode` — independent of the library's parser);
  UBJSON / JSON: executable mirror + correspondence + oracle (see evidence).
-/
import SF.Proofs.CborEnc
import SF.Proofs.CborDecode
import SF.Props.C01
namespace SF.Props.C07
open SF SF.Cbor SF.Cbor.Cst SF.Props.C01

/-- C07 for CBOR: for every well-formed event stream (tree `t`, in-range numbers) the bytes
the encoder writes are the wire form of a well-formed RFC 7049 item (`ok`), the reference
decoder reads that item back, consuming every byte, and its value is the value of the
stream. -/
theorem cbor_output_valid (t : ETree) (hw : t.wf = true) (hs : Enc.small t = true) :
    ∃ i : Item, i.ok = true ∧ cborBytes t = i.wire ∧ decode (cborBytes t) = .ok (i, []) ∧ i.value = t.value := by
  refine ⟨Enc.toItem t, Enc.toItem_ok t hs, ?_, ?_, Enc.toItem_value t hs⟩
  · simp [cborBytes, cbor_encode t hw hs, Enc.Enc.emit]
  · have henc : cborBytes t = (Enc.toItem t).wire := by simp [cborBytes, cbor_encode t hw hs, Enc.Enc.emit]
    have := decode_wire (Enc.toItem t) (Enc.toItem_ok t hs) []
    simpa [henc] using this

/-- the specification's own round trip (every well-formed item, any widths): `decode ∘ wire = id` -/
theorem spec_roundtrip (i : Item) (h : i.ok = true) (rest : Bytes) : decode (i.wire ++ rest) = .ok (i, rest) :=
  decode_wire i h rest

/-- non-vacuity -/
example : (decode (cborBytes exT)).toOption.map (fun r => r.1.value == exT.value && r.2.isEmpty) = some true := by
  decide +kernel

end SF.Props.C07
