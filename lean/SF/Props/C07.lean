/-
  C07 — each encoder emits only valid documents that an independent decoder reads back.

  CBOR instance proved in full against the specification SF/Cbor/Cst.lean (grammar `Item`,
  `wire`, executable reference decoder `decode` — independent of the library's parser);
  UBJSON / JSON: executable mirror + correspondence + oracle (see evidence).

  UBJSON ENCODER (namespace `SF.PropsUbj.C07`): for every contract-conforming tree (also with
  extended events) the bytes are the wire form of a well-formed UBJSON item, the reference
  decoder reads them back as exactly one value, equal to the tree's value up to the documented
  representation change (unsigned above MaxInt64 ↦ high-precision string), exactly equal
  otherwise; and the specification's own round trip `decode ∘ wire = value`.

  JSON ENCODER (namespace `SF.PropsJson.C07`): for EVERY byte string (valid UTF-8 or not) and
  both escape modes the string token is a valid RFC 8259 string (own structural recogniser), has
  no byte < 0x20 (nor `<`, `>`, `&` with HTML escaping), and the reference decoder reads it back
  as the string itself (invalid bytes ↦ U+FFFD); every 64-bit integer is written as its canonical
  decimal literal; every float-free document is accepted by the reference decoder with the
  document's value.
-/
import SF.Proofs.CborEnc
import SF.Proofs.CborDecode
import SF.Props.C01
import SF.Proofs.UbjEncTop
import SF.Proofs.UbjApproxOracle
import SF.Proofs.JsonEncTop
namespace SF.Props.C07
open SF SF.Cbor SF.Cbor.Cst SF.Props.C01

/-- C07 for CBOR: for every well-formed event stream (tree `t`, in-range numbers) the bytes
the encoder writes are the wire form of a well-formed RFC 7049 item (`ok`), the reference
decoder reads that item back, consuming every byte, and its value is the value of the
stream. -/
theorem cbor_output_valid (t : ETree) (hw : t.wf = true) (hs : Enc.small t = true) :
    ∃ i : Item, i.ok = true ∧ cborBytes t = i.wire ∧ decode (cborBytes t) = .ok (i, []) ∧ i.value = t.value := by
  refine ⟨Enc.toItem t, Enc.toItem_ok t hs, ?_, ?_, Enc.toItem_value t hs⟩
  · simp [cborBytes, cbor_encode t hw hs, Enc.Enc.emit]
  · have henc : cborBytes t = (Enc.toItem t).wire := by simp [cborBytes, cbor_encode t hw hs, Enc.Enc.emit]
    have := decode_wire (Enc.toItem t) (Enc.toItem_ok t hs) []
    simpa [henc] using this

/-- the specification's own round trip (every well-formed item, any widths): `decode ∘ wire = id` -/
theorem spec_roundtrip (i : Item) (h : i.ok = true) (rest : Bytes) : decode (i.wire ++ rest) = .ok (i, rest) :=
  decode_wire i h rest

/-- non-vacuity -/
example : (decode (cborBytes exT)).toOption.map (fun r => r.1.value == exT.value && r.2.isEmpty) = some true := by
  decide +kernel

end SF.Props.C07

/-! ## UBJSON encoder (SF/Ubjson/Enc.lean; proofs SF/Proofs/Ubj*.lean) -/

namespace SF.PropsUbj.C07
open SF SF.Ubjson SF.Ubjson.Enc SF.Ubjson.Wire
open SF.Cbor.Enc (small)
open SF.Props.UbjEnc

/-- C07 / C01 for UBJSON: for EVERY contract-conforming event tree the encoder's bytes are the
wire form of a well-formed item, the reference decoder accepts them — consuming every byte — as
exactly one value, which is the tree's value up to `approx` (= the oracle's `approxUbj`), and
EXACTLY the tree's value when no number exceeds MaxInt64 -/
theorem ubj_output_valid (t : ETree) (hw : t.wf = true) (hs : small t = true) :
    ∃ i : UItem, i.ok = true ∧ ubjBytes t = i.wire ∧
      Cst.decodeStream (ubjBytes t) = .ok [i.value] ∧
      approx t.value i.value = true ∧ (noBig t = true → i.value = t.value) :=
  SF.Props.UbjEnc.ubj_output_valid t hw hs

/-- … and for documents mixing basic and extended events -/
theorem ubj_output_valid_ext (T : XTree) (hl : T.leavesOk = true) (hw : T.expand.wf = true)
    (hs : small T.expand = true) :
    build (expandAll T.events) = some T.expand.value ∧ WF1 (expandAll T.events) = true ∧
    ∃ i : UItem, i.ok = true ∧ encAll T.events = i.wire ∧
      Cst.decodeStream (encAll T.events) = .ok [i.value] ∧
      approx T.expand.value i.value = true ∧ (noBig T.expand = true → i.value = T.expand.value) :=
  SF.Props.UbjEnc.ubj_output_valid_ext T hl hw hs

/-- the specification's own round trip for the UBJSON grammar (plain, counted and typed
containers, any length marker): `decode ∘ wire = value` -/
theorem ubj_spec_roundtrip_stream (is : List UItem) (h : okList is = true) :
    Cst.decodeStream (wireList is) = .ok (Wire.valueList is) :=
  SF.Props.UbjEnc.ubj_spec_roundtrip_stream is h

/-- the relation used is the oracle's -/
theorem approx_is_oracle (a b : Val) : approx a b = SF.Ops.approxUbj a b := SF.Ubjson.Enc.approx_eq_oracle a b

end SF.PropsUbj.C07

/-! ## JSON encoder (SF/Json/Enc.lean; proofs SF/Proofs/JsonEnc*.lean) -/

namespace SF.PropsJson.C07
open SF SF.Json SF.Json.Enc SF.Json.Float ETree
open SF.Props.JsonEnc

/-- C07 (string core): for EVERY byte string and both escape modes the bytes written for a
string / key are a valid RFC 8259 string token (recogniser `isJsonString`: quote, then legal
unescaped ASCII, well-formed RFC 3629 sequences, or well-formed escapes, closing quote) -/
theorem string_token_valid (html : Bool) (s : Bytes) : isJsonString (strToken html s) = true :=
  SF.Props.JsonEnc.string_token_valid html s

/-- … every control byte is escaped; with HTML escaping also `&`, `<`, `>` -/
theorem string_token_bytes (html : Bool) (s : Bytes) :
    (∀ x ∈ strToken html s, 0x20 ≤ x.toNat) ∧
    (html = true → ∀ x ∈ strToken html s, x.toNat ≠ 0x26 ∧ x.toNat ≠ 0x3C ∧ x.toNat ≠ 0x3E) :=
  SF.Props.JsonEnc.string_token_bytes html s

/-- … and the reference decoder reads the token back as the string itself (each byte outside a
well-formed UTF-8 sequence replaced by U+FFFD; `sanitize s = s` for valid UTF-8) -/
theorem string_token_decode (html : Bool) (s : Bytes) :
    ∃ v, Cst.decode (strToken html s) = .ok [v] false ∧ v = .str (sanitize s) :=
  SF.Props.JsonEnc.string_token_decode html s

theorem sanitize_of_valid (s : Bytes) (h : validUtf8 s = true) : sanitize s = s :=
  SF.Props.JsonEnc.sanitize_of_valid s h

/-- C07 (integer core): every integer in the range of its kind is written as its canonical
decimal literal, which the reference decoder reads back as that integer -/
theorem int_literal_decode (o : Enc) (k : NumKind) (v : Int) (h : k.inRange v = true) :
    text o (.num k v) = intLit v ∧ ∃ x, Cst.decode (intLit v) = .ok [x] false ∧ x = .int v :=
  SF.Props.JsonEnc.int_literal_decode o k v h

theorem int_literal_valid (v : Int) : isJsonInt (intLit v) = true ∧ jsonIntValue (intLit v) = v :=
  SF.Props.JsonEnc.int_literal_valid v

/-- C07 / C01 (structure): for EVERY float-free document with in-range numbers and valid UTF-8
strings — any nesting, empty containers, any announced lengths — the encoder succeeds and the
reference decoder accepts its whole output as exactly one value: the document's value -/
theorem json_output_decodes (o : Enc) (t : ETree) (hp : plain t = true) (hu : utf8Tree t = true)
    (hw : o.w = {}) (ha : o.inArray.current = false) :
    (run o (t.events.map .ev)).2 = (none, .ok) ∧
    ∃ v, Cst.decode (encAll o (t.events.map .ev)) = .ok [v] false ∧ v = t.value :=
  SF.Props.JsonEnc.json_output_decodes o t hp hu hw ha

end SF.PropsJson.C07
