/-
  C18 — pull decoders deliver one top-level value per Next and then io.EOF.

  Proved IN FULL for the CBOR decoder mirror (SF/Cbor/Dec.lean), byte-slice and reader-driven:
    * `reader_decoder_stream`: for every stream of k supported items and EVERY way of splitting
      its bytes into reads (any read sizes, `(0, nil)` reads anywhere, data arriving with the
      end of the script), k calls to Next succeed — the i-th having delivered exactly the
      events of the first i items — and the (k+1)-th reports a clean EOF; no call runs out of
      fuel (the loop of `Next` terminates);
    * `reader_decoder_truncated(_one)`: if the bytes end in the middle of an item, the call
      after the complete items returns `unexpectedEOF` — never a clean EOF, never ok;
    * `reader_chunking_independent`, `reader_eq_bytes_decoder`: for ARBITRARY bytes (valid or
      not) the sequence of results and events does not depend on the read sizes and equals
      that of the byte-slice decoder on the concatenation; `reader_never_outOfFuel`;
    * the byte-slice forms `next_one`, `bytes_decoder_stream`, `eof_not_clean`.
  Proofs: SF/Proofs/CborDec{Bytes,Until,Next,ReaderTop}.lean, on top of the chunk-independence
  (C02) and termination / truncation (C03) developments.  UBJSON and JSON decoders: mirror +
  correspondence (read scripts, buffer sizes 1…4096) + oracle.
-/
import SF.Proofs.CborDecReaderTop
import SF.Proofs.UbjDecTop
import SF.Proofs.JsonDecTop
namespace SF.Props.C18
open SF SF.Cbor SF.Cbor.Cst SF.Cbor.Parse SF.Cbor.Dec SF.Cbor.DecR

/-- one Next on a buffer that starts with a complete supported item: it succeeds, delivers
exactly that item's events and none of what follows, and keeps the remainder -/
theorem next_one (t : Item) (ht : t.ok = true) (rest : Bytes) (evs : List Ev) (d : Dec)
    (hp : d.p = idle evs) (hb : d.buffer = t.wire ++ rest) (fuel : Nat) :
    next (fuel + 1) d = ({ d with p := idle (t.events.reverse ++ evs), buffer := rest }, .ok) :=
  SF.Cbor.DecBytes.next_one t ht rest evs d hp hb fuel

/-- C18 for the CBOR byte-slice decoder: for EVERY stream of k supported items, k calls to
Next succeed, the i-th delivering exactly the events of the i-th item and nothing of the
following one, and the (k+1)-th call reports io.EOF -/
theorem bytes_decoder_stream (ts : List Item) (h : okList ts = true) :
    ∀ (d : Dec) (evs : List Ev), d.hasReader = false → d.p = idle evs → d.buffer = wireList ts →
      SF.Cbor.DecBytes.runNexts (ts.length + 1) d = ts.map (fun t => (NextRes.ok, t.events)) ++ [(NextRes.eof, [])] :=
  SF.Cbor.DecBytes.bytes_decoder_stream ts h

/-- the end of the input inside a value is never a clean EOF -/
theorem eof_not_clean (d : Dec) (h : finalize d.p ≠ none) : eof d = .unexpectedEOF :=
  SF.Cbor.DecBytes.eof_not_clean d h

/-- C18 for the READER-DRIVEN decoder: every stream of supported items, EVERY split into reads
(`cs.flatten = wireList ts`; empty reads allowed anywhere), any sufficient fuel `f`: the trace of
`ts.length + 1` calls is ok × k with exactly the events of the first i items after call i, then
a clean EOF.  The trace does not mention `cs`. -/
theorem reader_decoder_stream (f : Dec → Nat) (hf : Enough f) (ts : List Item) (h : okList ts = true)
    (cs : List Bytes) (hcs : cs.flatten = wireList ts) :
    nextsF f (ts.length + 1) { reads := cs } =
      (List.range ts.length).map (fun i => (NextRes.ok, eventsList (ts.take (i + 1)))) ++
        [(NextRes.eof, eventsList ts)] :=
  SF.Cbor.DecR.reader_decoder_stream f hf ts h cs hcs

/-- the fuel the model hands out is sufficient everywhere -/
theorem enough_nextFuel : Enough nextFuel := SF.Cbor.DecR.enough_nextFuel

/-- TRUNCATION: items `ts` followed by a proper non-empty prefix of one more item, in any
split into reads: after the complete items the next call returns `unexpectedEOF` -/
theorem reader_decoder_truncated (f : Dec → Nat) (hf : Enough f) (ts : List Item) (h : okList ts = true)
    (t : Item) (ht : t.ok = true) (k : Nat) (hk0 : 0 < k) (hk : k < t.wire.length)
    (cs : List Bytes) (hcs : cs.flatten = wireList ts ++ t.wire.take k) :
    nextsF f (ts.length + 1) { reads := cs } =
      (List.range ts.length).map (fun i => (NextRes.ok, eventsList (ts.take (i + 1)))) ++
        [(NextRes.unexpectedEOF,
          Parse.events (feedUntil (fuelFor (t.wire.take k)) (idle (eventsList ts).reverse) (t.wire.take k)).p)] :=
  SF.Cbor.DecR.reader_decoder_truncated f hf ts h t ht k hk0 hk cs hcs

/-- … as a statement about one call -/
theorem reader_decoder_truncated_one (t : Item) (ht : t.ok = true) (k : Nat) (hk0 : 0 < k)
    (hk : k < t.wire.length) (cs : List Bytes) (hcs : cs.flatten = t.wire.take k) (fuel : Nat)
    (hf : cs.length + 1 ≤ fuel) :
    (next fuel { reads := cs }).2 = .unexpectedEOF :=
  SF.Cbor.DecR.reader_decoder_truncated_one t ht k hk0 hk cs hcs fuel hf

/-- ARBITRARY BYTES: any two read scripts with the same concatenation give the same sequence
of results and the same accumulated events, call by call, up to and including the first
non-ok result -/
theorem reader_chunking_independent (f : Dec → Nat) (hf : Enough f) (cs₁ cs₂ : List Bytes)
    (h : cs₁.flatten = cs₂.flatten) (n : Nat) :
    nextsF f n { reads := cs₁ } = nextsF f n { reads := cs₂ } :=
  SF.Cbor.DecR.reader_chunking_independent f hf cs₁ cs₂ h n

/-- … and it is the sequence the byte-slice decoder produces on the concatenation -/
theorem reader_eq_bytes_decoder (f : Dec → Nat) (hf : Enough f) (cs : List Bytes) (n : Nat) :
    nextsF f n { reads := cs } = nextsF f n { hasReader := false, buffer := cs.flatten } :=
  SF.Cbor.DecR.reader_eq_bytes_decoder f hf cs n

/-- `Decoder.Next` terminates on ANY bytes in ANY split into reads -/
theorem reader_never_outOfFuel (cs : List Bytes) (n : Nat) :
    ∀ x ∈ nexts n { reads := cs }, x.1 ≠ .err .outOfFuel :=
  SF.Cbor.DecR.reader_never_outOfFuel cs n

/-- non-vacuity: `[1, 2]` then `1`, cut after the array head, with a `(0, nil)` read; and a
truncated stream -/
example :
    nexts 3 { reads := [[0x82], [], [0x01, 0x02, 0x01]] } =
      [(.ok, [.arrStart 2 BT.any, .num .u8 1, .num .u8 2, .arrEnd]),
       (.ok, [.arrStart 2 BT.any, .num .u8 1, .num .u8 2, .arrEnd, .num .u8 1]),
       (.eof, [.arrStart 2 BT.any, .num .u8 1, .num .u8 2, .arrEnd, .num .u8 1])] ∧
    nexts 2 { reads := [[0x01, 0x82], [], [0x01, 0x62], [0x61]] } =
      [(.ok, [.num .u8 1]), (.unexpectedEOF, [.num .u8 1, .arrStart 2 BT.any, .num .u8 1])] := by
  decide +kernel

end SF.Props.C18


/-! ## UBJSON decoder (mirror SF/Ubjson/Dec.lean; proofs SF/Proofs/UbjDec{Base,Until,Next,Stack,Reader,Any,Bytes,Top}.lean)

The parser mirror grants a FUEL per buffer it is handed (`8·|buffer| + 2000000` iterations; the Go
loop has none).  For the reader-driven decoder this makes the fuel depend on how the bytes are cut,
so the reader theorems carry a side condition on the cost of each item (`vcost`, at most
`3·|wire| + 2·(payload-free typed elements)`; `cheap_of_size`) — shown necessary for the mirror by
an evaluated counterexample (a typed array of 10^6 nulls nested ten deep, SF/Proofs/UbjDecTop.lean).
The byte-slice theorem needs only `free ≤ 10^6` as the parser theorems do. -/

namespace SF.PropsUbjD.C18
open SF SF.Ubjson SF.Ubjson.Parse SF.Ubjson.Dec SF.Ubjson.Syn SF.Ubjson.DecR

/-- C18 for the UBJSON BYTE-SLICE decoder: for EVERY stream of k grammatical items — no-ops
before each and at the end —, k calls to Next succeed, the events accumulated after the i-th
being exactly those of the first i items, and the (k+1)-th call reports io.EOF -/
theorem ubj_bytes_decoder_stream (xs : List (Nat × Item)) (trail : Nat)
    (hok : okElems xs = true) (hfree : ∀ nx ∈ xs, free nx.2 ≤ 1000000) :
    nexts (xs.length + 1) (newBytesDecoder (wireStream xs trail)) =
      (List.range xs.length).map (fun i => (NextRes.ok, evElems (xs.take (i + 1)))) ++
        [(NextRes.eof, evElems xs)] :=
  SF.Props.UbjDec.bytes_decoder_stream_nextFuel xs trail hok hfree

/-- C18 for the READER-DRIVEN UBJSON decoder.  For EVERY stream of grammatical items, EVERY script
`cs` of chunks with that concatenation (empty chunks = `(0, nil)` reads anywhere), BOTH values of
`lastEOF` (data arriving together with io.EOF), EVERY buffer size ≥ 1 and any sufficient loop
fuel: one successful call per item with exactly its events, then `.eof`.  The trace mentions
neither `cs` nor `lastEOF` nor `bufsize`. -/
theorem ubj_reader_decoder_stream (f : Dec → Nat) (hf : Enough f) (xs : List (Nat × Item)) (trail : Nat)
    (hok : okElems xs = true) (hc : ∀ nx ∈ xs, nx.1 + vcost nx.2 + 2 ≤ 2000000) (ht : trail + 2 ≤ 2000000)
    (cs : List Bytes) (lastEOF : Bool) (bufsize : Nat) (hbs : 1 ≤ bufsize)
    (hcs : cs.flatten = wireStream xs trail) :
    nextsF f (xs.length + 1) (newDecoder cs lastEOF bufsize) =
      (List.range xs.length).map (fun i => (NextRes.ok, evElems (xs.take (i + 1)))) ++
        [(NextRes.eof, evElems xs)] :=
  SF.Props.UbjDec.reader_decoder_stream f hf xs trail hok hc ht cs lastEOF bufsize hbs hcs

theorem ubj_enough_nextFuel : Enough nextFuel := SF.Props.UbjDec.enough_nextFuel

/-- the side condition in terms of sizes -/
theorem ubj_cheap_of_size (n : Nat) (x : Item) (h : n + 3 * x.wire.length + 2 * free x + 1 ≤ 2000000) :
    n + vcost x + 2 ≤ 2000000 :=
  SF.Props.UbjDec.cheap_of_size n x h

/-- C18, TRUNCATION: complete items followed — after no-ops — by a proper non-empty prefix of one
more grammatical item, in ANY script / buffer size / `lastEOF`: after `xs.length` successful calls
the next call returns an ERROR of the end-of-input check — not `.eof`, not `.ok` -/
theorem ubj_reader_decoder_truncated (f : Dec → Nat) (hf : Enough f) (xs : List (Nat × Item))
    (hok : okElems xs = true) (hc : ∀ nx ∈ xs, nx.1 + vcost nx.2 + 2 ≤ 2000000)
    (n : Nat) (x : Item) (hx : x.ok = true) (hcx : n + vcost x + 2 ≤ 2000000) (k : Nat) (hk0 : 0 < k)
    (hk : k < x.wire.length)
    (cs : List Bytes) (lastEOF : Bool) (bufsize : Nat) (hbs : 1 ≤ bufsize)
    (hcs : cs.flatten = wireElems xs ++ (noops n ++ x.wire.take k)) :
    ∃ e evs, (e = .incomplete ∨ e = .missingArrEnd ∨ e = .missingObjEnd) ∧
      nextsF f (xs.length + 1) (newDecoder cs lastEOF bufsize) =
        (List.range xs.length).map (fun i => (NextRes.ok, evElems (xs.take (i + 1)))) ++ [(NextRes.err e, evs)] :=
  SF.Props.UbjDec.reader_decoder_truncated f hf xs hok hc n x hx hcx k hk0 hk cs lastEOF bufsize hbs hcs

/-- `Decoder.Next` NEVER PANICS: ANY bytes in ANY script with ANY buffer size and fuel -/
theorem ubj_next_never_panics (f : Dec → Nat) (cs : List Bytes) (lastEOF : Bool) (bufsize : Nat) (n : Nat) :
    ∀ y ∈ nextsF f n (newDecoder cs lastEOF bufsize), y.1 ≠ .err .panic :=
  SF.Props.UbjDec.next_never_panics f cs lastEOF bufsize n

/-- the loop of `Decoder.Next` terminates on ANY bytes: any two sufficient loop fuels give the same
trace (an `outOfFuel` in a trace is only ever the parser's per-buffer fuel: event floods) -/
theorem ubj_nexts_loop_fuel_irrelevant (f₁ f₂ : Dec → Nat) (hf₁ : Enough f₁) (hf₂ : Enough f₂) (cs : List Bytes)
    (lastEOF : Bool) (bufsize : Nat) (hbs : 1 ≤ bufsize) (n : Nat) :
    nextsF f₁ n (newDecoder cs lastEOF bufsize) = nextsF f₂ n (newDecoder cs lastEOF bufsize) :=
  SF.Props.UbjDec.nexts_loop_fuel_irrelevant f₁ f₂ hf₁ hf₂ cs lastEOF bufsize hbs n

/-- READ SIZES DO NOT MATTER, for ARBITRARY bytes (valid, invalid or truncated): any two scripts
with the same concatenation — any buffer sizes ≥ 1, any `lastEOF` flags — give the same sequence
of `Next` results and accumulated events, provided neither trace contains the model's `outOfFuel` -/
theorem ubj_reader_chunking_independent (f : Dec → Nat) (hf : Enough f) (cs₁ cs₂ : List Bytes)
    (e₁ e₂ : Bool) (n₁ n₂ : Nat) (hn₁ : 1 ≤ n₁) (hn₂ : 1 ≤ n₂) (h : cs₁.flatten = cs₂.flatten) (n : Nat)
    (hno₁ : ∀ y ∈ nextsF f n (newDecoder cs₁ e₁ n₁), y.1 ≠ .err .outOfFuel)
    (hno₂ : ∀ y ∈ nextsF f n (newDecoder cs₂ e₂ n₂), y.1 ≠ .err .outOfFuel) :
    nextsF f n (newDecoder cs₁ e₁ n₁) = nextsF f n (newDecoder cs₂ e₂ n₂) :=
  SF.Props.UbjDec.reader_chunking_independent f hf cs₁ cs₂ e₁ e₂ n₁ n₂ hn₁ hn₂ h n hno₁ hno₂

/-- … and it is the sequence the byte-slice decoder produces on the concatenation -/
theorem ubj_reader_eq_bytes_decoder (f : Dec → Nat) (hf : Enough f) (cs : List Bytes) (e : Bool) (bufsize : Nat)
    (hbs : 1 ≤ bufsize) (n : Nat)
    (hno₁ : ∀ y ∈ nextsF f n (newDecoder cs e bufsize), y.1 ≠ .err .outOfFuel)
    (hno₂ : ∀ y ∈ nextsF f n (newBytesDecoder cs.flatten), y.1 ≠ .err .outOfFuel) :
    nextsF f n (newDecoder cs e bufsize) = nextsF f n (newBytesDecoder cs.flatten) :=
  SF.Props.UbjDec.reader_eq_bytes_decoder f hf cs e bufsize hbs n hno₁ hno₂

/-- non-vacuity: `N [#i 2 Z T` `i 5` `N` as a byte slice; a truncated stream in reads that cut the
array header, `io.EOF` with the data and after it -/
example :
    nexts 3 (newBytesDecoder [0x4e, 0x5b, 0x23, 0x69, 0x02, 0x5a, 0x54, 0x69, 0x05, 0x4e]) =
      [(.ok, [.arrStart 2 BT.any, .null, .bool true, .arrEnd]),
       (.ok, [.arrStart 2 BT.any, .null, .bool true, .arrEnd, .num .i8 5]),
       (.eof, [.arrStart 2 BT.any, .null, .bool true, .arrEnd, .num .i8 5])] ∧
    nexts 2 (newDecoder [[0x5a, 0x5b, 0x23], [], [0x69, 0x02, 0x5a, 0x53], [0x69, 0x02]] true 3) =
      [(.ok, [.null]), (.err .incomplete, [.null, .arrStart 2 BT.any, .null])] ∧
    nexts 2 (newDecoder [[0x5a, 0x5b, 0x23], [], [0x69, 0x02, 0x5a]] false 3) =
      [(.ok, [.null]), (.err .missingArrEnd, [.null, .arrStart 2 BT.any, .null])] := by
  decide +kernel

end SF.PropsUbjD.C18

/-! ## JSON decoder (mirror SF/Json/Dec.lean; proofs SF/Proofs/JsonDec{Eff,Until,Peel,Doc,Trunc,Next,Reader,Top}.lean)

No side condition beyond the documents being grammatical (`Doc.good`). -/

namespace SF.PropsJsonD.C18
open SF SF.Json SF.Json.Parse SF.Json.ParseP SF.Json.Dec SF.Json.DecP SF.Json.Grammar
open SF.Props.JsonDec (okDocs)

/-- C18 for the JSON BYTE-SLICE decoder: for EVERY stream of good documents (leading white space
allowed; each value followed by white space, at least one white-space byte after a bare number):
one successful call per document with exactly its events, then `.eof` -/
theorem json_bytes_decoder_stream (f : Dec → Nat) (hf : Enough f) (ds : List Doc) (hg : ∀ x ∈ ds, x.good)
    (ws0 : Bytes) (hws : allWs ws0 = true) :
    nextsF f (ds.length + 1) (newBytesDecoder (ws0 ++ streamWire ds)) =
      okDocs ds ++ [(NextRes.eof, streamEvents ds)] :=
  SF.Props.JsonDec.bytes_decoder_stream f hf ds hg ws0 hws

/-- C18 for the READER-DRIVEN JSON decoder: EVERY read script (chunks of any sizes, `(0, nil)` reads
anywhere), BOTH ways the end is signalled, EVERY buffer size: the same trace -/
theorem json_reader_decoder_stream (f : Dec → Nat) (hf : Enough f) (ds : List Doc) (hg : ∀ x ∈ ds, x.good)
    (ws0 : Bytes) (hws : allWs ws0 = true) (cs : List Bytes) (e : Bool) (n : Int)
    (hcs : cs.flatten = ws0 ++ streamWire ds) :
    nextsF f (ds.length + 1) (newDecoder { chunks := cs, lastEOF := e } n) =
      okDocs ds ++ [(NextRes.eof, streamEvents ds)] :=
  SF.Props.JsonDec.reader_decoder_stream f hf ds hg ws0 hws cs e n hcs

/-- … the stream ending in a bare number with NO white space after it, the number possibly split
across reads: `.ok` for it once the end of the script has been seen, then `.eof` -/
theorem json_reader_decoder_stream_num_end (f : Dec → Nat) (hf : Enough f) (ds : List Doc) (hg : ∀ x ∈ ds, x.good)
    (ws0 : Bytes) (hws : allWs ws0 = true) (tok : Bytes) (hb : tokOk tok = true) (ev : Ev)
    (hev : numEv tok = some ev) (cs : List Bytes) (e : Bool) (n : Int)
    (hcs : cs.flatten = ws0 ++ (streamWire ds ++ tok)) :
    nextsF f (ds.length + 2) (newDecoder { chunks := cs, lastEOF := e } n) =
      okDocs ds ++ [(NextRes.ok, streamEvents ds ++ [ev]), (NextRes.eof, streamEvents ds ++ [ev])] :=
  SF.Props.JsonDec.reader_decoder_stream_num_end f hf ds hg ws0 hws tok hb ev hev cs e n hcs

theorem json_enough_nextFuel : Enough nextFuel := SF.Props.JsonDec.enough_nextFuel

/-- C18, TRUNCATION: good documents followed — after white space — by a proper non-empty prefix of
the text of one more grammatical value that is not a bare number (a bare number cut short IS the
shorter number): after `ds.length` successful calls the next call returns an ERROR -/
theorem json_reader_decoder_truncated (f : Dec → Nat) (hf : Enough f) (ds : List Doc) (hg : ∀ x ∈ ds, x.good)
    (ws0 : Bytes) (hws : allWs ws0 = true) (v : J) (hok : v.ok = true)
    (hnn : v.isNum = false) (z : Bytes) (hz : z <+: v.wire) (hne : z ≠ []) (hne2 : z ≠ v.wire)
    (cs : List Bytes) (e : Bool) (n : Int) (hcs : cs.flatten = ws0 ++ (streamWire ds ++ z)) :
    ∃ err more, nextsF f (ds.length + 1) (newDecoder { chunks := cs, lastEOF := e } n) =
      okDocs ds ++ [(NextRes.err err, streamEvents ds ++ more)] :=
  SF.Props.JsonDec.reader_decoder_truncated f hf ds hg ws0 hws v hok hnn z hz hne hne2 cs e n hcs

/-- on ARBITRARY bytes in ANY read script no call reports `outOfFuel` (the loop of `Decoder.Next`
always terminates) or `panic` -/
theorem json_reader_never_outOfFuel (f : Dec → Nat) (hf : Enough f) (cs : List Bytes) (e : Bool) (n : Int) (k : Nat) :
    ∀ x ∈ nextsF f k (newDecoder { chunks := cs, lastEOF := e } n),
      x.1 ≠ .err .outOfFuel ∧ x.1 ≠ .err .panic :=
  SF.Props.JsonDec.reader_never_outOfFuel f hf cs e n k

/-- READ SIZES DO NOT MATTER, for ARBITRARY bytes: any two read scripts with the same concatenation,
either way of signalling the end, any two buffer sizes, any two sufficient fuels: the same trace -/
theorem json_reader_chunking_independent (f₁ f₂ : Dec → Nat) (hf₁ : Enough f₁) (hf₂ : Enough f₂)
    (cs₁ cs₂ : List Bytes) (e₁ e₂ : Bool) (n₁ n₂ : Int) (h : cs₁.flatten = cs₂.flatten) (k : Nat) :
    nextsF f₁ k (newDecoder { chunks := cs₁, lastEOF := e₁ } n₁) =
      nextsF f₂ k (newDecoder { chunks := cs₂, lastEOF := e₂ } n₂) :=
  SF.Props.JsonDec.reader_chunking_independent f₁ f₂ hf₁ hf₂ cs₁ cs₂ e₁ e₂ n₁ n₂ h k

/-- … and it is the sequence the byte-slice decoder produces on the concatenation -/
theorem json_reader_eq_bytes_decoder (f₁ f₂ : Dec → Nat) (hf₁ : Enough f₁) (hf₂ : Enough f₂)
    (cs : List Bytes) (e : Bool) (n : Int) (k : Nat) :
    nextsF f₁ k (newDecoder { chunks := cs, lastEOF := e } n) = nextsF f₂ k (newBytesDecoder cs.flatten) :=
  SF.Props.JsonDec.reader_eq_bytes_decoder f₁ f₂ hf₁ hf₂ cs e n k

/-- non-vacuity: ` [1] 23` in four reads (an empty one among them, the number split) = the byte
slice: `[1]`, then `23` at the end of the input, then EOF -/
example :
    nexts 3 (newDecoder { chunks := [[0x20, 0x5b, 0x31, 0x5d], [0x20, 0x32], [], [0x33]], lastEOF := false } 0) =
      nexts 3 (newBytesDecoder [0x20, 0x5b, 0x31, 0x5d, 0x20, 0x32, 0x33]) ∧
    nexts 3 (newBytesDecoder [0x20, 0x5b, 0x31, 0x5d, 0x20, 0x32, 0x33]) =
      [(.ok, [.arrStart (-1) BT.any, .num .i64 1, .arrEnd]),
       (.ok, [.arrStart (-1) BT.any, .num .i64 1, .arrEnd, .num .i64 23]),
       (.eof, [.arrStart (-1) BT.any, .num .i64 1, .arrEnd, .num .i64 23])] := by
  decide +kernel

end SF.PropsJsonD.C18
