/-
  C18 — pull decoders deliver one top-level value per Next and then io.EOF.

  Proved IN FULL for the CBOR decoder mirror (SF/Cbor/Dec.lean), byte-slice and reader-driven:
    * `reader_decoder_stream`: for every stream of k supported items and EVERY way of splitting
      its bytes into reads (any read sizes, `(0, nil)` reads anywhere, data arriving with the
      end of the script), k calls to Next succeed — the i-th having delivered exactly the
      events of the first i items — and the (k+1)-th reports a clean EOF; no call runs out of
      fuel (the loop of `Next` terminates);
    * `reader_decoder_truncated(_one)`: if the bytes end in the middle of an item, the call
      after the complete items returns `unexpectedEOF` — never a clean EOF, never ok;
    * `reader_chunking_independent`, `reader_eq_bytes_decoder`: for ARBITRARY bytes (valid or
      not) the sequence of results and events does not depend on the read sizes and equals
      that of the byte-slice decoder on the concatenation; `reader_never_outOfFuel`;
    * the byte-slice forms `next_one`, `bytes_decoder_stream`, `eof_not_clean`.
  Proofs: SF/Proofs/CborDec{Bytes,Until,Next,ReaderTop}.lean, on top of the chunk-independence
  (C02) and termination / truncation (C03) developments.  UBJSON and JSON decoders: mirror +
  correspondence (read scripts, buffer sizes 1…4096) + oracle.
-/
import SF.Proofs.CborDecReaderTop
namespace SF.Props.C18
open SF SF.Cbor SF.Cbor.Cst SF.Cbor.Parse SF.Cbor.Dec SF.Cbor.DecR

/-- one Next on a buffer that starts with a complete supported item: it succeeds, delivers
exactly that item's events and none of what follows, and keeps the remainder -/
theorem next_one (t : Item) (ht : t.ok = true) (rest : Bytes) (evs : List Ev) (d : Dec)
    (hp : d.p = idle evs) (hb : d.buffer = t.wire ++ rest) (fuel : Nat) :
    next (fuel + 1) d = ({ d with p := idle (t.events.reverse ++ evs), buffer := rest }, .ok) :=
  SF.Cbor.DecBytes.next_one t ht rest evs d hp hb fuel

/-- C18 for the CBOR byte-slice decoder: for EVERY stream of k supported items, k calls to
Next succeed, the i-th delivering exactly the events of the i-th item and nothing of the
following one, and the (k+1)-th call reports io.EOF -/
theorem bytes_decoder_stream (ts : List Item) (h : okList ts = true) :
    ∀ (d : Dec) (evs : List Ev), d.hasReader = false → d.p = idle evs → d.buffer = wireList ts →
      SF.Cbor.DecBytes.runNexts (ts.length + 1) d = ts.map (fun t => (NextRes.ok, t.events)) ++ [(NextRes.eof, [])] :=
  SF.Cbor.DecBytes.bytes_decoder_stream ts h

/-- the end of the input inside a value is never a clean EOF -/
theorem eof_not_clean (d : Dec) (h : finalize d.p ≠ none) : eof d = .unexpectedEOF :=
  SF.Cbor.DecBytes.eof_not_clean d h

/-- C18 for the READER-DRIVEN decoder: every stream of supported items, EVERY split into reads
(`cs.flatten = wireList ts`; empty reads allowed anywhere), any sufficient fuel `f`: the trace of
`ts.length + 1` calls is ok × k with exactly the events of the first i items after call i, then
a clean EOF.  The trace does not mention `cs`. -/
theorem reader_decoder_stream (f : Dec → Nat) (hf : Enough f) (ts : List Item) (h : okList ts = true)
    (cs : List Bytes) (hcs : cs.flatten = wireList ts) :
    nextsF f (ts.length + 1) { reads := cs } =
      (List.range ts.length).map (fun i => (NextRes.ok, eventsList (ts.take (i + 1)))) ++
        [(NextRes.eof, eventsList ts)] :=
  SF.Cbor.DecR.reader_decoder_stream f hf ts h cs hcs

/-- the fuel the model hands out is sufficient everywhere -/
theorem enough_nextFuel : Enough nextFuel := SF.Cbor.DecR.enough_nextFuel

/-- TRUNCATION: items `ts` followed by a proper non-empty prefix of one more item, in any
split into reads: after the complete items the next call returns `unexpectedEOF` -/
theorem reader_decoder_truncated (f : Dec → Nat) (hf : Enough f) (ts : List Item) (h : okList ts = true)
    (t : Item) (ht : t.ok = true) (k : Nat) (hk0 : 0 < k) (hk : k < t.wire.length)
    (cs : List Bytes) (hcs : cs.flatten = wireList ts ++ t.wire.take k) :
    nextsF f (ts.length + 1) { reads := cs } =
      (List.range ts.length).map (fun i => (NextRes.ok, eventsList (ts.take (i + 1)))) ++
        [(NextRes.unexpectedEOF,
          Parse.events (feedUntil (fuelFor (t.wire.take k)) (idle (eventsList ts).reverse) (t.wire.take k)).p)] :=
  SF.Cbor.DecR.reader_decoder_truncated f hf ts h t ht k hk0 hk cs hcs

/-- … as a statement about one call -/
theorem reader_decoder_truncated_one (t : Item) (ht : t.ok = true) (k : Nat) (hk0 : 0 < k)
    (hk : k < t.wire.length) (cs : List Bytes) (hcs : cs.flatten = t.wire.take k) (fuel : Nat)
    (hf : cs.length + 1 ≤ fuel) :
    (next fuel { reads := cs }).2 = .unexpectedEOF :=
  SF.Cbor.DecR.reader_decoder_truncated_one t ht k hk0 hk cs hcs fuel hf

/-- ARBITRARY BYTES: any two read scripts with the same concatenation give the same sequence
of results and the same accumulated events, call by call, up to and including the first
non-ok result -/
theorem reader_chunking_independent (f : Dec → Nat) (hf : Enough f) (cs₁ cs₂ : List Bytes)
    (h : cs₁.flatten = cs₂.flatten) (n : Nat) :
    nextsF f n { reads := cs₁ } = nextsF f n { reads := cs₂ } :=
  SF.Cbor.DecR.reader_chunking_independent f hf cs₁ cs₂ h n

/-- … and it is the sequence the byte-slice decoder produces on the concatenation -/
theorem reader_eq_bytes_decoder (f : Dec → Nat) (hf : Enough f) (cs : List Bytes) (n : Nat) :
    nextsF f n { reads := cs } = nextsF f n { hasReader := false, buffer := cs.flatten } :=
  SF.Cbor.DecR.reader_eq_bytes_decoder f hf cs n

/-- `Decoder.Next` terminates on ANY bytes in ANY split into reads -/
theorem reader_never_outOfFuel (cs : List Bytes) (n : Nat) :
    ∀ x ∈ nexts n { reads := cs }, x.1 ≠ .err .outOfFuel :=
  SF.Cbor.DecR.reader_never_outOfFuel cs n

/-- non-vacuity: `[1, 2]` then `1`, cut after the array head, with a `(0, nil)` read; and a
truncated stream -/
example :
    nexts 3 { reads := [[0x82], [], [0x01, 0x02, 0x01]] } =
      [(.ok, [.arrStart 2 BT.any, .num .u8 1, .num .u8 2, .arrEnd]),
       (.ok, [.arrStart 2 BT.any, .num .u8 1, .num .u8 2, .arrEnd, .num .u8 1]),
       (.eof, [.arrStart 2 BT.any, .num .u8 1, .num .u8 2, .arrEnd, .num .u8 1])] ∧
    nexts 2 { reads := [[0x01, 0x82], [], [0x01, 0x62], [0x61]] } =
      [(.ok, [.num .u8 1]), (.unexpectedEOF, [.num .u8 1, .arrStart 2 BT.any, .num .u8 1])] := by
  decide +kernel

end SF.Props.C18
