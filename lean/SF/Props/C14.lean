/-
  C14 — a mismatching document makes Unfold return an error, never crash or corrupt.

  Proved here for the Unfolder mirror (SF/Gotype/Unfold.lean):

    * `prealloc_bounded` / `prealloc_exact`: the number of elements allocated on the strength
      of an ANNOUNCED array length is min(l, 1024) for every l (up to 2^63-1 and beyond) —
      "a hint, not a licence to allocate"; together with the regenerated SSA fact
      `SF.GenCheck.unfoldAllocSites` (every `make` / `reflect.MakeSlice` /
      `reflect.MakeMapWithSize` in gotype/unfold*.go has a constant size or one that went
      through `arrPreallocLen`) no allocation of the unfolder is driven by a length field;
    * `typed_prealloc_le`: what `OnArrayStart` stores into a nil slice target has at most 1024
      elements;
    * `reset_then_setTarget_is_fresh`: after `Reset` — from ANY context whatsoever, i.e.
      after a document abandoned at any event, after any error — `SetTarget` yields exactly
      the context a new Unfolder (with the same key cache, which `SF.Props.C20` proves
      transparent, and the same memo of compiled types) would have: every later event is processed identically;
    * skipping an unknown member never errors or panics (`SF.Props.C13`).

    * NO PANIC for generic targets, for ANY event sequence whatsoever
      (`any_events_into_interface`, `no_panic_any_events_into_interface`,
      `any_events_into_map_or_slice`): from an idle Unfolder with target `interface{}`,
      `map[string]interface{}` or `[]interface{}`, EVERY sequence of events — unbalanced,
      truncated, keys outside objects, wrong lengths, out-of-range numbers, anything — ends in
      ok or in an ERROR; the only panic the code can raise is the documented one of
      `makeArrayPtr`/`makeMapPtr` for an element-type code 17…255, which no parser or folder of
      this library emits (`invalid_base_type_panics`: exactly those codes);
      `no_panic_into_interface`: no prefix of a well-formed stream fails at all.
  The no-panic / no-foreign-write clauses over the TYPED (stream, target) pairs are decided by the
  mirror (explicit `panic` outcome for every empty-stack pop, nil dereference and invalid type
  code), the correspondence over generated mismatches at every depth, announced lengths up to
  2^63-1, every abandon position × following documents (ops `unf`, `unf-reuse`), and the
  oracle (no panic / crash / hang; reused = fresh).
-/
import SF.Gotype.Unfold
import SF.Proofs.UnfGenericTop
import SF.Proofs.UnfConsTop
import SF.Proofs.UnfStructTop
namespace SF.Props.C14
open SF SF.Unf

/-- an announced length never makes the unfolder allocate more than 1024 elements up front -/
theorem prealloc_bounded (l : Int) : arrPreallocLen l ≤ 1024 ∧ arrPreallocLen l ≤ max l 1024 := by
  unfold arrPreallocLen maxArrPrealloc
  split <;> omega

/-- … and a length that is backed by that many elements is honoured exactly up to the cap -/
theorem prealloc_exact (l : Int) (h : l ≤ 1024) : arrPreallocLen l = l := by
  unfold arrPreallocLen maxArrPrealloc
  split <;> omega

/-- the slice stored by `unfoldArrStartX.OnArrayStart` into a nil target: at most 1024
elements whatever length is announced -/
theorem typed_prealloc_le (tbl : TypeTable) (k : PK) (l : Int) :
    (List.replicate (arrPreallocLen l).toNat (zero tbl k.goType)).length ≤ 1024 := by
  have := (prealloc_bounded l).1
  simp only [List.length_replicate]
  omega

/-- C14 (reuse clause): `Reset` followed by `SetTarget` from ANY context `c` — whatever the
previous documents were, wherever the last one was abandoned, whatever error it ended with,
whatever is left on the six stacks and in the scratch buffers — is exactly `SetTarget` on a
new Unfolder that has the same key cache and the same registry of compiled types (the two
memo tables that survive `Reset` in the Go code; the key cache is proved transparent in
`SF.Props.C20`, the registry is a memo of `buildReflUnfolder` whose transparency is decided by
op `unf-seq`).  All later behaviour is a function of the context, so the reused unfolder
processes the next document exactly as that new one would. -/
theorem reset_then_setTarget_is_fresh (c : Ctx) (tbl : TypeTable) (t : GoType) (v : GoVal) :
    setTarget tbl t v (reset c) =
      setTarget tbl t v
        { newUnfolder with keyCache := c.keyCache, reg := c.reg, whatIfFixed := c.whatIfFixed } := by
  rfl

/-- … nothing else of the abandoned document survives: stacks, scratch buffers, `reflect.New`
cells are those of a new Unfolder -/
theorem reset_forgets (c : Ctx) :
    reset c = { newUnfolder with keyCache := c.keyCache, reg := c.reg, whatIfFixed := c.whatIfFixed,
                                 target := c.target, env := c.env } := by
  rfl

/-! ### no panic for generic targets -/

/-- C14 (no-panic clause) for an `interface{}` target: from an idle Unfolder ANY sequence of
events ends in ok, or an ERROR, or — only if it contains a container start announcing an
element-type code 17 … 255 — the documented panic of `makeArrayPtr` / `makeMapPtr`.  Never a
pop of an empty stack, a nil or stale pointer, an out-of-range scratch slot, a model gap or
fuel exhaustion -/
theorem any_events_into_interface (f : Nat) (tbl : TypeTable) (v0 : GoVal) (c : Ctx) (es : List UEv)
    (hidle : c.unfolder = Stk.init .noTarget) (hkc : Symbols.Inv c.keyCache) :
    ∃ c0, setTarget tbl .ifc v0 c = .ok c0 ∧
      ((∃ c', SF.Unf.run (f + 1) es c0 = .ok () c') ∨
       (∃ e c', SF.Unf.run (f + 1) es c0 = .err e c') ∨
       (∃ c' e, SF.Unf.run (f + 1) es c0 = .panic c' ∧ e ∈ es ∧ e.badStart)) :=
  SF.Unf.any_events_into_interface f tbl v0 c es hidle hkc

/-- … so with element-type codes a `structform.BaseType` of this library can hold, NO event
sequence makes the Unfolder panic -/
theorem no_panic_any_events_into_interface (f : Nat) (tbl : TypeTable) (v0 : GoVal) (c : Ctx) (es : List UEv)
    (hidle : c.unfolder = Stk.init .noTarget) (hkc : Symbols.Inv c.keyCache)
    (hcodes : ∀ e ∈ es, ¬ e.badStart) :
    ∃ c0, setTarget tbl .ifc v0 c = .ok c0 ∧
      ((∃ c', SF.Unf.run (f + 1) es c0 = .ok () c') ∨ (∃ e c', SF.Unf.run (f + 1) es c0 = .err e c')) :=
  SF.Unf.no_panic_any_events_into_interface f tbl v0 c es hidle hkc hcodes

/-- no prefix of a well-formed stream fails on an `interface{}` target -/
theorem no_panic_into_interface (f : Nat) (tbl : TypeTable) (v0 : GoVal) (t : UTree) (c : Ctx)
    (hwf : t.wf = true) (hidle : c.unfolder.stack = []) (hkc : Symbols.Inv c.keyCache)
    (es rest : List UEv) (hpre : t.events = es ++ rest) :
    ∃ c0 c', setTarget tbl .ifc v0 c = .ok c0 ∧ SF.Unf.run (f + 1) es c0 = .ok () c' :=
  SF.Unf.no_panic_into_interface f tbl v0 t c hwf hidle hkc es rest hpre

/-- non-vacuity: the announced lengths of the property text -/
example : arrPreallocLen (2 ^ 63 - 1) = 1024 ∧ arrPreallocLen (2 ^ 62) = 1024 ∧ arrPreallocLen (2 ^ 28) = 1024 ∧
    arrPreallocLen 3 = 3 ∧ arrPreallocLen 0 = 0 := by decide

end SF.Props.C14


/-! ## TYPED targets (proofs SF/Proofs/UnfTy*.lean, UnfConsTop.lean)

Family `TT`: bool, string, every integer width, float32 / float64, `interface{}`, closed under
`[]T`, `map[string]T`, `*T` at any nesting (no structs, no named types).  The invariant describes
the frames on the six stacks, the slot accounting of the scratch buffers and that every live
pointer resolves to a value of the shape its owner relies on — over all template, generic
sub-container and reflection states. -/

namespace SF.PropsTyped.C14
open SF SF.Unf SF.Ops.Unf
open SF.UnfProofs.Cons (deliver Shaped Idle)

/-- C14 (no-panic clause) FOR TYPED TARGETS, EVERY EVENT SEQUENCE.  `SetTarget(&v)` for a `v` of any
type of the family (holding any value of that type) on an idle Unfolder, followed by ANY sequence
of events — mismatching, unbalanced, truncated, keys outside objects, wrong announced lengths,
out-of-range numbers, containers where scalars belong, events after the document is complete —:
`.ok`, or an ERROR, or — only if the sequence contains a container start announcing an element-type
code 17 … 255 reaching an `interface{}` position (not a BaseType) — the panic of `makeArrayPtr` /
`makeMapPtr`.  Never fuel exhaustion, never a model gap (no stale pointer, no value of the wrong
shape behind a pointer), no other panic: no pop of an empty stack, no nil dereference, no write to
a nil map, no out-of-range scratch slot. -/
theorem any_events_into_typed (fuel : Nat) (hf : typeFuel ≤ fuel) (tbl : TypeTable) (t : GoType) (v0 : GoVal)
    (c c0 : Ctx) (es : List UEv) (hes : ∀ e ∈ es, ¬ e.isKeyRef) (hT : TT t = true) (hidle : Idle c)
    (hv0 : Shaped t v0) (hset : setTarget tbl t v0 c = .ok c0) :
    (∃ c', run fuel es c0 = .ok () c') ∨
    (∃ e c', run fuel es c0 = .err e c') ∨
    (∃ c' e, run fuel es c0 = .panic c' ∧ e ∈ es ∧ e.badStart) :=
  SF.UnfProofs.Cons.any_events_into_typed fuel hf tbl t v0 c c0 es hes hT hidle hv0 hset

/-- … every EXTENDED event sequence (typed arrays / maps, strings and keys by reference), with a
key cache that has its invariant (C20) -/
theorem any_ext_events_into_typed (fuel : Nat) (hf : typeFuel ≤ fuel) (tbl : TypeTable) (t : GoType) (v0 : GoVal)
    (c c0 : Ctx) (xs : List XEv) (hT : TT t = true) (hidle : Idle c) (hkc : Symbols.Inv c.keyCache)
    (hv0 : Shaped t v0) (hset : setTarget tbl t v0 c = .ok c0) :
    (∃ c', run fuel (deliver xs) c0 = .ok () c') ∨
    (∃ e c', run fuel (deliver xs) c0 = .err e c') ∨
    (∃ c' x, run fuel (deliver xs) c0 = .panic c' ∧ x ∈ xs ∧ SF.UnfProofs.Cons.XEv.badStart x) :=
  SF.UnfProofs.Cons.any_ext_events_into_typed fuel hf tbl t v0 c c0 xs hT hidle hkc hv0 hset

/-- … with valid element-type codes: ok or error, nothing else -/
theorem no_panic_any_events_into_typed (fuel : Nat) (hf : typeFuel ≤ fuel) (tbl : TypeTable) (t : GoType)
    (v0 : GoVal) (c c0 : Ctx) (es : List UEv) (hes : ∀ e ∈ es, ¬ e.isKeyRef) (hT : TT t = true) (hidle : Idle c)
    (hv0 : Shaped t v0) (hset : setTarget tbl t v0 c = .ok c0) (hcodes : ∀ e ∈ es, ¬ e.badStart) :
    (∃ c', run fuel es c0 = .ok () c') ∨ (∃ e c', run fuel es c0 = .err e c') :=
  SF.UnfProofs.Cons.no_panic_any_events_into_typed fuel hf tbl t v0 c c0 es hes hT hidle hv0 hset hcodes

/-- C17 for the Unfolder on typed targets: whenever a sequence is accepted and has brought the
unfolder stack back to idle (the document is complete), ALL six stacks are exactly those of the
idle Unfolder and every scratch slot has been released -/
theorem typed_complete_is_idle (fuel : Nat) (hf : typeFuel ≤ fuel) (tbl : TypeTable) (t : GoType) (v0 : GoVal)
    (c c0 c' : Ctx) (es : List UEv) (hes : ∀ e ∈ es, ¬ e.isKeyRef) (hT : TT t = true) (hidle : Idle c)
    (hv0 : Shaped t v0) (hset : setTarget tbl t v0 c = .ok c0) (hrun : run fuel es c0 = .ok () c')
    (hdone : c'.unfolder.stack = []) :
    Idle c' ∧ c'.ptr = c.ptr ∧ c'.value = c.value ∧ c'.key = c.key ∧ c'.idx = c.idx ∧ c'.baseType = c.baseType :=
  SF.UnfProofs.Cons.typed_complete_is_idle fuel hf tbl t v0 c c0 c' es hes hT hidle hv0 hset hrun hdone

/-- the hypotheses hold for every Unfolder the API produces between documents and for zero values -/
theorem idle_new : Idle newUnfolder := SF.UnfProofs.Cons.idle_new
theorem idle_reset (c : Ctx) : Idle (reset c) := SF.UnfProofs.Cons.idle_reset c
theorem shaped_zero (tbl : TypeTable) (t : GoType) : Shaped t (zero tbl t) := SF.UnfProofs.Cons.shaped_zero tbl t

/-- non-vacuity: `map[string][]*int64` is in the family, `SetTarget` accepts it on a new Unfolder;
`{"a": [5, null]}` is accepted and leaves all six stacks idle; a string where the `*int64` belongs
and an unbalanced sequence are refused with errors -/
example : TT SF.UnfProofs.Cons.demoT = true ∧
    (match setTarget (fun _ => none) SF.UnfProofs.Cons.demoT (zero (fun _ => none) SF.UnfProofs.Cons.demoT) newUnfolder with
     | .ok c₀ =>
       (match run typeFuel [.objStart 1 0, .key [0x61], .arrStart 2 0, .scalar (.num .i8 5), .scalar .nil,
                            .arrEnd, .objEnd] c₀ with
        | .ok _ c₁ => c₁.depths == [0, 0, 0, 0, 0, 0]
        | _ => false) &&
       (match run typeFuel [.objStart 1 0, .key [0x61], .arrStart 2 0, .scalar (.str [0x78])] c₀ with
        | .err .unsupported _ => true
        | _ => false) &&
       (match run typeFuel [.objStart 1 0, .arrEnd, .key [0x61]] c₀ with
        | .err .expectedObjectKey _ => true
        | _ => false)
     | .error _ => false) = true := by decide +kernel

end SF.PropsTyped.C14


/-! ## targets with STRUCTS (proofs SF/Proofs/UnfStr*.lean, UnfStructTop.lean)

Family `TTS tbl ns t`: everything in `TT` + struct types of the type table (all tags, tag names,
`inline` / `squash` to any depth, omitted and unexported fields, unknown keys) whose fields are
again in the family + nested structs, pointers / slices / maps of structs + named types + the
self-referential menagerie members (`List`, `Tree`, `A` / `B`, `RL`, `RM`: lazy registry
placeholders).  Excluded: what `SetTarget` refuses (arrays, `map[int]T`), user unfolders and the
Expander (outside the mirror: op `unf-userval`).  The registry of compiled unfolders survives
`Reset`: `RegOK` (every entry consistent with its type) holds for a new Unfolder and is preserved
by `SetTarget` and by every completed document. -/

namespace SF.PropsStruct.C14
open SF SF.Unf SF.Ops.Unf
open SF.UnfProofs.Cons (deliver Idle)
open SF.UnfProofs.Struct (Shaped RegOK TTS)

/-- C14 (no-panic clause) FOR TARGETS WITH STRUCTS, EVERY EVENT SEQUENCE.  `SetTarget(&v)` for a `v`
of any type of the family (holding any value of that type) on an idle Unfolder with a consistent
registry, followed by ANY sequence of events — mismatching, unbalanced, truncated, keys outside
objects, unknown keys with values of any shape, duplicate keys, wrong announced lengths,
out-of-range numbers, containers where scalars belong, events after the document is complete —:
`.ok`, or an ERROR, or — only for an element-type code 17 … 255 reaching an `interface{}` position —
the panic of `makeArrayPtr` / `makeMapPtr`.  Never fuel exhaustion, never a model gap (no stale
pointer, no value of the wrong layout behind a pointer, no field path that does not resolve, no
unregistered or placeholder registry entry), no other panic (in particular no nil dereference of
the struct pointer in `unfolderStruct.OnKey`). -/
theorem any_events_into_struct (fuel : Nat) (hf : typeFuel ≤ fuel) (tbl : TypeTable) (ns : List String) (t : GoType)
    (v0 : GoVal) (c c0 : Ctx) (es : List UEv) (hes : ∀ e ∈ es, ¬ e.isKeyRef) (hT : TTS tbl ns t = true)
    (hidle : Idle c) (hreg : RegOK tbl c) (hv0 : Shaped tbl t v0) (hset : setTarget tbl t v0 c = .ok c0) :
    (∃ c', run fuel es c0 = .ok () c') ∨
    (∃ e c', run fuel es c0 = .err e c') ∨
    (∃ c' e, run fuel es c0 = .panic c' ∧ e ∈ es ∧ e.badStart) :=
  SF.UnfProofs.Struct.any_events_into_struct fuel hf tbl ns t v0 c c0 es hes hT hidle hreg hv0 hset

/-- … every EXTENDED event sequence (typed arrays / maps, strings and keys by reference —
`unfolderStruct.OnKeyRef` goes through `bytes2Str`, the map unfolders through the key cache) -/
theorem any_ext_events_into_struct (fuel : Nat) (hf : typeFuel ≤ fuel) (tbl : TypeTable) (ns : List String)
    (t : GoType) (v0 : GoVal) (c c0 : Ctx) (xs : List XEv) (hT : TTS tbl ns t = true) (hidle : Idle c)
    (hreg : RegOK tbl c) (hkc : Symbols.Inv c.keyCache) (hv0 : Shaped tbl t v0)
    (hset : setTarget tbl t v0 c = .ok c0) :
    (∃ c', run fuel (deliver xs) c0 = .ok () c') ∨
    (∃ e c', run fuel (deliver xs) c0 = .err e c') ∨
    (∃ c' x, run fuel (deliver xs) c0 = .panic c' ∧ x ∈ xs ∧ SF.UnfProofs.Cons.XEv.badStart x) :=
  SF.UnfProofs.Struct.any_ext_events_into_struct fuel hf tbl ns t v0 c c0 xs hT hidle hreg hkc hv0 hset

/-- C17 / C14 (reuse): whenever the sequence is accepted and the document is complete, ALL six
stacks are exactly those of the idle Unfolder, every scratch slot has been released and the
registry is consistent: the Unfolder is idle again, ready for the next `SetTarget` -/
theorem struct_complete_is_idle (fuel : Nat) (hf : typeFuel ≤ fuel) (tbl : TypeTable) (ns : List String) (t : GoType)
    (v0 : GoVal) (c c0 c' : Ctx) (es : List UEv) (hes : ∀ e ∈ es, ¬ e.isKeyRef) (hT : TTS tbl ns t = true)
    (hidle : Idle c) (hreg : RegOK tbl c) (hv0 : Shaped tbl t v0) (hset : setTarget tbl t v0 c = .ok c0)
    (hrun : run fuel es c0 = .ok () c') (hdone : c'.unfolder.stack = []) :
    Idle c' ∧ RegOK tbl c' ∧ c'.ptr = c.ptr ∧ c'.value = c.value ∧ c'.key = c.key ∧ c'.idx = c.idx ∧
      c'.baseType = c.baseType ∧ c'.env = tbl :=
  SF.UnfProofs.Struct.struct_complete_is_idle fuel hf tbl ns t v0 c c0 c' es hes hT hidle hreg hv0 hset hrun hdone

/-- the hypotheses hold for every Unfolder the API produces between documents -/
theorem regOK_new (tbl : TypeTable) : RegOK tbl newUnfolder := SF.UnfProofs.Struct.regOK_new tbl
theorem regOK_reset (tbl : TypeTable) (c : Ctx) (h : RegOK tbl c) : RegOK tbl (reset c) :=
  SF.UnfProofs.Struct.regOK_reset tbl c h

/-- THE FAMILY contains the struct menagerie of the harness (flat structs, fields of every type of
`TT`, nested and doubly inlined structs, pointers / slices / maps of structs, named types, the
self-referential `List`, `Tree`, `A` / `B`, `RL`, `RM`) and excludes what `SetTarget` refuses -/
example : TTS structTable SF.UnfProofs.Struct.menagerie tS1 = true ∧ TTS structTable SF.UnfProofs.Struct.menagerie tS3 = true ∧
    TTS structTable SF.UnfProofs.Struct.menagerie tS4 = true ∧ TTS structTable SF.UnfProofs.Struct.menagerie tTree = true ∧
    TTS structTable SF.UnfProofs.Struct.menagerie tA = true ∧
    TTS structTable SF.UnfProofs.Struct.menagerie (.slice (.ptr (.ref "S2"))) = true ∧
    TTS structTable SF.UnfProofs.Struct.menagerie tArr = false := by
  refine ⟨?_, ?_, ?_, ?_, ?_, ?_, ?_⟩ <;> decide +kernel

/-- ALL hypotheses for `map[string]*UHid` (`type UHid struct { hidden int }`: no exported field, so
the kernel can run `SetTarget` — the tag parser uses String functions it cannot evaluate), and a
document with unknown keys of every shape accepted with all six stacks idle afterwards -/
example : TTS SF.UnfProofs.Struct.tblHid ["Hid"] SF.UnfProofs.Struct.demoS = true ∧ Idle newUnfolder ∧
    RegOK SF.UnfProofs.Struct.tblHid newUnfolder ∧
    (match setTarget SF.UnfProofs.Struct.tblHid SF.UnfProofs.Struct.demoS
        (zero SF.UnfProofs.Struct.tblHid SF.UnfProofs.Struct.demoS) newUnfolder with
     | .ok c₀ =>
       (match run typeFuel [.objStart 2 0, .key [0x61], .objStart 2 0, .key [0x7a, 0x7a], .arrStart 2 0,
                            .scalar (.num .i8 1), .objStart 1 0, .key [0x6b], .scalar .nil, .objEnd, .arrEnd,
                            .key [0x79], .scalar (.num .i8 2), .objEnd, .key [0x62], .scalar .nil, .objEnd] c₀ with
        | .ok _ c₁ => c₁.depths == [0, 0, 0, 0, 0, 0]
        | _ => false)
     | .error _ => false) = true :=
  ⟨by decide +kernel, SF.UnfProofs.Cons.idle_new, SF.UnfProofs.Struct.regOK_new _, by decide +kernel⟩

end SF.PropsStruct.C14
