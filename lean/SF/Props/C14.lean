/-
  C14 — a mismatching document makes Unfold return an error, never crash or corrupt.

  Proved here for the Unfolder mirror (SF/Gotype/Unfold.lean):

    * `prealloc_bounded` / `prealloc_exact`: the number of elements allocated on the strength
      of an ANNOUNCED array length is min(l, 1024) for every l (up to 2^63-1 and beyond) —
      "a hint, not a licence to allocate"; together with the regenerated SSA fact
      `SF.GenCheck.unfoldAllocSites` (every `make` / `reflect.MakeSlice` /
      `reflect.MakeMapWithSize` in gotype/unfold*.go has a constant size or one that went
      through `arrPreallocLen`) no allocation of the unfolder is driven by a length field;
    * `typed_prealloc_le`: what `OnArrayStart` stores into a nil slice target has at most 1024
      elements;
    * `reset_then_setTarget_is_fresh`: after `Reset` — from ANY context whatsoever, i.e.
      after a document abandoned at any event, after any error — `SetTarget` yields exactly
      the context a new Unfolder (with the same key cache, which `SF.Props.C20` proves
      transparent, and the same memo of compiled types) would have: every later event is processed identically;
    * skipping an unknown member never errors or panics (`SF.Props.C13`).

    * NO PANIC for generic targets, for ANY event sequence whatsoever
      (`any_events_into_interface`, `no_panic_any_events_into_interface`,
      `any_events_into_map_or_slice`): from an idle Unfolder with target `interface{}`,
      `map[string]interface{}` or `[]interface{}`, EVERY sequence of events — unbalanced,
      truncated, keys outside objects, wrong lengths, out-of-range numbers, anything — ends in
      ok or in an ERROR; the only panic the code can raise is the documented one of
      `makeArrayPtr`/`makeMapPtr` for an element-type code 17…255, which no parser or folder of
      this library emits (`invalid_base_type_panics`: exactly those codes);
      `no_panic_into_interface`: no prefix of a well-formed stream fails at all.
  The no-panic / no-foreign-write clauses over the TYPED (stream, target) pairs are decided by the
  mirror (explicit `panic` outcome for every empty-stack pop, nil dereference and invalid type
  code), the correspondence over generated mismatches at every depth, announced lengths up to
  2^63-1, every abandon position × following documents (ops `unf`, `unf-reuse`), and the
  oracle (no panic / crash / hang; reused = fresh).
-/
import SF.Gotype.Unfold
import SF.Proofs.UnfGenericTop
namespace SF.Props.C14
open SF SF.Unf

/-- an announced length never makes the unfolder allocate more than 1024 elements up front -/
theorem prealloc_bounded (l : Int) : arrPreallocLen l ≤ 1024 ∧ arrPreallocLen l ≤ max l 1024 := by
  unfold arrPreallocLen maxArrPrealloc
  split <;> omega

/-- … and a length that is backed by that many elements is honoured exactly up to the cap -/
theorem prealloc_exact (l : Int) (h : l ≤ 1024) : arrPreallocLen l = l := by
  unfold arrPreallocLen maxArrPrealloc
  split <;> omega

/-- the slice stored by `unfoldArrStartX.OnArrayStart` into a nil target: at most 1024
elements whatever length is announced -/
theorem typed_prealloc_le (tbl : TypeTable) (k : PK) (l : Int) :
    (List.replicate (arrPreallocLen l).toNat (zero tbl k.goType)).length ≤ 1024 := by
  have := (prealloc_bounded l).1
  simp only [List.length_replicate]
  omega

/-- C14 (reuse clause): `Reset` followed by `SetTarget` from ANY context `c` — whatever the
previous documents were, wherever the last one was abandoned, whatever error it ended with,
whatever is left on the six stacks and in the scratch buffers — is exactly `SetTarget` on a
new Unfolder that has the same key cache and the same registry of compiled types (the two
memo tables that survive `Reset` in the Go code; the key cache is proved transparent in
`SF.Props.C20`, the registry is a memo of `buildReflUnfolder` whose transparency is decided by
op `unf-seq`).  All later behaviour is a function of the context, so the reused unfolder
processes the next document exactly as that new one would. -/
theorem reset_then_setTarget_is_fresh (c : Ctx) (tbl : TypeTable) (t : GoType) (v : GoVal) :
    setTarget tbl t v (reset c) =
      setTarget tbl t v
        { newUnfolder with keyCache := c.keyCache, reg := c.reg, whatIfFixed := c.whatIfFixed } := by
  rfl

/-- … nothing else of the abandoned document survives: stacks, scratch buffers, `reflect.New`
cells are those of a new Unfolder -/
theorem reset_forgets (c : Ctx) :
    reset c = { newUnfolder with keyCache := c.keyCache, reg := c.reg, whatIfFixed := c.whatIfFixed,
                                 target := c.target, env := c.env } := by
  rfl

/-! ### no panic for generic targets -/

/-- C14 (no-panic clause) for an `interface{}` target: from an idle Unfolder ANY sequence of
events ends in ok, or an ERROR, or — only if it contains a container start announcing an
element-type code 17 … 255 — the documented panic of `makeArrayPtr` / `makeMapPtr`.  Never a
pop of an empty stack, a nil or stale pointer, an out-of-range scratch slot, a model gap or
fuel exhaustion -/
theorem any_events_into_interface (f : Nat) (tbl : TypeTable) (v0 : GoVal) (c : Ctx) (es : List UEv)
    (hidle : c.unfolder = Stk.init .noTarget) (hkc : Symbols.Inv c.keyCache) :
    ∃ c0, setTarget tbl .ifc v0 c = .ok c0 ∧
      ((∃ c', SF.Unf.run (f + 1) es c0 = .ok () c') ∨
       (∃ e c', SF.Unf.run (f + 1) es c0 = .err e c') ∨
       (∃ c' e, SF.Unf.run (f + 1) es c0 = .panic c' ∧ e ∈ es ∧ e.badStart)) :=
  SF.Unf.any_events_into_interface f tbl v0 c es hidle hkc

/-- … so with element-type codes a `structform.BaseType` of this library can hold, NO event
sequence makes the Unfolder panic -/
theorem no_panic_any_events_into_interface (f : Nat) (tbl : TypeTable) (v0 : GoVal) (c : Ctx) (es : List UEv)
    (hidle : c.unfolder = Stk.init .noTarget) (hkc : Symbols.Inv c.keyCache)
    (hcodes : ∀ e ∈ es, ¬ e.badStart) :
    ∃ c0, setTarget tbl .ifc v0 c = .ok c0 ∧
      ((∃ c', SF.Unf.run (f + 1) es c0 = .ok () c') ∨ (∃ e c', SF.Unf.run (f + 1) es c0 = .err e c')) :=
  SF.Unf.no_panic_any_events_into_interface f tbl v0 c es hidle hkc hcodes

/-- no prefix of a well-formed stream fails on an `interface{}` target -/
theorem no_panic_into_interface (f : Nat) (tbl : TypeTable) (v0 : GoVal) (t : UTree) (c : Ctx)
    (hwf : t.wf = true) (hidle : c.unfolder.stack = []) (hkc : Symbols.Inv c.keyCache)
    (es rest : List UEv) (hpre : t.events = es ++ rest) :
    ∃ c0 c', setTarget tbl .ifc v0 c = .ok c0 ∧ SF.Unf.run (f + 1) es c0 = .ok () c' :=
  SF.Unf.no_panic_into_interface f tbl v0 t c hwf hidle hkc es rest hpre

/-- non-vacuity: the announced lengths of the property text -/
example : arrPreallocLen (2 ^ 63 - 1) = 1024 ∧ arrPreallocLen (2 ^ 62) = 1024 ∧ arrPreallocLen (2 ^ 28) = 1024 ∧
    arrPreallocLen 3 = 3 ∧ arrPreallocLen 0 = 0 := by decide

end SF.Props.C14
