/-
  C05 — the CBOR parser reads every item of the supported subset with its RFC 7049 value,
  and refuses items outside the subset.

  Property theorems only.  Model: SF/Cbor/Parse.lean (mirror of cborl/parse.go);
  specification: SF/Cbor/Cst.lean (`Item`, `wire`, `value`, `events`, `ok`).
  Helper lemmas: SF/Proofs/Cbor*.lean, SF/Proofs/Tree.lean.
-/
import SF.Proofs.CborTop
import SF.Proofs.CborTree
import SF.Proofs.CborTermTop
namespace SF.Props.C05
open SF SF.Cbor SF.Cbor.Cst SF.Cbor.Parse

theorem wireList_length_ge (ts : List Item) (h : okList ts = true) : ts.length ≤ (wireList ts).length := by
  induction ts with
  | nil => simp
  | cons t ts ih =>
    simp only [okList, Bool.and_eq_true] at h
    have h1 := wire_ne_nil t h.1
    have : 0 < t.wire.length := List.length_pos_iff.mpr h1
    have := ih h.2
    simp only [wireList, List.length_append, List.length_cons]; omega

/-- C05 (main statement, whole buffer): for EVERY stream of well-formed items of the
supported subset — every argument width for every head, definite and indefinite containers
nested arbitrarily, byte and text strings of any length, the full negative range down to
-2^63, both float widths, false/true/null/undefined — `cborl.Parse` (feed + end-of-input
check) on the stream's wire bytes accepts, delivers exactly the specified events, and ends
in the idle state. -/
theorem parse_supported (ts : List Item) (h : okList ts = true) :
    Parse.parse {} (wireList ts) = (idle (eventsList ts).reverse, none) := by
  have hf := feed_items ts h [] (2 * (wireList ts).length + 2)
    (by have := wireList_length_ge ts h; omega)
  simp only [List.append_nil] at hf
  have hidle : (({} : P)) = idle [] := rfl
  simp only [Parse.parse, feedAll, hidle, hf]
  simp +decide [finalize, idle]

/-- … hence the reported VALUE is the value RFC 7049 assigns -/
theorem parse_supported_value (ts : List Item) (h : okList ts = true) :
    buildAll (Parse.events (Parse.parse {} (wireList ts)).1) = some (valueList ts) := by
  rw [parse_supported ts h]
  simp only [Parse.events, idle, List.reverse_reverse]
  rw [← treeList_events, buildAll_events, treeList_value]

/-- single item, with arbitrary bytes following it: `feedUntil` (what `Decoder.Next` uses)
consumes exactly the item, reports `done`, and leaves the rest untouched -/
theorem feedUntil_supported (t : Item) (h : t.ok = true) (rest : Bytes) :
    feedUntil (fuelFor (t.wire ++ rest)) {} (t.wire ++ rest) =
      { p := idle t.events.reverse, rest := rest, done := true, err := none } := by
  have := feedUntil_item t h [] rest _ (fuelFor_ge t rest)
  have hidle : (({} : P)) = idle [] := rfl
  rw [hidle]
  simpa using this

/-! ### refusal of items outside the subset (no event is delivered for them) -/

/-- tags (major type 6) -/
theorem refuse_tag (q : P) (b0 : UInt8) (bs : Bytes) (h : (b0 &&& majorMask) = majorTag) :
    (stepValue q (b0 :: bs)).err = some .tagUnsupported ∧ (stepValue q (b0 :: bs)).p = q := by
  simp +decide [stepValue, h]

/-- half-precision floats -/
theorem refuse_half (q : P) (bs : Bytes) :
    (stepValue q (0xf9 :: bs)).err = some .halfFloatUnsupported ∧ (stepValue q (0xf9 :: bs)).p = q := by
  have hm : ((0xf9 : UInt8) &&& majorMask) = 0xe0 := by decide
  simp +decide [stepValue, hm]

/-- indefinite-length byte and text strings -/
theorem refuse_indef_string (q : P) (bs : Bytes) :
    (stepValue q (0x5f :: bs)).err = some .indefByteSeq ∧ (stepValue q (0x7f :: bs)).err = some .indefByteSeq ∧
    (stepValue q (0x5f :: bs)).p = q ∧ (stepValue q (0x7f :: bs)).p = q := by
  have h1 : ((0x5f : UInt8) &&& majorMask) = 0x40 := by decide
  have h2 : ((0x7f : UInt8) &&& majorMask) = 0x60 := by decide
  have h3 : ((0x5f : UInt8) &&& minorMask) = 31 := by decide
  have h4 : ((0x7f : UInt8) &&& minorMask) = 31 := by decide
  simp +decide [stepValue, h1, h2, h3, h4]

/-- non-text map keys -/
theorem refuse_nontext_key (q : P) (b0 : UInt8) (bs : Bytes) (h : (b0 &&& majorMask) ≠ majorText) :
    (initMapKey q (b0 :: bs)).err = some .textKeyRequired ∧ (initMapKey q (b0 :: bs)).p = q := by
  simp [initMapKey, h]

/-- negative integers below -2^63 (8-byte argument with the top bit set): an error, never
some other value -/
theorem refuse_neg_range (n : Nat) (h : 9223372036854775808 ≤ n) : negEvent 8 n = .error .intRange := by
  have : ¬ n ≤ 9223372036854775807 := by omega
  simp +decide [negEvent, this]

/-- reserved additional-information values 28..30 -/
theorem refuse_reserved (q : P) (m : Nat) (hm : m < 6) (a : Nat) (ha : 28 ≤ a ∧ a ≤ 30) (bs : Bytes) :
    (stepValue q (ib m a :: bs)).err = some .invalidCode := by
  have h1 := ib_major' (m := m) (a := a) (by omega) (by omega)
  have h2 := ib_minor' (m := m) (a := a) (by omega) (by omega)
  have hgt : len64b < UInt8.ofNat a := (ofNat_gt_len64b (by omega)).mpr (by omega)
  have hnl : ¬ (UInt8.ofNat a < len8b) := by rw [ofNat_lt_len8b (by omega)]; omega
  have hni : ¬ (UInt8.ofNat a = lenIndef) := by
    intro h'
    have := congrArg UInt8.toNat h'
    rw [ofNat_toNat_small (by omega)] at this
    simp [lenIndef] at this; omega
  have hlt0 : ¬ (ib 0 a < len8b) := by
    rw [UInt8.lt_iff_toNat_lt, ib_toNat (by omega) (by omega)]; simp [len8b]; omega
  have h6 : m = 0 ∨ m = 1 ∨ m = 2 ∨ m = 3 ∨ m = 4 ∨ m = 5 := by omega
  rcases h6 with rfl | rfl | rfl | rfl | rfl | rfl
  · simp +decide [stepValue, h1, h2, hgt, hlt0]
  · simp +decide [stepValue, h1, h2, hgt, hnl]
  · simp +decide [stepValue, h1, h2, hni, initByteSeq, hgt, hnl]
  · simp +decide [stepValue, h1, h2, hni, initByteSeq, hgt, hnl]
  · simp +decide [stepValue, h1, h2, hni, initSub, hgt, hnl]
  · simp +decide [stepValue, h1, h2, hni, initSub, hgt, hnl]

/-! ### non-vacuity: concrete documents meeting the hypotheses, evaluated by the kernel -/

/-- -200 written with a 1-byte argument (`38 c7`, the library's own output for
OnInt16(-200)): reported as the int16 event -200 -/
example : Parse.parse {} [0x38, 0xc7] = (idle [.num .i16 (-200)], none) := by decide +kernel

example : (Item.arr .w1 [.nint .w1 199, .mapIndef [(.imm, [0x61], .arrIndef [.uint .w8 5, .text .imm []])],
            .bytes .imm [1, 2], .f32 0x3fc00000]).ok = true := by decide

example :
    Parse.events (Parse.parse {} (Item.wire (.map .imm [(.imm, [], .nint .w2 40000)]))).1 =
      [.objStart 1 BT.any, .key [], .num .i32 (-40001), .objEnd] := by decide +kernel

/-- the converse, "never reported as some other value": whatever byte string the parser
accepts IS a concatenation of items of the supported subset (for inputs shorter than 2^63
bytes, literally `Item.ok` items) — so, with `parse_supported`, the events delivered are
exactly the RFC values of those items; nothing outside the subset is ever accepted -/
theorem accepted_is_supported (b : Bytes) (hb : b.length < 9223372036854775808)
    (h : (Parse.parse {} b).2 = none) : ∃ its, okList its = true ∧ b = wireList its :=
  SF.Cbor.Term.parse_none_is_ok_items b hb h

/-- the wire form of the subset is prefix-free: an accepted input has ONE reading -/
theorem wire_prefix_free (t1 t2 : Item) (h1 : SF.Cbor.Sim.okw t1 = true) (h2 : SF.Cbor.Sim.okw t2 = true) (r1 r2 : Bytes)
    (h : t1.wire ++ r1 = t2.wire ++ r2) : r1 = r2 :=
  SF.Cbor.Term.wire_prefix_free t1 t2 h1 h2 r1 r2 h

end SF.Props.C05
