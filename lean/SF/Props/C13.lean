/-
  C13 — unfolding assigns exactly the stream's value; unknown members are skipped.

  Proved here, for the Unfolder mirror (SF/Gotype/Unfold.lean; tied to gotype/*.go by the
  differential correspondence of ops `unf`, `unf-reuse`, `unf-type`), for EVERY context —
  every target, every nesting of open targets below the struct, every content of the six
  stacks, of the scratch buffers and of the key cache — and EVERY member value, whatever its
  shape, nesting depth, announced lengths, element types, and whether strings and keys are
  delivered by value or by reference:

    * `unknown_member_skipped`  an object member whose name matches no field of the struct
      being unfolded is consumed without error and leaves the context — the target
      included — EXACTLY as it was before the key (fields the stream does not mention stay
      untouched; the next key is looked up by the same struct state);
    * `ignore_swallows_value`   the state machine behind it: `unfolderIgnore` consumes one
      complete value and pops exactly itself.

    * `unfold_into_interface(_fresh)`, `generic_value_delivered`, `delivered_value_is_generic`:
      THE GENERIC CLAUSE — for every well-formed value tree (any nesting, announced lengths -1 or
      real, every element-type hint, strings/keys by value or by reference) unfolding into an
      empty interface — top level, or any `interface{}` position inside a generic container or
      a struct field — succeeds, delivers exactly the value `UnfoldSpec.generic` assigns to the
      stream (typed slices / maps where an element type is announced; equality up to
      nil ≙ empty, literally equal when no container is empty), and leaves the context exactly
      as it was (all six stacks idle, scratch slots popped);
    * `unfold_into_map`, `unfold_into_slice`: the same for `map[string]interface{}` and
      `[]interface{}` targets, nil or already holding data (old members kept unless mentioned).
  Proofs: SF/Proofs/UnfIgnore.lean, UnfGen*.lean.  Typed targets (numeric conversions between
  widths, structs, pointers): scalar conversion lemmas in SF/Props/C11.lean, the rest by the
  independent specification `SF.Unf.Spec` as an oracle + correspondence (SF/Ops/Unfold.lean).
-/
import SF.Proofs.UnfIgnore
import SF.Proofs.UnfGenericTop
import SF.Gotype.Menagerie
import SF.Proofs.UnfConsTop
import SF.Proofs.UnfStructValTop
import SF.Proofs.UnfSVContTop
namespace SF.Props.C13
open SF SF.Unf

/-- the state machine: in `unfolderIgnore`, one complete value of ANY shape is swallowed and
exactly the ignore state is popped; nothing else in the context changes -/
theorem ignore_swallows_value (f : Nat) (t : UTree) (c : Ctx) (fields : Fields) (rest : List U)
    (hu : c.unfolder = ⟨.ignore, .struct fields :: rest⟩) :
    run (f + 1) t.events c = .ok () (withU c ⟨.struct fields, rest⟩) :=
  SF.Unf.ignore_swallows_value f t c fields rest hu

/-- C13 (skip clause): while a struct is being unfolded (`unfolderStruct` on top of the
unfolder stack), a member whose key matches none of its fields — key by value or by reference
— followed by its ENTIRE value leaves the whole context unchanged: no error, no write to the
target, every stack back where it was -/
theorem unknown_member_skipped (f : Nat) (byRef : Bool) (key : Bytes) (t : UTree) (c : Ctx) (fields : Fields)
    (hcur : c.unfolder.current = .struct fields) (hkey : lookupField fields key = none) :
    run (f + 1) ((if byRef then UEv.keyRef key else UEv.key key) :: t.events) c = .ok () c := by
  have hk : stepEv (f + 1) (if byRef then UEv.keyRef key else UEv.key key) c =
      .ok () (withU c (c.unfolder.push .ignore)) := by
    cases byRef <;>
      simp [stepEv, onKey, onKeyRef, bind_def, currentU_eq, hcur, structOnKey, hkey, pushU_eq]
  rw [run_cons_ok _ _ _ _ _ hk]
  have := SF.Unf.ignore_swallows_value f t (withU c (c.unfolder.push .ignore)) fields c.unfolder.stack
    (by simp [Stk.push, hcur])
  rw [this]
  congr 1
  rw [withU_withU]
  have : (⟨.struct fields, c.unfolder.stack⟩ : Stk U) = c.unfolder := by
    rcases hu : c.unfolder with ⟨cur, stk⟩
    simp [hu] at hcur
    simp [hcur]
  rw [this, withU_self]

/-- … and therefore any number of unknown members, in any order, between the known ones -/
theorem unknown_members_skipped (f : Nat) (ms : List (Bool × Bytes × UTree)) (c : Ctx) (fields : Fields)
    (hcur : c.unfolder.current = .struct fields) (hkeys : ∀ m ∈ ms, lookupField fields m.2.1 = none) :
    run (f + 1) (eventsMems ms) c = .ok () c := by
  induction ms with
  | nil => simp [eventsMems, run]
  | cons m ms ih =>
    obtain ⟨r, k, v⟩ := m
    rw [eventsMems,
      run_ok_then _ _ _ _ _ (unknown_member_skipped f r k v c fields hcur (hkeys (r, k, v) (by simp)))]
    exact ih (fun m hm => hkeys m (by simp [hm]))

/-! ### the generic clause -/

/-- C13 (generic clause), new Unfolder: `SetTarget(&v)` with `var v interface{}` followed by the
events of ANY well-formed value tree `t`: the run succeeds, the target holds `t.gen`, which is
the stream's generic value (`generic t.toS`) up to nil ≙ empty — literally equal when no
container is empty —, every stack is idle and nothing else changed -/
theorem unfold_into_interface_fresh (f : Nat) (tbl : TypeTable) (t : UTree) (hwf : t.wf = true) :
    ∃ c₀ c₁, setTarget tbl .ifc .ifcNil newUnfolder = .ok c₀ ∧
      run (f + 1) t.events c₀ = .ok () c₁ ∧
      c₁ = { newUnfolder with target := t.gen, env := tbl } ∧
      c₁.target = t.gen ∧ Spec.norm c₁.target = Spec.norm (Spec.generic t.toS) ∧
      Spec.sameVal c₁.target (Spec.generic t.toS) = true ∧
      (t.noEmpty = true → c₁.target = Spec.generic t.toS) ∧
      c₁.depths = [0, 0, 0, 0, 0, 0] :=
  SF.Unf.unfold_into_interface_fresh f tbl t hwf

/-- … from ANY idle Unfolder (new, Reset, with or without key cache) and any old target value:
the run ends in EXACTLY the context `c` with the target holding the stream's value -/
theorem unfold_into_interface (f : Nat) (tbl : TypeTable) (v0 : GoVal) (t : UTree) (c : Ctx)
    (hwf : t.wf = true) (hidle : c.unfolder.stack = []) (hkc : Symbols.Inv c.keyCache) :
    ∃ c0 kc', setTarget tbl .ifc v0 c = .ok c0 ∧ KCOk c.keyCache kc' ∧
      run (f + 1) t.events c0 = .ok () { c with target := t.gen, env := tbl, keyCache := kc' } :=
  SF.Unf.unfold_into_interface f tbl v0 t c hwf hidle hkc

/-- the delivered value is the specification's generic value of the stream -/
theorem delivered_value_is_generic (t : UTree) (hwf : t.wf = true) :
    Spec.norm t.gen = Spec.norm (Spec.generic t.toS) ∧ Spec.sameVal t.gen (Spec.generic t.toS) = true :=
  SF.Unf.delivered_value_is_generic t hwf

/-- … in ANY `interface{}` position inside a generic container (element of `[]interface{}`,
member value of `map[string]interface{}`): the whole value tree behaves as ONE delivery of its
generic value, nothing else changes -/
theorem generic_value_into_container (f : Nat) (t : UTree) (c : Ctx) (hwf : t.wf = true)
    (hu : c.unfolder.current = .arr .ifc ∨ c.unfolder.current = .mapVal .ifc)
    (hS : c.unfolder.stack ≠ []) (hkc : Symbols.Inv c.keyCache) :
    ∃ kc', KCOk c.keyCache kc' ∧
      run (f + 1) t.events c = pukDeliver c.unfolder.current t.gen (setKC c kc') :=
  SF.Unf.generic_value_into_container f t c hwf hu hS hkc

/-- non-vacuity.  The context `SetTarget(&UIn{X: 5})` + `OnObjectStart` leaves behind for
`type UIn struct { X int; Y string "why" }` (compiled fields: "x" ↦ offset 0 int, "why" ↦
offset 1 string), fed  `"zz": {"a": [1, "s"(by reference), {}], "b"(key by reference): null},
"why": "s"` and the end of the object: unfolding succeeds, all six stacks are idle, `X` is
still 5 and `Y` has been assigned -/
def demoCtx : Ctx :=
  { unfolder := ⟨.struct [([0x78], [0], .lifted (.prim (.num .int))), ([0x77, 0x68, 0x79], [1], .lifted (.prim .string))],
                 [.noTarget]⟩,
    ptr := ⟨some { root := .target }, [none]⟩,
    target := .struct [.int .int 5, .str []] }

def demo : Bool :=
  match run 8 ([UEv.key [0x7a, 0x7a]] ++
      (UTree.obj (-1) 0 [(false, [0x61], .arr 3 0 [.scalar (.num .i64 1), .strRef [0x73], .obj 0 0 []]),
                         (true, [0x62], .scalar .nil)]).events ++
      [.keyRef [0x77, 0x68, 0x79], .strRef [0x73], .objEnd]) demoCtx with
  | .ok _ c =>
    (match c.target with
     | .struct [.int .int 5, .str [0x73]] => true
     | _ => false) && c.depths == [0, 0, 0, 0, 0, 0]
  | _ => false

example : demo = true := by decide +kernel

end SF.Props.C13


/-! ## the typed-assignment clause for primitive targets and containers of primitives
(proofs SF/Proofs/UnfTyVal*.lean, UnfConsTop.lean) -/

namespace SF.PropsTyped.C13
open SF SF.Unf SF.Ops.Unf

/-- C13, SCALAR TARGETS.  Target of type bool, string, any integer width, float32, float64 holding
anything, on ANY Unfolder context, and one scalar event carrying a value of its own Go type:
whenever the specification makes a claim (`Spec.expected`: assign what matches, convert numbers
that fit), `SetTarget` and the event are accepted, the context is exactly `c` again with the target
holding the specified value -/
theorem unfold_scalar_into_typed (f : Nat) (tbl : TypeTable) (t : GoType) (k : PK) (v0 : GoVal) (c : Ctx) (s : Sc)
    (want : GoVal) (hk : PK.ofExact? t = some k) (hki : k ≠ .ifc) (hs : s.inRange = true)
    (hexp : Spec.expected tbl t v0 (.sc s) = some want) :
    ∃ c₀ got, setTarget tbl t v0 c = .ok c₀ ∧
      run (f + 1) [.scalar s] c₀ = .ok () { c with target := got, env := tbl } ∧
      Spec.sameVal got want = true ∧ ((∀ nk, t = .int nk → normKind nk = nk) → got = want) :=
  SF.UnfProofs.Cons.unfold_scalar_into_typed f tbl t k v0 c s want hk hki hs hexp

/-- C13, `[]T` TARGETS (`T` primitive): target holding any slice value, idle Unfolder, a well-formed
array of scalars (announced length -1, 0 … the real count): whenever the specification makes a
claim, everything is accepted, the context is exactly `c` again, and the target holds exactly the
stream's elements, converted — nothing left of the old elements -/
theorem unfold_array_into_prim_slice (f : Nat) (tbl : TypeTable) (e : GoType) (k : PK) (v0 : GoVal) (c : Ctx)
    (l : Int) (bt : Nat) (scs : List Sc) (want : GoVal) (hk : PK.ofExact? e = some k) (hki : k ≠ .ifc)
    (hv0 : isSliceVal v0) (hidle : c.unfolder.stack = []) (hl : l ≤ (scs.length : Int))
    (hs : ∀ s ∈ scs, s.inRange = true)
    (hexp : Spec.expected tbl (.slice e) v0 (.arr bt (scs.map Spec.STree.sc)) = some want) :
    ∃ c₀ got, setTarget tbl (.slice e) v0 c = .ok c₀ ∧
      run (f + 1) (.arrStart l bt :: scs.map UEv.scalar ++ [.arrEnd]) c₀ = .ok () { c with target := got, env := tbl } ∧
      Spec.sameVal got want = true :=
  SF.UnfProofs.Cons.unfold_array_into_prim_slice f tbl e k v0 c l bt scs want hk hki hv0 hidle hl hs hexp

/-- C13, `map[string]T` TARGETS: target holding any map value, a well-formed object of scalars:
the old entries, with the stream's members put in stream order (merge, not replace) -/
theorem unfold_object_into_prim_map (f : Nat) (tbl : TypeTable) (e : GoType) (k : PK) (v0 : GoVal) (et : GoType)
    (olds : List (Bytes × GoVal)) (c : Ctx) (l : Int) (bt : Nat) (mems : List (Bytes × Sc)) (want : GoVal)
    (hk : PK.ofExact? e = some k) (hki : k ≠ .ifc) (hv0 : mapParts v0 = some (et, olds))
    (hidle : c.unfolder.stack = []) (hs : ∀ m ∈ mems, m.2.inRange = true)
    (hexp : Spec.expected tbl (.map e) v0 (.obj bt (memberTrees mems)) = some want) :
    ∃ c₀ got, setTarget tbl (.map e) v0 c = .ok c₀ ∧
      run (f + 1) (.objStart l bt :: memberEvents mems ++ [.objEnd]) c₀ =
        .ok () { c with target := got, env := tbl } ∧
      Spec.sameVal got want = true :=
  SF.UnfProofs.Cons.unfold_object_into_prim_map f tbl e k v0 et olds c l bt mems want hk hki hv0 hidle hs hexp

/-- non-vacuity: `OnUint16(300)` into an `int64` holding 7: the specification makes a claim, and
the mirror evaluated -/
example :
    (Spec.assign (fun _ => none) false 5 (.int .i64) (.int .i64 7) (.sc (.num .u16 300))).isSome = true ∧
    (match setTarget (fun _ => none) (.int .i64) (.int .i64 7) newUnfolder with
     | .ok c₀ =>
       (match run 1 [.scalar (.num .u16 300)] c₀ with
        | .ok _ c₁ => (match c₁.target with | .int .i64 300 => true | _ => false) && c₁.depths == [0, 0, 0, 0, 0, 0]
        | _ => false)
     | .error _ => false) = true := by decide +kernel

end SF.PropsTyped.C13


/-! ## the typed-assignment clause for STRUCT targets (proofs SF/Proofs/UnfSV*.lean, UnfStructValTop.lean)

Covered: struct targets whose (flattened) fields are of primitive, `interface{}` or struct type,
`inline` / `squash` fields to any depth (they are just longer offset paths in the compiled field
table), nested structs, unknown keys with values of any shape (swallowed without a trace), duplicate
keys (assigned in stream order), numeric conversions.  The hypothesis `FM` says the compiled field
table agrees entry by entry with the specification's field list (`Spec.specFields`) — checkable by
evaluation for a concrete type; it is FORCED: for a tag with a leading blank (`" -"`) the code
compares the untrimmed name with `-` while the specification trims first, and a type with a
duplicate member name is refused by `SetTarget` (both evaluated in the proof file).  NOT covered
(safety there: C14 `any_events_into_struct`; values: oracle `assign`): fields of type `[]T`,
`map[string]T`, `*T`, containers of structs. -/

namespace SF.PropsStruct.C13
open SF SF.Unf SF.Unf.Spec SF.Unf.SV
open SF.UnfProofs.StructVal (startCtx Shaped)

/-- C13, STRUCT TARGETS, from a compiled field table (every hypothesis can be checked by evaluation):
for ANY old value of the target, an idle Unfolder and ONE object whose member values are well-formed
trees: whenever the specification's member fold makes a claim, the whole event sequence is accepted,
the run ends in EXACTLY the context it started from but for the target (and cells / key cache), and
the target holds the specified value for the oracle's comparison: fields mentioned hold the assigned
(converted) values, fields not mentioned are untouched, unknown members leave no trace -/
theorem object_into_struct_compiled (f : Nat) (tbl : TypeTable) (S : GoType) (fields : Fields) (sf : SpecFields)
    (R : Reg) (v0 : GoVal) (c : Ctx) (l : Int) (bt : Nat) (ms : List (Bool × Bytes × UTree)) (ip : Bool) (n : Nat)
    (want : GoVal) (hFM : FM tbl S fields sf) (hv0 : Shaped tbl S v0) (hidle : c.unfolder.stack = [])
    (hkc : Symbols.Inv c.keyCache) (hwf : ∀ m ∈ ms, m.2.2.wf = true)
    (hspec : assignMembers tbl ip n sf v0 (toSMems ms) = some want) :
    ∃ got cells' kc', run (f + 2) (UTree.obj l bt ms).events (startCtx c tbl R fields v0) =
        .ok () { c with target := got, env := tbl, reg := R, cells := cells', keyCache := kc' } ∧
      norm got = norm want ∧ sameVal got want = true ∧ Shaped tbl S got ∧ Symbols.Inv kc' :=
  SF.UnfProofs.StructVal.object_into_struct_compiled f tbl S fields sf R v0 c l bt ms ip n want hFM hv0 hidle hkc hwf hspec

/-- C13, STRUCT TARGETS, through `SetTarget`: whenever the specification makes a claim
(`Spec.expected`), `SetTarget` (the type compiles to the field table `fields`) and the whole event
sequence are accepted, the Unfolder is EXACTLY as before `SetTarget` but for the target, `env` /
`reg`, cells and key cache, and the target holds the specified value -/
theorem unfold_object_into_struct (f : Nat) (tbl : TypeTable) (S : GoType) (nm : String)
    (fs : List (String × String × GoType)) (fields : Fields) (R : Reg) (v0 : GoVal) (c : Ctx) (t : UTree) (want : GoVal)
    (hS : S.un tbl = .struct nm fs)
    (hcomp : lookupReflUnfolder tbl typeFuel [] c.reg S = .ok (.struct fields, R))
    (hFM : FM tbl S fields (specFields tbl (fs.length + 64) fs 0))
    (hv0 : Shaped tbl S v0) (hidle : c.unfolder.stack = []) (hkc : Symbols.Inv c.keyCache) (hwf : t.wf = true)
    (hexp : expected tbl S v0 t.toS = some want) :
    ∃ c₀ got cells' kc', setTarget tbl S v0 c = .ok c₀ ∧
      run (f + 2) t.events c₀ =
        .ok () { c with target := got, env := tbl, reg := R, cells := cells', keyCache := kc' } ∧
      norm got = norm want ∧ sameVal got want = true ∧ Shaped tbl S got :=
  SF.UnfProofs.StructVal.unfold_object_into_struct f tbl S nm fs fields R v0 c t want hS hcomp hFM hv0 hidle hkc hwf hexp

/-- non-vacuity: `struct { A int; In ",inline"{X int; Y string "why"}; F float64 "f"; I interface{};
U MyU8; hidden int }` holding old values, a document with a duplicate inlined key, an unknown nested
member, int8 → float64 and uint16 → MyU8 conversions, a generic array, a by-reference key: the
hypotheses hold (`demoFM`), and the mirror run ends idle with the target as specified -/
example : FM SF.UnfProofs.StructVal.noTbl SF.UnfProofs.StructVal.tDemo SF.UnfProofs.StructVal.demoFields
    SF.UnfProofs.StructVal.demoSF ∧
    (match run typeFuel (UTree.obj 7 0 SF.UnfProofs.StructVal.demoDoc).events
        (startCtx newUnfolder SF.UnfProofs.StructVal.noTbl [] SF.UnfProofs.StructVal.demoFields
          SF.UnfProofs.StructVal.demoOld) with
     | .ok _ c₁ =>
       c₁.depths == [0, 0, 0, 0, 0, 0] &&
       (match c₁.target with
        | .struct [.int .int 7, .struct [.int .int 4, .str [0x74]], .f64 _,
                   .ifc (.slice .ifc [.ifc (.int .i8 1), .ifc (.str [0x73])] []), .int .u8 200, .int .int 3] => true
        | _ => false)
     | _ => false) = true :=
  ⟨SF.UnfProofs.StructVal.demoFM, by decide +kernel⟩

end SF.PropsStruct.C13


/-! ## C13, struct targets: fields of type `*T` and `[]T` (T of primitive kind, named or not)

The store lemma `FieldOK` (SF/Proofs/UnfSVCore.lean) is what `object_into_struct_compiled` asks of every entry
of the field table (`FM`); with these two instances the typed-assignment clause covers struct fields of
primitive, `interface{}`, nested / inlined struct, POINTER-to-primitive and SLICE-of-primitive type.
Proof files SF/Proofs/UnfSV{Ptr,Arr,ContTop}.lean.  `map[string]T` fields: not proved — as stated the store
lemma is false of the MIRROR's untyped value universe (an old map value may carry a foreign element-type tag,
which `norm` sees and Go cannot express; evaluated counterexample in UnfSVContTop.lean): correspondence + oracle. -/
namespace SF.PropsStructCont.C13
open SF SF.Unf SF.Unf.Spec SF.Unf.SV
open SF.UnfProofs.StructVal (startCtx Shaped FM noTbl tCont contFields contSF contOld contDoc contFM)
open SF.Unf.Str (hasTyB_sound)

/-- `*T` fields, `T` of primitive kind `k` (named or not; not `interface{}`): `null` ↦ the nil pointer; a scalar the
specification assigns to a `T` ↦ a FRESH cell (`cells'` of `FieldOK` = one more cell) holding the converted scalar,
the field holds the pointer — whatever it held before (both readings of the specification agree: a primitive
pointee is replaced as a whole). `hnb` as in `fieldOK_prim`. -/
theorem field_ptr_prim (tbl : TypeTable) (ft e : GoType) (k : PK) (hu : ft.un tbl = .ptr e)
    (hk : PK.ofExact? (e.un tbl) = some k) (hki : k ≠ .ifc)
    (hnb : ∀ nk, e.un tbl = .int nk → normKind nk = nk) : FieldOK tbl (.ptr e (.lifted (.prim k))) ft :=
  SF.UnfProofs.StructVal.fieldOK_ptr tbl ft e k hu hk hki hnb

/-- `[]T` fields, `T` of primitive kind `k` (named or not; not `interface{}`): an array of scalars — ANY announced
length not above the count (`-1`, `0`, … the count: `UTree.wf`), ANY announced element type (the typed arrays of
the ext visitors are arrays of scalars event by event), strings by value or by reference — that the specification
assigns element by element: the field then holds EXACTLY the stream's elements, converted, for ANY old slice (nil,
shorter, longer: the rest of the old elements stays hidden in the capacity, which `norm` drops). -/
theorem field_slice_prim (tbl : TypeTable) (ft e : GoType) (k : PK) (hu : ft.un tbl = .slice e)
    (hk : PK.ofType? tbl e = some k) (hki : k ≠ .ifc) (hnb : ∀ nk, e.un tbl = .int nk → normKind nk = nk) :
    FieldOK tbl (.lifted (.arr k)) ft :=
  SF.UnfProofs.StructVal.fieldOK_arr tbl ft e k hu hk hki hnb

/-- non-vacuity: `struct { P *int; Xs []int32; Q *MyStr "q"; Ys []string }` with old values, a document assigning
all four (announced and unknown lengths, by-reference key and string, `null` into a pointer, an unknown member):
every hypothesis of `object_into_struct_compiled` holds, and the mirror run ends idle with the target as specified
(two cells allocated, the fourth old element of `Xs` hidden in the capacity) -/
example : SF.UnfProofs.StructVal.FM noTbl tCont contFields contSF ∧ Shaped noTbl tCont contOld ∧
    (match run typeFuel (UTree.obj 6 0 contDoc).events (startCtx newUnfolder noTbl [] contFields contOld) with
     | .ok _ c₁ =>
       c₁.depths == [0, 0, 0, 0, 0, 0] && c₁.cells.size == 2 &&
       (match c₁.target with
        | .struct [.ptrNil _, .slice _ [.int .i32 1, .int .i32 300, .int .i32 (Int.negSucc 1)] [.int .i32 9],
                   .ptr _ (.str [0x73]), .slice _ [.str [0x61], .str [0x62]] []] => true
        | _ => false)
     | _ => false) = true :=
  ⟨contFM, hasTyB_sound _ _ _ (by decide +kernel), by decide +kernel⟩

end SF.PropsStructCont.C13
