/-
  C13 — unfolding assigns exactly the stream's value; unknown members are skipped.

  Proved here, for the Unfolder mirror (SF/Gotype/Unfold.lean; tied to gotype/*.go by the
  differential correspondence of ops `unf`, `unf-reuse`, `unf-type`), for EVERY context —
  every target, every nesting of open targets below the struct, every content of the six
  stacks, of the scratch buffers and of the key cache — and EVERY member value, whatever its
  shape, nesting depth, announced lengths, element types, and whether strings and keys are
  delivered by value or by reference:

    * `unknown_member_skipped`  an object member whose name matches no field of the struct
      being unfolded is consumed without error and leaves the context — the target
      included — EXACTLY as it was before the key (fields the stream does not mention stay
      untouched; the next key is looked up by the same struct state);
    * `ignore_swallows_value`   the state machine behind it: `unfolderIgnore` consumes one
      complete value and pops exactly itself.

  The value-assignment clauses (generic data for `interface{}` targets, numeric conversions,
  typed targets) are decided by the independent specification `SF.Unf.Spec` evaluated as an
  oracle on what the implementation printed, over generated streams × targets, and by the
  correspondence with the mirror (SF/Ops/Unfold.lean).
-/
import SF.Proofs.UnfIgnore
import SF.Gotype.Menagerie
namespace SF.Props.C13
open SF SF.Unf

/-- the state machine: in `unfolderIgnore`, one complete value of ANY shape is swallowed and
exactly the ignore state is popped; nothing else in the context changes -/
theorem ignore_swallows_value (f : Nat) (t : UTree) (c : Ctx) (fields : Fields) (rest : List U)
    (hu : c.unfolder = ⟨.ignore, .struct fields :: rest⟩) :
    run (f + 1) t.events c = .ok () (withU c ⟨.struct fields, rest⟩) :=
  SF.Unf.ignore_swallows_value f t c fields rest hu

/-- C13 (skip clause): while a struct is being unfolded (`unfolderStruct` on top of the
unfolder stack), a member whose key matches none of its fields — key by value or by reference
— followed by its ENTIRE value leaves the whole context unchanged: no error, no write to the
target, every stack back where it was -/
theorem unknown_member_skipped (f : Nat) (byRef : Bool) (key : Bytes) (t : UTree) (c : Ctx) (fields : Fields)
    (hcur : c.unfolder.current = .struct fields) (hkey : lookupField fields key = none) :
    run (f + 1) ((if byRef then UEv.keyRef key else UEv.key key) :: t.events) c = .ok () c := by
  have hk : stepEv (f + 1) (if byRef then UEv.keyRef key else UEv.key key) c =
      .ok () (withU c (c.unfolder.push .ignore)) := by
    cases byRef <;>
      simp [stepEv, onKey, onKeyRef, bind_def, currentU_eq, hcur, structOnKey, hkey, pushU_eq]
  rw [run_cons_ok _ _ _ _ _ hk]
  have := SF.Unf.ignore_swallows_value f t (withU c (c.unfolder.push .ignore)) fields c.unfolder.stack
    (by simp [Stk.push, hcur])
  rw [this]
  congr 1
  rw [withU_withU]
  have : (⟨.struct fields, c.unfolder.stack⟩ : Stk U) = c.unfolder := by
    rcases hu : c.unfolder with ⟨cur, stk⟩
    simp [hu] at hcur
    simp [hcur]
  rw [this, withU_self]

/-- … and therefore any number of unknown members, in any order, between the known ones -/
theorem unknown_members_skipped (f : Nat) (ms : List (Bool × Bytes × UTree)) (c : Ctx) (fields : Fields)
    (hcur : c.unfolder.current = .struct fields) (hkeys : ∀ m ∈ ms, lookupField fields m.2.1 = none) :
    run (f + 1) (eventsMems ms) c = .ok () c := by
  induction ms with
  | nil => simp [eventsMems, run]
  | cons m ms ih =>
    obtain ⟨r, k, v⟩ := m
    rw [eventsMems,
      run_ok_then _ _ _ _ _ (unknown_member_skipped f r k v c fields hcur (hkeys (r, k, v) (by simp)))]
    exact ih (fun m hm => hkeys m (by simp [hm]))

/-- non-vacuity.  The context `SetTarget(&UIn{X: 5})` + `OnObjectStart` leaves behind for
`type UIn struct { X int; Y string "why" }` (compiled fields: "x" ↦ offset 0 int, "why" ↦
offset 1 string), fed  `"zz": {"a": [1, "s"(by reference), {}], "b"(key by reference): null},
"why": "s"` and the end of the object: unfolding succeeds, all six stacks are idle, `X` is
still 5 and `Y` has been assigned -/
def demoCtx : Ctx :=
  { unfolder := ⟨.struct [([0x78], [0], .lifted (.prim (.num .int))), ([0x77, 0x68, 0x79], [1], .lifted (.prim .string))],
                 [.noTarget]⟩,
    ptr := ⟨some { root := .target }, [none]⟩,
    target := .struct [.int .int 5, .str []] }

def demo : Bool :=
  match run 8 ([UEv.key [0x7a, 0x7a]] ++
      (UTree.obj (-1) 0 [(false, [0x61], .arr 3 0 [.scalar (.num .i64 1), .strRef [0x73], .obj 0 0 []]),
                         (true, [0x62], .scalar .nil)]).events ++
      [.keyRef [0x77, 0x68, 0x79], .strRef [0x73], .objEnd]) demoCtx with
  | .ok _ c =>
    (match c.target with
     | .struct [.int .int 5, .str [0x73]] => true
     | _ => false) && c.depths == [0, 0, 0, 0, 0, 0]
  | _ => false

example : demo = true := by decide +kernel

end SF.Props.C13
