/-
  C19 — independent instances can be used concurrently without interference.

  The theorem: for instances whose step functions read only their own state and an immutable
  global environment, EVERY interleaving of their operation sequences yields, per instance,
  exactly the outputs of running alone.  Its hypothesis about the real code — no mutable
  package-level state — is discharged against facts regenerated from /repo on every run
  (SF/GenCheck.lean `globals`: no store / map update rooted at a package-level variable
  outside `init`, extracted from the SSA form of all library packages), so a change that
  starts using shared mutable state breaks a proof obligation.  Data-race freedom proper is a
  statement about the Go memory model and runtime (partial by nature): the harness runs N
  goroutines of fold→encode→parse→unfold pipelines on own instances over shared inputs and
  shared (first-use and cached) types, compares with the sequential results, and repeats it
  under the race detector in the thorough tier — as support and failing-input search only.
-/
import SF.Conc
import SF.GenCheck
namespace SF.Props.C19
open SF.Conc

variable {G : Type} (M : Machine G)

theorem proj_cons_same {n : Nat} {α : Type} (i : Fin n) (a : α) (l : List (Fin n × α)) :
    proj i ((i, a) :: l) = a :: proj i l := by simp [proj]

theorem proj_cons_other {n : Nat} {α : Type} (i j : Fin n) (h : j ≠ i) (a : α) (l : List (Fin n × α)) :
    proj i ((j, a) :: l) = proj i l := by simp [proj, h]

/-- NON-INTERFERENCE: for every number of instances, every initial state, every schedule
(interleaving) and every instance `i`: the outputs instance `i` observes are those of running
its own operations alone, in order -/
theorem interleaving_independent {n : Nat} (g : G) (st : Fin n → M.S) (sched : List (Fin n × M.Op))
    (i : Fin n) :
    proj i (runSched M g st sched) = runAlone M g (st i) (proj i sched) := by
  induction sched generalizing st with
  | nil => simp [runSched, proj, runAlone]
  | cons p rest ih =>
    obtain ⟨j, op⟩ := p
    simp only [runSched]
    by_cases hj : j = i
    · subst hj
      rw [proj_cons_same, proj_cons_same, ih]
      simp [runAlone]
    · rw [proj_cons_other i j hj, proj_cons_other i j hj, ih]
      simp [Ne.symm hj]

/-- the tie to the code, re-checked on every run: the library has no function outside
`init` that writes a package-level variable -/
theorem no_shared_mutable_state : SF.Gen.Globals.facts = [] := SF.GenCheck.globals

/-- … nor is a field of any type that has a package-level INSTANCE (the stateless singleton
unfolder states, shared by every Unfolder) written anywhere except in constructors of fresh
values and in the registry type whose package-level instance no iterator uses; nor is a method
(atomic Store / Load, Lock, …) called on a package-level variable (same regenerated facts:
`Globals` also lists `method-…` calls) -/
theorem no_singleton_state : SF.Gen.Singletons.facts.length = 13 ∧
    SF.Gen.Singletons.facts.head? = some "gotype.fieldUnfolder.initState:store-in:makeFieldUnfolder" := by
  rw [SF.GenCheck.singletonWritesKnown]; decide

/-- non-vacuity: two counters stepped in an interleaved order -/
@[reducible] def counter : Machine Unit :=
  { S := Nat, Op := Nat, Out := Nat, step := fun _ s op => (s + op, s + op) }

example : proj (1 : Fin 2) (runSched counter () (fun _ => (0 : Nat))
      [((0 : Fin 2), (5 : Nat)), (1, (2 : Nat)), (0, (1 : Nat)), (1, (3 : Nat))]) = [(2 : Nat), 5] ∧
    runAlone counter () (0 : Nat) [(2 : Nat), 3] = [(2 : Nat), 5] := by decide

end SF.Props.C19
