/-
  C15 — stored values never alias transient buffers; unsafe conversions stay valid.

  What can be a theorem here is the OWNERSHIP DISCIPLINE, for every history; whether the Go
  code follows the discipline is tied (i) statically by regenerated SSA facts
  (`SF.GenCheck.refConsumersCopy`: every by-reference consumer in gotype copies / interns /
  only looks up; `SF.GenCheck.unsafeSitesKnown`: the complete table of zero-copy conversions
  and what their results are used for) and (ii) dynamically by the ops `alias` / `aliasrec`
  (every input buffer overwritten as soon as Write / Read returns, the same parser and
  unfolder continue with further input, garbage churn, continuous GC, and the whole stream
  once more under `-race`, which enables Go's `checkptr` instrumentation).

  Model.  Memory is a family of regions (a caller's chunk buffer, the parser's internal
  token buffer, the fresh buffer `unquote` allocates, …).  A string event carries bytes that
  live in some region, by reference (`OnStringRef`, `OnKeyRef`: valid during the callback only)
  or by value (`OnString`, `OnKey`: a Go string, which the consumer may keep).  The consumer
  (the Unfolder) stores, for each event, either an owned copy or a view of the region.
  Regions can be overwritten at any time — except that the PRODUCER DISCIPLINE forbids
  overwriting a region after a by-value string into it has been handed out.

    * `owned_store_stable`: if the consumer copies by-reference strings (the only thing the
      SSA facts allow it to do) then after ANY history obeying the producer discipline —
      any number of events, any interleaving with any overwrites of any other regions —
      every stored string still reads exactly as it did when it was delivered;
    * `view_consumer_unstable`, `undisciplined_producer_unstable`: both halves are necessary:
      a consumer that keeps views of by-reference strings, or a producer that hands out a
      by-value view of a buffer it later reuses, is refuted by a three-step history
      (these are the two seeded changes the `alias` ops are sensitive to).
  Partial by nature: the model cannot exhibit memory freed under a live `uintptr`, nor the
  garbage collector; those are runtime facts (GC-stress and checkptr runs).
-/
import SF.Basic
namespace SF.Props.C15
open SF

abbrev Region := Nat
abbrev Mem := Region → Bytes

/-- what the target holds for one stored string -/
inductive Stored
  | own (s : Bytes)                              -- a private copy
  | view (r : Region) (off len : Nat)            -- a string header pointing into region r
  deriving Repr, DecidableEq

def slice (b : Bytes) (off len : Nat) : Bytes := (b.drop off).take len

def Stored.read (m : Mem) : Stored → Bytes
  | .own s => s
  | .view r off len => slice (m r) off len

inductive Op
  | deliverRef (r : Region) (off len : Nat)      -- OnStringRef / OnKeyRef
  | deliverVal (r : Region) (off len : Nat)      -- OnString / OnKey
  | overwrite (r : Region) (bs : Bytes)          -- the owner of region r reuses it
  deriving Repr

structure St where
  mem : Mem
  target : List Stored := []
  /-- ghost: the bytes of each stored string at delivery time -/
  expect : List Bytes := []
  /-- ghost: regions into which a by-value string has been handed out -/
  frozen : List Region := []

def setMem (m : Mem) (r : Region) (bs : Bytes) : Mem := fun x => if x = r then bs else m x

/-- one step; `copyRef` = the consumer copies by-reference strings (`string(v)`) -/
def step (copyRef : Bool) (s : St) : Op → St
  | .deliverRef r off len =>
    { s with target := s.target ++ [if copyRef then .own (slice (s.mem r) off len) else .view r off len],
             expect := s.expect ++ [slice (s.mem r) off len] }
  | .deliverVal r off len =>
    { s with target := s.target ++ [.view r off len],            -- a Go string is kept as it is
             expect := s.expect ++ [slice (s.mem r) off len],
             frozen := r :: s.frozen }
  | .overwrite r bs => { s with mem := setMem s.mem r bs }

/-- the producer discipline: a region is never overwritten once a by-value string into it has
been handed out -/
def allowed (s : St) : Op → Prop
  | .overwrite r _ => r ∉ s.frozen
  | _ => True

def Disciplined (copyRef : Bool) : St → List Op → Prop
  | _, [] => True
  | s, op :: ops => allowed s op ∧ Disciplined copyRef (step copyRef s op) ops

def run (copyRef : Bool) (s : St) (ops : List Op) : St := ops.foldl (step copyRef) s

/-- the invariant: every stored string is an owned copy or a view of a frozen region, and
reads as expected -/
def Inv (s : St) : Prop :=
  s.target.map (Stored.read s.mem) = s.expect ∧
  ∀ x ∈ s.target, match x with
    | .own _ => True
    | .view r _ _ => r ∈ s.frozen

theorem read_setMem_of_frozen (m : Mem) (r : Region) (bs : Bytes) (frozen : List Region) (hr : r ∉ frozen)
    (x : Stored) (hx : match x with | .own _ => True | .view r' _ _ => r' ∈ frozen) :
    x.read (setMem m r bs) = x.read m := by
  cases x with
  | own s => rfl
  | view r' off len =>
    simp only [Stored.read, setMem]
    have : r' ≠ r := fun h => hr (h ▸ hx)
    simp [this]

theorem step_inv (s : St) (op : Op) (h : Inv s) (ha : allowed s op) : Inv (step true s op) := by
  obtain ⟨h1, h2⟩ := h
  cases op with
  | deliverRef r off len =>
    refine ⟨by simp [step, Stored.read, h1], ?_⟩
    intro x hx
    simp only [step, if_true, List.mem_append, List.mem_singleton] at hx
    rcases hx with hx | hx
    · exact h2 x hx
    · subst hx; trivial
  | deliverVal r off len =>
    refine ⟨by simp [step, Stored.read, h1], ?_⟩
    intro x hx
    simp only [step, List.mem_append, List.mem_singleton] at hx
    rcases hx with hx | hx
    · have := h2 x hx
      cases x with
      | own _ => trivial
      | view r' _ _ => exact List.mem_cons_of_mem _ this
    · subst hx; exact List.mem_cons_self
  | overwrite r bs =>
    refine ⟨?_, h2⟩
    simp only [step]
    rw [← h1]
    apply List.map_congr_left
    intro x hx
    exact read_setMem_of_frozen s.mem r bs s.frozen ha x (h2 x hx)

/-- C15 (ownership discipline): with a consumer that copies by-reference strings, after ANY
history that obeys the producer discipline every stored string reads exactly as delivered —
whatever else was overwritten in between, however often, in whatever order -/
theorem owned_store_stable (s : St) (ops : List Op) (h : Inv s) (hd : Disciplined true s ops) :
    (run true s ops).target.map (Stored.read (run true s ops).mem) = (run true s ops).expect := by
  induction ops generalizing s with
  | nil => exact h.1
  | cons op ops ih =>
    simp only [run, List.foldl_cons]
    exact ih (step true s op) (step_inv s op h hd.1) hd.2

/-- … in particular from the empty target -/
theorem owned_store_stable_init (m : Mem) (ops : List Op) (hd : Disciplined true { mem := m } ops) :
    (run true { mem := m } ops).target.map (Stored.read (run true { mem := m } ops).mem) =
      (run true { mem := m } ops).expect :=
  owned_store_stable _ ops ⟨rfl, fun _ h => by simp at h⟩ hd

def mem0 : Mem := fun r => if r = 0 then [1, 2, 3] else []

/-- non-vacuity: a by-reference string out of the caller's buffer (region 0), the buffer
scribbled, a by-value string out of fresh memory (region 1), region 0 reused again: the
history is disciplined and both stored strings are intact -/
example : Disciplined true { mem := mem0 }
      [.deliverRef 0 1 2, .overwrite 0 [9, 9, 9], .overwrite 1 [7, 8], .deliverVal 1 0 2, .overwrite 0 [5]] ∧
    (run true { mem := mem0 } [.deliverRef 0 1 2, .overwrite 0 [9, 9, 9], .overwrite 1 [7, 8], .deliverVal 1 0 2,
      .overwrite 0 [5]]).target.map (Stored.read (setMem (setMem mem0 0 [5]) 1 [7, 8])) = [[2, 3], [7, 8]] := by
  refine ⟨⟨?_, ?_, ?_, ?_, ?_, trivial⟩, ?_⟩ <;> simp [allowed, step, run, mem0, setMem, slice, Stored.read]

/-- necessity of the consumer rule: a consumer that keeps a VIEW of a by-reference string is
refuted by a disciplined two-step history (the seeded change "OnStringRef stores the
zero-copy string") -/
theorem view_consumer_unstable :
    ∃ (m : Mem) (ops : List Op), Disciplined false { mem := m } ops ∧
      (run false { mem := m } ops).target.map (Stored.read (run false { mem := m } ops).mem) ≠
        (run false { mem := m } ops).expect :=
  ⟨mem0, [.deliverRef 0 0 3, .overwrite 0 [9, 9, 9]], ⟨trivial, by simp [allowed, step], trivial⟩,
    by simp [run, step, Stored.read, setMem, mem0, slice]⟩

/-- necessity of the producer discipline: handing out a by-value view of a buffer that is
reused afterwards is refuted even with a copying consumer (the seeded change "the JSON parser
passes un-escaped strings by value") -/
theorem undisciplined_producer_unstable :
    ∃ (m : Mem) (ops : List Op),
      (run true { mem := m } ops).target.map (Stored.read (run true { mem := m } ops).mem) ≠
        (run true { mem := m } ops).expect :=
  ⟨mem0, [.deliverVal 0 0 3, .overwrite 0 [9, 9, 9]], by simp [run, step, Stored.read, setMem, mem0, slice]⟩

end SF.Props.C15
