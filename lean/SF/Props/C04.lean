/-
  C04 — the JSON parser reads every valid document with its RFC 8259 value.

  Decided by: the executable mirror of json/parse.go (SF/Json/Parse.lean, incl. exact models
  of strconv.ParseFloat and Go's UTF-8/UTF-16 routines), the independent RFC 8259 reference
  decoder SF/Json/Cst.lean as oracle on the same bytes, and the correspondence on
  foreign-producer texts (all escape spellings followed by any UTF-8, surrogates, 64-bit
  boundary integers, whitespace, structural violations).  PROVED (`…_partial`): the integer
  literal layer — `parseUint`/`parseInt`/`reportNumber` report EXACTLY the literal's value,
  as int64 or uint64 by range, and refuse (never wrap) everything outside [-2^63, 2^64).
  String unescaping and the structural state machine are not yet proved against the
  specification.

  JSON PARSER REFINEMENT (namespace `SF.PropsJsonP.C04`): for every grammatical JSON text (grammar
  `J` of SF/Proofs/JsonGrammar.lean: any nesting, any white space) whose tokens denote
  (`J.sem`: every string token is accepted by the RFC 8259 reference lexer, every number token
  denotes) `Parse` returns no error and delivers EXACTLY the events of the text, which build its
  value; the same for streams of documents and for EVERY chunking.  Tokens: every RFC 8259
  string token is unquoted to the reference lexer's value (escapes, `\uXXXX`, surrogate pairs,
  UTF-8; the two places where the lenient mirror differs from the reference — it accepts `\'`
  and passes ill-formed UTF-8 through — are kernel-checked examples in JsonRefineTop.lean);
  every integer literal is delivered as exactly that integer (int64 / uint64 by range,
  `numberOverflow` outside [-2^63, 2^64)); floats relative to the strconv model.
-/
import SF.Json.Parse
import SF.Json.Cst
import SF.Proofs.JsonRefineTop
import SF.Proofs.JsonConverseTop
namespace SF.Props.C04
open SF SF.Json SF.Json.Parse SF.Json.Float

/-- value of a digit string -/
def digitsVal (ds : Bytes) : Nat := ds.foldl (fun acc c => acc * 10 + (c.toNat - 48)) 0

theorem digit_val (c : UInt8) (h : Parse.isDigit c = true) :
    (c - ch '0').toNat = c.toNat - 48 ∧ c.toNat - 48 ≤ 9 ∧ 48 ≤ c.toNat := by
  have h0 : ch '0' = 48 := by decide
  have h9 : ch '9' = 57 := by decide
  simp only [Parse.isDigit, Bool.and_eq_true, decide_eq_true_eq] at h
  have h1 : 48 ≤ c.toNat := by
    have := UInt8.le_iff_toNat_le.mp h.1; rw [h0] at this; simpa using this
  have h2 : c.toNat ≤ 57 := by
    have := UInt8.le_iff_toNat_le.mp h.2; rw [h9] at this; simpa using this
  refine ⟨?_, by omega, h1⟩
  rw [h0, UInt8.toNat_sub_of_le _ _ (by rw [UInt8.le_iff_toNat_le]; simpa using h1)]
  rfl

theorem foldl_shift (ds : Bytes) (n : Nat) :
    ds.foldl (fun acc c => acc * 10 + (c.toNat - 48)) n = n * 10 ^ ds.length + digitsVal ds := by
  induction ds generalizing n with
  | nil => simp [digitsVal]
  | cons c ds ih =>
    simp only [List.foldl_cons, List.length_cons, digitsVal]
    rw [ih, ih (0 * 10 + (c.toNat - 48)), Nat.pow_succ]
    generalize 10 ^ ds.length = P
    generalize digitsVal ds = r
    generalize c.toNat - 48 = d
    rw [Nat.add_mul, Nat.zero_mul, Nat.zero_add, Nat.mul_assoc n 10 P, Nat.mul_comm 10 P]
    omega

theorem digitsVal_cons (c : UInt8) (ds : Bytes) :
    digitsVal (c :: ds) = (c.toNat - 48) * 10 ^ ds.length + digitsVal ds := by
  have := foldl_shift ds (0 * 10 + (c.toNat - 48))
  simp only [digitsVal, List.foldl_cons] at this ⊢
  rw [this]; simp

/-- the digit loop of parseUint is exact: with `n` accumulated so far (n ≤ MaxUint64) and only
digits to come, it returns the exact value if that is ≤ MaxUint64 and an overflow error
otherwise — it never wraps -/
theorem go_exact (ds : Bytes) (hd : ds.all Parse.isDigit = true) (n : Nat) (hn : n ≤ maxUint64) :
    parseUint.go (maxUint64 / 10 + 1) n ds =
      (if n * 10 ^ ds.length + digitsVal ds ≤ maxUint64 then .ok (n * 10 ^ ds.length + digitsVal ds)
       else .error .numberOverflow) := by
  induction ds generalizing n with
  | nil => simp [parseUint.go, digitsVal, hn]
  | cons c rest ih =>
    simp only [List.all_cons, Bool.and_eq_true] at hd
    obtain ⟨hv, hle, _⟩ := digit_val c hd.1
    have hP : 1 ≤ 10 ^ rest.length := Nat.one_le_pow _ _ (by omega)
    simp only [parseUint.go, hd.1, Bool.not_true, Bool.false_eq_true, if_false, List.length_cons, hv]
    rw [digitsVal_cons, Nat.pow_succ]
    generalize hPdef : 10 ^ rest.length = P at *
    generalize digitsVal rest = r at *
    generalize c.toNat - 48 = d at *
    have key : n * (P * 10) + (d * P + r) = (n * 10 + d) * P + r := by
      rw [Nat.add_mul, Nat.mul_assoc n 10 P, Nat.mul_comm 10 P]; omega
    rw [key]
    by_cases hcut : n ≥ maxUint64 / 10 + 1
    · have : ¬ ((n * 10 + d) * P + r ≤ maxUint64) := by
        have h1 : (n * 10 + d) * P ≥ (n * 10 + d) * 1 := Nat.mul_le_mul_left _ hP
        simp only [maxUint64] at hcut ⊢
        omega
      simp [hcut, this]
    · simp only [hcut, if_false]
      by_cases hov : n * 10 + d > maxUint64
      · have : ¬ ((n * 10 + d) * P + r ≤ maxUint64) := by
          have h1 : (n * 10 + d) * P ≥ (n * 10 + d) * 1 := Nat.mul_le_mul_left _ hP
          omega
        simp [hov, this]
      · simp only [hov, if_false]
        rw [ih hd.2 (n * 10 + d) (by omega)]

/-- parseUint on a non-empty digit string: the exact value, or overflow — never another number -/
theorem parseUint_exact (ds : Bytes) (hne : ds ≠ []) (hd : ds.all Parse.isDigit = true) :
    parseUint ds = (if digitsVal ds ≤ maxUint64 then .ok (digitsVal ds) else .error .numberOverflow) := by
  unfold parseUint
  have : ds.isEmpty = false := by cases ds <;> simp_all
  simp only [this, Bool.false_eq_true, if_false]
  have := go_exact ds hd 0 (by simp [maxUint64])
  simpa using this

/-- C04 `…_partial`, integer literals: for `-?digits` the parser's `reportNumber` delivers
exactly the literal's value — OnInt64 for values in [-2^63, 2^63), OnUint64 for values in
[2^63, 2^64) — and reports an error for every literal outside [-2^63, 2^64); in no case is a
different number delivered (the wrap-around defects F02 are excluded for ALL literals) -/
theorem int_literal_exact_partial (p : P) (neg : Bool) (ds : Bytes) (hne : ds ≠ []) (hd : ds.all Parse.isDigit = true) :
    reportNumber p ((if neg then [ch '-'] else []) ++ ds) false =
      (if neg then
         (if digitsVal ds ≤ 9223372036854775808 then visit p (.num .i64 (-(digitsVal ds : Int)))
          else (p, some .numberOverflow))
       else if digitsVal ds ≤ 9223372036854775807 then visit p (.num .i64 (digitsVal ds))
       else if digitsVal ds ≤ 18446744073709551615 then visit p (.num .u64 (digitsVal ds))
       else (p, some .numberOverflow)) := by
  have hminus : (ch '-' == ch '+') = false := by decide
  cases ds with
  | nil => exact absurd rfl hne
  | cons c rest =>
    have hc : Parse.isDigit c = true := by simp only [List.all_cons, Bool.and_eq_true] at hd; exact hd.1
    have hcp : (c == ch '+') = false := by
      have := (digit_val c hc).2.2
      have h43 : (ch '+').toNat = 43 := by decide
      cases hcc : c == ch '+' with
      | false => rfl
      | true => have := congrArg UInt8.toNat (beq_iff_eq.mp hcc); omega
    have hcm : (c == ch '-') = false := by
      have := (digit_val c hc).2.2
      have h45 : (ch '-').toNat = 45 := by decide
      cases hcc : c == ch '-' with
      | false => rfl
      | true => have := congrArg UInt8.toNat (beq_iff_eq.mp hcc); omega
    have hpu := parseUint_exact (c :: rest) (by simp) hd
    cases neg with
    | true =>
      simp only [if_true, List.cons_append, List.nil_append, reportNumber, Bool.false_eq_true, if_false, parseInt,
        hminus, beq_self_eq_true, hpu, maxUint64, maxInt64]
      by_cases h1 : digitsVal (c :: rest) ≤ 9223372036854775808
      · have h2 : digitsVal (c :: rest) ≤ 18446744073709551615 := by omega
        have h3 : ¬ (digitsVal (c :: rest) > 9223372036854775807 + 1) := by omega
        simp [h1, h2, h3]
      · by_cases h2 : digitsVal (c :: rest) ≤ 18446744073709551615
        · have h3 : digitsVal (c :: rest) > 9223372036854775807 + 1 := by omega
          simp [h1, h2, h3]
        · simp [h1, h2]
    | false =>
      simp only [Bool.false_eq_true, if_false, List.nil_append, reportNumber, parseInt, hcp, hcm, hpu,
        maxUint64, maxInt64, Bool.false_and]
      by_cases h2 : digitsVal (c :: rest) ≤ 18446744073709551615
      · by_cases h1 : digitsVal (c :: rest) ≤ 9223372036854775807
        · have : ¬ (digitsVal (c :: rest) > 9223372036854775807) := by omega
          simp [h1, h2, this]
        · have : digitsVal (c :: rest) > 9223372036854775807 := by omega
          simp [h1, h2, this]
      · have h1 : ¬ (digitsVal (c :: rest) ≤ 9223372036854775807) := by omega
        simp [h1, h2]

/-- non-vacuity: the literals that used to wrap -/
example : (reportNumber (Parse.init none) (strBytes "18446744073709551615") false).1.evs = [.num .u64 18446744073709551615] ∧
    (reportNumber (Parse.init none) (strBytes "-9223372036854775809") false).2 = some .numberOverflow ∧
    (reportNumber (Parse.init none) (strBytes "18446744073709551616") false).2 = some .numberOverflow := by
  decide +kernel

end SF.Props.C04

/-! ## JSON parser refinement (SF/Json/Parse.lean; proofs SF/Proofs/JsonRefine*.lean) -/

namespace SF.PropsJsonP.C04
open SF SF.Json SF.Json.Parse SF.Json.Float SF.Json.ParseP SF.Json.Grammar
open SF.Json.RefineTop

/-- C04: EVERY grammatical JSON text whose tokens denote, with any white space around it: no
error, exactly the text's events (containers with length -1, keys, scalars), whose `build` is
the text's value -/
theorem json_reads_value (v : J) (hok : v.ok = true) (hs : v.sem = true) (ws1 ws2 : Bytes) (h1 : allWs ws1 = true)
    (h2 : allWs ws2 = true) :
    (parse {} (ws1 ++ (v.wire ++ ws2))).2 = none ∧
    events (parse {} (ws1 ++ (v.wire ++ ws2))).1 = v.events ∧
    build (events (parse {} (ws1 ++ (v.wire ++ ws2))).1) = some v.value :=
  SF.Json.RefineTop.json_reads_value v hok hs ws1 ws2 h1 h2

/-- … streams of documents … -/
theorem json_reads_stream (ds : List Doc) (hd : ∀ d ∈ ds, d.good) (ws0 : Bytes) (h0 : allWs ws0 = true) :
    (parse {} (ws0 ++ streamWire ds)).2 = none ∧
    events (parse {} (ws0 ++ streamWire ds)).1 = streamEvents ds ∧
    buildAll (events (parse {} (ws0 ++ streamWire ds)).1) = some (ds.map (fun d => d.1.value)) :=
  SF.Json.RefineTop.json_reads_stream ds hd ws0 h0

/-- … and the same however the bytes are cut into `Write` calls -/
theorem json_reads_stream_chunks (ds : List Doc) (hd : ∀ d ∈ ds, d.good) (ws0 : Bytes) (h0 : allWs ws0 = true)
    (cs : List Bytes) (hcs : cs.flatten = ws0 ++ streamWire ds) :
    (writeChunks {} cs).2 = none ∧ events (writeChunks {} cs).1 = streamEvents ds :=
  SF.Json.RefineTop.json_reads_stream_chunks ds hd ws0 h0 cs hcs

/-- strings: every RFC 8259 string token is unquoted to the value the reference lexer assigns -/
theorem rfc_string_value (raw : Bytes) (h : Enc.isJsonString (0x22 :: (raw ++ [0x22])) = true) :
    ∃ s, strVal raw = some s ∧ unquote raw = .ok s :=
  SF.Json.RefineTop.rfc_string_value raw h

/-- integers: every RFC 8259 integer literal that the parser reports is reported as exactly the
integer the reference lexer reads -/
theorem integer_value_ref (tok : Bytes) (hrfc : Enc.isJsonInt tok = true) (ev : Ev) (h : numEv tok = some ev) :
    ∃ k v, ev = .num k v ∧ ∀ rest, Enc.EndOk rest → Cst.lexNumber (tok ++ rest) = .ok (.int v, false, rest) :=
  SF.Json.RefineTop.integer_value_ref tok hrfc ev h

/-- every number token that denotes is reported as its denotation -/
theorem number_value (p : P) (tok : Bytes) (ev : Ev) (h : numEv tok = some ev) :
    reportNumber p tok (isDblTok tok) = visit p ev :=
  SF.Json.RefineTop.number_value p tok ev h

end SF.PropsJsonP.C04


/-! ## the CONVERSE: what `Parse` accepts (C04, last clause; proofs SF/Proofs/JsonConv*.lean, JsonConverseTop.lean)

The bracket / comma / colon / key STRUCTURE is strict: the grammar `J` of SF/Proofs/JsonGrammar.lean,
unchanged.  The LEXICAL level of this parser is lenient, and the theorems use the weakest token-level
predicates that make them true (`Doc.goodL`: `J.okL` / `J.semL`): white space is any byte Go's
`unicode.IsSpace` accepts (0x09–0x0D, 0x20, 0x85, 0xA0); documents of a stream need no separator
unless the first is a bare number (`nulltrue` is two documents; `[nulltrue]`, `[1 2]`, `[1,]`,
`{"a" 1}` … are errors); number tokens are what strconv accepts (`+5`, `007`, `.5`, `0x1.8p1`);
string tokens additionally allow `\'` and pass ill-formed UTF-8 through.  Each leniency is a
kernel-evaluated example in SF/Proofs/JsonConverseTop.lean; the oracle's reference decoder answers
`undetermined` on exactly these (DESIGN §0.6). -/

namespace SF.PropsJsonConv.C04
open SF SF.Json SF.Json.Parse SF.Json.Float SF.Json.Grammar SF.Json.ParseP

/-- THE CONVERSE: whatever `Parse` accepts is white space, a stream of documents of the grammar
(each followed by white space) and possibly one last bare number token, and the events delivered
are exactly theirs -/
theorem accepted_is_stream (b : Bytes) (h : (parse {} b).2 = none) :
    ∃ ws0 ds fin, allSp ws0 = true ∧ (∀ d ∈ ds, Doc.goodL d = true) ∧ finOk fin = true ∧
      b = ws0 ++ (streamWire ds ++ fin) ∧
      events (parse {} b).1 = streamEventsL ds ++ finEvents fin :=
  SF.Props.JsonConverse.accepted_is_stream_fresh b h

/-- EXACTNESS: `Parse` accepts `b` if and only if `b` is such a stream -/
theorem accepted_iff (b : Bytes) :
    (parse {} b).2 = none ↔
    ∃ ws0 ds fin, allSp ws0 = true ∧ (∀ d ∈ ds, Doc.goodL d = true) ∧ finOk fin = true ∧
      b = ws0 ++ (streamWire ds ++ fin) :=
  SF.Props.JsonConverse.accepted_iff b

/-- C04, last clause: an input whose structure is not that of a stream of JSON texts is rejected
with an error -/
theorem not_stream_is_rejected (b : Bytes)
    (h : ¬ ∃ ws0 ds fin, allSp ws0 = true ∧ (∀ d ∈ ds, Doc.goodL d = true) ∧ finOk fin = true ∧
      b = ws0 ++ (streamWire ds ++ fin)) :
    ∃ e, (parse {} b).2 = some e :=
  SF.Props.JsonConverse.not_stream_is_rejected b h

/-- … for EVERY CHUNKING (`Write` per chunk, then end of input) -/
theorem accepted_chunks_is_stream (cs : List Bytes) (h : (writeChunks {} cs).2 = none) :
    ∃ ws0 ds fin, allSp ws0 = true ∧ (∀ d ∈ ds, Doc.goodL d = true) ∧ finOk fin = true ∧
      cs.flatten = ws0 ++ (streamWire ds ++ fin) ∧
      events (writeChunks {} cs).1 = streamEventsL ds ++ finEvents fin :=
  SF.Props.JsonConverse.accepted_chunks_is_stream cs h

/-- the strict notions of the refinement theorem imply the lenient ones, with the same events -/
theorem good_goodL (d : Doc) (h : d.good) : Doc.goodL d = true ∧ d.1.eventsL = d.1.events :=
  SF.Props.JsonConverse.good_goodL d h

/-- the structure inside containers is strict: `[nulltrue]`, `[1 2]`, `[1,]`, `[,1]`, `{"a":1,}`,
`{"a" 1}` are errors; truncated input is an error -/
example :
    (parse {} [0x5b, 0x6e, 0x75, 0x6c, 0x6c, 0x74, 0x72, 0x75, 0x65, 0x5d]).2 = some .unknownChar ∧
    (parse {} [0x5b, 0x31, 0x20, 0x32, 0x5d]).2 = some .unknownChar ∧
    (parse {} [0x5b, 0x31, 0x2c, 0x5d]).2 = some .unknownChar ∧
    (parse {} [0x5b, 0x2c, 0x31, 0x5d]).2 = some .unknownChar ∧
    (parse {} [0x7b, 0x22, 0x61, 0x22, 0x3a, 0x31, 0x2c, 0x7d]).2 = some .unexpectedDictClose ∧
    (parse {} [0x7b, 0x22, 0x61, 0x22, 0x20, 0x31, 0x7d]).2 = some .expectColon ∧
    (parse {} [0x5b, 0x31]).2 = some .incomplete := by decide +kernel

end SF.PropsJsonConv.C04
