/-
  C06 — the UBJSON parser reads every valid draft-12 value with its specified value.

  Decided by: the executable mirror of ubjson/parse.go (SF/Ubjson/Parse.lean), the
  independent reference decoder SF/Ubjson/Cst.lean (the draft-12 reading of DESIGN A.5) used
  as oracle on the same bytes, and the correspondence on foreign-encoder style documents
  (every length marker, counted / typed containers nested in one another, payload-free
  element types, no-ops).  PROVED (`…_partial`): the fixed-width integer layer shared by
  encoder and parser — every integer survives `write in w bytes two's complement big-endian →
  read back as intN` exactly, for all four widths and the whole range of each.

  UBJSON PARSER REFINEMENT (namespace `SF.PropsUbjP.C06`), the property IN FULL for the grammar
  `SF.Ubjson.Syn.Item` (SF/Proofs/UbjItem.lean: every scalar marker, strings and high-precision
  numbers with lengths in any integer marker, plain / counted / typed arrays and objects, nested
  typed containers, no-ops where draft 12 allows them): for every stream of well-formed items
  `Parse` accepts and delivers exactly the items' events, which build exactly the items' values
  and form a contract-conforming stream.  (Fuel side condition of the MODEL only: at most 10^6
  payload-free elements per typed array, see the known finding.)
-/
import SF.Ubjson.Enc
import SF.Ubjson.Parse
import SF.Ubjson.Cst
import SF.Proofs.UbjParseTop
import SF.Proofs.UbjBridgeTop
import SF.Proofs.UbjConverseTop
namespace SF.Props.C06
open SF SF.Ubjson

theorem twos_read_1 (v : Int) (hlo : -128 ≤ v) (hhi : v < 128) :
    Parse.toSigned 1 (beNat (Enc.twos 1 v)) = v := by
  have e1 : ((256 : Int) ^ 1) = 256 := by rfl
  have e2 : (2 : Nat) ^ (8 * 1 - 1) = 128 := by rfl
  have e3 : ((2 : Int) ^ (8 * 1)) = 256 := by rfl
  have hm : (v % 256).toNat < 256 ^ 1 := by
    have : (256 : Nat) ^ 1 = 256 := by rfl
    omega
  unfold Enc.twos Parse.toSigned
  rw [e1, beNat_beBytes 1 _ hm, e2, e3]
  split <;> omega

theorem twos_read_2 (v : Int) (hlo : -32768 ≤ v) (hhi : v < 32768) :
    Parse.toSigned 2 (beNat (Enc.twos 2 v)) = v := by
  have e1 : ((256 : Int) ^ 2) = 65536 := by rfl
  have e2 : (2 : Nat) ^ (8 * 2 - 1) = 32768 := by rfl
  have e3 : ((2 : Int) ^ (8 * 2)) = 65536 := by rfl
  have hm : (v % 65536).toNat < 256 ^ 2 := by
    have : (256 : Nat) ^ 2 = 65536 := by rfl
    omega
  unfold Enc.twos Parse.toSigned
  rw [e1, beNat_beBytes 2 _ hm, e2, e3]
  split <;> omega

theorem twos_read_4 (v : Int) (hlo : -2147483648 ≤ v) (hhi : v < 2147483648) :
    Parse.toSigned 4 (beNat (Enc.twos 4 v)) = v := by
  have e1 : ((256 : Int) ^ 4) = 4294967296 := by rfl
  have e2 : (2 : Nat) ^ (8 * 4 - 1) = 2147483648 := by rfl
  have e3 : ((2 : Int) ^ (8 * 4)) = 4294967296 := by rfl
  have hm : (v % 4294967296).toNat < 256 ^ 4 := by
    have : (256 : Nat) ^ 4 = 4294967296 := by rfl
    omega
  unfold Enc.twos Parse.toSigned
  rw [e1, beNat_beBytes 4 _ hm, e2, e3]
  split <;> omega

theorem twos_read_8 (v : Int) (hlo : -9223372036854775808 ≤ v) (hhi : v < 9223372036854775808) :
    Parse.toSigned 8 (beNat (Enc.twos 8 v)) = v := by
  have e1 : ((256 : Int) ^ 8) = 18446744073709551616 := by rfl
  have e2 : (2 : Nat) ^ (8 * 8 - 1) = 9223372036854775808 := by rfl
  have e3 : ((2 : Int) ^ (8 * 8)) = 18446744073709551616 := by rfl
  have hm : (v % 18446744073709551616).toNat < 256 ^ 8 := by
    have : (256 : Nat) ^ 8 = 18446744073709551616 := by rfl
    omega
  unfold Enc.twos Parse.toSigned
  rw [e1, beNat_beBytes 8 _ hm, e2, e3]
  split <;> omega

/-- C06 `…_partial`, the integer layer: every integer of every fixed width (markers `i`, `I`,
`l`, `L`) is read back exactly as written, over the WHOLE range of the width -/
theorem int_roundtrip_partial :
    (∀ v : Int, -128 ≤ v → v < 128 → Parse.toSigned 1 (beNat (Enc.twos 1 v)) = v) ∧
    (∀ v : Int, -32768 ≤ v → v < 32768 → Parse.toSigned 2 (beNat (Enc.twos 2 v)) = v) ∧
    (∀ v : Int, -2147483648 ≤ v → v < 2147483648 → Parse.toSigned 4 (beNat (Enc.twos 4 v)) = v) ∧
    (∀ v : Int, -9223372036854775808 ≤ v → v < 9223372036854775808 →
        Parse.toSigned 8 (beNat (Enc.twos 8 v)) = v) :=
  ⟨twos_read_1, twos_read_2, twos_read_4, twos_read_8⟩

/-- the reference decoder and the mirror agree on the draft-12 corner cases that were
defects of the unfixed code (typed array of typed arrays; payload-free element type;
counted container ending the input; no-op inside a counted array), kernel-evaluated -/
example :
    let doc : Bytes := [0x5b, 0x24, 0x5b, 0x23, 0x69, 0x02, 0x24, 0x69, 0x23, 0x69, 0x01, 0x05, 0x24, 0x69, 0x23, 0x69, 0x01, 0x06]
    (match Cst.decodeStream doc, buildAll (Parse.events (Parse.parse (Parse.init none) doc).1) with
     | .ok vs, some got => vs == got
     | _, _ => false) = true := by decide +kernel

example :
    let doc : Bytes := [0x5b, 0x23, 0x69, 0x02, 0x4e, 0x69, 0x01, 0x69, 0x02]
    (match Cst.decodeStream doc, buildAll (Parse.events (Parse.parse (Parse.init none) doc).1) with
     | .ok vs, some got => vs == got && vs == [.arr [.int 1, .int 2]]
     | _, _ => false) = true := by decide +kernel

end SF.Props.C06

/-! ## UBJSON parser (SF/Ubjson/Parse.lean; proofs SF/Proofs/Ubj{Item,Tree,NoPanic*,Num,Ref*,Prog*,ParseTop}.lean) -/

namespace SF.PropsUbjP.C06
open SF SF.Ubjson SF.Ubjson.Parse SF.Ubjson.Syn
open StateType StateStep

/-- C06: for EVERY stream of well-formed UBJSON items (with no-ops before, between and after
them) `Parse` accepts and delivers exactly the specified events … -/
theorem parse_refines_events (xs : List (Nat × Item)) (trail : Nat) (h : okElems xs = true)
    (hfree : ∀ nx ∈ xs, free nx.2 ≤ 1000000) :
    (parse {} (wireStream xs trail)).2 = none ∧ events (parse {} (wireStream xs trail)).1 = evElems xs :=
  SF.Props.UbjParse.parse_refines_events xs trail h hfree

/-- … whose VALUES are the values draft 12 assigns -/
theorem parse_refines_value (xs : List (Nat × Item)) (trail : Nat) (h : okElems xs = true)
    (hfree : ∀ nx ∈ xs, free nx.2 ≤ 1000000) :
    buildAll (events (parse {} (wireStream xs trail)).1) = some (valElems xs) :=
  SF.Props.UbjParse.parse_refines_value xs trail h hfree

/-- a single document: accepted, its events, its value -/
theorem parse_refines_one (it : Item) (h : it.ok = true) (hfree : free it ≤ 1000000) :
    (parse {} it.wire).2 = none ∧ events (parse {} it.wire).1 = it.events ∧
      build (events (parse {} it.wire).1) = some it.value :=
  SF.Props.UbjParse.parse_refines_one it h hfree

/-- the step-level statement without any fuel side condition: with the explicit iteration count
`vcost it` (linear: `vcost_linear`) the loop delivers exactly the item's events, reports done and
leaves the rest of the input -/
theorem feedUntil_refines (n : Nat) (it : Item) (h : it.ok = true) (rest : Bytes) (F : Nat)
    (hF : n + 1 + vcost it ≤ F) :
    ∃ vt, feedUntil F {} (noops n ++ (it.wire ++ rest)) =
      { p := { evs := it.events.reverse, valueType := vt }, rest := rest, done := true, err := none } :=
  SF.Props.UbjParse.feedUntil_refines n it h rest F hF

theorem vcost_linear (it : Item) : vcost it + 1 ≤ 3 * it.wire.length + 2 * free it :=
  SF.Props.UbjParse.vcost_linear it

end SF.PropsUbjP.C06


/-! ## the parser against the independently written reference decoder -/

namespace SF.PropsUbjRef.C06
open SF SF.Ubjson
open SF.Ubjson.Parse (P parse events free)
open SF.Ubjson.Wire (UItem)
open SF.Ubjson.Bridge (toSyn)

/-- the two UBJSON grammars of this development — `Wire.UItem` (written for the ENCODER theorems,
with the reference decoder `Cst.decodeStream` proved to invert it) and `Syn.Item` (written for
the PARSER theorems) — assign the same bytes and the same value to every item -/
theorem ubj_grammar_bridge (i : UItem) :
    (toSyn i).wire = i.wire ∧ (toSyn i).value = i.value ∧
      (i.ok = true → (toSyn i).ok = true ∧ free (toSyn i) = 0) :=
  SF.Props.UbjBridge.ubj_grammar_bridge i

/-- C06 against the reference decoder: on every well-formed item (any length marker that fits,
plain / counted / typed containers nested in one another, NO size bound) the parser accepts,
ends idle, and the events it delivers form one contract-conforming document that builds the
value the draft-12 reference decoder `Cst.decodeStream` (SF/Ubjson/Cst.lean, written from the
specification text alone) reads from the same bytes -/
theorem parser_agrees_with_reference (i : UItem) (h : i.ok = true) :
    ∃ vt, parse {} i.wire = ({ evs := (toSyn i).events.reverse, valueType := vt }, none) ∧
      build (toSyn i).events = some i.value ∧ WF1 (toSyn i).events = true ∧
      Cst.decodeStream i.wire = .ok [i.value] :=
  SF.Props.UbjBridge.parser_agrees_with_reference i h

example : SF.Props.UbjBridge.exU.ok = true ∧
    (parse {} SF.Props.UbjBridge.exU.wire).2 = none ∧
    (match Cst.decodeStream SF.Props.UbjBridge.exU.wire, build (events (parse {} SF.Props.UbjBridge.exU.wire).1) with
     | .ok [v], some v' => v == v'
     | _, _ => false) = true := by
  decide +kernel

end SF.PropsUbjRef.C06


/-! ## the CONVERSE: what `Parse` accepts (proofs SF/Proofs/UbjConv*.lean, UbjConverseTop.lean)

Stated against `LItem` = `Syn.Item` with ONE leniency made explicit: in plain and counted (not
typed) objects the parser skips no-op bytes `N` between a key and its value (`{i0 N Z}` is accepted;
draft 12 does not say, the reference decoder answers `undetermined`).  Everything else is strict
(kernel-evaluated examples in SF/Proofs/UbjConverseTop.lean).  The converse needs no fuel side
condition: acceptance excludes the model's `outOfFuel`. -/

namespace SF.PropsUbjConv.C06
open SF SF.Ubjson SF.Ubjson.Parse SF.Ubjson.Syn SF.Ubjson.Chunk SF.Ubjson.Conv

/-- THE CONVERSE: whatever `Parse` accepts is a stream of well-formed items (with the no-ops the
parser skips), and the events delivered are exactly the items' events -/
theorem accepted_is_stream (b : Bytes) (h : (parse {} b).2 = none) :
    ∃ (xs : List (Nat × LItem)) (trail : Nat), lokElems xs = true ∧ b = lwireStream xs trail ∧
      events (parse {} b).1 = levElems xs :=
  SF.Props.UbjConverse.accepted_is_stream b h

/-- … for EVERY CHUNKING (`Write` per chunk, then end of input — `ParseReader`) -/
theorem accepted_chunks_is_stream (cs : List Bytes) (h : (writeChunks {} cs).2 = none) :
    ∃ (xs : List (Nat × LItem)) (trail : Nat), lokElems xs = true ∧ cs.flatten = lwireStream xs trail ∧
      events (writeChunks {} cs).1 = levElems xs :=
  SF.Props.UbjConverse.accepted_chunks_is_stream cs h

/-- … in the grammar `Syn.Item` itself when no item has a no-op between a key and its value -/
theorem accepted_plain_is_stream (b : Bytes) (xs : List (Nat × LItem)) (trail : Nat)
    (hb : b = lwireStream xs trail) (hp : plainElems xs = true) (hok : lokElems xs = true) :
    okElems (eraseElems xs) = true ∧ b = wireStream (eraseElems xs) trail ∧ levElems xs = evElems (eraseElems xs) :=
  SF.Props.UbjConverse.accepted_plain_is_stream b xs trail hb hp hok

/-- the negative clause: an input that is not such a stream is rejected with an error -/
theorem not_stream_is_rejected (b : Bytes)
    (h : ¬ ∃ (xs : List (Nat × LItem)) (trail : Nat), lokElems xs = true ∧ b = lwireStream xs trail) :
    ∃ e, (parse {} b).2 = some e :=
  SF.Props.UbjConverse.not_stream_is_rejected b h

/-- EXACTNESS (fuel-free): the main loop followed by the end-of-input check accepts `b` if and
only if `b` is a stream of well-formed items of the lenient grammar -/
theorem run_accepted_iff (b : Bytes) :
    (∃ p, Runs {} b p none ∧ (finalize p).2 = none) ↔
    ∃ (xs : List (Nat × LItem)) (trail : Nat), lokElems xs = true ∧ b = lwireStream xs trail :=
  SF.Props.UbjConverse.run_accepted_iff b

/-- EXACTNESS for `Parse`, on every input on which the model's fuel does not run out -/
theorem accepted_iff (b : Bytes) (hfuel : (parse {} b).2 ≠ some .outOfFuel) :
    (parse {} b).2 = none ↔
    ∃ (xs : List (Nat × LItem)) (trail : Nat), lokElems xs = true ∧ b = lwireStream xs trail :=
  SF.Props.UbjConverse.accepted_iff b hfuel

/-- what is rejected: unknown markers (`]`, `[}`, `{]`), `N` as an element type, `$` without `#`,
negative lengths, a closing bracket after a counted container, truncated input; and the leniency -/
example :
    (parse {} [0x5d]).2 = some .unknownMarker ∧ (parse {} [0x5b, 0x7d]).2 = some .unknownMarker ∧
    (parse {} [0x5b, 0x24, 0x4e, 0x23, 0x69, 0x00]).2 = some .unknownMarker ∧
    (parse {} [0x5b, 0x24, 0x5a, 0x69, 0x03]).2 = some .missingCount ∧
    (parse {} [0x5b, 0x23, 0x69, 0xff]).2 = some .negativeLen ∧
    (parse {} [0x5b, 0x23, 0x69, 0x00, 0x5d]).2 = some .unknownMarker ∧
    (parse {} [0x5b, 0x5a]).2 = some .incomplete ∧
    (parse {} [0x7b, 0x69, 0x00, 0x4e, 0x5a, 0x7d]).2 = none ∧
    (parse {} [0x7b, 0x4e, 0x7d]).2 = some .unknownMarker := by decide +kernel

end SF.PropsUbjConv.C06
