/-
  C11 — Fold then Unfold reproduces any supported Go value, directly or via a codec.

  The composed model (SF/Ops/Fu.lean) is: Fold mirror (SF/Gotype/Fold.lean) → [encoder
  mirror → bytes → parser mirror] → Unfold mirror (SF/Gotype/Unfold.lean) on a fresh zero
  target; tied to the code by the differential op `fu` over type-directed random values × the
  four paths {direct, json, ubjson, cborl}, with an oracle that is independent of the mirrors
  (deep equality with the original modulo nil ≙ empty, omitted-when-empty, dropped fields).

  Proved here (kernel-checked, for ALL values): the scalar core of the round trip — what the
  unfolder's conversion table does with exactly the events Fold emits:
    * `int_roundtrip`: every integer kind (int8 … int64, uint8 … uint64, int, uint) and every
      value of that kind: the event Fold emits for it, unfolded into a target of the same
      kind, assigns exactly that value (no wrap, no sign change at any width boundary);
    * `int_widening`: more generally a number event of ANY kind is assigned unchanged to a
      target of ANY integer kind whenever the value fits both (C13's conversion clause);
    * `wrapTo_of_inRange`: Go's `T(v)` is the identity on T's range;
    * `float_bits_roundtrip`, `bool_roundtrip`, `string_roundtrip`: float32 / float64 keep their
      exact bits (incl. NaN payloads, ±0, ±Inf) on the direct path, booleans and strings
      (any bytes, also invalid UTF-8) are stored unchanged;
    * `nil_resets`: `null` resets a scalar target to its zero value.
  Containers, structs, pointers and the codec paths: mirror + correspondence + oracle
  (statement kept as the comment `fold_unfold_id` below).
-/
import SF.Gotype.Unfold
namespace SF.Props.C11
open SF SF.Unf

/-- Go's integer conversion `T(v)` is the identity on T's range -/
theorem wrapTo_of_inRange (k : NumKind) (v : Int) (h : k.inRange v = true) : wrapTo k v = v := by
  unfold wrapTo
  simp only [NumKind.inRange, Bool.and_eq_true] at h
  obtain ⟨h1, h2⟩ := h
  have h1 := of_decide_eq_true h1
  have h2 := of_decide_eq_true h2
  cases k <;> simp only [NumKind.lo, NumKind.hi] at h1 h2 <;>
    simp only [kindBits, NumKind.signed, Bool.true_and, Bool.false_and, Bool.false_eq_true, if_false,
      Int.reducePow, Int.reduceDiv] <;>
    first
    | omega
    | (split
       · rename_i hc; have := of_decide_eq_true hc; omega
       · rename_i hc; have := of_decide_eq_false (Bool.eq_false_iff.mpr hc); omega)

/-- a number event of ANY kind `ek` carrying `v` is assigned UNCHANGED to a target of ANY
integer kind `t`, whenever `v` fits both kinds -/
theorem int_widening (t ek : NumKind) (v : Int) (ht : t.inRange v = true) (he : ek.inRange v = true) :
    (PK.num t).conv (.num ek v) = some (.int t v) := by
  simp only [PK.conv, wrapTo_of_inRange ek v he, wrapTo_of_inRange t v ht]

/-- every integer of every width round-trips through its own event -/
theorem int_roundtrip (k : NumKind) (v : Int) (h : k.inRange v = true) :
    (PK.num k).conv (.num k v) = some (.int k v) := int_widening k k v h h

/-- into `interface{}` the event's own Go type is kept -/
theorem int_generic (ek : NumKind) (v : Int) (he : ek.inRange v = true) :
    PK.ifc.conv (.num ek v) = some (.ifc (.int (normKind ek) v)) := by
  simp only [PK.conv, wrapTo_of_inRange ek v he]

theorem float_bits_roundtrip (a : UInt32) (b : UInt64) :
    PK.f32.conv (.f32 a) = some (.f32 a) ∧ PK.f64.conv (.f64 b) = some (.f64 b) := ⟨rfl, rfl⟩

theorem bool_roundtrip (b : Bool) : PK.bool.conv (.bool b) = some (.bool b) := rfl

theorem string_roundtrip (s : Bytes) : PK.string.conv (.str s) = some (.str s) := rfl

/-- `null` resets a scalar target to its zero value -/
theorem nil_resets (k : NumKind) :
    (PK.num k).conv .nil = some (.int k 0) ∧ PK.bool.conv .nil = some (.bool false) ∧
    PK.string.conv .nil = some (.str []) ∧ PK.f64.conv .nil = some (.f64 0) := ⟨rfl, rfl, rfl, rfl⟩

/-- non-vacuity: the width boundaries -/
example : NumKind.i8.inRange (-128) = true ∧ NumKind.u64.inRange 18446744073709551615 = true ∧
    NumKind.i64.inRange (-9223372036854775808) = true ∧ NumKind.u16.inRange 65535 = true ∧
    wrapTo .i8 128 = -128 ∧ wrapTo .u8 (-1) = 255 := by decide

/- TARGET (not yet proved; decided by op `fu`):
   theorem fold_unfold_id (T : GoType) (v : GoVal) (hT : supported T) (hv : v.hasType T) :
       ∀ path ∈ [direct, json, ubjson, cborl],
         unfoldAll (zero T) (transport path (Fold.impl T v).evs) = ok w ∧ w ≈ v
   (≈ : nil ≙ empty slices/maps, omitted-when-empty fields zero, dropped fields zero). -/

end SF.Props.C11
