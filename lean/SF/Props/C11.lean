/-
  C11 — Fold then Unfold reproduces any supported Go value, directly or via a codec.

  The composed model (SF/Ops/Fu.lean) is: Fold mirror (SF/Gotype/Fold.lean) → [encoder
  mirror → bytes → parser mirror] → Unfold mirror (SF/Gotype/Unfold.lean) on a fresh zero
  target; tied to the code by the differential op `fu` over type-directed random values × the
  four paths {direct, json, ubjson, cborl}, with an oracle that is independent of the mirrors
  (deep equality with the original modulo nil ≙ empty, omitted-when-empty, dropped fields).

  Proved here (kernel-checked, for ALL values): the scalar core of the round trip — what the
  unfolder's conversion table does with exactly the events Fold emits:
    * `int_roundtrip`: every integer kind (int8 … int64, uint8 … uint64, int, uint) and every
      value of that kind: the event Fold emits for it, unfolded into a target of the same
      kind, assigns exactly that value (no wrap, no sign change at any width boundary);
    * `int_widening`: more generally a number event of ANY kind is assigned unchanged to a
      target of ANY integer kind whenever the value fits both (C13's conversion clause);
    * `wrapTo_of_inRange`: Go's `T(v)` is the identity on T's range;
    * `float_bits_roundtrip`, `bool_roundtrip`, `string_roundtrip`: float32 / float64 keep their
      exact bits (incl. NaN payloads, ±0, ±Inf) on the direct path, booleans and strings
      (any bytes, also invalid UTF-8) are stored unchanged;
    * `nil_resets`: `null` resets a scalar target to its zero value.
  Containers, structs, pointers and the codec paths: mirror + correspondence + oracle
  (statement kept as the comment `fold_unfold_id` below).
-/
import SF.Gotype.Unfold
import SF.Proofs.FuIdTop
import SF.Proofs.FuIdStructTop
import SF.Proofs.FuIdStruct2Top
import SF.Proofs.FuCborTop
import SF.Proofs.FuUbjTop
import SF.Proofs.FuJsonTop
namespace SF.Props.C11
open SF SF.Unf

/-- Go's integer conversion `T(v)` is the identity on T's range -/
theorem wrapTo_of_inRange (k : NumKind) (v : Int) (h : k.inRange v = true) : wrapTo k v = v := by
  unfold wrapTo
  simp only [NumKind.inRange, Bool.and_eq_true] at h
  obtain ⟨h1, h2⟩ := h
  have h1 := of_decide_eq_true h1
  have h2 := of_decide_eq_true h2
  cases k <;> simp only [NumKind.lo, NumKind.hi] at h1 h2 <;>
    simp only [kindBits, NumKind.signed, Bool.true_and, Bool.false_and, Bool.false_eq_true, if_false,
      Int.reducePow, Int.reduceDiv] <;>
    first
    | omega
    | (split
       · rename_i hc; have := of_decide_eq_true hc; omega
       · rename_i hc; have := of_decide_eq_false (Bool.eq_false_iff.mpr hc); omega)

/-- a number event of ANY kind `ek` carrying `v` is assigned UNCHANGED to a target of ANY
integer kind `t`, whenever `v` fits both kinds -/
theorem int_widening (t ek : NumKind) (v : Int) (ht : t.inRange v = true) (he : ek.inRange v = true) :
    (PK.num t).conv (.num ek v) = some (.int t v) := by
  simp only [PK.conv, wrapTo_of_inRange ek v he, wrapTo_of_inRange t v ht]

/-- every integer of every width round-trips through its own event -/
theorem int_roundtrip (k : NumKind) (v : Int) (h : k.inRange v = true) :
    (PK.num k).conv (.num k v) = some (.int k v) := int_widening k k v h h

/-- into `interface{}` the event's own Go type is kept -/
theorem int_generic (ek : NumKind) (v : Int) (he : ek.inRange v = true) :
    PK.ifc.conv (.num ek v) = some (.ifc (.int (normKind ek) v)) := by
  simp only [PK.conv, wrapTo_of_inRange ek v he]

theorem float_bits_roundtrip (a : UInt32) (b : UInt64) :
    PK.f32.conv (.f32 a) = some (.f32 a) ∧ PK.f64.conv (.f64 b) = some (.f64 b) := ⟨rfl, rfl⟩

theorem bool_roundtrip (b : Bool) : PK.bool.conv (.bool b) = some (.bool b) := rfl

theorem string_roundtrip (s : Bytes) : PK.string.conv (.str s) = some (.str s) := rfl

/-- `null` resets a scalar target to its zero value -/
theorem nil_resets (k : NumKind) :
    (PK.num k).conv .nil = some (.int k 0) ∧ PK.bool.conv .nil = some (.bool false) ∧
    PK.string.conv .nil = some (.str []) ∧ PK.f64.conv .nil = some (.f64 0) := ⟨rfl, rfl, rfl, rfl⟩

/-- non-vacuity: the width boundaries -/
example : NumKind.i8.inRange (-128) = true ∧ NumKind.u64.inRange 18446744073709551615 = true ∧
    NumKind.i64.inRange (-9223372036854775808) = true ∧ NumKind.u16.inRange 65535 = true ∧
    wrapTo .i8 128 = -128 ∧ wrapTo .u8 (-1) = 255 := by decide

/- TARGET (not yet proved; decided by op `fu`):
   theorem fold_unfold_id (T : GoType) (v : GoVal) (hT : supported T) (hv : v.hasType T) :
       ∀ path ∈ [direct, json, ubjson, cborl],
         unfoldAll (zero T) (transport path (Fold.impl T v).evs) = ok w ∧ w ≈ v
   (≈ : nil ≙ empty slices/maps, omitted-when-empty fields zero, dropped fields zero). -/

end SF.Props.C11


/-! ## the COMPOSED statement, direct path: Fold then Unfold reproduces the value
(proofs SF/Proofs/FuId{Fold,Tokens,Run,Agree,Iface,Ptr,Top}.lean)

Stated in the vocabulary of the op `fu` (SF/Ops/Fu.lean): the events `Fold.impl` delivers for `v : T`
are fed (`feed`, extended events through their expansion) to an Unfolder whose target is a fresh
zero value of the translated type; the run is accepted, the context is the new Unfolder's again but
for the target, the target holds the translated value, and the oracle's comparison `agreeF "direct"`
accepts it.  Families: scalars of every kind and width (bit-exact floats incl. signalling NaNs,
exact integers), `[]T`, `map[string]T` under EVERY map iteration order, `interface{}` holding any of
these (the generic value keeps the element types), `*T`.  No bound on the size of the values.
The codec legs are C01; structs: C12 (fold side) and C13 (unfold side) separately + the `fu`
correspondence over four paths. -/

namespace SF.PropsFu.C11
open SF SF.Gotype SF.Gotype.Fold SF.FoldProofs SF.FuId
open SF.Unf (Ctx newUnfolder setTarget)
open SF.Ops.Unf (xevToUEvs)
open SF.Ops.Fu (feed agreeF)

/-- C11, scalars: bool, string, int8 … int64, int, uint8 … uint64, uint, float32, float64.  Every
value of the type: exact for integers at every width, BIT-exact for floats (every NaN payload,
signalling or quiet, ±0, ±Inf), any bytes for strings -/
theorem fold_unfold_scalar (o : FoldOpts) (hfail : o.failAt = none) (p : Prim) (v : GoVal)
    (hv : hasPrim p v = true) :
    ∃ ut c0 c1,
      Unf.Tr.trType (primTy p) = some ut ∧
      setTarget Unf.Tr.fuTable ut (Unf.zero Unf.Tr.fuTable ut) newUnfolder = .ok c0 ∧
      (impl o (primTy p) v).res = .ok ∧
      feed c0 ((impl o (primTy p) v).evs.map xevToUEvs) = (c1, none) ∧
      c1.target = trPrim p v ∧
      c1 = { newUnfolder with target := trPrim p v, env := Unf.Tr.fuTable } ∧
      back c1.target = v ∧
      agreeF "direct" 1000 (primTy p) v (back c1.target) = true :=
  SF.Props.FuId.fold_unfold_scalar o hfail p v hv

/-- C11, `[]T` (`T` scalar): nil, empty, or any elements; Fold delivers ONE typed-array event, which
reaches the Unfolder through its expansion; the target holds exactly the translated elements; nil
and empty both come back as nil (identified) -/
theorem fold_unfold_slice (o : FoldOpts) (hfail : o.failAt = none) (p : Prim) (v : GoVal) (xs : List GoVal)
    (hv : sliceElems? v = some xs) (hxs : ∀ x ∈ xs, hasPrim p x = true) :
    ∃ ut c0 c1,
      Unf.Tr.trType (.slice (primTy p)) = some ut ∧
      setTarget Unf.Tr.fuTable ut (Unf.zero Unf.Tr.fuTable ut) newUnfolder = .ok c0 ∧
      (impl o (.slice (primTy p)) v).res = .ok ∧
      feed c0 ((impl o (.slice (primTy p)) v).evs.map xevToUEvs) = (c1, none) ∧
      c1.target = (if xs.isEmpty then .sliceNil (uPrimTy p) else .slice (uPrimTy p) (xs.map (trPrim p)) []) ∧
      c1 = { newUnfolder with target := c1.target, env := Unf.Tr.fuTable } ∧
      back c1.target = (if xs.isEmpty then .nilSlice else .slice xs) ∧
      agreeF "direct" 1000 (.slice (primTy p)) v (back c1.target) = true :=
  SF.Props.FuId.fold_unfold_slice o hfail p v xs hv hxs

/-- C11, `map[string]T` (`T` scalar): nil, empty, or any entries with pairwise distinct string keys
(a Go map), under EVERY iteration order the order oracle dictates: the target holds exactly the
translated entries (a permutation, in delivery order); nil and empty both come back as nil -/
theorem fold_unfold_map (o : FoldOpts) (hfail : o.failAt = none) (hord : hintOK o.order) (p : Prim) (v : GoVal)
    (ms : List (GoVal × GoVal)) (hv : mapEntries? v = some ms) (hms : ∀ m ∈ ms, hasEntry p m = true)
    (hnd : (ms.map fun m => getS m.1).Nodup) :
    ∃ ut c0 c1 fin,
      Unf.Tr.trType (.map .string (primTy p)) = some ut ∧
      setTarget Unf.Tr.fuTable ut (Unf.zero Unf.Tr.fuTable ut) newUnfolder = .ok c0 ∧
      (impl o (.map .string (primTy p)) v).res = .ok ∧
      feed c0 ((impl o (.map .string (primTy p)) v).evs.map xevToUEvs) = (c1, none) ∧
      fin.Perm (ms.map fun m => (getS m.1, trPrim p m.2)) ∧
      c1.target = (if fin.isEmpty then .mapNil (uPrimTy p) else .map (uPrimTy p) fin) ∧
      c1 = { newUnfolder with target := c1.target, env := Unf.Tr.fuTable } ∧
      agreeF "direct" 1000 (.map .string (primTy p)) v (back c1.target) = true :=
  SF.Props.FuId.fold_unfold_map o hfail hord p v ms hv hms hnd

/-- C11, `interface{}` holding a `[]T`: the empty-interface target receives the generic value, which
keeps the element type (`[]int8` inside `interface{}` comes back as `[]int8`); nil / empty ↦ nil `[]T` -/
theorem fold_unfold_iface_slice (o : FoldOpts) (hfail : o.failAt = none) (p : Prim) (v : GoVal) (xs : List GoVal)
    (hv : sliceElems? v = some xs) (hxs : ∀ x ∈ xs, hasPrim p x = true) :
    ∃ ut c0 c1,
      Unf.Tr.trType .iface = some ut ∧
      setTarget Unf.Tr.fuTable ut (Unf.zero Unf.Tr.fuTable ut) newUnfolder = .ok c0 ∧
      (impl o .iface (.iface (.slice (primTy p)) v)).res = .ok ∧
      feed c0 ((impl o .iface (.iface (.slice (primTy p)) v)).evs.map xevToUEvs) = (c1, none) ∧
      c1.target = .ifc (if xs.isEmpty then .sliceNil (uPrimTy p) else .slice (uPrimTy p) (xs.map (trPrim p)) []) ∧
      c1 = { newUnfolder with target := c1.target, env := Unf.Tr.fuTable } :=
  SF.Props.FuId.fold_unfold_iface_slice o hfail p v xs hv hxs

/-- C11, `*T` (`T` scalar): nil ↦ nil pointer; `&y` ↦ a pointer to a fresh cell holding the translated
`y`; all six stacks idle afterwards.  Exact for every kind except that `*float32` holding a SIGNALLING
NaN comes back QUIETED (`float32(v.Float())` in the reflection path — the reading "any NaN ≙ any NaN
of the same width"); the oracle's comparison is proved under the side condition `hq`, which
`ptr_side_condition` discharges for every pointee type but float32 and for float32 values that are no NaN -/
theorem fold_unfold_ptr (o : FoldOpts) (hfail : o.failAt = none) (p : Prim) (v : GoVal) (hv : hasPtr p v = true) :
    ∃ ut c0 c1,
      Unf.Tr.trType (.ptr (primTy p)) = some ut ∧
      setTarget Unf.Tr.fuTable ut (Unf.zero Unf.Tr.fuTable ut) newUnfolder = .ok c0 ∧
      (impl o (.ptr (primTy p)) v).res = .ok ∧
      feed c0 ((impl o (.ptr (primTy p)) v).evs.map xevToUEvs) = (c1, none) ∧
      c1.target = (match trPtr p v with | none => .ptrNil (uPrimTy p) | some w => .ptr (uPrimTy p) w) ∧
      c1 = { newUnfolder with target := c1.target, env := Unf.Tr.fuTable, cells := c1.cells } ∧
      c1.depths = [0, 0, 0, 0, 0, 0] ∧
      ((∀ y, v = .ptr y → trPtrElem p y = trPrim p y) →
        agreeF "direct" 1000 (.ptr (primTy p)) v (back c1.target) = true) :=
  SF.Props.FuId.fold_unfold_ptr o hfail p v hv

theorem ptr_side_condition (p : Prim) (y : GoVal) (h : p ≠ .f32 ∨ isNaN32 (getF32 y) = false) :
    trPtrElem p y = trPrim p y :=
  SF.Props.FuId.ptr_side_condition p y h

/-- non-vacuity, the pipeline evaluated by the kernel: `uint64` MaxUint64, a SIGNALLING float32 NaN
(bit-exact), `[]int16{-200, 0, 32767}`, nil `[]string`, `map[string]string{"a":"b","b":"c"}` under an
order oracle asking for "b" first -/
example :
    (match SF.Props.FuId.pipe {} (.int .u64) (.int 18446744073709551615) with
     | some (.int .u64 18446744073709551615) => true | _ => false) = true ∧
    (match SF.Props.FuId.pipe {} .float32 (.f32 0x7fa00001) with
     | some (.f32 0x7fa00001) => true | _ => false) = true ∧
    (match SF.Props.FuId.pipe {} (.slice (.int .i16)) (.slice [.int (-200), .int 0, .int 32767]) with
     | some (.slice (.int .i16) [.int .i16 (-200), .int .i16 0, .int .i16 32767] []) => true | _ => false) = true ∧
    (match SF.Props.FuId.pipe {} (.slice .string) .nilSlice with
     | some (.sliceNil .string) => true | _ => false) = true ∧
    (match SF.Props.FuId.pipe { order := [.strObj [([98], []), ([97], [])]] } (.map .string .string)
      (.map [(.str [97], .str [98]), (.str [98], .str [99])]) with
    | some (.map .string [([98], .str [99]), ([97], .str [98])]) => true
    | _ => false) = true := by decide +kernel

end SF.PropsFu.C11


/-! ## C11, composed statement for STRUCT types with fields of primitive kind (direct path)

Proof files SF/Proofs/FuIdStruct{Fold,Run,Agree,Top}.lean.  Fields are described one by one through the
DOCUMENTED tag grammar (`fieldKind`): dropped (unexported, `-`, `omit`) or a plain member (tag name or the
lower-cased field name); no `omitempty`, no `inline` (those and nested structs: correspondence + oracle `fu`).
The hypotheses about the Unfold side of the translated type (`hcomp`: it compiles to the table `fields`;
`hFM`: the table agrees with the description; `hz`, `hv0`: the zero value; `hnd`: member names distinct —
forced, `SetTarget` refuses duplicate names) are about TYPES only and are discharged for the instance
`Inner` below, except `hcomp`, which the kernel cannot evaluate (`String.trimAscii` in the mirror of
tags.go) and which is therefore evaluated by `#guard` at build time. -/
namespace SF.PropsFuStruct.C11
open SF SF.Gotype SF.Gotype.Fold SF.FoldProofs SF.FuId SF.Props.FuId
open SF.Unf (Ctx newUnfolder setTarget typeFuel)
open SF.Ops.Unf (xevToUEvs)
open SF.Ops.Fu (feed agreeF)
open SF.UnfProofs.StructVal (FM Shaped)

/-- structs (named or not) whose fields are dropped or plain members of scalar type, EVERY value: the fold
succeeds, every token is accepted, the new value is exactly the translated struct (dropped fields zero; a
float32 member holding a signalling NaN comes back quieted), the Unfolder is idle again, and the oracle's
comparison holds (under the NaN side condition, see `struct_side_condition`) -/
theorem fold_unfold_struct_prim (o : FoldOpts) (hfail : o.failAt = none) (S : GoType) (fs : List Field)
    (ds : List FD) (vs : List GoVal)
    (hg : goodT [] S = true) (hu : S.under = .struct fs) (hd : Desc fs ds) (hv : Vals ds vs)
    (ut : Unf.GoType) (nm : String) (ufs : List (String × String × Unf.GoType)) (fields : Unf.Fields) (R : Unf.Reg)
    (htr : Unf.Tr.trType S = some ut) (hS : ut.un Unf.Tr.fuTable = .struct nm ufs)
    (hcomp : Unf.lookupReflUnfolder Unf.Tr.fuTable typeFuel [] newUnfolder.reg ut = .ok (.struct fields, R))
    (hFM : FM Unf.Tr.fuTable ut fields (sfOf ds 0))
    (hnd : ((sfOf ds 0).map (·.1)).Nodup)
    (hz : Unf.zero Unf.Tr.fuTable ut = .struct (zerosOf ds))
    (hv0 : Shaped Unf.Tr.fuTable ut (Unf.zero Unf.Tr.fuTable ut)) :
    ∃ c0 c1,
      Unf.Tr.trType S = some ut ∧
      setTarget Unf.Tr.fuTable ut (Unf.zero Unf.Tr.fuTable ut) newUnfolder = .ok c0 ∧
      (impl o S (.struct vs)).res = .ok ∧
      feed c0 ((impl o S (.struct vs)).evs.map xevToUEvs) = (c1, none) ∧
      c1.target = .struct (trFields ds vs) ∧
      c1 = { newUnfolder with target := c1.target, env := Unf.Tr.fuTable, reg := R, cells := c1.cells,
                              keyCache := c1.keyCache } ∧
      c1.depths = [0, 0, 0, 0, 0, 0] ∧
      ((∀ d v, (d, v) ∈ ds.zip vs → trField d v = trFieldX d v) →
        agreeF "direct" 1000 S (.struct vs) (back c1.target) = true) :=
  SF.Props.FuId.fold_unfold_struct_prim o hfail S fs ds vs hg hu hd hv ut nm ufs fields R htr hS hcomp hFM hnd hz hv0

theorem struct_side_condition (d : FD) (v : GoVal) (h : d.prim ≠ .f32 ∨ isNaN32 (getF32 v) = false) :
    trField d v = trFieldX d v :=
  SF.Props.FuId.struct_side_condition d v h

/-- unconditional instance (but for `hcomp`): the menagerie's `Inner = struct{X int; Y string "why"}`, EVERY value -/
theorem fold_unfold_Inner (o : FoldOpts) (hfail : o.failAt = none) (vs : List GoVal) (hv : Vals dsInner vs)
    (R : Unf.Reg)
    (hcomp : Unf.lookupReflUnfolder Unf.Tr.fuTable typeFuel [] newUnfolder.reg utInner = .ok (.struct fieldsInner, R)) :
    ∃ c0 c1,
      Unf.Tr.trType tInner = some utInner ∧
      setTarget Unf.Tr.fuTable utInner (Unf.zero Unf.Tr.fuTable utInner) newUnfolder = .ok c0 ∧
      (impl o tInner (.struct vs)).res = .ok ∧
      feed c0 ((impl o tInner (.struct vs)).evs.map xevToUEvs) = (c1, none) ∧
      c1.target = .struct (trFields dsInner vs) ∧ c1.depths = [0, 0, 0, 0, 0, 0] ∧
      agreeF "direct" 1000 tInner (.struct vs) (back c1.target) = true :=
  SF.Props.FuId.fold_unfold_Inner o hfail vs hv R hcomp

/- `hcomp` of the instance, evaluated at build time (compiled evaluation, not the kernel) -/
#guard (match Unf.lookupReflUnfolder Unf.Tr.fuTable typeFuel [] newUnfolder.reg utInner with
        | .ok (.struct fs, R) => some (fs.map (fun x => (x.1, x.2.1)), R.length)
        | _ => none) == some ([([120], [0]), ([119, 104, 121], [1])], 1)

/-- non-vacuity: MinInt64 in an `int` member and a string; the translated struct -/
example : Vals dsInner [.int (-9223372036854775808), .str [104, 105]] ∧
    trFields dsInner [.int (-9223372036854775808), .str [104, 105]] =
      [.int .int (-9223372036854775808), .str [104, 105]] :=
  ⟨.cons (by decide +kernel) (.cons (by decide +kernel) .nil), rfl⟩

end SF.PropsFuStruct.C11


/-! ## C11, composed statement for structs with OMITEMPTY members, NESTED and INLINED structs (direct path),
and the Unfold-side hypotheses derived from the compiler for flat structs

Proof files SF/Proofs/FuIdStruct2*.lean.  `fold_unfold_struct_omit_total` / `fold_unfold_Om_total` carry NO
hypothesis about the Unfold side any more (`compile_struct_prim`: the translated type compiles to the expected
field table) — under `TrimAgree`: the tag contains no \v / \f, on which the Unfold mirror's `trimSpace`
(`String.trimAscii`) differs from Go's `strings.TrimSpace` (a recorded inexactness of the MIRROR, DESIGN §0.6).
Nested trees keep `hcomp` / `huok` as hypotheses about TYPES, `#guard`-checked for the instance. -/
namespace SF.PropsFuStruct2.C11
open SF SF.Gotype SF.Gotype.Fold SF.FoldProofs SF.FuId SF.Props.FuId
open SF.Unf (Ctx newUnfolder setTarget typeFuel)
open SF.Ops.Unf (xevToUEvs)
open SF.Ops.Fu (feed agreeF)
open SF.UnfProofs.StructVal (FM Shaped fieldOK_prim fieldOK_struct)
open SF.Unf.Spec (specFields)
open SF.FoldProofs.Examples

/-- STAGE 5b — structs with fields of primitive kind: dropped fields, plain members and OMITEMPTY members,
every value. -/
theorem fold_unfold_struct_omit (o : FoldOpts) (hfail : o.failAt = none) (S : GoType) (fs : List Field)
    (ds : List FD2) (vs : List GoVal)
    (hg : goodT [] S = true) (hu : S.under = .struct fs) (hd : Desc2 fs ds) (hv : Vals2 ds vs)
    (ut : Unf.GoType) (nm : String) (ufs : List (String × String × Unf.GoType)) (fields : Unf.Fields) (R : Unf.Reg)
    (htr : Unf.Tr.trType S = some ut) (hS : ut.un Unf.Tr.fuTable = .struct nm ufs)
    (hcomp : Unf.lookupReflUnfolder Unf.Tr.fuTable typeFuel [] newUnfolder.reg ut = .ok (.struct fields, R))
    (hFM : FM Unf.Tr.fuTable ut fields (sfOf2 ds 0))
    (hnd : ((sfOf2 ds 0).map (·.1)).Nodup)
    (hz : Unf.zero Unf.Tr.fuTable ut = .struct (zerosOf2 ds))
    (hv0 : Shaped Unf.Tr.fuTable ut (Unf.zero Unf.Tr.fuTable ut)) :
    ∃ c0 c1,
      Unf.Tr.trType S = some ut ∧
      setTarget Unf.Tr.fuTable ut (Unf.zero Unf.Tr.fuTable ut) newUnfolder = .ok c0 ∧
      (impl o S (.struct vs)).res = .ok ∧
      feed c0 ((impl o S (.struct vs)).evs.map xevToUEvs) = (c1, none) ∧
      c1.target = .struct (trFields2 ds vs) ∧
      c1 = { newUnfolder with target := c1.target, env := Unf.Tr.fuTable, reg := R, cells := c1.cells,
                              keyCache := c1.keyCache } ∧
      c1.depths = [0, 0, 0, 0, 0, 0] ∧
      ((∀ d v, (d, v) ∈ ds.zip vs → trField2 d v = trFieldX2 d v) →
        agreeF "direct" 1000 S (.struct vs) (back c1.target) = true) :=
  SF.Props.FuId.fold_unfold_struct_omit o hfail S fs ds vs hg hu hd hv ut nm ufs fields R htr hS hcomp hFM hnd hz hv0

/-- the events Fold delivers: the empty `omitempty` string member is MISSING from the object (this is what
distinguishes the statement from `fold_unfold_struct_prim`) -/
theorem fold_struct_omit_events (o : FoldOpts) (hfail : o.failAt = none) (S : GoType) (fs : List Field)
    (ds : List FD2) (vs : List GoVal)
    (hg : goodT [] S = true) (hu : S.under = .struct fs) (hd : Desc2 fs ds) (hv : Vals2 ds vs) :
    (impl o S (.struct vs)).evs =
      .ev (.objStart (structFoldLen fs (foldersOf2 ds 0).length) BT.any) :: memEvs2 ds vs ++ [.ev .objEnd] :=
  SF.Props.FuId.fold_struct_omit_events o hfail S fs ds vs hg hu hd hv

/-- STAGE 5c — NESTED structs: plain struct-typed members and inlined structs to any depth (≤ 498), scalar leaves
dropped / plain / omitempty, every value. -/
theorem fold_unfold_struct_nested (o : FoldOpts) (hfail : o.failAt = none) (S : GoType) (fs : List Field)
    (ds : List FT) (vs : List GoVal)
    (hg : goodT [] S = true) (hu : S.under = .struct fs) (hd : descL fs ds) (hv : valsL ds vs = true)
    (hdep : tdepth S ≤ 498)
    (ut : Unf.GoType) (nm : String) (ufs : List (String × String × Unf.GoType)) (fields : Unf.Fields) (R : Unf.Reg)
    (htr : Unf.Tr.trType S = some ut) (hS : ut.un Unf.Tr.fuTable = .struct nm ufs)
    (hcomp : Unf.lookupReflUnfolder Unf.Tr.fuTable typeFuel [] newUnfolder.reg ut = .ok (.struct fields, R))
    (hFM : FM Unf.Tr.fuTable ut fields (sfL ds 0 []))
    (hnd : ((sfL ds 0 []).map (·.1)).Nodup)
    (huok : uokL Unf.Tr.fuTable ds)
    (hz : Unf.zero Unf.Tr.fuTable ut = .struct (zerosL ds))
    (hv0 : Shaped Unf.Tr.fuTable ut (Unf.zero Unf.Tr.fuTable ut)) :
    ∃ c0 c1,
      Unf.Tr.trType S = some ut ∧
      setTarget Unf.Tr.fuTable ut (Unf.zero Unf.Tr.fuTable ut) newUnfolder = .ok c0 ∧
      (impl o S (.struct vs)).res = .ok ∧
      feed c0 ((impl o S (.struct vs)).evs.map xevToUEvs) = (c1, none) ∧
      c1.target = .struct (trL ds vs) ∧
      c1 = { newUnfolder with target := c1.target, env := Unf.Tr.fuTable, reg := R, cells := c1.cells,
                              keyCache := c1.keyCache } ∧
      c1.depths = [0, 0, 0, 0, 0, 0] ∧
      (qL ds vs → agreeF "direct" 1000 S (.struct vs) (back c1.target) = true) :=
  SF.Props.FuId.fold_unfold_struct_nested o hfail S fs ds vs hg hu hd hv hdep ut nm ufs fields R htr hS hcomp hFM hnd huok hz hv0

/-- the events Fold delivers for a nested struct, exactly: a struct-typed member is `key { … }`, an inlined struct
contributes its members only, an empty omitempty string member is missing -/
theorem fold_struct_nested_events (o : FoldOpts) (hfail : o.failAt = none) (S : GoType) (fs : List Field)
    (ds : List FT) (vs : List GoVal)
    (hg : goodT [] S = true) (hu : S.under = .struct fs) (hd : descL fs ds) (hv : valsL ds vs = true)
    (hdep : tdepth S ≤ 498) :
    (impl o S (.struct vs)).evs =
      .ev (.objStart (structFoldLen fs (foldersL ds 0).length) BT.any) :: memEvsL ds vs ++ [.ev .objEnd] :=
  SF.Props.FuId.fold_struct_nested_events o hfail S fs ds vs hg hu hd hv hdep

/-- the side condition of (f) holds for EVERY value when no member is of type float32 -/
theorem qL_noF32 (ds : List FT) (vs : List GoVal) (h : noF32L ds = true) : qL ds vs :=
  SF.Props.FuId.qL_noF32 ds vs h

theorem compile_struct_prim (fs : List Field) (ds : List FD2) (hd : Desc2 fs ds)
    (htag : ∀ f ∈ fs, TrimAgree f.tag) (hl : fs.length ≤ 250) (hnd : ((sfOf2 ds 0).map (·.1)).Nodup) :
    Unf.Tr.trType (.struct fs) = some (.struct "" (ufsOf fs ds)) ∧
    Unf.lookupReflUnfolder Unf.Tr.fuTable typeFuel [] newUnfolder.reg (.struct "" (ufsOf fs ds)) =
      .ok (.struct (tableOf ds 0), []) ∧
    FM Unf.Tr.fuTable (.struct "" (ufsOf fs ds)) (tableOf ds 0) (sfOf2 ds 0) ∧
    Unf.zero Unf.Tr.fuTable (.struct "" (ufsOf fs ds)) = .struct (zerosOf2 ds) ∧
    Shaped Unf.Tr.fuTable (.struct "" (ufsOf fs ds)) (Unf.zero Unf.Tr.fuTable (.struct "" (ufsOf fs ds))) :=
  SF.Props.FuId.compile_struct_prim fs ds hd htag hl hnd

/-- the same for a NAMED struct type `type n struct{…}`: the registry gets the entry `n` -/
theorem compile_struct_prim_named (n : String) (m : Methods) (hne : n.isEmpty = false) (fs : List Field) (ds : List FD2)
    (hd : Desc2 fs ds) (htag : ∀ f ∈ fs, TrimAgree f.tag) (hl : fs.length ≤ 250)
    (hnd : ((sfOf2 ds 0).map (·.1)).Nodup) :
    Unf.Tr.trType (.named n m (.struct fs)) = some (.struct n (ufsOf fs ds)) ∧
    Unf.lookupReflUnfolder Unf.Tr.fuTable typeFuel [] newUnfolder.reg (.struct n (ufsOf fs ds)) =
      .ok (.struct (tableOf ds 0), [(n, .struct (tableOf ds 0))]) ∧
    FM Unf.Tr.fuTable (.struct n (ufsOf fs ds)) (tableOf ds 0) (sfOf2 ds 0) ∧
    Unf.zero Unf.Tr.fuTable (.struct n (ufsOf fs ds)) = .struct (zerosOf2 ds) ∧
    Shaped Unf.Tr.fuTable (.struct n (ufsOf fs ds)) (Unf.zero Unf.Tr.fuTable (.struct n (ufsOf fs ds))) :=
  SF.Props.FuId.compile_struct_prim_named n m hne fs ds hd htag hl hnd

/-- C11, direct path, structs with dropped / plain / omitempty fields of scalar type — NO hypothesis about the
Unfold side left: every struct type `S` (named or not) of the fold universe with these fields, tags trimmed alike
by the two mirrors, at most 250 fields, distinct member names; every value. -/
theorem fold_unfold_struct_omit_total (o : FoldOpts) (hfail : o.failAt = none) (S : GoType) (fs : List Field)
    (ds : List FD2) (vs : List GoVal)
    (hS : S = .struct fs ∨ ∃ n m, S = .named n m (.struct fs) ∧ n.isEmpty = false ∧ goodT [] S = true)
    (hd : Desc2 fs ds) (hv : Vals2 ds vs)
    (htag : ∀ f ∈ fs, TrimAgree f.tag) (hl : fs.length ≤ 250) (hnd : ((sfOf2 ds 0).map (·.1)).Nodup) :
    ∃ ut c0 c1,
      Unf.Tr.trType S = some ut ∧
      setTarget Unf.Tr.fuTable ut (Unf.zero Unf.Tr.fuTable ut) newUnfolder = .ok c0 ∧
      (impl o S (.struct vs)).res = .ok ∧
      feed c0 ((impl o S (.struct vs)).evs.map xevToUEvs) = (c1, none) ∧
      c1.target = .struct (trFields2 ds vs) ∧ c1.depths = [0, 0, 0, 0, 0, 0] ∧
      ((∀ d v, (d, v) ∈ ds.zip vs → trField2 d v = trFieldX2 d v) →
        agreeF "direct" 1000 S (.struct vs) (back c1.target) = true) :=
  SF.Props.FuId.fold_unfold_struct_omit_total o hfail S fs ds vs hS hd hv htag hl hnd

theorem fold_unfold_Om_total (o : FoldOpts) (hfail : o.failAt = none) (vs : List GoVal) (hv : Vals2 dsOm vs) :
    ∃ c0 c1,
      Unf.Tr.trType tOm = some utOm ∧
      setTarget Unf.Tr.fuTable utOm (Unf.zero Unf.Tr.fuTable utOm) newUnfolder = .ok c0 ∧
      (impl o tOm (.struct vs)).res = .ok ∧
      (impl o tOm (.struct vs)).evs = .ev (.objStart (-1) BT.any) :: memEvs2 dsOm vs ++ [.ev .objEnd] ∧
      feed c0 ((impl o tOm (.struct vs)).evs.map xevToUEvs) = (c1, none) ∧
      c1.target = .struct (trFields2 dsOm vs) ∧ c1.depths = [0, 0, 0, 0, 0, 0] ∧
      agreeF "direct" 1000 tOm (.struct vs) (back c1.target) = true :=
  SF.Props.FuId.fold_unfold_Om_total o hfail vs hv

/-- the nested instance, EVERY value: only `hcomp` (the compiled table) and `SpecNest` are assumed (both
`#guard`-checked below: the kernel cannot evaluate `String.trimAscii`). -/
theorem fold_unfold_Nest (o : FoldOpts) (hfail : o.failAt = none) (vs : List GoVal) (hv : valsL dsNest vs = true)
    (R : Unf.Reg) (hspec : SpecNest)
    (hcomp : Unf.lookupReflUnfolder Unf.Tr.fuTable typeFuel [] newUnfolder.reg utNest = .ok (.struct fieldsNest, R)) :
    ∃ c0 c1,
      Unf.Tr.trType tNest = some utNest ∧
      setTarget Unf.Tr.fuTable utNest (Unf.zero Unf.Tr.fuTable utNest) newUnfolder = .ok c0 ∧
      (impl o tNest (.struct vs)).res = .ok ∧
      feed c0 ((impl o tNest (.struct vs)).evs.map xevToUEvs) = (c1, none) ∧
      c1.target = .struct (trL dsNest vs) ∧ c1.depths = [0, 0, 0, 0, 0, 0] ∧
      agreeF "direct" 1000 tNest (.struct vs) (back c1.target) = true :=
  SF.Props.FuId.fold_unfold_Nest o hfail vs hv R hspec hcomp

end SF.PropsFuStruct2.C11


/-! ## C11 through the CBOR path: Fold → CBOR encoder → bytes → CBOR parser → Unfolder (scalars, `[]T`,
`map[string]T`), every value; side condition = C01's `small` (strings / containers below 2^63 bytes / elements:
the parser refuses longer announced lengths, `huge_length_refused`).  Proof files SF/Proofs/FuCbor*.lean. -/
namespace SF.PropsFuCbor.C11
open SF SF.Gotype SF.Gotype.Fold SF.FoldProofs SF.FuId SF.FuCbor SF.Props.FuCbor
open SF.Cbor
open SF.Unf (Ctx newUnfolder setTarget)
open SF.Ops.Unf (evToUEv)
open SF.Ops.Fu (feed agreeF)

/-- STAGE 1 — scalars (`primTy p`: bool, string, int8 … int64, int, uint8 … uint64, uint, float32,
float64), every value `v` of the type. -/
theorem fold_cbor_unfold_scalar (o : FoldOpts) (hfail : o.failAt = none) (p : Prim) (v : GoVal)
    (hv : hasPrim p v = true) (hz : sizedV v = true) :
    ∃ ut c0 c1 s pr,
      Unf.Tr.trType (primTy p) = some ut ∧
      setTarget Unf.Tr.fuTable ut (Unf.zero Unf.Tr.fuTable ut) newUnfolder = .ok c0 ∧
      (impl o (primTy p) v).res = .ok ∧
      Enc.run {} (impl o (primTy p) v).evs = (s, none) ∧ s.w.out ≠ [] ∧
      Parse.writeChunks {} [s.w.out] = (pr, none) ∧ pr = Parse.idle pr.evs ∧
      SF.Ops.Cbor.parseEvents [s.w.out] = (Parse.events pr, "ok") ∧
      Parse.events pr = [scEv (cborSc (scOfTop p v))] ∧
      feed c0 ((Parse.events pr).map fun e => [evToUEv e]) = (c1, none) ∧
      c1.target = trPrim p v ∧
      c1 = { newUnfolder with target := trPrim p v, env := Unf.Tr.fuTable } ∧
      back c1.target = v ∧
      agreeF "cbor" 1000 (primTy p) v (back c1.target) = true ∧
      (∀ path, (path == "json") = false → agreeF path 1000 (primTy p) v (back c1.target) = true) :=
  SF.Props.FuCbor.fold_cbor_unfold_scalar o hfail p v hv hz

/-- STAGE 2a — `[]T`, `T` scalar: nil, empty, or any elements `xs`.  Fold's ONE typed-array event is
written as a definite-length array (`[]uint8` / `[]byte`, which Fold hands to `OnBytes`, as a byte
string); the parser reports `OnArrayStart(n, any)` (byte string: `OnArrayStart(n, byte)`), the
elements, `OnArrayFinished`; nil and empty both come back as nil (`sliceFin`). -/
theorem fold_cbor_unfold_slice (o : FoldOpts) (hfail : o.failAt = none) (p : Prim) (v : GoVal) (xs : List GoVal)
    (hv : sliceElems? v = some xs) (hxs : ∀ x ∈ xs, hasPrim p x = true)
    (hz : ∀ x ∈ xs, sizedV x = true) (hn : xs.length < 9223372036854775808) :
    ∃ ut c0 c1 s pr,
      Unf.Tr.trType (.slice (primTy p)) = some ut ∧
      setTarget Unf.Tr.fuTable ut (Unf.zero Unf.Tr.fuTable ut) newUnfolder = .ok c0 ∧
      (impl o (.slice (primTy p)) v).res = .ok ∧
      Enc.run {} (impl o (.slice (primTy p)) v).evs = (s, none) ∧ s.w.out ≠ [] ∧
      Parse.writeChunks {} [s.w.out] = (pr, none) ∧ pr = Parse.idle pr.evs ∧
      SF.Ops.Cbor.parseEvents [s.w.out] = (Parse.events pr, "ok") ∧
      Parse.events pr = .arrStart xs.length (if isByteP p then BT.byte else BT.any) ::
        (xs.map (cborElem p)).map scEv ++ [.arrEnd] ∧
      feed c0 ((Parse.events pr).map fun e => [evToUEv e]) = (c1, none) ∧
      c1.target = (if xs.isEmpty then .sliceNil (uPrimTy p) else .slice (uPrimTy p) (xs.map (trPrim p)) []) ∧
      c1 = { newUnfolder with target := c1.target, env := Unf.Tr.fuTable } ∧
      back c1.target = (if xs.isEmpty then .nilSlice else .slice xs) ∧
      agreeF "cbor" 1000 (.slice (primTy p)) v (back c1.target) = true ∧
      (∀ path, (path == "json") = false → agreeF path 1000 (.slice (primTy p)) v (back c1.target) = true) :=
  SF.Props.FuCbor.fold_cbor_unfold_slice o hfail p v xs hv hxs hz hn

/-- STAGE 2b — `map[string]T`, `T` scalar: nil, empty, or any entries `ms` with pairwise distinct
string keys, under EVERY iteration order the order oracle dictates (`hintOK`).  Fold's ONE typed-map
event reaches the encoder through map.go's expansion and is written as a definite-length map; the
parser reports `OnObjectStart(n, any)`, key / value for `mems` — a permutation of the entries, values
under the narrowest kind —, `OnObjectFinished`; the target holds exactly the translated entries
(`fin`, a permutation), nil and empty both come back as nil (`mapSt`). -/
theorem fold_cbor_unfold_map (o : FoldOpts) (hfail : o.failAt = none) (hord : hintOK o.order) (p : Prim) (v : GoVal)
    (ms : List (GoVal × GoVal)) (hv : mapEntries? v = some ms) (hms : ∀ m ∈ ms, hasEntry p m = true)
    (hnd : (ms.map fun m => getS m.1).Nodup)
    (hz : ∀ m ∈ ms, sizedV m.1 = true ∧ sizedV m.2 = true) (hn : ms.length < 9223372036854775808) :
    ∃ ut c0 c1 fin s pr mems,
      Unf.Tr.trType (.map .string (primTy p)) = some ut ∧
      setTarget Unf.Tr.fuTable ut (Unf.zero Unf.Tr.fuTable ut) newUnfolder = .ok c0 ∧
      (impl o (.map .string (primTy p)) v).res = .ok ∧
      Enc.run {} (impl o (.map .string (primTy p)) v).evs = (s, none) ∧ s.w.out ≠ [] ∧
      Parse.writeChunks {} [s.w.out] = (pr, none) ∧ pr = Parse.idle pr.evs ∧
      SF.Ops.Cbor.parseEvents [s.w.out] = (Parse.events pr, "ok") ∧
      mems.Perm (ms.map fun m => (getS m.1, cborSc (scOfElem false p m.2))) ∧
      Parse.events pr = .objStart ms.length BT.any :: memEvs mems ++ [.objEnd] ∧
      feed c0 ((Parse.events pr).map fun e => [evToUEv e]) = (c1, none) ∧
      fin.Perm (ms.map fun m => (getS m.1, trPrim p m.2)) ∧
      c1.target = (if fin.isEmpty then .mapNil (uPrimTy p) else .map (uPrimTy p) fin) ∧
      c1 = { newUnfolder with target := c1.target, env := Unf.Tr.fuTable } ∧
      agreeF "cbor" 1000 (.map .string (primTy p)) v (back c1.target) = true ∧
      (∀ path, (path == "json") = false → agreeF path 1000 (.map .string (primTy p)) v (back c1.target) = true) :=
  SF.Props.FuCbor.fold_cbor_unfold_map o hfail hord p v ms hv hms hnd hz hn

/-- why the size hypotheses cannot be dropped: the head of a text string announcing 2^63 bytes
(what the encoder writes for such a string: `0x7b` + the 8-byte length) is refused by the parser
with `lenRange`, whatever follows -/
theorem huge_length_refused :
    Enc.head majorText 9223372036854775808 = [0x7b, 0x80, 0, 0, 0, 0, 0, 0, 0] ∧
    (Parse.write {} [0x7b, 0x80, 0, 0, 0, 0, 0, 0, 0]).2 = some .lenRange :=
  SF.Props.FuCbor.huge_length_refused 

/-- non-vacuity: MaxUint64, MinInt64 and a signalling-NaN float32 through the whole pipe (kernel-evaluated) -/
example :
    (match SF.Props.FuCbor.pipe {} (.int .u64) (.int 18446744073709551615) with | some (.int .u64 18446744073709551615) => true | _ => false) = true ∧
    (match SF.Props.FuCbor.pipe {} (.int .i64) (.int (-9223372036854775808)) with | some (.int .i64 (-9223372036854775808)) => true | _ => false) = true := by
  decide +kernel

end SF.PropsFuCbor.C11


/-! ## C11 through the UBJSON path: Fold → UBJSON encoder → bytes → UBJSON parser → Unfolder (scalars, `[]T`), every
value the format can carry: a uint64 / uint above MaxInt64 is written as a high-precision number and comes back as a
STRING, which a numeric target refuses — the recorded known finding KF-ubj-uint64-above-maxint64, here as the explicit
side condition `fitsV` and the kernel-evaluated counterexamples `uint64_above_maxint64_refused`,
`slice_one_big_element_refused`.  The chunked / reader clauses carry the fuel proviso of C02's `ubj_chunk_independent`.
Proof files SF/Proofs/FuUbj{Codec,Run,Slice,Top}.lean. -/
namespace SF.PropsFuUbj.C11
open SF SF.Gotype SF.Gotype.Fold SF.FoldProofs SF.FuId SF.FuCbor SF.FuUbj SF.Props.FuUbj
open SF.Ubjson
open SF.Unf (Ctx newUnfolder setTarget)
open SF.Ops.Unf (evToUEv)
open SF.Ops.Fu (feed agreeF)

/-- STAGE 1 — scalars (`primTy p`: bool, string, int8 … int64, int, uint8 … uint64, uint, float32,
float64), every value `v` of the type that UBJSON can carry (`fitsV`). -/
theorem fold_ubj_unfold_scalar (o : FoldOpts) (hfail : o.failAt = none) (p : Prim) (v : GoVal)
    (hv : hasPrim p v = true) (hz : sizedV v = true) (hf : fitsV v = true) :
    ∃ ut c0 c1 s pr,
      Unf.Tr.trType (primTy p) = some ut ∧
      setTarget Unf.Tr.fuTable ut (Unf.zero Unf.Tr.fuTable ut) newUnfolder = .ok c0 ∧
      (impl o (primTy p) v).res = .ok ∧
      Enc.run {} (impl o (primTy p) v).evs = (s, none) ∧ s.w.out ≠ [] ∧
      Parse.parse {} s.w.out = (pr, none) ∧ Idle pr ∧
      (∀ cs : List Bytes, cs.flatten = s.w.out → (Parse.writeChunks {} cs).2 ≠ some .outOfFuel →
        Parse.writeChunks {} cs = (pr, none)) ∧
      (s.w.out.length ≤ 32768 → SF.Ops.Ubjson.parseEvents [s.w.out] = (Parse.events pr, "ok")) ∧
      ((Parse.parseReader (Parse.init none) [s.w.out]).2 ≠ some .outOfFuel →
        SF.Ops.Ubjson.parseEvents [s.w.out] = (Parse.events pr, "ok")) ∧
      Parse.events pr = [scEv (ubjSc (scOfTop p v))] ∧
      feed c0 ((Parse.events pr).map fun e => [evToUEv e]) = (c1, none) ∧
      c1.target = trPrim p v ∧
      c1 = { newUnfolder with target := trPrim p v, env := Unf.Tr.fuTable } ∧
      back c1.target = v ∧
      agreeF "ubjson" 1000 (primTy p) v (back c1.target) = true ∧
      (∀ path, (path == "json") = false → agreeF path 1000 (primTy p) v (back c1.target) = true) :=
  SF.Props.FuUbj.fold_ubj_unfold_scalar o hfail p v hv hz hf

/-- STAGE 2 — `[]T`, `T` scalar: nil, empty, or any elements `xs`, each of which UBJSON can carry.
Fold's ONE typed-array event is written as `[]` (empty), a counted array (`[]bool`) or a typed
container `[$t#n payloads`; the parser reports `OnArrayStart`, the elements under ONE kind,
`OnArrayFinished`; nil and empty both come back as nil (`sliceFin`). -/
theorem fold_ubj_unfold_slice (o : FoldOpts) (hfail : o.failAt = none) (p : Prim) (v : GoVal) (xs : List GoVal)
    (hv : sliceElems? v = some xs) (hxs : ∀ x ∈ xs, hasPrim p x = true)
    (hz : ∀ x ∈ xs, sizedV x = true) (hf : ∀ x ∈ xs, fitsV x = true) (hn : xs.length < 9223372036854775808) :
    ∃ ut c0 c1 s pr,
      Unf.Tr.trType (.slice (primTy p)) = some ut ∧
      setTarget Unf.Tr.fuTable ut (Unf.zero Unf.Tr.fuTable ut) newUnfolder = .ok c0 ∧
      (impl o (.slice (primTy p)) v).res = .ok ∧
      Enc.run {} (impl o (.slice (primTy p)) v).evs = (s, none) ∧ s.w.out ≠ [] ∧
      Parse.parse {} s.w.out = (pr, none) ∧ Idle pr ∧
      (∀ cs : List Bytes, cs.flatten = s.w.out → (Parse.writeChunks {} cs).2 ≠ some .outOfFuel →
        Parse.writeChunks {} cs = (pr, none)) ∧
      (s.w.out.length ≤ 32768 → SF.Ops.Ubjson.parseEvents [s.w.out] = (Parse.events pr, "ok")) ∧
      ((Parse.parseReader (Parse.init none) [s.w.out]).2 ≠ some .outOfFuel →
        SF.Ops.Ubjson.parseEvents [s.w.out] = (Parse.events pr, "ok")) ∧
      Parse.events pr = (if xs.isEmpty then [.arrStart (-1) BT.any, .arrEnd]
        else .arrStart xs.length (ubjBT p xs) :: (xs.map (ubjElem p xs)).map scEv ++ [.arrEnd]) ∧
      feed c0 ((Parse.events pr).map fun e => [evToUEv e]) = (c1, none) ∧
      c1.target = (if xs.isEmpty then .sliceNil (uPrimTy p) else .slice (uPrimTy p) (xs.map (trPrim p)) []) ∧
      c1 = { newUnfolder with target := c1.target, env := Unf.Tr.fuTable } ∧
      back c1.target = (if xs.isEmpty then .nilSlice else .slice xs) ∧
      agreeF "ubjson" 1000 (.slice (primTy p)) v (back c1.target) = true ∧
      (∀ path, (path == "json") = false → agreeF path 1000 (.slice (primTy p)) v (back c1.target) = true) :=
  SF.Props.FuUbj.fold_ubj_unfold_slice o hfail p v xs hv hxs hz hf hn

/-- WHY `fitsV` CANNOT BE DROPPED (scalars): `uint64(2^63)` is a value of its type (`hasPrim`), not
above any size bound (`sizedV`); the encoder accepts it and writes `H` + its 19 decimal digits, the
parser accepts the bytes and delivers ONE STRING event, which the `uint64` target refuses: the
pipeline yields no value (the model prints `-|err:parse`) -/
theorem uint64_above_maxint64_refused :
    hasPrim (.num .u64) (.int 9223372036854775808) = true ∧ sizedV (.int 9223372036854775808) = true ∧
    fitsV (.int 9223372036854775808) = false ∧
    (Enc.run {} (impl {} (.int .u64) (.int 9223372036854775808)).evs).1.w.out =
      [0x48, 0x69, 19, 57, 50, 50, 51, 51, 55, 50, 48, 51, 54, 56, 53, 52, 55, 55, 53, 56, 48, 56] ∧
    wireEvents {} (.int .u64) (.int 9223372036854775808) =
      [.str [57, 50, 50, 51, 51, 55, 50, 48, 51, 54, 56, 53, 52, 55, 55, 53, 56, 48, 56]] ∧
    (pipe {} (.int .u64) (.int 9223372036854775808)).isSome = false :=
  SF.Props.FuUbj.uint64_above_maxint64_refused 

/-- … (slices): ONE element above MaxInt64 makes the encoder choose the element type `H` for the
whole container: every element — also `5` — arrives as a string, and the `[]uint64` target refuses -/
theorem slice_one_big_element_refused :
    (∀ x ∈ [GoVal.int 5, .int 9223372036854775808], hasPrim (.num .u64) x = true) ∧
    wireEvents {} (.slice (.int .u64)) (.slice [.int 5, .int 9223372036854775808]) =
      [.arrStart 2 BT.string, .str [53],
       .str [57, 50, 50, 51, 51, 55, 50, 48, 51, 54, 56, 53, 52, 55, 55, 53, 56, 48, 56], .arrEnd] ∧
    (pipe {} (.slice (.int .u64)) (.slice [.int 5, .int 9223372036854775808])).isSome = false :=
  SF.Props.FuUbj.slice_one_big_element_refused 

/-- non-vacuity: MinInt64 and `uint16(60000)` (which travels as an int32) through the whole pipe, kernel-evaluated -/
example :
    (match SF.Props.FuUbj.pipe {} (.int .i64) (.int (-9223372036854775808)) with | some (.int .i64 (-9223372036854775808)) => true | _ => false) = true ∧
    (match SF.Props.FuUbj.pipe {} (.int .u16) (.int 60000) with | some (.int .u16 60000) => true | _ => false) = true := by
  decide +kernel

end SF.PropsFuUbj.C11


/-! ## C11 through the JSON path: Fold → JSON encoder → bytes → JSON parser → Unfolder, float-free scalars (every
integer kind over its whole range incl. MaxUint64 and MinInt64, bool, string: arbitrary bytes modulo the encoder's
UTF-8 sanitising, valid UTF-8 exactly), for every json.Visitor option setting with a fresh writer.  No side condition.
Proof files SF/Proofs/FuJson{Codec,Run,Top}.lean. -/
namespace SF.PropsFuJson.C11
open SF SF.Gotype SF.Gotype.Fold SF.FoldProofs SF.FuId SF.FuJson SF.Props.FuJson
open SF.Json
open SF.Json.Enc (intLit strToken sanitize validUtf8)
open SF.Unf (Ctx newUnfolder setTarget)
open SF.Ops.Unf (evToUEv)
open SF.Ops.Fu (feed agreeF)

/-- STAGE 1 — every integer kind `k` (int8 … int64, int, uint8 … uint64, uint, byte), every value of it
(`hasPrim (.num k) v`: `v = .int x` with `x` in the range of `k`). -/
theorem fold_json_unfold_int (o : FoldOpts) (hfail : o.failAt = none) (e : Enc.Enc) (hw : e.w = {})
    (ha : e.inArray.current = false) (k : NumKind) (v : GoVal) (hv : hasPrim (.num k) v = true) :
    ∃ ut c0 c1 s pr,
      Unf.Tr.trType (.int k) = some ut ∧
      setTarget Unf.Tr.fuTable ut (Unf.zero Unf.Tr.fuTable ut) newUnfolder = .ok c0 ∧
      (impl o (.int k) v).res = .ok ∧
      Enc.run e (impl o (.int k) v).evs = (s, none, .ok) ∧ s.w.out = intLit (getI v) ∧ s.w.out ≠ [] ∧
      Parse.writeChunks {} [s.w.out] = (pr, none) ∧ IdleJ pr ∧
      SF.Ops.Json.parseEvents [s.w.out] = (Parse.events pr, "ok") ∧
      Parse.events pr = [.num (jk (getI v)) (getI v)] ∧
      feed c0 ((Parse.events pr).map fun e => [evToUEv e]) = (c1, none) ∧
      c1.target = trPrim (.num k) v ∧
      c1 = { newUnfolder with target := trPrim (.num k) v, env := Unf.Tr.fuTable } ∧
      back c1.target = v ∧
      agreeF "json" 1000 (.int k) v (back c1.target) = true :=
  SF.Props.FuJson.fold_json_unfold_int o hfail e hw ha k v hv

/-- STAGE 2a — bool -/
theorem fold_json_unfold_bool (o : FoldOpts) (hfail : o.failAt = none) (e : Enc.Enc) (hw : e.w = {})
    (ha : e.inArray.current = false) (v : GoVal) (hv : hasPrim .bool v = true) :
    ∃ ut c0 c1 s pr,
      Unf.Tr.trType .bool = some ut ∧
      setTarget Unf.Tr.fuTable ut (Unf.zero Unf.Tr.fuTable ut) newUnfolder = .ok c0 ∧
      (impl o .bool v).res = .ok ∧
      Enc.run e (impl o .bool v).evs = (s, none, .ok) ∧
      s.w.out = (if getB v then [0x74, 0x72, 0x75, 0x65] else [0x66, 0x61, 0x6c, 0x73, 0x65]) ∧ s.w.out ≠ [] ∧
      Parse.writeChunks {} [s.w.out] = (pr, none) ∧ IdleJ pr ∧
      SF.Ops.Json.parseEvents [s.w.out] = (Parse.events pr, "ok") ∧
      Parse.events pr = [.bool (getB v)] ∧
      feed c0 ((Parse.events pr).map fun e => [evToUEv e]) = (c1, none) ∧
      c1.target = trPrim .bool v ∧
      c1 = { newUnfolder with target := trPrim .bool v, env := Unf.Tr.fuTable } ∧
      back c1.target = v ∧
      agreeF "json" 1000 .bool v (back c1.target) = true :=
  SF.Props.FuJson.fold_json_unfold_bool o hfail e hw ha v hv

/-- STAGE 2b — string, ARBITRARY bytes: the target holds `sanitize s` (each byte outside a well-formed
UTF-8 sequence ↦ U+FFFD, the encoder's documented replacement); for VALID UTF-8 that is `s` itself, the
value comes back exactly.  `agreeF "json"` (which compares modulo the oracle's `fixUtf8`) holds for
every string. -/
theorem fold_json_unfold_string (o : FoldOpts) (hfail : o.failAt = none) (e : Enc.Enc) (hw : e.w = {})
    (ha : e.inArray.current = false) (v : GoVal) (hv : hasPrim .string v = true) :
    ∃ ut c0 c1 s pr,
      Unf.Tr.trType .string = some ut ∧
      setTarget Unf.Tr.fuTable ut (Unf.zero Unf.Tr.fuTable ut) newUnfolder = .ok c0 ∧
      (impl o .string v).res = .ok ∧
      Enc.run e (impl o .string v).evs = (s, none, .ok) ∧
      s.w.out = strToken e.escapeHTML (getS v) ∧ s.w.out ≠ [] ∧
      Parse.writeChunks {} [s.w.out] = (pr, none) ∧ IdleJ pr ∧
      SF.Ops.Json.parseEvents [s.w.out] = (Parse.events pr, "ok") ∧
      Parse.events pr = [.str (sanitize (getS v))] ∧
      feed c0 ((Parse.events pr).map fun e => [evToUEv e]) = (c1, none) ∧
      c1.target = .str (sanitize (getS v)) ∧
      c1 = { newUnfolder with target := .str (sanitize (getS v)), env := Unf.Tr.fuTable } ∧
      back c1.target = .str (sanitize (getS v)) ∧
      SF.Ops.Fu.fixU (getS v) = sanitize (getS v) ∧
      (validUtf8 (getS v) = true → c1.target = trPrim .string v ∧ back c1.target = v) ∧
      agreeF "json" 1000 .string v (back c1.target) = true :=
  SF.Props.FuJson.fold_json_unfold_string o hfail e hw ha v hv

/-- the visitor `Fu.model` uses satisfies the fresh-encoder hypotheses -/
example : SF.Ops.Json.visitorOf "" = fuEnc ∧ fuEnc.w = {} ∧ fuEnc.inArray.current = false :=
  ⟨fuEnc_eq, fuEnc_fresh.1, fuEnc_fresh.2⟩

end SF.PropsFuJson.C11
