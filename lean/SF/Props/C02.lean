/-
  C02 — parser output is independent of how the input bytes are chunked.

  TARGET STATEMENT (per format X):
      ∀ (chunks : List Bytes),  X.writeChunks p₀ chunks  ≃  X.parse p₀ chunks.flatten
  (same cumulative event sequence, same accept/reject class), for valid and invalid input.

  PROVED for the CBOR parser mirror, in full (`cbor_chunk_independent`, …): for EVERY byte
  string — valid, invalid, truncated — and EVERY way of cutting it into chunks (empty chunks
  and single bytes included), with ANY visitor fault index, `Write` per chunk + end of input
  delivers the identical event sequence and returns the identical verdict (the same error
  value) as the whole-buffer `Parse`; any two chunkings of the same bytes agree; and the same
  from every state reachable by successful writes (mid-document, token parked in the buffer).
  Proof: SF/Proofs/CborChunk{Inv,Step,Run,Split,NoFuel,Top}.lean — a stack/buffer invariant,
  a fuel-free big-step relation, and a SPLIT LAW for every step function (a step on `a ++ b`
  is the step on `a` with `b` left over, or `a` is parked and the next step on `b` completes
  it), lifted through `feedUntil`, `feed`, `Write`.  Its core for the token buffer, the
  resumption law of `collect` (shared verbatim by the UBJSON parser), is below.
  UBJSON and JSON: executable mirror, correspondence with depth/buffer hooks after every
  chunk, oracle over all cut sets of short documents and every two-way cut of longer ones.

  JSON PARSER (namespace `SF.PropsJson.C02`): the same theorem in full — for every byte string,
  every chunking and every visitor fault index `Write` per chunk + end of input gives the verdict
  and the events of whole-buffer `Parse`; any two chunkings agree.
-/
import SF.Cbor.Parse
import SF.Proofs.CborCollect
import SF.Proofs.CborChunkTop
import SF.Proofs.JsonParseTop
import SF.Proofs.UbjChunkTop
namespace SF.Props.C02
open SF SF.Cbor SF.Cbor.Parse

/-- what `collect` computes, as a two-line specification: with `buf` already parked (fewer
than `n` bytes), the token is the first `n` bytes of `buf ++ input` if there are that many,
else everything is parked -/
abbrev collectSpec := SF.Cbor.Collect.collectSpec

/-- the mirrored `collect` (fast zero-copy path, buffered path, leftover handling) meets its
specification whenever the buffer invariant holds (fewer than `n` bytes parked) -/
theorem collect_eq_spec (buf b : Bytes) (n : Nat) (hn : 0 < n) (hb : buf.length < n) :
    collect buf b n = collectSpec buf b n :=
  SF.Cbor.Collect.collect_eq_spec buf b n hn hb

/-- C02 core: RESUMPTION.  Cutting the input of a collecting state at ANY point changes
nothing: feeding `a` and then `b` (with whatever `a` left parked) delivers the same token,
leaves the same remaining input and the same buffer as feeding `a ++ b` at once. -/
theorem collect_resume_partial (buf a b : Bytes) (n : Nat) (hn : 0 < n) (hb : buf.length < n) :
    collect buf (a ++ b) n =
      match collect buf a n with
      | (buf1, rest1, some t) => (buf1, rest1 ++ b, some t)
      | (buf1, _, none) => collect buf1 b n :=
  SF.Cbor.Collect.collect_resume_partial buf a b n hn hb

/-- corollary: byte-at-a-time delivery of a token equals whole delivery -/
theorem collect_bytewise_partial (buf : Bytes) (x : UInt8) (c : Bytes) (n : Nat) (hn : 0 < n)
    (hb : buf.length < n) :
    collect buf (x :: c) n =
      match collect buf [x] n with
      | (buf1, rest1, some t) => (buf1, rest1 ++ c, some t)
      | (buf1, _, none) => collect buf1 c n :=
  SF.Cbor.Collect.collect_bytewise_partial buf x c n hn hb

/-- non-vacuity: a 4-byte token cut after its first byte, with one byte already parked -/
example : collect [1] ([2] ++ [3, 4, 5]) 4 = ([], [5], some [1, 2, 3, 4]) ∧
    collect [1] [2] 4 = ([1, 2], [], none) ∧ collect [1, 2] [3, 4, 5] 4 = ([], [5], some [1, 2, 3, 4]) := by
  decide

/-! ### the full statement for the CBOR parser -/

/-- C02 for cborl: for EVERY byte string and EVERY chunking, `Write` per chunk followed by the
end-of-input check (= `ParseReader`, `Write*` + end) reports the same events and the same
verdict — the same error value — as the whole-buffer `Parse` of the concatenation -/
theorem cbor_chunk_independent (cs : List Bytes) :
    (writeChunks {} cs).1.evs = (parse {} cs.flatten).1.evs ∧
    (writeChunks {} cs).2 = (parse {} cs.flatten).2 :=
  SF.Cbor.Chunk.cbor_chunk_independent cs

/-- … also under a visitor that fails at its k-th event, for every k -/
theorem cbor_chunk_independent_failAt (k : Option Nat) (cs : List Bytes) :
    (writeChunks { failAt := k } cs).1.evs = (parse { failAt := k } cs.flatten).1.evs ∧
    (writeChunks { failAt := k } cs).2 = (parse { failAt := k } cs.flatten).2 :=
  SF.Cbor.Chunk.cbor_chunk_independent_failAt k cs

/-- … hence any two chunkings of the same bytes are indistinguishable -/
theorem cbor_chunkings_agree (k : Option Nat) (cs₁ cs₂ : List Bytes) (h : cs₁.flatten = cs₂.flatten) :
    (writeChunks { failAt := k } cs₁).1.evs = (writeChunks { failAt := k } cs₂).1.evs ∧
    (writeChunks { failAt := k } cs₁).2 = (writeChunks { failAt := k } cs₂).2 :=
  SF.Cbor.Chunk.cbor_chunkings_agree k cs₁ cs₂ h

/-- … and from every state reachable by successful `Write`s (mid-document, token parked):
same events, same verdict, and on success the same final parser state -/
theorem cbor_chunk_independent_reach (p : P) (h : SF.Cbor.Chunk.Reach p) (cs : List Bytes) :
    (writeChunks p cs).1.evs = (parse p cs.flatten).1.evs ∧
    (writeChunks p cs).2 = (parse p cs.flatten).2 ∧
    ((writeChunks p cs).2 = none → (writeChunks p cs).1 = (parse p cs.flatten).1) :=
  SF.Cbor.Chunk.cbor_chunk_independent_reach p h cs

/-- non-vacuity: `[1, "ab"]` cut inside the array head's successor, inside the text string,
with an empty chunk; and a truncated document: same error either way -/
example : (writeChunks {} [[0x82], [0x01, 0x62], [], [0x61], [0x62]]).1.evs = (parse {} [0x82, 0x01, 0x62, 0x61, 0x62]).1.evs ∧
    (writeChunks {} [[0x82], [0x01, 0x62], [], [0x61], [0x62]]).2 = none ∧
    (writeChunks {} [[0x82, 0x01], [0x62, 0x61]]).2 = some .incomplete ∧ (parse {} [0x82, 0x01, 0x62, 0x61]).2 = some .incomplete := by
  decide +kernel

end SF.Props.C02

/-! ## JSON parser (SF/Json/Parse.lean; proofs SF/Proofs/Json{Basic,Step,Loop,Shape,Run,Eqv,Peel*,Chunk,Grammar,Trunc,ParseTop}.lean) -/

namespace SF.PropsJson.C02
open SF SF.Json SF.Json.Parse SF.Json.Float SF.Json.ParseP SF.Json.Grammar

/-- C02 for JSON: `Write` per chunk + end of input (`ParseReader`), for ANY byte string and ANY
chunking, gives the verdict and the events of `Parse` of the concatenation; also with a visitor
failing from its k-th event -/
theorem json_writeChunks_eq_parse (failAt : Option Nat) (cs : List Bytes) :
    (writeChunks (init failAt) cs).2 = (parse (init failAt) cs.flatten).2 ∧
    events (writeChunks (init failAt) cs).1 = events (parse (init failAt) cs.flatten).1 :=
  SF.Json.ParseTop.json_writeChunks_eq_parse failAt cs

/-- … any two chunkings of the same bytes: same verdict, same events -/
theorem json_chunk_independent (failAt : Option Nat) (cs1 cs2 : List Bytes) (h : cs1.flatten = cs2.flatten) :
    (writeChunks (init failAt) cs1).2 = (writeChunks (init failAt) cs2).2 ∧
    events (writeChunks (init failAt) cs1).1 = events (writeChunks (init failAt) cs2).1 :=
  SF.Json.ParseTop.json_chunk_independent failAt cs1 cs2 h

end SF.PropsJson.C02


/-! ## UBJSON parser (proofs SF/Proofs/UbjChunk{Collect,SplitA,SplitB,SplitC,Run,Top}.lean)

The mirror's `feedUntil` carries a FUEL per call (`8·|chunk| + 2000000` iterations; the Go loop has
none), so different chunkings get different budgets: with a typed array of a million payload-free
elements one run can exhaust it and the other not (both directions evaluated in
SF/Proofs/UbjChunkTop.lean).  The theorems therefore carry the side condition "neither run
exhausted the model's fuel", which `ubj_chunk_independent_small` replaces by a decidable bound on
the outcome (fewer than 10^6 events + bytes).  Everything else is unconditional: every byte
string, every chunking, every visitor fault index, every reachable state. -/

namespace SF.PropsUbjP.C02
open SF SF.Ubjson SF.Ubjson.Parse SF.Ubjson.Chunk

/-- C02 for the UBJSON parser: for EVERY byte string and EVERY chunking (empty chunks allowed),
with ANY visitor fault index `k`: `Write` per chunk + end of input (`ParseReader`) = `Parse` of
the concatenation — same events, same verdict (the same error value), and when no error is
reported the same final parser state; unless the model's fuel runs out -/
theorem ubj_chunk_independent (k : Option Nat) (cs : List Bytes)
    (h1 : (writeChunks (init k) cs).2 ≠ some .outOfFuel) (h2 : (parse (init k) cs.flatten).2 ≠ some .outOfFuel) :
    (writeChunks (init k) cs).1.evs = (parse (init k) cs.flatten).1.evs ∧
    (writeChunks (init k) cs).2 = (parse (init k) cs.flatten).2 ∧
    ((writeChunks (init k) cs).2 = none → (writeChunks (init k) cs).1 = (parse (init k) cs.flatten).1) :=
  SF.Props.UbjChunk.ubj_chunk_independent k cs h1 h2

/-- … with a DECIDABLE side condition on the two outcomes instead: each run delivered fewer than
`1000000 - |input|` events -/
theorem ubj_chunk_independent_small (k : Option Nat) (cs : List Bytes)
    (h1 : (writeChunks (init k) cs).1.evs.length + cs.flatten.length < 1000000)
    (h2 : (parse (init k) cs.flatten).1.evs.length + cs.flatten.length < 1000000) :
    (writeChunks (init k) cs).1.evs = (parse (init k) cs.flatten).1.evs ∧
    (writeChunks (init k) cs).2 = (parse (init k) cs.flatten).2 :=
  SF.Props.UbjChunk.ubj_chunk_independent_small k cs h1 h2

/-- … hence any two chunkings of the same bytes are indistinguishable -/
theorem ubj_chunkings_agree (k : Option Nat) (cs₁ cs₂ : List Bytes) (h : cs₁.flatten = cs₂.flatten)
    (h1 : (writeChunks (init k) cs₁).2 ≠ some .outOfFuel) (h2 : (writeChunks (init k) cs₂).2 ≠ some .outOfFuel)
    (h3 : (parse (init k) cs₁.flatten).2 ≠ some .outOfFuel) :
    (writeChunks (init k) cs₁).1.evs = (writeChunks (init k) cs₂).1.evs ∧
    (writeChunks (init k) cs₁).2 = (writeChunks (init k) cs₂).2 :=
  SF.Props.UbjChunk.ubj_chunkings_agree k cs₁ cs₂ h h1 h2 h3

/-- C02 from EVERY REACHABLE STATE (`Reach`: a fresh parser after any successful `Write` calls —
mid-document, inside any nesting, a partially received token parked in the buffer or a length
marker pending): the rest of the stream may be chunked in any way -/
theorem ubj_chunk_independent_reach (p : P) (h : SF.Props.UbjChunk.Reach p) (cs : List Bytes)
    (h1 : (writeChunks p cs).2 ≠ some .outOfFuel) (h2 : (parse p cs.flatten).2 ≠ some .outOfFuel) :
    (writeChunks p cs).1.evs = (parse p cs.flatten).1.evs ∧
    (writeChunks p cs).2 = (parse p cs.flatten).2 ∧
    ((writeChunks p cs).2 = none → (writeChunks p cs).1 = (parse p cs.flatten).1) :=
  SF.Props.UbjChunk.ubj_chunk_independent_reach p h cs h1 h2

/-- the fuel-free core: the resumption law of `collect` (how a token split over reads is
reassembled) for every buffer content, no precondition -/
theorem ubj_collect_resume (buf a b : Bytes) (n : Nat) :
    collect buf (a ++ b) n =
      match collect buf a n with
      | (buf1, rest1, some t) => (buf1, rest1 ++ b, some t)
      | (buf1, _, none) => collect buf1 b n :=
  SF.Props.UbjChunk.collect_resume buf a b n

/-- non-vacuity: `{#i1 i1 "a" [$i#i2 1 2` (a typed array inside a counted object) cut at EVERY
position and fed byte by byte with empty chunks in between; the fuel hypotheses hold -/
example : (SF.Props.UbjChunk.cuts SF.Props.UbjChunk.doc).all
      (fun cs => decide (writeChunks {} cs = parse {} SF.Props.UbjChunk.doc)) = true ∧
    (SF.Props.UbjChunk.cuts SF.Props.UbjChunk.doc).all
      (fun cs => decide ((writeChunks (init none) cs).2 ≠ some .outOfFuel)) = true ∧
    (parse {} SF.Props.UbjChunk.doc).2 = none := by
  decide +kernel

end SF.PropsUbjP.C02
