/-
  SF.Event — the data model shared by every component: number kinds, visitor events
  (basic and extended), values, the contract automaton `WF` (property C09) and the
  value of an event stream (`build`).
-/
import SF.Basic
namespace SF

/-! ## BaseType (visitor.go).  Numeric values are regenerated in `SF.Gen.Consts` and
checked against these in `SF.Gen.Check`. -/
namespace BT
def any : Nat := 0
def byte : Nat := 1
def string : Nat := 2
def bool : Nat := 3
def zero : Nat := 4
def int : Nat := 5
def int8 : Nat := 6
def int16 : Nat := 7
def int32 : Nat := 8
def int64 : Nat := 9
def uint : Nat := 10
def uint8 : Nat := 11
def uint16 : Nat := 12
def uint32 : Nat := 13
def uint64 : Nat := 14
def float32 : Nat := 15
def float64 : Nat := 16
end BT

inductive NumKind
  | i8 | i16 | i32 | i64 | int | u8 | u16 | u32 | u64 | uint | byte
  deriving DecidableEq, Repr, Inhabited

namespace NumKind
def lo : NumKind → Int
  | i8 => -128 | i16 => -32768 | i32 => -2147483648
  | i64 => -9223372036854775808 | int => -9223372036854775808
  | _ => 0
def hi : NumKind → Int
  | i8 => 127 | i16 => 32767 | i32 => 2147483647
  | i64 => 9223372036854775807 | int => 9223372036854775807
  | u8 => 255 | byte => 255 | u16 => 65535 | u32 => 4294967295
  | u64 => 18446744073709551615 | uint => 18446744073709551615
def inRange (k : NumKind) (v : Int) : Bool := decide (k.lo ≤ v) && decide (v ≤ k.hi)
def signed : NumKind → Bool
  | i8 | i16 | i32 | i64 | int => true
  | _ => false
/-- the BaseType an adapter announces for a typed array/map of this kind -/
def baseType : NumKind → Nat
  | i8 => BT.int8 | i16 => BT.int16 | i32 => BT.int32 | i64 => BT.int64 | int => BT.int
  | u8 => BT.uint8 | u16 => BT.uint16 | u32 => BT.uint32 | u64 => BT.uint64 | uint => BT.uint
  | byte => BT.byte
def name : NumKind → String
  | i8 => "i8" | i16 => "i16" | i32 => "i32" | i64 => "i64" | int => "i"
  | u8 => "u8" | u16 => "u16" | u32 => "u32" | u64 => "u64" | uint => "u" | byte => "b"
def ofName? : String → Option NumKind
  | "i8" => some i8 | "i16" => some i16 | "i32" => some i32 | "i64" => some i64 | "i" => some int
  | "u8" => some u8 | "u16" => some u16 | "u32" => some u32 | "u64" => some u64 | "u" => some uint
  | "b" => some byte | _ => none
end NumKind

/-- basic visitor events (structform.Visitor).  By-reference delivery
(`OnStringRef`/`OnKeyRef`) is the same event; provenance is tracked separately (C15). -/
inductive Ev
  | null
  | bool (b : Bool)
  | str (s : Bytes)
  | key (s : Bytes)
  | num (k : NumKind) (v : Int)
  | f32 (bits : UInt32)
  | f64 (bits : UInt64)
  | arrStart (len : Int) (bt : Nat)
  | arrEnd
  | objStart (len : Int) (bt : Nat)
  | objEnd
  deriving DecidableEq, Repr, Inhabited

/-- extended events (structform.ExtVisitor) -/
inductive XEv
  | ev (e : Ev)
  | strRef (s : Bytes)
  | keyRef (s : Bytes)
  | boolArr (xs : List Bool)
  | strArr (xs : List Bytes)
  | numArr (k : NumKind) (xs : List Int)       -- `OnBytes` is `numArr .byte`
  | f32Arr (xs : List UInt32)
  | f64Arr (xs : List UInt64)
  | boolObj (ms : List (Bytes × Bool))
  | strObj (ms : List (Bytes × Bytes))
  | numObj (k : NumKind) (ms : List (Bytes × Int))
  | f32Obj (ms : List (Bytes × UInt32))
  | f64Obj (ms : List (Bytes × UInt64))
  deriving DecidableEq, Repr, Inhabited

/-- `expand`: what array.go / map.go / string.go turn an extended event into. -/
def XEv.expand : XEv → List Ev
  | .ev e => [e]
  | .strRef s => [.str s]
  | .keyRef s => [.key s]
  | .boolArr xs => .arrStart xs.length BT.bool :: xs.map .bool ++ [.arrEnd]
  | .strArr xs => .arrStart xs.length BT.string :: xs.map .str ++ [.arrEnd]
  | .numArr k xs => .arrStart xs.length k.baseType :: xs.map (.num k) ++ [.arrEnd]
  | .f32Arr xs => .arrStart xs.length BT.float32 :: xs.map .f32 ++ [.arrEnd]
  | .f64Arr xs => .arrStart xs.length BT.float64 :: xs.map .f64 ++ [.arrEnd]
  | .boolObj ms => .objStart ms.length BT.bool :: ms.flatMap (fun m => [.key m.1, .bool m.2]) ++ [.objEnd]
  | .strObj ms => .objStart ms.length BT.string :: ms.flatMap (fun m => [.key m.1, .str m.2]) ++ [.objEnd]
  | .numObj k ms => .objStart ms.length k.baseType :: ms.flatMap (fun m => [.key m.1, .num k m.2]) ++ [.objEnd]
  | .f32Obj ms => .objStart ms.length BT.float32 :: ms.flatMap (fun m => [.key m.1, .f32 m.2]) ++ [.objEnd]
  | .f64Obj ms => .objStart ms.length BT.float64 :: ms.flatMap (fun m => [.key m.1, .f64 m.2]) ++ [.objEnd]

def expandAll (xs : List XEv) : List Ev := xs.flatMap XEv.expand

/-! ## Values -/

inductive Val
  | null
  | bool (b : Bool)
  | int (v : Int)
  | f32 (bits : UInt32)
  | f64 (bits : UInt64)
  | str (s : Bytes)
  | arr (xs : List Val)
  | obj (ms : List (Bytes × Val))
  deriving Repr, Inhabited

mutual
def Val.beq : Val → Val → Bool
  | .null, .null => true
  | .bool a, .bool b => a == b
  | .int a, .int b => a == b
  | .f32 a, .f32 b => a == b
  | .f64 a, .f64 b => a == b
  | .str a, .str b => a == b
  | .arr a, .arr b => Val.beqList a b
  | .obj a, .obj b => Val.beqMems a b
  | _, _ => false
def Val.beqList : List Val → List Val → Bool
  | [], [] => true
  | a :: as, b :: bs => Val.beq a b && Val.beqList as bs
  | _, _ => false
def Val.beqMems : List (Bytes × Val) → List (Bytes × Val) → Bool
  | [], [] => true
  | (k, a) :: as, (l, b) :: bs => k == l && Val.beq a b && Val.beqMems as bs
  | _, _ => false
end
instance : BEq Val := ⟨Val.beq⟩

/-! ### value of an event stream: a stack machine, total, no fuel -/

inductive BFrame
  | arr (acc : List Val)                            -- elements so far, reversed
  | obj (acc : List (Bytes × Val)) (key : Option Bytes)  -- members so far, reversed; pending key
  deriving Inhabited

structure BState where
  stack : List BFrame := []
  done : List Val := []        -- completed top-level values, reversed
  deriving Inhabited

def BState.put (st : BState) (v : Val) : Option BState :=
  match st.stack with
  | [] => some { st with done := v :: st.done }
  | .arr acc :: rest => some { st with stack := .arr (v :: acc) :: rest }
  | .obj acc (some k) :: rest => some { st with stack := .obj ((k, v) :: acc) none :: rest }
  | .obj _ none :: _ => none

def BState.step (st : BState) : Ev → Option BState
  | .null => st.put .null
  | .bool b => st.put (.bool b)
  | .str s => st.put (.str s)
  | .num _ v => st.put (.int v)
  | .f32 b => st.put (.f32 b)
  | .f64 b => st.put (.f64 b)
  | .key k =>
    match st.stack with
    | .obj acc none :: rest => some { st with stack := .obj acc (some k) :: rest }
    | _ => none
  | .arrStart _ _ =>
    match st.stack with
    | .obj _ none :: _ => none
    | _ => some { st with stack := .arr [] :: st.stack }
  | .objStart _ _ =>
    match st.stack with
    | .obj _ none :: _ => none
    | _ => some { st with stack := .obj [] none :: st.stack }
  | .arrEnd =>
    match st.stack with
    | .arr acc :: rest => ({ st with stack := rest } : BState).put (.arr acc.reverse)
    | _ => none
  | .objEnd =>
    match st.stack with
    | .obj acc none :: rest => ({ st with stack := rest } : BState).put (.obj acc.reverse)
    | _ => none

def BState.run (st : BState) : List Ev → Option BState
  | [] => some st
  | e :: es => match st.step e with
    | none => none
    | some st' => st'.run es

/-- the sequence of complete top-level values an event stream describes -/
def buildAll (evs : List Ev) : Option (List Val) :=
  match ({} : BState).run evs with
  | some st => if st.stack.isEmpty then some st.done.reverse else none
  | none => none

/-- the single value an event stream describes -/
def build (evs : List Ev) : Option Val :=
  match buildAll evs with
  | some [v] => some v
  | _ => none

/-! ## The Visitor contract automaton `WF` (C09, appendix A.2 of DESIGN.md) -/

structure WFrame where
  isObj : Bool
  remaining : Option Nat     -- announced length still to come (none = unknown)
  elem : Nat                 -- announced element BaseType
  expectKey : Bool           -- objects only
  deriving Repr, Inhabited, DecidableEq

/-- does a scalar event match an announced element type? -/
def Ev.matchesBT (bt : Nat) : Ev → Bool
  | .null => bt == BT.any || bt == BT.zero
  | .bool _ => bt == BT.any || bt == BT.bool
  | .str _ => bt == BT.any || bt == BT.string
  | .f32 _ => bt == BT.any || bt == BT.float32
  | .f64 _ => bt == BT.any || bt == BT.float64
  | .num k _ =>
    bt == BT.any || bt == k.baseType ||
      -- ByteType and Uint8Type name the same Go type
      ((bt == BT.byte || bt == BT.uint8) && (k == .byte || k == .u8))
  | _ => false

structure WState where
  stack : List WFrame := []
  docs : Nat := 0
  deriving Repr, Inhabited, DecidableEq

/-- account for one value (scalar or finished container start) in the enclosing frame -/
def WState.onValueStart (st : WState) : Option WState :=
  match st.stack with
  | [] => some st
  | f :: rest =>
    if f.isObj && f.expectKey then none else
    match f.remaining with
    | some 0 => none
    | some (n + 1) => some { st with stack := { f with remaining := some n, expectKey := f.isObj } :: rest }
    | none => some { st with stack := { f with expectKey := f.isObj } :: rest }

def WState.topElem (st : WState) : Nat :=
  match st.stack with
  | [] => BT.any
  | f :: _ => f.elem

def WState.countDoc (st : WState) : WState :=
  if st.stack.isEmpty then { st with docs := st.docs + 1 } else st

def lenOk (len : Int) : Option (Option Nat) :=
  if len == -1 then some none else if len ≥ 0 then some (some len.toNat) else none

def WState.step (st : WState) (e : Ev) : Option WState :=
  match e with
  | .key _ =>
    match st.stack with
    | f :: rest =>
      if f.isObj && f.expectKey then some { st with stack := { f with expectKey := false } :: rest }
      else none
    | [] => none
  | .arrStart len bt =>
    match lenOk len with
    | none => none
    | some rem =>
      if st.topElem != BT.any then none else
      match st.onValueStart with
      | none => none
      | some st' => some { st' with stack := { isObj := false, remaining := rem, elem := bt, expectKey := false } :: st'.stack }
  | .objStart len bt =>
    match lenOk len with
    | none => none
    | some rem =>
      if st.topElem != BT.any then none else
      match st.onValueStart with
      | none => none
      | some st' => some { st' with stack := { isObj := true, remaining := rem, elem := bt, expectKey := true } :: st'.stack }
  | .arrEnd =>
    match st.stack with
    | f :: rest =>
      if !f.isObj && (f.remaining == none || f.remaining == some 0) then
        some ({ st with stack := rest } : WState).countDoc
      else none
    | [] => none
  | .objEnd =>
    match st.stack with
    | f :: rest =>
      if f.isObj && f.expectKey && (f.remaining == none || f.remaining == some 0) then
        some ({ st with stack := rest } : WState).countDoc
      else none
    | [] => none
  | scalar =>
    if !scalar.matchesBT st.topElem then none else
    match st.onValueStart with
    | none => none
    | some st' => some st'.countDoc

def WState.run (st : WState) : List Ev → Option WState
  | [] => some st
  | e :: es => match st.step e with
    | none => none
    | some st' => st'.run es

/-- a stream of complete, contract-conforming documents -/
def WF (evs : List Ev) : Bool :=
  match ({} : WState).run evs with
  | some st => st.stack.isEmpty
  | none => false

/-- exactly one complete document -/
def WF1 (evs : List Ev) : Bool :=
  match ({} : WState).run evs with
  | some st => st.stack.isEmpty && st.docs == 1
  | none => false

/-- index of the first event at which the contract is broken (for reports) -/
def wfFirstBad (evs : List Ev) : Option Nat :=
  let rec go (st : WState) (i : Nat) : List Ev → Option Nat
    | [] => if st.stack.isEmpty then none else some i
    | e :: es => match st.step e with
      | none => some i
      | some st' => go st' (i + 1) es
  go {} 0 evs

end SF
