#!/usr/bin/env python3
"""Regenerates /verif/MANIFEST.json from tools/props.py (claimed) + tools/not_applicable.json."""
import json, os, sys
ROOT = os.path.dirname(os.path.dirname(os.path.abspath(__file__)))
sys.path.insert(0, os.path.join(ROOT, "tools"))
import props
hooks = ["3bcbd4f", "81db12b"]
checks = []
for pid in sorted(props.PROPS):
    c = props.PROPS[pid]
    if not os.path.exists(os.path.join(ROOT, "lean", "SF", "Props", pid + ".lean")):
        continue
    note = "Trusted: Lean kernel; the mirror model and its differential tie to /repo (sampling); the specification layer; Go runtime."
    if c["partial"]:
        note += " PARTIAL: " + c["partial"] + "."
    checks.append({
        "property_id": pid,
        "quick_cmd": "./check %s --tier quick" % pid,
        "thorough_cmd": "./check %s --tier thorough" % pid,
        "evidence_file": "evidence/%s.json" % pid,
        "replay_cmd_template": "./check %s --replay {path}" % pid,
        "engine": "lean-model",
        "level_claimed": {"category": "proof", "text": c["level_text"], "design_ref": c["design"]},
        "level_note": note,
        "technique": c["technique"],
    })
claimed = [c["property_id"] for c in checks]
na = json.load(open(os.path.join(ROOT, "tools", "not_applicable.json")))
na = [x for x in na if x["property_id"] not in claimed]
m = {
    "version": 1,
    "setup_cmd": "./setup.sh",
    "hooks": {
        "guard": "verif",
        "enable": "go build -tags verif (the harness module /verif/harness replaces github.com/elastic/go-structform by /repo)",
        "baseline_off_cmd": "cd /repo && GOFLAGS=-mod=mod GOPROXY=off GOSUMDB=off go test -vet=off -count=1 ./...",
        "source_commits": hooks,
        "add_only": True,
    },
    "engines": [
        {"name": "lean-model", "path": "lean", "serves_properties": claimed,
         "kind_free_text": "Lean 4 mirror models, specification layer and property theorems (SF/Props); executable driver sfmodel (model + oracle)"},
        {"name": "harness", "path": "harness", "serves_properties": claimed,
         "kind_free_text": "Go harness calling the real library in-process (sfimpl), op generators, fault-injecting writers/visitors, scripted readers"},
        {"name": "check", "path": "check", "serves_properties": claimed,
         "kind_free_text": "driver: facts, lake build, axiom audit, correspondence, oracle verdicts, known findings, evidence"},
    ],
    "checks": checks,
    "not_applicable": na,
    "notes": "All checks share one flow (DESIGN.md section 6). Every claimed property is decided by Lean 4 theorems over a mirror model "
             "tied to /repo by differential correspondence; partial claims are marked in level_note.",
}
json.dump(m, open(os.path.join(ROOT, "MANIFEST.json"), "w"), indent=1)
print("claimed:", claimed)
print("not_applicable:", [x["property_id"] for x in na])
