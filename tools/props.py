"""Per-property configuration used by ./check and tools/mkmanifest.py."""

COMMON_TB = [
    "Lean 4.33.0 kernel (lake build; `leanchecker` re-check of the property module in the thorough tier)",
    "hand-written mirror models in /verif/lean/SF (one Lean def per Go function) tied to /repo by differential "
    "correspondence: sfimpl (the real code, in-process, build tag verif) and sfmodel (compiled Lean) on the same op lines",
    "specification layer read by a human: SF/Event.lean (Val, WF, build), SF/Tree.lean, SF/*/Cst.lean",
    "Go compiler/runtime, reflect, unsafe, io.Copy: modelled, not verified",
]
CODEC_ASSUME = [
    "the mirror is the code only as far as the differential correspondence shows (sampling; distribution in this file)",
    "CBOR instance proved; UBJSON and JSON instances of this property are decided by mirror + correspondence + oracle only "
    "(their theorems are the listed `_partial` ones)",
]

GOTYPE_ASSUME = [
    "the Unfolder/Fold mirror is the code only as far as the differential correspondence shows (sampling; distribution in this file)",
    "type universe of the mirror: the 15 primitive kinds, []T, map[string]T, *T, interface{}, and the struct menagerie "
    "declared in harness/sfh/ops_unfold.go (described to Lean by op `unf-type`, compared with reflect on every run); "
    "user unfolders and Expander are outside the model",
    "raw pointers / unsafe offsets are modelled as paths into the target value (exact under the LIFO discipline every run obeys)",
]

def P(design, technique, *texts, tb=None, assumptions=None, partial=None):
    # texts: explanation fragments followed by the level text (the LAST positional string); a
    # fragment added after a trailing comma is therefore just one more piece of the explanation
    assert len(texts) >= 2, "explanation and level text required"
    explanation, level_text = "".join(texts[:-1]), texts[-1]
    return dict(design=design, technique=technique, explanation=explanation, level_text=level_text,
                trusted_base=COMMON_TB + (tb or []), assumptions=assumptions or CODEC_ASSUME, partial=partial or "")

PROPS = {
 "C01": P("DESIGN.md 7 C01",
   "Lean 4 proof (encoder and parser each refine the format's grammar; composition; CBOR and UBJSON in full, JSON for float-free streams) + differential correspondence",
   "cbor_roundtrip: for every contract-conforming event tree with in-range numbers the CBOR encoder's bytes are accepted by "
   "the CBOR parser with events building the same value. Proof = enc_tree (encoder writes the wire form of an item) o "
   "value_lemma (parser delivers the item's events), mutual structural induction, no size bound. "
   "PropsUbj.C01 ubj_roundtrip / ubj_roundtrip_ext: the same for UBJSON (basic and extended events): the encoder's bytes are "
   "accepted by the UBJSON parser, which ends idle having delivered ONE contract-conforming document whose value is the "
   "tree's up to the documented representation change (uint64 > MaxInt64 -> decimal string), exactly equal otherwise, and "
   "the draft-12 reference decoder reads the same value; proved through a bridge between the encoder-side and the "
   "parser-side grammar (SF/Proofs/UbjBridge*.lean); the range condition on numbers is shown necessary (OnInt8(300) reads back as 44). "
   "PropsJson.C01 json_encoder_writes_grammar / json_roundtrip / json_roundtrip_sanitized / json_roundtrip_chunks: for every float-free tree "
   "with in-range numbers and all encoder options the JSON encoder's output is a grammatical RFC 8259 text which the JSON parser reads — under "
   "every chunking — as one contract-conforming document with exactly the tree's value (invalid UTF-8: the sanitized value), as the reference decoder does. "
   "Correspondence: op `rt` (encode, Parse whole, then re-parse byte-wise through ParseReader) on renditions of random values "
   "x all kinds x boundary integers x all bytes as strings/keys x float specials x JSON options x strings/keys whose length "
   "byte is a marker of the format x several long escaped strings per document; oracle: value of the parsed events = value "
   "of the stream up to the format's documented representation changes (approxUbj / approxJson), independent of how the bytes arrive.",
   "Kernel-checked round-trip theorems for CBOR, UBJSON and (float-free) JSON over all well-formed streams; JSON floats by "
   "executable mirror, correspondence and specification oracle.",
   partial="JSON streams containing floats: the encoder's shortest round-tripping decimal (strconv.AppendFloat 'g' -1) is modelled and decided by oracle, not proved"),
 "C02": P("DESIGN.md 7 C02",
   "Lean 4 proof (chunk-independence theorems for the CBOR, JSON and UBJSON parsers: same events and same verdict for every byte string, every chunking, every visitor fault index) + differential correspondence over cut sets",
   "cbor_chunk_independent / cbor_chunk_independent_failAt / cbor_chunkings_agree / cbor_chunk_independent_reach: for every "
   "byte string (valid, invalid, truncated) and every way of cutting it into chunks (empty chunks, single bytes), Write per "
   "chunk + end of input delivers the identical events and the identical verdict (same error value) as whole-buffer Parse, "
   "also under a failing visitor and from every state reachable by successful writes. Proof: stack/buffer invariant, "
   "fuel-free big-step relation, split law for every step function lifted through feedUntil/feed/Write "
   "(SF/Proofs/CborChunk*.lean, ~2900 lines); core for the token buffer: collect_eq_spec / collect_resume_partial (shared "
   "verbatim by the UBJSON parser). Correspondence: op `chunk` = whole-buffer Parse vs Write-per-chunk (+end) / ParseReader, "
   "all cut sets of short documents, every two-way cut and 1-byte chunking of longer ones, every byte in every parser "
   "context, valid and mutated, with stack-depth and buffer-length hooks after every chunk; oracle: events and verdict "
   "class equal.",
   "Kernel-checked in full for the CBOR parser and the JSON parser (PropsJson.C02 json_writeChunks_eq_parse, json_chunk_independent: "
   "same verdict and events for every byte string, chunking and visitor fault index) and for the UBJSON parser (PropsUbjP.C02 "
   "ubj_chunk_independent / _small / _reach, ubj_chunkings_agree, ubj_collect_resume: every byte string, chunking, fault index and reachable state; "
   "same events, same error value, same final state) up to the MODEL's per-call fuel: the side condition 'neither run exhausted the fuel' "
   "(decidable form: fewer than 10^6 events + bytes) is shown necessary for the mirror — the Go loop has no fuel.",
   partial="UBJSON: runs delivering more than 10^6 events (payload-free typed containers, cf. KF-ubj-payload-free-count) are outside the theorem because of the mirror's fuel; decided by correspondence there"),
 "C03": P("DESIGN.md 7 C03",
   "Lean 4 proof (CBOR parser: no panic from any state; no hang with an explicit linear step bound; truncation is an error; exact acceptance) + differential correspondence incl. every byte in every parser context",
   "parse_no_panic / writeChunks_no_panic / feedUntil_no_panic: the CBOR parser never panics on ANY bytes, ANY chunking, "
   "from ANY state; parse_terminates / writeChunks_terminates / feedUntil_linear: the loops finish within 2|b|+2 iterations "
   "for every byte string and chunking (each step consumes a byte or leaves a pending zero-length start; invariant over "
   "ghost contexts of open containers); truncated_is_error / truncated_is_error_chunks: every proper non-empty prefix of "
   "every grammatical item is refused through Parse and through every chunking; parse_accepts_iff: the parser accepts "
   "EXACTLY the concatenations of complete items; collect_buffer_le: the buffer grows only by received bytes. "
   "Correspondence: outcome class (ok/err/panic/hang) on exhaustive <=2-byte inputs (<=3 thorough), every byte value in "
   "every parser context followed by 0/1/2/9 filler bytes (whole and byte-wise), all prefixes, mutations, tampered lengths, "
   "pull decoders; oracle: no panic/hang, truncated input (per the reference decoders) is an error, events proportional to input.",
   "Kernel-checked for the CBOR parser in full (no panic, linear termination, truncation, exact acceptance), for the JSON parser "
   "in full (PropsJson.C03: no panic, 2|b|+2 iterations, unquote terminates, truncation of every grammatical text) and for the "
   "UBJSON parser (PropsUbjP.C03: no panic from every invariant state; no spinning: every iteration consumes input or delivers "
   "an event); wall-clock and heap are runtime facts (partial by nature).",
   partial="UBJSON: an a-priori bound on the number of events is not proved (a linear one is false: known finding on payload-free counts); UBJSON truncation clause by oracle; wall-clock time and real heap cannot be exhibited by the model"),
 "C04": P("DESIGN.md 7 C04",
   "Lean 4 proof (the JSON parser refines the RFC 8259 grammar: every grammatical text, stream and chunking is read with its value; integer-literal layer exact, never wraps) + differential correspondence + RFC 8259 reference decoder as oracle",
   "int_literal_exact_partial / parseUint_exact: every integer literal is reported with exactly its value as int64/uint64 "
   "or refused when outside [-2^63, 2^64). Correspondence: op `parse json` on foreign-producer texts; oracle: "
   "SF/Json/Cst.lean (independent reference decoder, correctly rounded floats by exact rational arithmetic)."
   " PropsJsonP.C04: json_reads_value / json_reads_stream / json_reads_stream_chunks: EVERY grammatical RFC 8259 text (grammar "
   "SF/Proofs/JsonGrammar.lean: any whitespace, nesting, every escape incl. surrogate pairs, integers and floats) is accepted and "
   "delivered as exactly the value the grammar assigns, also as a stream of texts and under every chunking; rfc_string_value / "
   "integer_value_ref / number_value tie strings and numbers to the independent reference lexer of SF/Json/Cst.lean.",
   " PropsJsonConv.C04 (the CONVERSE, last clause of the property): accepted_is_stream / accepted_iff / not_stream_is_rejected / accepted_chunks_is_stream: Parse accepts a byte "
   "string IF AND ONLY IF it is white space + a stream of documents of the grammar (+ one last bare number); the bracket / comma / colon / key structure is strict, the lexical "
   "leniencies of this parser (Go white space, strconv number spellings, glued top-level documents, \\' and raw non-UTF-8 in strings) are explicit in the predicates and each a kernel-evaluated example.",
   "Kernel-checked in BOTH directions: every grammatical text is read with its value (streams, every chunking), and everything accepted is such a stream (exact characterisation of acceptance); "
   "float conversion delegated to strconv is modelled by exact rational rounding and checked by oracle.",
   partial="float literals: the mirror calls the specification's correctly rounded conversion where the code calls strconv.ParseFloat "
           "(tied by correspondence; one known finding beyond 800 digits)"),
 "C05": P("DESIGN.md 7 C05",
   "Lean 4 proof (parser refines the RFC 7049-subset grammar, mutual structural induction) + differential correspondence",
   "parse_supported: for every stream of well-formed items of the supported subset (any argument width, definite/"
   "indefinite nesting, all lengths) cborl.Parse accepts, delivers exactly the specified events and ends idle; "
   "parse_supported_value: the events build the RFC value; refuse_*: tags, half floats, indefinite strings, non-text keys, "
   "negatives below -2^63, reserved codes yield errors and no event. Correspondence: op `parse cbor` on foreign-encoder "
   "documents, all entry points, random chunkings, every unsupported feature nested; oracle = reference decoder.",
   "Kernel-checked refinement of the grammar for every supported item (full).",
   tb=["specification SF/Cbor/Cst.lean (Item, wire, value, events, reference decoder; decode o wire = id is proved: spec_roundtrip)"],
   assumptions=["the mirror is the code only as far as the differential correspondence shows",
                "RFC 7049 reading of DESIGN appendix A.4 (bytes as element-wise arrays, undefined as null)"]),
 "C06": P("DESIGN.md 7 C06",
   "Lean 4 proof (the UBJSON parser refines the draft-12 grammar: every stream of well-formed items is accepted with exactly its events and value) + differential correspondence + draft-12 reference decoder as oracle",
   "PropsUbjP.C06: parse_refines_events / parse_refines_value / parse_refines_one / feedUntil_refines / vcost_linear over the grammar "
   "SF.Ubjson.Syn.Item (every scalar marker, strings and H numbers with lengths in any integer marker, plain / counted / typed "
   "arrays and objects, nested typed containers, no-ops); int_roundtrip_partial, twos_read_*: every integer of every fixed "
   "width over the whole range. "
   "Correspondence: op `parse ubj` on foreign-encoder documents (all length markers, counted/typed containers nested, "
   "payload-free types, no-ops); oracle: SF/Ubjson/Cst.lean."
   " PropsUbjRef.C06 parser_agrees_with_reference / ubj_grammar_bridge: on every well-formed item of the encoder-side grammar "
   "(no size bound) the events the parser delivers build the value the independently written draft-12 reference decoder reads from the same bytes.",
   "Kernel-checked in full against the grammar of SF/Proofs/UbjItem.lean (a fuel side condition of the MODEL only: at most 10^6 "
   "payload-free elements per typed array, cf. the known finding); refusal of what is outside the grammar: reference-decoder oracle.",
   partial="the side conditions that stem from the mirror's fuel (payload-free typed containers with more than 10^6 elements)"),
 "C07": P("DESIGN.md 7 C07",
   "Lean 4 proof (encoder output is the wire form of a well-formed item the reference decoder reads back) + differential correspondence",
   "cbor_output_valid: for every well-formed stream the CBOR encoder's bytes are `wire` of an `ok` item with the stream's "
   "value and `decode` reads it back completely (spec_roundtrip: decode o wire = id on the whole grammar). "
   "Correspondence: op `enc` incl. all 29 extended events in 8 contexts, boundaries, every byte as string/key, JSON "
   "options; oracle: reference decoders on the implementation's bytes."
   " PropsUbj.C07: ubj_output_valid / ubj_output_valid_ext: for every contract-conforming tree (also with extended events) the "
   "UBJSON encoder's bytes are the wire form of a well-formed UBJSON item (grammar SF/Proofs/UbjWire.lean: plain, counted, "
   "typed containers), the reference decoder reads them back as exactly one value = the tree's value up to the oracle's "
   "approxUbj (proved equal to it: approx_is_oracle), exactly equal when no number exceeds MaxInt64; ubj_spec_roundtrip_stream.",
   "Kernel-checked for CBOR and UBJSON against independent grammars + reference decoders, and for JSON on float-free streams (PropsJson.C07 json_output_decodes, string_token_*, int_literal_*; C01 json_encoder_writes_grammar: the output is a grammatical RFC 8259 text); JSON floats by mirror + correspondence + oracle.",
   partial="JSON float literals (strconv.AppendFloat shortest decimal; explicit radix point option): modelled, decided by the reference decoder as oracle"),
 "C08": P("DESIGN.md 7 C08",
   "Lean 4 proof (all nine pairs: corollaries of the three parser refinements, the contract theorems and the three encoder refinements) + differential correspondence",
   "cbor_to_cbor: parser events of any supported item in any spelling fed to the encoder give a valid document with the "
   "same value. Correspondence: op `xcode` (Src.ParseReader(in, Dst.NewVisitor(out)) as in the README) for all 9 pairs, "
   "single documents and streams, random chunkings; oracle: both documents decoded by the specifications."
   " PropsX.C08: cbor_to_ubjson (valid UBJSON item, read back by the UBJSON reference decoder as the source's value up to the "
   "documented uint64 > MaxInt64 change, exactly equal otherwise) and cbor_to_json (float-free sources with UTF-8 strings: "
   "accepted by the RFC 8259 reference decoder with the source's value), by composing the CBOR parser refinement with the "
   "UBJSON / JSON encoder theorems; chunking: C02 (CBOR parser events do not depend on it)."
   " PropsUbjSrc.C08: ubjson_to_ubjson (exactly the source's value, read back by reference decoder AND parser), ubjson_to_cbor (well-formed RFC 7049 item "
   "with the source's value; `sized` follows from wire.length < 2^63), ubjson_to_json (float-free, UTF-8), for every grammatical UBJSON item in any spelling."
   " PropsJsonSrc.C08: json_to_cbor, json_to_ubjson (read back by reference decoder AND UBJSON parser), json_to_json (float-free; read back by reference decoder AND JSON parser), "
   "json_source_any_chunking, for EVERY grammatical JSON text; no range / UTF-8 side condition (the parser delivers in-range events and well-formed UTF-8).",
   "Kernel-checked for all nine pairs (JSON as TARGET: float-free sources); float-carrying sources into JSON by composed mirrors + correspondence + oracle.",
   partial="float-carrying sources into a JSON target (the encoder's shortest decimal): oracle; sources outside the grammars (refused documents): oracle"),
 "C09": P("DESIGN.md 7 C09",
   "Lean 4 proof (contract automaton WF on event trees; CBOR parser; adapters) + WF monitor as oracle on every stream",
   "tree_events_wf (generic), cbor_parser_wf (every accepted supported stream), expand_array_wf / expand_map_wf (all 29 "
   "adapter expansions). PropsJsonP.C09 json_parser_wf1(_chunks) / json_parser_wf(_chunks) / json_parser_events_ok: every grammatical JSON "
   "text / stream, under every chunking, is delivered as a contract-conforming stream whose strings are well-formed UTF-8 and whose numbers are "
   "in the range of their event kind. Oracle: WF evaluated on every event stream any parser or Fold delivers."
   " PropsFold.C09 fold_ok_wf / fold_fault_wf_prefix: for every type of the universe goodT (C12) and every value of it, a fold that returns ok has delivered ONE contract-conforming "
   "document (exact announced lengths incl. the struct rule), and under any fault index a prefix of it; custom folders are user code (counterexample FOpen)."
   " PropsFoldCus.C09 fold_ok_wf_custom / fold_fault_wf_prefix_custom / fold_ok_wf_extends: the same two statements on the EXTENDED universe goodC / wtC of C12 (custom folders on either receiver, registered fold functions, "
   "IsZeroers, in every position incl. inlined custom folders through the ExpectObjVisitor): the only assumption about user code is that the custom folder's OWN events are one conforming value (part of wtC; needed: FOpen, kernel-evaluated). "
   "Op reuse-parse-f: one json.Parser over histories that include REFUSED documents — input accepted after a refusal must still be delivered as a conforming stream.",
   "Kernel-checked for the generic layer, the CBOR, UBJSON and JSON parsers, the adapters and Fold on the universes goodT and goodC (custom folders whose own output conforms).",
   partial="Fold outside goodC (custom folders that do not emit one conforming value = user code, inline interface fields, mutually recursive types): WF oracle on every fold op"),
 "C10": P("DESIGN.md 7 C10",
   "Lean 4 proof (native typed methods = expansion, same bytes and state; byte slices same value) + differential correspondence",
   "cbor_ext_same: step s x = execEvs s x.expand for every typed array (except byte slices), typed map and by-reference "
   "string at any position; cbor_bytes_same_value for byte slices. Correspondence: op `ext` (extended event vs its "
   "expansion on two fresh encoders inside arbitrary contexts); oracle: same result class, same depth, both decode to "
   "the stream's value."
   " PropsUbj.C10: ubj_ext_same_value: every extended value event and its expansion are written as different bytes "
   "(optimized vs plain container) that the reference decoder reads as the SAME value; ubj_keyRef_same / ubj_strRef_same.",
   " PropsJson.C10 json_ext_same (JSON encoder: same bytes and state). PropsUnf.C10 ext_events_mean_expansion / ext_events_same_outcome / ext_unfold_into_interface: for EVERY "
   "extended event stream (well-formed or not), EVERY Unfolder context (any target type incl. structs, any stack state) delivering the stream has exactly the outcome of delivering its "
   "expansion: same result, same stored value, same six stacks and scratch buffers; only the CONTENTS of the key cache differ (it has seen the by-reference keys).",
   "Kernel-checked for all four consumers: the three encoders and the Unfolder; wrapped plain visitors: the 29 adapter expansions (C09 expand_array_wf / expand_map_wf + regenerated adapter facts).",
   partial=""),
 "C11": P("DESIGN.md 7 C11",
   "Lean 4 proof (scalar core of the round trip: every integer width, float bits, strings) + differential correspondence of the composed mirrors fold -> codec -> unfold + independent deep-equality oracle",
   "int_roundtrip / int_widening / wrapTo_of_inRange / float_bits_roundtrip / string_roundtrip / nil_resets: the unfolder's "
   "conversion table assigns exactly the value of the event Fold emits, for every integer kind and every value of it (no "
   "wrap at any width boundary), exact float bits, arbitrary bytes. Correspondence: op `fu <type> <value> <path>` = Go "
   "Fold -> [encoder -> parser of json | ubjson | cborl] -> Unfolder on a fresh target of the same type, compared with the "
   "composed Lean mirrors (SF/Ops/Fu.lean: Fold mirror, codec mirrors, Unfold mirror, universe translation SF/Gotype/"
   "Translate.lean); type-directed random values over all kinds, tagged structs (omitempty, inline/squash, -, omit), named, "
   "self-referential and mutually recursive types with finite values, pointers, interfaces holding every dynamic type, "
   "nil vs empty containers, unsupported kinds (must be refused with an error, never a crash). Oracle independent of the "
   "mirrors: result ok and deeply equal to the original modulo nil = empty, omitted-when-empty / dropped fields zero.",
   "Kernel-checked: the COMPOSED statement Fold-then-Unfold = identity on the direct path for scalars of every kind and width (bit-exact floats), []T, map[string]T under every iteration order, interface{} holding these, *T (PropsFu.C11 fold_unfold_scalar / _slice / _map / _iface_slice / _ptr, in the vocabulary of the op `fu`, no size bound); scalar round trip for all widths and values; the two halves for containers — fold side = documented rules on the universe goodT (C12 fold_agrees / fold_refuses: a type that cannot be handled is REFUSED, never a crash), unfold side = typed assignment for primitive slices / maps and the generic clause (C13), no panic on typed targets (C14) — and the codec legs (C01 round trips for all three formats); their composition over the remaining types by mirror + correspondence (`fu`, four paths) + oracle."
   " PropsFuStruct.C11 / PropsFuStruct2.C11: the composed statement for STRUCT types — dropped / plain / OMITEMPTY members of scalar type (fold_unfold_struct_prim, fold_unfold_struct_omit; with the Unfold-side hypotheses DERIVED from the compiler: compile_struct_prim, "
   "fold_unfold_struct_omit_total, unconditional instance fold_unfold_Om_total), NESTED and INLINED structs to any depth (fold_unfold_struct_nested, instance fold_unfold_Nest; type-level hypotheses #guard-checked), exact event lists (fold_struct_*_events). "
   "PropsFuCbor.C11: the composed statement THROUGH THE CBOR PATH (Fold -> CBOR encoder -> bytes -> CBOR parser -> Unfolder) for scalars, []T, map[string]T, every value (fold_cbor_unfold_scalar / _slice / _map; side condition = lengths below 2^63, forced: huge_length_refused). "
   "PropsFuUbj.C11: THROUGH THE UBJSON PATH for scalars and []T (fold_ubj_unfold_scalar / _slice), every value the format can carry — uint64 above MaxInt64 comes back as a string (known finding KF-ubj-uint64-above-maxint64: side condition fitsV, kernel-evaluated counterexamples uint64_above_maxint64_refused / slice_one_big_element_refused). "
   "PropsFuJson.C11: THROUGH THE JSON PATH for the float-free scalars (fold_json_unfold_int / _bool / _string: every integer kind over its whole range, strings modulo the encoder's UTF-8 sanitising, exact for valid UTF-8; every json.Visitor option setting).",
   tb=["models: SF/Gotype/Fold.lean, SF/Gotype/Unfold.lean, codec mirrors; composition SF/Ops/Fu.lean; translation between the two type universes SF/Gotype/Translate.lean"],
   assumptions=GOTYPE_ASSUME,
   partial="the composed statement for struct members of container / pointer / interface type, nested containers, pointer chains, containers through the JSON path and floats through JSON is not proved as ONE theorem (the halves are: C12 fold = rules, C13 typed assignment, C14 no panic, C01 codec legs); the Unfold mirror trims tags with String.trimAscii, which keeps \\v and \\f where Go strips them (theorems carry TrimAgree; no menagerie tag contains them); decided there by the oracle on generated types x values x four paths; *float32 holding a signalling NaN comes back quieted (reading: any NaN of the same width)"),
 "C12": P("DESIGN.md 7 C12",
   "Lean 4 proof (the Fold mirror agrees with the independent Rules specification on a decidable universe of types x all their values, both directions; tag parser = documented tag grammar for every tag string) + differential correspondence of the Fold mirror + Rules as oracle",
   "fold_agrees / fold_agrees_inputs: for EVERY type of the universe goodT (all scalar kinds, interface{}, slices, arrays incl. typed-array fast paths, pointers, "
   "string-keyed maps under ANY iteration order, structs with ARBITRARY tag strings incl. omitempty on interface fields and inline/squash, named types "
   "without methods) and every value of it, if the rules give r the mirror returns ok and its events build a value Rules.agrees accepts for r; fold_refuses: "
   "when the rules refuse (unsupported kind reached, non-string map key, inline+omitempty, inline on a non-object) the mirror returns a Go error, never ok / panic; "
   "fold_total: both; fold_agrees_rec: agreement for self-recursive named types. tag_rules_agree: for every tag string the code's parseTags and the documented "
   "grammar agree on member name, dropped, inlined, omitempty; announced_length_rule. The numeric side conditions are the fixed fuels of the two executable "
   "definitions, proved sufficient (SF/Proofs/Fold*.lean, Rec*.lean, 33 files). Correspondence: ops `fold` (type x value x fault index -> extended events + outcome, "
   "map order taken from the implementation), `fold-seq`, `typeinfo` (reflect description of every menagerie type vs the Lean descriptor), `goval`, `foldifc`, "
   "`foldopts` (shared option values). Oracle: SF/Gotype/Rules.lean, written from the documentation only (tags.go comment, README, CHANGELOG).",
   " PropsCustom.C12 fold_agrees_custom / fold_refuses_custom / universe_extends: the same on the EXTENDED universe goodC / wtC — rule 2 and rule 6e: named types with Fold on the value or pointer "
   "receiver, IsZero on either receiver, registered fold functions (iff registered), in every position (top level, plain / omitempty / inline struct field, element of slice / array / map, behind "
   "pointers, dynamic type of an interface value): the folder's value exactly as it emits it, omitempty dropped iff IsZero(), the object of a custom folder inlined. Self-checking op `foldpos`: Folders on "
   "either receiver of types of every kind (outside the menagerie) in ten positions.",
   "Kernel-checked: mirror = rules on the universes goodT and goodC (custom folders, IsZeroers; both directions) and on self-recursive types; outside by mirror + correspondence + oracle.",
   partial="outside the proved universes (decided by oracle + correspondence): inline fields of interface kind, mutually recursive types, the error direction for recursive types, "
           "custom folders that do not emit one value (user code: no demand), the nil-pointer configurations in which the documentation's rule 1 and rule 2 conflict (recorded reading)"),
 "C13": P("DESIGN.md 7 C13",
   "Lean 4 proof (ignore state machine swallows one complete value of any shape and restores the context exactly) + differential correspondence of the Unfolder mirror + specification oracle",
   "unknown_member_skipped / unknown_members_skipped / ignore_swallows_value: for every context (target, stacks, buffers, "
   "cache), every struct state and every member value (any nesting depth, announced lengths, element types, strings and "
   "keys by value or by reference) a member without a matching field is consumed without error and leaves the context "
   "- the target included - exactly as before the key (mutual structural induction over value trees, no bound). "
   "Correspondence: ops `unf` (stream x target type x initial target value, depths of the six stacks after every event, "
   "final target), `unf-type` (reflect description of every menagerie type vs the Lean descriptor). Oracle (SF/Gotype/"
   "UnfoldSpec.lean, independent of the mirror): interface{} targets receive exactly the generic value of the stream "
   "(typed slices/maps where announced); typed targets: `assign` (numeric conversions when the value fits, unmentioned "
   "fields untouched, unknown members skipped).",
   "Kernel-checked skip clause (all contexts x member values) and GENERIC clause (unfold_into_interface(_fresh), "
   "generic_value_into_container, delivered_value_is_generic, unfold_into_map/slice: every well-formed stream into interface{} / "
   "map[string]interface{} / []interface{} yields exactly the specification's generic value and restores the context)."
   " PropsTyped.C13 unfold_scalar_into_typed / unfold_array_into_prim_slice / unfold_object_into_prim_map: the typed-assignment clause for scalar targets of every primitive type, "
   "[]T and map[string]T with T primitive (any old value in the target: slices are overwritten from the start, maps are merged into): whenever the specification makes a claim the "
   "mirror accepts and stores the specified value. PropsStruct.C13 object_into_struct_compiled / unfold_object_into_struct: the same for STRUCT targets whose flattened fields are of primitive, interface{} or struct "
   "type (inline / squash to any depth, nested structs, unknown keys of any shape swallowed without a trace, duplicate keys in stream order, numeric conversions; fields not mentioned untouched; the Unfolder exactly as before "
   "SetTarget afterwards). PropsStructCont.C13 field_ptr_prim / field_slice_prim: the store lemma for struct fields of type *T and []T (T primitive, named or not; null, fresh cell per assignment, any announced length / element type, any old slice). "
   "Struct fields of map type, containers of structs and user unfolders: mirror + correspondence + oracle (`assign`), op unf-userval.",
   tb=["model: SF/Gotype/Unfold.lean (mirror of gotype/unfold*.go), SF/Gotype/UTypes.lean, Conv.lean, Menagerie.lean; spec: SF/Gotype/UnfoldSpec.lean"],
   assumptions=GOTYPE_ASSUME,
   partial="typed-assignment theorem for struct fields of map type (as stated false of the mirror's untyped value universe: an old map value may carry a foreign element-type tag; not a Go behaviour), containers of structs and nested typed containers not yet proved (safety there: C14 theorems; values: oracle `assign`)"),
 "C14": P("DESIGN.md 7 C14",
   "Lean 4 proof (pre-allocation bound for every announced length; Reset+SetTarget = fresh from any context) + regenerated SSA facts about allocation sites + differential correspondence over mismatches/abandon positions",
   "prealloc_bounded / prealloc_exact / typed_prealloc_le: an announced length allocates min(l,1024) elements for every l; "
   "GenCheck.unfoldAllocSites (regenerated from SSA on every run): every make/MakeSlice/MakeMapWithSize in gotype/unfold*.go "
   "has a constant size or one that went through arrPreallocLen. reset_then_setTarget_is_fresh: from ANY context (document "
   "abandoned at any event, any error) Reset+SetTarget equals SetTarget on a new Unfolder with the same key cache. "
   "Correspondence: `unf` on every kind of shape mismatch at every depth (scalar for container, array for object, key "
   "where none is expected, wrong element kind), announced lengths up to 2^63-1 not backed by elements, invalid type "
   "codes; `unf-reuse` = histories of documents on one Unfolder, each abandoned at every position or run to its error, "
   "followed by probe documents compared with a fresh Unfolder. The mirror has an explicit panic outcome for every "
   "empty-stack pop, nil dereference and invalid type code. Oracle: never panic/crash/hang; reused = fresh; depths idle.",
   "Kernel-checked allocation bound, reset law, and NO PANIC for generic targets on ANY event sequence whatsoever "
   "(any_events_into_interface, no_panic_any_events_into_interface, no_panic_into_interface: ok or error, the only panic is "
   "the documented one for an element-type code 17..255 that no producer of this library emits)."
   " PropsTyped.C14 any_events_into_typed / any_ext_events_into_typed / no_panic_any_events_into_typed / typed_complete_is_idle: the same for TYPED targets of the family "
   "bool, string, all integer widths, float32/64, interface{} closed under []T, map[string]T, *T at any nesting: ANY basic or extended event sequence is accepted or refused "
   "with an error (never a panic, a stale pointer, a wrong-shaped value behind a pointer, an out-of-range scratch slot), and a completed document leaves all six stacks and the scratch buffers idle. "
   "PropsStruct.C14 any_events_into_struct / any_ext_events_into_struct / struct_complete_is_idle: the same for targets with STRUCTS — the family TTS: struct types with all tags, inline / squash to any depth, "
   "unknown and duplicate keys, nested structs, pointers / slices / maps of structs, named types, the self-referential menagerie members (lazy registry placeholders), with a consistent registry (RegOK: holds for a "
   "new Unfolder, preserved by SetTarget, Reset and every completed document). User-unfolder targets: self-checking op unf-userval.",
   tb=["model: SF/Gotype/Unfold.lean; facts: SF/Gen/Alloc.lean regenerated by sffacts (x/tools SSA)"],
   assumptions=GOTYPE_ASSUME,
   partial="user unfolders and the Expander are outside the mirror (self-checking op unf-userval); "
           "writes outside the target cannot be exhibited by the model (memory safety of unsafe offsets is a runtime fact: "
           "covered by the unf-type descriptor comparison and Go's checkptr in the race run only)"),
 "C15": dict(P("DESIGN.md 7 C15",
   "Lean 4 proof (ownership discipline: owned stores are stable under every disciplined history; both halves necessary) tied by regenerated SSA facts about every by-reference consumer and every zero-copy conversion + differential ops with buffer scribbling, GC stress and checkptr",
   "owned_store_stable: with a consumer that copies by-reference strings, after ANY history obeying the producer discipline "
   "(no region is overwritten once a by-value string into it was handed out) every stored string reads exactly as delivered "
   "(induction over histories); view_consumer_unstable / undisciplined_producer_unstable: both rules are necessary. Tie, "
   "static (regenerated on every run, SF/GenCheck): refConsumersCopy - every OnStringRef/OnKeyRef of gotype ignores, forwards, "
   "copies (string(v)), interns through the key cache, or (struct unfolder) only looks up; unsafeSitesKnown - the complete "
   "table of zero-copy []byte<->string conversions and what their results are used for. Tie, dynamic: op `alias` (parser of "
   "each format [Write per chunk | pull decoder over a reader with buffer sizes 1..4096] feeding one Unfolder into "
   "interface{} / map / slice targets, key cache on/off; EVERY input buffer overwritten as soon as Write/Read returns; the "
   "same parser and unfolder continue with a second document into a second target; garbage churn + GC; optional continuous "
   "GC; value of target 1 before/after compared with a control run), op `aliasrec` (a Visitor keeping every by-value string "
   "and key), and the op stream again under go build -race (race detector + checkptr instrumentation).",
   "Kernel-checked ownership discipline over all histories; adherence of the code: regenerated facts + scribble/GC/checkptr runs (partial by nature).",
   tb=["abstract region model SF/Props/C15.lean (no mirror of Go's allocator or GC)", "facts: SF/Gen/RefMethods.lean, SF/Gen/UnsafeSites.lean (x/tools SSA)",
       "Go race detector / checkptr instrumentation (cgo build)"],
   assumptions=["a region model of memory; Go strings are immutable views", "the guard `allocated` of json/parse.go stepString/stepDictKey is tested, not proved",
                "GC interaction and pointer validity are runtime facts sampled by the GC-stress and checkptr runs"],
   partial="memory aliasing, GC and pointer validity cannot be exhibited by an executable Lean model; the theorem covers the ownership discipline, the runs sample the rest"),
   race=True, race_ops_quick=300),
 "C16": P("DESIGN.md 7 C16",
   "Lean 4 proof (encoder: success iff no Write failed; parser: a visitor error at event k is returned and is the last event, for every input, chunking and fault index) + exhaustive fault-index correspondence",
   "encoder_reports_write_errors: with a writer failing from its k-th call on, the CBOR encoder reports success iff no "
   "Write failed, and the failing event is the one returning the error. parser_returns_visitor_error / "
   "writeChunks_returns_visitor_error: for every byte string, chunking and k, the CBOR parser either delivers at most k "
   "events without a visitor error, or returns the visitor's error with event k the last one delivered (case analysis "
   "over every parser state: SF/Proofs/CborFault.lean, CborFailAt.lean). Correspondence: ops `enc` (fault index "
   "exhaustive for small streams) and `parse` (visitor failing at event k, k exhaustive); oracle: an error is reported "
   "/ the injected error is returned and no further event delivered."
   " PropsUbj.C16: ubj_encoder_reports_write_errors / ubj_encoder_failing_event: the same for the UBJSON encoder over every "
   "stream of basic and extended events, every start state, every fault index (at most one Write ever fails; the failing "
   "event is the one that returns the error)."
   " PropsJson.C16 json_encoder_reports_write_errors / json_encoder_success_iff_no_write_failed; PropsJsonP.C16 json_parser_returns_visitor_error / "
   "json_writeChunks_returns_visitor_error (every byte string, chunking, fault index). Pull decoders: op `decf` (failing visitor at every event)."
   " PropsUbjP.C16 ubj_parser_returns_visitor_error / ubj_writeChunks_returns_visitor_error / ubj_no_visitor_error (unconditional: every byte string, chunking, fault index)."
   " PropsFold.C16 fold_fault_truncates / fold_propagates_visitor_error / fold_ok_means_fault_not_reached: UNCONDITIONAL (every type, value, option record, fault index): the fold on a "
   "visitor failing at event k IS the healthy fold truncated after event k with the visitor's error.",
   " PropsDec.C16 {cbor,json,ubj}_reader_decoder_returns_visitor_error / _visitor_error_iff (+ byte-slice): UNCONDITIONAL for the three pull decoders: every read script, buffer size, "
   "byte content, fault index counted across Next calls: a call returns the visitor's error iff k+1 events were delivered in total, never more are, it is the last call.",
   "Kernel-checked for the encoders, the parsers and the pull decoders of all three formats and for gotype Fold.",
   partial="the statement has no Unfold instance (the Unfolder is a consumer: its own errors are what C14 is about)"),
 "C17": P("DESIGN.md 7 C17",
   "Lean 4 proof (documents restore every stack; reuse = fresh by induction on histories) + differential correspondence with depth hooks",
   "cbor_encoder_reuse / cbor_parser_reuse / cbor_parser_idle. Correspondence: ops `reuse-enc` / `reuse-parse` (histories "
   "of 1..8 documents on one instance, probe compared with a fresh instance, depths at every boundary)."
   " PropsUbj.C17: ubj_encoder_doc_stack / ubj_encoder_reuse / ubj_encoder_reuse_ext: every document restores the UBJSON "
   "encoder's length stack; after any history of documents (also with extended events) any probe stream yields the bytes, "
   "result and stack of a new encoder. PropsJson.C17 json_encoder_doc_idle / json_encoder_reuse; PropsJsonP.C17 json_parse_accepted_idle / json_parser_reuse "
   "(after any accepted history the JSON parser is idle and reads a grammatical probe as a new parser does). PropsUbjP.C17 ubj_parser_frame / "
   "ubj_parser_reuse_any / ubj_parser_reuse_chunks: after any history of grammatical documents the UBJSON parser is idle up to its event log and the scratch "
   "field valueType, and for EVERY probe byte string (malformed and truncated included, any chunking) returns the verdict and events of a new parser "
   "(frame theorem over every reachable state without a live typed-array header). Unfolder: Props/C14 reset_then_setTarget_is_fresh; fold iterator: ops fold-seq, foldopts.",
   "Kernel-checked for encoder and parser of all three formats — parsers for EVERY probe byte string, grammatical or not (JSON json_parser_reuse_any / json_parse_as_new, CBOR cbor_parser_frame / cbor_parser_reuse_any, UBJSON ubj_parser_frame / ubj_parser_reuse_any) —, for the three pull decoders (PropsJsonAny / PropsCborAny / PropsUbjD: after k successful Next calls the decoder behaves on ANY rest of the stream as a NEW decoder over the rest) and for the Unfolder (C14 reset_then_setTarget_is_fresh, typed_complete_is_idle); fold iterator by mirror + correspondence + oracle.",
   partial="fold iterator: the mirror has no registry state (reuse = fresh holds by construction there); the tie is the correspondence of fold-seq / foldopts histories; UBJSON decoder: histories of grammatical items within the model's fuel"),
 "C18": P("DESIGN.md 7 C18",
   "Lean 4 proof (CBOR, JSON and UBJSON decoders, byte-slice and reader-driven: one value per Next then clean EOF for every split into reads; truncation => error; read-size independence on arbitrary bytes; termination) + differential correspondence over read scripts",
   "reader_decoder_stream / reader_decoder_truncated(_one) / reader_chunking_independent / reader_eq_bytes_decoder / "
   "reader_never_outOfFuel / enough_nextFuel; bytes_decoder_stream / next_one / eof_not_clean. Correspondence: op `dec` (k documents, buffer sizes "
   "{bytes,1,2,3,7,16,64,4096}, read sizes varying per call, (0,nil) reads, data with io.EOF, truncated streams); oracle: "
   "ok x k then eof with exactly one value per Next; truncated => error."
   " PropsJsonD.C18 (no side condition beyond grammatical documents): json_bytes_decoder_stream / json_reader_decoder_stream(_num_end) / json_reader_decoder_truncated / "
   "json_reader_never_outOfFuel / json_reader_chunking_independent / json_reader_eq_bytes_decoder. PropsUbjD.C18: ubj_bytes_decoder_stream / ubj_reader_decoder_stream / "
   "ubj_reader_decoder_truncated / ubj_next_never_panics / ubj_nexts_loop_fuel_irrelevant / ubj_reader_chunking_independent / ubj_reader_eq_bytes_decoder, the reader-driven ones "
   "under a cost bound per item that stems from the MODEL's per-buffer parser fuel (shown necessary for the mirror; the Go loop has no fuel).",
   "Kernel-checked in full for the CBOR and JSON decoders (byte-slice and reader-driven: one value per Next then EOF for every read script, truncation => error, read-size independence on arbitrary bytes, termination); "
   "UBJSON decoder: the same, the reader-driven theorems up to the model's fuel.",
   partial="UBJSON reader-driven decoder on items costing more than 2*10^6 parser iterations (payload-free typed containers with ~10^6 elements): outside the theorem because of the mirror's fuel; correspondence there"),
 "C19": dict(P("DESIGN.md 7 C19",
   "Lean 4 proof (non-interference of state-owning instances under every interleaving) tied to regenerated SSA facts about package-level state",
   "interleaving_independent: for any number of instances whose steps read only their own state and an immutable "
   "environment, every interleaving yields per instance the outputs of running alone; no_shared_mutable_state: the "
   "hypothesis is discharged against SF/Gen/Globals.lean, regenerated from the SSA form of /repo on every run (no "
   "store / map update rooted at a package-level variable outside init). Support and failing-input search: op `conc` "
   "(N in {2,8,32} goroutines x fold->encode->parse->unfold pipelines on own instances over shared inputs and shared "
   "types, results compared with the sequential run), repeated under `go build -race`.",
   "Kernel-checked non-interference theorem + regenerated facts; data-race freedom under the Go memory model is partial "
   "by nature (race detector samples schedules, used as support only).",
   tb=["sffacts (go/packages + x/tools/go/ssa): what it extracts about package-level variables"],
   assumptions=["mutable state reachable only through package-level variables or the instance itself (escape through "
                "arguments shared by the caller is the caller's responsibility)",
                "the race detector only samples schedules"],
   partial="data races proper are a runtime/memory-model fact; the theorem covers state confinement"), race=True),
 "C20": P("DESIGN.md 7 C20",
   "Lean 4 proof (invariant + refinement to LRU) over a mirror model; differential correspondence with a recency-order hook",
   "cache_transparent / get_returns_key / cache_bounded / get_refines_lru over the mirror of symbolCache: for every "
   "capacity (incl. <= 0) and every key history the cache returns exactly the key it was given, never panics, keeps map "
   "and ring consistent and refines a textbook LRU. Correspondence: op `lru` drives EnableKeyCache(n)+OnKeyRef on a real "
   "Unfolder, compares ring order and map size after every key (hook), scribbles the source bytes of every key.",
   "Kernel-checked theorems over the mirror of gotype/symbols.go for every capacity and key history (full), and at the level of "
   "the Unfolder: PropsUnf.C20 cache_does_not_change_unfolded_map / _value (two idle Unfolders differing only in their key "
   "cache - any capacity, any contents - unfold every well-formed stream into equal targets).",
   tb=["model: SF/Gotype/Symbols.lean mirrors gotype/symbols.go (map + intrusive ring as two lists)"],
   assumptions=["Go map semantics; string(in) copies", "the unfolder passes keyCache.get(key) straight to OnKey (checked by the oracle on the unfolded map)"]),
}
