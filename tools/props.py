"""Per-property configuration used by ./check (text that goes into the evidence files)."""

COMMON_TB = [
    "Lean 4.33.0 kernel (lake build; leanchecker re-check in the thorough tier)",
    "hand-written mirror model in /verif/lean/SF tied to /repo by differential correspondence (sfimpl vs sfmodel on the same op lines) and by regenerated facts (SF/Gen, sffacts)",
    "Go compiler/runtime, reflect, unsafe: modelled, not verified",
]

PROPS = {
    "C20": dict(
        trusted_base=COMMON_TB + ["model: SF/Gotype/Symbols.lean mirrors gotype/symbols.go (map + intrusive ring as two lists)"],
        explanation="Theorems cache_transparent / get_returns_key / cache_bounded / get_refines_lru over the mirror of "
                    "symbolCache: for every capacity (incl. <= 0) and every key history the cache returns exactly the key "
                    "it was given, never panics, keeps map and ring consistent and refines a textbook LRU. Correspondence: "
                    "op `lru` drives EnableKeyCache(n)+OnKeyRef on a real Unfolder, compares the ring order and map size "
                    "after every key (hook VerifKeyCacheOrder) with the model, scribbles the source bytes of every key.",
        assumptions=["Go map semantics; string(in) copies", "the unfolder passes keyCache.get(key) straight to OnKey (checked by the oracle on the unfolded map)"],
    ),
}
