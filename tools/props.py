"""Per-property configuration used by ./check (text that goes into the evidence files)."""

COMMON_TB = [
    "Lean 4.33.0 kernel (lake build; leanchecker re-check in the thorough tier)",
    "hand-written mirror model in /verif/lean/SF tied to /repo by differential correspondence (sfimpl vs sfmodel on the same op lines) and by regenerated facts (SF/Gen, sffacts)",
    "Go compiler/runtime, reflect, unsafe: modelled, not verified",
]

PROPS = {
    "C20": dict(
        trusted_base=COMMON_TB + ["model: SF/Gotype/Symbols.lean mirrors gotype/symbols.go (map + intrusive ring as two lists)"],
        explanation="Theorems cache_transparent / get_returns_key / cache_bounded / get_refines_lru over the mirror of "
                    "symbolCache: for every capacity (incl. <= 0) and every key history the cache returns exactly the key "
                    "it was given, never panics, keeps map and ring consistent and refines a textbook LRU. Correspondence: "
                    "op `lru` drives EnableKeyCache(n)+OnKeyRef on a real Unfolder, compares the ring order and map size "
                    "after every key (hook VerifKeyCacheOrder) with the model, scribbles the source bytes of every key.",
        assumptions=["Go map semantics; string(in) copies", "the unfolder passes keyCache.get(key) straight to OnKey (checked by the oracle on the unfolded map)"],
    ),
    "C05": dict(
        trusted_base=COMMON_TB + [
            "specification: SF/Cbor/Cst.lean (Item, wire, value, events, reference decoder) read against RFC 7049 section 2; appendix-A vectors as kernel-evaluated examples",
            "model: SF/Cbor/Parse.lean mirrors cborl/parse.go function by function (after the fixes F01 F03 F05 F08 F09)"],
        explanation="Theorem parse_supported: for every stream of well-formed items of the supported subset (any argument width, "
                    "definite/indefinite nesting, all lengths) cborl.Parse on the wire bytes accepts, delivers exactly the specified "
                    "events and ends idle; parse_supported_value: the events build the RFC value; refuse_*: tags, half floats, "
                    "indefinite strings, non-text keys, negatives below -2^63, reserved codes yield errors and no event. "
                    "Proof: mutual structural induction over items (SF/Proofs/CborRefine.lean), no bound on size or depth. "
                    "Correspondence: op `parse cbor` on foreign-encoder style documents (non-minimal widths, indefinite containers, "
                    "byte strings, undefined), all four entry points, random chunkings, every unsupported feature nested; "
                    "oracle = the reference decoder of the specification on the same bytes.",
        assumptions=["the mirror is the code only as far as the differential correspondence shows (sampling)",
                     "RFC 7049 reading of DESIGN appendix A.4 (bytes as element-wise arrays, undefined as null)"],
    ),
}
