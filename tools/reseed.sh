#!/bin/bash
# reseed.sh <seed-id> [check ...] : re-evaluate an already filed seeded change with the current machinery
set -e
id=$1; shift
src=/tmp/reseed/$id
rm -rf $src; mkdir -p $src
cp /verif/seeded/$id/patch.diff /verif/seeded/$id/meta.json $src/
cp /verif/seeded/$id/demo/* $src/
python3 /verif/tools/seedtest.py $src "$@"
rm -rf $src
