#!/usr/bin/env python3
"""Regenerates the seeded-change table of DESIGN.md (section 0.7) from seeded/*/meta.json."""
import json, os, glob, re
ROOT = os.path.dirname(os.path.dirname(os.path.abspath(__file__)))
rows = []
n_ok = n_all = 0
for d in sorted(glob.glob(os.path.join(ROOT, "seeded", "*", "meta.json"))):
    m = json.load(open(d))
    if not m.get("kept"):
        continue
    sid = os.path.basename(os.path.dirname(d))
    caught = m.get("caught_by") or []
    n_all += 1
    n_ok += bool(caught)
    how = ""
    for c, v in (m.get("checks_run") or {}).items():
        if v.get("violation_line"):
            how = "broken proof obligation / correspondence, `no-failing-input-found`" if "no-failing-input-found" in v["violation_line"] else "failing input"
            for line in v.get("replay_head", "").splitlines():
                if line.startswith("fail:"):
                    how = "`" + line[5:].strip().split(" type=")[0].split(" want=")[0].split(" target=")[0][:80] + "`"
                    break
    rows.append("| %s | %s | %s | %s | %s |" % (sid, ", ".join(m.get("files") or [])[:70],
                (m.get("summary") or "")[:170].replace("|", "/").replace("\n", " ") + "…", ", ".join(caught) or "missed", how.replace("|", "/")))
p = os.path.join(ROOT, "DESIGN.md")
s = open(p).read()
hdr = "| id | files | change | caught by | first failing observation |\n|---|---|---|---|---|\n"
a = s.index(hdr) + len(hdr)
b = s.index("\n\n", a)
s = s[:a] + "\n".join(rows) + s[b:]
s = re.sub(r"\d+ confirmed changes, all\ncaught by the property's own check", "%d confirmed changes, all\ncaught by the property's own check" % n_all, s)
open(p, "w").write(s)
print("rows", n_all, "caught", n_ok)
