#!/usr/bin/env python3
"""
harmless.py <dir with r1,r2,.. (patch.diff, meta.json)> <check> [<check> ...]

Applies each behaviour-preserving change to /repo, runs the given quick checks, undoes it, and
prints per change which checks stayed quiet and which reported (and how).  Nothing is filed.
"""
import sys, os, json, subprocess, re

ROOT = os.path.dirname(os.path.dirname(os.path.abspath(__file__)))


def sh(cmd, cwd=None):
    p = subprocess.run(cmd, cwd=cwd, shell=True, stdout=subprocess.PIPE, stderr=subprocess.STDOUT, text=True)
    return p.returncode, p.stdout


def main():
    d = sys.argv[1].rstrip("/")
    checks = sys.argv[2:]
    out = []
    for v in sorted(os.listdir(d)):
        patch = os.path.join(d, v, "patch.diff")
        if not os.path.exists(patch):
            continue
        meta = json.load(open(os.path.join(d, v, "meta.json")))
        rc, o = sh("git -C /repo status --short")
        assert o.strip() == "", "repo not clean"
        rc, o = sh("git -C /repo apply %s" % patch)
        if rc != 0:
            out.append((v, "patch does not apply", {}))
            continue
        res = {}
        try:
            for c in checks:
                rc, o = sh("./check %s" % c, cwd=ROOT)
                m = re.search(r"^VIOLATION.*$", o, re.M)
                res[c] = "quiet" if rc == 0 and not m else (m.group(0)[:160] if m else "exit %d" % rc)
        finally:
            sh("git -C /repo checkout -- .")
        out.append((v, meta.get("summary", "")[:160], res))
        print(v, json.dumps(res), flush=True)
    json.dump(out, open(os.path.join(d, "result.json"), "w"), indent=1)


if __name__ == "__main__":
    main()
