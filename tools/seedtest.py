#!/usr/bin/env python3
"""
seedtest.py <seed-dir> [<check> ...]

Confirms a seeded change (patch.diff + demo) in a scratch worktree, then applies it to /repo,
runs the given checks (default: the seed's property), undoes it, and files the result under
/verif/seeded/<id>/ (patch.diff, demo/, meta.json).
"""
import sys, os, json, subprocess, shutil, re, time

ROOT = os.path.dirname(os.path.dirname(os.path.abspath(__file__)))
ENV = dict(os.environ, GOFLAGS="-mod=mod", GOPROXY="off", GOSUMDB="off", GOTOOLCHAIN="local")


def sh(cmd, cwd=None, timeout=1800):
    p = subprocess.run(cmd, cwd=cwd, env=ENV, stdout=subprocess.PIPE, stderr=subprocess.STDOUT, text=True,
                       shell=isinstance(cmd, str), timeout=timeout)
    return p.returncode, p.stdout


def main():
    src = sys.argv[1].rstrip("/")
    meta = json.load(open(os.path.join(src, "meta.json")))
    prop = meta["property"]
    sid = "%s-%s" % (prop, meta.get("variant", "x"))
    checks = sys.argv[2:] or [prop]
    patch = os.path.join(src, "patch.diff")
    wt = "/tmp/confirm-wt"
    sh("git -C /repo worktree remove --force %s" % wt)
    rc, out = sh("git -C /repo worktree add -q --detach %s HEAD" % wt)
    assert rc == 0, out
    res = {}
    try:
        demo = "/tmp/confirm-demo"
        shutil.rmtree(demo, ignore_errors=True)
        os.makedirs(demo)
        for f in os.listdir(src):
            if f.endswith(".go") or f in ("go.mod", "go.sum"):
                shutil.copy(os.path.join(src, f), demo)
        gm = open(os.path.join(demo, "go.mod")).read()
        gm = re.sub(r"=> \S+", "=> " + wt, gm)
        open(os.path.join(demo, "go.mod"), "w").write(gm)
        rc, out = sh("git apply %s" % patch, cwd=wt)
        res["patch_applies"] = rc == 0
        rc, out = sh("go build ./... && go test -vet=off -count=1 ./...", cwd=wt)
        res["suite_passes_with_change"] = rc == 0
        rc, out = sh("go test -count=1 ./...", cwd=demo)
        res["demo_fails_with_change"] = rc != 0
        sh("git checkout -- .", cwd=wt)
        rc, out = sh("go test -count=1 ./...", cwd=demo)
        res["demo_passes_without_change"] = rc == 0
    finally:
        sh("git -C /repo worktree remove --force %s" % wt)
        shutil.rmtree("/tmp/confirm-demo", ignore_errors=True)
    confirmed = all(res.values())
    detections = {}
    if confirmed:
        rc, out = sh("git -C /repo status --short")
        assert out.strip() == "", "repo not clean: " + out
        rc, out = sh("git -C /repo apply %s" % patch)
        assert rc == 0, out
        try:
            for c in checks:
                t0 = time.time()
                rc, out = sh([os.path.join(ROOT, "check"), c], cwd=ROOT)
                vio = [l for l in out.splitlines() if l.startswith("VIOLATION")]
                detail = ""
                if vio:
                    m = re.search(r"replay=(\S+)", vio[0])
                    if m and os.path.exists(m.group(1)):
                        detail = open(m.group(1)).read()[:1500]
                detections[c] = {"exit": rc, "violation_line": vio[0] if vio else "", "wall_s": round(time.time() - t0, 1),
                                 "replay_head": detail}
        finally:
            sh("git -C /repo checkout -- .")
            rc, out = sh("git -C /repo status --short")
            assert out.strip() == "", "repo not clean after undo: " + out
    dst = os.path.join(ROOT, "seeded", sid)
    shutil.rmtree(dst, ignore_errors=True)
    os.makedirs(os.path.join(dst, "demo"))
    shutil.copy(patch, os.path.join(dst, "patch.diff"))
    for f in os.listdir(src):
        if f.endswith(".go") or f in ("go.mod", "go.sum"):
            shutil.copy(os.path.join(src, f), os.path.join(dst, "demo"))
    gm = open(os.path.join(dst, "demo", "go.mod")).read()
    open(os.path.join(dst, "demo", "go.mod"), "w").write(re.sub(r"=> \S+", "=> /repo", gm))
    meta_out = {
        "property": prop, "variant": meta.get("variant"), "files": meta.get("files"),
        "summary": meta.get("summary"), "needs": meta.get("needs"),
        "origin": "independent sub-agent given only the property text and a scratch worktree",
        "confirmed_by_me": res,
        "ran": "tools/seedtest.py: confirmed in scratch worktree /tmp/confirm-wt (suite + demo with and without the change); "
               "git -C /repo apply patch.diff; ./check <id> (quick); git -C /repo checkout -- .",
        "checks_run": detections,
        "caught_by": [c for c, d in detections.items() if d["violation_line"]],
        "kept": confirmed,
    }
    json.dump(meta_out, open(os.path.join(dst, "meta.json"), "w"), indent=1)
    print(sid, "confirmed" if confirmed else "NOT CONFIRMED " + json.dumps(res),
          "| caught by:", meta_out["caught_by"], "| missed by:", [c for c in detections if c not in meta_out["caught_by"]])
    for c, d in detections.items():
        if d["violation_line"]:
            print("   ", c, d["violation_line"])


if __name__ == "__main__":
    main()
