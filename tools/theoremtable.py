#!/usr/bin/env python3
"""Lists the property theorems per property (fully qualified, as audited by ./check) as a markdown table."""
import re, os, sys
ROOT = os.path.dirname(os.path.dirname(os.path.abspath(__file__)))
def theorems(prop):
    src = open(os.path.join(ROOT, "lean", "SF", "Props", prop + ".lean")).read()
    code = re.sub(r"/-.*?-/", lambda m: "\n" * m.group(0).count("\n"), src, flags=re.S)
    stack, names = [], []
    for line in code.splitlines():
        m = re.match(r"^namespace (\S+)", line)
        if m:
            stack.append(m.group(1)); continue
        m = re.match(r"^end (\S+)", line)
        if m and stack and stack[-1] == m.group(1):
            stack.pop(); continue
        m = re.match(r"^theorem (\S+)", line)
        if m:
            names.append((".".join(stack), m.group(1)))
    return names
rows = []
for i in range(1, 21):
    p = "C%02d" % i
    by = {}
    for ns, n in theorems(p):
        by.setdefault(ns.replace("SF.", ""), []).append(n)
    cell = "; ".join("**%s**: %s" % (ns, ", ".join("`%s`" % n for n in ns_names)) for ns, ns_names in by.items())
    rows.append("| %s | %d | %s |" % (p, sum(len(v) for v in by.values()), cell))
print("| | # | property theorems (namespace: names), all audited with `#print axioms` on every run |\n|---|---|---|")
print("\n".join(rows))
