package fixdemo

import (
	"testing"

	structform "github.com/elastic/go-structform"
)

type f33Folder struct{ N int }

func (f f33Folder) Fold(v structform.ExtVisitor) error {
	if err := v.OnObjectStart(1, structform.AnyType); err != nil {
		return err
	}
	if err := v.OnKey("n"); err != nil {
		return err
	}
	if err := v.OnInt(f.N); err != nil {
		return err
	}
	return v.OnObjectFinished()
}

type f33PtrFolder struct{ N int }

func (f *f33PtrFolder) Fold(v structform.ExtVisitor) error {
	return f33Folder{f.N}.Fold(v)
}

// F33: inline field of struct type implementing Folder panics in IsNil.
func TestF33(t *testing.T) {
	type outer struct {
		X int
		F f33Folder `struct:",inline"`
	}
	type outerPtr struct {
		X int
		F *f33Folder `struct:",inline"`
	}
	type outerPF struct {
		X int
		F f33PtrFolder `struct:",inline"`
	}

	checkFold(t, "inline Folder struct", outer{X: 1, F: f33Folder{2}})
	checkFold(t, "inline *Folder struct", outerPtr{X: 1, F: &f33Folder{2}})
	checkFold(t, "inline ptr-receiver Folder struct (addressable)", &outerPF{X: 1, F: f33PtrFolder{2}})

	for codec, got := range roundtrip(t, "inline Folder struct", outer{X: 1, F: f33Folder{2}}) {
		if want := `{"x":1,"n":2}`; got != want {
			t.Errorf("%s: want %s, got %s", codec, want, got)
		}
	}
}
