package fixdemo

import (
	"testing"

	"github.com/elastic/go-structform/gotype"
)

type f29Target struct {
	kind string
	i    int64
	u    uint64
}

type f29State struct {
	gotype.BaseUnfoldState
	to *f29Target
}

func (t *f29Target) Expand() gotype.UnfoldState { return &f29State{to: t} }

func (s *f29State) OnInt(ctx gotype.UnfoldCtx, i int64) error {
	s.to.kind, s.to.i = "int", i
	ctx.Done()
	return nil
}

func (s *f29State) OnUint(ctx gotype.UnfoldCtx, u uint64) error {
	s.to.kind, s.to.u = "uint", u
	ctx.Done()
	return nil
}

// F29: user state unfolder receives OnInt events as OnUint.
func TestF29(t *testing.T) {
	var to f29Target
	u, err := gotype.NewUnfolder(&to)
	if err != nil {
		t.Fatal(err)
	}
	if err := u.OnInt(-5); err != nil {
		t.Fatal(err)
	}
	if to.kind != "int" || to.i != -5 {
		t.Errorf("OnInt(-5) reported as %v (i=%v, u=%v)", to.kind, to.i, to.u)
	}

	// via Fold of a go value
	var s struct{ X f29Target }
	u, err = gotype.NewUnfolder(&s)
	if err != nil {
		t.Fatal(err)
	}
	if err := gotype.Fold(map[string]int{"x": -7}, u); err != nil {
		t.Fatal(err)
	}
	if s.X.kind != "int" || s.X.i != -7 {
		t.Errorf("Fold(map[string]int{x: -7}) reported as %v (i=%v, u=%v)", s.X.kind, s.X.i, s.X.u)
	}
}
