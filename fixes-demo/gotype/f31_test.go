package fixdemo

import (
	"reflect"
	"testing"

	"github.com/elastic/go-structform/gotype"
	"github.com/elastic/go-structform/json"
)

// F31: completion of a nested container is propagated one level only.
func TestF31(t *testing.T) {
	type In struct{ A int }

	unfold := func(name, doc string, to interface{}) {
		t.Helper()
		err := guard(t, name, func() error {
			u, err := gotype.NewUnfolder(to)
			if err != nil {
				return err
			}
			if err := json.Parse([]byte(doc), u); err != nil {
				return err
			}
			// the unfolder must be finished now: any further event must fail with
			// the 'not initialized' error of the base state.
			if err := u.OnInt(1); err == nil || err.Error() != "Unfolder is not initialized" {
				t.Errorf("%s: unfolder still active after document end (err=%v)", name, err)
			}
			return nil
		})
		if err != nil {
			t.Errorf("%s: %v", name, err)
		}
	}
	check := func(name string, want, got interface{}) {
		t.Helper()
		if !reflect.DeepEqual(want, got) {
			t.Errorf("%s: want %#v, got %#v", name, want, got)
		}
	}

	// pre-allocated maps, so F30 is not involved
	m1 := map[string]*[]int{}
	unfold("map[string]*[]int", `{"x":[1,2],"y":[3]}`, &m1)
	check("map[string]*[]int", map[string]*[]int{"x": {1, 2}, "y": {3}}, m1)

	m2 := map[string]*In{}
	unfold("map[string]*struct", `{"x":{"a":1},"y":{"a":2}}`, &m2)
	check("map[string]*struct", map[string]*In{"x": {1}, "y": {2}}, m2)

	var pp **In
	unfold("**struct", `{"a":1}`, &pp)
	if pp == nil || *pp == nil || (*pp).A != 1 {
		t.Errorf("**struct: target not set: %v", pp)
	}

	var ppa **[]int
	unfold("**[]int", `[1,2]`, &ppa)
	if ppa == nil || *ppa == nil || !reflect.DeepEqual(**ppa, []int{1, 2}) {
		t.Errorf("**[]int: target not set: %v", ppa)
	}

	var s1 struct {
		P **In
		B int
	}
	unfold("struct{P **In}", `{"p":{"a":1},"b":2}`, &s1)
	if s1.P == nil || *s1.P == nil || (*s1.P).A != 1 || s1.B != 2 {
		t.Errorf("struct{P **In}: unexpected %#v", s1)
	}

	var s2 struct {
		P *interface{}
		B int
	}
	unfold("struct{P *interface{}}", `{"p":{"a":1},"b":2}`, &s2)
	if s2.P == nil || !reflect.DeepEqual(*s2.P, map[string]interface{}{"a": int64(1)}) || s2.B != 2 {
		t.Errorf("struct{P *interface{}}: unexpected %#v", s2)
	}

	var s3 []***[]int
	unfold("[]***[]int", `[[1],[2,3]]`, &s3)
	if len(s3) != 2 || s3[1] == nil || !reflect.DeepEqual(***s3[1], []int{2, 3}) {
		t.Errorf("[]***[]int: unexpected %#v", s3)
	}

	m3 := map[string]**map[string]int{}
	unfold("map[string]**map[string]int", `{"x":{"a":1},"y":{}}`, &m3)
	if m3["x"] == nil || !reflect.DeepEqual(**m3["x"], map[string]int{"a": 1}) || m3["y"] == nil {
		t.Errorf("map[string]**map[string]int: unexpected %#v", m3)
	}

	// single level pointers keep working
	var s4 struct {
		P *In
		Q *[]int
		B int
	}
	unfold("struct{P *In}", `{"p":{"a":1},"q":[1],"b":2}`, &s4)
	if s4.P == nil || s4.P.A != 1 || s4.Q == nil || s4.B != 2 {
		t.Errorf("struct{P *In}: unexpected %#v", s4)
	}
}
