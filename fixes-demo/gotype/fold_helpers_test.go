package fixdemo

import (
	"bytes"
	"fmt"
	"testing"

	structform "github.com/elastic/go-structform"
	"github.com/elastic/go-structform/cborl"
	"github.com/elastic/go-structform/gotype"
	"github.com/elastic/go-structform/json"
	"github.com/elastic/go-structform/ubjson"
)

// checker validates an event stream: keys and values alternate in objects,
// containers are balanced and announced lengths (if >= 0) match the number
// of members/elements actually reported.
type checker struct {
	stack []*frame
	errs  []string
	log   []string
}

type frame struct {
	obj       bool
	announced int
	count     int
	wantKey   bool
}

func (c *checker) fail(f string, a ...interface{}) { c.errs = append(c.errs, fmt.Sprintf(f, a...)) }

func (c *checker) value(what string) {
	c.log = append(c.log, what)
	if len(c.stack) == 0 {
		return
	}
	top := c.stack[len(c.stack)-1]
	if top.obj {
		if top.wantKey {
			c.fail("value %v in key position", what)
		}
		top.wantKey = true
	}
	top.count++
}

func (c *checker) OnObjectStart(l int, _ structform.BaseType) error {
	c.value(fmt.Sprintf("obj(%d)", l))
	c.stack = append(c.stack, &frame{obj: true, announced: l, wantKey: true})
	return nil
}
func (c *checker) OnArrayStart(l int, _ structform.BaseType) error {
	c.value(fmt.Sprintf("arr(%d)", l))
	c.stack = append(c.stack, &frame{announced: l})
	return nil
}
func (c *checker) finish(obj bool) error {
	c.log = append(c.log, "end")
	if len(c.stack) == 0 {
		c.fail("close without open")
		return nil
	}
	top := c.stack[len(c.stack)-1]
	c.stack = c.stack[:len(c.stack)-1]
	if top.obj != obj {
		c.fail("mismatched close")
	}
	if top.obj && !top.wantKey {
		c.fail("object closed after key without value")
	}
	if top.announced >= 0 && top.announced != top.count {
		c.fail("announced %d members, reported %d", top.announced, top.count)
	}
	return nil
}
func (c *checker) OnObjectFinished() error { return c.finish(true) }
func (c *checker) OnArrayFinished() error  { return c.finish(false) }
func (c *checker) OnKey(s string) error {
	c.log = append(c.log, "key:"+s)
	if len(c.stack) == 0 || !c.stack[len(c.stack)-1].obj {
		c.fail("key %q outside object", s)
		return nil
	}
	top := c.stack[len(c.stack)-1]
	if !top.wantKey {
		c.fail("key %q in value position", s)
	}
	top.wantKey = false
	return nil
}
func (c *checker) OnNil() error            { c.value("nil"); return nil }
func (c *checker) OnBool(bool) error       { c.value("bool"); return nil }
func (c *checker) OnString(string) error   { c.value("string"); return nil }
func (c *checker) OnInt8(int8) error       { c.value("int"); return nil }
func (c *checker) OnInt16(int16) error     { c.value("int"); return nil }
func (c *checker) OnInt32(int32) error     { c.value("int"); return nil }
func (c *checker) OnInt64(int64) error     { c.value("int"); return nil }
func (c *checker) OnInt(int) error         { c.value("int"); return nil }
func (c *checker) OnByte(byte) error       { c.value("uint"); return nil }
func (c *checker) OnUint8(uint8) error     { c.value("uint"); return nil }
func (c *checker) OnUint16(uint16) error   { c.value("uint"); return nil }
func (c *checker) OnUint32(uint32) error   { c.value("uint"); return nil }
func (c *checker) OnUint64(uint64) error   { c.value("uint"); return nil }
func (c *checker) OnUint(uint) error       { c.value("uint"); return nil }
func (c *checker) OnFloat32(float32) error { c.value("float"); return nil }
func (c *checker) OnFloat64(float64) error { c.value("float"); return nil }

// checkFold folds v into the checker and reports stream errors.
func checkFold(t *testing.T, name string, v interface{}, opts ...gotype.FoldOption) {
	t.Helper()
	c := &checker{}
	err := guard(t, name, func() error { return gotype.Fold(v, c, opts...) })
	if err != nil {
		t.Errorf("%s: fold failed: %v", name, err)
		return
	}
	if len(c.stack) != 0 {
		c.fail("unbalanced stream")
	}
	for _, e := range c.errs {
		t.Errorf("%s: invalid event stream: %s (events: %v)", name, e, c.log)
	}
}

// roundtrip folds v through each encoder, parses the document again and
// unfolds into a map[string]interface{}; returns json rendering per codec.
func roundtrip(t *testing.T, name string, v interface{}) map[string]string {
	t.Helper()
	type codec struct {
		name  string
		vs    func(*bytes.Buffer) structform.Visitor
		parse func([]byte, structform.Visitor) error
	}
	codecs := []codec{
		{"json", func(b *bytes.Buffer) structform.Visitor { return json.NewVisitor(b) }, json.Parse},
		{"cborl", func(b *bytes.Buffer) structform.Visitor { return cborl.NewVisitor(b) }, cborl.Parse},
		{"ubjson", func(b *bytes.Buffer) structform.Visitor { return ubjson.NewVisitor(b) }, ubjson.Parse},
	}
	res := map[string]string{}
	for _, cd := range codecs {
		var buf bytes.Buffer
		err := guard(t, name+"/"+cd.name, func() error { return gotype.Fold(v, cd.vs(&buf)) })
		if err != nil {
			t.Errorf("%s/%s: fold: %v", name, cd.name, err)
			continue
		}
		var out bytes.Buffer
		err = guard(t, name+"/"+cd.name, func() error { return cd.parse(buf.Bytes(), json.NewVisitor(&out)) })
		if err != nil {
			t.Errorf("%s/%s: parsing encoded document % x failed: %v", name, cd.name, buf.Bytes(), err)
			continue
		}
		res[cd.name] = out.String()
	}
	return res
}
