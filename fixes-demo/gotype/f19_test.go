package fixdemo

import (
	"bytes"
	"testing"

	structform "github.com/elastic/go-structform"
	"github.com/elastic/go-structform/cborl"
	"github.com/elastic/go-structform/gotype"
	"github.com/elastic/go-structform/json"
	"github.com/elastic/go-structform/ubjson"
)

// F19: skipping an unknown object member fails for strings by reference and
// for objects with keys.
func TestF19(t *testing.T) {
	docs := []string{
		`{"unknown":{"k":"v","n":[1,{"z":"s"}]},"a":5,"u2":"str"}`,
		`{"u":"str","a":5}`,
		`{"u":{"k":1},"a":5}`,
		`{"u":["s",{"k":{"k2":["x"]}},[{"y":null}]],"a":5}`,
		`{"a":5,"u":{}}`,
	}

	type codec struct {
		name  string
		vs    func(*bytes.Buffer) structform.Visitor
		parse func([]byte, structform.Visitor) error
	}
	codecs := []codec{
		{"json", func(b *bytes.Buffer) structform.Visitor { return json.NewVisitor(b) }, json.Parse},
		{"cborl", func(b *bytes.Buffer) structform.Visitor { return cborl.NewVisitor(b) }, cborl.Parse},
		{"ubjson", func(b *bytes.Buffer) structform.Visitor { return ubjson.NewVisitor(b) }, ubjson.Parse},
	}

	for _, doc := range docs {
		for _, cd := range codecs {
			// transcode json document
			var buf bytes.Buffer
			if err := json.Parse([]byte(doc), cd.vs(&buf)); err != nil {
				t.Fatalf("%s: transcoding %s: %v", cd.name, doc, err)
			}

			var to struct{ A int }
			err := guard(t, cd.name, func() error {
				u, err := gotype.NewUnfolder(&to)
				if err != nil {
					return err
				}
				return cd.parse(buf.Bytes(), u)
			})
			if err != nil {
				t.Errorf("%s: unfold %s: %v", cd.name, doc, err)
			} else if to.A != 5 {
				t.Errorf("%s: unfold %s: A = %v", cd.name, doc, to.A)
			}
		}

		// keys/strings by value (OnKey/OnString)
		var to struct{ A int }
		var tmp interface{}
		if err := json.Parse([]byte(doc), mustUnfolder(t, &tmp)); err != nil {
			t.Fatal(err)
		}
		err := guard(t, "by value", func() error { return gotype.Fold(tmp, mustUnfolder(t, &to)) })
		if err != nil {
			t.Errorf("by value: unfold %s: %v", doc, err)
		} else if to.A != 5 {
			t.Errorf("by value: unfold %s: A = %v", doc, to.A)
		}
	}
}

func mustUnfolder(t *testing.T, to interface{}) *gotype.Unfolder {
	u, err := gotype.NewUnfolder(to)
	if err != nil {
		t.Fatal(err)
	}
	return u
}
