package fixdemo

import (
	"testing"

	"github.com/elastic/go-structform/gotype"
	"github.com/elastic/go-structform/json"
)

// F20: map targets with non-string keys are accepted and written through
// unsafe as map[string]T.
func TestF20(t *testing.T) {
	type S struct{ A int }
	targets := map[string]interface{}{
		"map[int]string":            new(map[int]string),
		"map[int]interface{}":       new(map[int]interface{}),
		"map[int]struct":            new(map[int]S),
		"map[bool][]int":            new(map[bool][]int),
		"struct field":              new(struct{ M map[int]string }),
		"struct ptr field":          new(struct{ M *map[int]string }),
		"slice of maps":             new([]map[int]string),
		"map of maps":               new(map[string]map[int]string),
		"ptr to map":                new(*map[int]string),
		"map[string]struct w/ map":  new(map[string]struct{ M map[int8]int }),
		"map[[2]string]int (array)": new(map[[2]string]int),
	}
	for name, to := range targets {
		var u *gotype.Unfolder
		err := guard(t, name, func() (err error) {
			u, err = gotype.NewUnfolder(to)
			return err
		})
		if err == nil {
			t.Errorf("%s: NewUnfolder accepted target with non-string map key", name)
		} else {
			t.Logf("%s: %v", name, err)
		}

		err = guard(t, name, func() (err error) {
			u, err = gotype.NewUnfolder(nil)
			if err != nil {
				t.Fatal(err)
			}
			return u.SetTarget(to)
		})
		if err == nil {
			t.Errorf("%s: SetTarget accepted target with non-string map key", name)
		}
	}

	// string keys are still fine
	var ok struct {
		M map[string]string
		N []map[string]int
	}
	u, err := gotype.NewUnfolder(&ok)
	if err != nil {
		t.Fatal(err)
	}
	if err := json.Parse([]byte(`{"m":{"a":"b"},"n":[{"x":1}]}`), u); err != nil {
		t.Fatal(err)
	}
	if ok.M["a"] != "b" || ok.N[0]["x"] != 1 {
		t.Errorf("unexpected result: %v", ok)
	}
}
