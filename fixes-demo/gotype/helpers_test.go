package fixdemo

import (
	"fmt"
	"testing"
)

// guard runs fn and turns a panic into a test failure.
func guard(t *testing.T, name string, fn func() error) (err error) {
	t.Helper()
	defer func() {
		if r := recover(); r != nil {
			err = fmt.Errorf("panic: %v", r)
			t.Errorf("%s: panic: %v", name, r)
		}
	}()
	return fn()
}
