package fixdemo

import (
	"runtime"
	"testing"

	structform "github.com/elastic/go-structform"
	"github.com/elastic/go-structform/cborl"
	"github.com/elastic/go-structform/gotype"
)

func allocated(fn func()) uint64 {
	var before, after runtime.MemStats
	runtime.GC()
	runtime.ReadMemStats(&before)
	fn()
	runtime.ReadMemStats(&after)
	return after.TotalAlloc - before.TotalAlloc
}

// F22: the announced array length drives make() without any element having
// been received.
func TestF22(t *testing.T) {
	const limit = 1 << 20 // 1MiB is plenty for an array start event

	type S struct{ A, B, C, D int64 }

	// 1. huge length announced via the visitor API
	targets := map[string]func() interface{}{
		"[]int":         func() interface{} { return new([]int) },
		"[]string":      func() interface{} { return new([]string) },
		"[]interface{}": func() interface{} { return new([]interface{}) },
		"interface{}":   func() interface{} { return new(interface{}) },
		"[]struct":      func() interface{} { return new([]S) },
		"[][]int":       func() interface{} { return new([][]int) },
		"struct field":  func() interface{} { return new(struct{ X []uint8 }) },
	}
	for name, mk := range targets {
		for _, bt := range []structform.BaseType{structform.AnyType, structform.Int8Type} {
			for _, l := range []int{1 << 62, 1 << 24} {
				to := mk()
				var err error
				n := allocated(func() {
					err = guard(t, name, func() error {
						u, err := gotype.NewUnfolder(to)
						if err != nil {
							return err
						}
						if name == "struct field" {
							if err := u.OnObjectStart(1, structform.AnyType); err != nil {
								return err
							}
							if err := u.OnKey("x"); err != nil {
								return err
							}
						}
						return u.OnArrayStart(l, bt)
					})
				})
				if err != nil {
					t.Errorf("%s: OnArrayStart(%d, %v): %v", name, l, bt, err)
				}
				if n > limit {
					t.Errorf("%s: OnArrayStart(%d, %v) allocated %d bytes", name, l, bt, n)
				}
			}
		}
	}

	// 2. cborl array header announcing 2^28 elements, then end of input
	var to []S
	n := allocated(func() {
		guard(t, "cborl", func() error {
			u, err := gotype.NewUnfolder(&to)
			if err != nil {
				return err
			}
			cborl.Parse([]byte{0x9a, 0x10, 0x00, 0x00, 0x00}, u)
			return nil
		})
	})
	if n > limit {
		t.Errorf("cborl array header with 2^28 elements allocated %d bytes", n)
	}

	// 3. elements beyond the pre-allocation limit are stored correctly
	for _, announce := range []bool{true, false} {
		for _, count := range []int{0, 1, 1023, 1024, 1025, 5000} {
			l := -1
			if announce {
				l = count
			}

			feed := func(to interface{}) {
				u, err := gotype.NewUnfolder(to)
				if err != nil {
					t.Fatal(err)
				}
				if err := u.OnArrayStart(l, structform.AnyType); err != nil {
					t.Fatal(err)
				}
				for i := 0; i < count; i++ {
					if err := u.OnObjectStart(1, structform.AnyType); err != nil {
						t.Fatal(err)
					}
					if err := u.OnKey("a"); err != nil {
						t.Fatal(err)
					}
					if err := u.OnInt(i); err != nil {
						t.Fatal(err)
					}
					if err := u.OnObjectFinished(); err != nil {
						t.Fatal(err)
					}
				}
				if err := u.OnArrayFinished(); err != nil {
					t.Fatal(err)
				}
			}
			feedInts := func(to interface{}) {
				u, err := gotype.NewUnfolder(to)
				if err != nil {
					t.Fatal(err)
				}
				if err := u.OnArrayStart(l, structform.AnyType); err != nil {
					t.Fatal(err)
				}
				for i := 0; i < count; i++ {
					if err := u.OnInt(i); err != nil {
						t.Fatal(err)
					}
				}
				if err := u.OnArrayFinished(); err != nil {
					t.Fatal(err)
				}
			}

			var structs []struct{ A int }
			feed(&structs)
			if len(structs) != count {
				t.Fatalf("[]struct l=%d count=%d: len=%d", l, count, len(structs))
			}
			for i, s := range structs {
				if s.A != i {
					t.Fatalf("[]struct l=%d count=%d: elem %d = %d", l, count, i, s.A)
				}
			}

			var ints []int
			feedInts(&ints)
			if len(ints) != count {
				t.Fatalf("[]int l=%d count=%d: len=%d", l, count, len(ints))
			}
			for i, v := range ints {
				if v != i {
					t.Fatalf("[]int l=%d count=%d: elem %d = %d", l, count, i, v)
				}
			}

			var ifc interface{}
			feedInts(&ifc)
			arr, _ := ifc.([]interface{})
			if len(arr) != count {
				t.Fatalf("interface{} l=%d count=%d: got %T len=%d", l, count, ifc, len(arr))
			}
			for i, v := range arr {
				if v != i {
					t.Fatalf("interface{} l=%d count=%d: elem %d = %v", l, count, i, v)
				}
			}

			var ifcs []interface{}
			feed(&ifcs)
			if len(ifcs) != count {
				t.Fatalf("[]interface{} l=%d count=%d: len=%d", l, count, len(ifcs))
			}
			for i, v := range ifcs {
				m, _ := v.(map[string]interface{})
				if m["a"] != i {
					t.Fatalf("[]interface{} l=%d count=%d: elem %d = %v", l, count, i, v)
				}
			}
		}
	}
}
