package fixdemo

import (
	"reflect"
	"testing"

	"github.com/elastic/go-structform/gotype"
	"github.com/elastic/go-structform/json"
)

// F30: reflection based map unfolder never allocates a nil target map.
func TestF30(t *testing.T) {
	type S struct{ A int }

	unfold := func(name, doc string, to interface{}) {
		t.Helper()
		err := guard(t, name, func() error {
			u, err := gotype.NewUnfolder(to)
			if err != nil {
				return err
			}
			return json.Parse([]byte(doc), u)
		})
		if err != nil {
			t.Errorf("%s: %v", name, err)
		}
	}
	check := func(name string, want, got interface{}) {
		t.Helper()
		if !reflect.DeepEqual(want, got) {
			t.Errorf("%s: want %#v, got %#v", name, want, got)
		}
	}

	var m1 map[string]S
	unfold("map[string]struct", `{"x":{"a":1},"y":{"a":2}}`, &m1)
	check("map[string]struct", map[string]S{"x": {1}, "y": {2}}, m1)

	var m2 map[string][]int
	unfold("map[string][]int", `{"x":[1,2],"y":[]}`, &m2)
	check("map[string][]int", map[string][]int{"x": {1, 2}, "y": nil}, m2)

	var m3 map[string]map[string]int
	unfold("map[string]map[string]int", `{"x":{"a":1}}`, &m3)
	check("map[string]map[string]int", map[string]map[string]int{"x": {"a": 1}}, m3)

	var m4 struct{ M map[string]S }
	unfold("struct field", `{"m":{"x":{"a":1}}}`, &m4)
	check("struct field", map[string]S{"x": {1}}, m4.M)

	var m5 []map[string]S
	unfold("slice elem", `[{"x":{"a":1}},{"y":null}]`, &m5)
	check("slice elem", []map[string]S{{"x": {1}}, {"y": {}}}, m5)

	// existing map is kept and updated
	m6 := map[string]S{"keep": {7}, "x": {8}}
	alias := m6
	unfold("existing map", `{"x":{"a":1}}`, &m6)
	check("existing map", map[string]S{"keep": {7}, "x": {1}}, m6)
	check("existing map (alias)", map[string]S{"keep": {7}, "x": {1}}, alias)
}
