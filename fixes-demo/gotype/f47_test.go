package fixdemo

import (
	"bytes"
	"testing"

	structform "github.com/elastic/go-structform"
	"github.com/elastic/go-structform/gotype"
	"github.com/elastic/go-structform/json"
)

type f47Map map[string]int

func (p *f47Map) Fold(v structform.ExtVisitor) error { return v.OnString("pm") }

type f47Slice []int

func (p *f47Slice) Fold(v structform.ExtVisitor) error { return v.OnString("psl") }

// F47: named map / slice type with a Folder on the pointer receiver, held directly in an interface.
func TestF47(t *testing.T) {
	for _, c := range []struct {
		val  interface{}
		want string
	}{
		{f47Map{"a": 1}, `"pm"`},
		{[]interface{}{f47Map{"a": 1}}, `["pm"]`},
		{map[string]interface{}{"k": f47Slice{1}}, `{"k":"psl"}`},
		{struct{ M f47Map }{f47Map{"a": 1}}, `{"m":"pm"}`},
		{[]f47Slice{{1}}, `["psl"]`},
	} {
		var buf bytes.Buffer
		if err := gotype.Fold(c.val, json.NewVisitor(&buf)); err != nil {
			t.Errorf("%#v: %v", c.val, err)
		}
		if buf.String() != c.want {
			t.Errorf("%#v: got %s, want %s", c.val, buf.String(), c.want)
		}
	}
}
