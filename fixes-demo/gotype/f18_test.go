package fixdemo

import "testing"

// F18: struct fold announces len(fields) although omitempty/inline change the
// number of reported members.
func TestF18(t *testing.T) {
	type omit struct {
		A string `struct:",omitempty"`
		B int
	}
	type inner struct{ X, Y int }
	type inlineStruct struct {
		I inner `struct:",inline"`
		B int
	}
	type inlineMap struct {
		M map[string]int `struct:",inline"`
		B int
	}
	type inlineIfc struct {
		V interface{} `struct:",inline"`
	}
	type static struct{ A, B int }

	cases := map[string]interface{}{
		"omitempty dropped": omit{B: 1},
		"omitempty kept":    omit{A: "a", B: 1},
		"inline struct":     inlineStruct{I: inner{1, 2}, B: 3},
		"inline map":        inlineMap{M: map[string]int{"a": 1, "b": 2, "c": 3}, B: 3},
		"inline nil map":    inlineMap{B: 3},
		"inline ifc":        inlineIfc{V: map[string]interface{}{"a": 1, "b": 2}},
		"nested":            map[string]interface{}{"k": []interface{}{omit{B: 1}}},
		"static":            static{1, 2},
	}
	for name, v := range cases {
		checkFold(t, name, v)
	}

	// length-prefixed encoders must produce parseable documents
	want := `{"b":1}`
	for codec, got := range roundtrip(t, "omitempty dropped", omit{B: 1}) {
		if got != want {
			t.Errorf("%s: want %s, got %s", codec, want, got)
		}
	}
	want = `{"x":1,"y":2,"b":3}`
	for codec, got := range roundtrip(t, "inline struct", inlineStruct{I: inner{1, 2}, B: 3}) {
		if got != want {
			t.Errorf("%s: want %s, got %s", codec, want, got)
		}
	}
}
