package fixdemo

import "testing"

// F32: nil inline pointer emits OnNil in key position.
func TestF32(t *testing.T) {
	type inner struct{ A int }
	type outer struct {
		X int
		P *inner `struct:",inline"`
	}
	type outer2 struct {
		X int
		P **inner         `struct:",inline"`
		M *map[string]int `struct:",inline"`
		Y int
	}

	checkFold(t, "nil inline ptr", outer{X: 1})
	checkFold(t, "set inline ptr", outer{X: 1, P: &inner{2}})
	in := &inner{3}
	var nilIn *inner
	checkFold(t, "nil inline ptr-ptr/ptr-map", outer2{X: 1, Y: 2})
	checkFold(t, "inline ptr to nil ptr", outer2{X: 1, P: &nilIn, Y: 2})
	checkFold(t, "inline ptr-ptr", outer2{X: 1, P: &in, M: &map[string]int{"z": 1}, Y: 2})

	for codec, got := range roundtrip(t, "nil inline ptr", outer{X: 1}) {
		if want := `{"x":1}`; got != want {
			t.Errorf("%s: want %s, got %s", codec, want, got)
		}
	}
	for codec, got := range roundtrip(t, "set inline ptr", outer{X: 1, P: &inner{2}}) {
		if want := `{"x":1,"a":2}`; got != want {
			t.Errorf("%s: want %s, got %s", codec, want, got)
		}
	}
}
