package fixdemo

import (
	"reflect"
	"testing"

	"github.com/elastic/go-structform/gotype"
	"github.com/elastic/go-structform/json"
)

// F28: EnableKeyCache(0) + keys delivered by reference -> nil dereference.
func TestF28(t *testing.T) {
	const doc = `{"a":1,"b":2,"a":3,"c":4}`

	var want map[string]int
	u, err := gotype.NewUnfolder(&want)
	if err != nil {
		t.Fatal(err)
	}
	if err := json.Parse([]byte(doc), u); err != nil {
		t.Fatal(err)
	}

	for _, n := range []int{0, -1, 1, 2, 16} {
		var got map[string]int
		err := guard(t, "cache", func() error {
			u, err := gotype.NewUnfolder(&got)
			if err != nil {
				return err
			}
			u.EnableKeyCache(n)
			if err := json.Parse([]byte(doc), u); err != nil {
				return err
			}
			// second run re-using the cache
			got = nil
			if err := u.SetTarget(&got); err != nil {
				return err
			}
			return json.Parse([]byte(doc), u)
		})
		if err != nil {
			t.Errorf("capacity %d: %v", n, err)
			continue
		}
		if !reflect.DeepEqual(want, got) {
			t.Errorf("capacity %d: want %v, got %v", n, want, got)
		}
	}
}
