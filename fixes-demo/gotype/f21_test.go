package fixdemo

import (
	"testing"

	"github.com/elastic/go-structform/gotype"
)

// F21: array, chan, func (and other unsupported kinds) panic in
// NewUnfolder/SetTarget.
func TestF21(t *testing.T) {
	targets := map[string]interface{}{
		"[3]int":               new([3]int),
		"chan int":             new(chan int),
		"func()":               new(func()),
		"complex128":           new(complex128),
		"uintptr":              new(uintptr),
		"struct{A [3]int}":     new(struct{ A [3]int }),
		"struct{C chan int}":   new(struct{ C chan int }),
		"[][2]int":             new([][2]int),
		"map[string]func()":    new(map[string]func()),
		"*[3]int":              new(*[3]int),
		"struct{F *func()}":    new(struct{ F *func() }),
		"[]struct{A [1]bool}":  new([]struct{ A [1]bool }),
		"map[string]chan bool": new(map[string]chan bool),
	}
	for name, to := range targets {
		err := guard(t, name, func() error {
			_, err := gotype.NewUnfolder(to)
			return err
		})
		if err == nil {
			t.Errorf("%s: NewUnfolder accepted unsupported target", name)
		}

		err = guard(t, name, func() error {
			u, err := gotype.NewUnfolder(nil)
			if err != nil {
				t.Fatal(err)
			}
			return u.SetTarget(to)
		})
		if err == nil {
			t.Errorf("%s: SetTarget accepted unsupported target", name)
		}
	}
}
