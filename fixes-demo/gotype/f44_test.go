package fixdemo

import (
	"bytes"
	"testing"

	structform "github.com/elastic/go-structform"
	"github.com/elastic/go-structform/gotype"
	"github.com/elastic/go-structform/json"
)

type f44Map map[string]int
type f44Ptr struct{ P *int }

func foldF44Map(in *f44Map, v structform.ExtVisitor) error { return v.OnInt(len(*in)) }
func foldF44Ptr(in *f44Ptr, v structform.ExtVisitor) error {
	if in.P == nil {
		return v.OnNil()
	}
	return v.OnInt(*in.P)
}

// F44: a fold function registered for a pointer-shaped type (one pointer word: a map type, a
// struct with a single pointer field) is handed the map / pointer word instead of the address of
// the value when the value is folded from an interface{} (not addressable).
func TestF44(t *testing.T) {
	x := 42
	for _, c := range []struct {
		val  interface{}
		want string
	}{
		{f44Map{"a": 1, "b": 2}, `2`},
		{map[string]interface{}{"k": f44Map{"a": 1}}, `{"k":1}`},
		{f44Ptr{&x}, `42`},
		{[]interface{}{f44Ptr{&x}}, `[42]`},
		{[]f44Ptr{{&x}}, `[42]`},
		{&f44Ptr{&x}, `42`},
	} {
		var buf bytes.Buffer
		it, err := gotype.NewIterator(json.NewVisitor(&buf), gotype.Folders(foldF44Map, foldF44Ptr))
		if err != nil {
			t.Fatal(err)
		}
		func() {
			defer func() {
				if r := recover(); r != nil {
					t.Errorf("%#v: panic: %v", c.val, r)
				}
			}()
			if err := it.Fold(c.val); err != nil {
				t.Errorf("%#v: %v", c.val, err)
			}
		}()
		if buf.String() != c.want {
			t.Errorf("%#v: got %s, want %s", c.val, buf.String(), c.want)
		}
	}
}
