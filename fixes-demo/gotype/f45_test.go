package fixdemo

import (
	"fmt"
	"testing"

	"github.com/elastic/go-structform/gotype"
	"github.com/elastic/go-structform/json"
)

type f45Level int

type f45State struct {
	gotype.BaseUnfoldState
	to *f45Level
}

func (s *f45State) OnString(ctx gotype.UnfoldCtx, name string) error {
	defer ctx.Done()
	switch name {
	case "low":
		*s.to = 1
	case "high":
		*s.to = 3
	default:
		return fmt.Errorf("unknown level %q", name)
	}
	return nil
}

type f45Offset int

func f45Opts() gotype.UnfoldOption {
	return gotype.Unfolders(
		func(to *f45Level) gotype.UnfoldState { return &f45State{to: to} },
		func(to *f45Offset) (interface{}, func(*f45Offset, interface{}) error) {
			cell := new(int)
			return cell, func(to *f45Offset, cell interface{}) error {
				*to = f45Offset(*(cell.(*int)) + 1000)
				return nil
			}
		},
	)
}

// F45: struct field of type []T / map[string]T whose element type has a user unfolder.
func TestF45(t *testing.T) {
	var to struct {
		LL []f45Level
		ML map[string]f45Level
		MO map[string]f45Offset
	}
	u, err := gotype.NewUnfolder(&to, f45Opts())
	if err != nil {
		t.Fatal(err)
	}
	if err := json.ParseString(`{"ll":["low","high"],"ml":{"x":"high"},"mo":{"k":4}}`, u); err != nil {
		t.Fatal(err)
	}
	if got := fmt.Sprint(to); got != "{[1 3] map[x:3] map[k:1004]}" {
		t.Errorf("got %v", got)
	}
}

// F46: slice / map of pointers to a type with a user unfolder.
func TestF46(t *testing.T) {
	var to struct {
		LPL []*f45Level
		MPL map[string]*f45Level
	}
	u, err := gotype.NewUnfolder(&to, f45Opts())
	if err != nil {
		t.Fatal(err)
	}
	func() {
		defer func() {
			if r := recover(); r != nil {
				t.Fatalf("panic: %v", r)
			}
		}()
		if err := json.ParseString(`{"lpl":["low","high"],"mpl":{"x":"high"}}`, u); err != nil {
			t.Fatal(err)
		}
	}()
	if len(to.LPL) != 2 || to.LPL[0] == nil || *to.LPL[0] != 1 || *to.LPL[1] != 3 || to.MPL["x"] == nil || *to.MPL["x"] != 3 {
		t.Errorf("got %v %v", to.LPL, to.MPL)
	}
}
