package fixdemo

import (
	"fmt"
	"math"
	"strconv"
	"strings"
	"testing"
)

// F02: integer literals outside int64 must not wrap.
func TestF02(t *testing.T) {
	exact := []struct{ in, want string }{
		{"0", "i64:0"},
		{"-0", "i64:0"},
		{"1", "i64:1"},
		{"-1", "i64:-1"},
		{"9223372036854775807", "i64:9223372036854775807"},
		{"-9223372036854775808", "i64:-9223372036854775808"},
		{"9223372036854775808", "u64:9223372036854775808"},
		{"18446744073709551615", "u64:18446744073709551615"},
		{"18446744073709551610", "u64:18446744073709551610"},
		{"[9223372036854775808,1]", "[ u64:9223372036854775808 i64:1 ]"},
		{"[18446744073709551615]", "[ u64:18446744073709551615 ]"},
	}
	for _, c := range exact {
		ev, err := parse(t, c.in)
		if err != nil || ev != c.want {
			t.Errorf("%s: got %q err=%v, want %q", c.in, ev, err, c.want)
		}
	}

	// outside [-2^63, 2^64): error or correctly rounded float64
	outside := []string{
		"-9223372036854775809",
		"-18446744073709551615",
		"-18446744073709551616",
		"18446744073709551616",
		"18446744073709551620",
		"99999999999999999999",
		"184467440737095516150",
		"184467440737095516160",
		"27670116110564327424", // 1.5 * 2^64
		"36893488147419103232", // 2^65
		"-99999999999999999999999999",
		"100000000000000000000000000000000000000",
	}
	for _, in := range outside {
		for _, wrap := range []string{"%s", "[%s]", "{\"a\":%s}"} {
			doc := fmt.Sprintf(wrap, in)
			ev, err := parse(t, doc)
			if isPanic(err) {
				t.Errorf("%s: %v", doc, err)
				continue
			}
			if err != nil {
				continue // rejected: ok
			}
			f, _ := strconv.ParseFloat(in, 64)
			want := fmt.Sprintf("f64:%v", f)
			if !strings.Contains(ev, want) || strings.Contains(ev, "i64:") || strings.Contains(ev, "u64:") {
				t.Errorf("%s: got %q, want error or %s", doc, ev, want)
			}
		}
	}

	// sweep around the boundaries
	for d := -20; d <= 20; d++ {
		// around MaxInt64
		var in string
		if d <= 0 {
			in = strconv.FormatInt(math.MaxInt64+int64(d), 10)
			if ev, err := parse(t, in); err != nil || ev != "i64:"+in {
				t.Errorf("%s: got %q err=%v", in, ev, err)
			}
		} else {
			in = strconv.FormatUint(uint64(math.MaxInt64)+uint64(d), 10)
			if ev, err := parse(t, in); err != nil || ev != "u64:"+in {
				t.Errorf("%s: got %q err=%v", in, ev, err)
			}
		}
		// around MaxUint64 (below only; above is covered by 'outside')
		if d <= 0 {
			in = strconv.FormatUint(math.MaxUint64-uint64(-d), 10)
			if ev, err := parse(t, in); err != nil || ev != "u64:"+in {
				t.Errorf("%s: got %q err=%v", in, ev, err)
			}
		}
		// around MinInt64
		if d >= 0 {
			in = strconv.FormatInt(math.MinInt64+int64(d), 10)
			if ev, err := parse(t, in); err != nil || ev != "i64:"+in {
				t.Errorf("%s: got %q err=%v", in, ev, err)
			}
		}
	}
}
