package fixdemo

import (
	stdjson "encoding/json"
	"fmt"
	"strings"
	"testing"
	"testing/iotest"

	sfjson "github.com/elastic/go-structform/json"
)

// F14: escape sequence followed by multi-byte UTF-8 runes.
func TestF14(t *testing.T) {
	// the reported case: backslash-n, raw e-acute, space, x
	{
		in := esc(`"@n`) + "\xc3\xa9 x\""
		ev, err := parse(t, in)
		want := fmt.Sprintf("str:%q", "\n\xc3\xa9 x")
		if err != nil || ev != want {
			t.Errorf("%q: got %s err=%v, want %s", in, ev, err, want)
		}
	}

	escapes := []string{
		`@"`, `@@`, `@/`, `@b`, `@f`, `@n`, `@r`, `@t`,
		`@u0041`, `@u00e9`, `@u20ac`, `@ud83d@ude00`, `@ud800`,
	}
	runes := []string{
		"",
		"x",                // 1 byte
		"\xc3\xa9",         // 2 bytes
		"\xe2\x82\xac",     // 3 bytes
		"\xf0\x9f\x98\x80", // 4 bytes
	}
	prefixes := []string{"", "ab", "\xc3\xa9", strings.Repeat("\xe2\x82\xac", 30)}

	var inputs []string
	for _, pre := range prefixes {
		for _, e1 := range escapes {
			for _, r1 := range runes {
				inputs = append(inputs, `"`+pre+esc(e1)+r1+`"`)
				for _, e2 := range escapes {
					for _, r2 := range runes {
						inputs = append(inputs, `"`+pre+esc(e1)+r1+esc(e2)+r2+`"`)
						inputs = append(inputs, `"`+pre+esc(e1)+r1+r2+esc(e2)+r2+r1+` z"`)
					}
				}
			}
		}
	}

	failed := 0
	check := func(mode, in, ev string, err error, want string) {
		if err != nil || ev != want {
			failed++
			if failed <= 15 {
				t.Errorf("%s %q: got %s err=%v, want %s", mode, in, ev, err, want)
			}
		}
	}

	for _, in := range inputs {
		var std string
		if err := stdjson.Unmarshal([]byte(in), &std); err != nil {
			t.Fatalf("encoding/json rejects %q: %v", in, err)
		}

		// value
		ev, err := parse(t, in)
		check("value", in, ev, err, fmt.Sprintf("str:%q", std))

		// key and value in object, in array
		doc := `{` + in + `:[` + in + `,` + in + `]}`
		ev, err = parse(t, doc)
		check("nested", doc, ev, err, fmt.Sprintf("{ key:%q [ str:%q str:%q ] }", std, std, std))

		// byte wise feeding (string gets collected in the parsers literal buffer)
		r := &rec{}
		func() {
			defer func() {
				if p := recover(); p != nil {
					err = fmt.Errorf("PANIC: %v", p)
				}
			}()
			_, err = sfjson.ParseReader(iotest.OneByteReader(strings.NewReader(doc)), r)
		}()
		check("bytewise", doc, r.String(), err, fmt.Sprintf("{ key:%q [ str:%q str:%q ] }", std, std, std))
	}
	if failed > 0 {
		t.Errorf("%d of %d checks failed", failed, 3*len(inputs))
	}

	// bytes that are no valid UTF-8 pass through untouched
	for _, raw := range []string{"\xff", "\xc3", "\xe2\x82", "\xf0\x9f\x98", "\x80x"} {
		in := esc(`"@t`) + raw + esc(`@n`) + raw + `"`
		want := fmt.Sprintf("str:%q", "\t"+raw+"\n"+raw)
		ev, err := parse(t, in)
		if err != nil || ev != want {
			t.Errorf("%q: got %s err=%v, want %s", in, ev, err, want)
		}
	}
}
