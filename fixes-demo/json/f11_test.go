package fixdemo

import (
	"bytes"
	"errors"
	"fmt"
	"io"
	"strings"
	"testing"
	"testing/iotest"
	"time"

	sfjson "github.com/elastic/go-structform/json"
)

type nextResult struct {
	events string
	err    error
}

// runDecoder calls Next up to max times (stops after the first error) and
// returns the events and result of every call. Fails the test on hang/panic.
func runDecoder(t *testing.T, name string, mk func(r *rec) *sfjson.Decoder, max int) []nextResult {
	t.Helper()
	ch := make(chan []nextResult, 1)
	go func() {
		var res []nextResult
		r := &rec{}
		defer func() {
			if p := recover(); p != nil {
				res = append(res, nextResult{r.String(), fmt.Errorf("PANIC: %v", p)})
				ch <- res
			}
		}()
		dec := mk(r)
		for i := 0; i < max; i++ {
			r.ev = nil
			err := dec.Next()
			res = append(res, nextResult{r.String(), err})
			if err != nil {
				break
			}
		}
		ch <- res
	}()
	select {
	case res := <-ch:
		return res
	case <-time.After(5 * time.Second):
		t.Fatalf("%s: Decoder.Next does not return (timeout)", name)
		return nil
	}
}

type readerMode struct {
	name string
	wrap func(io.Reader) io.Reader
}

var readerModes = []readerMode{
	{"plain", func(r io.Reader) io.Reader { return r }},
	{"onebyte", iotest.OneByteReader},
	{"half", iotest.HalfReader},
	{"dataerr", iotest.DataErrReader},
	{"dataerr-onebyte", func(r io.Reader) io.Reader { return iotest.DataErrReader(iotest.OneByteReader(r)) }},
}

var bufSizes = []int{1, 2, 3, 7, 16, 4096}

type streamCase struct {
	in   string
	want []string // events per value
}

func checkStream(t *testing.T, name string, res []nextResult, want []string) {
	t.Helper()
	for i, w := range want {
		if i >= len(res) {
			t.Errorf("%s: only %d calls to Next, want %d values", name, len(res), len(want))
			return
		}
		if res[i].err != nil || res[i].events != w {
			t.Errorf("%s: Next #%d: got %q err=%v, want %q", name, i+1, res[i].events, res[i].err, w)
			return
		}
	}
	if len(res) != len(want)+1 {
		t.Errorf("%s: %d calls to Next, want %d values + EOF", name, len(res), len(want))
		return
	}
	last := res[len(want)]
	if last.err != io.EOF || last.events != "" {
		t.Errorf("%s: Next #%d: got %q err=%v, want io.EOF", name, len(res), last.events, last.err)
	}
}

// F11: NewDecoder(reader, ...).Next() never returns.
func TestF11(t *testing.T) {
	big := strings.Repeat("abcdefghij", 1000)
	cases := []streamCase{
		{`{"a":1}`, []string{`{ key:"a" i64:1 }`}},
		{`{"a":1} [1,2]  "x" 12 true`, []string{`{ key:"a" i64:1 }`, `[ i64:1 i64:2 ]`, `str:"x"`, `i64:12`, `bool:true`}},
		{"[1,2]\n{\"a\":[true,null]}\n\"x\"\n", []string{`[ i64:1 i64:2 ]`, `{ key:"a" [ bool:true nil ] }`, `str:"x"`}},
		{`{"k":"` + big + `"} [1.5]` + "\n", []string{`{ key:"k" str:"` + big + `" }`, `[ f64:1.5 ]`}},
		{"  \n ", nil},
		{"", nil},
	}

	for ci, c := range cases {
		for _, m := range readerModes {
			for _, sz := range bufSizes {
				name := fmt.Sprintf("case %d/%s/buf=%d", ci, m.name, sz)
				res := runDecoder(t, name, func(r *rec) *sfjson.Decoder {
					return sfjson.NewDecoder(m.wrap(strings.NewReader(c.in)), sz, r)
				}, len(c.want)+2)
				checkStream(t, name, res, c.want)
			}
		}
		name := fmt.Sprintf("case %d/bytes", ci)
		res := runDecoder(t, name, func(r *rec) *sfjson.Decoder {
			return sfjson.NewBytesDecoder([]byte(c.in), r)
		}, len(c.want)+2)
		checkStream(t, name, res, c.want)
	}
}

// flakyReader returns data together with an error once.
type flakyReader struct {
	chunks []string
	errs   []error
}

func (f *flakyReader) Read(p []byte) (int, error) {
	if len(f.chunks) == 0 {
		return 0, io.EOF
	}
	n := copy(p, f.chunks[0])
	f.chunks[0] = f.chunks[0][n:]
	if len(f.chunks[0]) > 0 {
		return n, nil
	}
	err := f.errs[0]
	f.chunks, f.errs = f.chunks[1:], f.errs[1:]
	return n, err
}

// F12j: end of input handling in Decoder.Next.
func TestF12j(t *testing.T) {
	// trailing number directly at the end of input
	complete := []streamCase{
		{`12`, []string{`i64:12`}},
		{`-1.5e3`, []string{`f64:-1500`}},
		{`[1] 12`, []string{`[ i64:1 ]`, `i64:12`}},
		{`true 18446744073709551615`, []string{`bool:true`, `u64:18446744073709551615`}},
		{`1 2 3`, []string{`i64:1`, `i64:2`, `i64:3`}},
		{`"x" null`, []string{`str:"x"`, `nil`}},
	}
	for ci, c := range complete {
		for _, m := range readerModes {
			for _, sz := range bufSizes {
				name := fmt.Sprintf("complete %d/%s/buf=%d", ci, m.name, sz)
				res := runDecoder(t, name, func(r *rec) *sfjson.Decoder {
					return sfjson.NewDecoder(m.wrap(strings.NewReader(c.in)), sz, r)
				}, len(c.want)+2)
				checkStream(t, name, res, c.want)
			}
		}
		name := fmt.Sprintf("complete %d/bytes", ci)
		res := runDecoder(t, name, func(r *rec) *sfjson.Decoder {
			return sfjson.NewBytesDecoder([]byte(c.in), r)
		}, len(c.want)+2)
		checkStream(t, name, res, c.want)
	}

	// io.EOF is returned repeatedly
	{
		r := &rec{}
		decs := map[string]*sfjson.Decoder{
			"bytes":  sfjson.NewBytesDecoder([]byte(`12`), r),
			"reader": sfjson.NewDecoder(strings.NewReader(`12`), 16, r),
		}
		for name, dec := range decs {
			r.ev = nil
			var errs []error
			for i := 0; i < 4; i++ {
				errs = append(errs, dec.Next())
			}
			if errs[0] != nil || errs[1] != io.EOF || errs[2] != io.EOF || errs[3] != io.EOF || r.String() != "i64:12" {
				t.Errorf("%s: repeated Next: errs=%v events=%q", name, errs, r.String())
			}
		}
	}

	// stream ends within a value
	truncated := []string{
		`{"a":`, `{"a":1`, `{"a"`, `{`, `[1,`, `[1`, `[`, `"abc`, `"abc\`, `tru`, `n`, `fals`,
		`[1] {"a":`, `true [`, `1 "x`, `[[1]`, `{"a":{"b":1}`, `{"a":12`, `[12`,
	}
	for _, in := range truncated {
		in = strings.Replace(in, "@", "\\", -1)
		check := func(name string, res []nextResult) {
			last := res[len(res)-1]
			if last.err == nil || last.err == io.EOF || isPanic(last.err) {
				t.Errorf("%s: truncated input %q: last Next returned %v, want error distinct from io.EOF (results %v)", name, in, last.err, res)
			}
		}
		for _, m := range readerModes {
			for _, sz := range []int{1, 3, 4096} {
				name := fmt.Sprintf("%s/buf=%d", m.name, sz)
				check(name, runDecoder(t, name, func(r *rec) *sfjson.Decoder {
					return sfjson.NewDecoder(m.wrap(strings.NewReader(in)), sz, r)
				}, 5))
			}
		}
		check("bytes", runDecoder(t, "bytes", func(r *rec) *sfjson.Decoder {
			return sfjson.NewBytesDecoder([]byte(in), r)
		}, 5))
	}

	// data returned together with an error is processed first, the error is
	// reported afterwards, and is not mistaken for the end of input
	errBoom := errors.New("boom")
	{
		name := "data+err"
		res := runDecoder(t, name, func(r *rec) *sfjson.Decoder {
			fr := &flakyReader{chunks: []string{`[1] [2`, `,3] 4 `}, errs: []error{errBoom, io.EOF}}
			return sfjson.NewDecoder(fr, 64, r)
		}, 3)
		if len(res) != 2 || res[0].err != nil || res[0].events != "[ i64:1 ]" || res[1].err != errBoom {
			t.Errorf("%s: got %v", name, res)
		}
	}
	{
		// reading continues after a temporary read error
		r := &rec{}
		fr := &flakyReader{chunks: []string{`[1] [2`, `,3] 4`}, errs: []error{errBoom, io.EOF}}
		dec := sfjson.NewDecoder(fr, 64, r)
		var got []string
		for i := 0; i < 5; i++ {
			r.ev = nil
			err := dec.Next()
			got = append(got, fmt.Sprintf("%s|%v", r.String(), err))
		}
		want := []string{"[ i64:1 ]|<nil>", "[|boom", "i64:2 i64:3 ]|<nil>", "i64:4|<nil>", "|EOF"}
		if strings.Join(got, ";") != strings.Join(want, ";") {
			t.Errorf("continue after read error:\n got  %q\n want %q", got, want)
		}
	}
	{
		name := "timeout reader"
		res := runDecoder(t, name, func(r *rec) *sfjson.Decoder {
			return sfjson.NewDecoder(iotest.TimeoutReader(bytes.NewReader([]byte(`[1,2,3,4,5,6,7,8]`))), 4, r)
		}, 3)
		if len(res) != 1 || res[0].err != iotest.ErrTimeout {
			t.Errorf("%s: got %v", name, res)
		}
	}
}
