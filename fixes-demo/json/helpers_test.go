package fixdemo

import (
	"fmt"
	"strings"
	"testing"
	"time"

	structform "github.com/elastic/go-structform"
	sfjson "github.com/elastic/go-structform/json"
)

// rec records all events as readable strings.
type rec struct {
	ev []string
}

var _ structform.Visitor = (*rec)(nil)

func (r *rec) add(f string, a ...interface{}) error {
	r.ev = append(r.ev, fmt.Sprintf(f, a...))
	return nil
}

func (r *rec) String() string { return strings.Join(r.ev, " ") }

func (r *rec) OnObjectStart(int, structform.BaseType) error { return r.add("{") }
func (r *rec) OnObjectFinished() error                       { return r.add("}") }
func (r *rec) OnKey(s string) error                          { return r.add("key:%q", s) }
func (r *rec) OnArrayStart(int, structform.BaseType) error  { return r.add("[") }
func (r *rec) OnArrayFinished() error                        { return r.add("]") }
func (r *rec) OnNil() error                                  { return r.add("nil") }
func (r *rec) OnBool(b bool) error                           { return r.add("bool:%v", b) }
func (r *rec) OnString(s string) error                       { return r.add("str:%q", s) }
func (r *rec) OnInt8(i int8) error                           { return r.add("i8:%d", i) }
func (r *rec) OnInt16(i int16) error                         { return r.add("i16:%d", i) }
func (r *rec) OnInt32(i int32) error                         { return r.add("i32:%d", i) }
func (r *rec) OnInt64(i int64) error                         { return r.add("i64:%d", i) }
func (r *rec) OnInt(i int) error                             { return r.add("int:%d", i) }
func (r *rec) OnByte(b byte) error                           { return r.add("byte:%d", b) }
func (r *rec) OnUint8(u uint8) error                         { return r.add("u8:%d", u) }
func (r *rec) OnUint16(u uint16) error                       { return r.add("u16:%d", u) }
func (r *rec) OnUint32(u uint32) error                       { return r.add("u32:%d", u) }
func (r *rec) OnUint64(u uint64) error                       { return r.add("u64:%d", u) }
func (r *rec) OnUint(u uint) error                           { return r.add("uint:%d", u) }
func (r *rec) OnFloat32(f float32) error                     { return r.add("f32:%v", f) }
func (r *rec) OnFloat64(f float64) error                     { return r.add("f64:%v", f) }

// parse runs ParseString with panic capture and a timeout.
func parse(t *testing.T, in string) (events string, err error) {
	t.Helper()
	type result struct {
		ev  string
		err error
	}
	ch := make(chan result, 1)
	go func() {
		r := &rec{}
		defer func() {
			if p := recover(); p != nil {
				ch <- result{r.String(), fmt.Errorf("PANIC: %v", p)}
			}
		}()
		// copy input, the parser works on the bytes in place
		err := sfjson.Parse([]byte(in), r)
		ch <- result{r.String(), err}
	}()
	select {
	case res := <-ch:
		return res.ev, res.err
	case <-time.After(5 * time.Second):
		t.Fatalf("timeout parsing %q", in)
		return "", nil
	}
}

func isPanic(err error) bool {
	return err != nil && strings.HasPrefix(err.Error(), "PANIC")
}
