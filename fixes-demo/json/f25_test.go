package fixdemo

import (
	"errors"
	"fmt"
	"testing"

	structform "github.com/elastic/go-structform"
	sfjson "github.com/elastic/go-structform/json"
)

var errWrite = errors.New("write failed")

// failWriter accepts okWrites writes, all later writes fail.
type failWriter struct {
	okWrites int
	writes   int
	failedAt int // index of the event that saw the first failing write
	event    int
}

func (w *failWriter) Write(p []byte) (int, error) {
	w.writes++
	if w.writes > w.okWrites {
		if w.failedAt < 0 {
			w.failedAt = w.event
		}
		return 0, errWrite
	}
	return len(p), nil
}

type event func(v structform.Visitor) error

// F25: write errors dropped by the json visitor.
func TestF25(t *testing.T) {
	str := func(s string) event { return func(v structform.Visitor) error { return v.OnString(s) } }
	key := func(s string) event { return func(v structform.Visitor) error { return v.OnKey(s) } }
	objStart := func(v structform.Visitor) error { return v.OnObjectStart(-1, structform.AnyType) }
	objEnd := func(v structform.Visitor) error { return v.OnObjectFinished() }
	arrStart := func(v structform.Visitor) error { return v.OnArrayStart(-1, structform.AnyType) }
	arrEnd := func(v structform.Visitor) error { return v.OnArrayFinished() }

	sequences := map[string][]event{
		"string":          {str("hello")},
		"empty string":    {str("")},
		"escaped string":  {str("a\"b\\c\nd\re\tf\x01g<h\xffi j k")},
		"escapes only":    {str("\"\\\n\r\t\x01<\xff  ")},
		"int":             {func(v structform.Visitor) error { return v.OnInt(-5) }},
		"int8":            {func(v structform.Visitor) error { return v.OnInt8(-5) }},
		"int16":           {func(v structform.Visitor) error { return v.OnInt16(-5) }},
		"int32":           {func(v structform.Visitor) error { return v.OnInt32(-5) }},
		"int64":           {func(v structform.Visitor) error { return v.OnInt64(-5) }},
		"uint":            {func(v structform.Visitor) error { return v.OnUint(5) }},
		"uint8":           {func(v structform.Visitor) error { return v.OnUint8(5) }},
		"byte":            {func(v structform.Visitor) error { return v.OnByte(5) }},
		"uint16":          {func(v structform.Visitor) error { return v.OnUint16(5) }},
		"uint32":          {func(v structform.Visitor) error { return v.OnUint32(5) }},
		"uint64":          {func(v structform.Visitor) error { return v.OnUint64(5) }},
		"float32":         {func(v structform.Visitor) error { return v.OnFloat32(1.5) }},
		"float64":         {func(v structform.Visitor) error { return v.OnFloat64(1.5) }},
		"bool":            {func(v structform.Visitor) error { return v.OnBool(true) }},
		"nil":             {func(v structform.Visitor) error { return v.OnNil() }},
		"array of int":    {arrStart, func(v structform.Visitor) error { return v.OnInt(1) }, func(v structform.Visitor) error { return v.OnInt64(2) }, arrEnd},
		"array of string": {arrStart, str("a"), str("b\n"), arrEnd},
		"array mixed": {arrStart, str("a"), func(v structform.Visitor) error { return v.OnNil() },
			func(v structform.Visitor) error { return v.OnBool(false) },
			func(v structform.Visitor) error { return v.OnFloat64(2.5) },
			func(v structform.Visitor) error { return v.OnUint(7) },
			arrStart, arrEnd, objStart, objEnd, arrEnd},
		"object": {objStart, key("a"), func(v structform.Visitor) error { return v.OnInt(1) },
			key("b\n"), str("x"), key("c"), arrStart, str("y"), arrEnd, key("d"), objStart, objEnd, objEnd},
	}

	failed := 0
	errorf := func(f string, a ...interface{}) {
		if failed++; failed <= 20 {
			t.Errorf(f, a...)
		}
	}
	defer func() {
		if failed > 0 {
			t.Errorf("%d checks failed", failed)
		}
	}()

	for name, seq := range sequences {
		for _, radix := range []bool{false, true} {
			// count writes of a successful run
			counter := &failWriter{okWrites: 1 << 30, failedAt: -1}
			vs := sfjson.NewVisitor(counter)
			vs.SetExplicitRadixPoint(radix)
			for i, ev := range seq {
				if err := ev(vs); err != nil {
					t.Fatalf("%s: event %d failed with working writer: %v", name, i, err)
				}
			}
			total := counter.writes
			if total == 0 {
				t.Fatalf("%s: no writes", name)
			}

			for ok := 0; ok < total; ok++ {
				w := &failWriter{okWrites: ok, failedAt: -1}
				vs := sfjson.NewVisitor(w)
				vs.SetExplicitRadixPoint(radix)
				firstErr := -1
				for i, ev := range seq {
					w.event = i
					if err := ev(vs); err != nil {
						firstErr = i
						break
					}
				}
				id := fmt.Sprintf("%s (radix=%v): writer failing from write #%d of %d on", name, radix, ok+1, total)
				if firstErr < 0 {
					errorf("%s: no event reported an error (write failed during event %d of %d)", id, w.failedAt, len(seq))
				} else if firstErr != w.failedAt {
					errorf("%s: error reported by event %d, write failed during event %d", id, firstErr, w.failedAt)
				}
			}
		}
	}
}
