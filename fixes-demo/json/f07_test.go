package fixdemo

import (
	stdjson "encoding/json"
	"fmt"
	"strings"
	"testing"
)

// esc replaces '@' with a backslash. The test tables use '@' so the escape
// sequences in the JSON inputs are unambiguous.
func esc(s string) string { return strings.Replace(s, "@", "\\", -1) }

const rc = "\xef\xbf\xbd" // U+FFFD

// F07: @u escapes at the end of a string / lone surrogates.
func TestF07(t *testing.T) {
	good := []struct{ in, want string }{
		{`"@ud800"`, rc},
		{`"@ud800A"`, rc + "A"},
		{`"@ud800AB"`, rc + "AB"},
		{`"@ud800ABCDEF"`, rc + "ABCDEF"},
		{`"@ud800@n"`, rc + "\n"},
		{`"@ud800@u0041"`, rc + "A"},
		{`"@ud800@u00e9x"`, rc + "\xc3\xa9x"},
		{`"@ud800@ud800"`, rc + rc},
		{`"@udc00"`, rc},
		{`"@udc00A"`, rc + "A"},
		{`"@udc00@ud800"`, rc + rc},
		{`"@ud83d@ude00"`, "\xf0\x9f\x98\x80"},
		{`"@uD83D@uDE00"`, "\xf0\x9f\x98\x80"},
		{`"x@ud83d@ude00y"`, "x\xf0\x9f\x98\x80y"},
		{`"@ud800@ud83d@ude00"`, rc + "\xf0\x9f\x98\x80"},
		{`"@ud83d@ude00@ud800"`, "\xf0\x9f\x98\x80" + rc},
		{`"@ud83d@ud83d@ude00"`, rc + "\xf0\x9f\x98\x80"},
		{`"@ud800@@"`, rc + "\\"},
		{`"@ud800@@u"`, rc + "\\u"},
		{`"@ud800@@ude00"`, rc + "\\ude00"},
		{`"@ud800@"@ude00"`, rc + "\"" + rc},
		{`"@u0041"`, "A"},
		{`"@u00e9"`, "\xc3\xa9"},
		{`"@u20ac"`, "\xe2\x82\xac"},
		{`"@u0000"`, "\x00"},
		{`"@uffff"`, "\xef\xbf\xbf"},
		{`"@uABCD"`, "\xea\xaf\x8d"},
		{`"@uabcd"`, "\xea\xaf\x8d"},
	}
	for _, c := range good {
		in := esc(c.in)
		var std interface{}
		if err := stdjson.Unmarshal([]byte(in), &std); err != nil || std.(string) != c.want {
			t.Fatalf("test table broken for %s: encoding/json says %q, %v", in, std, err)
		}
		for _, wrap := range []string{"%s", "[%s]", "[%s,1]", `{"k":%s}`} {
			doc := fmt.Sprintf(wrap, in)
			ev, err := parse(t, doc)
			want := fmt.Sprintf("str:%q", c.want)
			if err != nil {
				t.Errorf("%s: err=%v (events %q), want %s", doc, err, ev, want)
				continue
			}
			if !strings.Contains(ev, want) {
				t.Errorf("%s: got %q, want %s", doc, ev, want)
			}
		}
	}

	bad := []string{
		`"@u"`,
		`"@u1"`,
		`"@u12"`,
		`"@u123"`,
		`"@u12G4"`,
		`"@uG234"`,
		`"@u123G"`,
		`"@u+123"`,
		`"@u-123"`,
		`"@u 123"`,
		`"@u0x1f"`,
		`"@u1_23"`,
		`"abc@u12"`,
		`"@ud800@u"`,
		`"@ud800@u1"`,
		`"@ud800@ude0"`,
		`"@ud800@ude0G"`,
		`"@ud83d@u+e00"`,
	}
	for _, in := range bad {
		in = esc(in)
		var std interface{}
		if err := stdjson.Unmarshal([]byte(in), &std); err == nil {
			t.Fatalf("test table broken for %s: encoding/json accepts it: %q", in, std)
		}
		for _, wrap := range []string{"%s", "[%s]", "[%s,1]", `{"k":%s}`, `{%s:1}`} {
			doc := fmt.Sprintf(wrap, in)
			ev, err := parse(t, doc)
			if err == nil {
				t.Errorf("%s: accepted, events %q", doc, ev)
			} else if isPanic(err) {
				t.Errorf("%s: %v", doc, err)
			}
		}
	}
}
