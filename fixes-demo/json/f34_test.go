package fixdemo

import (
	"fmt"
	"io"
	"strings"
	"testing"
	"testing/iotest"

	sfjson "github.com/elastic/go-structform/json"
)

// F34: a sign without any digit ("-", "+") was accepted as integer 0.
func TestF34(t *testing.T) {
	bad := []string{`-`, `+`, `[-]`, `[+]`, `[1,-]`, `[-,1]`, `{"a":-}`, `{"a":+,"b":1}`, `- `, "-\n", `true -`, `- 1`, `[- 1]`}
	for _, in := range bad {
		ev, err := parse(t, in)
		if err == nil || isPanic(err) {
			t.Errorf("Parse(%q): err=%v events=%q, want error", in, err, ev)
		}

		r := &rec{}
		_, err = sfjson.ParseReader(iotest.OneByteReader(strings.NewReader(in)), r)
		if err == nil {
			t.Errorf("ParseReader(%q): accepted, events=%q", in, r.String())
		}

		r = &rec{}
		dec := sfjson.NewBytesDecoder([]byte(in), r)
		for i := 0; i < 5 && err == nil; i++ {
			err = dec.Next()
		}
		if err == nil || err == io.EOF {
			t.Errorf("Decoder(%q): err=%v events=%q, want error", in, err, r.String())
		}
	}

	good := []struct{ in, want string }{
		{`-0`, "i64:0"}, {`-1`, "i64:-1"}, {`0`, "i64:0"}, {`[-1,-0, 7]`, "[ i64:-1 i64:0 i64:7 ]"},
		{`{"a":-12}`, `{ key:"a" i64:-12 }`}, {`-1.5`, "f64:-1.5"}, {`-1e2`, "f64:-100"},
	}
	for _, c := range good {
		ev, err := parse(t, c.in)
		if err != nil || ev != c.want {
			t.Errorf("%q: got %q err=%v, want %q", c.in, ev, err, fmt.Sprint(c.want))
		}
	}
}
