package fixdemo

import (
	"encoding/binary"
	"errors"
	"fmt"
	"io"
	"math"
	"reflect"
	"testing"
	"time"

	structform "github.com/elastic/go-structform"
	"github.com/elastic/go-structform/ubjson"
)

// ---------------------------------------------------------------------------
// event log visitor

type logVisitor struct {
	events []string
	failAt int   // fail when the event with this index (0-based) arrives; -1: never
	err    error // error returned at failAt
}

func newLog() *logVisitor { return &logVisitor{failAt: -1} }

func (l *logVisitor) add(format string, args ...interface{}) error {
	idx := len(l.events)
	l.events = append(l.events, fmt.Sprintf(format, args...))
	if idx == l.failAt {
		return l.err
	}
	return nil
}

func (l *logVisitor) OnObjectStart(n int, t structform.BaseType) error {
	return l.add("obj(%d)", n)
}
func (l *logVisitor) OnObjectFinished() error { return l.add("objEnd") }
func (l *logVisitor) OnKey(s string) error    { return l.add("key:%q", s) }
func (l *logVisitor) OnArrayStart(n int, t structform.BaseType) error {
	return l.add("arr(%d,%v)", n, t)
}
func (l *logVisitor) OnArrayFinished() error    { return l.add("arrEnd") }
func (l *logVisitor) OnNil() error              { return l.add("nil") }
func (l *logVisitor) OnBool(b bool) error       { return l.add("bool:%v", b) }
func (l *logVisitor) OnString(s string) error   { return l.add("str:%q", s) }
func (l *logVisitor) OnInt8(i int8) error       { return l.add("i8:%d", i) }
func (l *logVisitor) OnInt16(i int16) error     { return l.add("i16:%d", i) }
func (l *logVisitor) OnInt32(i int32) error     { return l.add("i32:%d", i) }
func (l *logVisitor) OnInt64(i int64) error     { return l.add("i64:%d", i) }
func (l *logVisitor) OnInt(i int) error         { return l.add("int:%d", i) }
func (l *logVisitor) OnByte(b byte) error       { return l.add("byte:%d", b) }
func (l *logVisitor) OnUint8(u uint8) error     { return l.add("u8:%d", u) }
func (l *logVisitor) OnUint16(u uint16) error   { return l.add("u16:%d", u) }
func (l *logVisitor) OnUint32(u uint32) error   { return l.add("u32:%d", u) }
func (l *logVisitor) OnUint64(u uint64) error   { return l.add("u64:%d", u) }
func (l *logVisitor) OnUint(u uint) error       { return l.add("uint:%d", u) }
func (l *logVisitor) OnFloat32(f float32) error { return l.add("f32:%x", math.Float32bits(f)) }
func (l *logVisitor) OnFloat64(f float64) error { return l.add("f64:%x", math.Float64bits(f)) }

var _ structform.Visitor = (*logVisitor)(nil)

// ---------------------------------------------------------------------------
// reference decoder: direct recursive descent over the draft-12 grammar

var errRef = errors.New("ref: invalid")
var errRefShort = errors.New("ref: short")

type refDec struct {
	b      []byte
	events []string
	huge   bool // a container count > 1000 was seen (random tests skip these)
}

func (r *refDec) add(format string, args ...interface{}) {
	r.events = append(r.events, fmt.Sprintf(format, args...))
}

func (r *refDec) take(n int) ([]byte, error) {
	if n < 0 || len(r.b) < n {
		return nil, errRefShort
	}
	t := r.b[:n]
	r.b = r.b[n:]
	return t, nil
}

func (r *refDec) length() (int, error) {
	m, err := r.take(1)
	if err != nil {
		return 0, err
	}
	var L int64
	switch m[0] {
	case 'i':
		t, err := r.take(1)
		if err != nil {
			return 0, err
		}
		L = int64(int8(t[0]))
	case 'U':
		t, err := r.take(1)
		if err != nil {
			return 0, err
		}
		L = int64(t[0])
	case 'I':
		t, err := r.take(2)
		if err != nil {
			return 0, err
		}
		L = int64(int16(binary.BigEndian.Uint16(t)))
	case 'l':
		t, err := r.take(4)
		if err != nil {
			return 0, err
		}
		L = int64(int32(binary.BigEndian.Uint32(t)))
	case 'L':
		t, err := r.take(8)
		if err != nil {
			return 0, err
		}
		L = int64(binary.BigEndian.Uint64(t))
	default:
		return 0, errRef
	}
	if L < 0 {
		return 0, errRef
	}
	if L > 1000 {
		r.huge = true
		if int64(len(r.b)) < L {
			return 0, errRefShort // avoids looping over huge counts of payload-free elements
		}
	}
	return int(L), nil
}

func baseType(m byte) structform.BaseType {
	switch m {
	case 'T', 'F':
		return structform.BoolType
	case 'C':
		return structform.ByteType
	case 'i':
		return structform.Int8Type
	case 'U':
		return structform.Uint8Type
	case 'I':
		return structform.Int16Type
	case 'l':
		return structform.Int32Type
	case 'L':
		return structform.Int64Type
	case 'd':
		return structform.Float32Type
	case 'D':
		return structform.Float64Type
	case 'H', 'S':
		return structform.StringType
	}
	return structform.AnyType
}

func validType(m byte) bool {
	switch m {
	case 'Z', 'T', 'F', 'i', 'U', 'I', 'l', 'L', 'd', 'D', 'C', 'H', 'S', '[', '{':
		return true
	}
	return false
}

// payload parses the payload of a value whose marker m was already consumed
func (r *refDec) payload(m byte) error {
	switch m {
	case 'Z':
		r.add("nil")
	case 'T':
		r.add("bool:true")
	case 'F':
		r.add("bool:false")
	case 'i':
		t, err := r.take(1)
		if err != nil {
			return err
		}
		r.add("i8:%d", int8(t[0]))
	case 'U':
		t, err := r.take(1)
		if err != nil {
			return err
		}
		r.add("u8:%d", t[0])
	case 'C':
		t, err := r.take(1)
		if err != nil {
			return err
		}
		r.add("byte:%d", t[0])
	case 'I':
		t, err := r.take(2)
		if err != nil {
			return err
		}
		r.add("i16:%d", int16(binary.BigEndian.Uint16(t)))
	case 'l':
		t, err := r.take(4)
		if err != nil {
			return err
		}
		r.add("i32:%d", int32(binary.BigEndian.Uint32(t)))
	case 'L':
		t, err := r.take(8)
		if err != nil {
			return err
		}
		r.add("i64:%d", int64(binary.BigEndian.Uint64(t)))
	case 'd':
		t, err := r.take(4)
		if err != nil {
			return err
		}
		r.add("f32:%x", binary.BigEndian.Uint32(t))
	case 'D':
		t, err := r.take(8)
		if err != nil {
			return err
		}
		r.add("f64:%x", binary.BigEndian.Uint64(t))
	case 'H', 'S':
		n, err := r.length()
		if err != nil {
			return err
		}
		t, err := r.take(n)
		if err != nil {
			return err
		}
		r.add("str:%q", string(t))
	case '[':
		return r.array()
	case '{':
		return r.object()
	default:
		return errRef
	}
	return nil
}

func (r *refDec) skipNoops() {
	for len(r.b) > 0 && r.b[0] == 'N' {
		r.b = r.b[1:]
	}
}

func (r *refDec) value() error {
	m, err := r.take(1)
	if err != nil {
		return err
	}
	return r.payload(m[0])
}

func (r *refDec) array() error {
	if len(r.b) == 0 {
		return errRefShort
	}
	switch r.b[0] {
	case '#':
		r.b = r.b[1:]
		n, err := r.length()
		if err != nil {
			return err
		}
		r.add("arr(%d,%v)", n, structform.AnyType)
		for i := 0; i < n; i++ {
			r.skipNoops()
			if err := r.value(); err != nil {
				return err
			}
		}
		r.add("arrEnd")
	case '$':
		r.b = r.b[1:]
		t, err := r.take(1)
		if err != nil {
			return err
		}
		if !validType(t[0]) {
			return errRef
		}
		c, err := r.take(1)
		if err != nil {
			return err
		}
		if c[0] != '#' {
			return errRef
		}
		n, err := r.length()
		if err != nil {
			return err
		}
		r.add("arr(%d,%v)", n, baseType(t[0]))
		for i := 0; i < n; i++ {
			if err := r.payload(t[0]); err != nil {
				return err
			}
		}
		r.add("arrEnd")
	default:
		r.add("arr(-1,%v)", structform.AnyType)
		for {
			r.skipNoops()
			if len(r.b) == 0 {
				return errRefShort
			}
			if r.b[0] == ']' {
				r.b = r.b[1:]
				break
			}
			if err := r.value(); err != nil {
				return err
			}
		}
		r.add("arrEnd")
	}
	return nil
}

func (r *refDec) key() error {
	n, err := r.length()
	if err != nil {
		return err
	}
	t, err := r.take(n)
	if err != nil {
		return err
	}
	r.add("key:%q", string(t))
	return nil
}

func (r *refDec) object() error {
	if len(r.b) == 0 {
		return errRefShort
	}
	switch r.b[0] {
	case '#':
		r.b = r.b[1:]
		n, err := r.length()
		if err != nil {
			return err
		}
		r.add("obj(%d)", n)
		for i := 0; i < n; i++ {
			if err := r.key(); err != nil {
				return err
			}
			r.skipNoops()
			if err := r.value(); err != nil {
				return err
			}
		}
		r.add("objEnd")
	case '$':
		r.b = r.b[1:]
		t, err := r.take(1)
		if err != nil {
			return err
		}
		if !validType(t[0]) {
			return errRef
		}
		c, err := r.take(1)
		if err != nil {
			return err
		}
		if c[0] != '#' {
			return errRef
		}
		n, err := r.length()
		if err != nil {
			return err
		}
		r.add("obj(%d)", n)
		for i := 0; i < n; i++ {
			if err := r.key(); err != nil {
				return err
			}
			if err := r.payload(t[0]); err != nil {
				return err
			}
		}
		r.add("objEnd")
	default:
		r.add("obj(-1)")
		for {
			if len(r.b) == 0 {
				return errRefShort
			}
			if r.b[0] == '}' {
				r.b = r.b[1:]
				break
			}
			if err := r.key(); err != nil {
				return err
			}
			r.skipNoops()
			if err := r.value(); err != nil {
				return err
			}
		}
		r.add("objEnd")
	}
	return nil
}

// refParse decodes a stream (N* Value)* N*. It returns the events, the
// number of events after each complete top-level value, and whether the
// stream is valid.
func refParse(b []byte) (events []string, bounds []int, ok bool) {
	events, bounds, ok, _ = refParseHuge(b)
	return
}

func refParseHuge(b []byte) (events []string, bounds []int, ok, huge bool) {
	r := &refDec{b: b}
	defer func() { huge = r.huge }()
	for {
		r.skipNoops()
		if len(r.b) == 0 {
			return r.events, bounds, true, false
		}
		if err := r.value(); err != nil || r.huge {
			return r.events, bounds, false, false
		}
		bounds = append(bounds, len(r.events))
	}
}

// ---------------------------------------------------------------------------
// running the implementation

// guard runs f in a goroutine and converts panics and hangs into errors.
func guard(t testing.TB, name string, f func() error) (err error, bad bool) {
	t.Helper()
	type res struct {
		err   error
		panic interface{}
	}
	ch := make(chan res, 1)
	go func() {
		var r res
		defer func() {
			r.panic = recover()
			ch <- r
		}()
		r.err = f()
	}()
	select {
	case r := <-ch:
		if r.panic != nil {
			t.Errorf("%s: PANIC: %v", name, r.panic)
			return nil, true
		}
		return r.err, false
	case <-time.After(time.Second):
		t.Errorf("%s: HANG (no result after 1s)", name)
		return nil, true
	}
}

// implParse parses input in one call to Parse
func implParse(t testing.TB, name string, in []byte) (events []string, err error, bad bool) {
	v := newLog()
	err, bad = guard(t, name, func() error { return ubjson.Parse(in, v) })
	return v.events, err, bad
}

type chunkReader struct {
	chunks [][]byte
}

func (c *chunkReader) Read(p []byte) (int, error) {
	if len(c.chunks) == 0 {
		return 0, io.EOF
	}
	n := copy(p, c.chunks[0])
	if n == len(c.chunks[0]) {
		c.chunks = c.chunks[1:]
	} else {
		c.chunks[0] = c.chunks[0][n:]
	}
	return n, nil
}

// implParseChunks feeds the chunks with one Write call each and finishes
// with ParseReader's end-of-input handling (via a reader delivering the
// chunks).
func implParseChunks(t testing.TB, name string, chunks [][]byte) (events []string, err error, bad bool) {
	v := newLog()
	err, bad = guard(t, name, func() error {
		p := ubjson.NewParser(v)
		for _, c := range chunks[:len(chunks)-1] {
			if _, err := p.Write(c); err != nil {
				return err
			}
		}
		// the last chunk goes through Parse, which also finalizes
		return p.Parse(chunks[len(chunks)-1])
	})
	return v.events, err, bad
}

func expectEvents(t testing.TB, name string, got, want []string) {
	t.Helper()
	if len(got) == 0 && len(want) == 0 {
		return
	}
	if !reflect.DeepEqual(got, want) {
		t.Errorf("%s:\n   got  %v\n   want %v", name, got, want)
	}
}

// checkAgainstRef parses in as a whole and compares verdict and events with
// the reference decoder.
func checkAgainstRef(t testing.TB, in []byte) {
	t.Helper()
	name := fmt.Sprintf("%q", in)
	want, _, ok := refParse(in)
	got, err, bad := implParse(t, name, in)
	if bad {
		return
	}
	if ok != (err == nil) {
		t.Errorf("%s: verdict: ref ok=%v, impl err=%v (events %v)", name, ok, err, got)
		return
	}
	if ok {
		expectEvents(t, name, got, want)
	}
}

// checkSplits feeds in with every 2-way split, 1 byte per write, and with
// empty writes in between; verdict and events must equal the reference.
func checkSplits(t testing.TB, in []byte) {
	t.Helper()
	want, _, ok := refParse(in)
	failures := 0 // report at most 3 splits per input; stop at the first hang
	check := func(name string, chunks [][]byte) {
		t.Helper()
		if failures >= 3 {
			return
		}
		got, err, bad := implParseChunks(t, name, chunks)
		switch {
		case bad:
			failures = 3 // hung goroutines keep spinning
		case ok != (err == nil):
			failures++
			t.Errorf("%s: verdict: ref ok=%v, impl err=%v (events %v)", name, ok, err, got)
		case ok && !(len(got) == 0 && len(want) == 0) && !reflect.DeepEqual(got, want):
			failures++
			t.Errorf("%s:\n   got  %v\n   want %v", name, got, want)
		}
	}
	for i := 0; i <= len(in); i++ {
		check(fmt.Sprintf("%q|%q", in[:i], in[i:]), [][]byte{in[:i], in[i:]})
		check(fmt.Sprintf("%q|empty|%q", in[:i], in[i:]), [][]byte{in[:i], {}, nil, in[i:]})
	}
	var single [][]byte
	for i := range in {
		single = append(single, in[i:i+1])
	}
	single = append(single, nil)
	failures = 0
	check(fmt.Sprintf("%q bytewise", in), single)
}
