package fixdemo

import (
	"bytes"
	"fmt"
	"reflect"
	"testing"

	"github.com/elastic/go-structform/gotype"
	"github.com/elastic/go-structform/ubjson"
)

// End to end: Go value -> gotype.Fold -> ubjson encoder -> reference decoder
// (validity) -> ubjson parser / decoder -> gotype unfolder -> equal Go value.
func TestGotypeRoundTrip(t *testing.T) {
	type inner struct {
		A int
		B []bool
	}
	values := []interface{}{
		[]bool{},
		[]bool{true},
		[]bool{true, false},
		[][]bool{{true}, {}, {false, true}},
		map[string]bool{},
		map[string]bool{"a": true},
		map[string]bool{"a": true, "bc": false},
		[]map[string]bool{{"a": true}, {}},
		map[string][]bool{"x": {true}, "y": {}},
		[]interface{}{[]bool{true}, "s", map[string]bool{"k": false}, []int{1, 2}},
		map[string]interface{}{"a": []bool{false}, "b": map[string]bool{"x": true}, "c": "str"},
		[]inner{{1, []bool{true}}, {2, nil}},
		[]uint64{1, 1 << 63},
	}
	for _, v := range values {
		name := fmt.Sprintf("%T %v", v, v)
		var buf bytes.Buffer
		if err := gotype.Fold(v, ubjson.NewVisitor(&buf)); err != nil {
			t.Errorf("%s: fold: %v", name, err)
			continue
		}
		if _, bounds, ok := refParse(buf.Bytes()); !ok || len(bounds) != 1 {
			t.Errorf("%s: encoder output %q is not one valid UBJSON value", name, buf.Bytes())
			continue
		}

		if _, isU64 := v.([]uint64); isU64 {
			continue // high precision numbers arrive as strings (known, F24)
		}

		for _, mode := range []string{"parse", "decoder"} {
			to := reflect.New(reflect.TypeOf(v))
			if to.Elem().Kind() == reflect.Map {
				// a nil map target panics in gotype (F30, not an ubjson defect)
				to.Elem().Set(reflect.MakeMap(to.Elem().Type()))
			}
			u, err := gotype.NewUnfolder(to.Interface())
			if err != nil {
				t.Fatal(err)
			}
			err, bad := guard(t, name, func() error {
				if mode == "parse" {
					return ubjson.Parse(buf.Bytes(), u)
				}
				return ubjson.NewBytesDecoder(buf.Bytes(), u).Next()
			})
			if bad {
				continue
			}
			if err != nil {
				t.Errorf("%s: %s %q: %v", name, mode, buf.Bytes(), err)
				continue
			}
			got := to.Elem().Interface()
			if fmt.Sprint(got) != fmt.Sprint(v) {
				t.Errorf("%s: %s %q: got %v", name, mode, buf.Bytes(), got)
			}
		}
	}
}
