package fixdemo

import (
	"bytes"
	"fmt"
	"math"
	"reflect"
	"strconv"
	"strings"
	"testing"

	structform "github.com/elastic/go-structform"
	"github.com/elastic/go-structform/ubjson"
)

// tree builds a value tree from an event list (as produced by the reference
// decoder): arrays -> []interface{}, objects -> map[string]interface{},
// integers and digit-only strings -> "n:<decimal>".
func tree(events []string) (interface{}, []string, error) {
	if len(events) == 0 {
		return nil, nil, fmt.Errorf("no events")
	}
	e, rest := events[0], events[1:]
	switch {
	case strings.HasPrefix(e, "arr("):
		arr := []interface{}{}
		for {
			if len(rest) == 0 {
				return nil, nil, fmt.Errorf("unterminated array")
			}
			if rest[0] == "arrEnd" {
				return arr, rest[1:], nil
			}
			var v interface{}
			var err error
			v, rest, err = tree(rest)
			if err != nil {
				return nil, nil, err
			}
			arr = append(arr, v)
		}
	case strings.HasPrefix(e, "obj("):
		obj := map[string]interface{}{}
		for {
			if len(rest) == 0 {
				return nil, nil, fmt.Errorf("unterminated object")
			}
			if rest[0] == "objEnd" {
				return obj, rest[1:], nil
			}
			if !strings.HasPrefix(rest[0], "key:") {
				return nil, nil, fmt.Errorf("key expected, got %v", rest[0])
			}
			k, _ := strconv.Unquote(rest[0][4:])
			var v interface{}
			var err error
			v, rest, err = tree(rest[1:])
			if err != nil {
				return nil, nil, err
			}
			obj[k] = v
		}
	case e == "arrEnd" || e == "objEnd" || strings.HasPrefix(e, "key:"):
		return nil, nil, fmt.Errorf("unexpected %v", e)
	case strings.HasPrefix(e, "str:"):
		s, _ := strconv.Unquote(e[4:])
		if _, err := strconv.ParseUint(s, 10, 64); err == nil {
			return "n:" + s, rest, nil
		}
		return "s:" + s, rest, nil
	case strings.HasPrefix(e, "i8:"), strings.HasPrefix(e, "i16:"), strings.HasPrefix(e, "i32:"),
		strings.HasPrefix(e, "i64:"), strings.HasPrefix(e, "u8:"):
		return "n:" + e[strings.Index(e, ":")+1:], rest, nil
	default: // nil, bool, float, byte
		return e, rest, nil
	}
}

// expected value of a Go slice / map / scalar in the same representation
func want(v interface{}) interface{} {
	rv := reflect.ValueOf(v)
	switch rv.Kind() {
	case reflect.Slice:
		arr := []interface{}{}
		for i := 0; i < rv.Len(); i++ {
			arr = append(arr, want(rv.Index(i).Interface()))
		}
		return arr
	case reflect.Map:
		obj := map[string]interface{}{}
		for _, k := range rv.MapKeys() {
			obj[k.String()] = want(rv.MapIndex(k).Interface())
		}
		return obj
	case reflect.Bool:
		return fmt.Sprintf("bool:%v", rv.Bool())
	case reflect.String:
		return "s:" + rv.String()
	case reflect.Int, reflect.Int8, reflect.Int16, reflect.Int32, reflect.Int64:
		return fmt.Sprintf("n:%d", rv.Int())
	case reflect.Uint, reflect.Uint8, reflect.Uint16, reflect.Uint32, reflect.Uint64:
		return fmt.Sprintf("n:%d", rv.Uint())
	case reflect.Float32:
		return fmt.Sprintf("f32:%x", math.Float32bits(float32(rv.Float())))
	case reflect.Float64:
		return fmt.Sprintf("f64:%x", math.Float64bits(rv.Float()))
	}
	panic("unsupported")
}

type extCase struct {
	name  string
	value interface{}
	emit  func(vs *ubjson.Visitor) error
}

func extCases() []extCase {
	var cs []extCase
	add := func(name string, value interface{}, emit func(vs *ubjson.Visitor) error) {
		cs = append(cs, extCase{name, value, emit})
	}

	// arrays: empty, one element, several elements
	for _, n := range []int{0, 1, 3} {
		n := n
		nm := func(s string) string { return fmt.Sprintf("%s/%d", s, n) }

		bools := []bool{true, false, true}[:n]
		add(nm("OnBoolArray"), bools, func(vs *ubjson.Visitor) error { return vs.OnBoolArray(bools) })
		strs := []string{"a", "", "hello"}[:n]
		add(nm("OnStringArray"), strs, func(vs *ubjson.Visitor) error { return vs.OnStringArray(strs) })
		i8 := []int8{-1, 0, 127}[:n]
		add(nm("OnInt8Array"), i8, func(vs *ubjson.Visitor) error { return vs.OnInt8Array(i8) })
		i16 := []int16{-300, 0, math.MaxInt16}[:n]
		add(nm("OnInt16Array"), i16, func(vs *ubjson.Visitor) error { return vs.OnInt16Array(i16) })
		i32 := []int32{-70000, 0, math.MaxInt32}[:n]
		add(nm("OnInt32Array"), i32, func(vs *ubjson.Visitor) error { return vs.OnInt32Array(i32) })
		i64 := []int64{math.MinInt64, 0, math.MaxInt64}[:n]
		add(nm("OnInt64Array"), i64, func(vs *ubjson.Visitor) error { return vs.OnInt64Array(i64) })
		in := []int{-70000, 0, math.MaxInt32}[:n]
		add(nm("OnIntArray"), in, func(vs *ubjson.Visitor) error { return vs.OnIntArray(in) })
		by := []byte{0, 200, 255}[:n]
		add(nm("OnBytes"), by, func(vs *ubjson.Visitor) error { return vs.OnBytes(by) })
		u8 := []uint8{255, 0, 7}[:n]
		add(nm("OnUint8Array"), u8, func(vs *ubjson.Visitor) error { return vs.OnUint8Array(u8) })
		u16 := []uint16{math.MaxUint16, 0, 200}[:n]
		add(nm("OnUint16Array"), u16, func(vs *ubjson.Visitor) error { return vs.OnUint16Array(u16) })
		u32 := []uint32{math.MaxUint32, 0, 200}[:n]
		add(nm("OnUint32Array"), u32, func(vs *ubjson.Visitor) error { return vs.OnUint32Array(u32) })
		u64 := []uint64{math.MaxInt64, 0, 200}[:n]
		add(nm("OnUint64Array"), u64, func(vs *ubjson.Visitor) error { return vs.OnUint64Array(u64) })
		u64h := []uint64{1, math.MaxUint64, 1234567890123456}[:n]
		add(nm("OnUint64Array(highprec)"), u64h, func(vs *ubjson.Visitor) error { return vs.OnUint64Array(u64h) })
		un := []uint{math.MaxUint32, 0, 200}[:n]
		add(nm("OnUintArray"), un, func(vs *ubjson.Visitor) error { return vs.OnUintArray(un) })
		unh := []uint{7, math.MaxUint64, 12}[:n]
		add(nm("OnUintArray(highprec)"), unh, func(vs *ubjson.Visitor) error { return vs.OnUintArray(unh) })
		f32 := []float32{1.5, 0, -3.25}[:n]
		add(nm("OnFloat32Array"), f32, func(vs *ubjson.Visitor) error { return vs.OnFloat32Array(f32) })
		f64 := []float64{1.5, 0, math.Inf(-1)}[:n]
		add(nm("OnFloat64Array"), f64, func(vs *ubjson.Visitor) error { return vs.OnFloat64Array(f64) })
	}

	keys := []string{"a", "", "long key"}
	for _, n := range []int{0, 1, 3} {
		n := n
		nm := func(s string) string { return fmt.Sprintf("%s/%d", s, n) }

		mb := map[string]bool{}
		ms := map[string]string{}
		mi8 := map[string]int8{}
		mi16 := map[string]int16{}
		mi32 := map[string]int32{}
		mi64 := map[string]int64{}
		mi := map[string]int{}
		mu8 := map[string]uint8{}
		mu16 := map[string]uint16{}
		mu32 := map[string]uint32{}
		mu64 := map[string]uint64{}
		mu64h := map[string]uint64{}
		mu := map[string]uint{}
		muh := map[string]uint{}
		mf32 := map[string]float32{}
		mf64 := map[string]float64{}
		for i, k := range keys[:n] {
			mb[k] = i%2 == 0
			ms[k] = []string{"x", "", "hello"}[i]
			mi8[k] = []int8{-1, 0, 127}[i]
			mi16[k] = []int16{-300, 0, math.MaxInt16}[i]
			mi32[k] = []int32{-70000, 0, math.MaxInt32}[i]
			mi64[k] = []int64{math.MinInt64, 0, math.MaxInt64}[i]
			mi[k] = []int{-70000, 0, math.MaxInt32}[i]
			mu8[k] = []uint8{255, 0, 7}[i]
			mu16[k] = []uint16{math.MaxUint16, 0, 200}[i]
			mu32[k] = []uint32{math.MaxUint32, 0, 200}[i]
			mu64[k] = []uint64{math.MaxInt64, 0, 200}[i]
			mu64h[k] = []uint64{math.MaxUint64, 1, 1234567890123456}[i]
			mu[k] = []uint{math.MaxUint32, 0, 200}[i]
			muh[k] = []uint{math.MaxUint64, 7, 12}[i]
			mf32[k] = []float32{1.5, 0, -3.25}[i]
			mf64[k] = []float64{1.5, 0, math.Inf(-1)}[i]
		}
		add(nm("OnBoolObject"), mb, func(vs *ubjson.Visitor) error { return vs.OnBoolObject(mb) })
		add(nm("OnStringObject"), ms, func(vs *ubjson.Visitor) error { return vs.OnStringObject(ms) })
		add(nm("OnInt8Object"), mi8, func(vs *ubjson.Visitor) error { return vs.OnInt8Object(mi8) })
		add(nm("OnInt16Object"), mi16, func(vs *ubjson.Visitor) error { return vs.OnInt16Object(mi16) })
		add(nm("OnInt32Object"), mi32, func(vs *ubjson.Visitor) error { return vs.OnInt32Object(mi32) })
		add(nm("OnInt64Object"), mi64, func(vs *ubjson.Visitor) error { return vs.OnInt64Object(mi64) })
		add(nm("OnIntObject"), mi, func(vs *ubjson.Visitor) error { return vs.OnIntObject(mi) })
		add(nm("OnUint8Object"), mu8, func(vs *ubjson.Visitor) error { return vs.OnUint8Object(mu8) })
		add(nm("OnUint16Object"), mu16, func(vs *ubjson.Visitor) error { return vs.OnUint16Object(mu16) })
		add(nm("OnUint32Object"), mu32, func(vs *ubjson.Visitor) error { return vs.OnUint32Object(mu32) })
		add(nm("OnUint64Object"), mu64, func(vs *ubjson.Visitor) error { return vs.OnUint64Object(mu64) })
		add(nm("OnUint64Object(highprec)"), mu64h, func(vs *ubjson.Visitor) error { return vs.OnUint64Object(mu64h) })
		add(nm("OnUintObject"), mu, func(vs *ubjson.Visitor) error { return vs.OnUintObject(mu) })
		add(nm("OnUintObject(highprec)"), muh, func(vs *ubjson.Visitor) error { return vs.OnUintObject(muh) })
		add(nm("OnFloat32Object"), mf32, func(vs *ubjson.Visitor) error { return vs.OnFloat32Object(mf32) })
		add(nm("OnFloat64Object"), mf64, func(vs *ubjson.Visitor) error { return vs.OnFloat64Object(mf64) })
	}
	return cs
}

func lenStackDepth(vs *ubjson.Visitor) int {
	return reflect.ValueOf(vs).Elem().FieldByName("length").FieldByName("stack").Len()
}

type context struct {
	name string
	wrap func(v interface{}) interface{}
	run  func(vs *ubjson.Visitor, emit func(vs *ubjson.Visitor) error) error
}

func contexts() []context {
	steps := func(fs ...func() error) error {
		for _, f := range fs {
			if err := f(); err != nil {
				return err
			}
		}
		return nil
	}
	return []context{
		{"top level",
			func(v interface{}) interface{} { return v },
			func(vs *ubjson.Visitor, emit func(*ubjson.Visitor) error) error { return emit(vs) }},
		{"in uncounted array",
			func(v interface{}) interface{} { return []interface{}{"n:1", v, v, "n:2"} },
			func(vs *ubjson.Visitor, emit func(*ubjson.Visitor) error) error {
				return steps(
					func() error { return vs.OnArrayStart(-1, structform.AnyType) },
					func() error { return vs.OnInt8(1) },
					func() error { return emit(vs) },
					func() error { return emit(vs) },
					func() error { return vs.OnInt8(2) },
					vs.OnArrayFinished)
			}},
		{"in counted array",
			func(v interface{}) interface{} { return []interface{}{"n:1", v, v, "n:2"} },
			func(vs *ubjson.Visitor, emit func(*ubjson.Visitor) error) error {
				return steps(
					func() error { return vs.OnArrayStart(4, structform.AnyType) },
					func() error { return vs.OnInt8(1) },
					func() error { return emit(vs) },
					func() error { return emit(vs) },
					func() error { return vs.OnInt8(2) },
					vs.OnArrayFinished)
			}},
		{"in uncounted object in uncounted array",
			func(v interface{}) interface{} {
				return []interface{}{map[string]interface{}{"k": v, "l": "n:2"}, "n:3"}
			},
			func(vs *ubjson.Visitor, emit func(*ubjson.Visitor) error) error {
				return steps(
					func() error { return vs.OnArrayStart(-1, structform.AnyType) },
					func() error { return vs.OnObjectStart(-1, structform.AnyType) },
					func() error { return vs.OnKey("k") },
					func() error { return emit(vs) },
					func() error { return vs.OnKey("l") },
					func() error { return vs.OnInt8(2) },
					vs.OnObjectFinished,
					func() error { return vs.OnInt8(3) },
					vs.OnArrayFinished)
			}},
		{"in counted object in counted array",
			func(v interface{}) interface{} {
				return []interface{}{map[string]interface{}{"k": v, "l": "n:2"}, "n:3"}
			},
			func(vs *ubjson.Visitor, emit func(*ubjson.Visitor) error) error {
				return steps(
					func() error { return vs.OnArrayStart(2, structform.AnyType) },
					func() error { return vs.OnObjectStart(2, structform.AnyType) },
					func() error { return vs.OnKey("k") },
					func() error { return emit(vs) },
					func() error { return vs.OnKey("l") },
					func() error { return vs.OnInt8(2) },
					vs.OnObjectFinished,
					func() error { return vs.OnInt8(3) },
					vs.OnArrayFinished)
			}},
	}
}

// F17: every extended (On*Array / On*Object) event must write exactly one
// valid container with the value of its expansion and leave the encoder's
// length stack unchanged.
func TestF17(t *testing.T) { testExtEvents(t, false) }

// F17b: typed uint containers that need the high precision type (a value
// above MaxInt64) must keep the digits of the smaller elements intact.
func TestF17b(t *testing.T) { testExtEvents(t, true) }

func testExtEvents(t *testing.T, highprec bool) {
	for _, c := range extCases() {
		if strings.Contains(c.name, "(highprec)") != highprec {
			continue
		}
		// length stack must be as before the call
		{
			var buf bytes.Buffer
			vs := ubjson.NewVisitor(&buf)
			if err := vs.OnArrayStart(-1, structform.AnyType); err != nil {
				t.Fatal(err)
			}
			before := lenStackDepth(vs)
			if err := c.emit(vs); err != nil {
				t.Errorf("%s: %v", c.name, err)
			}
			if after := lenStackDepth(vs); after != before {
				t.Errorf("%s: encoder length stack depth %d before, %d after the call", c.name, before, after)
			}
		}

		for _, ctx := range contexts() {
			name := c.name + " " + ctx.name
			var buf bytes.Buffer
			vs := ubjson.NewVisitor(&buf)
			if err := ctx.run(vs, c.emit); err != nil {
				t.Errorf("%s: %v", name, err)
				continue
			}
			if d := lenStackDepth(vs); d != 0 {
				t.Errorf("%s: encoder length stack depth %d after a complete document", name, d)
			}
			events, bounds, ok := refParse(buf.Bytes())
			if !ok || len(bounds) != 1 {
				t.Errorf("%s: output %q is not exactly one valid UBJSON value (ok=%v, values=%d)", name, buf.Bytes(), ok, len(bounds))
				continue
			}
			got, rest, err := tree(events)
			if err != nil || len(rest) != 0 {
				t.Errorf("%s: output %q: bad event structure %v (%v)", name, buf.Bytes(), events, err)
				continue
			}
			if w := ctx.wrap(want(c.value)); !reflect.DeepEqual(got, w) {
				t.Errorf("%s: output %q\n  decodes to %v\n  want       %v", name, buf.Bytes(), got, w)
			}
		}
	}
}

// the library's own parser must read what the encoder wrote
func TestExtRoundTrip(t *testing.T) {
	for _, c := range extCases() {
		for _, ctx := range contexts() {
			var buf bytes.Buffer
			vs := ubjson.NewVisitor(&buf)
			if err := ctx.run(vs, c.emit); err != nil {
				continue
			}
			if _, _, ok := refParse(buf.Bytes()); !ok {
				continue // encoder defect, reported by TestF17
			}
			checkAgainstRef(t, buf.Bytes())
		}
	}
}
