module fixdemo

go 1.23

require github.com/elastic/go-structform v0.0.0

replace github.com/elastic/go-structform => /repo
