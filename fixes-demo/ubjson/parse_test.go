package fixdemo

import (
	"errors"
	"fmt"
	"io"
	"reflect"
	"strings"
	"testing"
	"testing/iotest"

	"github.com/elastic/go-structform/ubjson"
)

// F04: object keys of length >= 2 split across writes
func TestF04(t *testing.T) {
	docs := []string{
		"{i\x02abi\x01}",                 // plain object
		"{i\x02abi\x01i\x03xyzSi\x02hi}", // two keys
		"{#i\x01i\x02abi\x01",            // counted object
		"{#i\x02i\x02abi\x01i\x03xyzT",   // counted, two keys
		"{$i#i\x01i\x02ab\x01",           // typed object
		"{$i#i\x02i\x02ab\x01i\x03xyz\x02",
		"[{i\x05helloZ}{I\x00\x03abc[]}]",
		"{i\x00Z}",
		// key length 125 == '}': must not be taken for the end of the object
		// when the length marker and the length arrive separately
		"{i}" + strings.Repeat("k", 125) + "Z}",
		"[{}{U}" + strings.Repeat("k", 125) + "T}]",
	}
	for _, d := range docs {
		checkSplits(t, []byte(d))
	}
}

// F06: a length with a marker that is no integer marker must be rejected
// (the parser looped forever without consuming input)
func TestF06(t *testing.T) {
	for _, d := range []string{
		"[#Si\x01a",
		"SZ",
		"SSi\x01a",
		"HTi\x01",
		"{#Z",
		"{Zi\x01}",
		"[$i#d\x00\x00\x00\x00",
		"{$i#[",
		"{#i\x01Ni\x01aZ",
	} {
		name := fmt.Sprintf("%q", d)
		_, err, bad := implParse(t, name, []byte(d))
		if !bad && err == nil {
			t.Errorf("%s: accepted", name)
		}
		checkSplits(t, []byte(d))
	}
}

// F10: truncated input must be rejected
func TestF10(t *testing.T) {
	bad := []string{
		"I\x01",           // half an int16
		"[i\x01",          // unterminated array
		"Si\x05ab",        // partial string
		"S",               // string without length
		"Si",              // length marker without value
		"SI\x00",          // partial length
		"[",               // array marker only
		"{",               // object marker only
		"{i\x01a",         // key without value
		"{i\x01",          // partial key
		"[[]",             // inner closed, outer not
		"l\x00\x00\x00",   // 3/4 of an int32
		"D\x00",           // partial float
		"C",               // char without payload
		"[#i\x02[#i\x01Z", // outer counted array misses one element
		"{#i\x02i\x01a[#i\x01Z",
		"[#i\x02Z",
		"[$i#i\x02\x01",
		"[$",
		"[$i",
		"[$i#",
		"[#",
		"ZI\x01",
	}
	for _, d := range bad {
		name := fmt.Sprintf("%q", d)
		got, err, hung := implParse(t, name, []byte(d))
		if !hung && err == nil {
			t.Errorf("%s: truncated input accepted (events %v)", name, got)
		}
	}

	good := []string{
		"",
		"N",
		"NNN",
		"Z",
		"ZTF",
		"i\x01I\x00\x02",
		"ZNN",
		"NZNi\x01N",
		"[]{}",
		"[i\x01]N",
		"Si\x02ab",
		"[#i\x01Z]", // counted array [null] followed by ... a stray ']' is an error
	}
	for _, d := range good {
		checkAgainstRef(t, []byte(d))
	}
}

// F13: counted / typed containers ending the input
func TestF13(t *testing.T) {
	docs := []string{
		"[#i\x00",
		"[$Z#i\x03",
		"[$T#i\x02",
		"[$F#i\x01",
		"{#i\x00",
		"[$i#i\x02\x01\x02",
		"[$i#i\x00",
		"{$i#i\x00",
		"{$Z#i\x02i\x01ai\x01b",
		"{$T#i\x01i\x00", // empty key, payload-free value
		"{$i#i\x01i\x01a\x05",
		"{#i\x01i\x01aZ",
		"[#i\x02[#i\x00[#i\x00",
		"[#i\x01[#i\x01[#i\x01Z",
		"[[#i\x00]",
		"[#i\x01[]",
		"{i\x01a[#i\x00}",
		"{#i\x01i\x01a{#i\x00",
		"[$[#i\x02#i\x00#i\x01Z",
		"[$Z#i\x02Z", // two nulls, then a third top-level null
		"[#i\x00[#i\x00",
		"[$Z#i\x00",
		"[${#i\x01$Z#i\x01i\x01k",
	}
	for _, d := range docs {
		checkAgainstRef(t, []byte(d))
		checkSplits(t, []byte(d))
	}

	// pull decoder: exactly one top-level value per Next
	for _, d := range docs {
		checkDecoderBytes(t, []byte(d))
		checkDecoderReader(t, []byte(d))
	}
}

// F15: element type stack of typed arrays
func TestF15(t *testing.T) {
	docs := []string{
		"[$[#i\x02" + "$i#i\x01\x05" + "$i#i\x01\x06",             // typed array of typed arrays
		"[$[#i\x02" + "$i#i\x01\x05" + "$i#i\x01\x06" + "Z",       // ... followed by another value
		"[$[#i\x03" + "$i#i\x00" + "$U#i\x02\x01\x02" + "#i\x01T", // empty typed inner array
		"[${#i\x02" + "$i#i\x01i\x01a\x05" + "$i#i\x01i\x01b\x06", // typed array of typed objects
		"{$[#i\x02" + "i\x01a$i#i\x01\x05" + "i\x01b$i#i\x01\x06", // typed object of typed arrays
		"[$[#i\x02" + "$[#i\x01$i#i\x01\x01" + "$[#i\x01$i#i\x01\x02",
		"[[$i#i\x01\x01" + "i\x07" + "]",
		"[$i#i\x01\x01" + "[$U#i\x01\x02",
		"[$[#i\x02" + "$Z#i\x01" + "$Z#i\x02",
	}
	for _, d := range docs {
		checkAgainstRef(t, []byte(d))
		checkSplits(t, []byte(d))
	}

	// parser reuse: a typed array followed by more documents on the same
	// parser must leave no element type behind
	v := newLog()
	p := ubjson.NewParser(v)
	var all []string
	for _, d := range []string{"[$i#i\x01\x01Z", "[$[#i\x01$U#i\x01\x07Z", "[$[#i\x02$i#i\x01\x05$i#i\x01\x06Z"} {
		w, _, _ := refParse([]byte(d))
		all = append(all, w...)
		err, bad := guard(t, d, func() error { return p.Parse([]byte(d)) })
		if bad {
			return
		}
		if err != nil {
			t.Errorf("reuse %q: %v", d, err)
		}
	}
	expectEvents(t, "parser reuse", v.events, all)

	// after a complete document all parser stacks are back at idle depth
	for _, d := range append(docs, "[#i\x01{#i\x01i\x01a[$i#i\x01\x01", "{$[#i\x01i\x01k$Z#i\x02") {
		p := ubjson.NewParser(newLog())
		err, bad := guard(t, d, func() error { return p.Parse([]byte(d)) })
		if bad || err != nil {
			continue // reported above
		}
		pv := reflect.ValueOf(p).Elem()
		depth := func(field string) int { return pv.FieldByName(field).FieldByName("stack").Len() }
		cur := pv.FieldByName("valueState").FieldByName("current")
		if s, v, l := depth("state"), depth("valueState"), depth("length"); s != 0 || v != 0 || l != 0 ||
			cur.Field(0).Uint() != 0 || cur.Field(1).Uint() != 0 {
			t.Errorf("%q: stacks not idle after the document: state=%d valueState=%d (current {%d %d}) length=%d",
				d, s, v, cur.Field(0).Uint(), cur.Field(1).Uint(), l)
		}
	}
}

// F16: no-op inside a counted array must not consume a count
func TestF16(t *testing.T) {
	docs := []string{
		"[#i\x02Ni\x01i\x02",
		"[#i\x02NNi\x01NNi\x02",
		"[#i\x01NZ",
		"[#i\x02Ni\x01i\x02N",
		"[#i\x02Ni\x01i\x02]", // stray ']' after the complete array
		"[N]",
		"[NZN]",
		"[#i\x01N[#i\x01NZ",
	}
	for _, d := range docs {
		checkAgainstRef(t, []byte(d))
		checkSplits(t, []byte(d))
	}
}

// F27: an error returned by the visitor must be returned by the parser and
// no further event may be delivered.
func TestF27(t *testing.T) {
	docs := []string{
		"Si\x02ab",
		"Si\x00",
		"Hi\x0212",
		"[Si\x02abZ]",
		"[#i\x02Si\x02abZ",
		"[$S#i\x02i\x01ai\x01b",
		"{i\x01aSi\x01bi\x01cZ}",
		"{#i\x02i\x01aSi\x01bi\x01cZ",
		"{$S#i\x02i\x01ai\x01bi\x01ci\x01d",
		"{#i\x00Z",
		"{$i#i\x00Z",
		"[#i\x00Z",
		"[$i#i\x00Z",
		"[[]]",
		"[{}{}]",
		"[$[#i\x02#i\x00#i\x00",
		"[${#i\x02#i\x00#i\x00",
		"[i\x01U\x02I\x00\x03l\x00\x00\x00\x04L\x00\x00\x00\x00\x00\x00\x00\x05d\x00\x00\x00\x00D\x00\x00\x00\x00\x00\x00\x00\x00C\x41TFZ]",
		"{#i\x01i\x01k{#i\x00Z",
	}
	myErr := errors.New("visitor says no")
	for _, d := range docs {
		want, _, ok := refParse([]byte(d))
		if !ok {
			t.Fatalf("bad test input %q", d)
		}
		for k := range want {
			for _, bytewise := range []bool{false, true} {
				v := newLog()
				v.failAt, v.err = k, myErr
				name := fmt.Sprintf("%q fail at event %d (%s) bytewise=%v", d, k, want[k], bytewise)
				err, bad := guard(t, name, func() error {
					if !bytewise {
						return ubjson.Parse([]byte(d), v)
					}
					p := ubjson.NewParser(v)
					for i := range d {
						if _, err := p.Write([]byte(d[i : i+1])); err != nil {
							return err
						}
					}
					return p.Parse(nil)
				})
				if bad {
					continue
				}
				if err != myErr {
					t.Errorf("%s: parser returned %v", name, err)
				}
				if !reflect.DeepEqual(v.events, want[:k+1]) {
					t.Errorf("%s: events delivered %v, want %v", name, v.events, want[:k+1])
				}
			}
		}
	}
}

// ---------------------------------------------------------------------------
// decoder

type nextResult struct {
	events []string
	err    error
}

func runDecoder(t testing.TB, name string, mk func(v *logVisitor) *ubjson.Decoder, max int) ([]nextResult, bool) {
	v := newLog()
	dec := mk(v)
	var res []nextResult
	for i := 0; i < max; i++ {
		start := len(v.events)
		err, bad := guard(t, name, dec.Next)
		if bad {
			return res, true
		}
		res = append(res, nextResult{append([]string(nil), v.events[start:]...), err})
		if err != nil {
			break
		}
	}
	return res, false
}

// checkDecoder: k complete values -> k successful Next calls each delivering
// exactly one value, then io.EOF; an incomplete tail -> error != io.EOF.
func checkDecoder(t testing.TB, name string, in []byte, mk func(v *logVisitor) *ubjson.Decoder) {
	t.Helper()
	want, bounds, ok := refParse(in)
	res, bad := runDecoder(t, name, mk, len(bounds)+2)
	if bad {
		return
	}
	if len(res) != len(bounds)+1 {
		t.Errorf("%s: %d Next calls until error, want %d: %v", name, len(res), len(bounds)+1, res)
		return
	}
	start := 0
	for i, end := range bounds {
		if res[i].err != nil {
			t.Errorf("%s: Next #%d: %v", name, i, res[i].err)
			return
		}
		if !reflect.DeepEqual(res[i].events, want[start:end]) {
			t.Errorf("%s: Next #%d delivered %v, want %v", name, i, res[i].events, want[start:end])
		}
		start = end
	}
	last := res[len(res)-1]
	if ok {
		if last.err != io.EOF {
			t.Errorf("%s: final Next: %v, want io.EOF", name, last.err)
		}
		if len(last.events) != 0 {
			t.Errorf("%s: final Next delivered %v", name, last.events)
		}
	} else if last.err == nil || last.err == io.EOF {
		t.Errorf("%s: invalid/incomplete stream: final Next: %v, want an error other than io.EOF", name, last.err)
	}
}

func checkDecoderBytes(t testing.TB, in []byte) {
	t.Helper()
	checkDecoder(t, fmt.Sprintf("bytes decoder %q", in), in, func(v *logVisitor) *ubjson.Decoder {
		return ubjson.NewBytesDecoder(in, v)
	})
}

type eofWithDataReader struct{ b []byte }

func (r *eofWithDataReader) Read(p []byte) (int, error) {
	n := copy(p, r.b)
	r.b = r.b[n:]
	if len(r.b) == 0 {
		return n, io.EOF
	}
	return n, nil
}

func checkDecoderReader(t testing.TB, in []byte) {
	t.Helper()
	for _, bufsz := range []int{1, 2, 3, 7, 64} {
		checkDecoder(t, fmt.Sprintf("reader decoder buf=%d %q", bufsz, in), in, func(v *logVisitor) *ubjson.Decoder {
			return ubjson.NewDecoder(&chunkReader{chunks: [][]byte{in}}, bufsz, v)
		})
		checkDecoder(t, fmt.Sprintf("reader decoder OneByteReader buf=%d %q", bufsz, in), in, func(v *logVisitor) *ubjson.Decoder {
			return ubjson.NewDecoder(iotest.OneByteReader(&chunkReader{chunks: [][]byte{in}}), bufsz, v)
		})
		checkDecoder(t, fmt.Sprintf("reader decoder DataErrReader buf=%d %q", bufsz, in), in, func(v *logVisitor) *ubjson.Decoder {
			return ubjson.NewDecoder(iotest.DataErrReader(&chunkReader{chunks: [][]byte{in}}), bufsz, v)
		})
		checkDecoder(t, fmt.Sprintf("reader decoder data+EOF buf=%d %q", bufsz, in), in, func(v *logVisitor) *ubjson.Decoder {
			return ubjson.NewDecoder(&eofWithDataReader{in}, bufsz, v)
		})
	}
}

// F12u: Decoder.Next at the end of input
func TestF12u(t *testing.T) {
	docs := []string{
		"",
		"Z",
		"ZTF",
		"i\x01i\x02i\x03",
		"[i\x01]{i\x01aZ}Si\x02ab",
		"NZNNTN",
		"[][]",
		"I\x00\x01I\x00\x02",
		// incomplete tails
		"I\x01",
		"ZI\x01",
		"[i\x01",
		"Si\x05ab",
		"Z[",
		"{i\x01a",
		"i\x01S",
		"[#i\x02Z",
	}
	for _, d := range docs {
		checkDecoderBytes(t, []byte(d))
		checkDecoderReader(t, []byte(d))
	}

	// a reader returning (0, nil) must not crash the decoder
	v := newLog()
	in := []byte("i\x01")
	dec := ubjson.NewDecoder(&zeroThenData{data: in}, 16, v)
	err, bad := guard(t, "zero read", dec.Next)
	if !bad && err != nil {
		t.Errorf("zero read: %v", err)
	}
}

type zeroThenData struct {
	data []byte
	n    int
}

func (z *zeroThenData) Read(p []byte) (int, error) {
	z.n++
	if z.n == 1 {
		return 0, nil
	}
	if len(z.data) == 0 {
		return 0, io.EOF
	}
	n := copy(p, z.data)
	z.data = z.data[n:]
	return n, nil
}

// F08u: hostile lengths must neither panic, hang nor be accepted
func TestF08u(t *testing.T) {
	ff8 := "\xff\xff\xff\xff\xff\xff\xff\xff"
	max8 := "\x7f\xff\xff\xff\xff\xff\xff\xff"
	docs := []string{
		"SL" + ff8,
		"SL" + ff8 + "abc",
		"SL" + max8 + "abc",
		"HL" + max8 + "123",
		"[#l\xff\xff\xff\xff",
		"[#l\xff\xff\xff\xffZ",
		"[#L" + max8 + "Z",
		"[#i\xffZ",
		"[$i#L" + max8 + "\x01",
		"[$i#i\x80",
		"{#L" + ff8,
		"{#L" + max8 + "i\x01aZ",
		"{L" + max8 + "abc",
		"{L" + ff8 + "abc",
		"{$S#L" + max8 + "L" + max8 + "k",
		"SI\x80\x00",
		"Sl\x7f\xff\xff\xffabc",
	}
	for _, d := range docs {
		name := fmt.Sprintf("%q", d)
		got, err, bad := implParse(t, name, []byte(d))
		if !bad && err == nil {
			t.Errorf("%s: accepted (events %v)", name, got)
		}
		checkSplits(t, []byte(d))
	}
}

// Exhaustive small inputs over a marker alphabet: verdict and events must
// match the reference decoder, however the input is split.
func TestExhaustiveSmall(t *testing.T) {
	if testing.Short() {
		t.Skip()
	}
	alphabet := []byte{'Z', 'N', 'T', 'i', 'U', 'I', 'S', 'H', 'C', '[', ']', '{', '}', '#', '$', 0, 1, 2, 'd'}
	var buf []byte
	var rec func(n int)
	count := 0
	rec = func(n int) {
		if t.Failed() && count > 50 {
			return
		}
		checkAgainstRef(t, buf)
		if t.Failed() {
			count++
		}
		if len(buf) <= 5 {
			checkSplits(t, buf)
		}
		if n == 0 {
			return
		}
		for _, c := range alphabet {
			buf = append(buf, c)
			rec(n - 1)
			buf = buf[:len(buf)-1]
		}
	}
	rec(5)
}

// extra: no-op between an object key and its value must not make the key
// lose its value (events: key directly followed by key / object end)
func TestNoopObjectValue(t *testing.T) {
	for _, d := range []string{
		"{i\x01aNZ}",
		"{i\x01aNNi\x01i\x01bNT}",
		"{i\x00N}", // key without value
		"{#i\x01i\x01aNZ",
		"{#i\x02i\x01aNZi\x01bNNF",
		"{#i\x01i\x01aN", // value missing
		"[{#i\x01i\x01aNZ]",
	} {
		checkAgainstRef(t, []byte(d))
		checkSplits(t, []byte(d))
		checkDecoderBytes(t, []byte(d))
	}
}

// extra: no-op as element type of a typed container must not hang the parser
func TestNoopElementType(t *testing.T) {
	for _, d := range []string{
		"[$N#i\x01Z",
		"[$N#i\x00Z",
		"[$N#i\x02",
		"{$N#i\x01i\x01aZ",
		"[$N",
	} {
		name := fmt.Sprintf("%q", d)
		got, err, bad := implParse(t, name, []byte(d))
		if !bad && err == nil {
			t.Errorf("%s: accepted (events %v)", name, got)
		}
		checkSplits(t, []byte(d))
	}
}
