package fixdemo

import (
	"encoding/binary"
	"errors"
	"fmt"
	"math/rand"
	"os"
	"reflect"
	"strconv"
	"testing"

	"github.com/elastic/go-structform/ubjson"
)

type gen struct {
	r *rand.Rand
	b []byte
}

func (g *gen) length(n int) {
	switch g.r.Intn(5) {
	case 0:
		if n < 128 {
			g.b = append(g.b, 'i', byte(n))
			return
		}
		fallthrough
	case 1:
		if n < 256 {
			g.b = append(g.b, 'U', byte(n))
			return
		}
		fallthrough
	case 2:
		g.b = append(g.b, 'I', 0, 0)
		binary.BigEndian.PutUint16(g.b[len(g.b)-2:], uint16(n))
	case 3:
		g.b = append(g.b, 'l', 0, 0, 0, 0)
		binary.BigEndian.PutUint32(g.b[len(g.b)-4:], uint32(n))
	default:
		g.b = append(g.b, 'L', 0, 0, 0, 0, 0, 0, 0, 0)
		binary.BigEndian.PutUint64(g.b[len(g.b)-8:], uint64(n))
	}
}

func (g *gen) bytes(n int) {
	for i := 0; i < n; i++ {
		const alphabet = "abN[]{}#$ZTFiUSH\x00\x01\x7d"
		g.b = append(g.b, alphabet[g.r.Intn(len(alphabet))])
	}
}

func (g *gen) noops() {
	for g.r.Intn(4) == 0 {
		g.b = append(g.b, 'N')
	}
}

var markers = []byte("ZTFiUIlLdDCHS[{")

func (g *gen) value(depth int) {
	m := markers[g.r.Intn(len(markers))]
	if depth <= 0 && (m == '[' || m == '{') {
		m = 'Z'
	}
	g.b = append(g.b, m)
	g.payload(m, depth)
}

func (g *gen) payload(m byte, depth int) {
	switch m {
	case 'Z', 'T', 'F':
	case 'i', 'U', 'C':
		g.bytes(1)
	case 'I':
		g.bytes(2)
	case 'l', 'd':
		g.bytes(4)
	case 'L', 'D':
		g.bytes(8)
	case 'H', 'S':
		n := g.r.Intn(4)
		if g.r.Intn(10) == 0 {
			n = 60 + g.r.Intn(80) // longer than the parser's inline buffer
		}
		g.length(n)
		g.bytes(n)
	case '[':
		g.array(depth - 1)
	case '{':
		g.object(depth - 1)
	}
}

func (g *gen) elemType(depth int) byte {
	m := markers[g.r.Intn(len(markers))]
	if depth <= 0 && (m == '[' || m == '{') {
		m = 'T'
	}
	return m
}

func (g *gen) array(depth int) {
	n := g.r.Intn(4)
	switch g.r.Intn(3) {
	case 0:
		for i := 0; i < n; i++ {
			g.noops()
			g.value(depth)
		}
		g.noops()
		g.b = append(g.b, ']')
	case 1:
		g.b = append(g.b, '#')
		g.length(n)
		for i := 0; i < n; i++ {
			g.noops()
			g.value(depth)
		}
	default:
		t := g.elemType(depth)
		g.b = append(g.b, '$', t, '#')
		g.length(n)
		for i := 0; i < n; i++ {
			g.payload(t, depth)
		}
	}
}

func (g *gen) key() {
	n := g.r.Intn(4)
	if g.r.Intn(10) == 0 {
		n = 125 // '}'
	}
	g.length(n)
	g.bytes(n)
}

func (g *gen) object(depth int) {
	n := g.r.Intn(4)
	switch g.r.Intn(3) {
	case 0:
		for i := 0; i < n; i++ {
			g.key()
			g.noops()
			g.value(depth)
		}
		g.b = append(g.b, '}')
	case 1:
		g.b = append(g.b, '#')
		g.length(n)
		for i := 0; i < n; i++ {
			g.key()
			g.noops()
			g.value(depth)
		}
	default:
		t := g.elemType(depth)
		g.b = append(g.b, '$', t, '#')
		g.length(n)
		for i := 0; i < n; i++ {
			g.key()
			g.payload(t, depth)
		}
	}
}

func (g *gen) stream() []byte {
	g.b = nil
	for k := g.r.Intn(3); k >= 0; k-- {
		g.noops()
		g.value(3)
	}
	g.noops()
	return g.b
}

// Random valid documents and mutations of them: verdict and events of
// Parse, of every split, and of the pull decoders must match the reference.
func TestRandomDocs(t *testing.T) {
	g := &gen{r: rand.New(rand.NewSource(randSeed))}
	n := randDocs
	if testing.Short() {
		n = 2000
	}
	valid, invalid := 0, 0
	for i := 0; i < n && !t.Failed(); i++ {
		doc := g.stream()
		switch g.r.Intn(4) {
		case 0: // truncate
			doc = doc[:g.r.Intn(len(doc)+1)]
		case 1: // change one byte
			doc = append([]byte(nil), doc...)
			const alphabet = "abN[]{}#$ZTFiUSHL\x00\x01\xff"
			doc[g.r.Intn(len(doc))] = alphabet[g.r.Intn(len(alphabet))]
		}
		_, _, ok, huge := refParseHuge(doc)
		if huge {
			continue
		}
		if ok {
			valid++
		} else {
			invalid++
		}
		checkAgainstRef(t, doc)
		if len(doc) <= 200 {
			checkSplits(t, doc)
		}
		checkDecoderBytes(t, doc)
		if want, _, _ := refParse(doc); ok && len(want) > 0 {
			// visitor error at a random event: same error returned, no further event
			checkVisitorError(t, doc, want, g.r.Intn(len(want)), g.r.Intn(2) == 0)
		}
		if i%10 == 0 {
			checkDecoderReader(t, doc)
		}
	}
	t.Logf("%d valid, %d invalid streams", valid, invalid)
}

var (
	randSeed = int64(1)
	randDocs = 20000
)

func init() {
	if s := os.Getenv("FIXDEMO_SEED"); s != "" {
		randSeed, _ = strconv.ParseInt(s, 10, 64)
	}
	if s := os.Getenv("FIXDEMO_DOCS"); s != "" {
		randDocs, _ = strconv.Atoi(s)
	}
}

var errVisitor = errors.New("visitor says no")

func checkVisitorError(t testing.TB, doc []byte, want []string, k int, bytewise bool) {
	t.Helper()
	v := newLog()
	v.failAt, v.err = k, errVisitor
	name := fmt.Sprintf("%q fail at event %d bytewise=%v", doc, k, bytewise)
	err, bad := guard(t, name, func() error {
		if !bytewise {
			return ubjson.Parse(doc, v)
		}
		p := ubjson.NewParser(v)
		for i := range doc {
			if _, err := p.Write(doc[i : i+1]); err != nil {
				return err
			}
		}
		return p.Parse(nil)
	})
	if bad {
		return
	}
	if err != errVisitor {
		t.Errorf("%s: parser returned %v", name, err)
	}
	if !reflect.DeepEqual(v.events, want[:k+1]) {
		t.Errorf("%s: events delivered %v, want %v", name, v.events, want[:k+1])
	}
}
