package fixdemo

import (
	"bytes"
	"io"
	"strings"
	"testing"
	"testing/iotest"

	"github.com/elastic/go-structform/cborl"
)

// F01: negative integers whose argument has the top bit set.
func TestF01(t *testing.T) {
	ff := func(n int) []byte { return bytes.Repeat([]byte{0xff}, n) }
	cases := []struct {
		name string
		in   []byte
		want string // "" = must be refused with an error
	}{
		{"-24", []byte{0x37}, "int8(-24)"},
		{"-25", []byte{0x38, 0x18}, "int8(-25)"},
		{"-128", []byte{0x38, 0x7f}, "int8(-128)"},
		{"-129", []byte{0x38, 0x80}, "int16(-129)"},
		{"-200", []byte{0x38, 0xc7}, "int16(-200)"},
		{"-256", []byte{0x38, 0xff}, "int16(-256)"},
		{"-32768", []byte{0x39, 0x7f, 0xff}, "int16(-32768)"},
		{"-32769", []byte{0x39, 0x80, 0x00}, "int32(-32769)"},
		{"-65536", append([]byte{0x39}, ff(2)...), "int32(-65536)"},
		{"-2^31", []byte{0x3a, 0x7f, 0xff, 0xff, 0xff}, "int32(-2147483648)"},
		{"-2^31-1", []byte{0x3a, 0x80, 0x00, 0x00, 0x00}, "int64(-2147483649)"},
		{"-2^32", append([]byte{0x3a}, ff(4)...), "int64(-4294967296)"},
		{"-2^63", append([]byte{0x3b, 0x7f}, ff(7)...), "int64(-9223372036854775808)"},
		{"-2^63-1", []byte{0x3b, 0x80, 0, 0, 0, 0, 0, 0, 0}, ""},
		{"-2^64", append([]byte{0x3b}, ff(8)...), ""},
	}
	for _, c := range cases {
		var r rec
		err := cborl.Parse(c.in, &r)
		if c.want == "" {
			if err == nil {
				t.Errorf("%s (% x): want error, got events %q", c.name, c.in, r.String())
			}
			continue
		}
		if err != nil || r.String() != c.want {
			t.Errorf("%s (% x): got %q, err=%v; want %q", c.name, c.in, r.String(), err, c.want)
		}
	}

	// what the library's own encoder writes must come back unchanged
	var buf bytes.Buffer
	if err := cborl.NewVisitor(&buf).OnInt16(-200); err != nil {
		t.Fatal(err)
	}
	var r rec
	if err := cborl.Parse(buf.Bytes(), &r); err != nil || r.String() != "int16(-200)" {
		t.Errorf("encode OnInt16(-200) = % x, parsed back as %q, err=%v", buf.Bytes(), r.String(), err)
	}
}

// F03: the empty text key.
func TestF03(t *testing.T) {
	const want = `{1 key("") uint8(1) }`

	var r rec
	if err := cborl.Parse([]byte{0xa1, 0x60, 0x01}, &r); err != nil || r.String() != want {
		t.Errorf(`a1 60 01: got %q, err=%v; want %q`, r.String(), err, want)
	}

	// same document, one byte per Write
	r.reset()
	p := cborl.NewParser(&r)
	for _, b := range []byte{0xa1, 0x60, 0x01} {
		if _, err := p.Write([]byte{b}); err != nil {
			t.Errorf("bytewise: %v", err)
			break
		}
	}
	if r.String() != want {
		t.Errorf("bytewise: got %q; want %q", r.String(), want)
	}

	// empty key with explicit 1-byte length, in an indefinite-length map, followed by another key
	r.reset()
	in := []byte{0xbf, 0x78, 0x00, 0x01, 0x61, 'a', 0x02, 0xff}
	want2 := `{-1 key("") uint8(1) key("a") uint8(2) }`
	if err := cborl.Parse(in, &r); err != nil || r.String() != want2 {
		t.Errorf("% x: got %q, err=%v; want %q", in, r.String(), err, want2)
	}

	// encoder output round trip
	var buf bytes.Buffer
	vs := cborl.NewVisitor(&buf)
	vs.OnObjectStart(1, 0)
	vs.OnKey("")
	vs.OnBool(true)
	vs.OnObjectFinished()
	r.reset()
	if err := cborl.Parse(buf.Bytes(), &r); err != nil || r.String() != `{1 key("") bool(true) }` {
		t.Errorf("round trip % x: got %q, err=%v", buf.Bytes(), r.String(), err)
	}
}

// F05: unsupported items are refused with an error; no panic, no endless loop.
func TestF05(t *testing.T) {
	cases := map[string][]byte{
		"tag 0":                 {0xc0, 0x01},
		"tag 1-byte":            {0xd8, 0x20, 0x01},
		"tag 8-byte":            {0xdb, 0, 0, 0, 0, 0, 0, 0, 1, 0x01},
		"half float":            {0xf9, 0x3c, 0x00},
		"indef bytes":           {0x5f, 0x41, 0x00, 0xff},
		"indef text":            {0x7f, 0x61, 'a', 0xff},
		"uint ai 28":            {0x1c, 0x00},
		"uint ai 30":            {0x1e, 0x00},
		"uint ai 31":            {0x1f, 0x00},
		"neg ai 29":             {0x3d, 0x00},
		"neg ai 31":             {0x3f, 0x00},
		"bytes ai 28":           {0x5c, 0x00},
		"text ai 30":            {0x7e, 0x00},
		"array ai 29":           {0x9d, 0x00},
		"map ai 28":             {0xbc, 0x00},
		"key ai 28":             {0xa1, 0x7c, 0x00, 0x01},
		"key indef":             {0xa1, 0x7f, 0x61, 'a', 0xff, 0x01},
		"simple 0":              {0xe0},
		"simple 1-byte":         {0xf8, 0x20},
		"other ai 28":           {0xfc},
		"break at top level":    {0xff},
		"tag in array":          {0x81, 0xc0, 0x01},
		"half float in map":     {0xa1, 0x61, 'a', 0xf9, 0, 0},
		"tag in indef array":    {0x9f, 0xc1, 0x01, 0xff},
		"uint ai 28 in 2 feeds": {0x1c},
	}
	for name, in := range cases {
		in := in
		mustRefuse(t, name, func() error {
			var r rec
			p := cborl.NewParser(&r)
			if _, err := p.Write(in); err != nil {
				return err
			}
			_, err := p.Write([]byte{0x00}) // must not hang on the next chunk either
			return err
		})
		mustRefuse(t, name+" (decoder)", func() error {
			var r rec
			return cborl.NewBytesDecoder(append(in, 0x00), &r).Next()
		})
	}
}

// F08: announced lengths that do not fit in a non-negative int.
func TestF08(t *testing.T) {
	huge := []byte{0xff, 0xff, 0xff, 0xff, 0xff, 0xff, 0xff, 0xff}
	top := []byte{0x80, 0, 0, 0, 0, 0, 0, 0}
	for name, head := range map[string]byte{
		"bytes": 0x5b, "text": 0x7b, "array": 0x9b, "map": 0xbb,
	} {
		for _, l := range [][]byte{huge, top} {
			in := append(append([]byte{head}, l...), 'a', 'b')
			mustRefuse(t, name, func() error {
				var r rec
				return cborl.Parse(in, &r)
			})
			mustRefuse(t, name+" bytewise", func() error {
				var r rec
				p := cborl.NewParser(&r)
				for _, b := range in {
					if _, err := p.Write([]byte{b}); err != nil {
						return err
					}
				}
				return nil
			})
		}
	}
	mustRefuse(t, "key", func() error {
		var r rec
		return cborl.Parse(append(append([]byte{0xa1, 0x7b}, huge...), 'a', 1), &r)
	})

	// a large but representable announced length must not allocate up front
	in := append([]byte{0x7b, 0, 0, 0, 0, 0x40, 0, 0, 0}, "abc"...) // 2^30 bytes announced
	allocs := testing.AllocsPerRun(5, func() {
		var r rec
		p := cborl.NewParser(&r)
		if _, err := p.Write(in); err != nil {
			t.Errorf("large announced length: %v", err)
		}
		if len(r.ev) != 0 {
			t.Errorf("large announced length: unexpected events %q", r.String())
		}
	})
	if allocs > 8 {
		t.Errorf("large announced length: %v allocations", allocs)
	}
}

// F09: truncated input must be reported by Parse, ParseString and ParseReader.
func TestF09(t *testing.T) {
	truncated := map[string][]byte{
		"uint16 arg":       {0x19, 0x01},
		"uint8 arg":        {0x18},
		"neg arg":          {0x3a, 0x01, 0x02},
		"float32":          {0xfa, 0x00},
		"float64":          {0xfb, 1, 2, 3, 4, 5, 6, 7},
		"array short":      {0x82, 0x01},
		"array no elems":   {0x81},
		"array len":        {0x99, 0x00},
		"indef array":      {0x9f, 0x01},
		"indef array bare": {0x9f},
		"map missing val":  {0xa1, 0x61, 'a'},
		"map missing key":  {0xa1},
		"map partial key":  {0xa1, 0x62, 'a'},
		"indef map":        {0xbf, 0x61, 'a', 0x01},
		"text short":       {0x63, 'a', 'b'},
		"text no body":     {0x63},
		"text len":         {0x79, 0x00},
		"bytes short":      {0x42, 0x01},
		"second item":      {0x01, 0x82, 0x01},
	}
	for name, in := range truncated {
		var r rec
		if err := cborl.Parse(in, &r); err == nil {
			t.Errorf("Parse %s (% x): accepted, events %q", name, in, r.String())
		}
		if err := cborl.ParseString(string(in), &r); err == nil {
			t.Errorf("ParseString %s (% x): accepted", name, in)
		}
		if _, err := cborl.ParseReader(bytes.NewReader(in), &r); err == nil {
			t.Errorf("ParseReader %s (% x): accepted", name, in)
		}
		if _, err := cborl.ParseReader(iotest.OneByteReader(bytes.NewReader(in)), &r); err == nil {
			t.Errorf("ParseReader/1 %s (% x): accepted", name, in)
		}
	}

	complete := map[string]struct {
		in   []byte
		want string
	}{
		"empty":       {nil, ""},
		"one":         {[]byte{0x01}, "uint8(1)"},
		"three items": {[]byte{0x01, 0x82, 0x01, 0x02, 0x61, 'a'}, `uint8(1) [2 uint8(1) uint8(2) ] str("a")`},
		"empty array": {[]byte{0x80}, "[0 ]"},
		"empty map":   {[]byte{0xa0}, "{0 }"},
		"empty text":  {[]byte{0x60}, `str("")`},
		"empty bytes": {[]byte{0x40}, "[0 ]"},
		"text len8 0": {[]byte{0x78, 0x00}, `str("")`},
		"arr len8 0":  {[]byte{0x98, 0x00}, "[0 ]"},
		"map len8 0":  {[]byte{0xb8, 0x00}, "{0 }"},
		"nested":      {[]byte{0x81, 0x80}, "[1 [0 ] ]"},
		"indef":       {[]byte{0x9f, 0xbf, 0xff, 0xff}, "[-1 {-1 } ]"},
		"uint16":      {[]byte{0x19, 0x01, 0x00}, "uint16(256)"},
	}
	for name, c := range complete {
		var r rec
		if err := cborl.Parse(c.in, &r); err != nil || r.String() != c.want {
			t.Errorf("Parse %s: got %q, err=%v; want %q", name, r.String(), err, c.want)
		}
		r.reset()
		if err := cborl.ParseString(string(c.in), &r); err != nil || r.String() != c.want {
			t.Errorf("ParseString %s: got %q, err=%v; want %q", name, r.String(), err, c.want)
		}
		r.reset()
		n, err := cborl.ParseReader(iotest.OneByteReader(bytes.NewReader(c.in)), &r)
		if err != nil || r.String() != c.want || n != int64(len(c.in)) {
			t.Errorf("ParseReader/1 %s: got %q, n=%d, err=%v; want %q", name, r.String(), n, err, c.want)
		}
	}
}

// allAtOnceEOF returns the whole data together with io.EOF in one Read.
type allAtOnceEOF struct{ data []byte }

func (r *allAtOnceEOF) Read(p []byte) (int, error) {
	if len(r.data) == 0 {
		return 0, io.EOF
	}
	n := copy(p, r.data)
	r.data = r.data[n:]
	if len(r.data) == 0 {
		return n, io.EOF
	}
	return n, nil
}

// F12: Decoder.Next at the end of the input.
func TestF12(t *testing.T) {
	items := []byte{
		0x01,
		0x82, 0x01, 0x19, 0x01, 0x00,
		0xa1, 0x61, 'a', 0x63, 'x', 'y', 'z',
		0x80,
		0x78, 0x00,
		0x9f, 0x01, 0xff,
	}
	want := []string{
		"uint8(1)",
		"[2 uint8(1) uint16(256) ]",
		`{1 key("a") str("xyz") }`,
		"[0 ]",
		`str("")`,
		"[-1 uint8(1) ]",
	}

	mk := map[string]func(b []byte, r *rec) *cborl.Decoder{
		"bytes":       func(b []byte, r *rec) *cborl.Decoder { return cborl.NewBytesDecoder(b, r) },
		"plain":       func(b []byte, r *rec) *cborl.Decoder { return cborl.NewDecoder(bytes.NewReader(b), 64, r) },
		"small buf":   func(b []byte, r *rec) *cborl.Decoder { return cborl.NewDecoder(bytes.NewReader(b), 3, r) },
		"one byte":    func(b []byte, r *rec) *cborl.Decoder { return cborl.NewDecoder(iotest.OneByteReader(bytes.NewReader(b)), 64, r) },
		"all+EOF":     func(b []byte, r *rec) *cborl.Decoder { return cborl.NewDecoder(&allAtOnceEOF{b}, 64, r) },
		"DataErr":     func(b []byte, r *rec) *cborl.Decoder { return cborl.NewDecoder(iotest.DataErrReader(bytes.NewReader(b)), 64, r) },
		"DataErr/1":   func(b []byte, r *rec) *cborl.Decoder { return cborl.NewDecoder(iotest.DataErrReader(iotest.OneByteReader(bytes.NewReader(b))), 64, r) },
		"zero reads":  func(b []byte, r *rec) *cborl.Decoder { return cborl.NewDecoder(&zeroReads{in: bytes.NewReader(b)}, 64, r) },
		"zero reads1": func(b []byte, r *rec) *cborl.Decoder { return cborl.NewDecoder(&zeroReads{in: iotest.OneByteReader(bytes.NewReader(b))}, 64, r) },
	}

	for name, newDec := range mk {
		// complete stream: one item per Next, then io.EOF (repeatedly)
		_, trouble := guard(func() error {
			var r rec
			dec := newDec(append([]byte(nil), items...), &r)
			for i, w := range want {
				r.reset()
				if err := dec.Next(); err != nil || r.String() != w {
					t.Errorf("%s: item %d: got %q, err=%v; want %q", name, i, r.String(), err, w)
					return nil
				}
			}
			for i := 0; i < 2; i++ {
				r.reset()
				if err := dec.Next(); err != io.EOF || len(r.ev) != 0 {
					t.Errorf("%s: after last item: err=%v, events %q; want io.EOF", name, err, r.String())
				}
			}
			return nil
		})
		if trouble != "" {
			t.Errorf("%s: %s", name, trouble)
		}

		// empty stream
		var r rec
		if err := newDec(nil, &r).Next(); err != io.EOF {
			t.Errorf("%s: empty input: err=%v; want io.EOF", name, err)
		}

		// stream ending inside an item
		for _, cut := range [][]byte{
			{0x01, 0x19, 0x01},
			{0x01, 0x82, 0x01},
			{0x01, 0xa1, 0x61, 'a'},
			{0x01, 0x63, 'a'},
			{0x01, 0x9f},
			{0x01, 0x81},
		} {
			_, trouble := guard(func() error {
				var r rec
				dec := newDec(cut, &r)
				if err := dec.Next(); err != nil || r.String() != "uint8(1)" {
					t.Errorf("%s: % x: first item: got %q, err=%v", name, cut, r.String(), err)
					return nil
				}
				if err := dec.Next(); err == nil || err == io.EOF {
					t.Errorf("%s: % x: truncated item: err=%v; want an error other than io.EOF", name, cut, err)
				}
				return nil
			})
			if trouble != "" {
				t.Errorf("%s: % x: %s", name, cut, trouble)
			}
		}
	}

	// a read error that is not io.EOF is passed on
	var r rec
	dec := cborl.NewDecoder(iotest.TimeoutReader(bytes.NewReader([]byte{0x01, 0x02})), 1, &r)
	if err := dec.Next(); err != nil || r.String() != "uint8(1)" {
		t.Errorf("timeout reader: first: %q, %v", r.String(), err)
	}
	if err := dec.Next(); err != iotest.ErrTimeout {
		t.Errorf("timeout reader: second: err=%v; want %v", err, iotest.ErrTimeout)
	}
}

// zeroReads returns (0, nil) before every real read.
type zeroReads struct {
	in   io.Reader
	flip bool
}

func (z *zeroReads) Read(p []byte) (int, error) {
	z.flip = !z.flip
	if z.flip {
		return 0, nil
	}
	return z.in.Read(p)
}

// F26: a failing writer must surface in the typed-array encoders.
func TestF26(t *testing.T) {
	calls := map[string]func(vs *cborl.Visitor) error{
		"OnBoolArray":    func(vs *cborl.Visitor) error { return vs.OnBoolArray(nil) },
		"OnStringArray":  func(vs *cborl.Visitor) error { return vs.OnStringArray(nil) },
		"OnInt8Array":    func(vs *cborl.Visitor) error { return vs.OnInt8Array(nil) },
		"OnInt16Array":   func(vs *cborl.Visitor) error { return vs.OnInt16Array(nil) },
		"OnInt32Array":   func(vs *cborl.Visitor) error { return vs.OnInt32Array(nil) },
		"OnInt64Array":   func(vs *cborl.Visitor) error { return vs.OnInt64Array(nil) },
		"OnIntArray":     func(vs *cborl.Visitor) error { return vs.OnIntArray(nil) },
		"OnBytes":        func(vs *cborl.Visitor) error { return vs.OnBytes(nil) },
		"OnUint8Array":   func(vs *cborl.Visitor) error { return vs.OnUint8Array(nil) },
		"OnUint16Array":  func(vs *cborl.Visitor) error { return vs.OnUint16Array(nil) },
		"OnUint32Array":  func(vs *cborl.Visitor) error { return vs.OnUint32Array(nil) },
		"OnUint64Array":  func(vs *cborl.Visitor) error { return vs.OnUint64Array(nil) },
		"OnUintArray":    func(vs *cborl.Visitor) error { return vs.OnUintArray(nil) },
		"OnFloat32Array": func(vs *cborl.Visitor) error { return vs.OnFloat32Array(nil) },
		"OnFloat64Array": func(vs *cborl.Visitor) error { return vs.OnFloat64Array(nil) },
	}
	for name, call := range calls {
		// empty array = a single write (the header); it fails
		if err := call(cborl.NewVisitor(&failWriter{})); err != errSink {
			t.Errorf("%s: header write failed, returned %v", name, err)
		}
	}

	// every event of a document: the writer fails from write k on; the event
	// doing that write has to return the error
	events := []struct {
		name string
		do   func(vs *cborl.Visitor) error
	}{
		{"OnObjectStart", func(vs *cborl.Visitor) error { return vs.OnObjectStart(-1, 0) }},
		{"OnKey", func(vs *cborl.Visitor) error { return vs.OnKey("k") }},
		{"OnArrayStart", func(vs *cborl.Visitor) error { return vs.OnArrayStart(2, 0) }},
		{"OnString", func(vs *cborl.Visitor) error { return vs.OnString("s") }},
		{"OnInt16", func(vs *cborl.Visitor) error { return vs.OnInt16(-300) }},
		{"OnArrayFinished", func(vs *cborl.Visitor) error { return vs.OnArrayFinished() }},
		{"OnKeyRef", func(vs *cborl.Visitor) error { return vs.OnKeyRef([]byte("r")) }},
		{"OnInt8Array", func(vs *cborl.Visitor) error { return vs.OnInt8Array([]int8{1, 2}) }},
		{"OnKey2", func(vs *cborl.Visitor) error { return vs.OnKey("f") }},
		{"OnFloat64Array", func(vs *cborl.Visitor) error { return vs.OnFloat64Array([]float64{1}) }},
		{"OnKey3", func(vs *cborl.Visitor) error { return vs.OnKey("s") }},
		{"OnStringArray", func(vs *cborl.Visitor) error { return vs.OnStringArray([]string{"a"}) }},
		{"OnObjectFinished", func(vs *cborl.Visitor) error { return vs.OnObjectFinished() }},
	}
	var total countWriter
	vs := cborl.NewVisitor(&total)
	for _, e := range events {
		if err := e.do(vs); err != nil {
			t.Fatal(err)
		}
	}
	for k := 0; k < total.n; k++ {
		w := &failWriter{ok: k}
		vs := cborl.NewVisitor(w)
		var got []string
		failed := false
		for _, e := range events {
			if err := e.do(vs); err != nil {
				failed = true
				break
			}
			got = append(got, e.name)
		}
		if !failed {
			t.Errorf("writer failing from write %d of %d on: no event returned an error (%s)",
				k+1, total.n, strings.Join(got, ","))
		}
	}
}

type countWriter struct{ n int }

func (c *countWriter) Write(b []byte) (int, error) { c.n++; return len(b), nil }
