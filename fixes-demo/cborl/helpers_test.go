package fixdemo

import (
	"errors"
	"fmt"
	"strings"
	"testing"
	"time"

	structform "github.com/elastic/go-structform"
)

// rec records every event as a short string, e.g. "int16(-200)".
type rec struct{ ev []string }

func (r *rec) add(f string, a ...interface{}) error {
	r.ev = append(r.ev, fmt.Sprintf(f, a...))
	return nil
}
func (r *rec) String() string { return strings.Join(r.ev, " ") }
func (r *rec) reset()         { r.ev = nil }

func (r *rec) OnObjectStart(l int, _ structform.BaseType) error { return r.add("{%d", l) }
func (r *rec) OnObjectFinished() error                          { return r.add("}") }
func (r *rec) OnKey(s string) error                             { return r.add("key(%q)", s) }
func (r *rec) OnArrayStart(l int, _ structform.BaseType) error  { return r.add("[%d", l) }
func (r *rec) OnArrayFinished() error                           { return r.add("]") }
func (r *rec) OnNil() error                                     { return r.add("nil") }
func (r *rec) OnBool(b bool) error                              { return r.add("bool(%v)", b) }
func (r *rec) OnString(s string) error                          { return r.add("str(%q)", s) }
func (r *rec) OnInt8(i int8) error                              { return r.add("int8(%d)", i) }
func (r *rec) OnInt16(i int16) error                            { return r.add("int16(%d)", i) }
func (r *rec) OnInt32(i int32) error                            { return r.add("int32(%d)", i) }
func (r *rec) OnInt64(i int64) error                            { return r.add("int64(%d)", i) }
func (r *rec) OnInt(i int) error                                { return r.add("int(%d)", i) }
func (r *rec) OnByte(b byte) error                              { return r.add("byte(%d)", b) }
func (r *rec) OnUint8(u uint8) error                            { return r.add("uint8(%d)", u) }
func (r *rec) OnUint16(u uint16) error                          { return r.add("uint16(%d)", u) }
func (r *rec) OnUint32(u uint32) error                          { return r.add("uint32(%d)", u) }
func (r *rec) OnUint64(u uint64) error                          { return r.add("uint64(%d)", u) }
func (r *rec) OnUint(u uint) error                              { return r.add("uint(%d)", u) }
func (r *rec) OnFloat32(f float32) error                        { return r.add("f32(%v)", f) }
func (r *rec) OnFloat64(f float64) error                        { return r.add("f64(%v)", f) }

var _ structform.Visitor = (*rec)(nil)

// guard runs fn and converts a panic or a hang into a returned description.
func guard(fn func() error) (err error, trouble string) {
	type res struct {
		err     error
		trouble string
	}
	ch := make(chan res, 1)
	go func() {
		defer func() {
			if p := recover(); p != nil {
				ch <- res{nil, fmt.Sprintf("panic: %v", p)}
			}
		}()
		ch <- res{fn(), ""}
	}()
	select {
	case r := <-ch:
		return r.err, r.trouble
	case <-time.After(time.Second):
		return nil, "no result after 1s (endless loop)"
	}
}

// mustRefuse checks that fn returns an error and neither panics nor hangs.
func mustRefuse(t *testing.T, name string, fn func() error) {
	t.Helper()
	err, trouble := guard(fn)
	switch {
	case trouble != "":
		t.Errorf("%s: %s", name, trouble)
	case err == nil:
		t.Errorf("%s: accepted without error", name)
	}
}

var errSink = errors.New("sink failed")

// failWriter accepts the first ok writes and fails all later ones.
type failWriter struct{ ok int }

func (w *failWriter) Write(b []byte) (int, error) {
	if w.ok <= 0 {
		return 0, errSink
	}
	w.ok--
	return len(b), nil
}
