// sfimpl: generates operation lines for a property and runs operation lines
// against the real go-structform code (built from /repo, tag verif).
//
//	sfimpl gen -prop C20 -seed 1 -tier quick      > ops.txt
//	sfimpl run [-from N] < ops.txt                > impl.txt   ("<n>\t<op line>\t=>\t<observation>")
package main

import (
	"bufio"
	"flag"
	"fmt"
	"os"
	"runtime/debug"

	"sfharness/sfh"
)

func main() {
	if len(os.Args) < 2 {
		fmt.Fprintln(os.Stderr, "usage: sfimpl gen|run ...")
		os.Exit(2)
	}
	switch os.Args[1] {
	case "gen":
		fs := flag.NewFlagSet("gen", flag.ExitOnError)
		prop := fs.String("prop", "", "property id")
		seed := fs.Uint64("seed", 1, "seed")
		tier := fs.String("tier", "quick", "quick|thorough")
		fs.Parse(os.Args[2:])
		gens, ok := sfh.Gens[*prop]
		if !ok {
			fmt.Fprintln(os.Stderr, "no generator for", *prop)
			os.Exit(2)
		}
		w := bufio.NewWriterSize(os.Stdout, 1<<20)
		defer w.Flush()
		r := sfh.NewRand(*seed)
		for _, g := range gens {
			g(r.Fork(), *tier, func(line string) { fmt.Fprintln(w, line) })
		}
	case "run":
		fs := flag.NewFlagSet("run", flag.ExitOnError)
		from := fs.Int("from", 0, "skip lines before this index")
		fs.Parse(os.Args[2:])
		debug.SetMemoryLimit(6 << 30)
		sc := bufio.NewScanner(os.Stdin)
		sc.Buffer(make([]byte, 1<<20), 1<<26)
		w := bufio.NewWriterSize(os.Stdout, 1<<16)
		cur, _ := os.Create(os.Getenv("SFIMPL_CURSOR"))
		n := 0
		for sc.Scan() {
			line := sc.Text()
			if n >= *from {
				if cur != nil { // remember which op is running, for crash isolation
					cur.WriteAt([]byte(fmt.Sprintf("%-12d", n)), 0)
				}
				out := sfh.RunLine(line)
				fmt.Fprintf(w, "%d\t%s\t=>\t%s\n", n, line, out)
				if out == "hang" || out == "panic" {
					w.Flush()
				}
				if sfh.Leaked() >= 4 {
					w.Flush()
					os.Exit(3)
				}
			}
			n++
		}
		w.Flush()
	default:
		fmt.Fprintln(os.Stderr, "usage: sfimpl gen|run ...")
		os.Exit(2)
	}
}
