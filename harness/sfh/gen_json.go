package sfh

import (
	"encoding/hex"
	"fmt"
	"math"
	"math/big"
	"strconv"
	"strings"
	"unicode/utf8"
)

// JSON wire generator: RFC 8259 text the way foreign encoders may write it
// (insignificant whitespace, every escape spelling, surrogate pairs, non-shortest
// float literals), independent of the library's encoder.

func (r *Rand) jsonWS(minimal bool, out []byte) []byte {
	if minimal || r.P(55) {
		return out
	}
	n := 1 + r.Intn(3)
	for i := 0; i < n; i++ {
		out = append(out, " \t\n\r"[r.Intn(4)])
	}
	return out
}

func (r *Rand) hex4(c rune, out []byte) []byte {
	const lo, up = "0123456789abcdef", "0123456789ABCDEF"
	mode := r.Intn(3) // lower, upper, mixed
	out = append(out, '\\', 'u')
	for sh := 12; sh >= 0; sh -= 4 {
		d := (c >> uint(sh)) & 0xf
		switch {
		case mode == 0, mode == 2 && r.Bool():
			out = append(out, lo[d])
		default:
			out = append(out, up[d])
		}
	}
	return out
}

var jsonShortEsc = map[rune]byte{'"': '"', '\\': '\\', '/': '/', '\b': 'b', '\f': 'f', '\n': 'n', '\r': 'r', '\t': 't'}

// JsonString renders s (made valid UTF-8 first) as a JSON string literal.
func (r *Rand) JsonString(s []byte, minimal bool, out []byte) []byte {
	if !utf8.Valid(s) {
		s = []byte("x" + hex.EncodeToString(s))
	}
	out = append(out, '"')
	for _, c := range string(s) {
		short, hasShort := jsonShortEsc[c]
		must := c < 0x20 || c == '"' || c == '\\'
		switch {
		case minimal:
			switch {
			case must && hasShort:
				out = append(out, '\\', short)
			case must:
				out = append(out, fmt.Sprintf("\\u%04x", c)...)
			default:
				out = utf8.AppendRune(out, c)
			}
		case must || r.P(25):
			switch {
			case hasShort && r.P(60):
				out = append(out, '\\', short)
			case c >= 0x10000:
				if must || r.Bool() {
					c -= 0x10000
					out = r.hex4(0xd800+(c>>10), out)
					out = r.hex4(0xdc00+(c&0x3ff), out)
				} else {
					out = utf8.AppendRune(out, c)
				}
			default:
				out = r.hex4(c, out)
			}
		default:
			out = utf8.AppendRune(out, c)
		}
	}
	return append(out, '"')
}

// JsonFloat: a decimal literal for f that reads back as exactly f and always contains
// '.', 'e' or 'E' (so that it stays a float); not necessarily the shortest.
func (r *Rand) JsonFloat(f float64, minimal bool) string {
	var s string
	mode := 0
	if !minimal {
		mode = r.Intn(4)
	}
	exp := 0
	if f != 0 {
		exp = int(math.Floor(math.Log10(math.Abs(f))))
	}
	switch {
	case mode == 1:
		s = strconv.FormatFloat(f, 'e', 16, 64)
	case mode == 2 && exp > -25 && exp < 25:
		s = strconv.FormatFloat(f, 'f', -1, 64)
	case mode == 3:
		s = strconv.FormatFloat(f, 'e', -1, 64)
	default:
		s = strconv.FormatFloat(f, 'g', -1, 64)
	}
	if !strings.ContainsAny(s, ".eE") {
		s += ".0"
	}
	if !minimal {
		if i := strings.IndexByte(s, 'e'); i >= 0 {
			mant, ex := s[:i], s[i+1:]
			sign := ""
			if ex[0] == '+' || ex[0] == '-' {
				sign, ex = ex[:1], ex[1:]
			}
			if sign == "+" && r.Bool() {
				sign = ""
			}
			if r.P(30) {
				ex = strings.TrimLeft(ex, "0")
				if ex == "" {
					ex = "0"
				}
			} else if r.P(15) {
				ex = "00" + ex
			}
			e := "e"
			if r.Bool() {
				e = "E"
			}
			s = mant + e + sign + ex
		}
	}
	return s
}

// JsonWire renders v as RFC 8259 text.
func (r *Rand) JsonWire(v *V, minimal bool, out []byte) []byte {
	switch v.K {
	case VNull:
		return append(out, "null"...)
	case VBool:
		if v.B {
			return append(out, "true"...)
		}
		return append(out, "false"...)
	case VInt:
		if !minimal && v.I.Sign() == 0 && r.P(20) {
			return append(out, "-0"...)
		}
		return append(out, v.I.String()...)
	case VF32:
		return append(out, r.JsonFloat(float64(math.Float32frombits(uint32(v.Bits))), minimal)...)
	case VF64:
		return append(out, r.JsonFloat(math.Float64frombits(v.Bits), minimal)...)
	case VStr:
		return r.JsonString(v.S, minimal, out)
	case VArr:
		out = append(out, '[')
		out = r.jsonWS(minimal, out)
		for i, c := range v.Arr {
			if i > 0 {
				out = append(out, ',')
				out = r.jsonWS(minimal, out)
			}
			out = r.JsonWire(c, minimal, out)
			out = r.jsonWS(minimal, out)
		}
		return append(out, ']')
	case VObj:
		out = append(out, '{')
		out = r.jsonWS(minimal, out)
		for i, c := range v.Arr {
			if i > 0 {
				out = append(out, ',')
				out = r.jsonWS(minimal, out)
			}
			out = r.JsonString(v.Keys[i], minimal, out)
			out = r.jsonWS(minimal, out)
			out = append(out, ':')
			out = r.jsonWS(minimal, out)
			out = r.JsonWire(c, minimal, out)
			out = r.jsonWS(minimal, out)
		}
		return append(out, '}')
	}
	panic("jsonwire")
}

// ---------------------------------------------------------------------------
// targeted generators

var jsonOptSets = []string{"-", "h", "r", "i", "hr", "hi", "ri", "hri"}

// invalid and boundary UTF-8 shapes
var utf8Shapes = [][]byte{
	{0x80}, {0xbf}, {0x80, 0x80}, // lone continuation bytes
	{0xc2}, {0xdf}, {0xe2}, {0xe2, 0x82}, {0xf0}, {0xf0, 0x9f}, {0xf0, 0x9f, 0x98}, // truncated
	{0xc0, 0x80}, {0xc1, 0xbf}, {0xe0, 0x80, 0x80}, {0xe0, 0x9f, 0xbf}, {0xf0, 0x80, 0x80, 0x80}, {0xf0, 0x8f, 0xbf, 0xbf}, // overlong
	{0xed, 0xa0, 0x80}, {0xed, 0xbf, 0xbf}, {0xed, 0xa0, 0xbd, 0xed, 0xb8, 0x80}, // encoded surrogates
	{0xf4, 0x90, 0x80, 0x80}, {0xf5, 0x80, 0x80, 0x80}, {0xf8, 0x88, 0x80, 0x80, 0x80}, {0xfe}, {0xff}, // > U+10FFFF, invalid leads
	{0xc2, 0x41}, {0xe2, 0x28, 0xa1}, {0xe2, 0x82, 0x28}, {0xf0, 0x28, 0x8c, 0xbc}, {0xf0, 0x90, 0x28, 0xbc}, {0xf0, 0x90, 0x8c, 0x28}, // bad continuation
	{0xc2, 0x80}, {0xdf, 0xbf}, {0xe0, 0xa0, 0x80}, {0xed, 0x9f, 0xbf}, {0xee, 0x80, 0x80}, {0xef, 0xbf, 0xbd}, {0xef, 0xbf, 0xbf}, // valid boundaries
	{0xf0, 0x90, 0x80, 0x80}, {0xf4, 0x8f, 0xbf, 0xbf}, {0xf0, 0x9f, 0x98, 0x80},
	{0xe2, 0x80, 0xa7}, {0xe2, 0x80, 0xa8}, {0xe2, 0x80, 0xa9}, {0xe2, 0x80, 0xaa}, // U+2027..U+202A
	{0xe2, 0x80, 0xa8, 0xe2, 0x80, 0xa9}, {0xe2, 0x80}, {0xe2, 0x80, 0xa8, 0x80},
}

var encInterestingBytes = []byte{0x00, 0x08, 0x09, 0x0a, 0x0c, 0x0d, 0x1f, 0x20, '"', '\\', '/', '<', '>', '&', 'a', 0x7f,
	0x80, 0xbf, 0xc2, 0xc3, 0xa9, 0xe2, 0xed, 0xf0, 0xf4, 0xff}

// encoder: strings
func genJsonEncStrings(r *Rand, tier string, emit func(string)) {
	both := []string{"-", "h"}
	for _, o := range both {
		for b := 0; b < 256; b++ {
			emit(fmt.Sprintf("enc json %s -1 S:%02x", o, b))
			emit(fmt.Sprintf("enc json %s -1 [-1:0,S:61,R:%02x,]", o, b))
			emit(fmt.Sprintf("enc json %s -1 {-1:0,Q:%02x,N,K:%02x,T,}", o, b, b))
		}
		for _, a := range encInterestingBytes {
			for _, b := range encInterestingBytes {
				emit(fmt.Sprintf("enc json %s -1 S:%02x%02x", o, a, b))
			}
		}
	}
	for _, sh := range utf8Shapes {
		for _, pre := range []string{"", "61", "c3a9"} {
			for _, suf := range []string{"", "62", "e282ac"} {
				h := pre + hx(sh) + suf
				o := Pick(r, both)
				emit(fmt.Sprintf("enc json %s -1 S:%s", o, h))
				emit(fmt.Sprintf("enc json %s -1 R:%s", o, h))
				emit(fmt.Sprintf("enc json %s -1 {1:0,K:%s,S:%s,}", o, h, h))
				// fault at every write call of the short forms
				if pre == "" || suf == "" {
					for k := 0; k < 8; k++ {
						emit(fmt.Sprintf("enc json %s %d [2:0,S:%s,S:%s,]", o, k, h, h))
					}
				}
			}
		}
	}
	// html characters with and without escaping, in keys and values, with faults
	for _, o := range jsonOptSets {
		emit(fmt.Sprintf("enc json %s -1 S:%s", o, hx([]byte("<a href=\"x&y\">\u2028</a>"))))
		for k := 0; k < 14; k++ {
			emit(fmt.Sprintf("enc json %s %d {-1:0,K:%s,S:%s,Q:3c,R:3e26,}", o, k, hx([]byte("a<b")), hx([]byte("\u2029&\n"))))
		}
	}
	// random byte strings
	n := tierN(tier, 600, 6000)
	for i := 0; i < n; i++ {
		var s []byte
		for j := 0; j < 1+r.Intn(6); j++ {
			switch r.Intn(4) {
			case 0:
				s = append(s, Pick(r, utf8Shapes)...)
			case 1:
				s = append(s, Pick(r, encInterestingBytes))
			case 2:
				s = append(s, byte(r.U64()))
			default:
				s = append(s, Pick(r, strSpecial)...)
			}
		}
		emit(fmt.Sprintf("enc json %s %d %s:%s", Pick(r, both), r.Intn(12)-4, Pick(r, []string{"S", "R"}), hx(s)))
	}
}

// encoder: floats
func genJsonEncFloats(r *Rand, tier string, emit func(string)) {
	f64s := append([]uint64(nil), f64Special...)
	f32s := append([]uint32(nil), f32Special...)
	// powers of ten around the %e/%f switch points, and their neighbours
	for e := -8; e <= 23; e++ {
		f := math.Pow(10, float64(e))
		for _, g := range []float64{f, -f, math.Nextafter(f, 0), math.Nextafter(f, math.Inf(1)), 1.5 * f, 123456789 * f} {
			f64s = append(f64s, math.Float64bits(g))
			f32s = append(f32s, math.Float32bits(float32(g)))
		}
	}
	// powers of two (asymmetric rounding interval) and subnormals
	for e := -1074; e <= 1023; e += 7 {
		f64s = append(f64s, math.Float64bits(math.Ldexp(1, e)))
	}
	for e := -149; e <= 127; e += 3 {
		f32s = append(f32s, math.Float32bits(float32(math.Ldexp(1, e))))
	}
	for i := uint64(1); i < 40; i++ {
		f64s = append(f64s, i, 0x0010000000000000-i, 0x0010000000000000+i, 0x7fefffffffffffff-i)
		f32s = append(f32s, uint32(i), 0x00800000-uint32(i), 0x00800000+uint32(i), 0x7f7fffff-uint32(i))
	}
	// shortest-digit ties: 2^50 + k/4 and friends
	for k := 1; k < 16; k++ {
		f64s = append(f64s, math.Float64bits(math.Ldexp(1, 50)+float64(k)/4), math.Float64bits(math.Ldexp(1, 51)+float64(k)/2),
			math.Float64bits(math.Ldexp(1, 53)+float64(2*k)), math.Float64bits(math.Ldexp(1, 56)+float64(16*k)))
		f32s = append(f32s, math.Float32bits(float32(math.Ldexp(1, 21)+float64(k)/4)), math.Float32bits(float32(math.Ldexp(1, 24)+float64(2*k))))
	}
	for _, o := range jsonOptSets {
		for _, b := range f64Special {
			emit(fmt.Sprintf("enc json %s -1 %s", o, F64Tok(b)))
			emit(fmt.Sprintf("enc json %s -1 [-1:0,%s,%s,]", o, F64Tok(b), F64Tok(b)))
		}
		for _, b := range f32Special {
			emit(fmt.Sprintf("enc json %s -1 %s", o, F32Tok(b)))
			emit(fmt.Sprintf("enc json %s -1 {-1:0,K:61,%s,K:62,%s,}", o, F32Tok(b), F32Tok(b)))
		}
		// every fault index of a two-float array (3 writes per float with option r)
		for k := 0; k < 10; k++ {
			emit(fmt.Sprintf("enc json %s %d [2:0,f64:4024000000000000,f64:7ff8000000000000,f32:3fc00000,]", o, k))
			emit(fmt.Sprintf("enc json %s %d Af64:3:4415af1d78b58c40/3ff8000000000000/fff0000000000000", o, k))
		}
	}
	for _, b := range f64s {
		emit(fmt.Sprintf("enc json %s -1 %s", Pick(r, []string{"-", "r"}), F64Tok(b)))
	}
	for _, b := range f32s {
		emit(fmt.Sprintf("enc json %s -1 %s", Pick(r, []string{"-", "r"}), F32Tok(b)))
	}
	n := tierN(tier, 1500, 30000)
	for i := 0; i < n; i++ {
		o := Pick(r, jsonOptSets)
		switch r.Intn(5) {
		case 0:
			emit(fmt.Sprintf("enc json %s -1 %s", o, F64Tok(r.U64())))
		case 1:
			emit(fmt.Sprintf("enc json %s -1 %s", o, F32Tok(uint32(r.U64()))))
		case 2: // few significant digits
			f := float64(r.Intn(100000)) * math.Pow(10, float64(r.Intn(60)-30))
			emit(fmt.Sprintf("enc json %s -1 %s,%s", o, F64Tok(math.Float64bits(f)), F32Tok(math.Float32bits(float32(f)))))
		case 3:
			emit(fmt.Sprintf("enc json %s -1 %s", o, F64Tok(r.F64Bits(false))))
		default:
			emit(fmt.Sprintf("enc json %s -1 %s", o, F32Tok(r.F32Bits(false))))
		}
	}
}

// encoder: streams that break the visitor contract (pop of an empty stack panics)
func genJsonEncMisuse(r *Rand, tier string, emit func(string)) {
	for _, s := range []string{"]", "}", "[-1:0,],]", "{-1:0,},}", "N,]", "[-1:0,},N", "[-1:0,K:61,N,]", "K:61,N", "{-1:0,N,N,}",
		"{-1:0,[-1:0,],}", "[-1:0,{-1:0,K:61,[-1:0,N,N,],K:62,N,},T,]", "N,T,F,i8:1,S:61", "[-1:0", "{-1:0,K:61",
		"Q:61,R:62", "[-1:0,Q:61,R:62,]", "Ai8:0:,]", "Obool:0:,}", "{-1:0,K:6b,Obool:1:61=T,K:6c,Astr:2:61/62,}"} {
		for _, k := range []int{-1, 0, 1, 2, 3, 5} {
			emit(fmt.Sprintf("enc json - %d %s", k, s))
		}
	}
}

// ---------------------------------------------------------------------------
// parser

func emitParseAll(r *Rand, emit func(string), doc []byte, cuts bool) {
	emit(fmt.Sprintf("parse json P -1 %s", ChunksString([][]byte{doc})))
	if len(doc) == 0 {
		return
	}
	// 1-byte chunks
	var one [][]byte
	for i := range doc {
		one = append(one, doc[i:i+1])
	}
	emit(fmt.Sprintf("parse json W -1 %s", ChunksString(one)))
	emit(fmt.Sprintf("parse json %s -1 %s", Pick(r, []string{"W", "R"}), ChunksString(r.RandChunks(doc))))
	if cuts && len(doc) <= 40 {
		for c := 1; c < len(doc); c++ {
			emit(fmt.Sprintf("parse json W -1 %s", ChunksString([][]byte{doc[:c], doc[c:]})))
		}
	}
}

var jsonEscapes = []string{
	`\"`, `\\`, `\/`, `\b`, `\f`, `\n`, `\r`, `\t`, `\u0041`, `\u00e9`, `\u00E9`, `\u20ac`, `\u20AC`, `\uFFFD`, `\ufffe`, `\u0000`, `\u001f`, `\u007f`, `\u0080`, `\u07ff`, `\u0800`,
	`\ud83d\ude00`, `\uD83D\uDE00`, `\ud800\udc00`, `\udbff\udfff`,
	`\'`, `\a`, `\x41`, `\U0041`, `\0`, `\ `, `\u`, `\u0`, `\u00`, `\u004`, `\u004g`, `\ug041`, `\u+041`, `\u 041`, `\u-041`, `\u0x41`,
	`\ud83d`, `\ude00`, `\ude00\ud83d`, `\ud83d\u0041`, `\ud83dx`, `\ud83d\n`, `\ud83d\ud83d`, `\ud83d\ud83d\ude00`, `\ud83d\u`, `\ud83d\ude0`, `\ud83d\ude0g`,
	`\ud83d\`, `\ud83d\\ude00`, `\udbff\ue000`, `\ud7ff\udc00`, `\ue000\udc00`,
}

func genJsonParseStrings(r *Rand, tier string, emit func(string)) {
	followers := []string{"", "a", "\u00e9", "\u20ac", "\U0001F600", "\x80", "\xe2\x82", " ", "\x1f", "\""}
	for _, e := range jsonEscapes {
		var fs []string
		fs = append(fs, followers...)
		fs = append(fs, jsonEscapes...)
		for _, f := range fs {
			doc := []byte(`"` + e + f + `"`)
			emitParseAll(r, emit, doc, tier == "thorough" || r.P(20))
			if r.P(25) {
				emitParseAll(r, emit, []byte(`{"`+e+f+`":"`+f+e+`"}`), false)
			}
			if r.P(15) {
				emitParseAll(r, emit, []byte(`["`+"\u00e9\U0001F600"+e+f+`"]`), false)
			}
		}
	}
	// raw shapes inside strings: invalid UTF-8 is passed through, control characters refused
	for _, sh := range utf8Shapes {
		emitParseAll(r, emit, append(append([]byte(`"`), sh...), '"'), true)
		emitParseAll(r, emit, append(append([]byte(`"a\n`), sh...), `b"`...), true)
	}
	for b := 0; b < 256; b++ {
		emitParseAll(r, emit, []byte{'"', byte(b), '"'}, false)
		emitParseAll(r, emit, []byte{'"', '\\', byte(b), '"'}, false)
		emitParseAll(r, emit, []byte{'"', 'x', '\\', 'n', byte(b), '"'}, false)
		emitParseAll(r, emit, []byte{byte(b)}, false)
		emitParseAll(r, emit, []byte{'[', byte(b), '1', byte(b), ']'}, false)
		emitParseAll(r, emit, []byte{'1', byte(b)}, false)
	}
	// unterminated
	for _, s := range []string{`"`, `"a`, `"a\`, `"a\"`, `"a\\`, `"a\\"`, `"a\\\"`, `"\u00`, `""`, `"""`, `"a"b"`, `{"a`, `{"a"`, `{"a\":1}`,
		`"` + strings.Repeat("a", 70) + `"`, `"` + strings.Repeat("a", 70) + `\n"`, `"` + strings.Repeat("\\u00e9", 20) + `"`,
		`"` + strings.Repeat("\\ud83d\\ude00", 12) + `"`, `{"` + strings.Repeat("k", 65) + `\t":"` + strings.Repeat("\u20ac", 30) + `\/"}`} {
		emitParseAll(r, emit, []byte(s), true)
	}
}

// exact decimal expansion of mant * 2^exp
func exactDecimal(mant *big.Int, exp int) string {
	if exp >= 0 {
		return new(big.Int).Lsh(mant, uint(exp)).String() + ".0"
	}
	k := -exp
	n := new(big.Int).Mul(mant, new(big.Int).Exp(big.NewInt(5), big.NewInt(int64(k)), nil))
	s := n.String()
	if len(s) <= k {
		s = strings.Repeat("0", k-len(s)+1) + s
	}
	return s[:len(s)-k] + "." + s[len(s)-k:]
}

// halfway points between f and the next float up, as exact decimal strings, with
// neighbours just below and above
func halfwayCases(bits uint64) []string {
	exp := int(bits>>52) & 0x7ff
	mant := bits & (1<<52 - 1)
	if exp == 0x7ff {
		return nil
	}
	if exp == 0 {
		exp = 1
	} else {
		mant |= 1 << 52
	}
	// f = mant * 2^(exp-1075); halfway = (2*mant+1) * 2^(exp-1076)
	m := new(big.Int).SetUint64(mant)
	m.Lsh(m, 1).Add(m, big.NewInt(1))
	tie := exactDecimal(m, exp-1076)
	tie = strings.TrimSuffix(tie, ".0")
	if !strings.Contains(tie, ".") {
		tie += ".0"
	}
	below := tie
	// just below: decrement the last non-zero digit position by appending digits to a shortened string
	trimmed := strings.TrimRight(tie, "0")
	if strings.HasSuffix(trimmed, ".") {
		trimmed += "0"
	}
	last := trimmed[len(trimmed)-1]
	if last > '0' {
		below = trimmed[:len(trimmed)-1] + string(last-1) + "9999"
	}
	return []string{tie, tie + "1", tie + "0000000000", below, tie + strings.Repeat("0", 800) + "1", tie + "e0", tie + "E+0"}
}

var jsonNumberDocs = []string{
	"0", "-0", "+0", "1", "-1", "+1", "007", "00", "-007", "0123", "00.5", "-00.5e1", "01e1",
	"+", "-", "--1", "+-1", "-+1", "++1", "1-", "1+", "1-1", "1+1", ".5", "-.5", "+.5", "1.", "-1.", "+1.", ".", "-.", "+.", "..", ".e1", "1..2", "1.2.3", ".5.",
	"1e", "1e+", "1e-", "1e+5", "1E5", "1e5", "1E+05", "1e05", "1e-05", "1ee5", "1e5e5", "1e5.5", "1.5e", "1.5e+", "1.e5", ".5e5", ".e5", "1e+-5", "1e--5", "1e5+", "1e5-",
	"1x", "1a", "1_0", "1_0.5", "0x10", "0x1p4", "1f", "1n", "1t", "1\"", "1\"a\"", "1[", "1{", "1:", "1/", "1\\",
	"1e400", "-1e400", "1e-400", "-1e-400", "1e308", "1e309", "-1e309", "1e-323", "1e-324", "1e-325", "4.9e-324", "5e-324", "2.4703282292062327e-324", "2.4703282292062328e-324",
	"2.2250738585072011e-308", "2.2250738585072012e-308", "2.2250738585072014e-308", "2.225073858507201e-308",
	"1.7976931348623157e308", "1.7976931348623158e308", "1.7976931348623159e308", "1.797693134862315807e308", "1.797693134862315808e308", "17976931348623157e292", "0.00017976931348623157e312",
	"0.1", "0.2", "0.3", "0.30000000000000004", "1e23", "8.41e21", "9.5e-5", "1e22", "1e-22", "123456789012345678.0", "1234567890123456789012.5e-3",
	"9007199254740992.0", "9007199254740993.0", "9007199254740994.0", "9007199254740995.0", "9007199254740993", "9007199254740993e0", "9007199254740993.000000000000000000000000001",
	"1.00000000000000011102230246251565404236316680908203125", "1.00000000000000011102230246251565404236316680908203124", "1.00000000000000011102230246251565404236316680908203126",
	"0e0", "0e999999999", "0.0e-999999999", "-0e1", "-0.0", "0.0", "0.", ".0", "-.0", "0e", "1e999999999", "1e-999999999", "1e9999", "1e10000", "1e99999", "1e100000", "1e-10000", "1e-99999", "1e-100000",
	"1e0000000000000000000000000000001", "1e+0000000000000000000000000000308", "10e-0000000000000000000000000000001",
	"100000000000000000000", "1e20", "1e21", "100000.0", "1000000.0", "0.0001", "0.00001", "12345678901234567890.0", "123456789012345678901234567890",
	"3.14159265358979323846264338327950288419716939937510582097494459", "2.718281828459045235360287471352662497757247093699959574966967627724076630353e0",
	"6.02214076e23", "6.62607015E-34", "1.6e-19", "299792458.0", "0.000001", "0.0000001", "1e-7", "1e-6", "123456.0", "1234567.0",
	"179769313486231570000000000000000000000000000000000000000000000000000000000000000000000000000000000000000000000000000000000000000000000000000000000000000000000000000000000000000000000000000000000000000000000000000000000000000000000000000000000000000000000000000000000000000000000000000000000000000000000000000000.0",
	"179769313486231580793728971405303415079934132710037826936173778980444968292764750946649017977587207096330286416692887910946555547851940402630657488671505820681908902000708383676273854845817711531764475730270069855571366959622842914819860834936475292719074168444365510704342711559699508093042880177904174497791.0",
	"179769313486231580793728971405303415079934132710037826936173778980444968292764750946649017977587207096330286416692887910946555547851940402630657488671505820681908902000708383676273854845817711531764475730270069855571366959622842914819860834936475292719074168444365510704342711559699508093042880177904174497792.0",
	// hex floats and underscores: accepted by strconv.ParseFloat, hence by this parser
	"0x1.8p1", "0X1.8P+3", "0x.8p1", "0x1.p1", "0xep1", "0xEp1", "0x1e", "0x1.0", "0x1.8", "0x.p1", "0x1.8p", "0x1.8p+", "0x1.8pp1", "0x", "0x.", "0xe", "-0x1.8p1", "+0x1.8p-1", "0x1.8p1.5", "0x1.8e1p1", "0x0.0p0", "-0x0.0p0", "0x0.0p99999",
	"0x1.fffffffffffffp1023", "0x1.fffffffffffff7p1023", "0x1.fffffffffffff8p1023", "0x1.fffffffffffffffp1023", "0x1.0p1024", "0x1.0p-1074", "0x1.0p-1075", "0x1.00000000001p-1075", "0x1.8p-1075", "0x1.0p-1076", "0x0.0000000000001p-1022", "0x0.fffffffffffffp-1022", "0x0.fffffffffffff8p-1022", "0x0.fffffffffffff7fp-1022",
	"0x1.00000000000008p0", "0x1.00000000000018p0", "0x1.000000000000080001p0", "0x1.00000000000007ffffp0", "0x1.0000000000000800000000000000000000p0", "0x1.0000000000000800000000000000000001p0", "0x123456789abcdef01.8p0", "0x123456789abcdef012345.8p-20", "0x00000000000000000001.8p1", "0x1.8p99999", "0x1.8p-99999", "0x1.8p100000", "0x1.8p0000000000000000001",
	"1_000.5", "1_0e1_0", "1_.5", "1._5", "1.5_", "1.5_0", "1e_5", "1e5_", "1e5_0", "1__0.5", "0_1.5", "0x_1.8p1", "0x1_.8p1", "0x1._8p1", "0x1.8_p1", "0x1.8p_1", "0x1.8p1_", "0x1.8p1_0", "0x1_0.8p1", "-_1.5", "1_e5", "1_000_000.000_001", "+1_0.0e-1_0",
	"1.5inf", "-inf.", "+infe", "infinity", "nan", "-nan.e", "+Infinity.e",
}

func genJsonParseNumbers(r *Rand, tier string, emit func(string)) {
	docs := append([]string(nil), jsonNumberDocs...)
	// 64-bit boundary integer literals ±2
	for _, base := range []string{"9223372036854775807", "9223372036854775808", "18446744073709551615", "18446744073709551616", "-9223372036854775808", "1844674407370955161", "4294967296", "-2147483648"} {
		b := bi(base)
		for d := int64(-2); d <= 2; d++ {
			v := new(big.Int).Add(b, big.NewInt(d))
			docs = append(docs, v.String(), v.String()+".0", v.String()+"e0", v.String()+"0", "0"+v.String(), "+"+v.String())
		}
	}
	// long digit strings
	for _, n := range []int{17, 18, 19, 20, 21, 30, 63, 64, 65, 100, 300, 308, 309, 310, 311, 400, 1000} {
		ds := strings.Repeat("1234567890", n/10+1)[:n]
		docs = append(docs, ds, "-"+ds, ds+".0", ds+"e-"+strconv.Itoa(n), "0."+ds, "0."+strings.Repeat("0", n)+ds, strings.Repeat("0", n)+"1", strings.Repeat("0", n)+"1.5",
			"0."+strings.Repeat("0", n)+"1e"+strconv.Itoa(n+1), "1"+strings.Repeat("0", n)+"e-"+strconv.Itoa(n), "1"+strings.Repeat("0", n)+".0")
	}
	// halfway cases for rounding
	hw := append([]uint64(nil), f64Special...)
	hw = append(hw, 0x3ff0000000000000, 0x3fefffffffffffff, 0x4340000000000000, 0x433fffffffffffff, 0x7feffffffffffffe, 0x000fffffffffffff, 0x000ffffffffffffe, 2, 3,
		0x3fb999999999999a, 0x44b52d02c7e14af6, 0x0010000000000000, 0x0010000000000001, 0x7fe0000000000000)
	nrand := tierN(tier, 40, 1500)
	for i := 0; i < nrand; i++ {
		hw = append(hw, r.F64Bits(true)&^(1<<63))
	}
	for _, b := range hw {
		docs = append(docs, halfwayCases(b&^(1<<63))...)
	}
	// decimal images of floats in every style
	for i := 0; i < tierN(tier, 600, 12000); i++ {
		f := math.Float64frombits(r.F64Bits(true))
		docs = append(docs, r.JsonFloat(f, false))
		if r.P(30) {
			docs = append(docs, strconv.FormatFloat(f, 'e', r.Intn(25), 64))
		}
	}
	for _, d := range docs {
		doc := []byte(d)
		switch {
		case len(doc) > 200:
			emit(fmt.Sprintf("parse json P -1 %s", ChunksString([][]byte{doc})))
			emit(fmt.Sprintf("parse json W -1 %s", ChunksString(r.RandChunks(append(doc, ' ')))))
		default:
			emitParseAll(r, emit, doc, len(doc) <= 12)
			emit(fmt.Sprintf("parse json P -1 %s", ChunksString([][]byte{append(doc, ' ')})))
			emit(fmt.Sprintf("parse json %s -1 %s", Pick(r, []string{"P", "S", "W", "R"}), ChunksString(r.RandChunks([]byte("["+d+"]")))))
			emit(fmt.Sprintf("parse json %s -1 %s", Pick(r, []string{"P", "S", "W", "R"}), ChunksString(r.RandChunks([]byte("{\"a\":"+d+",\"b\":"+d+"\n}")))))
		}
	}
}

// random strings over the alphabet of strconv.ParseFloat's syntax (decimal, hex floats,
// underscores, inf/nan), as number tokens: the syntax decisions of readFloat/underscoreOK
func genJsonFloatSyntax(r *Rand, tier string, emit func(string)) {
	alpha := []byte("0123456789+-..eEeEpPxX__aAfFbcdinNtTyY")
	heads := []string{"", "", "-", "+", "0x", "0X", "-0x", "0", "1", ".", "0x1.", "1e", "0x1p", "0_", "1_", "0x_"}
	n := tierN(tier, 8000, 150000)
	for i := 0; i < n; i++ {
		b := []byte(Pick(r, heads))
		l := 1 + r.Intn(9)
		for j := 0; j < l; j++ {
			if r.P(55) {
				b = append(b, byte('0'+r.Intn(10)))
			} else {
				b = append(b, Pick(r, alpha))
			}
		}
		if r.P(30) {
			b = append(b, Pick(r, []string{"p1", "p-1", "e1", "e-1", "P+10", "E+10", "p-1074", "p1023", "e308", "e-324"})...)
		}
		if r.P(50) {
			b = append(b, ' ')
		}
		emit(fmt.Sprintf("parse json P -1 %s", ChunksString([][]byte{b})))
	}
}

var jsonStructDocs = []string{
	"", " ", "[]", "{}", "[ ]", "{ }", "[1 2]", "[1,]", "[,1]", "[,]", "[1,,2]", `{"a" 1}`, `{"a":1,}`, "{,}", "[}", "{]", "]", "}", ":", ",", `{"a":}`, `{"a"}`, `{a:1}`, `{1:2}`, `{"a":1 "b":2}`,
	`{"a":1,,"b":2}`, `{"a"::1}`, `{"a":1:2}`, `{"a",1}`, `{"a":1;"b":2}`, `{null:1}`, `{"a":1}}`, `{{}}`, `[{]}`, `[[]`, `[]]`, `{"a":[}`, `{"a":{]`, `[:]`, `[1:2]`,
	"[[]]", "[{}]", `{"a":{}}`, `{"a":[]}`, `{"":""}`, `{"a":"b","a":"c"}`, "[][]", "{}{}", "[] []", "1 2 3", "1,2", `"a""b"`, `"a" "b"`, "nulltrue", "[null1]", "[nulltrue]", "[null,true]", "[truex]", "[true false]",
	"null", "true", "false", "nul", "nulx", "nullx", "nulll", "trux", "tru", "tr", "t", "truee", "fals", "falsx", "falsee", "falze", "n", "f", "N", "Null", "NULL", "True", "nil", "none", "undefined", "NaN", "Infinity", "-Infinity",
	"[n", "[nul,", "[n,ull]", "n ull", "nu\nll", "[t", "[tr", "[tru", "[f", "[fa", "[fal", "[fals", "null null", "null\n", "[null ,true\t, false\r]", `{"a":null,"b":true,"c":false}`,
	" \t\n\r1", "\f1", "\v1", "\x851", "\xa01", "\u00851", "\u00a01", "[\f1\v,\x852\xa0]", "1\f", "1\v", "1\x85", "1\xa0", "[1\v]", "[1\f]", "[1\x85]", "{\"a\"\f:\v1\x85}", "\xef\xbb\xbf1", "\xef\xbb\xbf[]",
	"\x00", "[\x00]", "/", "//c\n1", "/*c*/1", "[1/*c*/]", "'a'", "{'a':1}", "[1]x", "[1] x", "x[1]", "[1]\x00",
	`{"a":{"b":{"c":[1,[2,[3,{"d":null}]]]}}}`, `[[[[[[[[[[[[[[[[[[[[[[[[[[[[[[[[[[[[[[[[1]]]]]]]]]]]]]]]]]]]]]]]]]]]]]]]]]]]]]]]]`,
	`{"a":{"a":{"a":{"a":{"a":{"a":{"a":{"a":{"a":{"a":{"a":{"a":{"a":{"a":{"a":{"a":{"a":{"a":{"a":{"a":{"a":{"a":{"a":{"a":{"a":{"a":{"a":{"a":{"a":{"a":{"a":{"a":{"a":{"a":1}}}}}}}}}}}}}}}}}}}}}}}}}}}}}}}}}}`,
	`[[[[[[[[[[[[[[[[[[[[[[[[[[[[[[[[[[[[[[[[`, `]]]]`, `[1,2,3`, `{"a":1`, `{"a":`, `{"a"`, `{"a`, `{"`, `{`, `[`, `[1`, `[1,`, `["a`, `["a"`, `[-`, `[-]`, `[+]`, `[.]`, `{"a":-}`,
	`[1.5,-2,"x",null,true,false,{},[],{"k":[{}]}]`, `[1,2] [3]`, "[1]\n[2]\n", `{"a":1}{"b":2}`, `{"a":1}` + "\n" + `{"b":2}` + "\n", `1 "a" null [] {}`,
}

func genJsonParseStruct(r *Rand, tier string, emit func(string)) {
	for _, s := range jsonStructDocs {
		doc := []byte(s)
		emitParseAll(r, emit, doc, true)
		emit(fmt.Sprintf("parse json S -1 %s", ChunksString([][]byte{doc})))
		emit(fmt.Sprintf("parse json R -1 %s", ChunksString(r.RandChunks(doc))))
		// visitor fault at every event index of the short documents
		if len(doc) <= 48 {
			for k := 0; k < 6; k++ {
				emit(fmt.Sprintf("parse json %s %d %s", Pick(r, []string{"P", "W", "R"}), k, ChunksString(r.RandChunks(doc))))
			}
		}
		// pull decoder over the same documents
		for _, bs := range []int{0, 1, 3, 4096} {
			chunks := [][]byte{doc}
			if bs != 0 && r.Bool() {
				chunks = r.RandChunks(doc)
			}
			emit(fmt.Sprintf("dec json %d %d 6 %s", bs, r.Intn(2), ChunksString(chunks)))
		}
	}
	// all two-way cuts (and all three-way cuts for the short ones) of valid documents
	n := tierN(tier, 60, 600)
	for i := 0; i < n; i++ {
		v := r.valFor("json", "quick")
		doc := r.JsonWire(v, r.P(50), nil)
		if len(doc) > 60 {
			continue
		}
		for c := 0; c <= len(doc); c++ {
			emit(fmt.Sprintf("parse json W -1 %s", ChunksString([][]byte{doc[:c], doc[c:]})))
		}
		if len(doc) <= 14 {
			for a := 1; a < len(doc); a++ {
				for b := a + 1; b < len(doc); b++ {
					emit(fmt.Sprintf("parse json W -1 %s", ChunksString([][]byte{doc[:a], doc[a:b], doc[b:]})))
				}
			}
		}
	}
}

// pull decoder: numbers and literals at the very end of the input, read scripts with
// chunks larger than the buffer, (0, nil) reads, last data together with io.EOF
func genJsonDecTargets(r *Rand, tier string, emit func(string)) {
	docs := []string{"1", "1 ", "12", "-", "1.5", "1e", "1 2", "1 2 ", "[1] 2", "[1]2", "null", "nul", "null ", "true false", `"a"`, `"a" `, `"a`, "[1", "[1,2]", "[1,2] ", " ", "", "  \n", "{}", `{"a":1}`, `{"a":1}x`, "x", "[1]]", "1]", "1,",
		"123456789", "[1][2][3]", "1\n2\n3\n", `"a""b"`, "0x1.8p1", "0x1.8p1 ", "1_0.5"}
	for _, s := range docs {
		doc := []byte(s)
		for _, bs := range []int{0, 1, 2, 3, 5, 64} {
			for le := 0; le < 2; le++ {
				var chunkings [][][]byte
				chunkings = append(chunkings, [][]byte{doc})
				if bs != 0 {
					chunkings = append(chunkings, r.RandChunks(doc), append([][]byte{{}}, append(r.RandChunks(doc), []byte{})...))
				}
				for _, cs := range chunkings {
					emit(fmt.Sprintf("dec json %d %d 6 %s", bs, le, ChunksString(cs)))
				}
			}
		}
	}
	emit("dec json 4 0 3 -")
	emit("dec json 4 1 3 -")
	emit("dec json 0 0 3 -")
	emit("dec json 4 1 3 _")
	emit("dec json 4 1 3 _,_,31,_")
}

// exhaustive: all strings of length <= 3 over a 24-symbol alphabet
var jsonAlphabet = []byte("{}[],:\"\\u01-+.eEtrnfals ")

func genJsonShort(r *Rand, tier string, emit func(string)) {
	var rec func(prefix []byte)
	rec = func(prefix []byte) {
		emit(fmt.Sprintf("parse json P -1 %s", ChunksString([][]byte{prefix})))
		if len(prefix) >= 3 {
			return
		}
		for _, a := range jsonAlphabet {
			rec(append(append([]byte(nil), prefix...), a))
		}
	}
	rec(nil)
	// length 4 sampled, through the chunked entry point
	n := tierN(tier, 2000, 40000)
	for i := 0; i < n; i++ {
		l := 4 + r.Intn(5)
		b := make([]byte, l)
		for j := range b {
			b[j] = Pick(r, jsonAlphabet)
		}
		emit(fmt.Sprintf("parse json W -1 %s", ChunksString(r.RandChunks(b))))
	}
}

func init() {
	// development aid: correspondence sweep of the JSON mirror
	RegisterGen("XJSON", genEncBoundaries("json"))
	RegisterGen("XJSON", genEncOps("json", 3000, true))
	RegisterGen("XJSON", genParseOps("json", 4000, 35, true))
	RegisterGen("XJSON", genDecOps("json", 2000))
	RegisterGen("XJSON", genJsonEncStrings)
	RegisterGen("XJSON", genJsonEncFloats)
	RegisterGen("XJSON", genJsonEncMisuse)
	RegisterGen("XJSON", genJsonParseStrings)
	RegisterGen("XJSON", genJsonParseNumbers)
	RegisterGen("XJSON", genJsonFloatSyntax)
	RegisterGen("XJSON", genJsonParseStruct)
	RegisterGen("XJSON", genJsonDecTargets)
	RegisterGen("XJSON", genJsonShort)
}
