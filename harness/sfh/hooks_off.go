//go:build !verif

package sfh

import (
	structform "github.com/elastic/go-structform"
	"github.com/elastic/go-structform/gotype"
)

// Fallback used only when /repo's verif-tagged hooks no longer compile (a refactoring of the
// fields they read): the harness is built WITHOUT the tag, the hook-dependent parts of the
// observations are missing ("-"), so the correspondence is expected to differ there, but every
// specification oracle still runs on the implementation's events, bytes and values — which is
// how a failing input is still found.
const HooksAvailable = false

func hookEncDepths(v structform.Visitor) func() []int { return func() []int { return nil } }
func hookParserDepths(p parserI) []int                { return nil }
func hookParserFinalize(p parserI) error              { return nil }
func hookJSONEscapeSets() ([]bool, []bool)            { return nil, nil }
func hookKeyCacheOrder(u *gotype.Unfolder) ([]string, int, bool) {
	return nil, 0, false
}
func hookUnfDepths(u *gotype.Unfolder) []int { return nil }
