package sfh

// Generators for the Unfolder ops (unf, unf-reuse, unf-type): properties C13 C14 (and
// the unfolder parts of C17 C20); "XUNF" = all of them, for development sweeps.

import (
	"fmt"
	"math/big"
	"reflect"
	"sort"
	"strings"
	"unicode"
)

// the 15 kinds the unfolder templates are instantiated with
var uKinds = []string{"any", "bool", "string", "int", "int8", "int16", "int32", "int64",
	"uint", "uint8", "uint16", "uint32", "uint64", "float32", "float64"}

func uKindRange(k string) (lo, hi *big.Int, ok bool) {
	m := map[string]string{"int": "i", "int8": "i8", "int16": "i16", "int32": "i32", "int64": "i64",
		"uint": "u", "uint8": "u8", "uint16": "u16", "uint32": "u32", "uint64": "u64"}
	n, ok := m[k]
	if !ok {
		return nil, nil, false
	}
	nk := KindByName(n)
	return nk.Lo, nk.Hi, true
}

var uF64Bits = []uint64{
	0, 0x8000000000000000, 0x3ff8000000000000, 0xbff8000000000000, 0x3ff0000000000000, 0xbff0000000000000,
	0x405fc00000000000, 0x4060000000000000, 0xc060000000000000, 0xc060200000000000, 0x406fe00000000000, 0x4070000000000000,
	0x40dfffc000000000, 0x40e0000000000000, 0x40effe0000000000, 0x40f0000000000000,
	0x41dfffffffc00000, 0x41e0000000000000, 0xc1e0000000000000, 0xc1e0000000200000, 0x41efffffffe00000, 0x41f0000000000000,
	0x43dfffffffffffff, 0x43e0000000000000, 0xc3e0000000000000, 0xc3e0000000000001, 0x43efffffffffffff, 0x43f0000000000000,
	0x4415af1d78b58c40, 0xc415af1d78b58c40, 0x7ff0000000000000, 0xfff0000000000000, 0x7ff8000000000000, 0x7ff0000000000001,
	0xfff8000000000123, 0x7ff00000e0000000, 0x0000000000000001, 0x000fffffffffffff, 0x7fefffffffffffff, 0xffefffffffffffff,
	0x47efffffe0000000, 0x47efffffefffffff, 0x47effffff0000000, 0x36a0000000000000, 0x3690000000000000, 0x3690000000000001,
	0x380fffffffffffff, 0x40091eb851eb851f, 0x4170000010000000, 0x4340000000000001, 0xc1d2a05f20000000, 0x41e65a0bc0000000,
}

var uF32Bits = []uint32{
	0, 0x80000000, 0x3fc00000, 0xbfc00000, 0x3f800000, 0xbf800000, 0x42fe0000, 0x43000000, 0xc3000000, 0xc3010000,
	0x437f0000, 0x43800000, 0x46fffe00, 0x47000000, 0x477fff00, 0x47800000, 0x4effffff, 0x4f000000, 0xcf000000, 0xcf000001,
	0x4f7fffff, 0x4f800000, 0x5effffff, 0x5f000000, 0xdf000000, 0xdf000001, 0x5f7fffff, 0x5f800000, 0x60ad78ec, 0xe0ad78ec,
	0x7f800000, 0xff800000, 0x7fc00000, 0x7f800001, 0xffc12345, 0x7fa00000, 0x00000001, 0x007fffff, 0x7f7fffff, 0xff7fffff,
	0x4048f5c3, 0x4b800001, 0xce9502f9,
}

// values of event kind ek probing a target of kind tk: fits, boundary, does not fit,
// negative into unsigned
func uProbeInts(ek NumKind, tk string) []*big.Int {
	var cands []*big.Int
	add := func(s string, d int64) {
		v := new(big.Int).Add(bi(s), big.NewInt(d))
		cands = append(cands, v)
	}
	for _, s := range []string{"0", "1", "7", "-1", "-7"} {
		add(s, 0)
	}
	if lo, hi, ok := uKindRange(tk); ok {
		for d := int64(-1); d <= 1; d++ {
			cands = append(cands, new(big.Int).Add(lo, big.NewInt(d)), new(big.Int).Add(hi, big.NewInt(d)))
		}
	} else {
		for _, s := range []string{"16777216", "16777217", "16777219", "-16777217", "9007199254740992", "9007199254740993",
			"-9007199254740993", "9223372036854775807", "9223372586610589697", "18446743523953737727", "18446744073709550591"} {
			add(s, 0)
		}
	}
	cands = append(cands, ek.Lo, ek.Hi, new(big.Int).Add(ek.Lo, big.NewInt(1)), new(big.Int).Sub(ek.Hi, big.NewInt(1)))
	seen := map[string]bool{}
	var out []*big.Int
	for _, v := range cands {
		if ek.Fits(v) && !seen[v.String()] {
			seen[v.String()] = true
			out = append(out, v)
		}
	}
	return out
}

// every scalar event kind (17: nil, bool, string by value / by reference, 11 integer
// kinds, 2 float kinds) with probing values for target kind tk
func uScalarProbes(tk string) []string {
	out := []string{"N", "T", "F", "S:", "S:61", "S:313233", "R:", "R:6162"}
	for _, ek := range Kinds {
		for _, v := range uProbeInts(ek, tk) {
			out = append(out, numTok(ek, v))
		}
	}
	for _, b := range uF32Bits {
		out = append(out, F32Tok(b))
	}
	for _, b := range uF64Bits {
		out = append(out, F64Tok(b))
	}
	return out
}

// genUnfKinds: EXHAUSTIVE 15 kinds x {scalar, slice, map} targets x 17 scalar event kinds
func genUnfKinds(r *Rand, tier string, emit func(string)) {
	for _, k := range uKinds {
		for _, ev := range uScalarProbes(k) {
			emit(fmt.Sprintf("unf %s - - %s", k, ev))
			emit(fmt.Sprintf("unf []%s - - [1:0,%s,]", k, ev))
			emit(fmt.Sprintf("unf map:%s - - {1:0,K:6b,%s,}", k, ev))
		}
		// the same events below a reflection unfolder (pointer / slice of slices / map of maps)
		for _, ev := range []string{"N", "T", "S:61", "i8:-1", "u64:18446744073709551615", "f32:bf800000", "f64:43f0000000000000"} {
			emit(fmt.Sprintf("unf *%s - - %s", k, ev))
			emit(fmt.Sprintf("unf **%s - - %s", k, ev))
			emit(fmt.Sprintf("unf []*%s - - [-1:0,%s,%s,]", k, ev, ev))
			emit(fmt.Sprintf("unf map:*%s - - {-1:0,K:61,%s,Q:62,%s,}", k, ev, ev))
			emit(fmt.Sprintf("unf [][]%s - - [-1:0,[-1:0,%s,],]", k, ev))
			emit(fmt.Sprintf("unf map:map:%s - - {-1:0,K:61,{-1:0,K:62,%s,},}", k, ev))
		}
	}
}

// ---------------------------------------------------------------------------
// type-directed generation

// member names of a struct type, as the library derives them
func uStructMembers(t reflect.Type) (names []string, types []reflect.Type) {
	for i := 0; i < t.NumField(); i++ {
		f := t.Field(i)
		if !unicode.IsUpper(rune(f.Name[0])) {
			continue
		}
		parts := strings.Split(f.Tag.Get("struct"), ",")
		if parts[0] == "-" {
			continue
		}
		omit, inline := false, false
		for _, o := range parts[1:] {
			switch strings.TrimSpace(o) {
			case "omit":
				omit = true
			case "inline", "squash":
				inline = true
			}
		}
		if omit {
			continue
		}
		if inline {
			if f.Type.Kind() == reflect.Struct {
				n2, t2 := uStructMembers(f.Type)
				names = append(names, n2...)
				types = append(types, t2...)
			}
			continue
		}
		n := strings.TrimSpace(parts[0])
		if n == "" {
			n = strings.ToLower(f.Name)
		}
		names = append(names, n)
		types = append(types, f.Type)
	}
	return
}

type ugen struct {
	r  *Rand
	ro RenderOpts
}

func (g *ugen) key(k string, out []string) []string {
	if g.ro.Refs && g.r.P(40) {
		return append(out, "Q:"+hx([]byte(k)))
	}
	return append(out, "K:"+hx([]byte(k)))
}

func (g *ugen) ln(n int) int {
	if g.ro.UnknownLn && g.r.P(50) {
		return -1
	}
	return n
}

var uKindOfReflect = map[reflect.Kind]string{
	reflect.Int: "i", reflect.Int8: "i8", reflect.Int16: "i16", reflect.Int32: "i32", reflect.Int64: "i64",
	reflect.Uint: "u", reflect.Uint8: "u8", reflect.Uint16: "u16", reflect.Uint32: "u32", reflect.Uint64: "u64",
}

var uUnknownKeys = []string{"zz", "unknown", "", "Z", "x2", "a.b", "\xff"}

// good: the tokens of a value compatible with t (what C13 demands to be assigned)
func (g *ugen) good(t reflect.Type, depth int, out []string) []string {
	r := g.r
	switch t.Kind() {
	case reflect.Interface:
		v := r.Val(ValOpts{MaxDepth: 3 - min(depth, 2), MaxWidth: 3, MaxStr: 12}, 0)
		return r.Render(v, g.ro, out)
	case reflect.Bool:
		return append(out, Pick(r, []string{"T", "F"}))
	case reflect.String:
		s := r.Str(12)
		if g.ro.Refs && r.P(40) {
			return append(out, "R:"+hx(s))
		}
		return append(out, "S:"+hx(s))
	case reflect.Float32:
		switch r.Intn(3) {
		case 0:
			return append(out, F32Tok(r.F32Bits(false)))
		default:
			return append(out, numTok(KindByName("i32"), big.NewInt(int64(r.Intn(2001)-1000))))
		}
	case reflect.Float64:
		switch r.Intn(3) {
		case 0:
			return append(out, F64Tok(r.F64Bits(false)))
		case 1:
			return append(out, F32Tok(r.F32Bits(true)))
		default:
			return append(out, numTok(KindByName("i64"), big.NewInt(int64(r.Intn(2001)-1000))))
		}
	case reflect.Slice:
		n := r.Intn(4)
		if depth > 3 {
			n = r.Intn(2)
		}
		if g.ro.Ext && r.P(40) {
			if tok, ok := g.typedFor(t.Elem(), n, false); ok {
				return append(out, tok)
			}
		}
		out = append(out, fmt.Sprintf("[%d:0", g.ln(n)))
		for i := 0; i < n; i++ {
			out = g.good(t.Elem(), depth+1, out)
		}
		return append(out, "]")
	case reflect.Map:
		n := r.Intn(4)
		if depth > 3 {
			n = r.Intn(2)
		}
		if g.ro.Ext && r.P(40) {
			if tok, ok := g.typedFor(t.Elem(), n, true); ok {
				return append(out, tok)
			}
		}
		out = append(out, fmt.Sprintf("{%d:0", g.ln(n)))
		for i := 0; i < n; i++ {
			out = g.key(string(Pick(r, [][]byte{[]byte("a"), []byte("b"), []byte("key"), {}, []byte("é"), []byte("k2")})), out)
			out = g.good(t.Elem(), depth+1, out)
		}
		return append(out, "}")
	case reflect.Ptr:
		if r.P(15) {
			return append(out, "N")
		}
		return g.good(t.Elem(), depth, out)
	case reflect.Struct:
		names, types := uStructMembers(t)
		var ms [][]string
		pct := 60
		if depth > 3 { // self-referential types: the value must stay finite
			pct = 12
		}
		for i := range names {
			if r.P(pct) {
				ms = append(ms, g.good(types[i], depth+1, g.key(names[i], nil)))
				if r.P(8) { // the same member twice
					ms = append(ms, g.good(types[i], depth+1, g.key(names[i], nil)))
				}
			}
		}
		for r.P(45) { // unknown members of any shape
			v := r.Val(ValOpts{MaxDepth: 4, MaxWidth: 3, MaxStr: 12}, 0)
			ms = append(ms, r.Render(v, g.ro, g.key(Pick(r, uUnknownKeys), nil)))
		}
		for i := len(ms) - 1; i > 0; i-- { // shuffle
			j := r.Intn(i + 1)
			ms[i], ms[j] = ms[j], ms[i]
		}
		out = append(out, fmt.Sprintf("{%d:0", g.ln(len(ms))))
		for _, m := range ms {
			out = append(out, m...)
		}
		return append(out, "}")
	}
	if k, ok := uKindOfReflect[t.Kind()]; ok {
		nk := KindByName(k)
		v := r.IntIn(nk)
		return append(out, numTok(r.kindFor(v), v))
	}
	panic("good: kind " + t.Kind().String())
}

// typedFor: a typed array / typed map event (extended visitor interface) whose elements a
// []et / map[string]et target accepts
func (g *ugen) typedFor(et reflect.Type, n int, isMap bool) (string, bool) {
	r := g.r
	v := &V{K: VArr}
	if isMap {
		v.K = VObj
	}
	for i := 0; i < n; i++ {
		var c *V
		switch et.Kind() {
		case reflect.Bool:
			c = &V{K: VBool, B: r.Bool()}
		case reflect.String:
			c = &V{K: VStr, S: r.Str(8)}
		case reflect.Float32:
			c = &V{K: VF32, Bits: uint64(r.F32Bits(false))}
		case reflect.Float64:
			if r.Bool() {
				c = &V{K: VF64, Bits: r.F64Bits(false)}
			} else {
				c = &V{K: VF32, Bits: uint64(r.F32Bits(true))}
			}
		default:
			k, ok := uKindOfReflect[et.Kind()]
			if !ok {
				return "", false
			}
			c = &V{K: VInt, I: r.IntIn(KindByName(k))}
		}
		v.Arr = append(v.Arr, c)
		v.Keys = append(v.Keys, []byte{byte('a' + i)})
	}
	if k, ok := homog(v); !ok || (n > 0 && k != v.Arr[0].K) {
		return "", false
	}
	if isMap && n > 1 && !g.ro.MultiMap {
		return "", false
	}
	if isMap {
		return r.typedObj(v)
	}
	return r.typedArr(v)
}

// a random initial value of type t in the canonical value syntax
func uRandInit(r *Rand, t reflect.Type, depth int) string {
	switch t.Kind() {
	case reflect.Bool:
		return Pick(r, []string{"true", "false"})
	case reflect.String:
		return "s:" + hx(r.Str(6))
	case reflect.Float32:
		return fmt.Sprintf("f:%08x", r.F32Bits(false))
	case reflect.Float64:
		return fmt.Sprintf("f:%016x", r.F64Bits(false))
	case reflect.Interface:
		switch r.Intn(5) {
		case 0:
			return "nil"
		case 1:
			return "<int>5"
		case 2:
			return "<string>s:6f6c64"
		case 3:
			return "<[]any>[<bool>true,nil]"
		default:
			return "<map:any>{6f=<int8>-1}"
		}
	case reflect.Slice:
		switch r.Intn(4) {
		case 0:
			return "nil"
		case 1:
			return "[]"
		}
		if depth > 4 {
			return "nil"
		}
		n := 1 + r.Intn(3)
		if depth > 2 {
			n = 1
		}
		es := make([]string, n)
		for i := range es {
			es[i] = uRandInit(r, t.Elem(), depth+1)
		}
		return "[" + strings.Join(es, ",") + "]"
	case reflect.Map:
		switch r.Intn(4) {
		case 0:
			return "nil"
		case 1:
			return "{}"
		}
		if depth > 4 {
			return "nil"
		}
		keys := []string{"61", "6b6579", "6f6c64"}
		n := 1 + r.Intn(len(keys))
		if depth > 2 {
			n = 1
		}
		es := make([]string, n)
		for i := range es {
			es[i] = keys[i] + "=" + uRandInit(r, t.Elem(), depth+1)
		}
		return "{" + strings.Join(es, ",") + "}"
	case reflect.Ptr:
		if r.P(40) || depth > 4 {
			return "nil"
		}
		return "&" + uRandInit(r, t.Elem(), depth+1)
	case reflect.Struct:
		fs := make([]string, t.NumField())
		for i := range fs {
			fs[i] = uRandInit(r, t.Field(i).Type, depth+1)
		}
		return "(" + strings.Join(fs, ",") + ")"
	}
	if k, ok := uKindOfReflect[t.Kind()]; ok {
		return r.IntIn(KindByName(k)).String()
	}
	panic("init: kind " + t.Kind().String())
}

func uRO(r *Rand) RenderOpts {
	return RenderOpts{Ext: r.P(60), Refs: r.P(60), UnknownLn: r.P(70), MultiMap: true}
}

// uRO1: typed map events with at most one entry (Go map iteration order is random: only
// deterministic where no entry can be refused)
func uRO1(r *Rand) RenderOpts {
	o := uRO(r)
	o.MultiMap = false
	return o
}

func uCache(r *Rand, pct int) string {
	if r.P(pct) {
		return Itoa(r.Intn(6) - 1)
	}
	return "-"
}

func mustType(s string) reflect.Type {
	t, ok := UParseType(s)
	if !ok {
		panic("bad type " + s)
	}
	return t
}

// genUnfAny: well-formed random streams, all rendition options, into interface{}
func genUnfAny(r *Rand, tier string, emit func(string)) {
	n := tierN(tier, 3000, 60000)
	for i := 0; i < n; i++ {
		v := r.Val(valOpts(tier), 0)
		toks := r.Render(v, uRO(r), nil)
		emit(fmt.Sprintf("unf any - %s %s", uCache(r, 25), strings.Join(toks, ",")))
	}
	// deep nesting: beyond the preallocated stacks (32) and the scratch slots (4)
	for _, d := range []int{3, 4, 5, 6, 9, 31, 32, 33, 40, 70} {
		var a, o, m []string
		for i := 0; i < d; i++ {
			a = append(a, "[-1:0")
			o = append(o, "{-1:0", "K:61")
			if i%2 == 0 {
				m = append(m, "[1:0")
			} else {
				m = append(m, "{1:0", "Q:6b")
			}
		}
		a, o, m = append(a, "i8:1"), append(o, "N"), append(m, "S:78")
		for i := d - 1; i >= 0; i-- {
			a = append(a, "i:2", "]")
			o = append(o, "K:62", "T", "}")
			if i%2 == 0 {
				m = append(m, "]")
			} else {
				m = append(m, "}")
			}
		}
		emit("unf any - - " + strings.Join(a, ","))
		emit("unf any - 2 " + strings.Join(o, ","))
		emit("unf any - - " + strings.Join(m, ","))
		emit("unf []any - - " + strings.Join(a, ","))
		emit("unf map:any - - " + strings.Join(o, ","))
	}
	// every announced element type, empty and with elements, top level and nested
	for bt := 0; bt <= 17; bt++ {
		emit(fmt.Sprintf("unf any - - [0:%d,]", bt))
		emit(fmt.Sprintf("unf any - - {0:%d,}", bt))
		emit(fmt.Sprintf("unf any - - [-1:0,[0:%d,],{0:%d,},]", bt, bt))
		emit(fmt.Sprintf("unf any - - {-1:0,K:61,[-1:%d,],K:62,{-1:%d,},}", bt, bt))
	}
	emit("unf any - - [0:99,]")
	emit("unf any - - {0:255,}")
	emit("unf any - - [2:4,N,N,]")
	emit("unf any - - {1:4,K:61,N,}")
	emit("unf any - - [2:1,b:1,u8:2,]")
	emit("unf any - - [2:11,b:1,u8:2,]")
	// duplicate keys
	emit("unf any - - {-1:0,K:61,i:1,K:61,S:62,Q:61,[0:0,],}")
	emit("unf any - 1 {3:5,Q:61,i:1,Q:62,i:2,Q:61,i:3,}")
}

var uStructTargets = []string{"@S1", "@S2", "@S3", "@S4", "@S4", "*@S4", "[]@S4", "map:@S4", "@Mid", "@In", "@In2", "*@S1", "**@S2", "[]@S1", "map:@S1", "[]*@In2",
	"map:*@S3", "[]@S3", "*[]@In", "map:[]@In", "[]map:@In", "[][]@In", "map:map:@In2", "*@S3",
	// named and self-referential types
	"@List", "@Tree", "@A", "@B", "@Named", "*@List", "[]@Tree", "map:@A", "**@B", "[]*@List", "map:[]@Tree", "@MyIn", "*@Named"}

var uOtherTargets = []string{"[]@Empty", "*[]@Empty", "map:[]@Empty", "map:@Empty", "@Empty", "[][]@Empty", "[]any", "map:any", "[]int", "[]string", "map:string", "map:float64", "[]uint8", "[][]int16",
	"map:[]string", "[]map:bool", "*int", "**string", "*[]*int8", "map:*float32", "[]*any", "*map:any", "[][][]uint", "*[]int",
	"map:map:map:int", "[]**int",
	"@RL", "@RM", "@MyInt", "@MyStr", "@MyBool", "@MyF", "@MyU8", "@Strs", "@MyInts", "@M", "@MAny", "@Anys", "@PInt", "@MyAny", "@KM", "@KMS", "map:@KMS",
	"[]@MyInt", "map:@Strs", "*@M", "[]@RL", "map:@RM", "*@MyInts", "[]@PInt"}

// genUnfStructs: compatible documents (plus unknown members of every shape) into the
// menagerie and into containers / pointers of it, optionally over an initial value
func genUnfStructs(r *Rand, tier string, emit func(string)) {
	var names []string
	for n := range menagerie {
		names = append(names, n)
	}
	sort.Strings(names)
	for _, n := range names {
		emit("unf-type @" + n)
	}
	n := tierN(tier, 4000, 80000)
	for i := 0; i < n; i++ {
		var tn string
		if r.P(75) {
			tn = Pick(r, uStructTargets)
		} else {
			tn = Pick(r, uOtherTargets)
		}
		t := mustType(tn)
		g := &ugen{r: r, ro: uRO(r)}
		init := "-"
		if r.P(35) {
			init = uRandInit(r, t, 0)
		}
		emit(fmt.Sprintf("unf %s %s %s %s", tn, init, uCache(r, 20), strings.Join(g.good(t, 0, nil), ",")))
	}
	// corpus: minimised findings U1 (a null array element keeps the old / stale slice element:
	// unfolderReflSlice.OnNil only advances the index) and U2 (a slice shortened by an announced
	// length and grown again within its capacity re-exposes stale elements:
	// unfolderReflSlice.prepare SetLen without clearing)
	emit("unf []*int [&5] - [1:0,N,]")
	emit("unf @S2 - - {-1:0,K:7073,[1:0,{1:0,K:78,i:7,},],K:7073,[1:0,N,],}")
	emit("unf @S2 - - {-1:0,K:696e73,[1:0,{1:0,K:78,i:7,},],K:696e73,[0:0,],K:696e73,[1:0,{0:0,},],}")
	emit("unf []@In [(7,s:61)] - [-1:0,{-1:0,},]")
	emit("unf []@In [(7,s:61)] - [1:0,N,]")
	// no target at all: NewUnfolder(nil), every event is refused
	for _, v := range append(append([]string{}, uShapeProbes[:12]...), "K:61", "Q:61", "]", "}") {
		emit("unf none - - " + v)
	}
	// targets the unfolder refuses
	for _, tn := range []string{"@BadInline", "@Dup", "@Arr", "@IMap", "[3]int", "imap:string", "*@Arr", "[]@IMap", "map:[2]bool", "[]@BadInline",
		"@BadA", "@BadB", "*@BadB", "[]@BadA"} {
		emit(fmt.Sprintf("unf %s - - N", tn))
	}
	// a self-referential type that is refused, then a type that has only been seen on the way:
	// the registry must not keep half-built unfolders
	emit("unf-reuse @BadA - N")
	for _, seq := range []string{"@BadA,@BadB", "@BadB,@BadA", "@BadA,@BadB,@BadA,@In", "@List,@BadA,@List,@BadB,@Tree", "@A,@B,@A", "@B,@BadB,@A,@BadA",
		"@Tree,@Tree", "@RL,@RM,@RL", "[]@BadA,@BadB,*@BadB", "@S1,@Arr,@S1,@In", "@Named,@MyIn,@In", "@IMap,@S2,@BadInline,@S3"} {
		emit("unf-seq " + seq)
	}
	// deep values of self-referential types
	for _, d := range []int{1, 2, 5, 31, 32, 33, 64} {
		l, tr := "N", "{-1:0,}"
		for i := 0; i < d; i++ {
			l = fmt.Sprintf("{2:0,K:76,i:%d,K:6e657874,%s,}", i, l)
			tr = fmt.Sprintf("{-1:0,K:6b696473,[1:0,%s,],K:6d,{1:0,Q:6b,%s,},K:7570,%s,}", tr, "N", "{-1:0,K:6e616d65,S:75,}")
		}
		emit("unf @List - - " + l)
		emit("unf *@List - - " + l)
		emit("unf @Tree - 1 " + tr)
	}
	// every member kind of every value shape ignored, by value and by reference
	for _, v := range uShapeProbes {
		emit("unf @In - - {-1:0,K:7a," + v + ",K:78,i:1,}")
		emit("unf @In - - {2:0,Q:7a," + v + ",Q:78,i:1,}")
		emit("unf @S3 - - {-1:0,K:78,i:1,K:," + v + ",K:61,i8:2,}")
	}
}

// value shapes used as probes (all well-formed single values)
var uShapeProbes = []string{
	"N", "T", "S:61", "R:6162", "i8:-1", "u64:18446744073709551615", "b:7", "f32:3fc00000", "f64:bff8000000000000",
	"[0:0,]", "[-1:0,]", "[1:0,i:1,]", "[-1:0,S:61,R:62,N,]", "[1:0,[-1:0,[0:0,],],]", "[-1:0,{-1:0,K:61,N,},]",
	"{0:0,}", "{-1:0,}", "{1:0,K:61,i:1,}", "{-1:0,Q:61,R:62,K:,N,}", "{-1:0,K:61,{1:0,Q:62,{0:0,},},}", "{1:0,K:61,[-1:0,{-1:0,},],}",
	"[2:6,i8:1,i8:-2,]", "{1:2,K:61,S:62,}", "[1:3,T,]", "[1:16,f64:3ff0000000000000,]", "[1:1,b:1,]",
	"Ai8:2:1/-2", "Au8:1:200", "Ab:3:1/2/3", "Abool:2:T/F", "Astr:2:61/", "Af32:1:3fc00000", "Af64:1:3ff8000000000000",
	"Ai:0:", "Au64:1:18446744073709551615", "Oi:1:61=1", "Ostr:1:61=62", "Obool:1:=T", "Of64:0:", "Ou16:1:6b=65535",
}

// contract violations at a value position
var uBadProbes = []string{"K:61", "Q:61", "]", "}", "[-1:0,K:61,]", "[-1:0,}", "{-1:0,i:1,}", "{-1:0,K:61,}", "{-1:0,K:61,K:62,N,}", "{-1:0,]", "[-1:0,i:1",
	// the announced element type is not what follows
	"[2:6,i8:1,S:61,]", "[1:3,i:1,]", "{1:2,K:61,i:1,}", "[1:6,[0:0,],]", "[1:2,N,]", "{1:16,K:61,{0:0,},}", "[1:5,f64:3ff0000000000000,]", "{1:3,K:61,S:54,}",
	// fewer / more elements than announced
	"[2:0,i:1,]", "[0:0,i:1,]", "{2:0,K:61,N,}", "{0:0,K:61,N,}", "[3:7,i16:1,]"}

// positions of a type down to the given depth: (prefix tokens, suffix tokens)
type uPos struct{ pre, suf []string }

func uPositions(t reflect.Type, depth int) []uPos {
	out := []uPos{{}}
	if depth == 0 {
		return out
	}
	wrap := func(pre, suf []string, sub []uPos) {
		for _, p := range sub {
			out = append(out, uPos{append(append([]string{}, pre...), p.pre...), append(append([]string{}, p.suf...), suf...)})
		}
	}
	switch t.Kind() {
	case reflect.Slice:
		wrap([]string{"[-1:0"}, []string{"]"}, uPositions(t.Elem(), depth-1))
		wrap([]string{"[2:0", "N"}, []string{"]"}, uPositions(t.Elem(), depth-1)[:1])
	case reflect.Map:
		wrap([]string{"{-1:0", "K:61"}, []string{"}"}, uPositions(t.Elem(), depth-1))
		wrap([]string{"{1:0", "Q:6b6579"}, []string{"}"}, uPositions(t.Elem(), depth-1)[:1])
	case reflect.Ptr:
		sub := uPositions(t.Elem(), depth)
		if len(sub) > 1 {
			out = append(out, sub[1:]...)
		}
	case reflect.Interface:
		wrap([]string{"[-1:0"}, []string{"]"}, uPositions(t, depth-1))
		wrap([]string{"{-1:0", "K:61"}, []string{"}"}, uPositions(t, depth-1))
	case reflect.Struct:
		names, types := uStructMembers(t)
		for i := range names {
			wrap([]string{"{-1:0", "K:" + hx([]byte(names[i]))}, []string{"}"}, uPositions(types[i], depth-1))
		}
		wrap([]string{"{-1:0", "K:7a7a"}, []string{"}"}, []uPos{{}})
	}
	return out
}

// genUnfMismatch: every target x every shape at every position of depth 0..2
func genUnfMismatch(r *Rand, tier string, emit func(string)) {
	var targets []string
	for _, k := range uKinds {
		targets = append(targets, k, "[]"+k, "map:"+k)
	}
	targets = append(targets, uStructTargets...)
	targets = append(targets, uOtherTargets...)
	for _, tn := range targets {
		t := mustType(tn)
		for _, pos := range uPositions(t, 2) {
			probes := uShapeProbes
			if len(pos.pre) > 3 && tier != "thorough" { // depth 2: a third of the probes, rotating
				var sub []string
				off := r.Intn(3)
				for i, p := range probes {
					if i%3 == off {
						sub = append(sub, p)
					}
				}
				probes = sub
			}
			for _, p := range probes {
				toks := append(append(append([]string{}, pos.pre...), p), pos.suf...)
				emit(fmt.Sprintf("unf %s - - %s", tn, strings.Join(toks, ",")))
			}
			for _, p := range uBadProbes {
				if len(pos.pre) > 3 && r.P(60) {
					continue
				}
				toks := append(append(append([]string{}, pos.pre...), p), pos.suf...)
				emit(fmt.Sprintf("unf %s - - %s", tn, strings.Join(toks, ",")))
			}
		}
	}
	// random token-level mutations of compatible documents
	n := tierN(tier, 2500, 50000)
	for i := 0; i < n; i++ {
		tn := Pick(r, targets)
		t := mustType(tn)
		g := &ugen{r: r, ro: uRO1(r)}
		toks := g.good(t, 0, nil)
		for k := 0; k < 1+r.Intn(2); k++ {
			j := r.Intn(len(toks))
			switch r.Intn(5) {
			case 0: // drop
				toks = append(append([]string{}, toks[:j]...), toks[j+1:]...)
			case 1: // duplicate
				toks = append(append(append([]string{}, toks[:j+1]...), toks[j]), toks[j+1:]...)
			case 2: // replace by a probe
				toks = append(append(append([]string{}, toks[:j]...), Pick(r, uShapeProbes)), toks[j+1:]...)
			case 3: // insert a probe
				toks = append(append(append([]string{}, toks[:j]...), Pick(r, append(uShapeProbes, uBadProbes...))), toks[j:]...)
			default: // swap with a neighbour
				if j+1 < len(toks) {
					toks = append([]string{}, toks...)
					toks[j], toks[j+1] = toks[j+1], toks[j]
				}
			}
			if len(toks) == 0 {
				toks = []string{"N"}
			}
		}
		init := "-"
		if r.P(20) {
			init = uRandInit(r, t, 0)
		}
		emit(fmt.Sprintf("unf %s %s %s %s", tn, init, uCache(r, 10), strings.Join(toks, ",")))
	}
}

// genUnfLens: announced lengths not backed by elements
func genUnfLens(r *Rand, tier string, emit func(string)) {
	targets := []string{"any", "[]any", "[]int", "[]uint8", "[]string", "[]float64", "[]bool", "map:any", "map:int", "[]@In", "[][]int",
		"[]*int", "[]map:int", "@S1", "@S2", "@In", "*[]int16", "map:[]int", "[]any"}
	lens := []string{"0", "1", "2", "3", "1023", "1024", "1025", "65536", "268435456", "2147483648", "4611686018427387904", "9223372036854775807", "-1", "-2", "-9223372036854775808"}
	for _, tn := range targets {
		for _, l := range lens {
			for _, bt := range []string{"0", "5", "11"} {
				emit(fmt.Sprintf("unf %s - - [%s:%s,]", tn, l, bt))
				emit(fmt.Sprintf("unf %s - - {%s:%s,}", tn, l, bt))
			}
			emit(fmt.Sprintf("unf %s - - [%s:0,i:1,i:2,]", tn, l))
			emit(fmt.Sprintf("unf %s - - [%s:0,[%s:0,],]", tn, l, l))
			emit(fmt.Sprintf("unf %s - - {%s:0,K:61,[%s:0,],K:63,[%s:7,i16:1,],K:696e73,[%s:0,{%s:0,},],K:7373,[%s:0,[%s:0,],],}", tn, l, l, l, l, l, l, l))
			emit(fmt.Sprintf("unf %s - - [%s:0,{%s:0,K:78,i:1,},]", tn, l, l))
			emit(fmt.Sprintf("unf %s - - {%s:0,K:7a7a,[%s:0,[%s:0,],{%s:0,},],}", tn, l, l, l, l))
		}
	}
	// existing slices: overwritten, truncated, extended
	for _, tn := range []string{"[]int16", "[]any", "[]string", "[]@In", "[]*int", "[][]int"} {
		t := mustType(tn)
		for i := 0; i < tierN(tier, 40, 400); i++ {
			init := uRandInit(r, t, 0)
			g := &ugen{r: r, ro: RenderOpts{UnknownLn: r.Bool()}}
			toks := g.good(t, 0, nil)
			if r.P(50) { // announce a different length
				toks[0] = fmt.Sprintf("[%d:0", r.Intn(6))
			}
			emit(fmt.Sprintf("unf %s %s - %s", tn, init, strings.Join(toks, ",")))
		}
	}
	// existing NON-NIL slices (a reused buffer, a field assigned earlier in the same document) and an
	// array header announcing far more than the stream delivers: the announced length is a hint for
	// the first allocation, never a licence to grow the target to it
	bigs := []string{"1025", "65536", "16777216", "268435456", "4611686018427387904", "9223372036854775807"}
	for _, tn := range []string{"[]int16", "[]int64", "[]any", "[]string", "[]float64", "[]bool", "[]uint8"} {
		t := mustType(tn)
		for i := 0; i < 3; i++ {
			init := uRandInit(r, t, 0)
			for _, l := range bigs {
				emit(fmt.Sprintf("unf %s %s - [%s:0,]", tn, init, l))
				g := &ugen{r: r, ro: RenderOpts{}}
				toks := g.good(t, 0, nil)
				toks[0] = fmt.Sprintf("[%s:0", l)
				emit(fmt.Sprintf("unf %s %s - %s", tn, init, strings.Join(toks, ",")))
			}
		}
	}
	for _, l := range bigs {
		emit(fmt.Sprintf("unf @S1 - - {-1:0,K:63,[2:0,i:1,i:2,],K:63,[%s:0,i:3,],}", l))
		emit(fmt.Sprintf("unf @S1 - - {-1:0,K:63,[-1:0,i:1,],K:63,[%s:7,i16:3,],K:63,[%s:0,],}", l, l))
		emit(fmt.Sprintf("unf @In2 - - {-1:0,K:71,[1:0,S:61,],K:71,[%s:0,S:62,],}", l))
	}
	// the same slice member several times in one document: len shrinks and grows within cap
	for i := 0; i < tierN(tier, 300, 6000); i++ {
		g := &ugen{r: r, ro: RenderOpts{UnknownLn: r.Bool(), Refs: r.Bool()}}
		tn, key, et := "@S2", "ins", "[]@In"
		switch r.Intn(4) {
		case 0:
			tn, key, et = "@S2", "ps", "[]*@In"
		case 1:
			tn, key, et = "@S2", "ss", "[][]int"
		case 2:
			tn, key, et = "@S1", "c", "[]int16"
		}
		toks := []string{"{-1:0"}
		for k := 0; k < 2+r.Intn(3); k++ {
			toks = g.key(key, toks)
			toks = g.good(mustType(et), 1, toks)
		}
		toks = append(toks, "}")
		emit(fmt.Sprintf("unf %s - - %s", tn, strings.Join(toks, ",")))
	}
}

// genUnfReuse: one unfolder over several documents; abandon at every event index of small
// documents, then a follow-up document
func genUnfReuse(r *Rand, tier string, emit func(string)) {
	targets := []string{"[]@Empty", "map:[]@Empty", "*[]@Empty", "@S4", "any", "[]any", "map:any", "[]int", "map:string", "@S1", "@S2", "@S3", "[]@In", "map:@In", "**@In", "[][]int", "*[]*int8", "map:map:int",
		"@List", "@Tree", "@A", "@Named", "@RL", "@RM", "@M"}
	small := tierN(tier, 6, 40)
	for _, tn := range targets {
		t := mustType(tn)
		for i := 0; i < small; i++ {
			g := &ugen{r: r, ro: uRO(r)}
			doc := g.good(t, 0, nil)
			if len(doc) > 24 {
				continue
			}
			probe := strings.Join(g.good(t, 0, nil), ",")
			for k := 0; k <= len(doc); k++ {
				emit(fmt.Sprintf("unf-reuse %s %s a%d:%s;%s", tn, uCache(r, 15), k, strings.Join(doc, ","), probe))
			}
		}
	}
	// histories mixing complete, abandoned and failing documents
	n := tierN(tier, 1500, 30000)
	for i := 0; i < n; i++ {
		tn := Pick(r, targets)
		t := mustType(tn)
		nd := 2 + r.Intn(5)
		var docs []string
		for d := 0; d < nd; d++ {
			g := &ugen{r: r, ro: uRO1(r)}
			toks := g.good(t, 0, nil)
			s := strings.Join(toks, ",")
			if d < nd-1 {
				switch r.Intn(6) {
				case 0: // abandoned
					s = fmt.Sprintf("a%d:%s", r.Intn(len(toks)+1), s)
				case 1: // a document the target refuses
					toks[r.Intn(len(toks))] = Pick(r, uShapeProbes)
					s = strings.Join(toks, ",")
				case 2: // the producer stops inside the document
					s = strings.Join(toks[:r.Intn(len(toks))+1], ",")
				}
			}
			docs = append(docs, s)
		}
		emit(fmt.Sprintf("unf-reuse %s %s %s", tn, uCache(r, 25), strings.Join(docs, ";")))
	}
}

// genUnfCache: key-cache capacities -1..4 (and larger) against map / struct / generic targets
func genUnfCache(r *Rand, tier string, emit func(string)) {
	targets := []string{"map:int", "map:any", "map:string", "any", "map:@In", "map:map:int", "map:[]int", "@S2", "[]map:uint8", "map:*int",
		"@RM", "@M", "@Tree", "@KM"}
	n := tierN(tier, 150, 3000)
	for _, tn := range targets {
		t := mustType(tn)
		for cap := -1; cap <= 5; cap++ {
			for i := 0; i < n/7+1; i++ {
				g := &ugen{r: r, ro: RenderOpts{Refs: true, UnknownLn: r.Bool(), Ext: r.P(30), MultiMap: true}}
				var toks []string
				if t.Kind() == reflect.Map && r.P(60) {
					// many by-reference keys over a small alphabet around the capacity
					alpha := cap + r.Intn(4)
					if alpha < 1 {
						alpha = 1
					}
					toks = []string{"{-1:0"}
					for k := 0; k < r.Intn(12); k++ {
						c := r.Intn(alpha)
						key := []byte{byte('a' + c)}
						if c%3 == 2 {
							key = append(key, 'x', byte(c))
						}
						if c == 4 {
							key = nil
						}
						if r.P(85) {
							toks = append(toks, "Q:"+hx(key))
						} else {
							toks = append(toks, "K:"+hx(key))
						}
						toks = g.good(t.Elem(), 1, toks)
					}
					toks = append(toks, "}")
				} else {
					toks = g.good(t, 0, nil)
				}
				emit(fmt.Sprintf("unf %s - %d %s", tn, cap, strings.Join(toks, ",")))
			}
		}
	}
}

// genUnfRefusedHist: ONE unfolder, SetTarget over histories that mix refused self-referential
// types (BadA / BadB: a member of unsupported type deep inside a cycle), types that are only
// seen ON THE WAY while such a type is being refused (their unfolders may have been completed
// and cached around a placeholder that is never filled), and healthy types: whether a type is
// accepted must not depend on the history (C17), and nothing half-built may survive (C14)
func genUnfRefusedHist(r *Rand, tier string, emit func(string)) {
	ts := []string{"@BadA", "@BadB", "*@BadB", "**@BadA", "[]@BadA", "[]*@BadB", "map:@BadB", "*[]*@BadA", "map:*@BadA",
		"@List", "@In", "@Arr", "[]@Arr", "@A", "*@Arr", "@Tree"}
	for _, a := range ts {
		for _, b := range ts {
			emit("unf-seq " + a + "," + b)
		}
	}
	n := tierN(tier, 150, 3000)
	for i := 0; i < n; i++ {
		k := 3 + r.Intn(4)
		var seq []string
		for j := 0; j < k; j++ {
			seq = append(seq, Pick(r, ts))
		}
		emit("unf-seq " + strings.Join(seq, ","))
	}
}

func genUnfAll(gs ...GenFn) GenFn {
	return func(r *Rand, tier string, emit func(string)) {
		for _, g := range gs {
			g(r.Fork(), tier, emit)
		}
	}
}

func init() {
	RegisterGen("XUNF", genUnfAll(genUnfKinds, genUnfAny, genUnfStructs, genUnfMismatch, genUnfLens, genUnfReuse, genUnfCache))
	RegisterGen("C13", genUnfAll(genUnfKinds, genUnfAny, genUnfStructs))
	RegisterGen("C14", genUnfAll(genUnfMismatch, genUnfLens, genUnfReuse, genUnfKinds))
	RegisterGen("C17", genUnfReuse)
	for _, p := range []string{"C17", "C14", "C13", "XUNF"} {
		RegisterGen(p, genUnfRefusedHist)
	}
	RegisterGen("C20", genUnfCache)
}
