package sfh

import (
	"fmt"
	"runtime"
	"strings"
)

// The streaming part of `conc`: per goroutine one parser and one pull decoder of every format
// over a document with long strings and keys (beyond every internal buffer size: 64, 512, 4096)
// that arrive split over many small Writes / reads, delivered to a visitor that YIELDS inside its
// string callbacks before it looks at what it was given (a consumer blocked in a slow writer).
// Every goroutine's document is made of its own letter, so foreign bytes in its result are
// visible; the result must be the one of the goroutine running alone.
type yieldRec struct {
	RefRecorder
	yield func()
}

func (y *yieldRec) OnStringRef(s []byte) error {
	y.yield()
	err := y.RefRecorder.OnStringRef(s)
	y.yield()
	return err
}
func (y *yieldRec) OnKeyRef(s []byte) error {
	y.yield()
	err := y.RefRecorder.OnKeyRef(s)
	y.yield()
	return err
}
func (y *yieldRec) OnString(s string) error {
	y.yield()
	return y.RefRecorder.OnString(s)
}
func (y *yieldRec) OnKey(s string) error {
	y.yield()
	return y.RefRecorder.OnKey(s)
}

func concStreamDoc(g int) string {
	c := fmt.Sprintf("%02x", 'a'+g%26)
	s := func(n int) string { return strings.Repeat(c, n) }
	return "{-1:0,K:" + s(70) + ",S:" + s(600) + ",K:" + s(65) + "01,[-1:0,S:" + s(100) + ",S:" + s(3) + ",],K:" + s(513) + ",S:" + s(4097) + ",}"
}

func concStreamPipeline(g int, yield func()) string {
	var out []string
	for _, fn := range ModelledFormats {
		f := Formats[fn]
		wire := encodeToks(fn, concStreamDoc(g))
		if fn == "json" {
			wire = append(wire, ' ')
		}
		// push parser, 61-byte Writes (every long string still arrives in many pieces)
		rec := &yieldRec{RefRecorder{Recorder{FailAt: -1}}, yield}
		p := f.NewParser(rec)
		verdict := "ok"
		for i := 0; i < len(wire); i += 61 {
			j := i + 61
			if j > len(wire) {
				j = len(wire)
			}
			if _, err := p.Write(wire[i:j]); err != nil {
				verdict = "err"
				break
			}
			yield()
		}
		out = append(out, rec.String()+"="+verdict)
		// pull decoder, 16-byte buffer, 37-byte reads (each taken in three Reads)
		var chunks [][]byte
		for i := 0; i < len(wire); i += 37 {
			j := i + 37
			if j > len(wire) {
				j = len(wire)
			}
			chunks = append(chunks, wire[i:j])
		}
		rec2 := &yieldRec{RefRecorder{Recorder{FailAt: -1}}, yield}
		d := f.NewDecoder(&ChunkReader{Chunks: chunks}, 16, rec2)
		verdict = "ok"
		if err := d.Next(); err != nil {
			verdict = "err"
		}
		out = append(out, rec2.String()+"="+verdict)
	}
	return strings.Join(out, ";")
}

var _ = runtime.Gosched
