package sfh

import (
	"fmt"
	"reflect"
	"strings"

	structform "github.com/elastic/go-structform"
	"github.com/elastic/go-structform/gotype"
)

// Targets of the `alias` op that are outside the mirror's universe (written `@@Name`): every
// path on which the Unfolder hands a string or key to something that KEEPS it, other than the
// generated primitive states — user UnfoldState implementations (registered function,
// Expander), the reflection pass-through states (pointers, slices / maps of pointers, of named
// strings, of slices), interface{} behind a pointer.
type ABag struct {
	U  AUser // registered func(*AUser) UnfoldState: keeps every key and string it is given
	E  AExp  // Expander: the same
	P  *string
	PP **string
	LP []*string
	MP map[string]*string
	LN []ANStr
	MN map[string]ANStr
	LL [][]string
	ML map[string][]string
	PI *interface{}
	LA []map[string]interface{}
}

type ANStr string

type AUser struct{ M map[string]string }
type AExp struct{ M map[string]string }

func (u *AExp) Expand() gotype.UnfoldState { return &aBagState{m: &u.M} }

// aBagState: object of strings -> map, keeping the key and value strings exactly as received
type aBagState struct {
	gotype.BaseUnfoldState
	m   *map[string]string
	key string
}

func (s *aBagState) OnObjectStart(ctx gotype.UnfoldCtx, _ int, _ structform.BaseType) error {
	*s.m = map[string]string{}
	return nil
}
func (s *aBagState) OnObjectFinished(ctx gotype.UnfoldCtx) error  { ctx.Done(); return nil }
func (s *aBagState) OnKey(ctx gotype.UnfoldCtx, key string) error { s.key = key; return nil }
func (s *aBagState) OnString(ctx gotype.UnfoldCtx, str string) error {
	(*s.m)[s.key] = str
	return nil
}

var aliasUnfoldOpts = gotype.Unfolders(
	func(to *AUser) gotype.UnfoldState { return &aBagState{m: &to.M} },
)

var aliasTypes = map[string]reflect.Type{
	"ABag": reflect.TypeOf(ABag{}),
}

// aliasBagDoc: a document fitting ABag, strings and keys drawn from r.aliasKey (long, with
// escapes, non-ASCII)
func (r *Rand) aliasBagDoc() *V {
	str := func() *V { return &V{K: VStr, S: r.aliasKey(nil)} }
	strs := func(n int) *V {
		a := &V{K: VArr}
		for i := 0; i < n; i++ {
			a.Arr = append(a.Arr, str())
		}
		return a
	}
	obj := func(n int, val func() *V) *V {
		o := &V{K: VObj}
		seen := map[string]bool{}
		for i := 0; i < n; i++ {
			k := r.aliasKey(nil)
			if seen[string(k)] {
				continue
			}
			seen[string(k)] = true
			o.Keys = append(o.Keys, k)
			o.Arr = append(o.Arr, val())
		}
		return o
	}
	doc := &V{K: VObj}
	add := func(k string, v *V) { doc.Keys = append(doc.Keys, []byte(k)); doc.Arr = append(doc.Arr, v) }
	add("u", obj(1+r.Intn(3), str))
	add("e", obj(1+r.Intn(3), str))
	add("p", str())
	add("pp", str())
	add("lp", strs(1+r.Intn(3)))
	add("mp", obj(1+r.Intn(2), str))
	add("ln", strs(1+r.Intn(3)))
	add("mn", obj(1+r.Intn(2), str))
	add("ll", &V{K: VArr, Arr: []*V{strs(1 + r.Intn(2)), strs(1)}})
	add("ml", obj(1+r.Intn(2), func() *V { return strs(1 + r.Intn(2)) }))
	add("pi", str())
	add("la", &V{K: VArr, Arr: []*V{obj(1+r.Intn(2), str)}})
	// members in random order
	for i := len(doc.Arr) - 1; i > 0; i-- {
		j := r.Intn(i + 1)
		doc.Arr[i], doc.Arr[j] = doc.Arr[j], doc.Arr[i]
		doc.Keys[i], doc.Keys[j] = doc.Keys[j], doc.Keys[i]
	}
	return doc
}

func genAliasBag(r *Rand, tier string, emit func(string)) {
	n := tierN(tier, 150, 700)
	for _, f := range ModelledFormats {
		for i := 0; i < n; i++ {
			d1 := r.WireDoc(f, r.aliasBagDoc(), r.P(50))
			d2 := r.WireDoc(f, r.aliasBagDoc(), r.P(50))
			if f == "json" {
				d1 = append(d1, ' ')
				d2 = append(d2, ' ')
			}
			if len(d1) > 6000 || len(d2) > 6000 {
				continue
			}
			cut := func(d []byte) [][]byte {
				switch r.Intn(3) {
				case 0:
					return [][]byte{d}
				case 1:
					return r.RandChunks(d)
				}
				var one [][]byte
				for j := range d {
					one = append(one, d[j:j+1])
				}
				return one
			}
			mode := "W"
			if r.P(40) {
				mode = "D" + fmt.Sprint(Pick(r, []int{1, 7, 16, 64, 4096}))
			}
			cache := "-"
			if r.P(30) {
				cache = fmt.Sprint(r.Intn(4))
			}
			emit(strings.Join([]string{"alias", f, "@@ABag", cache, fmt.Sprint(r.Intn(2) * r.Intn(2)), mode, ChunksString(cut(d1)), ChunksString(cut(d2))}, " "))
		}
	}
}

func init() {
	for _, p := range []string{"C15", "C10", "C13"} {
		RegisterGen(p, genAliasBag)
	}
}
