package sfh

import (
	"runtime"
	"bytes"
	"fmt"
	"strconv"
	"strings"

	structform "github.com/elastic/go-structform"
	"github.com/elastic/go-structform/gotype"
	"github.com/elastic/go-structform/json"
)

// Second pipeline of the concurrency op: instances configured from SHARED option values
// (built once at package level, as applications do): user fold functions, and all three kinds
// of user unfolders (primitive, processing, stateful), plus an Expander type.  Documents
// arrive in chunks, with a scheduling point between the chunks, so that another goroutine's
// unfolder initialises a value of the same user type while this one waits for its event.

type cuLevel int               // stateful user unfolder: reported by name
type cuTemp float64            // primitive user unfolder: from a string "12.5C"
type cuPair struct{ A, B int } // processing user unfolder: from an array [a, b]
type cuExp int                 // Expander: from a decimal string

type cuRecord struct {
	Name  string
	Level cuLevel
	Temp  cuTemp
	Pair  cuPair
	Exp   cuExp
	Lv2   cuLevel
	Tail  []int
}

type cuLevelState struct {
	gotype.BaseUnfoldState
	to *cuLevel
}

func (s *cuLevelState) OnString(ctx gotype.UnfoldCtx, name string) error {
	defer ctx.Done()
	switch name {
	case "low":
		*s.to = 1
	case "medium":
		*s.to = 2
	case "high":
		*s.to = 3
	default:
		return fmt.Errorf("unknown level %q", name)
	}
	return nil
}

type cuExpState struct {
	gotype.BaseUnfoldState
	to *cuExp
}

func (s *cuExpState) OnString(ctx gotype.UnfoldCtx, str string) error {
	defer ctx.Done()
	n, err := strconv.Atoi(str)
	*s.to = cuExp(n)
	return err
}

func (e *cuExp) Expand() gotype.UnfoldState { return &cuExpState{to: e} }

var cuLevelNames = []string{"", "low", "medium", "high"}

var concUnfoldOpts = gotype.Unfolders(
	func(to *cuLevel) gotype.UnfoldState { return &cuLevelState{to: to} },
	func(to *cuTemp, from string) error {
		f, err := strconv.ParseFloat(strings.TrimSuffix(from, "C"), 64)
		*to = cuTemp(f)
		return err
	},
	func(to *cuPair) (interface{}, func(*cuPair, interface{}) error) {
		cell := &[]int{}
		return cell, func(to *cuPair, cell interface{}) error {
			xs := *(cell.(*[]int))
			if len(xs) != 2 {
				return fmt.Errorf("pair needs 2 elements")
			}
			to.A, to.B = xs[0], xs[1]
			return nil
		}
	},
)

var concFoldOpts = gotype.Folders(
	func(l *cuLevel, v structform.ExtVisitor) error { return v.OnString(cuLevelNames[int(*l)%4]) },
	func(t *cuTemp, v structform.ExtVisitor) error {
		return v.OnString(strconv.FormatFloat(float64(*t), 'g', -1, 64) + "C")
	},
	func(p *cuPair, v structform.ExtVisitor) error { return v.OnIntArray([]int{p.A, p.B}) },
	func(e *cuExp, v structform.ExtVisitor) error { return v.OnString(strconv.Itoa(int(*e))) },
	// POINTER-SHAPED types (a map; a struct of one pointer): when such a value is not addressable
	// (top level, inside interface{} / map[string]interface{} / []interface{}) the library hands the
	// fold function the address of a COPY; the function yields before it reads its argument, so
	// that a copy shared between Iterators built from this option value is observed
	func(t *cuTags, v structform.ExtVisitor) error {
		runtime.Gosched()
		return v.OnString(fmt.Sprintf("tags:%d:%d", len(*t), (*t)["id"]))
	},
	func(b *cuBox, v structform.ExtVisitor) error {
		runtime.Gosched()
		return v.OnInt(*b.P)
	},
)

type cuTags map[string]int
type cuBox struct{ P *int }

// values of the pointer-shaped types in every non-addressable position, folded with the SHARED options
func concUserPtrShaped(g int) string {
	var buf bytes.Buffer
	it, err := gotype.NewIterator(json.NewVisitor(&buf), concFoldOpts)
	if err != nil {
		return "err:iter"
	}
	n := 100 + g
	tags := cuTags{"id": g}
	for i := 0; i < g%5; i++ {
		tags[fmt.Sprintf("k%d", i)] = i
	}
	vals := []interface{}{tags, cuBox{&n},
		map[string]interface{}{"t": tags}, map[string]interface{}{"b": cuBox{&n}}, // one member each: map iteration order is random
		[]interface{}{tags, cuBox{&n}, []interface{}{tags}}}
	for _, v := range vals {
		if err := it.Fold(v); err != nil {
			return "err:fold:" + err.Error()
		}
		buf.WriteByte(';')
	}
	return buf.String()
}

func cuInput(g int) cuRecord {
	return cuRecord{Name: fmt.Sprintf("g%d", g), Level: cuLevel(1 + g%3), Temp: cuTemp(float64(g) + 0.5), Pair: cuPair{g, -g},
		Exp: cuExp(1000 + g), Lv2: cuLevel(1 + (g+1)%3), Tail: []int{g, g + 1}}
}

// one run: fold with the shared fold options -> JSON -> chunked parse into an Unfolder built
// from the shared unfold options; yield() is called between chunks
func concUserPipeline(in cuRecord, yield func()) string {
	var buf bytes.Buffer
	it, err := gotype.NewIterator(json.NewVisitor(&buf), concFoldOpts)
	if err != nil {
		return "err:iter"
	}
	if err := it.Fold(&in); err != nil {
		return "err:fold:" + err.Error()
	}
	// unknown members of every shape between the known ones (skipped by the ignore states,
	// which are package-level singletons shared by all Unfolders)
	if buf.Len() > 2 && buf.Bytes()[0] == '{' {
		doc := buf.Bytes()
		extra := []byte(`"skip1":[[1,2],[3,[4,[5]]],[]],"skip2":{"a":[{"b":[[]]}],"c":{}},"skip3":[[["x"]],"y",{"z":[1]}],`)
		nd := append([]byte{'{'}, extra...)
		nd = append(nd, doc[1:len(doc)-1]...)
		nd = append(nd, []byte(`,"skip4":[[[[1]]],[[2]]],"skip5":"s"}`)...)
		buf.Reset()
		buf.Write(nd)
	}
	var out cuRecord
	u, err := gotype.NewUnfolder(&out, concUnfoldOpts)
	if err != nil {
		return "err:unfolder"
	}
	p := json.NewParser(u)
	doc := buf.Bytes()
	// cut after every ':' so that a value's unfolder is initialised in one Write and fed in the next
	start := 0
	for i := 0; i <= len(doc); i++ {
		if i == len(doc) || doc[i] == ':' || doc[i] == '[' || doc[i] == ',' {
			end := i
			if i < len(doc) {
				end = i + 1
			}
			if end > start {
				if _, err := p.Write(doc[start:end]); err != nil {
					return "err:parse:" + err.Error()
				}
				start = end
				yield()
			}
		}
	}
	return fmt.Sprintf("%s=>%+v|%s", doc, out, concUserPtrShaped(len(in.Name)*7+in.Pair.A))
}
