package sfh

import (
	"fmt"
)

// string-heavy documents for C15: every string length class around the parsers' buffer
// sizes, with and without characters that force unescaping (JSON), repeated keys (key-cache
// hits), delivered whole / byte-wise / cut at random (incl. inside strings and keys)
func (r *Rand) aliasStr() []byte {
	n := Pick(r, []int{0, 1, 2, 7, 8, 23, 24, 31, 32, 33, 63, 64, 65, 255, 256, 300, 1023, 1024, 1500, 4095, 4096, 5000})
	if r.P(60) {
		n = r.Intn(40)
	}
	b := make([]byte, n)
	for i := range b {
		b[i] = byte('a' + r.Intn(26))
	}
	if n > 0 && r.P(35) {
		// something the JSON encoder / a foreign producer escapes
		b[r.Intn(n)] = Pick(r, []byte{'\n', '"', '\\', '\t', 0x01, '<', '/'})
	}
	if n > 1 && r.P(15) {
		copy(b[r.Intn(n-1):], "é")
	}
	return b
}

func (r *Rand) aliasKey(pool [][]byte) []byte {
	if len(pool) > 0 && r.P(60) {
		return Pick(r, pool)
	}
	k := r.aliasStr()
	if len(k) > 300 {
		k = k[:300]
	}
	return k
}

// shape: "mss" flat object of strings, "ss" array of strings, "any" nested mix
func (r *Rand) aliasDoc(shape string, keys [][]byte, depth int) *V {
	switch shape {
	case "mms", "mas":
		// an object of objects / arrays of strings with keys from a small pool (so that keys REPEAT
		// within one document): for map[string]map[string]string / map[string][]string targets the
		// unfolder handles the outer map by reflection, and a repeated key finds its entry present
		v := &V{K: VObj}
		for i := 0; i < 2+r.Intn(5); i++ {
			v.Keys = append(v.Keys, r.aliasKey(keys))
			v.Arr = append(v.Arr, r.aliasDoc(map[string]string{"mms": "mss", "mas": "ss"}[shape], keys, depth+1))
		}
		return v
	case "mss":
		v := &V{K: VObj}
		for i := 0; i < 1+r.Intn(6); i++ {
			v.Keys = append(v.Keys, r.aliasKey(keys))
			v.Arr = append(v.Arr, &V{K: VStr, S: r.aliasStr()})
		}
		return v
	case "ss":
		v := &V{K: VArr}
		for i := 0; i < 1+r.Intn(6); i++ {
			v.Arr = append(v.Arr, &V{K: VStr, S: r.aliasStr()})
		}
		return v
	}
	if depth >= 3 || r.P(40) {
		return &V{K: VStr, S: r.aliasStr()}
	}
	if r.Bool() {
		v := &V{K: VObj}
		for i := 0; i < 1+r.Intn(4); i++ {
			v.Keys = append(v.Keys, r.aliasKey(keys))
			v.Arr = append(v.Arr, r.aliasDoc("any", keys, depth+1))
		}
		return v
	}
	v := &V{K: VArr}
	for i := 0; i < 1+r.Intn(4); i++ {
		v.Arr = append(v.Arr, r.aliasDoc("any", keys, depth+1))
	}
	return v
}

func genAlias(r *Rand, tier string, emit func(string)) {
	n := tierN(tier, 500, 8000)
	for _, f := range ModelledFormats {
		for i := 0; i < n; i++ {
			shape := Pick(r, []string{"mss", "ss", "any", "any", "mms", "mas"})
			target := map[string][]string{"mss": {"map:string", "map:any", "any"}, "ss": {"[]string", "[]any", "any"}, "any": {"any"},
				"mms": {"map:map:string", "map:map:string", "map:any"}, "mas": {"map:[]string", "map:[]string", "map:[]any"}}[shape]
			var keys [][]byte
			for k := 0; k < 3; k++ {
				keys = append(keys, r.aliasKey(nil))
			}
			top := func() *V {
				v := r.aliasDoc(shape, keys, 0)
				if shape == "any" && v.K == VStr {
					v = &V{K: VArr, Arr: []*V{v}}
				}
				return v
			}
			d1 := r.WireDoc(f, top(), r.P(50))
			d2 := r.WireDoc(f, top(), r.P(50))
			if f == "json" {
				d1 = append(d1, ' ')
				d2 = append(d2, ' ')
			}
			if len(d1) > 30000 || len(d2) > 30000 {
				continue
			}
			cut := func(d []byte) [][]byte {
				switch r.Intn(4) {
				case 0:
					return [][]byte{d}
				case 1:
					if len(d) <= 400 {
						var one [][]byte
						for j := range d {
							one = append(one, d[j:j+1])
						}
						return one
					}
				}
				return r.RandChunks(d)
			}
			cache := Pick(r, []string{"-", "-", "0", "1", "2", "8"})
			gc := "0"
			if r.P(8) {
				gc = "1"
			}
			mode := Pick(r, []string{"W", "W", "W", "D1", "D2", "D7", "D16", "D64", "D4096"})
			emit(fmt.Sprintf("alias %s %s %s %s %s %s %s", f, Pick(r, target), cache, gc, mode, ChunksString(cut(d1)), ChunksString(cut(d2))))
			if i%3 == 0 {
				emit(fmt.Sprintf("aliasrec %s %s %s", f, Pick(r, []string{"W", "W", "P"}), ChunksString(cut(d1))))
			}
		}
	}
}

func init() {
	RegisterGen("C15", genAlias)
	RegisterGen("XALIAS", genAlias)
}
