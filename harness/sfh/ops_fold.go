package sfh

// ops_fold.go — ops exercising gotype.Fold (mirror: lean/SF/Gotype/Fold.lean,
// handlers: lean/SF/Ops/Fold.lean).
//
//	fold <type> <value> <failAt|-1> [nf]         (nf: iterator WITHOUT the user fold functions)
//	    -> <xevents as delivered>|<ok|err|err:injected|panic|fatal>
//	fold-seq <type> <value> <type> <value> …
//	    -> <ev|verdict>;;<ev|verdict>…||<ev|verdict>;;…             or  fatal
//	    first half: ONE iterator folds all values, second half: a fresh iterator per value
//	typeinfo <type>   -> reflect view of the type (kind, method flags, fields)
//	goval <type> <value> -> canonical print of the parsed value (self-test of the value grammar)
//
// Extended events are recorded as such (A…/O… tokens, by-ref strings/keys as R:/Q:);
// a typed map is printed in the order the recorder's own `range` saw it; members the
// folder itself iterates (reflection / interface maps) arrive in the folder's order.
// The Lean model takes every map in the order observed here (guided replay), so all
// comparisons are byte-exact.
//
// "fatal": the Go runtime died (stack overflow cannot be recovered). Values for which
// that was possible before the fixes of branch fold-fixes (recursive type terms; an inline
// interface field inside the value of another inline interface field) are still folded in
// a child process, so that a regression shows up as a verdict instead of killing the sweep.

import (
	"bytes"
	"fmt"
	"io"
	"math"
	"os"
	"os/exec"
	"reflect"
	"runtime/debug"
	"strconv"
	"strings"

	structform "github.com/elastic/go-structform"
	"github.com/elastic/go-structform/gotype"
)

// XRecorder is a recording structform.ExtVisitor: every call is ONE event (token);
// FailAt counts calls. With Stream set (child process) every token is also written out
// at once, so that the events delivered before a fatal error are not lost.
type XRecorder struct {
	Toks   []string
	FailAt int
	N      int
	Stream io.Writer
}

func NewXRecorder() *XRecorder {
	r := &XRecorder{FailAt: -1}
	if isChild {
		r.Stream = os.Stderr
	}
	return r
}

var _ structform.ExtVisitor = (*XRecorder)(nil)

func (r *XRecorder) add(t string) error {
	i := r.N
	r.N++
	r.Toks = append(r.Toks, t)
	if r.Stream != nil {
		io.WriteString(r.Stream, "EV "+t+"\n")
	}
	if r.FailAt >= 0 && i >= r.FailAt {
		return ErrInjected
	}
	return nil
}

func (r *XRecorder) String() string {
	if len(r.Toks) == 0 {
		return "-"
	}
	return strings.Join(r.Toks, ",")
}

func (r *XRecorder) OnObjectStart(l int, bt structform.BaseType) error {
	return r.add(fmt.Sprintf("{%d:%d", l, int(bt)))
}
func (r *XRecorder) OnObjectFinished() error { return r.add("}") }
func (r *XRecorder) OnKey(s string) error    { return r.add("K:" + hx([]byte(s))) }
func (r *XRecorder) OnArrayStart(l int, bt structform.BaseType) error {
	return r.add(fmt.Sprintf("[%d:%d", l, int(bt)))
}
func (r *XRecorder) OnArrayFinished() error    { return r.add("]") }
func (r *XRecorder) OnNil() error              { return r.add("N") }
func (r *XRecorder) OnBool(b bool) error       { return r.add(fmtB(b)) }
func (r *XRecorder) OnString(s string) error   { return r.add("S:" + hx([]byte(s))) }
func (r *XRecorder) OnInt8(i int8) error       { return r.add("i8:" + fmtI(i)) }
func (r *XRecorder) OnInt16(i int16) error     { return r.add("i16:" + fmtI(i)) }
func (r *XRecorder) OnInt32(i int32) error     { return r.add("i32:" + fmtI(i)) }
func (r *XRecorder) OnInt64(i int64) error     { return r.add("i64:" + fmtI(i)) }
func (r *XRecorder) OnInt(i int) error         { return r.add("i:" + fmtI(i)) }
func (r *XRecorder) OnByte(b byte) error       { return r.add("b:" + fmtU(b)) }
func (r *XRecorder) OnUint8(u uint8) error     { return r.add("u8:" + fmtU(u)) }
func (r *XRecorder) OnUint16(u uint16) error   { return r.add("u16:" + fmtU(u)) }
func (r *XRecorder) OnUint32(u uint32) error   { return r.add("u32:" + fmtU(u)) }
func (r *XRecorder) OnUint64(u uint64) error   { return r.add("u64:" + fmtU(u)) }
func (r *XRecorder) OnUint(u uint) error       { return r.add("u:" + fmtU(u)) }
func (r *XRecorder) OnFloat32(f float32) error { return r.add("f32:" + fmtF32(f)) }
func (r *XRecorder) OnFloat64(f float64) error { return r.add("f64:" + fmtF64(f)) }

func (r *XRecorder) OnStringRef(s []byte) error { return r.add("R:" + hx(s)) }
func (r *XRecorder) OnKeyRef(s []byte) error    { return r.add("Q:" + hx(s)) }

func arrTok[T any](kind string, a []T, f func(T) string) string {
	es := make([]string, len(a))
	for i, x := range a {
		es[i] = f(x)
	}
	return fmt.Sprintf("A%s:%d:%s", kind, len(a), strings.Join(es, "/"))
}

func objTok[T any](kind string, m map[string]T, f func(T) string) string {
	es := make([]string, 0, len(m))
	for k, x := range m {
		es = append(es, hx([]byte(k))+"="+f(x))
	}
	return fmt.Sprintf("O%s:%d:%s", kind, len(m), strings.Join(es, "/"))
}

func fmtI[T ~int | ~int8 | ~int16 | ~int32 | ~int64](x T) string {
	return strconv.FormatInt(int64(x), 10)
}
func fmtU[T ~uint | ~uint8 | ~uint16 | ~uint32 | ~uint64](x T) string {
	return strconv.FormatUint(uint64(x), 10)
}
func fmtB(b bool) string {
	if b {
		return "T"
	}
	return "F"
}
func fmtS(s string) string    { return hx([]byte(s)) }
func fmtF32(f float32) string { return fmt.Sprintf("%08x", math.Float32bits(f)) }
func fmtF64(f float64) string { return fmt.Sprintf("%016x", math.Float64bits(f)) }

func (r *XRecorder) OnBoolArray(a []bool) error     { return r.add(arrTok("bool", a, fmtB)) }
func (r *XRecorder) OnStringArray(a []string) error { return r.add(arrTok("str", a, fmtS)) }
func (r *XRecorder) OnInt8Array(a []int8) error     { return r.add(arrTok("i8", a, fmtI[int8])) }
func (r *XRecorder) OnInt16Array(a []int16) error   { return r.add(arrTok("i16", a, fmtI[int16])) }
func (r *XRecorder) OnInt32Array(a []int32) error   { return r.add(arrTok("i32", a, fmtI[int32])) }
func (r *XRecorder) OnInt64Array(a []int64) error   { return r.add(arrTok("i64", a, fmtI[int64])) }
func (r *XRecorder) OnIntArray(a []int) error       { return r.add(arrTok("i", a, fmtI[int])) }
func (r *XRecorder) OnBytes(a []byte) error         { return r.add(arrTok("b", a, fmtU[byte])) }
func (r *XRecorder) OnUint8Array(a []uint8) error   { return r.add(arrTok("u8", a, fmtU[uint8])) }
func (r *XRecorder) OnUint16Array(a []uint16) error { return r.add(arrTok("u16", a, fmtU[uint16])) }
func (r *XRecorder) OnUint32Array(a []uint32) error { return r.add(arrTok("u32", a, fmtU[uint32])) }
func (r *XRecorder) OnUint64Array(a []uint64) error { return r.add(arrTok("u64", a, fmtU[uint64])) }
func (r *XRecorder) OnUintArray(a []uint) error     { return r.add(arrTok("u", a, fmtU[uint])) }
func (r *XRecorder) OnFloat32Array(a []float32) error {
	return r.add(arrTok("f32", a, fmtF32))
}
func (r *XRecorder) OnFloat64Array(a []float64) error {
	return r.add(arrTok("f64", a, fmtF64))
}

func (r *XRecorder) OnBoolObject(m map[string]bool) error     { return r.add(objTok("bool", m, fmtB)) }
func (r *XRecorder) OnStringObject(m map[string]string) error { return r.add(objTok("str", m, fmtS)) }
func (r *XRecorder) OnInt8Object(m map[string]int8) error     { return r.add(objTok("i8", m, fmtI[int8])) }
func (r *XRecorder) OnInt16Object(m map[string]int16) error {
	return r.add(objTok("i16", m, fmtI[int16]))
}
func (r *XRecorder) OnInt32Object(m map[string]int32) error {
	return r.add(objTok("i32", m, fmtI[int32]))
}
func (r *XRecorder) OnInt64Object(m map[string]int64) error {
	return r.add(objTok("i64", m, fmtI[int64]))
}
func (r *XRecorder) OnIntObject(m map[string]int) error { return r.add(objTok("i", m, fmtI[int])) }
func (r *XRecorder) OnUint8Object(m map[string]uint8) error {
	return r.add(objTok("u8", m, fmtU[uint8]))
}
func (r *XRecorder) OnUint16Object(m map[string]uint16) error {
	return r.add(objTok("u16", m, fmtU[uint16]))
}
func (r *XRecorder) OnUint32Object(m map[string]uint32) error {
	return r.add(objTok("u32", m, fmtU[uint32]))
}
func (r *XRecorder) OnUint64Object(m map[string]uint64) error {
	return r.add(objTok("u64", m, fmtU[uint64]))
}
func (r *XRecorder) OnUintObject(m map[string]uint) error { return r.add(objTok("u", m, fmtU[uint])) }
func (r *XRecorder) OnFloat32Object(m map[string]float32) error {
	return r.add(objTok("f32", m, fmtF32))
}
func (r *XRecorder) OnFloat64Object(m map[string]float64) error {
	return r.add(objTok("f64", m, fmtF64))
}

func (r *XRecorder) reset(failAt int) {
	r.Toks = nil
	r.N = 0
	r.FailAt = failAt
}

// ---------------------------------------------------------------------------
// isolation of folds that can kill the process

func tagOf(f reflect.StructField) (name string, omit, omitEmpty, inline bool) {
	s := strings.Split(f.Tag.Get("struct"), ",")
	if s[0] == "-" {
		return "", true, false, false
	}
	for _, o := range s[1:] {
		switch strings.TrimSpace(o) {
		case "squash", "inline":
			inline = true
		case "omitempty":
			omitEmpty = true
		case "omit":
			omit = true
		}
	}
	return strings.TrimSpace(s[0]), omit, omitEmpty, inline
}

// typeCyclic: does the type term contain a cycle (conservative: every field counts)?
func typeCyclic(t reflect.Type, visiting map[reflect.Type]bool) bool {
	if visiting[t] {
		return true
	}
	switch t.Kind() {
	case reflect.Ptr, reflect.Slice, reflect.Array, reflect.Map, reflect.Chan:
		visiting[t] = true
		defer delete(visiting, t)
		return typeCyclic(t.Elem(), visiting)
	case reflect.Struct:
		visiting[t] = true
		defer delete(visiting, t)
		for i := 0; i < t.NumField(); i++ {
			if typeCyclic(t.Field(i).Type, visiting) {
				return true
			}
		}
	}
	return false
}

// riskyValue: a cyclic type term is reachable (statically or as a dynamic type), or a
// non-nil inline interface field occurs below another one.
func riskyValue(v reflect.Value, inl int) bool {
	if typeCyclic(v.Type(), map[reflect.Type]bool{}) {
		return true
	}
	switch v.Kind() {
	case reflect.Ptr, reflect.Interface:
		return !v.IsNil() && riskyValue(v.Elem(), inl)
	case reflect.Slice, reflect.Array:
		for i := 0; i < v.Len(); i++ {
			if riskyValue(v.Index(i), inl) {
				return true
			}
		}
	case reflect.Map:
		it := v.MapRange()
		for it.Next() {
			if riskyValue(it.Value(), inl) {
				return true
			}
		}
	case reflect.Struct:
		for i := 0; i < v.NumField(); i++ {
			f, fv := v.Type().Field(i), v.Field(i)
			_, _, _, inline := tagOf(f)
			d := inl
			bt := f.Type
			for bt.Kind() == reflect.Ptr {
				bt = bt.Elem()
			}
			if inline && bt.Kind() == reflect.Interface && !fv.IsNil() {
				if inl > 0 {
					return true
				}
				d++
			}
			if riskyValue(fv, d) {
				return true
			}
		}
	}
	return false
}

var isChild = os.Getenv("SFH_CHILD") != ""

func init() {
	if isChild {
		debug.SetMaxStack(16 << 20)
	}
}

// runIsolated re-runs one op line in a child process. A dead child is "fatal"; for a
// single fold the events it had delivered before (streamed on stderr) are kept:
// "<events>|fatal".
func runIsolated(line string, keepEvents bool) string {
	cmd := exec.Command(os.Args[0], "run")
	cmd.Env = append(os.Environ(), "SFH_CHILD=1", "SFIMPL_CURSOR=", "GOTRACEBACK=none")
	cmd.Stdin = strings.NewReader(line + "\n")
	var out, errOut bytes.Buffer
	cmd.Stdout = &out
	cmd.Stderr = &errOut
	err := cmd.Run()
	parts := strings.SplitN(strings.TrimRight(out.String(), "\n"), "\t=>\t", 2)
	if err != nil || len(parts) != 2 {
		if !keepEvents {
			return "fatal"
		}
		var toks []string
		for _, l := range strings.Split(errOut.String(), "\n") {
			if strings.HasPrefix(l, "EV ") {
				toks = append(toks, l[3:])
			}
		}
		if len(toks) == 0 {
			return "-|fatal"
		}
		return strings.Join(toks, ",") + "|fatal"
	}
	return parts[1]
}

// ---------------------------------------------------------------------------
// ops

func foldArg(v reflect.Value) interface{} {
	if v.Kind() == reflect.Interface && v.IsNil() {
		return nil
	}
	return v.Interface()
}

func foldOnce(it *gotype.Iterator, v reflect.Value) (verdict string) {
	defer func() {
		if r := recover(); r != nil {
			if os.Getenv("VERIF_DEBUG") != "" {
				fmt.Fprintln(os.Stderr, "panic:", r)
			}
			verdict = "panic"
		}
	}()
	return ErrClass(it.Fold(foldArg(v)))
}

func opFold(args []string) string {
	if len(args) != 3 && !(len(args) == 4 && args[3] == "nf") {
		return "bad-op"
	}
	t := ParseType(args[0])
	v := ParseValue(t, args[1])
	k, err := strconv.Atoi(args[2])
	if err != nil {
		return "bad-op"
	}
	opts := []gotype.FoldOption{UserFolders()}
	if len(args) == 4 { // "nf": no user fold functions registered
		opts = nil
	}
	if !isChild && riskyValue(v, 0) {
		return runIsolated("fold "+strings.Join(args, " "), true)
	}
	rec := NewXRecorder()
	rec.FailAt = k
	it, err := gotype.NewIterator(rec, opts...)
	if err != nil {
		return "bad-op"
	}
	verdict := foldOnce(it, v)
	return rec.String() + "|" + verdict
}

func opFoldSeq(args []string) string {
	if len(args) == 0 || len(args)%2 != 0 {
		return "bad-op"
	}
	var vals []reflect.Value
	risky := false
	for i := 0; i < len(args); i += 2 {
		v := ParseValue(ParseType(args[i]), args[i+1])
		vals = append(vals, v)
		risky = risky || riskyValue(v, 0)
	}
	if !isChild && risky {
		return runIsolated("fold-seq "+strings.Join(args, " "), false)
	}
	var one, fresh []string
	rec := NewXRecorder()
	it, err := gotype.NewIterator(rec, UserFolders())
	if err != nil {
		return "bad-op"
	}
	for _, v := range vals {
		rec.reset(-1)
		verdict := foldOnce(it, v)
		one = append(one, rec.String()+"|"+verdict)
	}
	for _, v := range vals {
		rec := NewXRecorder()
		it, err := gotype.NewIterator(rec, UserFolders())
		if err != nil {
			return "bad-op"
		}
		verdict := foldOnce(it, v)
		fresh = append(fresh, rec.String()+"|"+verdict)
	}
	return strings.Join(one, ";;") + "||" + strings.Join(fresh, ";;")
}

func opTypeInfo(args []string) string {
	if len(args) != 1 {
		return "bad-op"
	}
	return TypeInfo(ParseType(args[0]))
}

func opGoVal(args []string) string {
	if len(args) != 2 {
		return "bad-op"
	}
	t := ParseType(args[0])
	return PrintType(t) + " " + PrintValue(ParseValue(t, args[1]))
}

func init() {
	RegisterOp("fold", opFold)
	RegisterOp("fold-seq", opFoldSeq)
	RegisterOp("typeinfo", opTypeInfo)
	RegisterOp("goval", opGoVal)
}
