package sfh

import (
	"fmt"
	"strings"

	"github.com/elastic/go-structform/gotype"
	"github.com/elastic/go-structform/json"
)

// unf-user <hex doc>;<hex doc>;…        (C14 / C17 for Unfolders configured with USER unfolders)
//
// One Unfolder built from the shared option value (stateful, primitive and processing user
// unfolders, an Expander type, and a processing unfolder that uses the TARGET ITSELF as its
// cell — unfold by reflection, then validate / normalise) processes the JSON documents one
// after the other: SetTarget(&fresh record), parse, Reset after a failed or incomplete
// document.  Every document is also processed by a NEW Unfolder built from the same options.
//
//	-> same | differ@<i>:<reused>|<fresh> | panic@<i>
type cuNorm struct{ V int }

type cuRecord2 struct {
	Name  string
	Level cuLevel
	Temp  cuTemp
	Pair  cuPair
	Exp   cuExp
	Norm  cuNorm
	PN    *cuNorm
	Ns    []cuNorm
	Lv2   *cuLevel
	Tail  []int
}

var concUnfoldOpts2 = gotype.Unfolders(
	func(to *cuLevel) gotype.UnfoldState { return &cuLevelState{to: to} },
	func(to *cuTemp, from string) error {
		var f float64
		_, err := fmt.Sscanf(strings.TrimSuffix(from, "C"), "%g", &f)
		*to = cuTemp(f)
		return err
	},
	func(to *cuPair) (interface{}, func(*cuPair, interface{}) error) {
		cell := &[]int{}
		return cell, func(to *cuPair, cell interface{}) error {
			xs := *(cell.(*[]int))
			if len(xs) != 2 {
				return fmt.Errorf("pair needs 2 elements")
			}
			to.A, to.B = xs[0], xs[1]
			return nil
		}
	},
	// the target itself is the cell: default unfolding, then validation / normalisation
	func(to *cuNorm) (interface{}, func(*cuNorm, interface{}) error) {
		return to, func(to *cuNorm, _ interface{}) error {
			if to.V < 0 {
				return fmt.Errorf("negative")
			}
			if to.V > 100 {
				to.V = 100
			}
			return nil
		}
	},
)

type cuHolder struct {
	P *cuNorm
	Q cuNorm
	L *cuLevel
}

// kind selects the target variable: r = the record, n = a cuNorm itself (a user-handled type as
// TOP-LEVEL target), h = a struct reaching cuNorm / cuLevel through pointers, l = a cuLevel, p = a cuPair
func unfUserDoc(u *gotype.Unfolder, kind byte, doc []byte) (res string) {
	defer func() {
		if r := recover(); r != nil {
			res = "panic"
		}
	}()
	var rec cuRecord2
	var n cuNorm
	var h cuHolder
	var l cuLevel
	var pr cuPair
	var target interface{}
	show := func() string { return "" }
	switch kind {
	case 'n':
		target, show = &n, func() string { return fmt.Sprint(n.V) }
	case 'h':
		target, show = &h, func() string {
			p, lv := "nil", "nil"
			if h.P != nil {
				p = fmt.Sprint(h.P.V)
			}
			if h.L != nil {
				lv = fmt.Sprint(int(*h.L))
			}
			return fmt.Sprintf("%s,%d,%s", p, h.Q.V, lv)
		}
	case 'l':
		target, show = &l, func() string { return fmt.Sprint(int(l)) }
	case 'p':
		target, show = &pr, func() string { return fmt.Sprint(pr) }
	default:
		target, show = &rec, func() string { return cuPrint(&rec) }
	}
	if err := u.SetTarget(target); err != nil {
		return "seterr"
	}
	p := json.NewParser(u)
	err := p.Parse(doc)
	if err != nil {
		u.Reset()
		return fmt.Sprintf("err|%s", show())
	}
	return fmt.Sprintf("ok|%s", show())
}

func cuPrint(r *cuRecord2) string {
	pn := "nil"
	if r.PN != nil {
		pn = fmt.Sprint(r.PN.V)
	}
	l2 := "nil"
	if r.Lv2 != nil {
		l2 = fmt.Sprint(int(*r.Lv2))
	}
	return fmt.Sprintf("%q,%d,%g,%v,%d,%d,%s,%v,%s,%v", r.Name, r.Level, float64(r.Temp), r.Pair, r.Exp, r.Norm.V, pn, r.Ns, l2, r.Tail)
}

func opUnfUser(args []string) string {
	docs := strings.Split(args[0], ";")
	u, err := gotype.NewUnfolder(nil, concUnfoldOpts2)
	if err != nil {
		return "err:new"
	}
	for i, d := range docs {
		kind := byte('r')
		if len(d) > 2 && d[1] == ':' {
			kind, d = d[0], d[2:]
		}
		doc := mustHex(d)
		a := unfUserDoc(u, kind, doc)
		f, err := gotype.NewUnfolder(nil, concUnfoldOpts2)
		if err != nil {
			return "err:new"
		}
		b := unfUserDoc(f, kind, doc)
		if a == "panic" || b == "panic" {
			return fmt.Sprintf("panic@%d", i)
		}
		// an error leaves the record wherever the stream stopped; both stop at the same event
		if a != b {
			return fmt.Sprintf("differ@%d:%s|%s", i, a, b)
		}
	}
	return "same"
}

func genUnfUser(r *Rand, tier string, emit func(string)) {
	pool := []string{
		`{"name":"a","level":"high","temp":"12.5C","pair":[1,2],"exp":"7","norm":{"v":250},"pn":{"v":5},"ns":[{"v":1},{"v":999}],"lv2":"low","tail":[1,2]}`,
		`{"norm":{"v":250}}`, `{"norm":{"v":-3}}`, `{"pn":{"v":101}}`, `{"pn":{"v":-1}}`, `{"pn":null}`, `{"ns":[{"v":300},{"v":-2}]}`, `{"ns":[]}`,
		`{"level":"bogus"}`, `{"level":"low","lv2":"high"}`, `{"lv2":null}`, `{"pair":[1]}`, `{"pair":[1,2,3]}`, `{"pair":[7,8]}`, `{"temp":"x"}`, `{"temp":"1C"}`,
		`{"exp":"12"}`, `{"exp":"zz"}`, `{"name":"n","unknown":{"a":[1,{"b":2}]},"norm":{"v":7}}`, `{"name":`, `{"norm":{"v":`, `{"ns":[{"v":5},`, `[1,2]`, `{}`, `null`,
		`{"norm":{"v":100},"pn":{"v":100}}`, `{"norm":{"v":101}}`, `{"tail":[1,2,3],"name":"t"}`, `{"norm":5}`, `{"pn":[1]}`, `{"ns":{"v":1}}`,
	}
	// documents for the other target kinds (kind prefix)
	kinded := []string{
		"n:" + hx([]byte(`{"v":250}`)), "n:" + hx([]byte(`{"v":-3}`)), "n:" + hx([]byte(`{"v":7}`)), "n:" + hx([]byte(`{"v":`)), "n:" + hx([]byte(`5`)),
		"h:" + hx([]byte(`{"p":{"v":250},"q":{"v":300},"l":"high"}`)), "h:" + hx([]byte(`{"p":{"v":-1}}`)), "h:" + hx([]byte(`{"q":{"v":-1}}`)),
		"h:" + hx([]byte(`{"p":null,"l":"bogus"}`)), "h:" + hx([]byte(`{"l":"low"}`)),
		"l:" + hx([]byte(`"medium"`)), "l:" + hx([]byte(`"nope"`)), "l:" + hx([]byte(`1`)),
		"p:" + hx([]byte(`[1,2]`)), "p:" + hx([]byte(`[1]`)), "p:" + hx([]byte(`{"a":1}`)),
	}
	n := tierN(tier, 600, 10000)
	for i := 0; i < n; i++ {
		k := 2 + r.Intn(5)
		var ds []string
		for j := 0; j < k; j++ {
			if r.P(45) {
				ds = append(ds, Pick(r, kinded))
			} else {
				ds = append(ds, hx([]byte(Pick(r, pool))))
			}
		}
		emit("unf-user " + strings.Join(ds, ";"))
	}
	for _, a := range kinded {
		for _, b := range kinded {
			emit("unf-user " + a + ";" + b + ";" + a)
		}
	}
	// every ordered pair
	for _, a := range pool {
		for _, b := range pool {
			emit("unf-user " + hx([]byte(a)) + ";" + hx([]byte(b)) + ";" + hx([]byte(pool[0])))
		}
	}
}

func init() {
	RegisterOp("unf-user", opUnfUser)
	RegisterGen("C14", genUnfUser)
	RegisterGen("C17", genUnfUser)
	RegisterGen("XUNF", genUnfUser)
}
