package sfh

import (
	"fmt"
	"strings"

	structform "github.com/elastic/go-structform"
)

// genMarkerLens: strings and keys whose LENGTH byte equals a byte that also has a meaning as a
// marker / delimiter of the format (UBJSON: every marker letter, '[' ']' '{' '}' '#' '$';
// CBOR: the major-type boundaries 23/24/25, 0x5f/0x7f/0x9f/0xbf/0xff; JSON: n/a) — a parser
// that looks at a pending length byte as if it were a marker only fails for exactly these
// lengths, and only when a chunk boundary separates the length marker from the length.
// Emitted as `rt` lines (C01: encoder output re-parsed whole and byte-wise), `chunk` lines
// (C02: every two-way cut near the header) and `xcode` lines (C08).
func genMarkerLens(r *Rand, tier string, emit func(string)) {
	lens := []int{23, 24, 25, 35, 36, 67, 68, 70, 72, 73, 76, 78, 83, 84, 85, 90, 91, 93, 95, 100, 105, 108, 123, 125, 127, 128, 159, 191, 255, 256}
	for _, n := range lens {
		s := strings.Repeat("61", n)
		docs := []string{
			"{-1:0,K:" + s + ",T,}",
			"{1:0,K:" + s + ",i:1,}",
			"[-1:0,S:" + s + ",N,]",
			"[2:0,S:" + s + ",S:" + s + ",]",
			"{-1:0,K:61,S:" + s + ",K:" + s + ",[-1:0,S:" + s + ",],}",
			"S:" + s,
		}
		for _, f := range ModelledFormats {
			for _, d := range docs {
				emit(fmt.Sprintf("rt %s - %s", f, d))
			}
		}
	}
}

func init() {
	RegisterGen("C01", genMarkerLens)
	RegisterGen("C07", func(r *Rand, tier string, emit func(string)) {
		genMarkerLens(r, tier, func(l string) {
			f := strings.Fields(l)
			emit(fmt.Sprintf("enc %s %s -1 %s", f[1], f[2], f[3]))
		})
	})
}

// encodeToks: the wire form the library's own encoder writes for a token stream
func encodeToks(f string, doc string) []byte {
	w := &FailWriter{FailFrom: -1}
	v, _ := Formats[f].NewEncoder(w, "")
	ev := structform.EnsureExtVisitor(v)
	for _, t := range Toks(doc) {
		if err := PlayTok(ev, t); err != nil {
			return nil
		}
	}
	return append([]byte(nil), w.Buf.Bytes()...)
}

// genXcodeMarkerLens: the marker-length documents as transcoding SOURCES, byte-wise and with
// every two-way cut inside the first 12 bytes and around every string header
func genXcodeMarkerLens(r *Rand, tier string, emit func(string)) {
	genMarkerLens(r, tier, func(l string) {
		f := strings.Fields(l)
		src := f[1]
		wire := encodeToks(src, f[3])
		if len(wire) < 2 || len(wire) > 700 {
			return
		}
		if src == "json" {
			wire = append(wire, ' ')
		}
		var one [][]byte
		for j := range wire {
			one = append(one, wire[j:j+1])
		}
		cuts := map[int]bool{}
		for c := 1; c < len(wire) && c <= 12; c++ {
			cuts[c] = true
		}
		for c := len(wire) - 6; c < len(wire); c++ {
			if c > 0 {
				cuts[c] = true
			}
		}
		for _, dst := range ModelledFormats {
			emit(fmt.Sprintf("xcode %s %s - %s", src, dst, ChunksString(one)))
			for c := 1; c < len(wire); c++ {
				if cuts[c] {
					emit(fmt.Sprintf("xcode %s %s - %s", src, dst, ChunksString([][]byte{wire[:c], wire[c:]})))
				}
			}
		}
		emit(fmt.Sprintf("chunk %s W %s", src, ChunksString(one)))
		for c := 1; c < len(wire); c++ {
			if cuts[c] {
				emit(fmt.Sprintf("chunk %s R %s", src, ChunksString([][]byte{wire[:c], wire[c:]})))
			}
		}
	})
}

func init() {
	RegisterGen("C08", onlyOp("xcode", genXcodeMarkerLens))
	RegisterGen("C02", onlyOp("chunk", genXcodeMarkerLens))
	RegisterGen("C06", func(r *Rand, tier string, emit func(string)) {
		genXcodeMarkerLens(r, tier, func(l string) {
			f := strings.Fields(l)
			if f[0] == "chunk" && f[1] == "ubj" {
				emit("parse ubj " + f[2] + " -1 " + f[3])
			}
		})
	})
}

// genTruncMarkerLens: the marker-length documents CUT SHORT inside their first header bytes —
// every prefix of up to 14 bytes, whole, with every two-way cut and byte by byte, through Write +
// end of input and through the reader entry point: a length byte that looks like a closing
// marker must not end the document when it arrives in its own chunk (C03: truncated input is an
// error; C02: the verdict does not depend on the cut)
func genTruncMarkerLens(r *Rand, tier string, emit func(string)) {
	seen := map[string]bool{}
	genMarkerLens(r, tier, func(l string) {
		f := strings.Fields(l)
		wire := encodeToks(f[1], f[3])
		for n := 1; n <= 14 && n < len(wire); n++ {
			p := wire[:n]
			key := f[1] + ":" + string(p)
			if seen[key] {
				continue
			}
			seen[key] = true
			for c := 1; c < n; c++ {
				for _, entry := range []string{"W", "R"} {
					emit(fmt.Sprintf("parse %s %s -1 %s", f[1], entry, ChunksString([][]byte{p[:c], p[c:]})))
				}
			}
			emit(fmt.Sprintf("parse %s P -1 %s", f[1], ChunksString([][]byte{p})))
			var one [][]byte
			for j := range p {
				one = append(one, p[j:j+1])
			}
			emit(fmt.Sprintf("parse %s W -1 %s", f[1], ChunksString(one)))
		}
	})
}

func init() {
	RegisterGen("C03", genTruncMarkerLens)
	RegisterGen("C02", func(r *Rand, tier string, emit func(string)) {
		genTruncMarkerLens(r, tier, func(l string) {
			f := strings.Fields(l)
			if f[2] == "W" || f[2] == "R" {
				emit("chunk " + f[1] + " " + f[2] + " " + f[4])
			}
		})
	})
}
