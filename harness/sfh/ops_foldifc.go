package sfh

import (
	"bytes"
	"fmt"
	"os"
	"strconv"

	"github.com/elastic/go-structform/gotype"
	"github.com/elastic/go-structform/json"
)

// foldifc <case>       (C15: no invalid pointer conversion while folding; C12: same value)
//
// Static types that are NON-EMPTY interfaces (outside the Lean mirror's type universe): the
// value is folded to JSON and compared with the fold of the same data held in `interface{}`
// typed containers.  The fold runs in a child process: an invalid unsafe conversion shows as
// a dead child.
//
//	-> same | differ:<a>|<b> | fatal | panic | err
type cuNamer interface{ Name() string }
type cuNamed struct {
	N string
	K int
}

func (c cuNamed) Name() string { return c.N }

type cuNamedP struct{ X int }

func (c *cuNamedP) Name() string { return "p" }

type cuIfcHolder struct {
	A cuNamer
	M map[string]cuNamer
	L []cuNamer
	I cuNamer            `struct:",inline"`
	O cuNamer            `struct:"o,omitempty"`
	P *cuNamer           `struct:"p"`
	Z map[string]cuNamer `struct:"z,omitempty"`
}
type cuAnyHolder struct {
	A interface{}
	M map[string]interface{}
	L []interface{}
	I interface{}            `struct:",inline"`
	O interface{}            `struct:"o,omitempty"`
	P *interface{}           `struct:"p"`
	Z map[string]interface{} `struct:"z,omitempty"`
}

func foldIfcCases() [][2]interface{} {
	n1, n2 := cuNamed{"a", 1}, cuNamed{"b", 2}
	p1 := &cuNamedP{7}
	var nn cuNamer = n1
	var an interface{} = n1
	return [][2]interface{}{
		{map[string]cuNamer{"k": n1}, map[string]interface{}{"k": n1}},
		{map[string]cuNamer{"k": p1}, map[string]interface{}{"k": p1}},
		{map[string]cuNamer{"k": nil}, map[string]interface{}{"k": nil}},
		{map[string]cuNamer{}, map[string]interface{}{}},
		{[]cuNamer{n1, n2, nil, p1}, []interface{}{n1, n2, nil, p1}},
		{[2]cuNamer{n1, p1}, [2]interface{}{n1, p1}},
		{struct{ F map[string]cuNamer }{map[string]cuNamer{"x": n2}}, struct{ F map[string]interface{} }{map[string]interface{}{"x": n2}}},
		{struct {
			F map[string]cuNamer `struct:",inline"`
		}{map[string]cuNamer{"x": n2}}, struct {
			F map[string]interface{} `struct:",inline"`
		}{map[string]interface{}{"x": n2}}},
		{cuIfcHolder{A: n1, M: map[string]cuNamer{"m": n2}, L: []cuNamer{p1}, I: n2, O: n1, P: &nn, Z: map[string]cuNamer{"z": p1}},
			cuAnyHolder{A: n1, M: map[string]interface{}{"m": n2}, L: []interface{}{p1}, I: n2, O: n1, P: &an, Z: map[string]interface{}{"z": p1}}},
		{cuIfcHolder{}, cuAnyHolder{}},
		{map[string]map[string]cuNamer{"o": {"i": n1}}, map[string]map[string]interface{}{"o": {"i": n1}}},
		{map[string][]cuNamer{"o": {n1, p1}}, map[string][]interface{}{"o": {n1, p1}}},
		{[]map[string]cuNamer{{"i": n1}, nil}, []map[string]interface{}{{"i": n1}, nil}},
		{&nn, &an},
		{map[string]error{"e": fmt.Errorf("x")}, map[string]interface{}{"e": fmt.Errorf("x")}},
		{map[string]fmt.Stringer{"s": bytes.NewBufferString("buf")}, map[string]interface{}{"s": bytes.NewBufferString("buf")}},
	}
}

func foldJSON(v interface{}) (res string) {
	defer func() {
		if r := recover(); r != nil {
			res = "panic"
		}
	}()
	var buf bytes.Buffer
	if err := gotype.Fold(v, json.NewVisitor(&buf)); err != nil {
		return "err:" + buf.String()
	}
	return buf.String()
}

func opFoldIfc(args []string) string {
	if os.Getenv("SFH_CHILD") == "" {
		return runIsolated("foldifc "+args[0], false)
	}
	i, _ := strconv.Atoi(args[0])
	cs := foldIfcCases()
	if i < 0 || i >= len(cs) {
		return "bad-case"
	}
	a, b := foldJSON(cs[i][0]), foldJSON(cs[i][1])
	if a == "panic" || b == "panic" {
		return "panic"
	}
	if a != b {
		return "differ:" + a + "|" + b
	}
	return "same"
}

func genFoldIfc(r *Rand, tier string, emit func(string)) {
	for i := range foldIfcCases() {
		emit("foldifc " + strconv.Itoa(i))
	}
}

func init() {
	RegisterOp("foldifc", opFoldIfc)
	RegisterGen("C15", genFoldIfc)
	RegisterGen("C12", genFoldIfc)
	RegisterGen("XFOLD", genFoldIfc)
}
