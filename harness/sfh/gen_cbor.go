package sfh

import (
	"encoding/binary"
	"math/big"
)

// CBOR wire generator: what foreign encoders emit (non-minimal widths, indefinite
// containers, byte strings, undefined), independent of the library's encoder.

func cborHead(r *Rand, major byte, n uint64, minimal bool) []byte {
	// admissible widths: imm (n<24), 1, 2, 4, 8
	minw := 0
	switch {
	case n < 24:
		minw = 0
	case n <= 0xff:
		minw = 1
	case n <= 0xffff:
		minw = 2
	case n <= 0xffffffff:
		minw = 3
	default:
		minw = 4
	}
	w := minw
	if !minimal && r.P(35) {
		w = minw + r.Intn(5-minw)
	}
	switch w {
	case 0:
		return []byte{major | byte(n)}
	case 1:
		return []byte{major | 24, byte(n)}
	case 2:
		b := []byte{major | 25, 0, 0}
		binary.BigEndian.PutUint16(b[1:], uint16(n))
		return b
	case 3:
		b := []byte{major | 26, 0, 0, 0, 0}
		binary.BigEndian.PutUint32(b[1:], uint32(n))
		return b
	default:
		b := []byte{major | 27, 0, 0, 0, 0, 0, 0, 0, 0}
		binary.BigEndian.PutUint64(b[1:], n)
		return b
	}
}

type CborOpts struct {
	Minimal     bool // only minimal widths, definite containers (what cborl itself writes)
	Unsupported bool // may insert one unsupported feature
}

var two64 = new(big.Int).Lsh(big.NewInt(1), 64)

// CborWire renders v. Arrays of small non-negative ints may become byte strings.
func (r *Rand) CborWire(v *V, o CborOpts, out []byte) []byte {
	switch v.K {
	case VNull:
		if !o.Minimal && r.P(20) {
			return append(out, 0xf7) // undefined
		}
		return append(out, 0xf6)
	case VBool:
		if v.B {
			return append(out, 0xf5)
		}
		return append(out, 0xf4)
	case VInt:
		if v.I.Sign() >= 0 {
			return append(out, cborHead(r, 0x00, v.I.Uint64(), o.Minimal)...)
		}
		n := new(big.Int).Neg(v.I)
		n.Sub(n, big.NewInt(1))
		return append(out, cborHead(r, 0x20, n.Uint64(), o.Minimal)...)
	case VF32:
		b := []byte{0xfa, 0, 0, 0, 0}
		binary.BigEndian.PutUint32(b[1:], uint32(v.Bits))
		return append(out, b...)
	case VF64:
		b := []byte{0xfb, 0, 0, 0, 0, 0, 0, 0, 0}
		binary.BigEndian.PutUint64(b[1:], v.Bits)
		return append(out, b...)
	case VStr:
		out = append(out, cborHead(r, 0x60, uint64(len(v.S)), o.Minimal)...)
		return append(out, v.S...)
	case VArr:
		if !o.Minimal && r.P(25) {
			// byte string if all elements are ints in 0..255
			ok := true
			for _, c := range v.Arr {
				if c.K != VInt || c.I.Sign() < 0 || c.I.Cmp(big.NewInt(255)) > 0 {
					ok = false
				}
			}
			if ok {
				out = append(out, cborHead(r, 0x40, uint64(len(v.Arr)), false)...)
				for _, c := range v.Arr {
					out = append(out, byte(c.I.Uint64()))
				}
				return out
			}
		}
		if !o.Minimal && r.P(35) {
			out = append(out, 0x9f)
			for _, c := range v.Arr {
				out = r.CborWire(c, o, out)
			}
			return append(out, 0xff)
		}
		out = append(out, cborHead(r, 0x80, uint64(len(v.Arr)), o.Minimal)...)
		for _, c := range v.Arr {
			out = r.CborWire(c, o, out)
		}
		return out
	case VObj:
		indef := !o.Minimal && r.P(35)
		if indef {
			out = append(out, 0xbf)
		} else {
			out = append(out, cborHead(r, 0xa0, uint64(len(v.Arr)), o.Minimal)...)
		}
		for i, c := range v.Arr {
			out = append(out, cborHead(r, 0x60, uint64(len(v.Keys[i])), o.Minimal)...)
			out = append(out, v.Keys[i]...)
			out = r.CborWire(c, o, out)
		}
		if indef {
			out = append(out, 0xff)
		}
		return out
	}
	panic("cborwire")
}

// unsupported CBOR items (each well-formed per RFC 7049)
var cborUnsupported = [][]byte{
	{0xc0, 0x61, 0x61},                // tag 0 + text
	{0xc1, 0x01},                      // tag 1 + int
	{0xd8, 0x20, 0x61, 0x61},          // tag 32
	{0xf9, 0x3c, 0x00},                // half float 1.0
	{0x5f, 0x41, 0x01, 0xff},          // indefinite byte string
	{0x7f, 0x61, 0x61, 0xff},          // indefinite text string
	{0xa1, 0x01, 0x02},                // non-text key
	{0xbf, 0x01, 0x02, 0xff},          // non-text key, indefinite map
	{0xa1, 0x41, 0x61, 0x02},          // byte string key
	{0xf0},                            // simple value 16
	{0xf8, 0x20},                      // simple value 32
	{0xe0},                            // simple value 0
	{0x3b, 0x80, 0, 0, 0, 0, 0, 0, 0}, // -2^63-1
	{0x3b, 0xff, 0xff, 0xff, 0xff, 0xff, 0xff, 0xff, 0xff}, // -2^64
}

// CborMalformed: mutations of a valid document.
func (r *Rand) Mutate(doc []byte) []byte {
	b := append([]byte(nil), doc...)
	switch r.Intn(6) {
	case 0: // truncate
		if len(b) > 0 {
			return b[:r.Intn(len(b))]
		}
	case 1: // bit flip
		if len(b) > 0 {
			i := r.Intn(len(b))
			b[i] ^= 1 << uint(r.Intn(8))
		}
	case 2: // overwrite a byte
		if len(b) > 0 {
			b[r.Intn(len(b))] = byte(r.U64())
		}
	case 3: // insert a byte
		i := r.Intn(len(b) + 1)
		b = append(b[:i], append([]byte{byte(r.U64())}, b[i:]...)...)
	case 4: // overwrite 8 bytes by a huge length
		huge := [][]byte{{0x7f, 0xff, 0xff, 0xff, 0xff, 0xff, 0xff, 0xff}, {0x80, 0, 0, 0, 0, 0, 0, 0}, {0xff, 0xff, 0xff, 0xff, 0xff, 0xff, 0xff, 0xff}, {0, 0, 0, 0, 0x80, 0, 0, 0}}
		h := Pick(r, huge)
		i := r.Intn(len(b) + 1)
		b = append(b[:i], append(append([]byte(nil), h...), b[min(i, len(b)):]...)...)
	default: // delete a byte
		if len(b) > 0 {
			i := r.Intn(len(b))
			b = append(b[:i], b[i+1:]...)
		}
	}
	return b
}
