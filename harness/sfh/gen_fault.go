package sfh

import (
	"bytes"
	"fmt"
	"strings"
)

// asParseFault: turns the fault-free `parse` lines of a parser generator into parse lines with
// a visitor that fails at its k-th event, for EVERY k up to the number of events the document
// has, whole-buffer, byte-wise and with one two-way cut (C16: the visitor's error is returned
// and nothing is delivered after it)
func asParseFault(g GenFn, every int) GenFn {
	return func(r *Rand, tier string, emit func(string)) {
		i := 0
		g(r, tier, func(line string) {
			f := strings.Fields(line)
			if len(f) != 5 || f[0] != "parse" || f[3] != "-1" {
				return
			}
			i++
			if every > 1 && i%every != 0 {
				return
			}
			doc := bytes.Join(Chunks(f[4]), nil)
			if len(doc) < 1 || len(doc) > 48 {
				return
			}
			rec := NewRecorder()
			func() {
				defer func() { recover() }()
				Formats[f[1]].Parse(append([]byte(nil), doc...), rec)
			}()
			n := rec.N + 1
			if n > 40 {
				n = 40
			}
			var one [][]byte
			for j := range doc {
				one = append(one, doc[j:j+1])
			}
			for k := 0; k < n; k++ {
				emit(fmt.Sprintf("parse %s P %d %s", f[1], k, ChunksString([][]byte{doc})))
				emit(fmt.Sprintf("parse %s W %d %s", f[1], k, ChunksString(one)))
				if len(doc) > 1 {
					c := 1 + r.Intn(len(doc)-1)
					emit(fmt.Sprintf("parse %s W %d %s", f[1], k, ChunksString([][]byte{doc[:c], doc[c:]})))
				}
			}
		})
	}
}

// asDecFault: `dec` lines -> `decf` lines with the visitor failing at every event index up to 12
func asDecFault(g GenFn, every int) GenFn {
	return func(r *Rand, tier string, emit func(string)) {
		i := 0
		g(r, tier, func(line string) {
			f := strings.Fields(line)
			if len(f) != 6 || f[0] != "dec" {
				return
			}
			i++
			if every > 1 && i%every != 0 {
				return
			}
			if len(f[5]) > 300 {
				return
			}
			for k := 0; k < 12; k++ {
				emit(fmt.Sprintf("decf %s %s %s %s %d %s", f[1], f[2], f[3], f[4], k, f[5]))
			}
		})
	}
}

func init() {
	RegisterGen("C16", asDecFault(asDec(genXcodeForeign, 1), 3))
	for _, f := range ModelledFormats {
		RegisterGen("C16", asDecFault(genDecOps(f, 300), 2))
	}
	RegisterGen("C16", asParseFault(genXcodeForeign, 1))
	RegisterGen("C16", asParseFault(genUbjParseTargeted(), 12))
	RegisterGen("C16", asParseFault(genJsonParseStruct, 12))
	RegisterGen("C16", asParseFault(genJsonParseStrings, 30))
}
