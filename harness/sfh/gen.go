package sfh

import (
	"fmt"
	"math"
	"math/big"
	"strconv"
	"strings"
)

// Rand: splitmix64; every random choice of a run derives from one seed.
type Rand struct{ s uint64 }

func NewRand(seed uint64) *Rand { return &Rand{s: seed*0x9E3779B97F4A7C15 + 0x1234567} }

func (r *Rand) U64() uint64 {
	r.s += 0x9E3779B97F4A7C15
	z := r.s
	z = (z ^ (z >> 30)) * 0xBF58476D1CE4E5B9
	z = (z ^ (z >> 27)) * 0x94D049BB133111EB
	return z ^ (z >> 31)
}
func (r *Rand) Intn(n int) int {
	if n <= 0 {
		return 0
	}
	return int(r.U64() % uint64(n))
}
func (r *Rand) Bool() bool          { return r.U64()&1 == 1 }
func (r *Rand) P(pct int) bool      { return r.Intn(100) < pct }
func (r *Rand) Fork() *Rand         { return &Rand{s: r.U64()} }
func Pick[T any](r *Rand, xs []T) T { return xs[r.Intn(len(xs))] }

// ---------------------------------------------------------------------------
// numbers

type NumKind struct {
	Name   string
	Lo, Hi *big.Int
	Signed bool
}

func bi(s string) *big.Int { x, _ := new(big.Int).SetString(s, 10); return x }

var Kinds = []NumKind{
	{"i8", bi("-128"), bi("127"), true},
	{"i16", bi("-32768"), bi("32767"), true},
	{"i32", bi("-2147483648"), bi("2147483647"), true},
	{"i64", bi("-9223372036854775808"), bi("9223372036854775807"), true},
	{"i", bi("-9223372036854775808"), bi("9223372036854775807"), true},
	{"u8", bi("0"), bi("255"), false},
	{"u16", bi("0"), bi("65535"), false},
	{"u32", bi("0"), bi("4294967295"), false},
	{"u64", bi("0"), bi("18446744073709551615"), false},
	{"u", bi("0"), bi("18446744073709551615"), false},
	{"b", bi("0"), bi("255"), false},
}

func KindByName(n string) NumKind {
	for _, k := range Kinds {
		if k.Name == n {
			return k
		}
	}
	panic("kind " + n)
}

func (k NumKind) Fits(v *big.Int) bool { return v.Cmp(k.Lo) >= 0 && v.Cmp(k.Hi) <= 0 }

var boundaryBase = []string{
	"0", "1", "-1", "23", "24", "-24", "-25", "127", "-127", "128", "-128", "-129", "255", "256", "-256", "-257",
	"32767", "-32767", "32768", "-32768", "-32769", "65535", "65536", "-65536", "-65537",
	"2147483647", "2147483648", "-2147483648", "-2147483649", "4294967295", "4294967296", "-4294967296", "-4294967297",
	"9223372036854775807", "9223372036854775808", "-9223372036854775808", "18446744073709551615",
}

// Boundary integers +-{0,1,2}, clipped to [-2^63, 2^64-1].
var Boundaries []*big.Int

func init() {
	seen := map[string]bool{}
	lo, hi := bi("-9223372036854775808"), bi("18446744073709551615")
	for _, s := range boundaryBase {
		for d := int64(-2); d <= 2; d++ {
			v := new(big.Int).Add(bi(s), big.NewInt(d))
			if v.Cmp(lo) < 0 || v.Cmp(hi) > 0 || seen[v.String()] {
				continue
			}
			seen[v.String()] = true
			Boundaries = append(Boundaries, v)
		}
	}
}

// Int: 50% boundary set, 50% uniform bit length with random sign.
func (r *Rand) Int() *big.Int {
	if r.Bool() {
		return Pick(r, Boundaries)
	}
	bits := r.Intn(65)
	var u uint64
	if bits > 0 {
		u = r.U64() >> (64 - uint(bits))
	}
	v := new(big.Int).SetUint64(u)
	if r.Bool() && bits <= 63 {
		v.Neg(v)
	}
	return v
}

// IntIn: an integer fitting kind k, boundary-biased.
func (r *Rand) IntIn(k NumKind) *big.Int {
	for i := 0; i < 20; i++ {
		v := r.Int()
		if k.Fits(v) {
			return v
		}
	}
	if r.Bool() {
		return k.Lo
	}
	return k.Hi
}

var f64Special = []uint64{
	0, 0x8000000000000000, 1, 0x000fffffffffffff, 0x0010000000000000, 0x7fefffffffffffff, 0xffefffffffffffff,
	0x7ff0000000000000, 0xfff0000000000000, 0x7ff8000000000000, 0x7ff0000000000001, 0xfff8000000000123,
	0x3ff0000000000000, 0xbff0000000000000, 0x40091eb851eb851f, 0x4024000000000000, 0x4415af1d78b58c40, 0x3fb999999999999a,
	0x41dfffffffc00000, 0x43e0000000000000, 0x43f0000000000000, 0xc3e0000000000000, 0x3eb0c6f7a0b5ed8d, 0x44b52d02c7e14af6,
}
var f32Special = []uint32{
	0, 0x80000000, 1, 0x007fffff, 0x00800000, 0x7f7fffff, 0xff7fffff, 0x7f800000, 0xff800000, 0x7fc00000, 0x7f800001,
	0x3f800000, 0xbf800000, 0x4048f5c3, 0x41200000, 0x3dcccccd, 0x4f000000, 0x5f000000, 0x5f800000,
}

func (r *Rand) F64Bits(finiteOnly bool) uint64 {
	for {
		var b uint64
		switch r.Intn(3) {
		case 0:
			b = Pick(r, f64Special)
		case 1:
			b = math.Float64bits(float64(int64(r.U64()>>uint(r.Intn(64)))) / float64(int64(1)<<uint(r.Intn(20))))
		default:
			b = r.U64()
		}
		f := math.Float64frombits(b)
		if finiteOnly && (math.IsNaN(f) || math.IsInf(f, 0)) {
			continue
		}
		return b
	}
}
func (r *Rand) F32Bits(finiteOnly bool) uint32 {
	for {
		var b uint32
		switch r.Intn(3) {
		case 0:
			b = Pick(r, f32Special)
		case 1:
			b = math.Float32bits(float32(int32(r.U64()>>uint(32+r.Intn(32)))) / float32(int32(1)<<uint(r.Intn(10))))
		default:
			b = uint32(r.U64())
		}
		f := float64(math.Float32frombits(b))
		if finiteOnly && (math.IsNaN(f) || math.IsInf(f, 0)) {
			continue
		}
		return b
	}
}

// ---------------------------------------------------------------------------
// strings

var strSpecial = [][]byte{
	{}, []byte("a"), []byte("test"), []byte("key"), []byte("\""), []byte("\\"), []byte("/"), []byte("\b\f\n\r\t"),
	{0}, {0x1f}, {0x7f}, []byte("<>&"), []byte(" "), []byte(" "), []byte("é"), []byte("€"), []byte("😀"),
	[]byte("\né x"), []byte("a\"é"), {0x80}, {0xc3}, {0xe2, 0x82}, {0xc0, 0x80}, {0xed, 0xa0, 0x80}, {0xf4, 0x90, 0x80, 0x80},
	{0xff}, {0xfe, 0xff}, []byte("a\x80b"), []byte("\xe2\x28\xa1"), []byte("é\n"), []byte("\\u0041"),
}
var strLens = []int{0, 1, 2, 3, 5, 23, 24, 25, 63, 64, 65, 127, 128, 255, 256, 300}

func (r *Rand) Str(maxLen int) []byte {
	switch r.Intn(6) {
	case 0, 1:
		return Pick(r, strSpecial)
	case 2: // ascii of boundary length
		n := Pick(r, strLens)
		if n > maxLen {
			n = r.Intn(maxLen + 1)
		}
		b := make([]byte, n)
		for i := range b {
			b[i] = byte('a' + r.Intn(26))
		}
		return b
	case 3: // arbitrary bytes
		n := r.Intn(9)
		b := make([]byte, n)
		for i := range b {
			b[i] = byte(r.U64())
		}
		return b
	case 4: // concatenation of specials
		var b []byte
		for i := 0; i < 1+r.Intn(3); i++ {
			b = append(b, Pick(r, strSpecial)...)
		}
		return b
	default:
		b := []byte{byte(r.U64())}
		return b
	}
}

var keySpecial = [][]byte{[]byte("a"), []byte("b"), []byte("ab"), []byte("key"), {}, []byte("a"), []byte("é"), []byte("k\"1"), []byte("longer-key-0123456789abcdef"), {0xff}}

func (r *Rand) Key() []byte {
	if r.P(70) {
		return Pick(r, keySpecial)
	}
	return r.Str(40)
}

// ---------------------------------------------------------------------------
// values

type VKind int

const (
	VNull VKind = iota
	VBool
	VInt
	VF32
	VF64
	VStr
	VArr
	VObj
)

type V struct {
	K    VKind
	B    bool
	I    *big.Int
	Bits uint64
	S    []byte
	Arr  []*V
	Keys [][]byte // for VObj, parallel to Arr
}

type ValOpts struct {
	MaxDepth   int
	MaxWidth   int
	MaxStr     int
	FiniteOnly bool // no NaN/Inf
	NoF32      bool
	IntMax63   bool // integers restricted to [-2^63, 2^63-1]
}

func (r *Rand) scalar(o ValOpts) *V {
	switch r.Intn(10) {
	case 0:
		return &V{K: VNull}
	case 1:
		return &V{K: VBool, B: r.Bool()}
	case 2, 3, 4:
		v := r.Int()
		if o.IntMax63 && v.Cmp(bi("9223372036854775807")) > 0 {
			v = bi("9223372036854775807")
		}
		return &V{K: VInt, I: v}
	case 5:
		if o.NoF32 {
			return &V{K: VF64, Bits: r.F64Bits(o.FiniteOnly)}
		}
		return &V{K: VF32, Bits: uint64(r.F32Bits(o.FiniteOnly))}
	case 6:
		return &V{K: VF64, Bits: r.F64Bits(o.FiniteOnly)}
	default:
		return &V{K: VStr, S: r.Str(o.MaxStr)}
	}
}

func (r *Rand) Val(o ValOpts, depth int) *V {
	if depth >= o.MaxDepth || r.P(35) {
		return r.scalar(o)
	}
	n := r.Intn(o.MaxWidth + 1)
	if r.Bool() {
		v := &V{K: VArr}
		for i := 0; i < n; i++ {
			v.Arr = append(v.Arr, r.Val(o, depth+1))
		}
		return v
	}
	v := &V{K: VObj}
	for i := 0; i < n; i++ {
		v.Keys = append(v.Keys, r.Key())
		v.Arr = append(v.Arr, r.Val(o, depth+1))
	}
	return v
}

// Container: a value whose top is an array or object.
func (r *Rand) Container(o ValOpts) *V {
	for {
		v := r.Val(o, 0)
		if v.K == VArr || v.K == VObj {
			return v
		}
	}
}

// ---------------------------------------------------------------------------
// renditions: a value as a list of xevent tokens

type RenderOpts struct {
	Ext       bool // may use typed array / typed map events
	Refs      bool // may deliver strings/keys by reference
	UnknownLn bool // may announce -1
	MultiMap  bool // typed map events with > 1 entry allowed (Go map order!)
}

func numTok(k NumKind, v *big.Int) string { return k.Name + ":" + v.String() }

func (r *Rand) kindFor(v *big.Int) NumKind {
	var fit []NumKind
	for _, k := range Kinds {
		if k.Fits(v) {
			fit = append(fit, k)
		}
	}
	return Pick(r, fit)
}

func F32Tok(b uint32) string { return fmt.Sprintf("f32:%08x", b) }
func F64Tok(b uint64) string { return fmt.Sprintf("f64:%016x", b) }

// homogeneous classification of an array/object's children
func homog(v *V) (VKind, bool) {
	if len(v.Arr) == 0 {
		return VNull, true
	}
	k := v.Arr[0].K
	for _, c := range v.Arr {
		if c.K != k {
			return 0, false
		}
	}
	return k, true
}

func (r *Rand) Render(v *V, o RenderOpts, out []string) []string {
	switch v.K {
	case VNull:
		return append(out, "N")
	case VBool:
		if v.B {
			return append(out, "T")
		}
		return append(out, "F")
	case VInt:
		return append(out, numTok(r.kindFor(v.I), v.I))
	case VF32:
		return append(out, F32Tok(uint32(v.Bits)))
	case VF64:
		return append(out, F64Tok(v.Bits))
	case VStr:
		if o.Refs && r.P(30) {
			return append(out, "R:"+hx(v.S))
		}
		return append(out, "S:"+hx(v.S))
	case VArr:
		if o.Ext && r.P(50) {
			if t, ok := r.typedArr(v); ok {
				return append(out, t)
			}
		}
		l := len(v.Arr)
		if o.UnknownLn && r.P(40) {
			l = -1
		}
		out = append(out, fmt.Sprintf("[%d:0", l))
		for _, c := range v.Arr {
			out = r.Render(c, o, out)
		}
		return append(out, "]")
	case VObj:
		if o.Ext && r.P(50) && (len(v.Arr) <= 1 || o.MultiMap) {
			if t, ok := r.typedObj(v); ok {
				return append(out, t)
			}
		}
		l := len(v.Arr)
		if o.UnknownLn && r.P(40) {
			l = -1
		}
		out = append(out, fmt.Sprintf("{%d:0", l))
		for i, c := range v.Arr {
			if o.Refs && r.P(30) {
				out = append(out, "Q:"+hx(v.Keys[i]))
			} else {
				out = append(out, "K:"+hx(v.Keys[i]))
			}
			out = r.Render(c, o, out)
		}
		return append(out, "}")
	}
	panic("render")
}

// commonKind: a numeric kind all children fit in (random among those), if any
func (r *Rand) commonKind(v *V, allowByte bool) (NumKind, bool) {
	var fit []NumKind
	for _, k := range Kinds {
		if k.Name == "b" && !allowByte {
			continue
		}
		ok := true
		for _, c := range v.Arr {
			if !k.Fits(c.I) {
				ok = false
				break
			}
		}
		if ok {
			fit = append(fit, k)
		}
	}
	if len(fit) == 0 {
		return NumKind{}, false
	}
	return Pick(r, fit), true
}

func (r *Rand) typedArr(v *V) (string, bool) {
	k, ok := homog(v)
	if !ok {
		return "", false
	}
	n := len(v.Arr)
	var kind string
	var es []string
	if n == 0 {
		kind = Pick(r, []string{"bool", "str", "i8", "i16", "i32", "i64", "i", "b", "u8", "u16", "u32", "u64", "u", "f32", "f64"})
		return fmt.Sprintf("A%s:0:", kind), true
	}
	switch k {
	case VBool:
		kind = "bool"
		for _, c := range v.Arr {
			if c.B {
				es = append(es, "T")
			} else {
				es = append(es, "F")
			}
		}
	case VStr:
		kind = "str"
		for _, c := range v.Arr {
			es = append(es, hx(c.S))
		}
	case VInt:
		nk, ok := r.commonKind(v, true)
		if !ok {
			return "", false
		}
		kind = nk.Name
		for _, c := range v.Arr {
			es = append(es, c.I.String())
		}
	case VF32:
		kind = "f32"
		for _, c := range v.Arr {
			es = append(es, fmt.Sprintf("%08x", uint32(c.Bits)))
		}
	case VF64:
		kind = "f64"
		for _, c := range v.Arr {
			es = append(es, fmt.Sprintf("%016x", c.Bits))
		}
	default:
		return "", false
	}
	return fmt.Sprintf("A%s:%d:%s", kind, n, strings.Join(es, "/")), true
}

func (r *Rand) typedObj(v *V) (string, bool) {
	k, ok := homog(v)
	if !ok {
		return "", false
	}
	n := len(v.Arr)
	// Go maps cannot hold duplicate keys
	seen := map[string]bool{}
	for _, key := range v.Keys {
		if seen[string(key)] {
			return "", false
		}
		seen[string(key)] = true
	}
	var kind string
	var es []string
	if n == 0 {
		kind = Pick(r, []string{"bool", "str", "i8", "i16", "i32", "i64", "i", "u8", "u16", "u32", "u64", "u", "f32", "f64"})
		return fmt.Sprintf("O%s:0:", kind), true
	}
	add := func(i int, s string) { es = append(es, hx(v.Keys[i])+"="+s) }
	switch k {
	case VBool:
		kind = "bool"
		for i, c := range v.Arr {
			if c.B {
				add(i, "T")
			} else {
				add(i, "F")
			}
		}
	case VStr:
		kind = "str"
		for i, c := range v.Arr {
			add(i, hx(c.S))
		}
	case VInt:
		nk, ok := r.commonKind(v, false)
		if !ok {
			return "", false
		}
		kind = nk.Name
		for i, c := range v.Arr {
			add(i, c.I.String())
		}
	case VF32:
		kind = "f32"
		for i, c := range v.Arr {
			add(i, fmt.Sprintf("%08x", uint32(c.Bits)))
		}
	case VF64:
		kind = "f64"
		for i, c := range v.Arr {
			add(i, fmt.Sprintf("%016x", c.Bits))
		}
	default:
		return "", false
	}
	return fmt.Sprintf("O%s:%d:%s", kind, n, strings.Join(es, "/")), true
}

// ---------------------------------------------------------------------------
// chunkings

// CutsToChunks splits b at the given sorted cut positions.
func CutsToChunks(b []byte, cuts []int) [][]byte {
	var out [][]byte
	prev := 0
	for _, c := range cuts {
		out = append(out, b[prev:c])
		prev = c
	}
	return append(out, b[prev:])
}

// RandChunks: random k-cut chunking, with empty chunks interspersed sometimes.
func (r *Rand) RandChunks(b []byte) [][]byte {
	if len(b) == 0 {
		return [][]byte{{}}
	}
	switch r.Intn(4) {
	case 0: // 1-byte chunks
		var out [][]byte
		for i := range b {
			out = append(out, b[i:i+1])
		}
		return out
	case 1: // single two-way cut
		c := r.Intn(len(b) + 1)
		return [][]byte{b[:c], b[c:]}
	default:
		var out [][]byte
		i := 0
		for i < len(b) {
			n := 1 + r.Intn(1+r.Intn(len(b)-i))
			if r.P(10) {
				out = append(out, []byte{})
			}
			out = append(out, b[i:i+n])
			i += n
		}
		return out
	}
}

func Itoa(i int) string { return strconv.Itoa(i) }
