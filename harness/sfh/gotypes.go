package sfh

// gotypes.go — the shared universe of Go types and values for the gotype ops
// (fold, later unfold): line-protocol grammar, parser/printer over reflect, and the
// fixed MENAGERIE of named types that reflect cannot build. Mirrored by
// lean/SF/Gotype/Types.lean (same grammar, same menagerie, compared by `typeinfo`).
//
// GRAMMAR (tokens contain no spaces; hex = lowercase hex of the bytes)
//
//	type   := "bool" | "string" | "int" | "int8" | "int16" | "int32" | "int64"
//	        | "uint" | "uint8" | "uint16" | "uint32" | "uint64" | "float32" | "float64"
//	        | "any"                                   interface{}
//	        | "[]" type | "[" n "]" type              slice, array
//	        | "map[" type "]" type                    map (key: any scalar type; only string kinds are supported by gotype)
//	        | "*" type
//	        | "struct{" [field (";" field)*] "}"
//	        | "@" Name                                menagerie member (named type declared below)
//	        | "uintptr" | "complex64" | "complex128" | "func" | "chan:" type     unsupported kinds (must be refused)
//	field  := ["!"] Name ":" type [ "`" tag "`" ]     "!" = embedded (anonymous) field — menagerie descriptors only;
//	                                                  Name = Go identifier (may start lower-case: unexported);
//	                                                  tag = content of the `struct:"…"` tag, bytes outside
//	                                                  [A-Za-z0-9_,.-] written as %XX
//	value  := "nil"                                   nil slice / map / pointer / interface / chan / func
//	        | "true" | "false"
//	        | decimal                                 every integer kind (and uintptr)
//	        | "f:" hex                                float32 (8 digits) / float64 (16 digits): IEEE bits
//	        | "c:" hex                                complex64 (16 digits) / complex128 (32 digits): real bits, imaginary bits
//	        | "s:" hex                                string bytes
//	        | "[" [value ("," value)*] "]"            non-nil slice; array
//	        | "{" [value "=" value ("," …)*] "}"      non-nil map: key "=" element (keys are scalars, e.g. s:6b)
//	        | "(" [value ("," value)*] ")"            struct: ALL fields in declaration order
//	        | "&" value                               non-nil pointer
//	        | "<" type ">" value                      non-nil interface holding a value of that dynamic type
//
// Values are trees: shared or cyclic pointers cannot be written (cyclic values are out
// of scope). PrintValue is canonical: maps sorted by the printed key.

import (
	"fmt"
	"math"
	"reflect"
	"sort"
	"strconv"
	"strings"
	"unicode"
	"unicode/utf8"
	"unsafe"

	structform "github.com/elastic/go-structform"
	"github.com/elastic/go-structform/gotype"
)

// ---------------------------------------------------------------------------
// MENAGERIE

// evs is a tiny helper for custom folders: calls are skipped after the first error.
type evs struct {
	v   structform.ExtVisitor
	err error
}

func (e *evs) do(f func() error) {
	if e.err == nil {
		e.err = f()
	}
}

// FV: Folder on the value receiver; emits an object of 3 members using by-ref and
// typed-array events.
type FV struct {
	A int
	S string
}

func (f FV) Fold(v structform.ExtVisitor) error {
	e := evs{v: v}
	e.do(func() error { return v.OnObjectStart(3, structform.AnyType) })
	e.do(func() error { return v.OnKey("fa") })
	e.do(func() error { return v.OnInt(f.A) })
	e.do(func() error { return v.OnKeyRef([]byte("fs")) })
	e.do(func() error { return v.OnStringRef([]byte(f.S)) })
	e.do(func() error { return v.OnKey("fl") })
	e.do(func() error { return v.OnIntArray([]int{f.A, 7}) })
	e.do(func() error { return v.OnObjectFinished() })
	return e.err
}

// FP: Folder on the pointer receiver, nil-safe; emits an object with a nested object.
type FP struct{ A int }

func (p *FP) Fold(v structform.ExtVisitor) error {
	if p == nil {
		return v.OnNil()
	}
	e := evs{v: v}
	e.do(func() error { return v.OnObjectStart(-1, structform.AnyType) })
	e.do(func() error { return v.OnKey("pa") })
	e.do(func() error { return v.OnInt64(int64(p.A)) })
	e.do(func() error { return v.OnKey("po") })
	e.do(func() error { return v.OnObjectStart(1, structform.AnyType) })
	e.do(func() error { return v.OnKey("x") })
	e.do(func() error { return v.OnBool(true) })
	e.do(func() error { return v.OnObjectFinished() })
	e.do(func() error { return v.OnObjectFinished() })
	return e.err
}

// FPN: Folder on the pointer receiver whose nil receiver MEANS something (not null).
type FPN struct{ A int }

func (p *FPN) Fold(v structform.ExtVisitor) error {
	if p == nil {
		return v.OnString("unlimited")
	}
	return v.OnInt(p.A)
}

// FS: Folder (value receiver) on a named int that emits a scalar, no object.
type FS int

func (f FS) Fold(v structform.ExtVisitor) error {
	return v.OnString("fs" + strconv.Itoa(int(f)))
}

// FInts / FMap: Folder (value receiver) on a named SLICE / MAP over built-in element types.
// These have a built-in conversion fast path as well (named-type conversion), which must not
// win over the Folder method, however the value is reached.
type FInts []int

func (f FInts) Fold(v structform.ExtVisitor) error {
	return v.OnString("fi" + strconv.Itoa(len(f)))
}

type FMap map[string]int

func (f FMap) Fold(v structform.ExtVisitor) error {
	return v.OnInt(len(f))
}

// FOpen: Folder (value receiver) whose output is an object that is never closed
// (misbehaving user code; only meaningful to exercise "missing object close").
type FOpen struct{ A int }

func (f FOpen) Fold(v structform.ExtVisitor) error {
	e := evs{v: v}
	e.do(func() error { return v.OnObjectStart(1, structform.AnyType) })
	e.do(func() error { return v.OnKey("oa") })
	e.do(func() error { return v.OnInt(f.A) })
	return e.err
}

// IsZeroer on value / pointer receiver, on a named int and on a named string.
type ZV struct{ N int }

func (z ZV) IsZero() bool { return z.N == 0 }

type ZP struct{ N int }

func (z *ZP) IsZero() bool { return z == nil || z.N == 0 }

type ZInt int

func (z ZInt) IsZero() bool { return z == 0 }

type ZStr string

func (z ZStr) IsZero() bool { return z == "zero" }

// IsZeroers of slice / map / array kind: ZInts (value receiver) is zero when it is empty
// or starts with 0, ZMapP (pointer receiver) when it has exactly one entry, ZArr (value
// receiver) when both elements are 0.
type ZInts []int

func (z ZInts) IsZero() bool { return len(z) == 0 || z[0] == 0 }

type ZMapP map[string]int

func (z *ZMapP) IsZero() bool { return z == nil || len(*z) == 1 }

type ZArr [2]int

func (z ZArr) IsZero() bool { return z[0] == 0 && z[1] == 0 }

// TimeLike: like time.Time — unexported fields only, IsZero on the value receiver.
type TimeLike struct {
	wall uint64
	ext  int64
}

func (t TimeLike) IsZero() bool { return t.wall == 0 && t.ext == 0 }

// named types without methods
type NBool bool
type NStr string
type NInt int
type NU8 uint8
type NF32 float32
type NInts []int
type NBytes []byte
type NStrs []string
type NAnys []interface{}
type NArr [2]int
type NMap map[string]int
type NMapAny map[string]interface{}
type NPtr *int

// struct with unexported fields
type Unexp struct {
	A   int
	b   string
	C   bool
	_d  int
	Ünï string
}

// embedded fields
type Inner struct {
	X int
	Y string `struct:"why"`
}
type inner2 struct{ X int }
type EmbInline struct {
	Inner `struct:",inline"`
	Z     int
}
type EmbPlain struct {
	Inner
	Z int
}
type EmbPtr struct {
	*Inner `struct:",inline"`
	Z      int
}
type EmbPtrPlain struct {
	*Inner
	Z int
}
type EmbUnexp struct {
	inner2
	Z int
}

// EmbZ promotes IsZero (value receiver) from ZV; EmbF promotes Fold from FV, so
// EmbF itself is a Folder and K is never reported.
type EmbZ struct {
	ZV
	K int
}
type EmbF struct {
	FV `struct:",inline"`
	K  int
}

// types with a registered user fold function (gotype.Folders)
type UF struct{ D int }

func foldUF(in *UF, v structform.ExtVisitor) error {
	if in == nil {
		return v.OnNil()
	}
	return v.OnString("uf" + strconv.Itoa(in.D))
}

type UO struct {
	D int
	E string
}

func foldUO(in *UO, v structform.ExtVisitor) error {
	if in == nil {
		return v.OnNil()
	}
	e := evs{v: v}
	e.do(func() error { return v.OnObjectStart(1, structform.AnyType) })
	e.do(func() error { return v.OnKey("ud") })
	e.do(func() error { return v.OnInt(in.D) })
	e.do(func() error { return v.OnObjectFinished() })
	return e.err
}

type UD int64

func foldUD(in *UD, v structform.ExtVisitor) error {
	if in == nil {
		return v.OnNil()
	}
	return v.OnString("ud" + strconv.FormatInt(int64(*in), 10))
}

// pointer-shaped types (one pointer word: a reflect.Value / interface holds them in place, not
// behind a pointer) with a registered fold function
type UFM map[string]int

func foldUFM(in *UFM, v structform.ExtVisitor) error {
	if in == nil {
		return v.OnNil()
	}
	return v.OnString("um" + strconv.Itoa(len(*in)))
}

type UFP struct{ P *int }

func foldUFP(in *UFP, v structform.ExtVisitor) error {
	if in == nil {
		return v.OnNil()
	}
	if in.P == nil {
		return v.OnString("up-nil")
	}
	return v.OnString("up" + strconv.Itoa(*in.P))
}

// UserFolders is the gotype.Folders option every harness iterator is created with.
func UserFolders() gotype.FoldOption { return gotype.Folders(foldUF, foldUO, foldUD, foldUFM, foldUFP) }

// interface-typed fields, mixed dynamic values
type Ifc struct {
	A interface{}
	B interface{} `struct:"b,omitempty"`
	C interface{} `struct:",inline"`
}
type Mixed struct {
	M map[string]interface{}
	L []interface{}
}

// recursive types: N through a pointer (the type term is cyclic), NI through an
// interface (only the value is recursive)
type N struct {
	V    int
	Next *N
}
type NI struct {
	V    int
	Next interface{}
}

// more cyclic type terms: tree (slice and map of itself), mutually recursive types,
// a type inlining itself through a pointer / through an interface, omitempty on the
// recursive field, a cyclic type that can not be folded (chan field AFTER the
// recursive one), named slice / map of itself
type Tree struct {
	V    int
	Kids []Tree
	M    map[string]*Tree
}
type MA struct {
	V int
	B *MB
}
type MB struct {
	S  string
	A  *MA
	As []MA
}
type NIn struct {
	V    int
	Next *NIn `struct:",inline"`
}
type NII struct {
	V    int
	Next interface{} `struct:",inline"`
}
type NO struct {
	V    int
	Next *NO `struct:",omitempty"`
}
type NBad struct {
	V    int
	Next *NBad
	C    chan int
}
type L []L
type MM map[string]MM

type MenagerieEntry struct {
	Name string
	Type reflect.Type
}

var Menagerie = []MenagerieEntry{
	{"FV", reflect.TypeOf(FV{})}, {"FP", reflect.TypeOf(FP{})}, {"FPN", reflect.TypeOf(FPN{})}, {"FS", reflect.TypeOf(FS(0))},
	{"FInts", reflect.TypeOf(FInts(nil))}, {"FMap", reflect.TypeOf(FMap(nil))},
	{"FOpen", reflect.TypeOf(FOpen{})},
	{"ZV", reflect.TypeOf(ZV{})}, {"ZP", reflect.TypeOf(ZP{})}, {"ZInt", reflect.TypeOf(ZInt(0))},
	{"ZStr", reflect.TypeOf(ZStr(""))}, {"TimeLike", reflect.TypeOf(TimeLike{})},
	{"ZInts", reflect.TypeOf(ZInts(nil))}, {"ZMapP", reflect.TypeOf(ZMapP(nil))}, {"ZArr", reflect.TypeOf(ZArr{})},
	{"NBool", reflect.TypeOf(NBool(false))}, {"NStr", reflect.TypeOf(NStr(""))}, {"NInt", reflect.TypeOf(NInt(0))},
	{"NU8", reflect.TypeOf(NU8(0))}, {"NF32", reflect.TypeOf(NF32(0))},
	{"NInts", reflect.TypeOf(NInts(nil))}, {"NBytes", reflect.TypeOf(NBytes(nil))}, {"NStrs", reflect.TypeOf(NStrs(nil))},
	{"NAnys", reflect.TypeOf(NAnys(nil))}, {"NArr", reflect.TypeOf(NArr{})},
	{"NMap", reflect.TypeOf(NMap(nil))}, {"NMapAny", reflect.TypeOf(NMapAny(nil))}, {"NPtr", reflect.TypeOf(NPtr(nil))},
	{"Unexp", reflect.TypeOf(Unexp{})},
	{"Inner", reflect.TypeOf(Inner{})}, {"inner2", reflect.TypeOf(inner2{})},
	{"EmbInline", reflect.TypeOf(EmbInline{})}, {"EmbPlain", reflect.TypeOf(EmbPlain{})},
	{"EmbPtr", reflect.TypeOf(EmbPtr{})}, {"EmbPtrPlain", reflect.TypeOf(EmbPtrPlain{})},
	{"EmbUnexp", reflect.TypeOf(EmbUnexp{})}, {"EmbZ", reflect.TypeOf(EmbZ{})}, {"EmbF", reflect.TypeOf(EmbF{})},
	{"UF", reflect.TypeOf(UF{})}, {"UO", reflect.TypeOf(UO{})}, {"UD", reflect.TypeOf(UD(0))},
	{"UFM", reflect.TypeOf(UFM(nil))}, {"UFP", reflect.TypeOf(UFP{})},
	{"Ifc", reflect.TypeOf(Ifc{})}, {"Mixed", reflect.TypeOf(Mixed{})},
	{"N", reflect.TypeOf(N{})}, {"NI", reflect.TypeOf(NI{})},
	{"Tree", reflect.TypeOf(Tree{})}, {"MA", reflect.TypeOf(MA{})}, {"MB", reflect.TypeOf(MB{})},
	{"NIn", reflect.TypeOf(NIn{})}, {"NII", reflect.TypeOf(NII{})}, {"NO", reflect.TypeOf(NO{})},
	{"NBad", reflect.TypeOf(NBad{})}, {"L", reflect.TypeOf(L(nil))}, {"MM", reflect.TypeOf(MM(nil))},
}

var menByName = map[string]reflect.Type{}
var menByType = map[reflect.Type]string{}

func init() {
	for _, m := range Menagerie {
		menByName[m.Name] = m.Type
		menByType[m.Type] = m.Name
	}
}

var (
	tAny      = reflect.TypeOf((*interface{})(nil)).Elem()
	tFolderI  = reflect.TypeOf((*gotype.Folder)(nil)).Elem()
	tIsZeroer = reflect.TypeOf((*gotype.IsZeroer)(nil)).Elem()
)

var basicTypes = map[string]reflect.Type{
	"bool": reflect.TypeOf(false), "string": reflect.TypeOf(""),
	"int": reflect.TypeOf(int(0)), "int8": reflect.TypeOf(int8(0)), "int16": reflect.TypeOf(int16(0)),
	"int32": reflect.TypeOf(int32(0)), "int64": reflect.TypeOf(int64(0)),
	"uint": reflect.TypeOf(uint(0)), "uint8": reflect.TypeOf(uint8(0)), "uint16": reflect.TypeOf(uint16(0)),
	"uint32": reflect.TypeOf(uint32(0)), "uint64": reflect.TypeOf(uint64(0)),
	"float32": reflect.TypeOf(float32(0)), "float64": reflect.TypeOf(float64(0)),
	"any":     tAny,
	"uintptr": reflect.TypeOf(uintptr(0)), "complex64": reflect.TypeOf(complex64(0)),
	"complex128": reflect.TypeOf(complex128(0)), "func": reflect.TypeOf(func() {}),
}

// ---------------------------------------------------------------------------
// type parser / printer

type tparser struct {
	s string
	i int
}

func (p *tparser) fail(msg string) { panic(fmt.Sprintf("gotypes: %s at %d in %q", msg, p.i, p.s)) }
func (p *tparser) has(pre string) bool {
	if strings.HasPrefix(p.s[p.i:], pre) {
		p.i += len(pre)
		return true
	}
	return false
}
func (p *tparser) peek() byte {
	if p.i < len(p.s) {
		return p.s[p.i]
	}
	return 0
}
func (p *tparser) ident() string {
	j := p.i
	for j < len(p.s) {
		r, n := utf8.DecodeRuneInString(p.s[j:])
		if r == '_' || unicode.IsLetter(r) || unicode.IsDigit(r) {
			j += n
		} else {
			break
		}
	}
	id := p.s[p.i:j]
	p.i = j
	return id
}

func unescapeTag(s string) string {
	var b []byte
	for i := 0; i < len(s); i++ {
		if s[i] == '%' && i+2 < len(s) {
			n, err := strconv.ParseUint(s[i+1:i+3], 16, 8)
			if err != nil {
				panic("gotypes: bad tag escape " + s)
			}
			b = append(b, byte(n))
			i += 2
		} else {
			b = append(b, s[i])
		}
	}
	return string(b)
}

func escapeTag(s string) string {
	var sb strings.Builder
	for i := 0; i < len(s); i++ {
		c := s[i]
		if c >= 'a' && c <= 'z' || c >= 'A' && c <= 'Z' || c >= '0' && c <= '9' || c == '_' || c == ',' || c == '.' || c == '-' {
			sb.WriteByte(c)
		} else {
			fmt.Fprintf(&sb, "%%%02x", c)
		}
	}
	return sb.String()
}

const harnessPkgPath = "sfharness/sfh"

func (p *tparser) typ() reflect.Type {
	switch {
	case p.has("[]"):
		return reflect.SliceOf(p.typ())
	case p.has("map["):
		k := p.typ()
		if !p.has("]") {
			p.fail("expected ]")
		}
		return reflect.MapOf(k, p.typ())
	case p.has("["):
		j := p.i
		for p.peek() >= '0' && p.peek() <= '9' {
			p.i++
		}
		n, err := strconv.Atoi(p.s[j:p.i])
		if err != nil || !p.has("]") {
			p.fail("bad array length")
		}
		return reflect.ArrayOf(n, p.typ())
	case p.has("*"):
		return reflect.PtrTo(p.typ())
	case p.has("chan:"):
		return reflect.ChanOf(reflect.BothDir, p.typ())
	case p.has("struct{"):
		var fs []reflect.StructField
		for !p.has("}") {
			if len(fs) > 0 && !p.has(";") {
				p.fail("expected ;")
			}
			anon := p.has("!")
			name := p.ident()
			if name == "" || !p.has(":") {
				p.fail("bad field")
			}
			ft := p.typ()
			f := reflect.StructField{Name: name, Type: ft, Anonymous: anon}
			if r, _ := utf8.DecodeRuneInString(name); !anon && !(unicode.IsUpper(r)) {
				f.PkgPath = harnessPkgPath
			}
			if p.has("`") {
				j := strings.IndexByte(p.s[p.i:], '`')
				if j < 0 {
					p.fail("unterminated tag")
				}
				f.Tag = reflect.StructTag("struct:" + strconv.Quote(unescapeTag(p.s[p.i:p.i+j])))
				p.i += j + 1
			}
			fs = append(fs, f)
		}
		return reflect.StructOf(fs)
	case p.has("@"):
		name := p.ident()
		t, ok := menByName[name]
		if !ok {
			p.fail("unknown menagerie type " + name)
		}
		return t
	}
	name := p.ident()
	if t, ok := basicTypes[name]; ok {
		return t
	}
	p.fail("unknown type " + name)
	return nil
}

// ParseType builds the reflect.Type a type token denotes; it panics on a malformed token.
func ParseType(s string) reflect.Type {
	p := &tparser{s: s}
	t := p.typ()
	if p.i != len(s) {
		p.fail("trailing input")
	}
	return t
}

func structTag(f reflect.StructField) string { return f.Tag.Get("struct") }

// PrintType is the inverse of ParseType (menagerie members print as @Name).
func PrintType(t reflect.Type) string {
	if n, ok := menByType[t]; ok {
		return "@" + n
	}
	return printTypeStruct(t)
}

// printTypeStruct prints one level structurally even for a menagerie member.
func printTypeStruct(t reflect.Type) string {
	switch t.Kind() {
	case reflect.Slice:
		return "[]" + PrintType(t.Elem())
	case reflect.Array:
		return "[" + strconv.Itoa(t.Len()) + "]" + PrintType(t.Elem())
	case reflect.Map:
		return "map[" + PrintType(t.Key()) + "]" + PrintType(t.Elem())
	case reflect.Ptr:
		return "*" + PrintType(t.Elem())
	case reflect.Chan:
		return "chan:" + PrintType(t.Elem())
	case reflect.Func:
		return "func"
	case reflect.Interface:
		return "any"
	case reflect.Struct:
		var fs []string
		for i := 0; i < t.NumField(); i++ {
			f := t.Field(i)
			s := f.Name + ":" + PrintType(f.Type)
			if f.Anonymous {
				s = "!" + s
			}
			if tag := structTag(f); tag != "" {
				s += "`" + escapeTag(tag) + "`"
			}
			fs = append(fs, s)
		}
		return "struct{" + strings.Join(fs, ";") + "}"
	}
	return t.Kind().String()
}

// TypeInfo: the reflect view of a type in the canonical form of the `typeinfo` op.
func TypeInfo(t reflect.Type) string {
	recv := func(ifc reflect.Type) string {
		if t.Implements(ifc) {
			return "v"
		}
		if reflect.PtrTo(t).Implements(ifc) {
			return "p"
		}
		return "-"
	}
	name := "-"
	if n, ok := menByType[t]; ok {
		name = n
	}
	out := fmt.Sprintf("%s kind=%s name=%s folder=%s iszero=%s under=%s", PrintType(t), t.Kind(), name, recv(tFolderI), recv(tIsZeroer), printTypeStruct(t))
	if t.Kind() == reflect.Struct {
		var fs []string
		for i := 0; i < t.NumField(); i++ {
			f := t.Field(i)
			r, _ := utf8.DecodeRuneInString(f.Name)
			fs = append(fs, fmt.Sprintf("%s/%s/%v/%v", f.Name, Hex([]byte(strings.ToLower(f.Name))), unicode.IsUpper(r), f.Anonymous))
		}
		out += " fields=" + strings.Join(fs, ",")
	}
	return out
}

// ---------------------------------------------------------------------------
// value parser / printer

type vparser struct {
	s string
	i int
}

func (p *vparser) fail(msg string) { panic(fmt.Sprintf("govalue: %s at %d in %q", msg, p.i, p.s)) }
func (p *vparser) has(pre string) bool {
	if strings.HasPrefix(p.s[p.i:], pre) {
		p.i += len(pre)
		return true
	}
	return false
}

// scalar token: up to one of , ] } ) = or the end
func (p *vparser) tok() string {
	j := p.i
	for j < len(p.s) && !strings.ContainsRune(",]})=", rune(p.s[j])) {
		j++
	}
	t := p.s[p.i:j]
	p.i = j
	return t
}

func setField(f reflect.Value, x reflect.Value) {
	if f.CanSet() {
		f.Set(x)
		return
	}
	reflect.NewAt(f.Type(), unsafe.Pointer(f.UnsafeAddr())).Elem().Set(x)
}

func (p *vparser) val(t reflect.Type) reflect.Value {
	v := reflect.New(t).Elem()
	switch t.Kind() {
	case reflect.Bool:
		switch p.tok() {
		case "true":
			v.SetBool(true)
		case "false":
		default:
			p.fail("bool expected")
		}
	case reflect.Int, reflect.Int8, reflect.Int16, reflect.Int32, reflect.Int64:
		n, err := strconv.ParseInt(p.tok(), 10, 64)
		if err != nil || v.OverflowInt(n) {
			p.fail("int out of range")
		}
		v.SetInt(n)
	case reflect.Uint, reflect.Uint8, reflect.Uint16, reflect.Uint32, reflect.Uint64, reflect.Uintptr:
		n, err := strconv.ParseUint(p.tok(), 10, 64)
		if err != nil || v.OverflowUint(n) {
			p.fail("uint out of range")
		}
		v.SetUint(n)
	case reflect.Float32:
		tk := p.tok()
		n, err := strconv.ParseUint(strings.TrimPrefix(tk, "f:"), 16, 32)
		if err != nil || !strings.HasPrefix(tk, "f:") {
			p.fail("float32 expected")
		}
		// via unsafe-free path that keeps NaN payloads: write the bits through a pointer
		*(*uint32)(unsafe.Pointer(v.UnsafeAddr())) = uint32(n)
	case reflect.Float64:
		tk := p.tok()
		n, err := strconv.ParseUint(strings.TrimPrefix(tk, "f:"), 16, 64)
		if err != nil || !strings.HasPrefix(tk, "f:") {
			p.fail("float64 expected")
		}
		*(*uint64)(unsafe.Pointer(v.UnsafeAddr())) = n
	case reflect.Complex64, reflect.Complex128:
		tk := p.tok()
		b := mustHex(strings.TrimPrefix(tk, "c:"))
		if t.Kind() == reflect.Complex64 && len(b) == 8 {
			re := math.Float32frombits(uint32(beU(b[:4])))
			im := math.Float32frombits(uint32(beU(b[4:])))
			v.SetComplex(complex(float64(re), float64(im)))
		} else if len(b) == 16 {
			v.SetComplex(complex(math.Float64frombits(beU(b[:8])), math.Float64frombits(beU(b[8:]))))
		} else {
			p.fail("complex expected")
		}
	case reflect.String:
		tk := p.tok()
		if !strings.HasPrefix(tk, "s:") {
			p.fail("string expected")
		}
		v.SetString(string(mustHex(tk[2:])))
	case reflect.Slice:
		if p.has("nil") {
			break
		}
		if !p.has("[") {
			p.fail("slice expected")
		}
		s := reflect.MakeSlice(t, 0, 0)
		for !p.has("]") {
			if s.Len() > 0 && !p.has(",") {
				p.fail("expected ,")
			}
			s = reflect.Append(s, p.val(t.Elem()))
		}
		v.Set(s)
	case reflect.Array:
		if !p.has("[") {
			p.fail("array expected")
		}
		for i := 0; i < t.Len(); i++ {
			if i > 0 && !p.has(",") {
				p.fail("expected ,")
			}
			v.Index(i).Set(p.val(t.Elem()))
		}
		if !p.has("]") {
			p.fail("expected ]")
		}
	case reflect.Map:
		if p.has("nil") {
			break
		}
		if !p.has("{") {
			p.fail("map expected")
		}
		m := reflect.MakeMap(t)
		for !p.has("}") {
			if m.Len() > 0 && !p.has(",") {
				p.fail("expected ,")
			}
			k := p.val(t.Key())
			if !p.has("=") {
				p.fail("expected =")
			}
			n := m.Len()
			m.SetMapIndex(k, p.val(t.Elem()))
			if m.Len() == n {
				p.fail("duplicate map key")
			}
		}
		v.Set(m)
	case reflect.Ptr:
		if p.has("nil") {
			break
		}
		if !p.has("&") {
			p.fail("pointer expected")
		}
		x := reflect.New(t.Elem())
		x.Elem().Set(p.val(t.Elem()))
		v.Set(x)
	case reflect.Interface:
		if p.has("nil") {
			break
		}
		if !p.has("<") {
			p.fail("interface expected")
		}
		j := strings.IndexByte(p.s[p.i:], '>')
		if j < 0 {
			p.fail("expected >")
		}
		dt := ParseType(p.s[p.i : p.i+j])
		p.i += j + 1
		v.Set(p.val(dt))
	case reflect.Struct:
		if !p.has("(") {
			p.fail("struct expected")
		}
		for i := 0; i < t.NumField(); i++ {
			if i > 0 && !p.has(",") {
				p.fail("expected ,")
			}
			setField(v.Field(i), p.val(t.Field(i).Type))
		}
		if !p.has(")") {
			p.fail("expected )")
		}
	case reflect.Chan, reflect.Func:
		if !p.has("nil") {
			p.fail("nil expected")
		}
	default:
		p.fail("unsupported kind " + t.Kind().String())
	}
	return v
}

func beU(b []byte) uint64 {
	var n uint64
	for _, x := range b {
		n = n<<8 | uint64(x)
	}
	return n
}

// ParseValue builds the value of type t a value token denotes (panics on a malformed token).
// The result is an addressable reflect.Value of exactly type t.
func ParseValue(t reflect.Type, s string) reflect.Value {
	p := &vparser{s: s}
	v := p.val(t)
	if p.i != len(s) {
		p.fail("trailing input")
	}
	return v
}

// floatBits reads the exact bit pattern of a float32/float64 value. Going through
// v.Float() would quiet a signalling float32 NaN (float32 -> float64 -> float32).
func floatBits(v reflect.Value) uint64 {
	if !v.CanAddr() {
		tmp := reflect.New(v.Type()).Elem()
		tmp.Set(clearRO(v))
		v = tmp
	}
	if v.Kind() == reflect.Float32 {
		return uint64(*(*uint32)(unsafe.Pointer(v.UnsafeAddr())))
	}
	return *(*uint64)(unsafe.Pointer(v.UnsafeAddr()))
}

// clearRO drops the "obtained through an unexported field" marker of a reflect.Value so
// that the value can be copied (harness-only hack; layout of reflect.Value: typ, ptr, flag).
func clearRO(v reflect.Value) reflect.Value {
	type rvalue struct {
		typ, ptr unsafe.Pointer
		flag     uintptr
	}
	const flagRO = 1<<5 | 1<<6
	(*rvalue)(unsafe.Pointer(&v)).flag &^= flagRO
	return v
}

// PrintValue is canonical: maps are sorted by their printed key; nil and empty
// slices / maps are distinguished.
func PrintValue(v reflect.Value) string {
	switch v.Kind() {
	case reflect.Bool:
		return strconv.FormatBool(v.Bool())
	case reflect.Int, reflect.Int8, reflect.Int16, reflect.Int32, reflect.Int64:
		return strconv.FormatInt(v.Int(), 10)
	case reflect.Uint, reflect.Uint8, reflect.Uint16, reflect.Uint32, reflect.Uint64, reflect.Uintptr:
		return strconv.FormatUint(v.Uint(), 10)
	case reflect.Float32:
		return fmt.Sprintf("f:%08x", floatBits(v))
	case reflect.Float64:
		return fmt.Sprintf("f:%016x", floatBits(v))
	case reflect.Complex64:
		c := v.Complex()
		return fmt.Sprintf("c:%08x%08x", math.Float32bits(float32(real(c))), math.Float32bits(float32(imag(c))))
	case reflect.Complex128:
		c := v.Complex()
		return fmt.Sprintf("c:%016x%016x", math.Float64bits(real(c)), math.Float64bits(imag(c)))
	case reflect.String:
		return "s:" + Hex([]byte(v.String()))
	case reflect.Slice:
		if v.IsNil() {
			return "nil"
		}
		fallthrough
	case reflect.Array:
		var es []string
		for i := 0; i < v.Len(); i++ {
			es = append(es, PrintValue(v.Index(i)))
		}
		return "[" + strings.Join(es, ",") + "]"
	case reflect.Map:
		if v.IsNil() {
			return "nil"
		}
		var es []string
		it := v.MapRange()
		for it.Next() {
			es = append(es, PrintValue(it.Key())+"="+PrintValue(it.Value()))
		}
		sort.Strings(es)
		return "{" + strings.Join(es, ",") + "}"
	case reflect.Ptr:
		if v.IsNil() {
			return "nil"
		}
		return "&" + PrintValue(v.Elem())
	case reflect.Interface:
		if v.IsNil() {
			return "nil"
		}
		return "<" + PrintType(v.Elem().Type()) + ">" + PrintValue(v.Elem())
	case reflect.Struct:
		var es []string
		for i := 0; i < v.NumField(); i++ {
			es = append(es, PrintValue(v.Field(i)))
		}
		return "(" + strings.Join(es, ",") + ")"
	case reflect.Chan, reflect.Func:
		return "nil"
	}
	return "?"
}
