package sfh

import "fmt"

// genFoldPtrCustom: pointers to types with a custom folder (registered fold function: UF, UO,
// UD; Fold method with pointer receiver: FP; with value receiver: FV, FS) reached THROUGH MEMORY
// — struct fields at several offsets, slice / array elements, map values, behind further
// pointers — and directly from an interface.  The folder must be handed the address of the
// value (C12: exactly what the folder emits; C15: no invalid pointer conversion on the way).
func genFoldPtrCustom(r *Rand, tier string, emit func(string)) {
	for _, c := range [][3]string{{"@UF", "(1)", "(2)"}, {"@UO", "(3,s:65)", "(4,s:)"}, {"@UD", "5", "-6"},
		{"@FP", "(7)", "(8)"}, {"@FPN", "(14)", "(15)"}, {"@FV", "(9,s:61)", "(10,s:)"}, {"@FS", "11", "12"},
		// pointer-shaped types with a registered fold function: held IN PLACE by an interface
		{"@UFM", "{s:61=1,s:62=2}", "nil"}, {"@UFP", "(&13)", "(nil)"}} {
		t, a, b := c[0], c[1], c[2]
		for _, tv := range [][2]string{
			{"*" + t, "&" + a}, {"**" + t, "&&" + a}, {"*" + t, "nil"}, {"**" + t, "&nil"},
			{"[]*" + t, "[&" + a + ",&" + b + "]"}, {"[]*" + t, "[&" + a + ",nil,&" + b + "]"}, {"[2]*" + t, "[&" + a + ",&" + b + "]"},
			{"[]**" + t, "[&&" + a + "]"}, {"map[string]*" + t, "{s:6b=&" + a + "}"}, {"map[string]*" + t, "{s:6b=nil}"},
			{"struct{P:*" + t + "}", "(&" + a + ")"}, {"struct{A:int;P:*" + t + ";Z:string}", "(1,&" + a + ",s:7a)"},
			{"struct{A:int8;P:*" + t + ";Q:*" + t + ";Z:int}", "(1,&" + a + ",&" + b + ",99)"},
			{"struct{A:int;P:*" + t + "`p,omitempty`}", "(1,&" + a + ")"}, {"struct{A:int;P:*" + t + "`p,omitempty`}", "(1,nil)"},
			{"struct{I:struct{B:int;P:*" + t + "}`,inline`;Z:int}", "((1,&" + b + "),2)"},
			{"*struct{A:int;P:*" + t + "}", "&(1,&" + a + ")"}, {"[]struct{P:*" + t + "}", "[(&" + a + "),(&" + b + ")]"},
			{"any", "<*" + t + ">&" + a}, {"[]any", "[<*" + t + ">&" + a + ",<**" + t + ">&&" + b + "]"},
			{"map[string]any", "{s:6b=<*" + t + ">&" + a + "}"}, {"struct{A:any;B:*any}", "(<*" + t + ">&" + a + ",&<*" + t + ">&" + b + ")"},
			{"any", "<[]*" + t + ">[&" + a + ",&" + b + "]"}, {"any", "<struct{A:int;P:*" + t + "}>(1,&" + a + ")"},
			{t, a}, {t, b}, {"any", "<" + t + ">" + a}, {"[]any", "[<" + t + ">" + a + ",<" + t + ">" + b + "]"},
			{"map[string]any", "{s:6b=<" + t + ">" + a + "}"}, {"struct{V:" + t + "}", "(" + a + ")"}, {"[1]" + t, "[" + a + "]"},
			{"any", "<struct{V:" + t + "}>(" + a + ")"}, {"any", "<[1]" + t + ">[" + b + "]"}, {"map[string]" + t, "{s:6b=" + a + "}"},
			{"[]" + t, "[" + a + "," + b + "]"}, {"struct{A:int;V:" + t + ";Z:int}", "(1," + a + ",2)"}, {"map[string]" + t, "{s:6b=" + b + "}"},
		} {
			emit(fmt.Sprintf("fold %s %s -1", tv[0], tv[1]))
		}
	}
}

func init() {
	for _, p := range []string{"C12", "C15", "XFOLD"} {
		RegisterGen(p, genFoldPtrCustom)
	}
}
